package main

// svcgen: services for C08 on top of an idlgen program (which is generated WITHOUT services): 2–4 services per
// program, every one with at least one own function, function names unique in the whole program (the
// synthesized <fn>_args/<fn>_result structs are then identified unambiguously), extends chains inside a file
// and into directly included files, void / value / oneway, 0–5 arguments (default / required / optional
// requiredness, explicit / sparse / negative / implicit ids, a few defaults), 0–3 distinct throws.
// With stress names: Go keywords and identifiers the templates use themselves.

import (
	"fmt"
	"strconv"
	"strings"

	"verifharness/internal/idlgen"
	"verifharness/internal/values"
	"verifharness/internal/vl"
)

type svcGen struct {
	r      *vl.Rng
	p      *idlgen.Program
	stress bool
	used   map[string]bool // normalised global names
	count  func(string)
	nfn    int
	nsvc   int
	nexc   int
	// streaming: functions annotated (streaming.mode = "<mode>"). idlgen's AST has no function annotations; the text
	// is carried by the (verbatim rendered) default of the single argument: `i32 a0 = 5) (streaming.mode = "unary"` + `)`.
	streaming map[*idlgen.Function]string
}

var streamingModes = []string{"unary", "client", "server", "bidirectional"}

func norm(s string) string { return strings.ToLower(strings.ReplaceAll(s, "_", "")) }

// names that thriftgo's templates use themselves (receivers, locals, methods) and Go keywords
var stressSvcNames = []string{"FooService", "foo_service", "api", "API", "Handler", "Client", "Processor", "base", "Base_", "type", "Service", "thrift", "context", "Exception", "new_svc", "svc_client"}
var stressFnNames = []string{"get", "Get_", "get_item", "ping", "new_client", "process", "call", "Send", "recv", "close", "String",
	"type", "func", "select", "range", "go", "default", "Process", "client", "handler", "New", "Write", "Read", "init",
	"success", "get_success", "ctx", "p", "err", "args", "result", "self", "add_to_processor_map", "ProcessorMap", "error", "Error", "oneway_", "void_"}
var stressArgNames = []string{"p", "ctx", "err", "r", "args", "result", "args_", "result_", "seqId", "iprot", "oprot", "self", "handler",
	"type", "range", "chan", "func", "success", "retval", "err2", "x", "v", "id", "ID", "user_id", "userId", "a_b", "String", "string", "error", "context", "thrift", "fmt", "ok", "name", "processor", "c", "t", "f"}
var stressThrowNames = []string{"err", "e", "ex", "error_", "exc", "success_", "r", "v", "x", "p", "result", "type", "e1", "E1", "err2"}

func (g *svcGen) global(prefix string, pool []string, ctr *int) string {
	if g.stress && g.r.Chance(60) {
		for try := 0; try < 20; try++ {
			s := pool[g.r.Intn(len(pool))]
			if g.r.Chance(25) {
				s += strconv.Itoa(g.r.Intn(9))
			}
			if !g.used[norm(s)] && !g.used[norm("New"+s)] && !g.used[norm(strings.TrimPrefix(s, "New"))] {
				g.used[norm(s)] = true
				return s
			}
		}
	}
	for {
		s := prefix + strconv.Itoa(*ctr)
		*ctr++
		if !g.used[norm(s)] {
			g.used[norm(s)] = true
			return s
		}
	}
}

func (g *svcGen) local(used map[string]bool, prefix string, pool []string) string {
	if g.stress && g.r.Chance(65) {
		for try := 0; try < 20; try++ {
			s := pool[g.r.Intn(len(pool))]
			if !used[norm(s)] {
				used[norm(s)] = true
				return s
			}
		}
	}
	for i := 0; ; i++ {
		s := prefix + strconv.Itoa(i)
		if !used[norm(s)] {
			used[norm(s)] = true
			return s
		}
	}
}

func base(k idlgen.Kind) *idlgen.Type { return &idlgen.Type{Kind: k} }

// typePool: types nameable in file fi.
func (g *svcGen) typePool(fi int) (pool []*idlgen.Type, keys []*idlgen.Type) {
	f := g.p.Files[fi]
	for k := idlgen.Bool; k <= idlgen.Binary; k++ {
		pool = append(pool, base(k))
	}
	keys = []*idlgen.Type{base(idlgen.I32), base(idlgen.String), base(idlgen.I64), base(idlgen.Byte), base(idlgen.I16), base(idlgen.Bool)}
	vis := append([]int{fi}, f.Includes...)
	for _, k := range vis {
		ff := g.p.Files[k]
		for _, st := range ff.Structs {
			pool = append(pool, &idlgen.Type{Kind: idlgen.Named, Named: &idlgen.NamedRef{File: k, Name: st.Name}})
		}
		for _, e := range ff.Enums {
			t := &idlgen.Type{Kind: idlgen.Named, Named: &idlgen.NamedRef{File: k, Name: e.Name}}
			pool = append(pool, t)
			keys = append(keys, t)
		}
		for _, td := range ff.Typedefs {
			pool = append(pool, &idlgen.Type{Kind: idlgen.Named, Named: &idlgen.NamedRef{File: k, Name: td.Name}})
		}
	}
	// field types of the file's own struct-likes are nameable here by construction (nested containers, typedef chains)
	for _, st := range f.Structs {
		for _, fd := range st.Fields {
			pool = append(pool, fd.Type)
		}
	}
	return
}

func (g *svcGen) genType(pool, keys []*idlgen.Type, depth int) *idlgen.Type {
	if depth > 0 && g.r.Chance(30) {
		switch g.r.Intn(3) {
		case 0:
			return &idlgen.Type{Kind: idlgen.List, Elem: g.genType(pool, keys, depth-1)}
		case 1:
			return &idlgen.Type{Kind: idlgen.Set, Elem: keys[g.r.Intn(len(keys))]}
		default:
			return &idlgen.Type{Kind: idlgen.Map, Key: keys[g.r.Intn(len(keys))], Elem: g.genType(pool, keys, depth-1)}
		}
	}
	return pool[g.r.Intn(len(pool))]
}

// ids assigns field ids: sequential, sparse, out of order, negative, or all implicit.
func (g *svcGen) ids(fs []*idlgen.Field, allowNeg bool) {
	if len(fs) == 0 {
		return
	}
	if g.r.Chance(10) { // implicit: previous + 1, first = 1
		for i, f := range fs {
			f.ID, f.HasID = int16(i+1), false
		}
		g.count("svc.ids.implicit")
		return
	}
	used := map[int16]bool{0: true}
	prev := int16(0)
	for _, f := range fs {
		var id int16
		for {
			switch x := g.r.Intn(100); {
			case x < 8 && allowNeg:
				id = -1 - int16(g.r.Intn(10))
			case x < 25:
				id = prev + 1 + int16(g.r.Intn(30))
			case x < 32:
				id = 1 + int16(g.r.Intn(40))
			case x < 35:
				id = []int16{32767, 255, 256, 128}[g.r.Intn(4)]
			default:
				id = prev + 1
			}
			if !used[id] {
				break
			}
			prev++
		}
		used[id] = true
		f.ID, f.HasID = id, true
		if id > 0 && id < 32000 {
			prev = id
		}
	}
}

func (g *svcGen) simpleDefault(t *idlgen.Type) *idlgen.Const {
	switch t.Kind {
	case idlgen.I32, idlgen.I64, idlgen.I16:
		v := int64(g.r.Intn(2000) - 1000)
		return &idlgen.Const{Kind: idlgen.CInt, Text: strconv.FormatInt(v, 10), Val: values.Int(v)}
	case idlgen.String:
		s := []string{"", "x", "hello", "a b"}[g.r.Intn(4)]
		return &idlgen.Const{Kind: idlgen.CString, Text: s, Quote: '"', Val: values.Str(s)}
	}
	return nil
}

func (g *svcGen) exceptions(fi int) []idlgen.NamedRef {
	f := g.p.Files[fi]
	var exc []idlgen.NamedRef
	for _, k := range append([]int{fi}, f.Includes...) {
		for _, st := range g.p.Files[k].Structs {
			if st.Kind == 'e' {
				exc = append(exc, idlgen.NamedRef{File: k, Name: st.Name})
			}
		}
	}
	for len(exc) < 3 {
		st := &idlgen.Struct{Kind: 'e', Name: g.global("Exc", []string{"Error", "error", "MyException", "not_found", "Exception_"}, &g.nexc)}
		st.Fields = append(st.Fields, &idlgen.Field{ID: 1, HasID: true, Name: "msg", Type: base(idlgen.String)})
		if g.r.Bool() {
			st.Fields = append(st.Fields, &idlgen.Field{ID: 2, HasID: true, Name: "code", Req: idlgen.Optional, Type: base(idlgen.I32)})
		}
		if g.r.Chance(30) {
			st.Fields = append(st.Fields, &idlgen.Field{ID: 5, HasID: true, Name: "tags", Type: &idlgen.Type{Kind: idlgen.List, Elem: base(idlgen.String)}})
		}
		f.Structs = append(f.Structs, st)
		if len(f.Order) > 0 {
			f.Order = append(f.Order, idlgen.DefRef{Kind: 's', Idx: len(f.Structs) - 1})
		}
		exc = append(exc, idlgen.NamedRef{File: fi, Name: st.Name})
		g.count("svc.exception.added")
	}
	return exc
}

func (g *svcGen) service(fi int) {
	f := g.p.Files[fi]
	exc := g.exceptions(fi) // before the pools: added exceptions are nameable types too
	pool, keys := g.typePool(fi)
	sv := &idlgen.Service{Name: g.global("Svc", stressSvcNames, &g.nsvc)}
	var bases []idlgen.NamedRef
	for _, o := range f.Services {
		bases = append(bases, idlgen.NamedRef{File: fi, Name: o.Name})
	}
	for _, k := range f.Includes {
		for _, o := range g.p.Files[k].Services {
			bases = append(bases, idlgen.NamedRef{File: k, Name: o.Name})
		}
	}
	if len(bases) > 0 && g.r.Chance(65) {
		b := bases[g.r.Intn(len(bases))]
		sv.Extends = &b
		if b.File != fi {
			g.count("svc.extends.cross_file")
			// a LOCAL, unrelated service with the name of the included base (and of the base's base): `extends inc.X` must
			// still mean the included one
			if g.r.Chance(60) {
				g.shadow(fi, b)
				if bb := g.p.Files[b.File].Services; true {
					for _, o := range bb {
						if o.Name == b.Name && o.Extends != nil && o.Extends.File != fi && g.r.Chance(60) {
							g.shadow(fi, *o.Extends)
						}
					}
				}
			}
		} else {
			g.count("svc.extends.same_file")
		}
	}
	for i, n := 0, 1+g.r.Intn(4); i < n; i++ {
		fn := &idlgen.Function{Name: g.global("fn", stressFnNames, &g.nfn)}
		if i > 0 && g.r.Chance(22) {
			// a streaming function: exactly one argument; removed by the go backend unless thrift_streaming is given
			mode := streamingModes[g.r.Intn(len(streamingModes))]
			if g.r.Bool() {
				fn.Ret = base(idlgen.I32)
			}
			fn.Args = []*idlgen.Field{{ID: 1, HasID: true, Name: "a0", Type: base(idlgen.I32),
				Default: &idlgen.Const{Kind: idlgen.CInt, Text: `5) (streaming.mode = "` + mode + `"`, Val: values.Int(5)}}}
			g.streaming[fn] = mode
			g.count("svc.fn.streaming." + mode)
			sv.Functions = append(sv.Functions, fn)
			continue
		}
		switch x := g.r.Intn(100); {
		case x < 15:
			fn.Oneway = true
			g.count("svc.fn.oneway")
		case x < 38:
			g.count("svc.fn.void")
		default:
			fn.Ret = g.genType(pool, keys, 2)
			g.count("svc.fn.value")
		}
		au := map[string]bool{}
		nargs := []int{0, 1, 1, 2, 2, 3, 4, 5}[g.r.Intn(8)]
		g.count(fmt.Sprintf("svc.fn.args.%d", nargs))
		for j := 0; j < nargs; j++ {
			a := &idlgen.Field{Name: g.local(au, "a", stressArgNames), Type: g.genType(pool, keys, 2)}
			switch x := g.r.Intn(100); {
			case x < 12:
				a.Req = idlgen.Optional
			case x < 24:
				a.Req = idlgen.Required
			}
			if g.r.Chance(15) {
				if d := g.simpleDefault(a.Type); d != nil {
					a.Default = d
					g.count("svc.arg.default")
				}
			}
			fn.Args = append(fn.Args, a)
		}
		g.ids(fn.Args, true)
		if !fn.Oneway {
			tu := map[string]bool{"success": true}
			thrown := map[idlgen.NamedRef]bool{}
			nth := []int{0, 0, 1, 1, 2, 3}[g.r.Intn(6)]
			for j := 0; j < nth; j++ {
				e := exc[g.r.Intn(len(exc))]
				if thrown[e] {
					continue
				}
				thrown[e] = true
				tf := &idlgen.Field{Name: g.local(tu, "e", stressThrowNames),
					Type: &idlgen.Type{Kind: idlgen.Named, Named: &idlgen.NamedRef{File: e.File, Name: e.Name}}}
				// a requiredness keyword in a throws list is accepted (warning) and ignored: the member of <fn>_result is
				// optional whatever is written (parser.parseThrows + checker.CheckFunctions); the schema says optional
				switch x := g.r.Intn(100); {
				case x < 25:
					tf.Req = idlgen.Required
					g.count("svc.throws.keyword.required")
				case x < 40:
					tf.Req = idlgen.Optional
					g.count("svc.throws.keyword.optional")
				}
				fn.Throws = append(fn.Throws, tf)
			}
			g.ids(fn.Throws, false)
			g.count(fmt.Sprintf("svc.fn.throws.%d", len(fn.Throws)))
		}
		sv.Functions = append(sv.Functions, fn)
	}
	f.Services = append(f.Services, sv)
	if len(f.Order) > 0 {
		f.Order = append(f.Order, idlgen.DefRef{Kind: 'v', Idx: len(f.Services) - 1})
	}
	g.count("svc.service")
}

func pkgOf(f *idlgen.File) string {
	if f.GoNS != "" {
		return f.GoNS
	}
	return "nons:" + f.Prefix()
}

// shadow declares in file fi a service named like `other` (a service of another file) with its own, disjoint functions,
// unless that name is taken in fi's Go package or fi shares its package with the other file.
func (g *svcGen) shadow(fi int, other idlgen.NamedRef) {
	f := g.p.Files[fi]
	if other.File == fi || pkgOf(f) == pkgOf(g.p.Files[other.File]) {
		return
	}
	for _, ff := range g.p.Files {
		if pkgOf(ff) != pkgOf(f) {
			continue
		}
		for _, o := range ff.Services {
			if norm(o.Name) == norm(other.Name) {
				return
			}
		}
	}
	sv := &idlgen.Service{Name: other.Name}
	for i, n := 0, 1+g.r.Intn(2); i < n; i++ {
		fn := &idlgen.Function{Name: g.global("fn", stressFnNames, &g.nfn)}
		if g.r.Bool() {
			fn.Ret = base(idlgen.I32)
		}
		if g.r.Bool() {
			fn.Args = []*idlgen.Field{{ID: 1, HasID: true, Name: "a0", Type: base(idlgen.String)}}
		}
		sv.Functions = append(sv.Functions, fn)
	}
	f.Services = append(f.Services, sv)
	if len(f.Order) > 0 {
		f.Order = append(f.Order, idlgen.DefRef{Kind: 'v', Idx: len(f.Services) - 1})
	}
	g.count("svc.shadow_of_included_service")
	g.count("svc.service")
}

// addServices puts nsvc services into the program (included files first so that extends can cross files).
func addServices(r *vl.Rng, p *idlgen.Program, stress bool, nsvc int, count func(string)) map[*idlgen.Function]string {
	g := &svcGen{r: r, p: p, stress: stress, used: map[string]bool{}, count: count, streaming: map[*idlgen.Function]string{}}
	for _, f := range p.Files {
		for _, t := range f.Typedefs {
			g.used[norm(t.Name)] = true
		}
		for _, t := range f.Enums {
			g.used[norm(t.Name)] = true
		}
		for _, t := range f.Structs {
			g.used[norm(t.Name)] = true
			g.used[norm("New"+t.Name)] = true
		}
		for _, t := range f.Consts {
			g.used[norm(t.Name)] = true
		}
		for _, t := range f.Services {
			g.used[norm(t.Name)] = true
		}
	}
	// hosting files: walk from the last file to the first, so that bases exist when a derived service is made
	var hosts []int
	for i := 0; i < nsvc; i++ {
		hosts = append(hosts, r.Intn(len(p.Files)))
	}
	// always one in the main file (it is the one thriftgo is invoked on)
	hosts[len(hosts)-1] = 0
	for fi := len(p.Files) - 1; fi >= 0; fi-- {
		for _, h := range hosts {
			if h == fi {
				g.service(fi)
			}
		}
	}
	return g.streaming
}

// ---------------------------------------------------------------- service tables (what goes to Lean)

type methodInfo struct {
	Name     string
	ArgsSidx int
	ResSidx  int // -1 for oneway
	Oneway   bool
	Void     bool
	NThrows  int
	Fn       *idlgen.Function
	Mode     string // streaming mode ("" = an ordinary function)
	NoDrive  bool   // arguments / result hold a member named `_…` somewhere: compiled and scanned, not called
}

type svcInfo struct {
	Idx     int
	File    int
	Name    string
	Base    int // -1
	Own     []*methodInfo // the functions the go backend keeps (not streaming)
	Removed []*methodInfo // streaming functions: removed from interface, client and processor (backend.go removeStreamingFunctions)
	All     []*methodInfo // own ++ base's All
	Service *idlgen.Service
}

// serviceTable derives the services of a program with the schema indexes of their synthesized structs.
func serviceTable(p *idlgen.Program, s *idlgen.Schema, streaming map[*idlgen.Function]string) []*svcInfo {
	sidx := map[string]int{}
	for i, st := range s.Structs {
		if st.Synth {
			sidx[fmt.Sprintf("%d/%s/%s", st.File, st.Service, st.Name)] = i
		}
	}
	var out []*svcInfo
	byRef := map[idlgen.NamedRef]*svcInfo{}
	for fi, f := range p.Files {
		for _, sv := range f.Services {
			si := &svcInfo{Idx: len(out), File: fi, Name: sv.Name, Base: -1, Service: sv}
			for _, fn := range sv.Functions {
				m := &methodInfo{Name: fn.Name, Oneway: fn.Oneway, Void: fn.Ret == nil, NThrows: len(fn.Throws), ResSidx: -1, Fn: fn}
				m.ArgsSidx = sidx[fmt.Sprintf("%d/%s/%s_args", fi, sv.Name, fn.Name)]
				if !fn.Oneway {
					m.ResSidx = sidx[fmt.Sprintf("%d/%s/%s_result", fi, sv.Name, fn.Name)]
				}
				m.NoDrive = underscoreField(s, m.ArgsSidx, map[int]bool{}) || (m.ResSidx >= 0 && underscoreField(s, m.ResSidx, map[int]bool{}))
				if mode, ok := streaming[fn]; ok {
					m.Mode = mode
					si.Removed = append(si.Removed, m)
					continue
				}
				si.Own = append(si.Own, m)
			}
			out = append(out, si)
			byRef[idlgen.NamedRef{File: fi, Name: sv.Name}] = si
		}
	}
	for _, si := range out {
		if si.Service.Extends != nil {
			si.Base = byRef[*si.Service.Extends].Idx
		}
	}
	var all func(si *svcInfo) []*methodInfo
	all = func(si *svcInfo) []*methodInfo {
		r := append([]*methodInfo{}, si.Own...)
		if si.Base >= 0 {
			r = append(r, all(out[si.Base])...)
		}
		return r
	}
	for _, si := range out {
		si.All = all(si)
	}
	return out
}

func (si *svcInfo) vLine(u string) string {
	var sb strings.Builder
	b := "-"
	if si.Base >= 0 {
		b = strconv.Itoa(si.Base)
	}
	// every function of the IDL service in IDL order, with its streaming mode ("-" = none): the MODEL applies the filter
	fmt.Fprintf(&sb, "V %s %d %s %d", u, si.Idx, b, len(si.Service.Functions))
	byFn := map[*idlgen.Function]*methodInfo{}
	for _, m := range append(append([]*methodInfo{}, si.Own...), si.Removed...) {
		byFn[m.Fn] = m
	}
	for _, fn := range si.Service.Functions {
		m := byFn[fn]
		res := "-"
		if m.ResSidx >= 0 {
			res = strconv.Itoa(m.ResSidx)
		}
		mode := "-"
		if m.Mode != "" {
			mode = m.Mode
		}
		fmt.Fprintf(&sb, " %s %d %s %s %s %d %s", vl.Hex(m.Name), m.ArgsSidx, res, vl.B(m.Oneway), vl.B(m.Void), m.NThrows, mode)
	}
	return sb.String()
}

func (si *svcInfo) method(name string) *methodInfo {
	for _, m := range si.All {
		if m.Name == name {
			return m
		}
	}
	return nil
}

func (si *svcInfo) removed(name string) *methodInfo {
	for _, m := range si.Removed {
		if m.Name == name {
			return m
		}
	}
	return &methodInfo{}
}

// regressionProgram is the minimal witness of the defect fixed by 6b9b20c (streaming functions of services in INCLUDED
// files were not removed): b.thrift declares Base with a unary and a client-streaming function, a.thrift's Main extends it.
func regressionProgram() (*idlgen.Program, map[*idlgen.Function]string) {
	stream := func(name, mode string, ret *idlgen.Type) *idlgen.Function {
		return &idlgen.Function{Name: name, Ret: ret, Args: []*idlgen.Field{{ID: 1, HasID: true, Name: "a0", Type: base(idlgen.I32),
			Default: &idlgen.Const{Kind: idlgen.CInt, Text: `5) (streaming.mode = "` + mode + `"`, Val: values.Int(5)}}}}
	}
	u, c, mu := stream("u", "unary", nil), stream("c", "client", base(idlgen.I32)), stream("mu", "bidirectional", nil)
	b := &idlgen.File{Path: "b.thrift", GoNS: "pb",
		Structs:  []*idlgen.Struct{{Kind: 's', Name: "SB", Fields: []*idlgen.Field{{ID: 1, HasID: true, Name: "x", Type: base(idlgen.I32)}}}},
		Services: []*idlgen.Service{{Name: "Base", Functions: []*idlgen.Function{{Name: "ping"}, u, c}}}}
	a := &idlgen.File{Path: "a.thrift", GoNS: "pa", Includes: []int{1},
		Structs: []*idlgen.Struct{{Kind: 's', Name: "SA", Fields: []*idlgen.Field{{ID: 1, HasID: true, Name: "x", Type: base(idlgen.I32)}}}},
		Services: []*idlgen.Service{{Name: "Main", Extends: &idlgen.NamedRef{File: 1, Name: "Base"},
			Functions: []*idlgen.Function{{Name: "m", Ret: base(idlgen.I32), Args: []*idlgen.Field{{ID: 1, HasID: true, Name: "a0", Type: base(idlgen.I32)}}}, mu}}}}
	return &idlgen.Program{Files: []*idlgen.File{a, b}}, map[*idlgen.Function]string{u: "unary", c: "client", mu: "bidirectional"}
}

func (m *methodInfo) drivable() bool { return !m.NoDrive }

// underscoreField: some struct reachable from struct sidx has a member whose IDL name starts with `_` (an unexported Go
// field, which the reflection driver cannot set)
func underscoreField(s *idlgen.Schema, sidx int, seen map[int]bool) bool {
	if seen[sidx] {
		return false
	}
	seen[sidx] = true
	var walk func(t *idlgen.RType) bool
	walk = func(t *idlgen.RType) bool {
		switch t.Kind {
		case idlgen.RStruct:
			return underscoreField(s, t.Sidx, seen)
		case idlgen.RList, idlgen.RSet:
			return walk(t.Elem)
		case idlgen.RMap:
			return walk(t.Key) || walk(t.Elem)
		}
		return false
	}
	for _, f := range s.Structs[sidx].Fields {
		if strings.HasPrefix(f.Name, "_") || walk(f.Type) {
			return true
		}
	}
	return false
}

func simpleStruct(name string) *idlgen.Struct {
	return &idlgen.Struct{Kind: 's', Name: name, Fields: []*idlgen.Field{{ID: 1, HasID: true, Name: "x", Type: base(idlgen.I32)}}}
}

func fld(id int16, name string, k idlgen.Kind) *idlgen.Field {
	return &idlgen.Field{ID: id, HasID: true, Name: name, Type: base(k)}
}

// shadowProgram: the aimed unit for `extends` across files when the extending file declares unrelated services with the
// names of the included base and of the base's base (the lookup of the base must go through the include, not by bare name).
//
//	c.thrift: service Root { i32 root_op(1: i32 a0) }
//	b.thrift: include c; service Root { void b_local_root() }  service Health extends c.Root { string status()  oneway void beat(1: i32 a0) }
//	a.thrift: include b; service Health { i32 local_check(1: i32 a0) }  service Root { void a_local_root() }
//	          service Gateway extends b.Health { i32 route(1: i32 a0) }  service Edge extends Gateway { void edge() }
func shadowProgram() (*idlgen.Program, map[*idlgen.Function]string) {
	c := &idlgen.File{Path: "c.thrift", GoNS: "pc", Structs: []*idlgen.Struct{simpleStruct("SC")},
		Services: []*idlgen.Service{{Name: "Root", Functions: []*idlgen.Function{{Name: "root_op", Ret: base(idlgen.I32), Args: []*idlgen.Field{fld(1, "a0", idlgen.I32)}}}}}}
	b := &idlgen.File{Path: "b.thrift", GoNS: "pb", Includes: []int{2}, Structs: []*idlgen.Struct{simpleStruct("SB")},
		Services: []*idlgen.Service{
			{Name: "Root", Functions: []*idlgen.Function{{Name: "b_local_root"}}},
			{Name: "Health", Extends: &idlgen.NamedRef{File: 2, Name: "Root"}, Functions: []*idlgen.Function{
				{Name: "status", Ret: base(idlgen.String)}, {Name: "beat", Oneway: true, Args: []*idlgen.Field{fld(1, "a0", idlgen.I32)}}}}}}
	a := &idlgen.File{Path: "a.thrift", GoNS: "pa", Includes: []int{1}, Structs: []*idlgen.Struct{simpleStruct("SA")},
		Services: []*idlgen.Service{
			{Name: "Health", Functions: []*idlgen.Function{{Name: "local_check", Ret: base(idlgen.I32), Args: []*idlgen.Field{fld(1, "a0", idlgen.I32)}}}},
			{Name: "Root", Functions: []*idlgen.Function{{Name: "a_local_root"}}},
			{Name: "Gateway", Extends: &idlgen.NamedRef{File: 1, Name: "Health"}, Functions: []*idlgen.Function{{Name: "route", Ret: base(idlgen.I32), Args: []*idlgen.Field{fld(1, "a0", idlgen.I32)}}}},
			{Name: "Edge", Extends: &idlgen.NamedRef{File: 0, Name: "Gateway"}, Functions: []*idlgen.Function{{Name: "edge"}}}}}
	return &idlgen.Program{Files: []*idlgen.File{a, b, c}}, map[*idlgen.Function]string{}
}

// every Go keyword, every predeclared identifier, and the identifiers the templates use themselves
var goKeywordNames = []string{"break", "default", "func", "interface", "select", "case", "defer", "go", "map", "struct", "chan", "else", "goto",
	"package", "switch", "const", "fallthrough", "if", "range", "type", "continue", "for", "import", "return", "var"}
var goPredeclaredNames = []string{"bool", "byte", "complex64", "complex128", "error", "float32", "float64", "int", "int8", "int16", "int32", "int64",
	"rune", "string", "uint", "uint8", "uint16", "uint32", "uint64", "uintptr", "any", "comparable", "true", "false", "iota", "nil", "append", "cap",
	"clear", "close", "complex", "copy", "delete", "imag", "len", "make", "max", "min", "new", "panic", "print", "println", "real", "recover"}
var templateNames = []string{"p", "err", "ctx", "r", "args", "result", "success", "self", "handler", "seqId", "iprot", "oprot", "retval", "err2", "x", "v",
	"name", "processor", "thrift", "context", "fmt", "ok", "c", "t", "f"}

// keywordProgram: the aimed unit for names. Every name of the three lists is a function name, an argument name (in a
// window of 6 per function, with int / string / list / struct types) and a throws member name (except `success`, which
// collides with the synthesized field: docs/C08.md), over value / void functions of four services, one extending another;
// `_result` and `_args` are arguments of one more function (compiled, not driven: unexported Go fields).
func keywordProgram() (*idlgen.Program, map[*idlgen.Function]string) {
	names := append(append(append([]string{}, goKeywordNames...), goPredeclaredNames...), templateNames...)
	f := &idlgen.File{Path: "a.thrift", GoNS: "pkw"}
	f.Structs = []*idlgen.Struct{simpleStruct("SK"),
		{Kind: 'e', Name: "XA", Fields: []*idlgen.Field{fld(1, "msg", idlgen.String)}},
		{Kind: 'e', Name: "XB", Fields: []*idlgen.Field{fld(1, "code", idlgen.I32)}}}
	ref := func(n string) *idlgen.Type { return &idlgen.Type{Kind: idlgen.Named, Named: &idlgen.NamedRef{File: 0, Name: n}} }
	types := []*idlgen.Type{base(idlgen.I32), base(idlgen.String), {Kind: idlgen.List, Elem: base(idlgen.I32)}, ref("SK"), base(idlgen.Bool), base(idlgen.I64)}
	svcs := []*idlgen.Service{{Name: "KwA"}, {Name: "KwB", Extends: &idlgen.NamedRef{File: 0, Name: "KwA"}}, {Name: "KwC"}, {Name: "KwD", Extends: &idlgen.NamedRef{File: 0, Name: "KwC"}}}
	pick := func(start, k int, skip string) []string {
		var out []string
		for j := 0; len(out) < k; j++ {
			n := names[(start+j)%len(names)]
			if n != skip {
				out = append(out, n)
			}
		}
		return out
	}
	for i, n := range names {
		fn := &idlgen.Function{Name: n}
		switch i % 3 {
		case 0:
			fn.Ret = base(idlgen.I32)
		case 1:
			fn.Ret = ref("SK")
		}
		for j, an := range pick(i, 6, "") {
			fn.Args = append(fn.Args, &idlgen.Field{ID: int16(j + 1), HasID: true, Name: an, Type: types[(i+j)%len(types)]})
		}
		if i%2 == 0 {
			for j, tn := range pick(i+3, 2, "success") {
				fn.Throws = append(fn.Throws, &idlgen.Field{ID: int16(j + 1), HasID: true, Name: tn, Type: ref([]string{"XA", "XB"}[j])})
			}
		}
		sv := svcs[i*len(svcs)/len(names)]
		sv.Functions = append(sv.Functions, fn)
	}
	svcs[3].Functions = append(svcs[3].Functions, &idlgen.Function{Name: "underscore_args", Ret: base(idlgen.I32),
		Args: []*idlgen.Field{fld(1, "_result", idlgen.I32), fld(2, "_args", idlgen.I32), fld(3, "nil", idlgen.String)}})
	f.Services = svcs
	return &idlgen.Program{Files: []*idlgen.File{f}}, map[*idlgen.Function]string{}
}

// requirednessProgram: the aimed unit for requiredness keywords in argument and throws lists.
//
//	exception Denied { 1: i32 code, 2: string why }   exception Busy { 1: string msg }
//	service Booking {
//	  i32  reserve(1: required string who, 2: optional i32 n, 3: i32 m) throws (1: required Denied d, 2: optional Busy b, 3: Busy c)
//	  void cancel(1: optional string who) throws (5: required Busy b)
//	  Denied probe() throws (1: required Denied d)
//	}
func requirednessProgram() (*idlgen.Program, map[*idlgen.Function]string) {
	ref := func(n string) *idlgen.Type { return &idlgen.Type{Kind: idlgen.Named, Named: &idlgen.NamedRef{File: 0, Name: n}} }
	req := func(f *idlgen.Field, r idlgen.Req) *idlgen.Field { f.Req = r; return f }
	thr := func(id int16, name, exc string, r idlgen.Req) *idlgen.Field {
		return &idlgen.Field{ID: id, HasID: true, Name: name, Type: ref(exc), Req: r}
	}
	f := &idlgen.File{Path: "a.thrift", GoNS: "preq"}
	f.Structs = []*idlgen.Struct{
		{Kind: 'e', Name: "Denied", Fields: []*idlgen.Field{fld(1, "code", idlgen.I32), fld(2, "why", idlgen.String)}},
		{Kind: 'e', Name: "Busy", Fields: []*idlgen.Field{fld(1, "msg", idlgen.String)}}}
	f.Services = []*idlgen.Service{{Name: "Booking", Functions: []*idlgen.Function{
		{Name: "reserve", Ret: base(idlgen.I32),
			Args:   []*idlgen.Field{req(fld(1, "who", idlgen.String), idlgen.Required), req(fld(2, "n", idlgen.I32), idlgen.Optional), fld(3, "m", idlgen.I32)},
			Throws: []*idlgen.Field{thr(1, "d", "Denied", idlgen.Required), thr(2, "b", "Busy", idlgen.Optional), thr(3, "c", "Busy2", idlgen.Default)}},
		{Name: "cancel", Args: []*idlgen.Field{req(fld(1, "who", idlgen.String), idlgen.Optional)}, Throws: []*idlgen.Field{thr(5, "b", "Busy", idlgen.Required)}},
		{Name: "probe", Ret: ref("Denied"), Throws: []*idlgen.Field{thr(1, "d", "Denied", idlgen.Required)}},
	}}}
	// two throws members of one function must not share their type (duplicate case in the type switch, BATCH-notes D10)
	f.Structs = append(f.Structs, &idlgen.Struct{Kind: 'e', Name: "Busy2", Fields: []*idlgen.Field{fld(1, "msg", idlgen.String)}})
	return &idlgen.Program{Files: []*idlgen.File{f}}, map[*idlgen.Function]string{}
}

// mustRejectProgram: a throws member that collides with the synthesized `success` of a value-returning function, by
// name ("success-name") or by id ("id-0"): rejected by the checker since fix ef66a8a.
func mustRejectProgram(kind string) (*idlgen.Program, map[*idlgen.Function]string) {
	t := &idlgen.Field{ID: 1, HasID: true, Name: "success", Type: &idlgen.Type{Kind: idlgen.Named, Named: &idlgen.NamedRef{File: 0, Name: "X"}}}
	if kind == "id-0" {
		t.ID, t.Name = 0, "e"
	}
	f := &idlgen.File{Path: "a.thrift", GoNS: "prej",
		Structs:  []*idlgen.Struct{{Kind: 'e', Name: "X", Fields: []*idlgen.Field{fld(1, "msg", idlgen.String)}}},
		Services: []*idlgen.Service{{Name: "S", Functions: []*idlgen.Function{{Name: "g", Ret: base(idlgen.I32), Throws: []*idlgen.Field{t}}}}}}
	return &idlgen.Program{Files: []*idlgen.File{f}}, map[*idlgen.Function]string{}
}
