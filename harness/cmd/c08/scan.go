package main

// scan: finds, by go/parser over the files thriftgo generated for one unit, the service interfaces, the
// client types with their three constructors, the processors, the Go method name of every IDL function
// (through the string literal in `p.Client_().Call(ctx, "<name>", …)` and `AddToProcessorMap("<name>", …)`)
// — nothing is predicted from the IDL names — and prints the Go source of (a) a recording handler per service
// implementing the generated interface (embedded base interfaces included) and (b) the registration of the
// service with the driver extension (drvsrc.go.txt).

import (
	"fmt"
	"go/ast"
	"go/parser"
	"go/token"
	"path"
	"path/filepath"
	"sort"
	"strconv"
	"strings"
)

type goMethod struct {
	name    string
	params  []ast.Expr // without ctx
	results []ast.Expr // without the trailing error
}

type goService struct {
	pkg      string // import path
	file     string
	imports  map[string]string // alias -> path, of the declaring file
	iface    string
	embeds   []ast.Expr
	methods  []goMethod
	procCtor string   // New<X>Processor
	procLits []string // AddToProcessorMap literals, in order
	baseProc ast.Expr // argument-less: the expression called to build the base processor (nil for a root)
	client   string   // <X>Client
	ctors    [3]string
	callLit  map[string]string // Go client method -> IDL name literal
	argsType map[string]string // Go client method -> `var _args T`
}

func importAlias(is *ast.ImportSpec) (alias, p string) {
	p, _ = strconv.Unquote(is.Path.Value)
	if is.Name != nil {
		return is.Name.Name, p
	}
	return path.Base(p), p
}

// scanUnit parses the generated .go files (paths relative to mod).
func scanUnit(mod string, files []string) ([]*goService, error) {
	fset := token.NewFileSet()
	var out []*goService
	for _, rel := range files {
		if !strings.HasSuffix(rel, ".go") {
			continue
		}
		af, err := parser.ParseFile(fset, filepath.Join(mod, rel), nil, parser.SkipObjectResolution)
		if err != nil {
			return nil, err
		}
		pkg := "batch/" + path.Dir(rel)
		imports := map[string]string{}
		for _, is := range af.Imports {
			a, p := importAlias(is)
			imports[a] = p
		}
		ifaces := map[string]*ast.InterfaceType{}
		funcs := map[string]*ast.FuncDecl{}
		methods := map[string][]*ast.FuncDecl{} // receiver type -> methods
		for _, d := range af.Decls {
			switch x := d.(type) {
			case *ast.GenDecl:
				for _, sp := range x.Specs {
					if ts, ok := sp.(*ast.TypeSpec); ok {
						if it, ok := ts.Type.(*ast.InterfaceType); ok {
							ifaces[ts.Name.Name] = it
						}
					}
				}
			case *ast.FuncDecl:
				if x.Recv == nil {
					funcs[x.Name.Name] = x
				} else if len(x.Recv.List) == 1 {
					t := x.Recv.List[0].Type
					if st, ok := t.(*ast.StarExpr); ok {
						t = st.X
					}
					if id, ok := t.(*ast.Ident); ok {
						methods[id.Name] = append(methods[id.Name], x)
					}
				}
			}
		}
		// a service = a function New<X>Processor(handler <X>) *<X>Processor whose parameter type is an interface of this file
		var names []string
		for n := range funcs {
			names = append(names, n)
		}
		sort.Strings(names)
		for _, n := range names {
			fd := funcs[n]
			if !strings.HasPrefix(n, "New") || !strings.HasSuffix(n, "Processor") || fd.Type.Params == nil || len(fd.Type.Params.List) != 1 {
				continue
			}
			pt, ok := fd.Type.Params.List[0].Type.(*ast.Ident)
			if !ok {
				continue
			}
			it, ok := ifaces[pt.Name]
			if !ok {
				continue
			}
			gs := &goService{pkg: pkg, file: rel, imports: imports, iface: pt.Name, procCtor: n, callLit: map[string]string{}, argsType: map[string]string{}}
			for _, m := range it.Methods.List {
				if len(m.Names) == 0 {
					gs.embeds = append(gs.embeds, m.Type)
					continue
				}
				ft, ok := m.Type.(*ast.FuncType)
				if !ok {
					continue
				}
				gm := goMethod{name: m.Names[0].Name}
				first := true
				for _, p := range ft.Params.List {
					k := len(p.Names)
					if k == 0 {
						k = 1
					}
					for i := 0; i < k; i++ {
						if first { // ctx context.Context
							first = false
							continue
						}
						gm.params = append(gm.params, p.Type)
					}
				}
				if ft.Results != nil {
					var rs []ast.Expr
					for _, p := range ft.Results.List {
						k := len(p.Names)
						if k == 0 {
							k = 1
						}
						for i := 0; i < k; i++ {
							rs = append(rs, p.Type)
						}
					}
					if len(rs) > 0 {
						gm.results = rs[:len(rs)-1]
					}
				}
				gs.methods = append(gs.methods, gm)
			}
			// processor constructor body: AddToProcessorMap literals, base processor constructor
			ast.Inspect(fd.Body, func(nd ast.Node) bool {
				ce, ok := nd.(*ast.CallExpr)
				if !ok {
					return true
				}
				if se, ok := ce.Fun.(*ast.SelectorExpr); ok && se.Sel.Name == "AddToProcessorMap" && len(ce.Args) == 2 {
					if bl, ok := ce.Args[0].(*ast.BasicLit); ok && bl.Kind == token.STRING {
						s, _ := strconv.Unquote(bl.Value)
						gs.procLits = append(gs.procLits, s)
					}
				}
				return true
			})
			// client: type <X>Client with the three constructors and one method per function
			x := strings.TrimSuffix(strings.TrimPrefix(n, "New"), "Processor")
			gs.client = x + "Client"
			for i, c := range []string{"New" + x + "Client", "New" + x + "ClientProtocol", "New" + x + "ClientFactory"} {
				if _, ok := funcs[c]; ok {
					gs.ctors[i] = c
				}
			}
			for _, md := range methods[gs.client] {
				if md.Body == nil {
					continue
				}
				ast.Inspect(md.Body, func(nd ast.Node) bool {
					switch y := nd.(type) {
					case *ast.CallExpr:
						if se, ok := y.Fun.(*ast.SelectorExpr); ok && se.Sel.Name == "Call" && len(y.Args) == 4 {
							if bl, ok := y.Args[1].(*ast.BasicLit); ok && bl.Kind == token.STRING {
								s, _ := strconv.Unquote(bl.Value)
								gs.callLit[md.Name.Name] = s
							}
						}
					case *ast.ValueSpec:
						if len(y.Names) == 1 && y.Names[0].Name == "_args" {
							if id, ok := y.Type.(*ast.Ident); ok {
								gs.argsType[md.Name.Name] = id.Name
							}
						}
					}
					return true
				})
			}
			out = append(out, gs)
		}
	}
	return out, nil
}

var predeclared = map[string]bool{"bool": true, "byte": true, "int8": true, "int16": true, "int32": true, "int64": true, "float64": true, "string": true, "error": true, "int": true, "uint8": true}

// importer hands out one alias per import path for the generated driver file.
type importer struct {
	alias map[string]string
	order []string
}

func (im *importer) of(p string) string {
	if a, ok := im.alias[p]; ok {
		return a
	}
	a := fmt.Sprintf("q%d", len(im.alias))
	im.alias[p] = a
	im.order = append(im.order, p)
	return a
}

// typeText prints a type expression of gs's file as seen from the driver package.
func typeText(im *importer, gs *goService, e ast.Expr) (string, error) {
	switch x := e.(type) {
	case *ast.Ident:
		if predeclared[x.Name] {
			return x.Name, nil
		}
		return im.of(gs.pkg) + "." + x.Name, nil
	case *ast.SelectorExpr:
		id, ok := x.X.(*ast.Ident)
		if !ok {
			return "", fmt.Errorf("unsupported selector")
		}
		p, ok := gs.imports[id.Name]
		if !ok {
			return "", fmt.Errorf("unknown import %s", id.Name)
		}
		return im.of(p) + "." + x.Sel.Name, nil
	case *ast.StarExpr:
		s, err := typeText(im, gs, x.X)
		return "*" + s, err
	case *ast.ArrayType:
		if x.Len != nil {
			return "", fmt.Errorf("array type")
		}
		s, err := typeText(im, gs, x.Elt)
		return "[]" + s, err
	case *ast.MapType:
		k, err := typeText(im, gs, x.Key)
		if err != nil {
			return "", err
		}
		v, err := typeText(im, gs, x.Value)
		return "map[" + k + "]" + v, err
	}
	return "", fmt.Errorf("unsupported type expression %T", e)
}
