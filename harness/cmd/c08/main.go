// c08: harness for property C08 (generated client and processor carry a call end to end).
// idlgen program + svcgen services -> batch.Build (thriftgo + go build) -> scan of the generated files
// (interfaces, clients, processors) -> synthesized recording handlers + driver extension (second, incremental
// go build) -> ops CALL / INJ / RECV -> oracle on the implementation alone (refcodec) -> ops.txt / impl.txt
// for the correspondence with the Lean model Gen.Rpc (tv_c08).
//
//	c08 run -repo R -dir D -seed N -tier quick|thorough [-keep]
//	c08 idl -seed N [-stress]            print one program
//	c08 replay -repo R -dir D -file f    re-run the unit/op of one oracle failure (bin/check --replay)
package main

import (
	_ "embed"
	"encoding/binary"
	"encoding/hex"
	"encoding/json"
	"errors"
	"flag"
	"fmt"
	"os"
	"os/exec"
	"path/filepath"
	"regexp"
	"sort"
	"strconv"
	"strings"
	"time"

	"verifharness/internal/batch"
	"verifharness/internal/idlgen"
	"verifharness/internal/refcodec"
	"verifharness/internal/values"
	"verifharness/internal/values/valgen"
	"verifharness/internal/vl"
)

//go:embed drvsrc.go.txt
var driverExt string

var optionSets = [][]string{
	{},
	{"naming_style=golint"},
	{"keep_unknown_fields"},
	{"value_type_in_container"},
	{"compatible_names"},
	{"gen_setter", "nil_safe"}, // not reorder_fields: it permutes the fields of declared structs, also on the wire (legal, but the byte comparison with the model is order sensitive)
	{"naming_style=apache", "json_enum_as_text"},
	{"enum_as_int_32", "gen_deep_equal"},
	{"validate_set=false"},
	{"ignore_initialisms", "frugal_tag"},
}

func has(opts []string, o string) bool {
	for _, x := range opts {
		if x == o {
			return true
		}
	}
	return false
}

func main() {
	if len(os.Args) < 2 {
		fmt.Fprintln(os.Stderr, "usage: c08 run|idl [flags]")
		os.Exit(2)
	}
	fs := flag.NewFlagSet(os.Args[1], flag.ExitOnError)
	repo := fs.String("repo", "/repo", "repository under test")
	dir := fs.String("dir", "", "output directory")
	seed := fs.Uint64("seed", 1, "seed")
	tier := fs.String("tier", "quick", "quick|thorough")
	nprog := fs.Int("programs", 0, "number of programs (0 = by tier)")
	stress := fs.Bool("stress", false, "idl: stress names")
	keep := fs.Bool("keep", false, "keep the work directory")
	only := fs.String("only", "", "replay: JSON file with {seed, program, op}")
	fs.Parse(os.Args[2:])
	switch os.Args[1] {
	case "extract":
		if err := extract(*repo); err != nil {
			fmt.Fprintln(os.Stderr, "c08 extract:", err)
			os.Exit(3)
		}
	case "idl":
		r := vl.NewRng(*seed)
		p, streaming := genProgram(r, *stress, func(string) {})
		files := p.Render()
		var names []string
		for n := range files {
			names = append(names, n)
		}
		sort.Strings(names)
		for _, n := range names {
			fmt.Printf("==== %s\n%s", n, files[n])
		}
		s := p.Schema()
		for _, l := range s.Lines("u0", nil) {
			fmt.Println(l)
		}
		for _, si := range serviceTable(p, s, streaming) {
			fmt.Println(si.vLine("u0"))
		}
	case "run":
		if *dir == "" {
			fmt.Fprintln(os.Stderr, "-dir is required")
			os.Exit(2)
		}
		n := *nprog
		if n == 0 {
			n = 8
			if *tier == "thorough" {
				n = 36
			}
		}
		os.Exit(run(*repo, *dir, *seed, n, *tier, *keep, *only))
	default:
		fmt.Fprintln(os.Stderr, "unknown subcommand", os.Args[1])
		os.Exit(2)
	}
}

func genProgram(r *vl.Rng, stress bool, count func(string)) (*idlgen.Program, map[*idlgen.Function]string) {
	cfg := idlgen.DefaultConfig()
	cfg.Services = false
	cfg.SafeNames = !stress
	cfg.MaxStructs, cfg.MaxFields, cfg.MaxConsts, cfg.MaxTypedefs = 3, 5, 1, 3
	p := idlgen.Generate(r, cfg)
	return p, addServices(r, p, stress, 2+r.Intn(3), count)
}

// ---------------------------------------------------------------- messages (harness side, independent of the model)

type message struct {
	name string
	typ  byte
	seq  int32
	body []byte
}

var errMsg = errors.New("not a strict binary-protocol message")

func splitMsg(b []byte) (*message, error) {
	if len(b) < 12 || b[0] != 0x80 || b[1] != 0x01 || b[2] != 0 {
		return nil, errMsg
	}
	n := int(binary.BigEndian.Uint32(b[4:8]))
	if n < 0 || 8+n+4 > len(b) {
		return nil, errMsg
	}
	return &message{name: string(b[8 : 8+n]), typ: b[3], seq: int32(binary.BigEndian.Uint32(b[8+n : 12+n])), body: b[12+n:]}, nil
}

func joinMsg(name string, typ byte, seq int32, body []byte) []byte {
	out := []byte{0x80, 0x01, 0x00, typ}
	var l [4]byte
	binary.BigEndian.PutUint32(l[:], uint32(len(name)))
	out = append(out, l[:]...)
	out = append(out, name...)
	binary.BigEndian.PutUint32(l[:], uint32(seq))
	out = append(out, l[:]...)
	return append(out, body...)
}

func oldStyleMsg(name string, typ byte, seq int32, body []byte) []byte {
	var l [4]byte
	binary.BigEndian.PutUint32(l[:], uint32(len(name)))
	out := append([]byte{}, l[:]...)
	out = append(out, name...)
	out = append(out, typ)
	binary.BigEndian.PutUint32(l[:], uint32(seq))
	out = append(out, l[:]...)
	return append(out, body...)
}

func appExcBody(msg string, typ int32) []byte {
	var fs []refcodec.RawField
	if len(msg) > 0 {
		var l [4]byte
		binary.BigEndian.PutUint32(l[:], uint32(len(msg)))
		fs = append(fs, refcodec.RawField{Type: 11, ID: 1, Value: append(l[:], msg...)})
	}
	var t [4]byte
	binary.BigEndian.PutUint32(t[:], uint32(typ))
	fs = append(fs, refcodec.RawField{Type: 8, ID: 2, Value: t[:]})
	return refcodec.Join(fs)
}

func parseAppExc(body []byte) (msg string, typ int32, err error) {
	fs, err := refcodec.Split(body)
	if err != nil {
		return "", 0, err
	}
	for _, f := range fs {
		switch {
		case f.ID == 1 && f.Type == 11 && len(f.Value) >= 4:
			msg = string(f.Value[4:])
		case f.ID == 2 && f.Type == 8 && len(f.Value) == 4:
			typ = int32(binary.BigEndian.Uint32(f.Value))
		}
	}
	return msg, typ, nil
}

func unhex(s string) ([]byte, bool) {
	if s == "-" {
		return nil, true
	}
	b, err := hex.DecodeString(s)
	return b, err == nil
}

func hexs(b []byte) string {
	if len(b) == 0 {
		return "-"
	}
	return hex.EncodeToString(b)
}

// canonMsg: the message with its body struct canonicalised (map entries sorted by encoded key); the text of a
// PROTOCOL_ERROR application exception (it quotes Go error texts) is replaced by "*".
func canonMsg(h string) string {
	if h == "-" {
		return "-"
	}
	b, ok := unhex(h)
	if !ok {
		return "raw:" + h
	}
	m, err := splitMsg(b)
	if err != nil {
		return "raw:" + h
	}
	body, err := refcodec.Canon(m.body)
	if err != nil {
		return "raw:" + h
	}
	if m.typ == 3 {
		if _, t, err := parseAppExc(m.body); err == nil && t == 7 {
			body = appExcBody("*", 7)
		}
	}
	return hexs(joinMsg(m.name, m.typ, m.seq, body))
}

// ---------------------------------------------------------------- cases

type callSpec struct {
	m       *methodInfo
	args    *values.Value // record
	argsN   *values.Value // normal form (nil: none, the processor must answer PROTOCOL_ERROR)
	kind    string        // ok exc err
	exc     int
	val     *values.Value // ok: the value, exc: the exception record
	resN    *values.Value // normal form of the expected <fn>_result record (nil: none -> caller gets an error)
	errMsg  string
	noCheck string // non-empty: no oracle for the outcome (reason)
}

type opCase struct {
	unit  *batch.UnitInfo
	svc   *svcInfo
	kind  string // CALL INJ RECV
	line  string
	calls []*callSpec
	seq0  int32
	// INJ / RECV expectations
	expect  map[string]string // what the oracle checks, see verdict
	damaged bool
}

type caseGen struct {
	r     *vl.Rng
	u     *batch.UnitInfo
	table []*svcInfo
	out   *vl.Out
	vcfg  valgen.Config
}

// valueOf generates a value of one resolved type through a one-field wrapper struct appended to a copy of the schema.
func (g *caseGen) wrapper(t *idlgen.RType) (*idlgen.Schema, int) {
	s2 := &idlgen.Schema{Structs: append(append([]*idlgen.SStruct{}, g.u.Schema.Structs...),
		&idlgen.SStruct{Name: "wrap", Kind: 's', Fields: []*idlgen.SField{{ID: 1, Name: "v", Req: idlgen.Default, Type: t}}}), NFiles: g.u.Schema.NFiles}
	return s2, len(s2.Structs) - 1
}

func (g *caseGen) valueOf(t *idlgen.RType, depth int, cfg valgen.Config) *values.Value {
	s2, i := g.wrapper(t)
	return valgen.Gen(g.r, s2, i, depth, cfg).E[0]
}

// mkCall: one scripted call. clean = arguments and answer have a normal form (both readers run to the end).
func (g *caseGen) mkCall(m *methodInfo, clean bool) *callSpec {
	for try := 0; try < 12; try++ {
		c := g.mkCall1(m, clean)
		if c == nil {
			return nil
		}
		if !clean || (c.argsN != nil && (c.resN != nil || c.kind == "err" || m.Oneway)) {
			return c
		}
	}
	return nil // e.g. an argument type with a required recursive member: no value of it has a normal form
}

// nilUnion: the value holds a nil pointer where a union is expected outside an optional field (a container element, a
// map value, a non-optional field): the generated Write panics on it (BATCH-notes D13) — not generated here.
func nilUnion(s *idlgen.Schema, t *idlgen.RType, v *values.Value, optional bool) bool {
	switch t.Kind {
	case idlgen.RStruct:
		st := s.Structs[t.Sidx]
		if v.IsNil() {
			return !optional && st.Kind == 'u'
		}
		for i, f := range st.Fields {
			if i < len(v.E) && nilUnion(s, f.Type, v.E[i], f.Req == idlgen.Optional) {
				return true
			}
		}
	case idlgen.RList, idlgen.RSet:
		if !v.IsNil() {
			for _, e := range v.E {
				if nilUnion(s, t.Elem, e, false) {
					return true
				}
			}
		}
	case idlgen.RMap:
		if !v.IsNil() {
			for i := 0; i+1 < len(v.E); i += 2 {
				if nilUnion(s, t.Key, v.E[i], false) || nilUnion(s, t.Elem, v.E[i+1], false) {
					return true
				}
			}
		}
	}
	return false
}

func (g *caseGen) mkCall1(m *methodInfo, clean bool) *callSpec {
	saved := g.vcfg.NilElems
	defer func() { g.vcfg.NilElems = saved }()
	for try := 0; ; try++ {
		if try > 8 {
			g.vcfg.NilElems = false // no nil pointers inside containers at all
		}
		c := g.mkCall2(m, clean)
		s := g.u.Schema
		bad := nilUnion(s, &idlgen.RType{Kind: idlgen.RStruct, Sidx: m.ArgsSidx}, c.args, false)
		// a value the reference codec refuses to encode (a union whose only member equals its declared default counts
		// as unset: Write refuses it, C02) never leaves the writer in one piece: not generated here
		if _, err := refcodec.Encode(s, m.ArgsSidx, c.args); err != nil {
			bad = true
		}
		if !bad && c.val != nil && !m.Oneway && c.kind != "err" {
			rs := s.Structs[m.ResSidx]
			k := 0
			if c.kind == "exc" {
				k = c.exc
				if !m.Void {
					k++
				}
			}
			if k < len(rs.Fields) && !(c.kind == "ok" && m.Void) {
				bad = nilUnion(s, rs.Fields[k].Type, c.val, true)
				e := &values.Value{K: values.KRecord, E: make([]*values.Value, len(rs.Fields))}
				for i := range e.E {
					e.E[i] = values.Nil()
				}
				e.E[k] = c.val
				if _, err := refcodec.Encode(s, m.ResSidx, e); err != nil {
					bad = true
				}
			}
		}
		if !bad {
			return c
		}
		if try > 40 {
			g.out.Count("case.unwritable_skipped")
			return nil
		}
		g.out.Count("case.unwritable_regenerated")
	}
}

func (g *caseGen) mkCall2(m *methodInfo, clean bool) *callSpec {
	s := g.u.Schema
	cfg := g.vcfg
	cfg.NoNilRequired = clean || !g.r.Chance(25)
	c := &callSpec{m: m}
	c.args = valgen.Gen(g.r, s, m.ArgsSidx, 1+g.r.Intn(4), cfg)
	if n, err := refcodec.Normal(s, m.ArgsSidx, c.args); err == nil {
		c.argsN = n
	}
	res := func() *values.Value { // the expected <fn>_result record, all unset
		rs := s.Structs[m.ResSidx]
		rec := &values.Value{K: values.KRecord, E: make([]*values.Value, len(rs.Fields))}
		for i := range rec.E {
			rec.E[i] = values.Nil()
		}
		return rec
	}
	x := g.r.Intn(100)
	switch {
	case m.Oneway:
		if x < 80 {
			c.kind, c.val = "ok", values.Nil()
		} else {
			c.kind, c.errMsg = "err", "boom"
		}
	case x < 22:
		c.kind, c.errMsg = "err", []string{"boom", "", "handler failed: x"}[g.r.Intn(3)]
	case x < 55 && m.NThrows > 0:
		c.kind, c.exc = "exc", g.r.Intn(m.NThrows)
		rs := s.Structs[m.ResSidx]
		k := c.exc
		if !m.Void {
			k++
		}
		if g.r.Chance(4) {
			c.val = values.Nil() // a typed nil pointer returned as error
			c.noCheck = "typed_nil_exception"
		} else {
			c.val = valgen.Gen(g.r, s, rs.Fields[k].Type.Sidx, 1+g.r.Intn(3), cfg)
		}
		e := res()
		e.E[k] = c.val
		if n, err := refcodec.Normal(s, m.ResSidx, e); err == nil {
			c.resN = n
		}
	default:
		c.kind = "ok"
		if m.Void {
			c.val = values.Nil()
			c.resN = res()
		} else {
			rs := s.Structs[m.ResSidx]
			c.val = g.valueOf(rs.Fields[0].Type, 1+g.r.Intn(4), cfg)
			if c.val.IsNil() && !rs.Fields[0].Nillable() {
				c.val = idlgen.ZeroOf(rs.Fields[0].Type)
			}
			e := res()
			e.E[0] = c.val
			if n, err := refcodec.Normal(s, m.ResSidx, e); err == nil {
				c.resN = n
			}
		}
	}
	return c
}

func (c *callSpec) text() string {
	var a string
	switch c.kind {
	case "ok":
		a = "ok " + c.val.String()
	case "exc":
		a = fmt.Sprintf("exc %d %s", c.exc, c.val.String())
	default:
		a = "err " + vl.Hex(c.errMsg)
	}
	return vl.Hex(c.m.Name) + " " + c.args.String() + " " + a
}

func (g *caseGen) seq0() int32 {
	switch x := g.r.Intn(100); {
	case x < 50:
		return 0
	case x < 60:
		return 2147483646 // wraps within a short sequence
	case x < 68:
		return -2
	case x < 75:
		return -2147483648
	default:
		return int32(g.r.U64())
	}
}

func (g *caseGen) ctor() string { return []string{"c", "p", "f"}[g.r.Intn(3)] }

func (g *caseGen) callLine(svc *svcInfo, calls []*callSpec) *opCase {
	oc := &opCase{unit: g.u, svc: svc, kind: "CALL", calls: calls, seq0: g.seq0()}
	var sb strings.Builder
	ctor := g.ctor()
	if g.r.Bool() {
		ctor += "b" // the server answers through a buffered transport: what it does not flush does not arrive
		g.out.Count("case.server_output.buffered")
	} else {
		g.out.Count("case.server_output.unbuffered")
	}
	fmt.Fprintf(&sb, "CALL %s:%d %s %d %d", g.u.Key, svc.Idx, ctor, oc.seq0, len(calls))
	for _, c := range calls {
		sb.WriteString(" " + c.text())
		g.out.Count("case.answer." + c.kind)
		if c.argsN == nil {
			g.out.Count("case.args.no_normal_form")
		} else if c.resN == nil && c.kind != "err" && !c.m.Oneway {
			g.out.Count("case.result.no_normal_form")
		}
	}
	oc.line = sb.String()
	return oc
}

func (g *caseGen) randomName(svc *svcInfo) string {
	for {
		n := []string{"nosuch", "", "Fn0", "x", "fn999", "ping_"}[g.r.Intn(6)]
		if g.r.Chance(40) && len(svc.All) > 0 {
			n = svc.All[g.r.Intn(len(svc.All))].Name + []string{"_", "x", " "}[g.r.Intn(3)]
		}
		if svc.method(n) == nil {
			return n
		}
	}
}

// cases of one service
func (g *caseGen) service(svc *svcInfo, nper int) []*opCase {
	var out []*opCase
	s := g.u.Schema
	key := fmt.Sprintf("%s:%d", g.u.Key, svc.Idx)
	// methods with an argument whose IDL name starts with `_` have unexported Go struct fields: the reflection driver
	// cannot build their arguments; they are compiled and scanned, not called
	var drive []*methodInfo
	for _, m := range svc.All {
		if m.drivable() {
			drive = append(drive, m)
		} else {
			g.out.Count("case.method_not_driven_underscore_member")
		}
	}
	// single calls: every reachable method, several answers
	for _, m := range drive {
		for k := 0; k < nper; k++ {
			if c := g.mkCall(m, false); c != nil {
				out = append(out, g.callLine(svc, []*callSpec{c}))
			}
		}
	}
	// sequences on one connection
	for k := 0; k < 3 && len(drive) > 0; k++ {
		n := 2 + g.r.Intn(19)
		if k == 0 {
			n = 2 + g.r.Intn(4)
		}
		var calls []*callSpec
		for i := 0; i < n; i++ {
			// a call whose arguments or answer have no normal form stops a reader half way: last call only
			if c := g.mkCall(drive[g.r.Intn(len(drive))], i != n-1 || g.r.Chance(70)); c != nil {
				calls = append(calls, c)
			}
		}
		if len(calls) == 0 {
			continue
		}
		g.out.Count(fmt.Sprintf("case.sequence.len.%d", len(calls)))
		out = append(out, g.callLine(svc, calls))
	}
	// injected requests
	inj := func(b []byte, answer string, expect map[string]string, damaged bool) {
		out = append(out, &opCase{unit: g.u, svc: svc, kind: "INJ", line: fmt.Sprintf("INJ %s %s %s", key, hexs(b), answer), expect: expect, damaged: damaged})
	}
	for k := 0; k < 2; k++ { // unknown method
		name := g.randomName(svc)
		seq := int32(g.r.U64())
		body := refcodec.Sample(g.r, refcodec.TStruct, 0)
		typ := byte([]int{1, 1, 4, 2, 3, 0, 9}[g.r.Intn(7)])
		inj(joinMsg(name, typ, seq, body), "err -", map[string]string{"unknown": name, "seq": strconv.Itoa(int(seq))}, false)
		g.out.Count("case.inj.unknown_method")
	}
	// a streaming function (removed by the backend because thrift_streaming is off) is unknown to the processor,
	// also when it was declared in an ancestor
	for cur := svc; cur != nil; {
		for _, m := range cur.Removed {
			rec := &values.Value{K: values.KRecord, E: []*values.Value{values.Int(int64(g.r.Intn(100)))}}
			if body, err := refcodec.Encode(s, m.ArgsSidx, rec); err == nil {
				seq := int32(g.r.U64())
				inj(joinMsg(m.Name, 1, seq, body), "err -", map[string]string{"unknown": m.Name, "seq": strconv.Itoa(int(seq)), "streaming": m.Mode + ":" + where(cur.File)}, false)
				g.out.Count("case.inj.streaming_function." + m.Mode)
			}
		}
		if cur.Base >= 0 {
			cur = g.table[cur.Base]
		} else {
			cur = nil
		}
	}
	// a method of a DERIVED service sent to this (base) service's processor is unknown here
	for _, other := range g.table {
		if other.Base == svc.Idx && len(other.Own) > 0 {
			m := other.Own[0]
			body, err := refcodec.Encode(s, m.ArgsSidx, valgen.Gen(g.r, s, m.ArgsSidx, 2, g.vcfg))
			if err == nil {
				inj(joinMsg(m.Name, 1, 7, body), "err -", map[string]string{"unknown": m.Name, "seq": "7"}, false)
				g.out.Count("case.inj.derived_method_on_base")
			}
		}
	}
	for _, m := range drive {
		c := g.mkCall(m, true)
		if c == nil {
			continue
		}
		body, err := refcodec.Encode(s, m.ArgsSidx, c.args)
		if err != nil {
			continue
		}
		ans := strings.SplitN(c.text(), " "+c.args.String()+" ", 2)[1]
		seq := int32(g.r.U64())
		switch g.r.Intn(5) {
		case 0: // message type is ignored by the processor
			inj(joinMsg(m.Name, byte([]int{4, 2, 3, 0, 200}[g.r.Intn(5)]), seq, body), ans, map[string]string{"known": m.Name}, false)
			g.out.Count("case.inj.other_message_type")
		case 1: // old (unversioned) header, accepted because strictRead is off by default
			inj(oldStyleMsg(m.Name, 1, seq, body), ans, map[string]string{"known": m.Name}, false)
			g.out.Count("case.inj.old_header")
		case 2: // an unknown field inside the args
			if fs, err := refcodec.Split(body); err == nil {
				id := int16(3000 + g.r.Intn(1000))
				t := refcodec.AllTypes[g.r.Intn(len(refcodec.AllTypes))]
				pos := g.r.Intn(len(fs) + 1)
				fs2 := append(append(append([]refcodec.RawField{}, fs[:pos]...), refcodec.RawField{Type: t, ID: id, Value: refcodec.Sample(g.r, t, 0)}), fs[pos:]...)
				inj(joinMsg(m.Name, 1, seq, refcodec.Join(fs2)), ans, map[string]string{"known": m.Name}, false)
				g.out.Count("case.inj.unknown_arg_field")
			}
		case 3: // truncated
			full := joinMsg(m.Name, 1, seq, body)
			inj(full[:g.r.Intn(len(full))], ans, map[string]string{}, true)
			g.out.Count("case.inj.truncated")
		default: // bad version word
			full := joinMsg(m.Name, 1, seq, body)
			full[1] = byte(2 + g.r.Intn(50))
			inj(full, ans, map[string]string{}, true)
			g.out.Count("case.inj.bad_version")
		}
	}
	// canned replies
	for _, m := range drive {
		if m.Oneway && !g.r.Chance(30) {
			continue
		}
		for k := 0; k < 3; k++ {
			c := g.mkCall(m, true)
			if c == nil {
				continue
			}
			seq0 := g.seq0()
			seq := seq0 + 1 // int32 wrap is what Go does
			var reply []byte
			exp := map[string]string{}
			var body []byte
			bodyBad := false
			if !m.Oneway {
				rec := valgen.Gen(g.r, s, m.ResSidx, 1+g.r.Intn(3), g.vcfg) // any subset of success / exceptions set
				b, err := refcodec.Encode(s, m.ResSidx, rec)
				if err != nil {
					continue
				}
				body = b
				if _, err := refcodec.Decode(s, m.ResSidx, b); err != nil {
					bodyBad = true // a required member is missing somewhere inside: the client's reader stops half way
				}
			} else {
				body = []byte{0}
			}
			switch x := g.r.Intn(9); x {
			case 0:
				reply = joinMsg(m.Name, 2, seq, body)
				if bodyBad {
					exp["damaged"] = "1"
				}
				g.out.Count("case.recv.reply_any_fields")
			case 1:
				reply = joinMsg(m.Name, 2, seq+1+int32(g.r.Intn(5)), body)
				exp["app"] = "4"
				g.out.Count("case.recv.bad_seqid")
			case 2:
				reply = joinMsg(g.randomName(svc), 2, seq, body)
				exp["app"] = "3"
				g.out.Count("case.recv.wrong_name")
			case 3:
				reply = joinMsg(m.Name, byte([]int{1, 4, 0, 5, 77}[g.r.Intn(5)]), seq, body)
				exp["app"] = "2"
				g.out.Count("case.recv.invalid_type")
			case 4:
				t := int32(g.r.Intn(12))
				reply = joinMsg(m.Name, 3, seq, appExcBody([]string{"", "some text", "x"}[g.r.Intn(3)], t))
				exp["app"] = strconv.Itoa(int(t))
				g.out.Count("case.recv.app_exception")
			case 5: // application exception with an unknown extra field and a retagged one
				fs := []refcodec.RawField{{Type: 8, ID: 1, Value: []byte{0, 0, 0, 9}}, {Type: 11, ID: 9, Value: []byte{0, 0, 0, 1, 65}}, {Type: 8, ID: 2, Value: []byte{0, 0, 0, 6}}}
				reply = joinMsg(m.Name, 3, seq, refcodec.Join(fs))
				exp["app"] = "6"
				g.out.Count("case.recv.app_exception_odd")
			case 6: // unknown field in the result struct
				if fs, err := refcodec.Split(body); err == nil {
					t := refcodec.AllTypes[g.r.Intn(len(refcodec.AllTypes))]
					fs = append([]refcodec.RawField{{Type: t, ID: int16(4000 + g.r.Intn(100)), Value: refcodec.Sample(g.r, t, 0)}}, fs...)
					reply = joinMsg(m.Name, 2, seq, refcodec.Join(fs))
				} else {
					reply = joinMsg(m.Name, 2, seq, body)
				}
				if bodyBad {
					exp["damaged"] = "1"
				}
				g.out.Count("case.recv.unknown_result_field")
			case 7: // truncated reply
				full := joinMsg(m.Name, 2, seq, body)
				reply = full[:g.r.Intn(len(full))]
				exp["damaged"] = "1"
				g.out.Count("case.recv.truncated")
			default: // empty result struct: nothing set
				reply = joinMsg(m.Name, 2, seq, []byte{0})
				g.out.Count("case.recv.empty_result")
			}
			if m.Oneway {
				exp = map[string]string{"oneway": "1"}
			}
			out = append(out, &opCase{unit: g.u, svc: svc, kind: "RECV", calls: []*callSpec{c}, seq0: seq0, expect: exp, damaged: exp["damaged"] != "",
				line: fmt.Sprintf("RECV %s %s %d %s %s %s", key, g.ctor(), seq0, vl.Hex(m.Name), c.args.String(), hexs(reply))})
		}
	}
	return out
}

// ---------------------------------------------------------------- answers: canonical form and oracle

type callAns struct{ req, log, reply, outcome string }

// splitCallAnswer cuts the driver's CALL answer into per-call parts.
func splitCallAnswer(ans string) (calls []callAns, left [2]string, ok bool) {
	i := strings.LastIndex(ans, " ; ")
	if i < 0 {
		return nil, left, false
	}
	lf := strings.Fields(ans[i+3:])
	if len(lf) != 2 {
		return nil, left, false
	}
	left = [2]string{lf[0], lf[1]}
	for _, part := range strings.Split(ans[:i], " | ") {
		toks := strings.Fields(part)
		if len(toks) < 4 {
			return nil, left, false
		}
		ca := callAns{req: toks[0]}
		rest := toks[1:]
		if rest[0] == "H-" || rest[0] == "H?" || rest[0] == "Hpanic" {
			ca.log = rest[0]
			rest = rest[1:]
		} else if rest[0] == "H" && len(rest) > 2 {
			_, after, err := values.ParseTokens(rest[2:])
			if err != nil {
				return nil, left, false
			}
			ca.log = strings.Join(rest[:len(rest)-len(after)], " ")
			rest = after
		} else {
			return nil, left, false
		}
		if len(rest) < 2 {
			return nil, left, false
		}
		ca.reply = rest[0]
		ca.outcome = strings.Join(rest[1:], " ")
		calls = append(calls, ca)
	}
	return calls, left, true
}

func canonOutcome(o string) string {
	if strings.HasPrefix(o, "app 7 ") {
		return "app 7 2a"
	}
	return o
}

// canonical: the implementation's answer as it goes to impl.txt.
func canonical(oc *opCase, ans string) string {
	switch oc.kind {
	case "CALL":
		calls, left, ok := splitCallAnswer(ans)
		if !ok || len(calls) != len(oc.calls) {
			return ans
		}
		var parts []string
		for i, ca := range calls {
			c := oc.calls[i]
			parts = append(parts, canonMsg(ca.req)+" "+ca.log+" "+canonMsg(ca.reply)+" "+canonOutcome(ca.outcome))
			if c.argsN == nil {
				left[0] = "*" // the processor's reader stopped half way
			}
			if c.argsN != nil && c.resN == nil && c.kind != "err" && !c.m.Oneway {
				left[1] = "*" // the client's reader stopped half way
			}
		}
		return strings.Join(parts, " | ") + " ; " + left[0] + " " + left[1]
	case "INJ":
		toks := strings.Fields(ans)
		if len(toks) < 5 {
			return ans
		}
		n := len(toks)
		toks[n-2] = canonMsg(toks[n-2])
		if oc.damaged {
			toks[n-1] = "*"
		}
		return strings.Join(toks, " ")
	case "RECV":
		toks := strings.Fields(ans)
		if len(toks) < 3 {
			return ans
		}
		toks[0] = canonMsg(toks[0])
		if oc.damaged {
			toks[len(toks)-1] = "*"
		}
		return strings.Join(toks, " ")
	}
	return ans
}

func valueText(v *values.Value) string { return values.SortMaps(v).String() }

func sameValueText(got string, want *values.Value) bool {
	g, err := values.Parse(got)
	return err == nil && refcodec.Equal(g, want)
}

// expectedOutcome: what the caller must see for a call whose <fn>_result record has the normal form resN.
func expectedOutcome(s *idlgen.Schema, m *methodInfo, resN *values.Value) (string, *values.Value) {
	rs := s.Structs[m.ResSidx]
	first := 0
	if !m.Void {
		first = 1
	}
	for k := first; k < len(rs.Fields); k++ {
		if !resN.E[k].IsNil() {
			return fmt.Sprintf("exc %d", k-first), resN.E[k]
		}
	}
	if m.Void {
		return "ok", values.Nil()
	}
	if resN.E[0].IsNil() {
		return "ok", idlgen.ZeroOf(rs.Fields[0].Type)
	}
	return "ok", resN.E[0]
}

// verdict evaluates the property on the implementation's answer; "" = fine. (Implementation only: refcodec
// and the harness' own envelope parser; nothing from the model.)
func verdict(oc *opCase, ans string) string {
	s := oc.unit.Schema
	switch oc.kind {
	case "CALL":
		calls, left, ok := splitCallAnswer(ans)
		if !ok || len(calls) != len(oc.calls) {
			return "unparsable driver answer"
		}
		poisoned := false
		for i, ca := range calls {
			c := oc.calls[i]
			m := c.m
			seq := oc.seq0 + int32(i+1)
			at := fmt.Sprintf("call %d (%s): ", i+1, m.Name)
			if k := strings.Index(ca.reply, "+unflushed"); k >= 0 {
				return at + "the processor returned with " + ca.reply[k+10:] + " written reply bytes not flushed (they would leave with the NEXT reply)"
			}
			if ca.outcome == "nomethod" {
				return at + "the generated client of service " + oc.svc.Name + " has no method for the (inherited) function " + m.Name
			}
			// (1) request = <name as in the IDL, CALL, seqid> ++ args struct with the IDL ids
			rb, ok := unhex(ca.req)
			if !ok || len(rb) == 0 {
				return at + "no request bytes"
			}
			rm, err := splitMsg(rb)
			if err != nil {
				return at + "request is not a strict binary-protocol message"
			}
			if rm.name != m.Name || rm.typ != 1 || rm.seq != seq {
				return at + fmt.Sprintf("request envelope <%q,%d,%d>, expected <%q,1,%d>", rm.name, rm.typ, rm.seq, m.Name, seq)
			}
			dec, derr := refcodec.Decode(s, m.ArgsSidx, rm.body)
			if c.argsN == nil {
				if derr == nil {
					return at + "request args decode although the arguments have no normal form"
				}
				if ca.log != "H-" {
					return at + "handler invoked although the arguments cannot be read"
				}
				if !m.Oneway && !strings.HasPrefix(ca.outcome, "app 7 ") {
					return at + "unreadable arguments must come back as application exception PROTOCOL_ERROR, got " + ca.outcome
				}
				poisoned = true
				continue
			}
			if derr != nil {
				return at + "request args do not decode under the <fn>_args schema: " + derr.Error()
			}
			if !refcodec.Equal(dec, c.argsN) {
				return at + "request args decode to " + dec.String() + ", sent " + c.argsN.String()
			}
			// (2) the handler received the arguments
			wantLog := "H " + vl.Hex(m.Name) + " "
			if !strings.HasPrefix(ca.log, wantLog) || !sameValueText(strings.TrimPrefix(ca.log, wantLog), c.argsN) {
				return at + "handler received " + ca.log + ", expected " + wantLog + c.argsN.String()
			}
			// (3) reply bytes and (4) what the caller got
			if m.Oneway {
				if ca.reply != "-" {
					return at + "oneway method produced reply bytes"
				}
				if ca.outcome != "ok n" {
					return at + "oneway call returned " + ca.outcome
				}
				continue
			}
			pb, ok := unhex(ca.reply)
			if !ok || len(pb) == 0 {
				return at + "no reply bytes"
			}
			pm, err := splitMsg(pb)
			if err != nil {
				return at + "reply is not a strict binary-protocol message"
			}
			if pm.name != m.Name || pm.seq != seq {
				return at + fmt.Sprintf("reply envelope name/seqid <%q,%d>, expected <%q,%d>", pm.name, pm.seq, m.Name, seq)
			}
			if c.kind == "err" {
				if pm.typ != 3 {
					return at + fmt.Sprintf("handler error: reply message type %d, expected EXCEPTION", pm.typ)
				}
				if _, t, err := parseAppExc(pm.body); err != nil || t != 6 {
					return at + fmt.Sprintf("handler error: application exception type %d, expected INTERNAL_ERROR", t)
				}
				if !strings.HasPrefix(ca.outcome, "app 6 ") {
					return at + "handler error must arrive as application exception INTERNAL_ERROR, caller got " + ca.outcome
				}
				continue
			}
			if pm.typ != 2 {
				return at + fmt.Sprintf("reply message type %d, expected REPLY", pm.typ)
			}
			if c.noCheck != "" {
				continue
			}
			rdec, rerr := refcodec.Decode(s, m.ResSidx, pm.body)
			if c.resN == nil {
				if rerr == nil {
					return at + "result decodes although the answer has no normal form"
				}
				if ca.outcome != "err" {
					return at + "unreadable result must surface as an error, caller got " + ca.outcome
				}
				poisoned = true
				continue
			}
			if rerr != nil {
				return at + "reply does not decode under the <fn>_result schema (success = id 0, throws at their ids): " + rerr.Error()
			}
			if !refcodec.Equal(rdec, c.resN) {
				return at + "reply decodes to " + rdec.String() + ", expected " + c.resN.String()
			}
			wantKind, wantVal := expectedOutcome(s, m, c.resN)
			if m.Void && wantKind == "ok" {
				if ca.outcome != "ok n" {
					return at + "void call returned " + ca.outcome
				}
				continue
			}
			if !strings.HasPrefix(ca.outcome, wantKind+" ") || !sameValueText(strings.TrimPrefix(ca.outcome, wantKind+" "), wantVal) {
				return at + "caller got " + ca.outcome + ", expected " + wantKind + " " + wantVal.String()
			}
		}
		if !poisoned && (left[0] != "0" || left[1] != "0") {
			return "unread bytes left on the connection: " + left[0] + " " + left[1]
		}
		return ""
	case "INJ":
		toks := strings.Fields(ans)
		if name, ok := oc.expect["unknown"]; ok && (ans == "panic" || ans == "crash") {
			return fmt.Sprintf("CALL %q (not a method of the service) made the processor panic instead of answering UNKNOWN_METHOD", name)
		}
		if len(toks) < 5 {
			return "unparsable driver answer"
		}
		n := len(toks)
		if name, ok := oc.expect["unknown"]; ok {
			if ans == "panic" || ans == "crash" {
				return fmt.Sprintf("CALL %q (not a method of the service) made the processor panic instead of answering UNKNOWN_METHOD", name)
			}
			if toks[2] != "H-" {
				return "handler invoked for an unknown method"
			}
			pb, ok := unhex(toks[n-2])
			if !ok {
				return "bad reply hex"
			}
			pm, err := splitMsg(pb)
			if err != nil {
				return "unknown method: no well-formed reply"
			}
			_, t, err := parseAppExc(pm.body)
			if pm.name != name || pm.typ != 3 || strconv.Itoa(int(pm.seq)) != oc.expect["seq"] || err != nil || t != 1 {
				return fmt.Sprintf("unknown method %q: reply <%q,%d,%d> app type %d, expected EXCEPTION UNKNOWN_METHOD with the same name and seqid %s", name, pm.name, pm.typ, pm.seq, t, oc.expect["seq"])
			}
			if toks[n-1] != "0" {
				return "unknown method: args struct not consumed (" + toks[n-1] + " bytes left)"
			}
		}
		if name, ok := oc.expect["known"]; ok {
			if !strings.HasPrefix(toks[2]+" ", "H ") || toks[3] != vl.Hex(name) {
				return "handler not invoked for " + name
			}
		}
		return ""
	case "RECV":
		toks := strings.Fields(ans)
		if len(toks) < 3 {
			return "unparsable driver answer"
		}
		outcome := strings.Join(toks[1:len(toks)-1], " ")
		if t, ok := oc.expect["app"]; ok && !strings.HasPrefix(outcome, "app "+t+" ") {
			return "caller got " + outcome + ", expected application exception type " + t
		}
		if _, ok := oc.expect["oneway"]; ok && outcome != "ok n" {
			return "oneway call returned " + outcome
		}
		return ""
	}
	return ""
}

// ---------------------------------------------------------------- shrinking

// shrink minimises a failing CALL case: the failing call alone on a fresh connection, then smaller argument
// and exception values (valgen.Shrink), each candidate re-run through the driver and re-judged by the oracle.
func shrink(b *batch.Built, r *vl.Rng, oc *opCase, ans, msg string) (*opCase, string, string) {
	if oc.kind != "CALL" {
		return oc, ans, msg
	}
	g := &caseGen{r: r, u: oc.unit, out: &vl.Out{Stats: map[string]int{}}}
	try := func(calls []*callSpec, seq0 int32) (*opCase, string, string) {
		c := &opCase{unit: oc.unit, svc: oc.svc, kind: "CALL", calls: calls, seq0: seq0}
		var sb strings.Builder
		fmt.Fprintf(&sb, "CALL %s:%d cb %d %d", oc.unit.Key, oc.svc.Idx, seq0, len(calls))
		for _, x := range calls {
			sb.WriteString(" " + x.text())
		}
		c.line = sb.String()
		for _, x := range calls { // candidates that fail for another, known reason (nil union: D13) are not smaller witnesses
			if nilUnion(oc.unit.Schema, &idlgen.RType{Kind: idlgen.RStruct, Sidx: x.m.ArgsSidx}, x.args, false) {
				return c, "", ""
			}
			if _, err := refcodec.Encode(oc.unit.Schema, x.m.ArgsSidx, x.args); err != nil {
				return c, "", ""
			}
		}
		a, err := b.RunLines([]string{c.line})
		if err != nil || len(a) != 1 {
			return c, "", ""
		}
		return c, a[0], verdict(c, a[0])
	}
	_ = g
	best, bestAns, bestMsg := oc, ans, msg
	// (1) a single call
	if len(oc.calls) > 1 {
		for i := range oc.calls {
			if c, a, m := try([]*callSpec{oc.calls[i]}, 0); m != "" {
				best, bestAns, bestMsg = c, a, m
				break
			}
		}
	}
	if len(best.calls) != 1 {
		return best, bestAns, bestMsg
	}
	s := oc.unit.Schema
	renorm := func(c *callSpec) *callSpec {
		d := *c
		d.argsN, d.resN = nil, nil
		if n, err := refcodec.Normal(s, d.m.ArgsSidx, d.args); err == nil {
			d.argsN = n
		}
		if !d.m.Oneway && d.kind != "err" {
			rs := s.Structs[d.m.ResSidx]
			e := &values.Value{K: values.KRecord, E: make([]*values.Value, len(rs.Fields))}
			for i := range e.E {
				e.E[i] = values.Nil()
			}
			k := 0
			if d.kind == "exc" {
				k = d.exc
				if !d.m.Void {
					k++
				}
			}
			if len(e.E) > k && !(d.kind == "ok" && d.m.Void) {
				e.E[k] = d.val
			}
			if n, err := refcodec.Normal(s, d.m.ResSidx, e); err == nil {
				d.resN = n
			}
		}
		return &d
	}
	cur := best.calls[0]
	// (2) smaller arguments
	args := valgen.Shrink(s, cur.m.ArgsSidx, cur.args, func(v *values.Value) bool {
		d := *cur
		d.args = v
		_, _, m := try([]*callSpec{renorm(&d)}, 0)
		return m != ""
	}, 120)
	d := *cur
	d.args = args
	cur = renorm(&d)
	// (3) smaller exception value
	if cur.kind == "exc" && !cur.val.IsNil() {
		rs := s.Structs[cur.m.ResSidx]
		k := cur.exc
		if !cur.m.Void {
			k++
		}
		val := valgen.Shrink(s, rs.Fields[k].Type.Sidx, cur.val, func(v *values.Value) bool {
			d := *cur
			d.val = v
			_, _, m := try([]*callSpec{renorm(&d)}, 0)
			return m != ""
		}, 80)
		d := *cur
		d.val = val
		cur = renorm(&d)
	}
	if c, a, m := try([]*callSpec{cur}, 0); m != "" {
		return c, a, m
	}
	return best, bestAns, bestMsg
}

// ---------------------------------------------------------------- run

var reErrPath = regexp.MustCompile(`\S*/([^/\s:]+\.go)(:\d+)*:?`)

// normErr strips directories and positions from a compiler message (stable key)
func normErr(e string) string {
	e = reErrPath.ReplaceAllString(strings.TrimSpace(e), "$1:")
	if len(e) > 160 {
		e = e[:160]
	}
	return e
}

func where(file int) string {
	if file == 0 {
		return "main-file"
	}
	return "included-file"
}

// unitUsable: batch.UnitInfo.OK(), except that the synthesized structs of streaming functions are expected to be
// absent from the generated code (the functions are removed by the backend).
func unitUsable(u *batch.UnitInfo, table []*svcInfo) bool {
	if u.Exit != 0 || len(u.ParseErrors) > 0 || len(u.BuildErrors) > 0 || !u.Linked {
		return false
	}
	gone := map[int]bool{}
	for _, si := range table {
		for _, m := range si.Removed {
			gone[m.ArgsSidx] = true
			if m.ResSidx >= 0 {
				gone[m.ResSidx] = true
			}
		}
	}
	for _, e := range u.Registry {
		if !e.Found && !gone[e.Sidx] {
			return false
		}
	}
	return true
}

func reportUnits(b *batch.Built, tables map[int][]*svcInfo) int {
	bad := 0
	for i := range b.Units {
		u := &b.Units[i]
		if unitUsable(u, tables[i]) || (strings.HasPrefix(u.Tag, "must-reject:") && u.Exit != 0) {
			continue
		}
		bad++
		fmt.Printf("UNIT %s (%s) not usable: exit=%d\n  cmd: %s\n  idl: %s\n", u.Key, u.Tag, u.Exit, strings.Join(u.Cmd, " "), u.IDLDir)
		for i, e := range u.BuildErrors {
			if i < 6 {
				fmt.Println("  build:", e)
			}
		}
		if u.Exit != 0 {
			ls := strings.Split(strings.TrimSpace(u.Stderr), "\n")
			if len(ls) > 6 {
				ls = ls[:6]
			}
			fmt.Println("  stderr:", strings.Join(ls, " | "))
		}
		for _, e := range u.Registry {
			if !e.Found {
				fmt.Println("  registry:", e.Sidx, e.Note)
			}
		}
	}
	return bad
}

// rebuildDriver adds the C08 extension and the per-unit glue files to the driver package and builds it again
// (the generated packages come from the build cache). A glue file that does not compile is dropped and reported.
func rebuildDriver(b *batch.Built, glue map[int]string) (dropped map[int]string, err error) {
	dropped = map[int]string{}
	drv := filepath.Join(b.Dir, "mod", "driver")
	if err := os.WriteFile(filepath.Join(drv, "c08_ext.go"), []byte(driverExt), 0o644); err != nil {
		return nil, err
	}
	for i, src := range glue {
		if err := os.WriteFile(filepath.Join(drv, fmt.Sprintf("c08_u%d.go", i)), []byte(src), 0o644); err != nil {
			return nil, err
		}
	}
	re := regexp.MustCompile(`c08_u(\d+)\.go`)
	for round := 0; round < 5; round++ {
		c := exec.Command("go", "build", "-o", b.Bin, "./driver")
		c.Dir = filepath.Join(b.Dir, "mod")
		c.Env = append(os.Environ(), "GOFLAGS=-mod=mod", "GOPROXY=off", "GOSUMDB=off", "GOTOOLCHAIN=local")
		out, err := c.CombinedOutput()
		if err == nil {
			return dropped, nil
		}
		progress := false
		for _, ln := range strings.Split(string(out), "\n") {
			if m := re.FindStringSubmatch(ln); m != nil {
				k, _ := strconv.Atoi(m[1])
				if _, ok := dropped[k]; !ok {
					dropped[k] = ln
					os.Remove(filepath.Join(drv, fmt.Sprintf("c08_u%d.go", k)))
					progress = true
				} else {
					dropped[k] += "\n" + ln
				}
			}
		}
		if !progress {
			return dropped, fmt.Errorf("go build of the extended driver failed:\n%s", out)
		}
	}
	return dropped, fmt.Errorf("go build of the extended driver keeps failing")
}

func run(repo, dir string, seed uint64, nprog int, tier string, keep bool, only string) int {
	t0 := time.Now()
	if abs, err := filepath.Abs(dir); err == nil {
		dir = abs
	}
	if err := os.MkdirAll(dir, 0o755); err != nil {
		fmt.Fprintln(os.Stderr, err)
		return 2
	}
	work := filepath.Join(dir, "work")
	os.RemoveAll(work)
	if !keep {
		defer os.RemoveAll(work)
	}
	out := vl.NewOut(dir)
	defer out.Close()
	r := vl.NewRng(seed)

	var units []batch.Unit
	var streams []map[*idlgen.Function]string
	{
		// regression item, first unit: the witness of the included-file streaming defect (fixed: 6b9b20c)
		p, streaming := regressionProgram()
		streams = append(streams, streaming)
		units = append(units, batch.Unit{Prog: p, Recurse: true, Tag: "regression:streaming-included-file"})
		out.Count("unit.regression")
		// aimed units: extends across files with local services named like the included base / its base; every Go keyword,
		// predeclared identifier and template identifier as function, argument and throws member name
		p, streaming = shadowProgram()
		streams = append(streams, streaming)
		units = append(units, batch.Unit{Prog: p, Recurse: true, Tag: "aimed:extends-shadowed-by-local-service"})
		p, streaming = keywordProgram()
		streams = append(streams, streaming)
		units = append(units, batch.Unit{Prog: p, Recurse: true, Tag: "aimed:keyword-names"})
		p, streaming = requirednessProgram()
		streams = append(streams, streaming)
		units = append(units, batch.Unit{Prog: p, Recurse: true, Tag: "aimed:requiredness-keywords"})
		out.Count("unit.aimed")
		out.Count("unit.aimed")
		out.Count("unit.aimed")
		// programs the checker must REJECT (fix ef66a8a): a throws member named `success` / with id 0 next to a return value
		for _, k := range []string{"success-name", "id-0"} {
			p, streaming = mustRejectProgram(k)
			streams = append(streams, streaming)
			units = append(units, batch.Unit{Prog: p, Recurse: true, Tag: "must-reject:throws-" + k})
			out.Count("unit.must_reject")
		}
	}
	for i := 0; i < nprog; i++ {
		stress := i%4 == 3
		p, streaming := genProgram(r, stress, out.Count)
		streams = append(streams, streaming)
		p.Stats(out.Count)
		o := optionSets[(i+int(seed))%len(optionSets)]
		if i == 0 {
			o = optionSets[0]
		}
		tag := fmt.Sprintf("prog%d", i)
		if stress {
			tag += ",stress"
			out.Count("unit.stress_names")
		}
		units = append(units, batch.Unit{Prog: p, Recurse: true, Options: o, Tag: tag})
	}
	b, err := batch.Build(work, repo, units, nil)
	if b != nil {
		fmt.Println(b.Summary())
	}
	if err != nil {
		fmt.Println("ERROR:", err)
		return 2
	}
	tables := map[int][]*svcInfo{}
	for i := range b.Units {
		if b.Units[i].Exit == 0 {
			tables[i] = serviceTable(units[i].Prog, b.Units[i].Schema, streams[i])
		}
	}
	badUnits := reportUnits(b, tables)
	for i := range b.Units {
		u := &b.Units[i]
		if strings.HasPrefix(u.Tag, "must-reject:") {
			if u.Exit == 0 {
				out.Fail(vl.OracleFail{Key: "accepted:" + u.Tag, What: "thriftgo accepted a program it must reject: the throws member collides with the synthesized `success` field (name or id 0) of <fn>_result",
					Input:    map[string]interface{}{"unit": u.Key, "tag": u.Tag, "idl": units[i].Prog.Render(), "cmd": strings.Join(u.Cmd, " "), "seed": seed},
					Expected: "non-zero exit with a diagnostic", Observed: "exit 0"})
			} else {
				out.Count("unit.must_reject.rejected")
			}
			continue
		}
		if !unitUsable(u, tables[i]) {
			// the property quantifies over ACCEPTED programs with services: output that does not compile (or an accepted-looking
			// program that is rejected) is a failing input of this check, with the compiler's message
			out.Count("unit.unusable")
			out.Sample(map[string]interface{}{"unusable_unit": u.Key, "tag": u.Tag, "options": u.Options, "build": u.BuildErrors, "exit": u.Exit})
			what, msgs := "generated Go code does not compile", append(append([]string{}, u.ParseErrors...), u.BuildErrors...)
			if u.Exit != 0 {
				what, msgs = fmt.Sprintf("thriftgo rejected the program (exit %d)", u.Exit), strings.Split(strings.TrimSpace(u.Stderr), "\n")
			}
			for _, e := range u.Registry {
				if !e.Found && len(msgs) == 0 {
					msgs = append(msgs, "no generated Go type for schema struct: "+e.Note)
				}
			}
			if len(msgs) > 8 {
				msgs = msgs[:8]
			}
			first := ""
			if len(msgs) > 0 {
				first = normErr(msgs[0])
			}
			out.Fail(vl.OracleFail{Key: "unit-does-not-compile:" + u.Tag + ":" + first, What: what + ": " + strings.Join(msgs, " | "),
				Input:    map[string]interface{}{"unit": u.Key, "tag": u.Tag, "options": u.Options, "idl": units[i].Prog.Render(), "cmd": strings.Join(u.Cmd, " "), "seed": seed},
				Expected: "thriftgo exit 0 and `go build` of the generated packages succeeds", Observed: msgs})
		}
	}
	if badUnits*2 > len(b.Units) {
		out.Fail(vl.OracleFail{Key: "units-unusable", What: fmt.Sprintf("%d of %d units were rejected or did not compile", badUnits, len(b.Units)),
			Expected: "generated code compiles", Observed: b.Summary()})
	}

	// ---- scan + glue
	usable := map[int][]*unitSvc{}
	glue := map[int]string{}
	mod := filepath.Join(work, "mod")
	for i := range b.Units {
		u := &b.Units[i]
		if !unitUsable(u, tables[i]) {
			continue
		}
		scanned, err := scanUnit(mod, u.Files)
		if err != nil {
			fmt.Println("scan", u.Key, err)
			out.Count("unit.scan_failed")
			continue
		}
		svcs := matchServices(u, tables[i], scanned)
		for _, us := range svcs {
			for _, l := range us.leaked {
				msg := fmt.Sprintf("streaming function %s.%s (streaming.mode = %q) is still registered by %s although thrift_streaming is off", us.si.Name, l, us.si.removed(l).Mode, us.gs.procCtor)
				fmt.Println("SERVICE", u.Key, msg)
				out.Count("service.streaming_not_removed")
				out.Fail(vl.OracleFail{Key: "streaming-not-removed:" + us.si.removed(l).Mode + ":" + where(us.si.File), What: msg,
					Input:    map[string]interface{}{"unit": u.Key, "options": u.Options, "idl": units[i].Prog.Render(), "cmd": strings.Join(u.Cmd, " "), "service": us.si.Name, "function": l, "seed": seed},
					Expected: "interface, client and processor hold the non-streaming functions only", Observed: fmt.Sprintf("%s registers %v", us.gs.procCtor, us.gs.procLits)})
			}
			for _, sh := range us.shape {
				fmt.Println("SERVICE", u.Key, sh)
				out.Count("service.extends_shape_wrong")
				out.Fail(vl.OracleFail{Key: "extends-shape:" + u.Tag + ":" + us.si.Name, What: sh,
					Input:    map[string]interface{}{"unit": u.Key, "tag": u.Tag, "options": u.Options, "idl": units[i].Prog.Render(), "cmd": strings.Join(u.Cmd, " "), "service": us.si.Name, "seed": seed},
					Expected: "the generated interface / client / processor of a derived service build on those of the IDL base service", Observed: sh})
			}
			if us.note != "" {
				fmt.Printf("SERVICE %s:%d (%s) not usable: %s\n", u.Key, us.si.Idx, us.si.Name, us.note)
				out.Count("service.unmatched")
				out.Fail(vl.OracleFail{Key: "service-shape:" + us.note, What: "generated service code does not have the expected shape: " + us.note,
					Input: map[string]interface{}{"unit": u.Key, "idl": units[i].Prog.Render(), "cmd": strings.Join(u.Cmd, " "), "service": us.si.Name, "seed": seed}, Expected: "interface + client (3 constructors) + processor registering the service's functions", Observed: us.note})
			}
		}
		src, err := unitSource(u, svcs)
		if err != nil {
			fmt.Println("glue", u.Key, err)
			out.Count("unit.glue_failed")
			continue
		}
		usable[i] = svcs
		glue[i] = src
	}
	tb := time.Now()
	dropped, err := rebuildDriver(b, glue)
	if err != nil {
		fmt.Println("ERROR:", err)
		return 2
	}
	out.Stats["timing_ms.go_build_ext"] = int(time.Since(tb).Milliseconds())
	for k, why := range dropped {
		// the handler is synthesised from the generated interfaces themselves: if it does not compile against them the
		// generated service code is inconsistent (or the harness is): reported, never skipped silently
		fmt.Printf("GLUE for unit u%d does not compile:\n%s\n", k, why)
		out.Count("unit.glue_failed")
		delete(usable, k)
		u := &b.Units[k]
		out.Fail(vl.OracleFail{Key: "handler-does-not-compile:" + u.Tag + ":" + normErr(strings.Split(why, "\n")[0]), What: "a handler implementing the generated service interfaces of the unit does not compile: " + why,
			Input:    map[string]interface{}{"unit": u.Key, "tag": u.Tag, "options": u.Options, "idl": units[k].Prog.Render(), "cmd": strings.Join(u.Cmd, " "), "seed": seed},
			Expected: "interface + client + processor of every service are consistent", Observed: why})
	}
	if (len(usable)+2)*2 < len(b.Units) {
		out.Fail(vl.OracleFail{Key: "units-unusable", What: fmt.Sprintf("only %d of %d units could be driven", len(usable), len(b.Units)), Observed: b.Summary()})
	}

	// ---- ops
	var lines []string
	var cases []*opCase
	add := func(l string, c *opCase) { lines = append(lines, l); cases = append(cases, c) }
	nper := 3
	if tier == "thorough" {
		nper = 5
	}
	for i := range b.Units {
		u := &b.Units[i]
		svcs, ok := usable[i]
		if !ok {
			continue
		}
		for _, l := range u.SchemaLines() {
			add(l, nil)
		}
		for _, si := range tables[i] {
			add(si.vLine(u.Key), nil)
		}
		out.Count("unit.options." + strings.Join(u.PLineOptions(), ","))
		g := &caseGen{r: r, u: u, table: tables[i], out: out}
		g.vcfg = valgen.Config{Count: out.Count}
		g.vcfg.NilElems = !has(u.Options, "value_type_in_container")
		for _, us := range svcs {
			if us.note != "" {
				continue
			}
			out.Count("service.driven")
			if us.si.Base >= 0 {
				out.Count("service.driven.derived")
			}
			out.Count(fmt.Sprintf("service.methods_reachable.%d", len(us.si.All)))
			for _, c := range g.service(us.si, nper) {
				add(c.line, c)
			}
		}
	}
	if only != "" {
		// replay: keep schema/service lines and the one op
		var doc struct{ Key string }
		if data, err := os.ReadFile(only); err == nil {
			json.Unmarshal(data, &doc)
		}
		var l2 []string
		var c2 []*opCase
		for i, l := range lines {
			if cases[i] == nil || l == doc.Key || strings.HasPrefix(doc.Key, "broken:") || doc.Key == "" {
				l2, c2 = append(l2, l), append(c2, cases[i])
			}
		}
		lines, cases = l2, c2
	}
	answers, err := b.RunLines(lines)
	if err != nil {
		fmt.Println("ERROR:", err)
		return 2
	}

	// ---- oracle
	fails := 0
	for i, line := range lines {
		ans := answers[i]
		c := cases[i]
		if c == nil {
			out.Case(line, ans, false)
			continue
		}
		msg := verdict(c, ans)
		out.Count("op." + c.kind)
		if c.kind == "CALL" {
			out.Count(fmt.Sprintf("op.CALL.calls.%d", len(c.calls)))
		}
		if msg == "" {
			out.Case(line, canonical(c, ans), true)
		} else {
			// a line on which the property itself fails is reported as a failing input; the model's prediction for it
			// (the property holding) adds nothing, so it is not part of the correspondence files
			out.Count("op.failing_not_in_correspondence")
		}
		if msg != "" {
			fails++
			if fails <= 6 && only == "" {
				c, ans, msg = shrink(b, r, c, ans, msg)
				line = c.line
			}
			if fails <= 10 {
				fmt.Printf("ORACLE FAIL [%s %s] %s\n  op: %.400s\n  got: %.400s\n", c.unit.Key, strings.Join(c.unit.Options, ","), msg, line, ans)
			}
			key := line
			if sm, ok := c.expect["streaming"]; ok {
				key = "streaming-call-not-unknown:" + sm // stable: mode and where the service is declared
			}
			out.Fail(vl.OracleFail{Key: key, What: c.kind + ": " + msg,
				Input: map[string]interface{}{"unit": c.unit.Key, "tag": c.unit.Tag, "options": c.unit.Options, "service": c.svc.Name, "op": line, "seed": seed,
					"idl": units[c.unit.Index].Prog.Render(), "cmd": strings.Join(c.unit.Cmd, " ")},
				Expected: "see what", Observed: ans})
			out.Sample(map[string]string{"op": line, "got": ans, "why": msg})
		} else {
			out.Count("oracle.ok." + c.kind)
		}
	}
	fmt.Printf("c08: seed %d, %d units (%d unusable, %d driven), %d op lines, %d oracle failures, %.1fs total\n",
		seed, len(b.Units), badUnits, len(usable), len(lines), fails, time.Since(t0).Seconds())
	for k, d := range b.Timing {
		out.Stats["timing_ms."+k] = int(d.Milliseconds())
	}
	if fails > 0 {
		return 1
	}
	return 0
}

// ---------------------------------------------------------------- translator

// extract prints Generated/C08.lean: the constants the service templates emit (application exception kinds with
// their message expressions, reply message types, the client's Call shapes) and what buildSynthesized makes.
func extract(repo string) error {
	read := func(rel string) (string, error) {
		b, err := os.ReadFile(filepath.Join(repo, rel))
		return string(b), err
	}
	proc, err := read("generator/golang/templates/processor.go")
	if err != nil {
		return err
	}
	client, err := read("generator/golang/templates/client.go")
	if err != nil {
		return err
	}
	scope, err := read("generator/golang/scope.go")
	if err != nil {
		return err
	}
	uniq := func(re *regexp.Regexp, text string, n int) [][]string {
		seen := map[string]bool{}
		var out [][]string
		for _, m := range re.FindAllStringSubmatch(text, -1) {
			k := strings.Join(m[1:], "\x00")
			if !seen[k] {
				seen[k] = true
				out = append(out, m[1:1+n])
			}
		}
		sort.Slice(out, func(i, j int) bool { return strings.Join(out[i], "\x00") < strings.Join(out[j], "\x00") })
		return out
	}
	app := uniq(regexp.MustCompile(`NewTApplicationException\(thrift\.(\w+), ([^\n]*)\)\n`), proc, 2)
	mb := uniq(regexp.MustCompile(`oprot\.WriteMessageBegin\(([^,]+), thrift\.(\w+), seqId\)`), proc, 2)
	calls := uniq(regexp.MustCompile(`Client_\(\)\.Call\(ctx, ([^,]+), ([^,]+), ([^)]+)\)`), client, 3)
	i := strings.Index(scope, "func buildSynthesized(")
	if i < 0 {
		return fmt.Errorf("buildSynthesized not found in scope.go")
	}
	body := scope[i:]
	if j := strings.Index(body, "\n}\n"); j > 0 {
		body = body[:j]
	}
	var syn [][]string
	names := regexp.MustCompile(`Name:\s+(v\.Name \+ "_(args|result)")`).FindAllStringSubmatch(body, -1)
	for _, m := range names {
		syn = append(syn, []string{m[2], m[1]})
	}
	k := strings.Index(body, "&parser.Field{")
	if k < 0 {
		return fmt.Errorf("success field literal not found in buildSynthesized")
	}
	lit := body[k:]
	if j := strings.Index(lit, "})"); j > 0 {
		lit = lit[:j]
	}
	for _, kv := range [][2]string{{"success.id", `ID:\s+(\S+),`}, {"success.name", `Name:\s+(\S+),`}, {"success.req", `Requiredness:\s+(\S+),`}} {
		m := regexp.MustCompile(kv[1]).FindStringSubmatch(lit)
		if m == nil {
			return fmt.Errorf("%s not found in the success field literal", kv[0])
		}
		syn = append(syn, []string{kv[0], m[1]})
	}
	var sb strings.Builder
	sb.WriteString("/- GENERATED by harness/cmd/c08 extract from templates/processor.go, templates/client.go, scope.go. Do not edit. -/\nnamespace Generated.C08\n\n")
	tuple := func(xs []string) string {
		var qs []string
		for _, x := range xs {
			qs = append(qs, strconv.Quote(x))
		}
		return "(" + strings.Join(qs, ", ") + ")"
	}
	list := func(name, typ string, rows [][]string) {
		fmt.Fprintf(&sb, "def %s : List (%s) := [", name, typ)
		for i, r := range rows {
			if i > 0 {
				sb.WriteString(",")
			}
			sb.WriteString("\n  " + tuple(r))
		}
		sb.WriteString("]\n\n")
	}
	list("appExceptions", "String × String", app)
	list("messageBegins", "String × String", mb)
	list("clientCalls", "String × String × String", calls)
	list("synthesized", "String × String", syn)
	// every message the processor writes is flushed before Process returns: for each WriteMessageEnd in the processor
	// template, the next statement that touches oprot or returns
	var fl [][]string
	plines := strings.Split(proc, "\n")
	for i, ln := range plines {
		if !strings.Contains(ln, "oprot.WriteMessageEnd()") {
			continue
		}
		next := "(end of template)"
		for j := i + 1; j < len(plines); j++ {
			t := strings.TrimSpace(plines[j])
			if strings.Contains(t, "oprot.") || strings.HasPrefix(t, "return") {
				next = t
				break
			}
		}
		fl = append(fl, []string{strings.TrimSpace(ln), next})
	}
	list("flushAfterEnd", "String × String", fl)
	// streaming: the guard at the call site and the filter inside removeStreamingFunctions
	backend, err := read("generator/golang/backend.go")
	if err != nil {
		return err
	}
	// (since fix 6b9b20c the filter runs over every AST reachable from the request's: included files too)
	guard := regexp.MustCompile(`if ([^{\n]+) \{\s*for (\w+) := range ([^{\n]+) \{\s*g\.removeStreamingFunctions\((\w+)\)`).FindStringSubmatch(backend)
	filter := regexp.MustCompile(`if ([^{\n]+) \{\s*g\.log\.Warn\(fmt\.Sprintf\("skip streaming function`).FindStringSubmatch(backend)
	if guard == nil || filter == nil || guard[2] != guard[4] {
		return fmt.Errorf("removeStreamingFunctions: guard + loop over the reachable ASTs, or the filter, not found in backend.go")
	}
	sfile, err := read("generator/golang/streaming/streaming.go")
	if err != nil {
		return err
	}
	var st [][]string
	st = append(st, []string{"guard", guard[1]}, []string{"loop", guard[3]}, []string{"filter", filter[1]})
	if m := regexp.MustCompile(`StreamingModeKey\s*=\s*("[^"]*")`).FindStringSubmatch(sfile); m != nil {
		st = append(st, []string{"key", m[1]})
	}
	for _, m := range regexp.MustCompile(`(Streaming\w+)\s*=\s*("[^"]*")\s*//`).FindAllStringSubmatch(sfile, -1) {
		st = append(st, []string{m[1], m[2]})
	}
	list("streaming", "String × String", st)
	sb.WriteString("end Generated.C08\n")
	fmt.Print(sb.String())
	return nil
}
