// Package c11lib holds what the C11 harness (cmd/c11) and its recording plugin (cmd/c11plugin) share:
// the schema of plugin.Request/Response extracted from the repository's own IDL files with the
// repository's own parser, and a schema-driven reflection bridge between Go objects of the
// repository's types and values.Value (the VL text the Lean model reads).
package c11lib

import (
	"fmt"
	"math"
	"path/filepath"
	"sort"
	"strings"

	"github.com/cloudwego/thriftgo/parser"
	"github.com/cloudwego/thriftgo/semantic"

	"verifharness/internal/values"
)

// Ty is a resolved, typedef-free type.
type Ty struct {
	K         byte // b y h i l d s B e | L T M | S
	Elem, Key *Ty
	S         int // struct index for K == 'S'
}

type FDef struct {
	ID      int32
	Name    string
	Req     byte // 'r' 'o' 'd'
	Ty      *Ty
	Default *values.Value // nil = none
}

type SDef struct {
	File   string // "AST" or "protocol"
	Name   string
	Kind   string  // struct | union | exception (as declared)
	Fields []*FDef // sorted by field id: the order the fast codec writes
}

type Schema struct {
	Structs  []*SDef
	ByName   map[string]int // "AST.Type", "protocol.Request"
	Request  int
	Response int
}

// Extract parses <repo>/plugin/protocol.thrift (which includes ../parser/AST.thrift) with the real
// parser and resolver and derives the schema of every struct-like of both files.
func Extract(repo string) (*Schema, error) {
	main := filepath.Join(repo, "plugin", "protocol.thrift")
	ast, err := parser.ParseFile(main, nil, true)
	if err != nil {
		return nil, fmt.Errorf("parse %s: %w", main, err)
	}
	if p := parser.CircleDetect(ast); p != "" {
		return nil, fmt.Errorf("include circle: %s", p)
	}
	if _, err := semantic.NewChecker(semantic.Options{FixWarnings: true}).CheckAll(ast); err != nil {
		return nil, fmt.Errorf("check: %w", err)
	}
	if err := semantic.ResolveSymbols(ast); err != nil {
		return nil, fmt.Errorf("resolve: %w", err)
	}
	sc := &Schema{ByName: map[string]int{}, Request: -1, Response: -1}
	type pending struct {
		file *parser.Thrift
		st   *parser.StructLike
		def  *SDef
	}
	var todo []pending
	seen := map[string]bool{}
	var walk func(t *parser.Thrift)
	walk = func(t *parser.Thrift) {
		if seen[t.Filename] {
			return
		}
		seen[t.Filename] = true
		for _, inc := range t.Includes {
			walk(inc.Reference)
		}
		base := strings.TrimSuffix(filepath.Base(t.Filename), ".thrift")
		for _, group := range [][]*parser.StructLike{t.Structs, t.Unions, t.Exceptions} {
			for _, st := range group {
				d := &SDef{File: base, Name: st.Name, Kind: st.Category}
				sc.ByName[base+"."+st.Name] = len(sc.Structs)
				sc.Structs = append(sc.Structs, d)
				todo = append(todo, pending{t, st, d})
			}
		}
	}
	walk(ast)
	for _, p := range todo {
		for _, f := range p.st.Fields {
			ty, err := sc.resolve(p.file, f.Type)
			if err != nil {
				return nil, fmt.Errorf("%s.%s: %w", p.st.Name, f.Name, err)
			}
			fd := &FDef{ID: f.ID, Name: f.Name, Ty: ty}
			switch {
			case p.st.Category == "union":
				fd.Req = 'o' // the Go backends make every union member optional (pointer / nil-able)
			case f.Requiredness == parser.FieldType_Required:
				fd.Req = 'r'
			case f.Requiredness == parser.FieldType_Optional:
				fd.Req = 'o'
			default:
				fd.Req = 'd'
			}
			if f.Default != nil {
				dv, err := constValue(ty, f.Default)
				if err != nil {
					return nil, fmt.Errorf("%s.%s default: %w", p.st.Name, f.Name, err)
				}
				fd.Default = dv
			}
			p.def.Fields = append(p.def.Fields, fd)
		}
		sort.SliceStable(p.def.Fields, func(i, j int) bool { return p.def.Fields[i].ID < p.def.Fields[j].ID })
	}
	var ok bool
	if sc.Request, ok = sc.ByName["protocol.Request"]; !ok {
		return nil, fmt.Errorf("protocol.thrift has no struct Request")
	}
	if sc.Response, ok = sc.ByName["protocol.Response"]; !ok {
		return nil, fmt.Errorf("protocol.thrift has no struct Response")
	}
	for _, need := range [][2]string{{"protocol.Request", "AST"}, {"AST.Thrift", "Filename"}, {"AST.Thrift", "Includes"}, {"AST.Include", "Reference"}} {
		i, ok := sc.ByName[need[0]]
		found := false
		if ok {
			for _, f := range sc.Structs[i].Fields {
				found = found || f.Name == need[1]
			}
		}
		if !found {
			return nil, fmt.Errorf("%s.%s not found: the include graph cannot be located", need[0], need[1])
		}
	}
	return sc, nil
}

func (sc *Schema) resolve(file *parser.Thrift, t *parser.Type) (*Ty, error) {
	f2, t2, err := semantic.Deref(file, t)
	if err != nil {
		return nil, err
	}
	switch t2.Category {
	case parser.Category_Bool:
		return &Ty{K: 'b'}, nil
	case parser.Category_Byte:
		return &Ty{K: 'y'}, nil
	case parser.Category_I16:
		return &Ty{K: 'h'}, nil
	case parser.Category_I32:
		return &Ty{K: 'i'}, nil
	case parser.Category_I64:
		return &Ty{K: 'l'}, nil
	case parser.Category_Double:
		return &Ty{K: 'd'}, nil
	case parser.Category_String:
		return &Ty{K: 's'}, nil
	case parser.Category_Binary:
		return &Ty{K: 'B'}, nil
	case parser.Category_Enum:
		return &Ty{K: 'e'}, nil
	case parser.Category_List, parser.Category_Set:
		e, err := sc.resolve(f2, t2.ValueType)
		if err != nil {
			return nil, err
		}
		k := byte('L')
		if t2.Category == parser.Category_Set {
			k = 'T'
		}
		return &Ty{K: k, Elem: e}, nil
	case parser.Category_Map:
		k, err := sc.resolve(f2, t2.KeyType)
		if err != nil {
			return nil, err
		}
		e, err := sc.resolve(f2, t2.ValueType)
		if err != nil {
			return nil, err
		}
		return &Ty{K: 'M', Key: k, Elem: e}, nil
	case parser.Category_Struct, parser.Category_Union, parser.Category_Exception:
		base := strings.TrimSuffix(filepath.Base(f2.Filename), ".thrift")
		name := t2.Name
		if i := strings.LastIndex(name, "."); i >= 0 {
			name = name[i+1:]
		}
		idx, ok := sc.ByName[base+"."+name]
		if !ok {
			return nil, fmt.Errorf("struct %s.%s not found", base, name)
		}
		return &Ty{K: 'S', S: idx}, nil
	}
	return nil, fmt.Errorf("type %q: unsupported category %v", t.Name, t2.Category)
}

func constValue(ty *Ty, c *parser.ConstValue) (*values.Value, error) {
	tv := c.TypedValue
	if tv == nil {
		return nil, fmt.Errorf("no typed value")
	}
	switch ty.K {
	case 'y', 'h', 'i', 'l', 'e':
		if tv.Int != nil {
			return values.Int(*tv.Int), nil
		}
	case 'd':
		if tv.Double != nil {
			return values.Double(math.Float64bits(*tv.Double)), nil
		}
		if tv.Int != nil {
			return values.Double(math.Float64bits(float64(*tv.Int))), nil
		}
	case 's', 'B':
		if tv.Literal != nil {
			return values.Str(*tv.Literal), nil
		}
	case 'b':
		if tv.Int != nil {
			return values.Bool(*tv.Int != 0), nil
		}
		if tv.Identifier != nil && (*tv.Identifier == "true" || *tv.Identifier == "false") {
			return values.Bool(*tv.Identifier == "true"), nil
		}
	}
	return nil, fmt.Errorf("default of this shape is not supported by the C11 translator")
}

// ---------------------------------------------------------------- Lean

func (t *Ty) Lean() string {
	switch t.K {
	case 'b':
		return ".bool"
	case 'y':
		return ".i8"
	case 'h':
		return ".i16"
	case 'i':
		return ".i32"
	case 'l':
		return ".i64"
	case 'd':
		return ".dbl"
	case 's':
		return ".str"
	case 'B':
		return ".bin"
	case 'e':
		return ".enum"
	case 'L':
		return "(.list " + t.Elem.Lean() + ")"
	case 'T':
		return "(.set " + t.Elem.Lean() + ")"
	case 'M':
		return "(.map " + t.Key.Lean() + " " + t.Elem.Lean() + ")"
	case 'S':
		return fmt.Sprintf("(.struct %d)", t.S)
	}
	panic("bad type")
}

func leanVal(v *values.Value) string {
	switch v.K {
	case values.KBool:
		if v.B {
			return "(.bool true)"
		}
		return "(.bool false)"
	case values.KInt:
		return fmt.Sprintf("(.int (%d))", v.I)
	case values.KDouble:
		return fmt.Sprintf("(.dbl %d)", v.D)
	case values.KBytes:
		parts := make([]string, len(v.X))
		for i, b := range v.X {
			parts[i] = fmt.Sprint(b)
		}
		return "(.bytes [" + strings.Join(parts, ", ") + "])"
	}
	panic("bad default")
}

// Lean prints Generated/C11Schema.lean.
func (sc *Schema) Lean() string {
	var sb strings.Builder
	sb.WriteString("import ThriftVerif.Gen.Schema\n")
	sb.WriteString("/- GENERATED by harness/cmd/c11 extract from <repo>/plugin/protocol.thrift and <repo>/parser/AST.thrift,\n")
	sb.WriteString("   parsed and resolved by the repository's own parser. Do not edit.\n")
	sb.WriteString("   Fields are in field-id order (the order the fast codec writes); typedefs dereferenced;\n")
	sb.WriteString("   union members are optional fields of a kind-0 struct (the fast codec has no union check). -/\n")
	sb.WriteString("namespace Generated.C11\nopen Gen\n\n")
	sb.WriteString("def structNames : List String := [")
	for i, s := range sc.Structs {
		if i > 0 {
			sb.WriteString(", ")
		}
		fmt.Fprintf(&sb, "%q", s.File+"."+s.Name+":"+s.Kind)
	}
	sb.WriteString("]\n\n")
	for i, s := range sc.Structs {
		fmt.Fprintf(&sb, "/-- %s.%s (%s) -/\ndef s%d : StructDef := { kind := 0, fields := [", s.File, s.Name, s.Kind, i)
		for j, f := range s.Fields {
			req := map[byte]string{'r': ".required", 'o': ".optional", 'd': ".default"}[f.Req]
			d := "none"
			if f.Default != nil {
				d = "some " + leanVal(f.Default)
			}
			sep := ","
			if j == len(s.Fields)-1 {
				sep = ""
			}
			fmt.Fprintf(&sb, "\n  { id := %d, req := %s, ty := %s, dflt := %s }%s  -- %s", f.ID, req, f.Ty.Lean(), d, sep, f.Name)
			if j == len(s.Fields)-1 {
				sb.WriteString("\n  ")
			}
		}
		// the trailing comment of the last field must not swallow the bracket
		sb.WriteString("] }\n\n")
	}
	sb.WriteString("def prog : Prog := { structs := [")
	for i := range sc.Structs {
		if i > 0 {
			sb.WriteString(", ")
		}
		fmt.Fprintf(&sb, "s%d", i)
	}
	sb.WriteString("], keepUnknown := false, validateSet := false }\n\n")
	fmt.Fprintf(&sb, "def requestIdx : Nat := %d\ndef responseIdx : Nat := %d\n\n", sc.Request, sc.Response)
	// where the include graph lives (positions in the id-ordered field lists), for the driver's AST ↔ include-tree bridge
	pos := func(st, field string) int {
		i, ok := sc.ByName[st]
		if !ok {
			return -1
		}
		for j, f := range sc.Structs[i].Fields {
			if f.Name == field {
				return j
			}
		}
		return -1
	}
	fmt.Fprintf(&sb, "def thriftIdx : Nat := %d\ndef includeIdx : Nat := %d\n", sc.ByName["AST.Thrift"], sc.ByName["AST.Include"])
	fmt.Fprintf(&sb, "def requestAstPos : Nat := %d\ndef thriftFilenamePos : Nat := %d\ndef thriftIncludesPos : Nat := %d\ndef includeReferencePos : Nat := %d\n\nend Generated.C11\n",
		pos("protocol.Request", "AST"), pos("AST.Thrift", "Filename"), pos("AST.Thrift", "Includes"), pos("AST.Include", "Reference"))
	return sb.String()
}
