package c11lib

import (
	"fmt"
	"math"
	"reflect"
	"sort"
	"strconv"
	"strings"
	"sync"

	"verifharness/internal/values"
)

var (
	fieldIdxMu sync.Mutex
	fieldIdx   = map[reflect.Type]map[int32]int{}
)

// fieldsByID maps thrift field ids to Go struct field indexes using the `thrift:"Name,id[,req]"` tags.
func fieldsByID(t reflect.Type) map[int32]int {
	fieldIdxMu.Lock()
	defer fieldIdxMu.Unlock()
	if m, ok := fieldIdx[t]; ok {
		return m
	}
	m := map[int32]int{}
	for i := 0; i < t.NumField(); i++ {
		tag := t.Field(i).Tag.Get("thrift")
		parts := strings.Split(tag, ",")
		if len(parts) < 2 {
			continue
		}
		id, err := strconv.Atoi(parts[1])
		if err != nil {
			continue
		}
		m[int32(id)] = i
	}
	fieldIdx[t] = m
	return m
}

// ToValue describes the Go object obj (a pointer to one of the repository's generated structs whose
// schema index is sidx) as a values.Value: every field in schema order, nil pointers/slices/maps as 'n',
// map entries sorted by the VL text of the key.
func (sc *Schema) ToValue(sidx int, obj interface{}) (v *values.Value, err error) {
	defer func() {
		if r := recover(); r != nil {
			err = fmt.Errorf("ToValue: %v", r)
		}
	}()
	return sc.toValue(&Ty{K: 'S', S: sidx}, reflect.ValueOf(obj)), nil
}

func (sc *Schema) toValue(ty *Ty, rv reflect.Value) *values.Value {
	switch ty.K {
	case 'b', 'y', 'h', 'i', 'l', 'e', 'd', 's':
		if rv.Kind() == reflect.Ptr {
			if rv.IsNil() {
				return values.Nil()
			}
			rv = rv.Elem()
		}
		switch ty.K {
		case 'b':
			return values.Bool(rv.Bool())
		case 'd':
			return values.Double(math.Float64bits(rv.Float()))
		case 's':
			return values.Str(rv.String())
		default:
			return values.Int(rv.Int())
		}
	case 'B':
		if rv.IsNil() {
			return values.Nil()
		}
		return values.Bytes(rv.Bytes())
	case 'L', 'T':
		if rv.IsNil() {
			return values.Nil()
		}
		out := &values.Value{K: ty.K, E: make([]*values.Value, rv.Len())}
		for i := 0; i < rv.Len(); i++ {
			out.E[i] = sc.toValue(ty.Elem, rv.Index(i))
		}
		return out
	case 'M':
		if rv.IsNil() {
			return values.Nil()
		}
		type pair struct {
			ks   string
			k, v *values.Value
		}
		var ps []pair
		it := rv.MapRange()
		for it.Next() {
			k := sc.toValue(ty.Key, it.Key())
			ps = append(ps, pair{k.String(), k, sc.toValue(ty.Elem, it.Value())})
		}
		sort.SliceStable(ps, func(i, j int) bool { return ps[i].ks < ps[j].ks })
		out := &values.Value{K: values.KMap, E: make([]*values.Value, 0, 2*len(ps))}
		for _, p := range ps {
			out.E = append(out.E, p.k, p.v)
		}
		return out
	case 'S':
		if rv.Kind() == reflect.Ptr {
			if rv.IsNil() {
				return values.Nil()
			}
			rv = rv.Elem()
		}
		sd := sc.Structs[ty.S]
		idx := fieldsByID(rv.Type())
		out := &values.Value{K: values.KRecord, E: make([]*values.Value, len(sd.Fields))}
		for i, f := range sd.Fields {
			j, ok := idx[f.ID]
			if !ok {
				panic(fmt.Sprintf("Go type %s has no field with thrift id %d (%s.%s)", rv.Type(), f.ID, sd.Name, f.Name))
			}
			out.E[i] = sc.toValue(f.Ty, rv.Field(j))
		}
		return out
	}
	panic("bad type")
}

// FromValue builds the Go object described by v into out (a pointer to a generated struct).
func (sc *Schema) FromValue(sidx int, v *values.Value, out interface{}) (err error) {
	defer func() {
		if r := recover(); r != nil {
			err = fmt.Errorf("FromValue: %v", r)
		}
	}()
	rv := reflect.ValueOf(out)
	sc.fromValue(&Ty{K: 'S', S: sidx}, v, rv.Elem(), true)
	return nil
}

// fromValue stores v into dst; inPlace: dst is the struct itself rather than a pointer slot.
func (sc *Schema) fromValue(ty *Ty, v *values.Value, dst reflect.Value, inPlace bool) {
	if v.IsNil() {
		dst.Set(reflect.Zero(dst.Type()))
		return
	}
	switch ty.K {
	case 'b', 'y', 'h', 'i', 'l', 'e', 'd', 's':
		tgt := dst
		if dst.Kind() == reflect.Ptr {
			dst.Set(reflect.New(dst.Type().Elem()))
			tgt = dst.Elem()
		}
		switch ty.K {
		case 'b':
			tgt.SetBool(v.B)
		case 'd':
			tgt.SetFloat(math.Float64frombits(v.D))
		case 's':
			tgt.SetString(string(v.X))
		default:
			tgt.SetInt(v.I)
		}
	case 'B':
		dst.SetBytes(append([]byte{}, v.X...))
	case 'L', 'T':
		s := reflect.MakeSlice(dst.Type(), len(v.E), len(v.E))
		for i, e := range v.E {
			sc.fromValue(ty.Elem, e, s.Index(i), false)
		}
		dst.Set(s)
	case 'M':
		m := reflect.MakeMapWithSize(dst.Type(), v.NPairs())
		for i := 0; i < v.NPairs(); i++ {
			k := reflect.New(dst.Type().Key()).Elem()
			sc.fromValue(ty.Key, v.Key(i), k, false)
			e := reflect.New(dst.Type().Elem()).Elem()
			sc.fromValue(ty.Elem, v.Val(i), e, false)
			m.SetMapIndex(k, e)
		}
		dst.Set(m)
	case 'S':
		tgt := dst
		if !inPlace && dst.Kind() == reflect.Ptr {
			dst.Set(reflect.New(dst.Type().Elem()))
			tgt = dst.Elem()
		}
		sd := sc.Structs[ty.S]
		idx := fieldsByID(tgt.Type())
		if len(v.E) != len(sd.Fields) {
			panic(fmt.Sprintf("record of %d fields for %s (%d fields)", len(v.E), sd.Name, len(sd.Fields)))
		}
		for i, f := range sd.Fields {
			sc.fromValue(f.Ty, v.E[i], tgt.Field(idx[f.ID]), false)
		}
	}
}

// Normalize returns a copy of v in which, following the schema, nil containers and nil binaries in
// non-optional positions are replaced by empty ones: the equality "structurally equal" speaks about
// (a decoded request holds make([]T, 0) where the compiler held a nil slice).
func (sc *Schema) Normalize(ty *Ty, v *values.Value, optional bool) *values.Value {
	if v.IsNil() {
		if optional {
			return values.Nil()
		}
		switch ty.K {
		case 'L', 'T', 'M':
			return &values.Value{K: ty.K, E: []*values.Value{}}
		case 'B':
			return &values.Value{K: values.KBytes, X: []byte{}}
		}
		return values.Nil()
	}
	c := &values.Value{K: v.K, B: v.B, I: v.I, D: v.D, X: v.X}
	switch ty.K {
	case 'L', 'T':
		c.E = make([]*values.Value, len(v.E))
		for i, e := range v.E {
			c.E[i] = sc.Normalize(ty.Elem, e, false)
		}
	case 'M':
		c.E = make([]*values.Value, len(v.E))
		for i, e := range v.E {
			if i%2 == 0 {
				c.E[i] = sc.Normalize(ty.Key, e, false)
			} else {
				c.E[i] = sc.Normalize(ty.Elem, e, false)
			}
		}
	case 'S':
		sd := sc.Structs[ty.S]
		c.E = make([]*values.Value, len(v.E))
		for i, e := range v.E {
			if i < len(sd.Fields) {
				c.E[i] = sc.Normalize(sd.Fields[i].Ty, e, sd.Fields[i].Req == 'o')
			} else {
				c.E[i] = e
			}
		}
	}
	return c
}

// FirstDiff describes the first position where two values differ ("" if equal).
func (sc *Schema) FirstDiff(ty *Ty, a, b *values.Value, path string) string {
	if a.IsNil() || b.IsNil() {
		if a.IsNil() && b.IsNil() {
			return ""
		}
		return fmt.Sprintf("%s: %s vs %s", path, short(a), short(b))
	}
	if a.K != b.K || len(a.E) != len(b.E) {
		return fmt.Sprintf("%s: %s vs %s", path, short(a), short(b))
	}
	switch ty.K {
	case 'L', 'T':
		for i := range a.E {
			if d := sc.FirstDiff(ty.Elem, a.E[i], b.E[i], fmt.Sprintf("%s[%d]", path, i)); d != "" {
				return d
			}
		}
	case 'M':
		for i := range a.E {
			t := ty.Elem
			if i%2 == 0 {
				t = ty.Key
			}
			if d := sc.FirstDiff(t, a.E[i], b.E[i], fmt.Sprintf("%s{%d}", path, i/2)); d != "" {
				return d
			}
		}
	case 'S':
		sd := sc.Structs[ty.S]
		for i := range a.E {
			if d := sc.FirstDiff(sd.Fields[i].Ty, a.E[i], b.E[i], path+"."+sd.Fields[i].Name); d != "" {
				return d
			}
		}
	default:
		if !values.Equal(a, b) {
			return fmt.Sprintf("%s: %s vs %s", path, short(a), short(b))
		}
	}
	return ""
}

func short(v *values.Value) string {
	s := v.String()
	if len(s) > 120 {
		s = s[:120] + "…"
	}
	return s
}
