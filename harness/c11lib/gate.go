package c11lib

import (
	"fmt"
	"go/ast"
	"go/parser"
	"go/token"
	"path/filepath"
	"strconv"
)

// Gate holds the integer constants of plugin.supportDataTrailer as written in the source:
// `major > MajorGt`, `minor != Minor` / `minor > MinorGt`, `patch >= PatchGe`; MinLen from `len(v) < MinLen`.
type Gate struct {
	MajorGt, Minor, MinorGt, PatchGe, MinLen int
}

// ExtractGate reads <repo>/plugin/plugin.go with go/parser and collects the comparisons of
// supportDataTrailer (a regenerated fact: the version the data trailer is gated on).
func ExtractGate(repo string) (*Gate, error) {
	fset := token.NewFileSet()
	f, err := parser.ParseFile(fset, filepath.Join(repo, "plugin", "plugin.go"), nil, 0)
	if err != nil {
		return nil, err
	}
	var fn *ast.FuncDecl
	for _, d := range f.Decls {
		if fd, ok := d.(*ast.FuncDecl); ok && fd.Name.Name == "supportDataTrailer" && fd.Recv == nil {
			fn = fd
		}
	}
	if fn == nil || fn.Body == nil {
		return nil, fmt.Errorf("plugin.go: func supportDataTrailer not found")
	}
	g := &Gate{MajorGt: -1, Minor: -1, MinorGt: -1, PatchGe: -1, MinLen: -1}
	found := map[string]bool{}
	ast.Inspect(fn.Body, func(n ast.Node) bool {
		be, ok := n.(*ast.BinaryExpr)
		if !ok {
			return true
		}
		lit, ok := be.Y.(*ast.BasicLit)
		if !ok || lit.Kind != token.INT {
			return true
		}
		v, err := strconv.Atoi(lit.Value)
		if err != nil {
			return true
		}
		key := ""
		switch x := be.X.(type) {
		case *ast.Ident:
			key = x.Name + " " + be.Op.String()
		case *ast.CallExpr:
			if id, ok := x.Fun.(*ast.Ident); ok && id.Name == "len" {
				key = "len " + be.Op.String()
			}
		}
		switch key {
		case "major >":
			g.MajorGt = v
		case "minor !=":
			g.Minor = v
		case "minor >":
			g.MinorGt = v
		case "patch >=":
			g.PatchGe = v
		case "len <":
			g.MinLen = v
		default:
			return true
		}
		found[key] = true
		return true
	})
	if len(found) != 5 {
		return nil, fmt.Errorf("supportDataTrailer no longer has the shape `major > a; minor != b; minor > c; patch >= d; len(v) < e` (found %v): the model of the version gate must be revisited", found)
	}
	return g, nil
}

// Lean prints the constants (appended to Generated/C11Schema.lean inside namespace Generated.C11).
func (g *Gate) Lean() string {
	return fmt.Sprintf("\n/- constants of plugin.supportDataTrailer, read from plugin/plugin.go with go/parser -/\nnamespace Generated.C11\ndef gateMajorGt : Nat := %d\ndef gateMinor : Nat := %d\ndef gateMinorGt : Nat := %d\ndef gatePatchGe : Nat := %d\ndef gateMinLen : Nat := %d\nend Generated.C11\n",
		g.MajorGt, g.Minor, g.MinorGt, g.PatchGe, g.MinLen)
}
