import ThriftVerif.Gen.FastLemmas
/- helper lemmas about Gen.Fast for Props/C10: what FastAppend emits is the encoding of the standard wire value
   (`Gen.Std.toW`) with the fields of every struct sorted by field id (`normW`); `normW` preserves well-formedness. -/
set_option maxRecDepth 4000
namespace Gen.Fast
open Wire Gen Gen.Std


/-! ### the wire value FastAppend emits: the standard one with the fields of every struct sorted by id -/

/-- insertion into a field list sorted by the field id read as int16 -/
def insertW (x : Nat × WVal) : List (Nat × WVal) → List (Nat × WVal)
  | [] => [x]
  | y :: r => if unpat 16 x.1 ≤ unpat 16 y.1 then x :: y :: r else y :: insertW x r

def sortW : List (Nat × WVal) → List (Nat × WVal)
  | [] => []
  | x :: r => insertW x (sortW r)

mutual
/-- `w` with the fields of every struct (at every depth) sorted by field id -/
def normW : WVal → WVal
  | .struct fs => .struct (sortW (normFields fs))
  | .map kt vt kvs => .map kt vt (normPairs kvs)
  | .set et xs => .set et (normList xs)
  | .list et xs => .list et (normList xs)
  | .bool b => .bool b
  | .i8 v => .i8 v
  | .dbl v => .dbl v
  | .i16 v => .i16 v
  | .i32 v => .i32 v
  | .i64 v => .i64 v
  | .bin bs => .bin bs
def normFields : List (Nat × WVal) → List (Nat × WVal)
  | [] => []
  | (id, v) :: r => (id, normW v) :: normFields r
def normPairs : List (WVal × WVal) → List (WVal × WVal)
  | [] => []
  | (k, v) :: r => (normW k, normW v) :: normPairs r
def normList : List WVal → List WVal
  | [] => []
  | x :: r => normW x :: normList r
end

theorem normW_ttype (w : WVal) : (normW w).ttype = w.ttype := by
  cases w <;> simp [normW, WVal.ttype]

theorem normList_length (xs : List WVal) : (normList xs).length = xs.length := by
  induction xs with
  | nil => rfl
  | cons x r ih => simp [normList, ih]

theorem normPairs_length (xs : List (WVal × WVal)) : (normPairs xs).length = xs.length := by
  induction xs with
  | nil => rfl
  | cons x r ih => obtain ⟨a, b⟩ := x; simp [normPairs, ih]

/-- the optional-skip rule of fastgo is the `IsSet<F>` of the standard code, except for an optional binary
field that has a default -/
def NoOptBinDflt (f : FieldDef) : Prop := ¬ (f.req = .optional ∧ f.ty = .bin ∧ f.dflt.isSome = true)

theorem catOf_bin (P : Prog) (ty : Ty) :
    decide (catOf P ty = Generated.C10.catBinary) = (match ty with | .bin => true | _ => false) := by
  cases ty <;> try rfl
  case struct i =>
    have h : catOf P (.struct i) ≠ Generated.C10.catBinary := by
      simp only [catOf]
      split
      · split
        · decide
        · split <;> decide
      · decide
    simp [h]

/-- with the `string(p.F) != string(default)` guard (`c = true`) the optional-skip rule of fastgo IS the `IsSet<F>`
of the standard code; without it, it is for every field except an optional binary field with a default -/
theorem optWritten_eq_isSet (c : Bool) (P : Prog) (f : FieldDef) (v : GoVal) (ho : f.req = .optional)
    (hn : c = true ∨ NoOptBinDflt f) : optWritten c P f v = isSet f v := by
  unfold optWritten isSet
  rw [isContainerType_eq, catOf_bin]
  cases hd : f.dflt with
  | none =>
    cases hty : f.ty <;> simp [isPointerField, hty, ho, hd]
  | some d =>
    cases hty : f.ty <;> simp [isPointerField, hty, ho, hd, Ty.isBase]
    cases c with
    | true => simp
    | false =>
      rcases hn with h | h
      · cases h
      · exact absurd ⟨ho, hty, by simp [hd]⟩ h

theorem written_eq (c : Bool) (P : Prog) (f : FieldDef) (v : GoVal) (hn : c = true ∨ NoOptBinDflt f) :
    written c P f v = !(f.req = .optional && !isSet f v) := by
  unfold written
  by_cases ho : f.req = .optional
  · rw [optWritten_eq_isSet c P f v ho hn]; simp [ho]
  · simp [ho]

/-- `WL` is the field list `fastFields` emits for the pair list `L`, in that order -/
inductive Corr (c : Bool) (P : Prog) (g : Ty → GoVal → FRes Bytes) : List (FieldDef × GoVal) → List (Nat × WVal) → Prop
  | nil : Corr c P g [] []
  | skip {L WL f v} : written c P f v = false → Corr c P g L WL → Corr c P g ((f, v) :: L) WL
  | emit {L WL f v w} : written c P f v = true → g f.ty v = .ok (encW w) → w.ttype.code = wireTypeOf P f.ty →
      Corr c P g L WL → Corr c P g ((f, v) :: L) ((pat 16 f.id, w) :: WL)

theorem Corr.fastFields {c : Bool} {P : Prog} {g : Ty → GoVal → FRes Bytes} {L : List (FieldDef × GoVal)} {WL : List (Nat × WVal)}
    (h : Corr c P g L WL) : fastFields c P g L = .ok (encFields WL) := by
  induction h with
  | nil => rfl
  | skip hw _ ih => simp only [Gen.Fast.fastFields, hw, Bool.false_eq_true, if_false]; exact ih
  | emit hw hg ht _ ih =>
    simp only [Gen.Fast.fastFields, hw, if_true, hg, ih, bind, encFields, ht]

theorem Corr.ids {c : Bool} {P : Prog} {g : Ty → GoVal → FRes Bytes} {L : List (FieldDef × GoVal)} {WL : List (Nat × WVal)}
    (h : Corr c P g L WL) : ∀ z ∈ WL, ∃ p ∈ L, z.1 = pat 16 p.1.id := by
  induction h with
  | nil => intro z hz; cases hz
  | skip _ _ ih =>
    intro z hz
    obtain ⟨p, hp, e⟩ := ih z hz
    exact ⟨p, by simp [hp], e⟩
  | emit _ _ _ _ ih =>
    intro z hz
    simp only [List.mem_cons] at hz
    rcases hz with rfl | hz
    · exact ⟨(_, _), List.mem_cons_self, rfl⟩
    · obtain ⟨p, hp, e⟩ := ih z hz
      exact ⟨p, by simp [hp], e⟩

def SortedIds (L : List (FieldDef × GoVal)) : Prop := L.Pairwise (fun a b => a.1.id ≤ b.1.id)
def IdsInRange (L : List (FieldDef × GoVal)) : Prop := ∀ p ∈ L, -32768 ≤ p.1.id ∧ p.1.id < 32768

theorem mem_insertField (x : FieldDef × GoVal) : ∀ (L : List (FieldDef × GoVal)) (p : FieldDef × GoVal),
    p ∈ insertField x L → p = x ∨ p ∈ L := by
  intro L
  induction L with
  | nil => intro p hp; simp [insertField] at hp; exact Or.inl hp
  | cons y r ih =>
    intro p hp
    simp only [insertField] at hp
    split at hp
    · simp only [List.mem_cons] at hp ⊢; exact hp
    · simp only [List.mem_cons] at hp ⊢
      rcases hp with h | h
      · exact Or.inr (Or.inl h)
      · rcases ih p h with h | h
        · exact Or.inl h
        · exact Or.inr (Or.inr h)

theorem sorted_insertField (x : FieldDef × GoVal) : ∀ (L : List (FieldDef × GoVal)), SortedIds L → SortedIds (insertField x L) := by
  intro L
  induction L with
  | nil => intro _; simp [insertField, SortedIds]
  | cons y r ih =>
    intro hs
    unfold SortedIds at hs
    rw [List.pairwise_cons] at hs
    simp only [insertField]
    split
    · rename_i hle
      unfold SortedIds
      rw [List.pairwise_cons]
      refine ⟨?_, List.pairwise_cons.mpr hs⟩
      intro p hp
      simp only [List.mem_cons] at hp
      rcases hp with rfl | hp
      · exact hle
      · exact Int.le_trans hle (hs.1 p hp)
    · rename_i hgt
      unfold SortedIds
      rw [List.pairwise_cons]
      refine ⟨?_, ih hs.2⟩
      intro p hp
      rcases mem_insertField x r p hp with rfl | hp
      · omega
      · exact hs.1 p hp

theorem sorted_sortPairs : ∀ (L : List (FieldDef × GoVal)), SortedIds (sortPairs L) := by
  intro L
  induction L with
  | nil => simp [sortPairs, SortedIds]
  | cons x r ih => exact sorted_insertField x _ ih

theorem mem_sortPairs : ∀ (L : List (FieldDef × GoVal)) (p : FieldDef × GoVal), p ∈ sortPairs L → p ∈ L := by
  intro L
  induction L with
  | nil => intro p hp; simp [sortPairs] at hp
  | cons x r ih =>
    intro p hp
    rcases mem_insertField x _ p hp with rfl | h
    · simp
    · simp [ih p h]

theorem insertW_head (y : Nat × WVal) : ∀ (WL : List (Nat × WVal)), (∀ z ∈ WL, unpat 16 y.1 ≤ unpat 16 z.1) → insertW y WL = y :: WL := by
  intro WL h
  cases WL with
  | nil => rfl
  | cons z r => simp [insertW, h z (by simp)]

theorem Corr.insert_skip {c : Bool} {P : Prog} {g : Ty → GoVal → FRes Bytes} (x : FieldDef × GoVal) (hx : written c P x.1 x.2 = false) :
    ∀ {L : List (FieldDef × GoVal)} {WL : List (Nat × WVal)}, Corr c P g L WL → Corr c P g (insertField x L) WL := by
  intro L WL h
  induction h with
  | nil => exact Corr.skip hx Corr.nil
  | @skip L WL f v hw hc ih =>
    simp only [insertField]
    split
    · exact Corr.skip hx (Corr.skip hw hc)
    · exact Corr.skip hw ih
  | @emit L WL f v w hw hg ht hc ih =>
    simp only [insertField]
    split
    · exact Corr.skip hx (Corr.emit hw hg ht hc)
    · exact Corr.emit hw hg ht ih

theorem Corr.insert_emit {c : Bool} {P : Prog} {g : Ty → GoVal → FRes Bytes} (x : FieldDef × GoVal) (w : WVal)
    (hx : written c P x.1 x.2 = true) (hg : g x.1.ty x.2 = .ok (encW w)) (ht : w.ttype.code = wireTypeOf P x.1.ty)
    (hxr : -32768 ≤ x.1.id ∧ x.1.id < 32768) :
    ∀ {L : List (FieldDef × GoVal)} {WL : List (Nat × WVal)}, Corr c P g L WL → SortedIds L → IdsInRange L →
      Corr c P g (insertField x L) (insertW (pat 16 x.1.id, w) WL) := by
  intro L WL h
  have hux : unpat 16 (pat 16 x.1.id) = x.1.id := unpat_pat16 x.1.id hxr
  induction h with
  | nil => intro _ _; exact Corr.emit hx hg ht Corr.nil
  | @skip L WL f v hw hc ih =>
    intro hs hr
    unfold SortedIds at hs
    rw [List.pairwise_cons] at hs
    simp only [insertField]
    split
    · rename_i hle
      rw [insertW_head]
      · exact Corr.emit hx hg ht (Corr.skip hw hc)
      · intro z hz
        obtain ⟨p, hp, e⟩ := hc.ids z hz
        have hpr := hr p (by simp [hp])
        simp only [hux, e, unpat_pat16 p.1.id hpr]
        exact Int.le_trans hle (hs.1 p hp)
    · exact Corr.skip hw (ih hs.2 (fun p hp => hr p (by simp [hp])))
  | @emit L WL f v w' hw hg' ht' hc ih =>
    intro hs hr
    unfold SortedIds at hs
    rw [List.pairwise_cons] at hs
    have hfr := hr (f, v) (by simp)
    have huf : unpat 16 (pat 16 f.id) = f.id := unpat_pat16 f.id hfr
    simp only [insertField, insertW, hux, huf]
    split
    · exact Corr.emit hx hg ht (Corr.emit hw hg' ht' hc)
    · exact Corr.emit hw hg' ht' (ih hs.2 (fun p hp => hr p (by simp [hp])))


theorem fastAny_scalar (c : Bool) (P : Prog) (fuel : Nat) (ty : Ty) (v : GoVal) (w : WVal) (h : scalarW ty v = some w) :
    fastAny c P (fuel + 1) ty v = .ok (encW (normW w)) := by
  cases ty <;> cases v <;> simp [scalarW] at h <;> subst h <;> simp [fastAny, normW, encW]

theorem WTFields_length (S : List StructDef) : ∀ (defs : List FieldDef) (vs : List GoVal), WTFields S defs vs → defs.length = vs.length := by
  intro defs
  induction defs with
  | nil => intro vs h; cases vs with
    | nil => rfl
    | cons v r => simp [WTFields] at h
  | cons f fs ih => intro vs h; cases vs with
    | nil => simp [WTFields] at h
    | cons v r => simp only [WTFields] at h; simp [ih r h.2.2.2]

theorem WTFields_range (S : List StructDef) : ∀ (defs : List FieldDef) (vs : List GoVal), WTFields S defs vs →
    IdsInRange (defs.zip vs) := by
  intro defs
  induction defs with
  | nil => intro vs _ p hp; simp at hp
  | cons f fs ih => intro vs h; cases vs with
    | nil => simp [WTFields] at h
    | cons v r =>
      simp only [WTFields] at h
      intro p hp
      simp only [List.zip_cons_cons, List.mem_cons] at hp
      rcases hp with rfl | hp
      · exact h.2.2.1
      · exact ih r h.2.2.2 p hp

/-- schema-level hypothesis of the write theorem: no optional binary field with a default, anywhere -/
def NoOptBin (P : Prog) : Prop := ∀ (i : Nat) (sd : StructDef), P.structs[i]? = some sd → ∀ f ∈ sd.fields, NoOptBinDflt f

/-- the write theorem's hypothesis: the generator has the default-comparison guard, or the schema has no optional
binary field with a default -/
def WriteOK (c : Bool) (P : Prog) : Prop := c = true ∨ NoOptBin P

theorem WriteOK.field {c : Bool} {P : Prog} (h : WriteOK c P) (i : Nat) (sd : StructDef) (hsd : P.structs[i]? = some sd) :
    ∀ f ∈ sd.fields, c = true ∨ NoOptBinDflt f := by
  intro f hf
  rcases h with h | h
  · exact Or.inl h
  · exact Or.inr (h i sd hsd f hf)

mutual
theorem fastAny_is_std (c : Bool) (P : Prog) (hP : WriteOK c P) (v : GoVal) : ∀ (ty : Ty) (w : WVal) (fuel : Nat), WT P.structs ty v →
    toW P ty v = .ok w → w.depth ≤ fuel → fastAny c P fuel ty v = .ok (encW (normW w)) := by
  intro ty w fuel hwt h hd
  cases fuel with
  | zero => have := depth_pos w; omega
  | succ fuel =>
  cases v with
  | nil =>
    cases ty <;> simp only [WT] at hwt <;> simp only [toW, scalarW, Res.ofOption] at h
    · cases h; simp [fastAny, normW, encW]
    · cases h; simp [fastAny, normW, encW, normList, encList, gopkgTypeOf_eq]
    · cases h; simp [fastAny, normW, encW, normList, encList, gopkgTypeOf_eq]
    · cases h; simp [fastAny, normW, encW, normPairs, encPairs, gopkgTypeOf_eq]
  | bool b =>
    have hs : scalarW ty (.bool b) = some w := by
      cases ty <;> first | (simp only [toW, Res.ofOption_eq_ok] at h; exact h) | (simp only [WT] at hwt)
    exact fastAny_scalar c P fuel ty _ w hs
  | int x =>
    have hs : scalarW ty (.int x) = some w := by
      cases ty <;> first | (simp only [toW, Res.ofOption_eq_ok] at h; exact h) | (simp only [WT] at hwt)
    exact fastAny_scalar c P fuel ty _ w hs
  | dbl x =>
    have hs : scalarW ty (.dbl x) = some w := by
      cases ty <;> first | (simp only [toW, Res.ofOption_eq_ok] at h; exact h) | (simp only [WT] at hwt)
    exact fastAny_scalar c P fuel ty _ w hs
  | bytes x =>
    have hs : scalarW ty (.bytes x) = some w := by
      cases ty <;> first | (simp only [toW, Res.ofOption_eq_ok] at h; exact h) | (simp only [WT] at hwt)
    exact fastAny_scalar c P fuel ty _ w hs
  | list xs =>
    cases ty <;> simp only [WT] at hwt
    · rename_i e
      simp only [toW, Res.bind_eq_ok] at h
      obtain ⟨ws, h1, h2⟩ := h
      cases h2
      simp only [WVal.depth] at hd
      obtain ⟨_, hlen⟩ := toWList_WF P xs e ws hwt.2 h1
      have := fastList_is_std c P hP xs e ws fuel hwt.2 h1 (by omega)
      simp [fastAny, this, bind, normW, encW, gopkgTypeOf_eq, normList_length, hlen]
    · rename_i e
      simp only [toW] at h
      split at h
      · cases h
      · simp only [Res.bind_eq_ok] at h
        obtain ⟨ws, h1, h2⟩ := h
        cases h2
        simp only [WVal.depth] at hd
        obtain ⟨_, hlen⟩ := toWList_WF P xs e ws hwt.2 h1
        have := fastList_is_std c P hP xs e ws fuel hwt.2 h1 (by omega)
        simp [fastAny, this, bind, normW, encW, gopkgTypeOf_eq, normList_length, hlen]
  | map kvs =>
    cases ty <;> simp only [WT] at hwt
    rename_i k vt
    simp only [toW, Res.bind_eq_ok] at h
    obtain ⟨ws, h1, h2⟩ := h
    cases h2
    simp only [WVal.depth] at hd
    obtain ⟨_, hlen⟩ := toWPairs_WF P kvs k vt ws hwt.2.1 h1
    have := fastPairs_is_std c P hP kvs k vt ws fuel hwt.2.1 h1 (by omega)
    simp [fastAny, this, bind, normW, encW, gopkgTypeOf_eq, normPairs_length, hlen]
  | strct fs =>
    cases ty <;> simp only [WT] at hwt
    rename_i i
    obtain ⟨sd, hsd, hf⟩ := hwt
    simp only [toW, Prog.struct?, hsd] at h
    split at h
    · cases h
    · simp only [Res.bind_eq_ok] at h
      obtain ⟨ws, h1, h2⟩ := h
      cases h2
      simp only [WVal.depth] at hd
      have hc := fastFields_is_std c P hP fs sd.fields ws fuel hf h1 (by omega) (hP.field i sd hsd)
      have hlen := WTFields_length P.structs sd.fields fs hf
      have := hc.fastFields
      simp only [fastAny, Prog.struct?, hsd]
      simp [hlen, sortFields, this, bind, normW, encW]

theorem fastList_is_std (c : Bool) (P : Prog) (hP : WriteOK c P) (xs : List GoVal) : ∀ (e : Ty) (ws : List WVal) (fuel : Nat),
    WTList P.structs e xs → toWList P e xs = .ok ws → depthList ws ≤ fuel →
    concatWith (fastAny c P fuel e) xs = .ok (encList (normList ws)) := by
  intro e ws fuel hwt h hd
  cases xs with
  | nil => simp only [toWList] at h; cases h; rfl
  | cons x r =>
    simp only [WTList] at hwt
    simp only [toWList, Res.bind_eq_ok] at h
    obtain ⟨w, h1, ws', h2, h3⟩ := h
    cases h3
    simp only [depthList] at hd
    have e1 := fastAny_is_std c P hP x e w fuel hwt.1 h1 (by omega)
    have e2 := fastList_is_std c P hP r e ws' fuel hwt.2 h2 (by omega)
    simp [concatWith, e1, e2, bind, normList, encList]

theorem fastPairs_is_std (c : Bool) (P : Prog) (hP : WriteOK c P) (kvs : List (GoVal × GoVal)) : ∀ (k v : Ty) (ws : List (WVal × WVal)) (fuel : Nat),
    WTPairs P.structs k v kvs → toWPairs P k v kvs = .ok ws → depthPairs ws ≤ fuel →
    concatPairsWith (fastAny c P fuel k) (fastAny c P fuel v) kvs = .ok (encPairs (normPairs ws)) := by
  intro k v ws fuel hwt h hd
  cases kvs with
  | nil => simp only [toWPairs] at h; cases h; rfl
  | cons x r =>
    obtain ⟨a, b⟩ := x
    simp only [WTPairs] at hwt
    simp only [toWPairs, Res.bind_eq_ok] at h
    obtain ⟨wa, h1, wb, h2, ws', h3, h4⟩ := h
    cases h4
    simp only [depthPairs] at hd
    have e1 := fastAny_is_std c P hP a k wa fuel hwt.1 h1 (by omega)
    have e2 := fastAny_is_std c P hP b v wb fuel hwt.2.1 h2 (by omega)
    have e3 := fastPairs_is_std c P hP r k v ws' fuel hwt.2.2 h3 (by omega)
    simp [concatPairsWith, e1, e2, e3, bind, normPairs, encPairs]

theorem fastFields_is_std (c : Bool) (P : Prog) (hP : WriteOK c P) (vs : List GoVal) : ∀ (defs : List FieldDef) (ws : List (Nat × WVal)) (fuel : Nat),
    WTFields P.structs defs vs → toWFields P defs vs = .ok ws → depthFields ws ≤ fuel → (∀ f ∈ defs, c = true ∨ NoOptBinDflt f) →
    Corr c P (fastAny c P fuel) (sortPairs (defs.zip vs)) (sortW (normFields ws)) := by
  intro defs ws fuel hwt h hd hn
  cases vs with
  | nil =>
    cases defs with
    | nil => simp only [toWFields] at h; cases h; exact Corr.nil
    | cons f fs => simp [WTFields] at hwt
  | cons v vs' =>
    cases defs with
    | nil => simp [WTFields] at hwt
    | cons f fs =>
      have hrange := WTFields_range P.structs (f :: fs) (v :: vs') hwt
      simp only [WTFields] at hwt
      obtain ⟨hopt, hreq, hid, hrest⟩ := hwt
      simp only [toWFields] at h
      simp only [List.zip_cons_cons, sortPairs]
      have hnf := hn f (by simp)
      have hw := written_eq c P f v hnf
      split at h
      · rename_i hc
        have ih := fastFields_is_std c P hP vs' fs ws fuel hrest h hd (fun g hg => hn g (by simp [hg]))
        exact Corr.insert_skip (f, v) (by rw [hw]; simp [hc]) ih
      · rename_i hc
        simp only [Res.bind_eq_ok] at h
        obtain ⟨w, h1, ws', h2, h3⟩ := h
        cases h3
        simp only [depthFields] at hd
        have hwtv : WT P.structs f.ty v := by
          by_cases ho : f.req = .optional
          · rcases hopt ho with hnl | hwv
            · simp [ho, hnl.2] at hc
            · exact hwv
          · exact hreq ho
        obtain ⟨_, htt⟩ := toW_WF P v f.ty w hwtv h1
        have e1 := fastAny_is_std c P hP v f.ty w fuel hwtv h1 (by omega)
        have ih := fastFields_is_std c P hP vs' fs ws' fuel hrest h2 (by omega) (fun g hg => hn g (by simp [hg]))
        simp only [normFields, sortW]
        refine Corr.insert_emit (f, v) (normW w) (by rw [hw]; rw [Bool.not_eq_true] at hc; rw [hc]; rfl) e1 ?_ hid ih (sorted_sortPairs _) ?_
        · rw [normW_ttype, htt, wireTypeOf_eq]
        · intro p hp
          exact hrange p (by simp [mem_sortPairs _ p hp])
end


theorem WFFields_insertW (x : Nat × WVal) : ∀ (l : List (Nat × WVal)), x.1 < 256 ^ 2 → WF x.2 → WFFields l → WFFields (insertW x l) := by
  intro l
  induction l with
  | nil => intro h1 h2 _; simp [insertW, WFFields, h1, h2]
  | cons y r ih =>
    intro h1 h2 h3
    obtain ⟨yi, yv⟩ := y
    simp only [WFFields] at h3
    simp only [insertW]
    split
    · simp [WFFields, h1, h2, h3]
    · simp only [WFFields]; exact ⟨h3.1, h3.2.1, ih h1 h2 h3.2.2⟩

theorem WFFields_sortW : ∀ (l : List (Nat × WVal)), WFFields l → WFFields (sortW l) := by
  intro l
  induction l with
  | nil => intro h; exact h
  | cons y r ih =>
    intro h
    obtain ⟨yi, yv⟩ := y
    simp only [WFFields] at h
    exact WFFields_insertW (yi, yv) _ h.1 h.2.1 (ih h.2.2)

theorem depthFields_insertW (x : Nat × WVal) : ∀ (l : List (Nat × WVal)), depthFields (insertW x l) = max x.2.depth (depthFields l) := by
  intro l
  induction l with
  | nil => rfl
  | cons y r ih =>
    obtain ⟨yi, yv⟩ := y
    simp only [insertW]
    split
    · rfl
    · simp only [depthFields, ih]; omega

theorem depthFields_sortW : ∀ (l : List (Nat × WVal)), depthFields (sortW l) = depthFields l := by
  intro l
  induction l with
  | nil => rfl
  | cons y r ih =>
    obtain ⟨yi, yv⟩ := y
    simp only [sortW, depthFields_insertW, depthFields, ih]

mutual
theorem normW_WF (w : WVal) : WF w → WF (normW w) ∧ (normW w).depth = w.depth := by
  intro h
  cases w with
  | struct fs =>
    simp only [WF] at h
    obtain ⟨h1, h2⟩ := normFields_WF fs h
    simp only [normW, WF, WVal.depth, depthFields_sortW, h2, and_true]
    exact WFFields_sortW _ h1
  | map kt vt kvs =>
    simp only [WF] at h
    obtain ⟨h1, h2⟩ := normPairs_WF kt vt kvs h.2
    simp only [normW, WF, WVal.depth, normPairs_length, h2, and_true]
    exact ⟨h.1, h1⟩
  | set et xs =>
    simp only [WF] at h
    obtain ⟨h1, h2⟩ := normList_WF et xs h.2
    simp only [normW, WF, WVal.depth, normList_length, h2, and_true]
    exact ⟨h.1, h1⟩
  | list et xs =>
    simp only [WF] at h
    obtain ⟨h1, h2⟩ := normList_WF et xs h.2
    simp only [normW, WF, WVal.depth, normList_length, h2, and_true]
    exact ⟨h.1, h1⟩
  | bool b => exact ⟨h, rfl⟩
  | i8 v => exact ⟨h, rfl⟩
  | dbl v => exact ⟨h, rfl⟩
  | i16 v => exact ⟨h, rfl⟩
  | i32 v => exact ⟨h, rfl⟩
  | i64 v => exact ⟨h, rfl⟩
  | bin bs => exact ⟨h, rfl⟩
theorem normFields_WF (fs : List (Nat × WVal)) : WFFields fs → WFFields (normFields fs) ∧ depthFields (normFields fs) = depthFields fs := by
  intro h
  cases fs with
  | nil => exact ⟨h, rfl⟩
  | cons x r =>
    obtain ⟨id, v⟩ := x
    simp only [WFFields] at h
    obtain ⟨a1, a2⟩ := normW_WF v h.2.1
    obtain ⟨b1, b2⟩ := normFields_WF r h.2.2
    simp only [normFields, WFFields, depthFields, a2, b2, and_true]
    exact ⟨h.1, a1, b1⟩
theorem normPairs_WF (kt vt : TType) (kvs : List (WVal × WVal)) : WFPairs kt vt kvs →
    WFPairs kt vt (normPairs kvs) ∧ depthPairs (normPairs kvs) = depthPairs kvs := by
  intro h
  cases kvs with
  | nil => exact ⟨h, rfl⟩
  | cons x r =>
    obtain ⟨k, v⟩ := x
    simp only [WFPairs] at h
    obtain ⟨a1, a2⟩ := normW_WF k h.2.2.1
    obtain ⟨c1, c2⟩ := normW_WF v h.2.2.2.1
    obtain ⟨b1, b2⟩ := normPairs_WF kt vt r h.2.2.2.2
    simp only [normPairs, WFPairs, depthPairs, a2, b2, c2, normW_ttype, and_true]
    exact ⟨h.1, h.2.1, a1, c1, b1⟩
theorem normList_WF (et : TType) (xs : List WVal) : WFList et xs → WFList et (normList xs) ∧ depthList (normList xs) = depthList xs := by
  intro h
  cases xs with
  | nil => exact ⟨h, rfl⟩
  | cons x r =>
    simp only [WFList] at h
    obtain ⟨a1, a2⟩ := normW_WF x h.2.1
    obtain ⟨b1, b2⟩ := normList_WF et r h.2.2
    simp only [normList, WFList, depthList, a2, b2, normW_ttype, and_true]
    exact ⟨h.1, a1, b1⟩
end




/-- every struct-like declares its fields in non-decreasing id order (the common style) -/
def SortedSchema (P : Prog) : Prop :=
  ∀ (i : Nat) (sd : StructDef), P.structs[i]? = some sd → sd.fields.Pairwise (fun a b => a.id ≤ b.id)

def SortedW (l : List (Nat × WVal)) : Prop := l.Pairwise (fun a b => unpat 16 a.1 ≤ unpat 16 b.1)

theorem sortW_sorted : ∀ (l : List (Nat × WVal)), SortedW l → sortW l = l := by
  intro l
  induction l with
  | nil => intro _; rfl
  | cons x r ih =>
    intro h
    unfold SortedW at h
    rw [List.pairwise_cons] at h
    simp only [sortW]
    rw [ih h.2]
    exact insertW_head x r h.1

theorem toWFields_ids (P : Prog) : ∀ (defs : List FieldDef) (vs : List GoVal) (ws : List (Nat × WVal)),
    toWFields P defs vs = .ok ws → ∀ z ∈ ws, ∃ g ∈ defs, z.1 = pat 16 g.id := by
  intro defs
  induction defs with
  | nil =>
    intro vs ws h z hz
    cases vs with
    | nil => simp only [toWFields] at h; cases h; cases hz
    | cons v r => simp [toWFields] at h
  | cons f fs ih =>
    intro vs ws h z hz
    cases vs with
    | nil => simp [toWFields] at h
    | cons v r =>
      simp only [toWFields] at h
      split at h
      · obtain ⟨g, hg, e⟩ := ih r ws h z hz
        exact ⟨g, by simp [hg], e⟩
      · simp only [Res.bind_eq_ok] at h
        obtain ⟨w, _, ws', h2, h3⟩ := h
        cases h3
        simp only [List.mem_cons] at hz
        rcases hz with rfl | hz
        · exact ⟨f, by simp, rfl⟩
        · obtain ⟨g, hg, e⟩ := ih r ws' h2 z hz
          exact ⟨g, by simp [hg], e⟩

theorem toWFields_sorted (P : Prog) : ∀ (defs : List FieldDef) (vs : List GoVal) (ws : List (Nat × WVal)),
    toWFields P defs vs = .ok ws → defs.Pairwise (fun a b => a.id ≤ b.id) → (∀ f ∈ defs, -32768 ≤ f.id ∧ f.id < 32768) →
    SortedW ws := by
  intro defs
  induction defs with
  | nil =>
    intro vs ws h _ _
    cases vs with
    | nil => simp only [toWFields] at h; cases h; exact List.Pairwise.nil
    | cons v r => simp [toWFields] at h
  | cons f fs ih =>
    intro vs ws h hs hr
    rw [List.pairwise_cons] at hs
    cases vs with
    | nil => simp [toWFields] at h
    | cons v r =>
      simp only [toWFields] at h
      split at h
      · exact ih r ws h hs.2 (fun g hg => hr g (by simp [hg]))
      · simp only [Res.bind_eq_ok] at h
        obtain ⟨w, _, ws', h2, h3⟩ := h
        cases h3
        unfold SortedW
        rw [List.pairwise_cons]
        refine ⟨?_, ih r ws' h2 hs.2 (fun g hg => hr g (by simp [hg]))⟩
        intro z hz
        obtain ⟨g, hg, e⟩ := toWFields_ids P fs r ws' h2 z hz
        simp only [e, unpat_pat16 f.id (hr f (by simp)), unpat_pat16 g.id (hr g (by simp [hg]))]
        exact hs.1 g hg

theorem normFields_ids : ∀ (l : List (Nat × WVal)), (normFields l).map (·.1) = l.map (·.1) := by
  intro l
  induction l with
  | nil => rfl
  | cons x r ih => obtain ⟨a, b⟩ := x; simp [normFields, ih]

mutual
/-- for a schema in id order the standard wire value is already normal -/
theorem normW_id (P : Prog) (hS : SortedSchema P) (v : GoVal) : ∀ (ty : Ty) (w : WVal), WT P.structs ty v →
    toW P ty v = .ok w → normW w = w := by
  intro ty w hwt h
  cases v with
  | nil =>
    cases ty <;> simp only [WT] at hwt <;> simp only [toW, scalarW, Res.ofOption] at h
    all_goals first
      | (cases h; simp [normW, normList, normPairs]; done)
      | skip
  | bool b =>
    have hs : scalarW ty (.bool b) = some w := by
      cases ty <;> first | (simp only [toW, Res.ofOption_eq_ok] at h; exact h) | (simp only [WT] at hwt)
    cases ty <;> simp [scalarW] at hs <;> subst hs <;> rfl
  | int x =>
    have hs : scalarW ty (.int x) = some w := by
      cases ty <;> first | (simp only [toW, Res.ofOption_eq_ok] at h; exact h) | (simp only [WT] at hwt)
    cases ty <;> simp [scalarW] at hs <;> subst hs <;> rfl
  | dbl x =>
    have hs : scalarW ty (.dbl x) = some w := by
      cases ty <;> first | (simp only [toW, Res.ofOption_eq_ok] at h; exact h) | (simp only [WT] at hwt)
    cases ty <;> simp [scalarW] at hs <;> subst hs <;> rfl
  | bytes x =>
    have hs : scalarW ty (.bytes x) = some w := by
      cases ty <;> first | (simp only [toW, Res.ofOption_eq_ok] at h; exact h) | (simp only [WT] at hwt)
    cases ty <;> simp [scalarW] at hs <;> subst hs <;> rfl
  | list xs =>
    cases ty <;> simp only [WT] at hwt
    · rename_i e
      simp only [toW, Res.bind_eq_ok] at h
      obtain ⟨ws, h1, h2⟩ := h
      cases h2
      simp [normW, normList_id P hS xs e ws hwt.2 h1]
    · rename_i e
      simp only [toW] at h
      split at h
      · cases h
      · simp only [Res.bind_eq_ok] at h
        obtain ⟨ws, h1, h2⟩ := h
        cases h2
        simp [normW, normList_id P hS xs e ws hwt.2 h1]
  | map kvs =>
    cases ty <;> simp only [WT] at hwt
    rename_i k vt
    simp only [toW, Res.bind_eq_ok] at h
    obtain ⟨ws, h1, h2⟩ := h
    cases h2
    simp [normW, normPairs_id P hS kvs k vt ws hwt.2.1 h1]
  | strct fs =>
    cases ty <;> simp only [WT] at hwt
    rename_i i
    obtain ⟨sd, hsd, hf⟩ := hwt
    simp only [toW, Prog.struct?, hsd] at h
    split at h
    · cases h
    · simp only [Res.bind_eq_ok] at h
      obtain ⟨ws, h1, h2⟩ := h
      cases h2
      have e1 := normFields_id P hS fs sd.fields ws hf h1
      have hr : ∀ f ∈ sd.fields, -32768 ≤ f.id ∧ f.id < 32768 := by
        intro f hfm
        have := WTFields_range P.structs sd.fields fs hf
        have hl := WTFields_length P.structs sd.fields fs hf
        obtain ⟨j, hj, rfl⟩ := List.getElem_of_mem hfm
        exact this (sd.fields[j], fs[j]'(by omega)) (by
          rw [List.mem_iff_getElem]
          exact ⟨j, by simp [List.length_zip]; omega, by simp⟩)
      have hsw := toWFields_sorted P sd.fields fs ws h1 (hS i sd hsd) hr
      simp only [normW, e1, sortW_sorted ws hsw]

theorem normList_id (P : Prog) (hS : SortedSchema P) (xs : List GoVal) : ∀ (e : Ty) (ws : List WVal),
    WTList P.structs e xs → toWList P e xs = .ok ws → normList ws = ws := by
  intro e ws hwt h
  cases xs with
  | nil => simp only [toWList] at h; cases h; rfl
  | cons x r =>
    simp only [WTList] at hwt
    simp only [toWList, Res.bind_eq_ok] at h
    obtain ⟨w, h1, ws', h2, h3⟩ := h
    cases h3
    simp [normList, normW_id P hS x e w hwt.1 h1, normList_id P hS r e ws' hwt.2 h2]

theorem normPairs_id (P : Prog) (hS : SortedSchema P) (kvs : List (GoVal × GoVal)) : ∀ (k v : Ty) (ws : List (WVal × WVal)),
    WTPairs P.structs k v kvs → toWPairs P k v kvs = .ok ws → normPairs ws = ws := by
  intro k v ws hwt h
  cases kvs with
  | nil => simp only [toWPairs] at h; cases h; rfl
  | cons x r =>
    obtain ⟨a, b⟩ := x
    simp only [WTPairs] at hwt
    simp only [toWPairs, Res.bind_eq_ok] at h
    obtain ⟨wa, h1, wb, h2, ws', h3, h4⟩ := h
    cases h4
    simp [normPairs, normW_id P hS a k wa hwt.1 h1, normW_id P hS b v wb hwt.2.1 h2, normPairs_id P hS r k v ws' hwt.2.2 h3]

theorem normFields_id (P : Prog) (hS : SortedSchema P) (vs : List GoVal) : ∀ (defs : List FieldDef) (ws : List (Nat × WVal)),
    WTFields P.structs defs vs → toWFields P defs vs = .ok ws → normFields ws = ws := by
  intro defs ws hwt h
  cases vs with
  | nil =>
    cases defs with
    | nil => simp only [toWFields] at h; cases h; rfl
    | cons f fs => simp [WTFields] at hwt
  | cons v vs' =>
    cases defs with
    | nil => simp [WTFields] at hwt
    | cons f fs =>
      simp only [WTFields] at hwt
      obtain ⟨hopt, hreq, hid, hrest⟩ := hwt
      simp only [toWFields] at h
      split at h
      · exact normFields_id P hS vs' fs ws hrest h
      · rename_i hc
        simp only [Res.bind_eq_ok] at h
        obtain ⟨w, h1, ws', h2, h3⟩ := h
        cases h3
        have hwtv : WT P.structs f.ty v := by
          by_cases ho : f.req = .optional
          · rcases hopt ho with hnl | hwv
            · simp [ho, hnl.2] at hc
            · exact hwv
          · exact hreq ho
        simp [normFields, normW_id P hS v f.ty w hwtv h1, normFields_id P hS vs' fs ws' hrest h2]
end


end Gen.Fast
