import ThriftVerif.Gen.Std
import ThriftVerif.Core.WireLemmas
/- helper lemmas about Gen.Std for Props/C02 (and C09/C10) -/
namespace Gen.Std
open Wire Gen

/-- sizes fit the protocol's int32 counts -/
def fitsLen (n : Nat) : Prop := n < maxSize

/-- map keys as a Go map can hold them: non-nil, pairwise different under Go key equality -/
def KeysOK (k : Ty) : List GoVal → Prop
  | [] => True
  | a :: r => a ≠ .nil ∧ (∀ p ∈ r, keyEq k a p = false) ∧ KeysOK k r

mutual
/-- the Go object is one a Go program can hold for a field/element of IDL type `ty`:
integers within the range of their Go type, sizes below 2^31, shapes matching -/
def WT (S : List StructDef) : Ty → GoVal → Prop
  | .bool, .bool _ => True
  | .i8, .int x => -128 ≤ x ∧ x < 128
  | .i16, .int x => -32768 ≤ x ∧ x < 32768
  | .i32, .int x => -2147483648 ≤ x ∧ x < 2147483648
  | .enum, .int x => -2147483648 ≤ x ∧ x < 2147483648
  | .i64, .int x => -9223372036854775808 ≤ x ∧ x < 9223372036854775808
  | .dbl, .dbl b => b < 256 ^ 8
  | .str, .bytes bs => fitsLen bs.length
  | .bin, .bytes bs => fitsLen bs.length
  | .bin, .nil => True
  | .list _, .nil => True
  | .set _, .nil => True
  | .map _ _, .nil => True
  | .list e, .list xs => fitsLen xs.length ∧ WTList S e xs
  | .set e, .list xs => fitsLen xs.length ∧ WTList S e xs
  | .map k v, .map kvs => fitsLen kvs.length ∧ WTPairs S k v kvs ∧ KeysOK k (kvs.map Prod.fst) ∧ (k.isBase = true ∨ k.isStruct = true)
  | .struct i, .strct fs => ∃ sd, S[i]? = some sd ∧ WTFields S sd.fields fs
  | _, _ => False
def WTList (S : List StructDef) (e : Ty) : List GoVal → Prop
  | [] => True
  | x :: r => WT S e x ∧ WTList S e r
def WTPairs (S : List StructDef) (k v : Ty) : List (GoVal × GoVal) → Prop
  | [] => True
  | (a, b) :: r => WT S k a ∧ WT S v b ∧ WTPairs S k v r
def WTFields (S : List StructDef) : List FieldDef → List GoVal → Prop
  | [], [] => True
  | f :: fs, v :: vs => (f.req = .optional → (v = .nil ∧ isSet f v = false) ∨ WT S f.ty v) ∧ (f.req ≠ .optional → WT S f.ty v) ∧
      (-32768 ≤ f.id ∧ f.id < 32768) ∧ WTFields S fs vs
  | _, _ => False
end

theorem pat_lt (bits : Nat) (v : Int) : pat bits v < 2 ^ bits := by
  unfold pat
  have hc : ((2 ^ bits : Nat) : Int) = (2 : Int) ^ bits := by simp
  have h2 : (0 : Int) < 2 ^ bits := Int.pow_pos (by decide)
  have h1 := Int.emod_lt_of_pos v h2
  have hn := Int.emod_nonneg v (Int.ne_of_gt h2)
  rw [← hc] at h1 hn
  omega

theorem pow256 : (256:Nat)^1 = 2^8 ∧ (256:Nat)^2 = 2^16 ∧ (256:Nat)^4 = 2^32 ∧ (256:Nat)^8 = 2^64 := by decide

theorem scalarW_WF (ty : Ty) (v : GoVal) (w : WVal) (P : Prog) (hwt : WT P.structs ty v) (h : scalarW ty v = some w) :
    WF w ∧ w.ttype = ty.ttype := by
  cases ty <;> cases v <;> simp [scalarW] at h <;> subst h <;> simp [WF, WVal.ttype, Ty.ttype] <;>
    first
    | (have := pat_lt 8 ‹Int›; omega)
    | (have := pat_lt 16 ‹Int›; omega)
    | (have := pat_lt 32 ‹Int›; omega)
    | (have := pat_lt 64 ‹Int›; omega)
    | (simp only [WT, fitsLen] at hwt; exact hwt)
    | (simp [maxSize])
    | skip

end Gen.Std

namespace Gen
theorem Res.bind_eq_ok {α β} (x : Res α) (f : α → Res β) (b : β) :
    (x >>= f) = .ok b ↔ ∃ a, x = .ok a ∧ f a = .ok b := by
  cases x <;> simp [bind]
theorem Res.pure_eq_ok {α} (a b : α) : (pure a : Res α) = .ok b ↔ a = b := by
  simp [pure]
theorem Res.ofOption_eq_ok {α} (o : Option α) (a : α) : Res.ofOption o = .ok a ↔ o = some a := by
  cases o <;> simp [Res.ofOption]
end Gen

namespace Gen.Std
open Wire Gen

mutual
theorem toW_WF (P : Prog) (v : GoVal) : ∀ (ty : Ty) (w : WVal), WT P.structs ty v → toW P ty v = .ok w →
    WF w ∧ w.ttype = ty.ttype := by
  intro ty w hwt h
  cases v with
  | nil =>
    cases ty <;> simp only [WT] at hwt <;> simp only [toW, scalarW, Res.ofOption] at h
    all_goals first
      | (cases h; simp [WF, WVal.ttype, Ty.ttype, WFList, WFPairs, maxSize]; done)
      | skip
  | bool b =>
    have hs : scalarW ty (.bool b) = some w := by
      cases ty <;> first | (simp only [toW, Res.ofOption_eq_ok] at h; exact h) | (simp only [WT] at hwt)
    exact scalarW_WF ty _ w P hwt hs
  | int x =>
    have hs : scalarW ty (.int x) = some w := by
      cases ty <;> first | (simp only [toW, Res.ofOption_eq_ok] at h; exact h) | (simp only [WT] at hwt)
    exact scalarW_WF ty _ w P hwt hs
  | dbl x =>
    have hs : scalarW ty (.dbl x) = some w := by
      cases ty <;> first | (simp only [toW, Res.ofOption_eq_ok] at h; exact h) | (simp only [WT] at hwt)
    exact scalarW_WF ty _ w P hwt hs
  | bytes x =>
    have hs : scalarW ty (.bytes x) = some w := by
      cases ty <;> first | (simp only [toW, Res.ofOption_eq_ok] at h; exact h) | (simp only [WT] at hwt)
    exact scalarW_WF ty _ w P hwt hs
  | list xs =>
    cases ty <;> simp only [WT] at hwt
    · rename_i e
      simp only [toW, Res.bind_eq_ok] at h
      obtain ⟨ws, h1, h2⟩ := h
      cases h2
      obtain ⟨hl, hw⟩ := toWList_WF P xs e ws hwt.2 h1
      simp only [WF, WVal.ttype, Ty.ttype, and_true]
      exact ⟨by rw [hw]; exact hwt.1, hl⟩
    · rename_i e
      simp only [toW] at h
      split at h
      · cases h
      · simp only [Res.bind_eq_ok] at h
        obtain ⟨ws, h1, h2⟩ := h
        cases h2
        obtain ⟨hl, hw⟩ := toWList_WF P xs e ws hwt.2 h1
        simp only [WF, WVal.ttype, Ty.ttype, and_true]
        exact ⟨by rw [hw]; exact hwt.1, hl⟩
  | map kvs =>
    cases ty <;> simp only [WT] at hwt
    rename_i k vt
    simp only [toW, Res.bind_eq_ok] at h
    obtain ⟨ws, h1, h2⟩ := h
    cases h2
    obtain ⟨hl, hw⟩ := toWPairs_WF P kvs k vt ws hwt.2.1 h1
    simp only [WF, WVal.ttype, Ty.ttype, and_true]
    exact ⟨by rw [hw]; exact hwt.1, hl⟩
  | strct fs =>
    cases ty <;> simp only [WT] at hwt
    rename_i i
    obtain ⟨sd, hsd, hf⟩ := hwt
    simp only [toW, Prog.struct?, hsd] at h
    split at h
    · cases h
    · simp only [Res.bind_eq_ok] at h
      obtain ⟨ws, h1, h2⟩ := h
      cases h2
      simp only [WF, WVal.ttype, Ty.ttype, and_true]
      exact toWFields_WF P fs sd.fields ws hf h1

theorem toWList_WF (P : Prog) (xs : List GoVal) : ∀ (e : Ty) (ws : List WVal), WTList P.structs e xs →
    toWList P e xs = .ok ws → WFList e.ttype ws ∧ ws.length = xs.length := by
  intro e ws hwt h
  cases xs with
  | nil => simp only [toWList] at h; cases h; simp [WFList]
  | cons x r =>
    simp only [WTList] at hwt
    simp only [toWList, Res.bind_eq_ok] at h
    obtain ⟨w, h1, ws', h2, h3⟩ := h
    cases h3
    obtain ⟨hw, ht⟩ := toW_WF P x e w hwt.1 h1
    obtain ⟨hl, hn⟩ := toWList_WF P r e ws' hwt.2 h2
    simp [WFList, hw, ht, hl, hn]

theorem toWPairs_WF (P : Prog) (kvs : List (GoVal × GoVal)) : ∀ (k v : Ty) (ws : List (WVal × WVal)),
    WTPairs P.structs k v kvs → toWPairs P k v kvs = .ok ws → WFPairs k.ttype v.ttype ws ∧ ws.length = kvs.length := by
  intro k v ws hwt h
  cases kvs with
  | nil => simp only [toWPairs] at h; cases h; simp [WFPairs]
  | cons x r =>
    obtain ⟨a, b⟩ := x
    simp only [WTPairs] at hwt
    simp only [toWPairs, Res.bind_eq_ok] at h
    obtain ⟨wa, h1, wb, h2, ws', h3, h4⟩ := h
    cases h4
    obtain ⟨hwa, hta⟩ := toW_WF P a k wa hwt.1 h1
    obtain ⟨hwb, htb⟩ := toW_WF P b v wb hwt.2.1 h2
    obtain ⟨hl, hn⟩ := toWPairs_WF P r k v ws' hwt.2.2 h3
    simp [WFPairs, hwa, hta, hwb, htb, hl, hn]

theorem toWFields_WF (P : Prog) (vs : List GoVal) : ∀ (defs : List FieldDef) (ws : List (Nat × WVal)),
    WTFields P.structs defs vs → toWFields P defs vs = .ok ws → WFFields ws := by
  intro defs ws hwt h
  cases vs with
  | nil =>
    cases defs with
    | nil => simp only [toWFields] at h; cases h; simp [WFFields]
    | cons f fs => simp [WTFields] at hwt
  | cons v vs' =>
    cases defs with
    | nil => simp [WTFields] at hwt
    | cons f fs =>
      simp only [WTFields] at hwt
      obtain ⟨hopt, hreq, hid, hrest⟩ := hwt
      simp only [toWFields] at h
      split at h
      · exact toWFields_WF P vs' fs ws hrest h
      · rename_i hc
        simp only [Res.bind_eq_ok] at h
        obtain ⟨w, h1, ws', h2, h3⟩ := h
        cases h3
        have hwtv : WT P.structs f.ty v := by
          by_cases ho : f.req = .optional
          · rcases hopt ho with hn | hw
            · simp [ho, hn.2] at hc
            · exact hw
          · exact hreq ho
        obtain ⟨hw, _⟩ := toW_WF P v f.ty w hwtv h1
        have hr := toWFields_WF P vs' fs ws' hrest h2
        simp only [WFFields]
        refine ⟨?_, hw, hr⟩
        have := pat_lt 16 f.id
        have := pow256.2.1
        omega
end


theorem unpat_pat8 (x : Int) (h : -128 ≤ x ∧ x < 128) : unpat 8 (pat 8 x) = x := by
  have e1 : (2:Int)^8 = 256 := by decide
  have e2 : (2:Nat)^(8-1) = 128 := by decide
  simp only [unpat, pat, e1, e2]
  split <;> omega
theorem unpat_pat16 (x : Int) (h : -32768 ≤ x ∧ x < 32768) : unpat 16 (pat 16 x) = x := by
  have e1 : (2:Int)^16 = 65536 := by decide
  have e2 : (2:Nat)^(16-1) = 32768 := by decide
  simp only [unpat, pat, e1, e2]
  split <;> omega
theorem unpat_pat32 (x : Int) (h : -2147483648 ≤ x ∧ x < 2147483648) : unpat 32 (pat 32 x) = x := by
  have e1 : (2:Int)^32 = 4294967296 := by decide
  have e2 : (2:Nat)^(32-1) = 2147483648 := by decide
  simp only [unpat, pat, e1, e2]
  split <;> omega
theorem unpat_pat64 (x : Int) (h : -9223372036854775808 ≤ x ∧ x < 9223372036854775808) : unpat 64 (pat 64 x) = x := by
  have e1 : (2:Int)^64 = 18446744073709551616 := by decide
  have e2 : (2:Nat)^(64-1) = 9223372036854775808 := by decide
  simp only [unpat, pat, e1, e2]
  split <;> omega

theorem readN_pat (n bits : Nat) (hb : 256 ^ n = 2 ^ bits) (x : Int) (r : Bytes) :
    readN n (be n (pat bits x) ++ r) = some (pat bits x, r) :=
  readN_be n _ r (by rw [hb]; exact pat_lt bits x)

theorem readScalar_scalarW (P : Prog) (ty : Ty) (v : GoVal) (w : WVal) (r : Bytes) (hwt : WT P.structs ty v)
    (h : scalarW ty v = some w) :
    ∃ v', readScalar ty (encW w ++ r) = some (v', r) ∧ scalarW ty v' = some w ∧ WT P.structs ty v' ∧ v' ≠ .nil ∧
      (v ≠ .nil → v' = v) := by
  cases ty <;> cases v <;> simp only [scalarW, Option.some.injEq, reduceCtorEq] at h <;> subst h
  · -- bool
    rename_i b
    refine ⟨.bool b, ?_, rfl, trivial, by simp, fun _ => rfl⟩
    cases b
    · have := readN_be 1 0 r (by decide); simp [be] at this; simp [readScalar, encW, this]
    · have := readN_be 1 1 r (by decide); simp [be] at this; simp [readScalar, encW, this]
  · rename_i x
    simp only [WT] at hwt
    refine ⟨.int x, ?_, rfl, hwt, by simp, fun _ => rfl⟩
    simp [readScalar, encW, readN_pat 1 8 (by decide) x r, unpat_pat8 x hwt]
  · rename_i x
    simp only [WT] at hwt
    refine ⟨.int x, ?_, rfl, hwt, by simp, fun _ => rfl⟩
    simp [readScalar, encW, readN_pat 2 16 (by decide) x r, unpat_pat16 x hwt]
  · rename_i x
    simp only [WT] at hwt
    refine ⟨.int x, ?_, rfl, hwt, by simp, fun _ => rfl⟩
    simp [readScalar, encW, readN_pat 4 32 (by decide) x r, unpat_pat32 x hwt]
  · rename_i x
    simp only [WT] at hwt
    refine ⟨.int x, ?_, rfl, hwt, by simp, fun _ => rfl⟩
    simp [readScalar, encW, readN_pat 8 64 (by decide) x r, unpat_pat64 x hwt]
  · rename_i x
    simp only [WT] at hwt
    refine ⟨.dbl x, ?_, rfl, hwt, by simp, fun _ => rfl⟩
    simp [readScalar, encW, readN_be 8 x r hwt]
  · -- str
    rename_i bs
    simp only [WT, fitsLen] at hwt
    refine ⟨.bytes bs, ?_, rfl, hwt, by simp, fun _ => rfl⟩
    have h4 : bs.length < 256 ^ 4 := by simp only [maxSize] at hwt; have := pow_facts.2.2.1; omega
    have hn : ¬ bs.length ≥ maxSize := by omega
    simp [readScalar, encW, readN_be 4 bs.length (bs ++ r) h4, hn, readBytes_append]
  · -- bin nil
    refine ⟨.bytes [], ?_, rfl, by simp [WT, fitsLen, maxSize], by simp, fun h => absurd rfl h⟩
    have := readN_be 4 0 r (by decide)
    simp [readScalar, encW, readBytes, maxSize] at this ⊢
    simp [this]
  · -- bin bytes
    rename_i bs
    simp only [WT, fitsLen] at hwt
    refine ⟨.bytes bs, ?_, rfl, hwt, by simp, fun _ => rfl⟩
    have h4 : bs.length < 256 ^ 4 := by simp only [maxSize] at hwt; have := pow_facts.2.2.1; omega
    have hn : ¬ bs.length ≥ maxSize := by omega
    simp [readScalar, encW, readN_be 4 bs.length (bs ++ r) h4, hn, readBytes_append]
  · -- enum
    rename_i x
    simp only [WT] at hwt
    refine ⟨.int x, ?_, rfl, hwt, by simp, fun _ => rfl⟩
    simp [readScalar, encW, readN_pat 4 32 (by decide) x r, unpat_pat32 x hwt]

theorem goEq_nil_right (a : GoVal) : goEq a .nil = true ↔ a = .nil := by
  cases a <;> simp [goEq]

def Unset : List FieldDef → List GoVal → Prop
  | f :: fs, c :: cs => (f.req = .optional → isSet f c = false) ∧ Unset fs cs
  | _, _ => True

def ReqSeen : List FieldDef → List Bool → Prop
  | f :: fs, b :: bs => (f.req = .required → b = true) ∧ ReqSeen fs bs
  | _, _ => True

/-- per-field round-trip facts the loop lemma consumes -/
def RTv (P : Prog) (rd : Ty → Bytes → Option (GoVal × Bytes)) (dmax : Nat) (ty : Ty) (v : GoVal) : Prop :=
  ∀ w, WT P.structs ty v → toW P ty v = .ok w → w.depth ≤ dmax → ∀ r, ∃ v', rd ty (encW w ++ r) = some (v', r) ∧ toW P ty v' = .ok w ∧
    v' ≠ .nil ∧ (ty.isBase → v ≠ .nil → v' = v)

def IHs (P : Prog) (rd : Ty → Bytes → Option (GoVal × Bytes)) (dmax : Nat) : List FieldDef → List GoVal → Prop
  | f :: fs, v :: vs => RTv P rd dmax f.ty v ∧ IHs P rd dmax fs vs
  | _, _ => True

def idOf (f : FieldDef) : Nat := pat 16 f.id

theorem findField_go_append (pre : List FieldDef) (f : FieldDef) (fs : List FieldDef) (k : Nat)
    (h : ∀ g ∈ pre, idOf g ≠ idOf f) :
    findField.go (idOf f) (pre ++ f :: fs) k = some (k + pre.length, f) := by
  induction pre generalizing k with
  | nil => simp [findField.go, idOf]
  | cons g pre ih =>
    have hg : idOf g ≠ idOf f := h g (by simp)
    have := ih (k + 1) (fun x hx => h x (by simp [hx]))
    simp only [List.cons_append, findField.go, idOf] at this ⊢
    simp only [idOf] at hg
    simp [hg, this]; omega

theorem findField_append (pre : List FieldDef) (f : FieldDef) (fs : List FieldDef)
    (h : ((pre ++ f :: fs).map idOf).Nodup) :
    findField (pre ++ f :: fs) (idOf f) = some (pre.length, f) := by
  have hne : ∀ g ∈ pre, idOf g ≠ idOf f := by
    intro g hg e
    rw [List.map_append, List.nodup_append] at h
    exact h.2.2 (idOf g) (List.mem_map_of_mem hg) (idOf f) (by simp) e
  have := findField_go_append pre f fs 0 hne
  simpa [findField] using this

theorem set_append_len {α} (a : List α) (c : α) (cs : List α) (v : α) :
    (a ++ c :: cs).set a.length v = a ++ v :: cs := by
  induction a with
  | nil => rfl
  | cons x a ih => simp [ih]

theorem neDefault_readback (ty : Ty) (v v' d : GoVal) (hb : ty.isBase = true)
    (hs : ∃ w, scalarW ty v = some w) (hid : v ≠ .nil → v' = v) (hnil : v = .nil → v' = .bytes []) :
    neDefault ty v' d = neDefault ty v d := by
  by_cases hv : v = .nil
  · subst hv
    rw [hnil rfl]
    obtain ⟨w, hw⟩ := hs
    cases ty <;> simp [scalarW] at hw
    simp [neDefault]
  · rw [hid hv]


theorem toW_base (P : Prog) (ty : Ty) (v : GoVal) (hb : ty.isBase = true) :
    toW P ty v = Res.ofOption (scalarW ty v) := by
  cases ty <;> simp [Ty.isBase] at hb <;> cases v <;> simp [toW]

def DfltOpt (f : FieldDef) : Prop := f.req = .optional → f.dflt.isSome = true → f.ty.isBase = true

theorem isSet_readback (P : Prog) (f : FieldDef) (v v' : GoVal) (w : WVal) (hd : DfltOpt f)
    (ho : f.req = .optional) (hs : isSet f v = true) (h1 : toW P f.ty v = .ok w) (h2 : toW P f.ty v' = .ok w)
    (hn : v' ≠ .nil) (hid : f.ty.isBase = true → v ≠ .nil → v' = v) : isSet f v' = true := by
  unfold isSet at hs ⊢
  cases hdf : f.dflt with
  | none =>
    simp only [hdf] at hs ⊢
    have : goEq v' .nil = false := by
      cases h : goEq v' .nil
      · rfl
      · exact absurd ((goEq_nil_right v').mp h) hn
    simp [this]
  | some d =>
    have hb : f.ty.isBase = true := hd ho (by simp [hdf])
    simp only [hdf, hb, if_true] at hs ⊢
    rw [toW_base P f.ty v hb, Res.ofOption_eq_ok] at h1
    rw [toW_base P f.ty v' hb, Res.ofOption_eq_ok] at h2
    rw [neDefault_readback f.ty v v' d hb ⟨w, h1⟩ (hid hb)]
    · exact hs
    · intro hv
      subst hv
      cases hty : f.ty <;> rw [hty] at h1 h2 <;> simp [scalarW] at h1
      subst h1
      cases v' <;> simp [scalarW] at h2
      · exact absurd rfl hn
      · simp [h2]

theorem loop_rt (P : Prog) (rd : Ty → Bytes → Option (GoVal × Bytes)) (dmax : Nat) :
    ∀ (suf : List FieldDef) (svs : List GoVal) (ws : List (Nat × WVal)),
      toWFields P suf svs = .ok ws → depthFields ws ≤ dmax → IHs P rd dmax suf svs → WTFields P.structs suf svs → (∀ f ∈ suf, DfltOpt f) →
      ∀ (pre : List FieldDef) (cpre csuf : List GoVal) (spre ssuf : List Bool) (gas : Nat) (rest : Bytes),
        ((pre ++ suf).map idOf).Nodup → cpre.length = pre.length → spre.length = pre.length →
        csuf.length = suf.length → ssuf.length = suf.length → ws.length < gas → Unset suf csuf →
        ∃ csuf' ssuf', csuf'.length = suf.length ∧ ssuf'.length = suf.length ∧
          readFieldsWith rd (pre ++ suf) gas (encFields ws ++ rest) (cpre ++ csuf) (spre ++ ssuf)
            = readFieldsWith rd (pre ++ suf) (gas - ws.length) rest (cpre ++ csuf') (spre ++ ssuf') ∧
          toWFields P suf csuf' = .ok ws ∧ ReqSeen suf ssuf' := by
  intro suf
  induction suf with
  | nil =>
    intro svs ws h _ _ _ _ pre cpre csuf spre ssuf gas rest _ _ _ hc hs _ _
    cases svs with
    | cons v vs => simp [toWFields] at h
    | nil =>
      simp only [toWFields] at h; cases h
      have : csuf = [] := List.eq_nil_of_length_eq_zero hc
      have : ssuf = [] := List.eq_nil_of_length_eq_zero hs
      subst_vars
      exact ⟨[], [], rfl, rfl, by simp [encFields], by simp [toWFields], trivial⟩
  | cons f fs ih =>
    intro svs ws h hdep hih hwt hdo pre cpre csuf spre ssuf gas rest hnd hcp hsp hc hs hg hun
    cases svs with
    | nil => simp [toWFields] at h
    | cons v vs =>
    cases csuf with
    | nil => simp at hc
    | cons c cs =>
    cases ssuf with
    | nil => simp at hs
    | cons b bs =>
    simp only [List.length_cons, Nat.add_right_cancel_iff] at hc hs
    simp only [IHs] at hih
    simp only [WTFields] at hwt
    simp only [Unset] at hun
    obtain ⟨hopt, hreq, hid, hwtr⟩ := hwt
    have hassoc : pre ++ f :: fs = (pre ++ [f]) ++ fs := by simp
    simp only [toWFields] at h
    split at h
    · -- skipped
      rename_i hcond
      simp only [Bool.and_eq_true, decide_eq_true_eq, Bool.not_eq_true', ] at hcond
      obtain ⟨csuf', ssuf', hl1, hl2, hrun, htw, hrs⟩ :=
        ih vs ws h hdep hih.2 hwtr (fun g hg => hdo g (by simp [hg])) (pre ++ [f]) (cpre ++ [c]) cs (spre ++ [b]) bs gas rest
          (by rw [← hassoc]; exact hnd) (by simp [hcp]) (by simp [hsp]) hc hs hg hun.2
      refine ⟨c :: csuf', b :: ssuf', by simp [hl1], by simp [hl2], ?_, ?_, ?_⟩
      · simp only [List.append_assoc, List.singleton_append] at hrun
        rw [hassoc]; simpa using hrun
      · simp only [toWFields]
        have : isSet f c = false := hun.1 hcond.1
        simp [hcond.1, this, htw]
      · simp only [ReqSeen]
        exact ⟨fun e => (by rw [hcond.1] at e; cases e), hrs⟩
    · -- written
      rename_i hcond
      simp only [Res.bind_eq_ok] at h
      obtain ⟨w, hw, ws', hws', hcons⟩ := h
      cases hcons
      simp only [depthFields] at hdep
      have hwtv : WT P.structs f.ty v := by
        by_cases ho : f.req = .optional
        · rcases hopt ho with hn | hw'
          · simp [ho, hn.2] at hcond
          · exact hw'
        · exact hreq ho
      obtain ⟨_, htt⟩ := toW_WF P v f.ty w hwtv hw
      cases gas with
      | zero => simp at hg
      | succ g =>
      simp only [List.length_cons] at hg
      obtain ⟨v', hrd, htw', hnn, hidv⟩ := hih.1 w hwtv hw (by omega) (encFields ws' ++ rest)
      obtain ⟨csuf', ssuf', hl1, hl2, hrun, htw, hrs⟩ :=
        ih vs ws' hws' (by omega) hih.2 hwtr (fun g hg => hdo g (by simp [hg])) (pre ++ [f]) (cpre ++ [v']) cs (spre ++ [true]) bs g rest
          (by rw [← hassoc]; exact hnd) (by simp [hcp]) (by simp [hsp]) hc hs (by omega) hun.2
      refine ⟨v' :: csuf', true :: ssuf', by simp [hl1], by simp [hl2], ?_, ?_, ?_⟩
      · have hc0 : w.ttype.code ≠ 0 := by have := TType.code_pos w.ttype; omega
        have hidlt : idOf f < 256 ^ 2 := by
          have := pat_lt 16 f.id; have := pow256.2.1; simp only [idOf]; omega
        have hff := findField_append pre f fs hnd
        have hset1 : (cpre ++ c :: cs).set pre.length v' = cpre ++ v' :: cs := by
          rw [← hcp]; exact set_append_len cpre c cs v'
        have hset2 : (spre ++ b :: bs).set pre.length true = spre ++ true :: bs := by
          rw [← hsp]; exact set_append_len spre b bs true
        simp only [encFields, List.append_assoc, List.cons_append, List.nil_append, readFieldsWith, hc0, if_false]
        have hid' : pat 16 f.id = idOf f := rfl
        rw [hid', readN_be 2 (idOf f) _ hidlt]
        simp only [hff, htt, if_true, hrd, hset1, hset2]
        simp only [List.append_assoc, List.singleton_append] at hrun
        rw [hassoc]
        have hgl : g + 1 - (ws'.length + 1) = g - ws'.length := by omega
        simp only [List.length_cons, hgl]
        simpa using hrun
      · simp only [toWFields]
        have hnc : (f.req = .optional && !isSet f v') = false := by
          by_cases ho : f.req = .optional
          · have hsv : isSet f v = true := by
              cases hh : isSet f v
              · simp [ho, hh] at hcond
              · rfl
            have := isSet_readback P f v v' w (hdo f (by simp)) ho hsv hw htw' hnn hidv
            simp [this]
          · simp [ho]
        simp only [hnc, htw', htw]
        rfl
      · simp only [ReqSeen]
        exact ⟨fun _ => trivial, hrs⟩


def initVals (sd : StructDef) : List GoVal :=
  sd.fields.map fun f => match f.dflt with
    | some d => d
    | none => zeroOf f.req f.ty

theorem newX_eq (sd : StructDef) : newX sd = .strct (initVals sd) := rfl

/-- what the semantic checker guarantees about a struct-like (distinct field ids; union members
optional) plus the two shapes outside the round-trip statement (an optional field with a default has a
base type, and its default compares equal to itself, i.e. is not NaN) -/
def StructOK (sd : StructDef) : Prop :=
  (sd.fields.map idOf).Nodup ∧ (∀ f ∈ sd.fields, DfltOpt f) ∧ Unset sd.fields (initVals sd) ∧
  (sd.kind = 1 → ∀ f ∈ sd.fields, f.req = .optional)

def SchemaOK (P : Prog) : Prop := ∀ (i : Nat) (sd : StructDef), P.structs[i]? = some sd → StructOK sd

theorem readTy_base (S : List StructDef) (f : Nat) (ty : Ty) (bs : Bytes) (hb : ty.isBase = true) :
    readTy S (f + 1) ty bs = readScalar ty bs := by
  cases ty <;> simp [Ty.isBase] at hb <;> simp [readTy]

theorem requiredOk_of_ReqSeen : ∀ (defs : List FieldDef) (seen : List Bool), ReqSeen defs seen →
    requiredOk defs seen = true
  | [], _, _ => by simp [requiredOk]
  | _ :: _, [], _ => by simp [requiredOk]
  | f :: fs, b :: bs, h => by
    simp only [ReqSeen] at h
    simp only [requiredOk, Bool.and_eq_true, Bool.or_eq_true, bne_iff_ne, ne_eq]
    refine ⟨?_, requiredOk_of_ReqSeen fs bs h.2⟩
    by_cases hr : f.req = .required
    · exact Or.inr (h.1 hr)
    · exact Or.inl hr

theorem countSet_written (P : Prog) : ∀ (defs : List FieldDef) (vs : List GoVal) (ws : List (Nat × WVal)),
    toWFields P defs vs = .ok ws → (∀ f ∈ defs, f.req = .optional) → ws.length = countSet defs vs
  | [], [], ws, h, _ => by simp [toWFields] at h; cases h; simp [countSet]
  | [], _ :: _, ws, h, _ => by simp [toWFields] at h
  | _ :: _, [], ws, h, _ => by simp [toWFields] at h
  | f :: fs, v :: vs, ws, h, ho => by
    have hf : f.req = .optional := ho f (by simp)
    simp only [toWFields, hf, decide_true, Bool.true_and] at h
    simp only [countSet]
    cases hs : isSet f v
    · simp only [hs, Bool.not_false, if_true] at h
      have := countSet_written P fs vs ws h (fun g hg => ho g (by simp [hg]))
      simp [this]
    · simp only [hs, Bool.not_true, Bool.false_eq_true, if_false, Res.bind_eq_ok] at h
      obtain ⟨w, _, ws', h2, h3⟩ := h
      cases h3
      have := countSet_written P fs vs ws' h2 (fun g hg => ho g (by simp [hg]))
      simp [this]; omega

theorem mapInsert_new (k : Ty) (a b : GoVal) : ∀ (m : List (GoVal × GoVal)),
    (∀ p ∈ m, keyEq k p.1 a = false) → mapInsert k a b m = m ++ [(a, b)]
  | [], _ => rfl
  | (a', b') :: m, h => by
    have h1 : keyEq k a' a = false := h (a', b') (by simp)
    simp [mapInsert, h1, mapInsert_new k a b m (fun p hp => h p (by simp [hp]))]

theorem mapOfPairs_foldl (k : Ty) : ∀ (kvs acc : List (GoVal × GoVal)),
    (∀ p ∈ acc, ∀ q ∈ kvs, keyEq k p.1 q.1 = false) → KeysOK k (kvs.map Prod.fst) →
    kvs.foldl (fun m (x : GoVal × GoVal) => mapInsert k x.1 x.2 m) acc = acc ++ kvs
  | [], acc, _, _ => by simp
  | (a, b) :: r, acc, hacc, hk => by
    simp only [List.map_cons, KeysOK] at hk
    simp only [List.foldl_cons]
    rw [mapInsert_new k a b acc (fun p hp => hacc p hp (a, b) (by simp))]
    rw [mapOfPairs_foldl k r (acc ++ [(a, b)])]
    · simp
    · intro p hp q hq
      rcases List.mem_append.mp hp with h | h
      · exact hacc p h q (by simp [hq])
      · simp at h; subst h; exact hk.2.1 q.1 (List.mem_map_of_mem hq)
    · exact hk.2.2

theorem mapOfPairs_id (k : Ty) (kvs : List (GoVal × GoVal)) (h : KeysOK k (kvs.map Prod.fst)) :
    mapOfPairs k kvs = kvs := by
  have := mapOfPairs_foldl k kvs [] (by simp) h
  simpa [mapOfPairs] using this

theorem KeysOK_struct (k : Ty) (hk : k.isStruct = true) : ∀ (keys : List GoVal), (∀ a ∈ keys, a ≠ .nil) → KeysOK k keys
  | [], _ => trivial
  | a :: r, h => by
    simp only [KeysOK]
    exact ⟨h a (by simp), fun p _ => by simp [keyEq, hk], KeysOK_struct k hk r (fun x hx => h x (by simp [hx]))⟩


theorem depth_pos (w : WVal) : 1 ≤ w.depth := by cases w <;> simp [WVal.depth]

theorem scalar_rt (P : Prog) (ty : Ty) (v : GoVal) (w : WVal) (f : Nat) (r : Bytes) (hb : ty.isBase = true)
    (hwt : WT P.structs ty v) (h : toW P ty v = .ok w) :
    ∃ v', readTy P.structs (f + 1) ty (encW w ++ r) = some (v', r) ∧ toW P ty v' = .ok w ∧ v' ≠ .nil ∧
      (ty.isBase = true → v ≠ .nil → v' = v) := by
  rw [toW_base P ty _ hb, Res.ofOption_eq_ok] at h
  obtain ⟨v', h1, h2, _, h4, h5⟩ := readScalar_scalarW P ty _ w r hwt h
  exact ⟨v', by rw [readTy_base _ _ _ _ hb]; exact h1,
    by rw [toW_base P ty v' hb, Res.ofOption_eq_ok]; exact h2, h4, fun _ => h5⟩

theorem len_lt (n : Nat) (h : fitsLen n) : n < 256 ^ 4 ∧ ¬ n ≥ maxSize := by
  simp only [fitsLen, maxSize] at h; have := pow_facts.2.2.1; simp only [maxSize]; omega

mutual
theorem rt (P : Prog) (hP : SchemaOK P) (hv : P.validateSet = false) (v : GoVal) :
    ∀ (ty : Ty) (w : WVal) (f : Nat) (r : Bytes), WT P.structs ty v → toW P ty v = .ok w → w.depth ≤ f →
      ∃ v', readTy P.structs f ty (encW w ++ r) = some (v', r) ∧ toW P ty v' = .ok w ∧ v' ≠ .nil ∧
        (ty.isBase = true → v ≠ .nil → v' = v) := by
  intro ty w f r hwt h hd
  cases f with
  | zero => have := depth_pos w; omega
  | succ f =>
  cases v with
  | nil =>
    cases ty <;> simp only [WT] at hwt
    · -- bin
      exact scalar_rt P .bin .nil w f r rfl (by simp [WT]) h
    · -- list
      rename_i e
      simp only [toW] at h; cases h
      have h0 := readN_be 4 0 r (by decide)
      refine ⟨.list [], ?_, by simp [toW, toWList, bind], by simp, by simp [Ty.isBase]⟩
      simp [readTy, encW, encList, h0, maxSize, readListWith]
    · -- set
      rename_i e
      simp only [toW] at h; cases h
      have h0 := readN_be 4 0 r (by decide)
      refine ⟨.list [], ?_, by simp [toW, toWList, bind, hv, noDup], by simp, by simp [Ty.isBase]⟩
      simp [readTy, encW, encList, h0, maxSize, readListWith]
    · -- map
      rename_i k vt
      simp only [toW] at h; cases h
      have h0 := readN_be 4 0 r (by decide)
      refine ⟨.map [], ?_, by simp [toW, toWPairs, bind], by simp, by simp [Ty.isBase]⟩
      simp [readTy, encW, encPairs, h0, maxSize, readPairsWith, mapOfPairs]
  | bool b =>
    have hb : ty.isBase = true := by cases ty <;> simp_all [WT, Ty.isBase]
    exact scalar_rt P ty _ w f r hb hwt h
  | int x =>
    have hb : ty.isBase = true := by cases ty <;> simp_all [WT, Ty.isBase]
    exact scalar_rt P ty _ w f r hb hwt h
  | dbl x =>
    have hb : ty.isBase = true := by cases ty <;> simp_all [WT, Ty.isBase]
    exact scalar_rt P ty _ w f r hb hwt h
  | bytes x =>
    have hb : ty.isBase = true := by cases ty <;> simp_all [WT, Ty.isBase]
    exact scalar_rt P ty _ w f r hb hwt h
  | list xs =>
    cases ty <;> simp only [WT] at hwt
    · rename_i e
      simp only [toW, Res.bind_eq_ok] at h
      obtain ⟨ws, h1, h2⟩ := h
      cases h2
      simp only [WVal.depth] at hd
      obtain ⟨hlen, _⟩ := toWList_WF P xs e ws hwt.2 h1
      have hl : ws.length = xs.length := (toWList_WF P xs e ws hwt.2 h1).2
      obtain ⟨h4, hn⟩ := len_lt ws.length (by rw [hl]; exact hwt.1)
      obtain ⟨xs', hr, ht⟩ := rtList P hP hv xs e ws f r hwt.2 h1 (by omega)
      refine ⟨.list xs', ?_, by simp [toW, ht, bind], by simp, by simp [Ty.isBase]⟩
      simp only [readTy, encW, List.append_assoc, List.cons_append, List.nil_append,
        readN_be 4 ws.length _ h4, hn, if_false, hr, Option.map_some]
    · rename_i e
      simp only [toW] at h
      split at h
      · cases h
      · simp only [Res.bind_eq_ok] at h
        obtain ⟨ws, h1, h2⟩ := h
        cases h2
        simp only [WVal.depth] at hd
        have hl : ws.length = xs.length := (toWList_WF P xs e ws hwt.2 h1).2
        obtain ⟨h4, hn⟩ := len_lt ws.length (by rw [hl]; exact hwt.1)
        obtain ⟨xs', hr, ht⟩ := rtList P hP hv xs e ws f r hwt.2 h1 (by omega)
        refine ⟨.list xs', ?_, by simp [toW, ht, bind, hv], by simp, by simp [Ty.isBase]⟩
        simp only [readTy, encW, List.append_assoc, List.cons_append, List.nil_append,
          readN_be 4 ws.length _ h4, hn, if_false, hr, Option.map_some]
  | map kvs =>
    cases ty <;> simp only [WT] at hwt
    rename_i k vt
    simp only [toW, Res.bind_eq_ok] at h
    obtain ⟨ws, h1, h2⟩ := h
    cases h2
    simp only [WVal.depth] at hd
    have hl : ws.length = kvs.length := (toWPairs_WF P kvs k vt ws hwt.2.1 h1).2
    obtain ⟨h4, hn⟩ := len_lt ws.length (by rw [hl]; exact hwt.1)
    obtain ⟨kvs', hr, ht, hkeys, hnn⟩ := rtPairs P hP hv kvs k vt ws f r hwt.2.1 h1 (by omega)
      (by
        -- keys of a well-typed map are non-nil
        have : ∀ (l : List GoVal), KeysOK k l → ∀ a ∈ l, a ≠ .nil := by
          intro l; induction l with
          | nil => intro _ a ha; cases ha
          | cons x l ih =>
            intro hk a ha
            simp only [KeysOK] at hk
            rcases List.mem_cons.mp ha with rfl | hm
            · exact hk.1
            · exact ih hk.2.2 a hm
        exact this _ hwt.2.2.1)
    have hko : KeysOK k (kvs'.map Prod.fst) := by
      rcases hwt.2.2.2 with hb | hs
      · rw [hkeys hb]; exact hwt.2.2.1
      · exact KeysOK_struct k hs _ hnn
    refine ⟨.map kvs', ?_, by simp [toW, ht, bind], by simp, by simp [Ty.isBase]⟩
    simp only [readTy, encW, List.append_assoc, List.cons_append, List.nil_append,
      readN_be 4 ws.length _ h4, hn, if_false, hr, Option.map_some, mapOfPairs_id k kvs' hko]
  | strct fs =>
    cases ty <;> simp only [WT] at hwt
    rename_i i
    obtain ⟨sd, hsd, hf⟩ := hwt
    obtain ⟨hnd, hdo, hun, hunion⟩ := hP i sd hsd
    simp only [toW, Prog.struct?, hsd] at h
    split at h
    · cases h
    · rename_i hcs
      simp only [Res.bind_eq_ok] at h
      obtain ⟨ws, h1, h2⟩ := h
      cases h2
      simp only [WVal.depth] at hd
      have hih := rtFields P hP hv fs sd.fields f
      have hlen : ws.length < (encFields ws ++ [0] ++ r).length + 1 := by
        have := encFields_length ws; simp; omega
      obtain ⟨csuf', ssuf', hl1, hl2, hrun, htw, hrs⟩ :=
        loop_rt P (readTy P.structs f) f sd.fields fs ws h1 (by omega) hih hf hdo [] [] (initVals sd) [] (sd.fields.map fun _ => false)
          ((encFields ws ++ [0] ++ r).length + 1) (0 :: r) (by simpa using hnd) rfl rfl (by simp [initVals]) (by simp) hlen hun
      have hro := requiredOk_of_ReqSeen sd.fields ssuf' hrs
      have hgas : ∃ g, (encFields ws ++ [0] ++ r).length + 1 - ws.length = g + 1 := ⟨(encFields ws ++ [0] ++ r).length - ws.length, by omega⟩
      obtain ⟨g, hg⟩ := hgas
      refine ⟨.strct csuf', ?_, ?_, by simp, by simp [Ty.isBase]⟩
      · simp only [readTy, hsd, newX_eq, encW]
        simp only [List.nil_append, List.append_assoc, List.singleton_append] at hrun hg ⊢
        rw [hrun, hg]
        simp [readFieldsWith, hro]
      · simp only [toW, Prog.struct?, hsd]
        have hcnt : (sd.kind = 1 && countSet sd.fields csuf' != 1) = false := by
          by_cases hk : sd.kind = 1
          · have e1 := countSet_written P sd.fields fs ws h1 (hunion hk)
            have e2 := countSet_written P sd.fields csuf' ws htw (hunion hk)
            simp [hk] at hcs ⊢
            omega
          · simp [hk]
        simp [hcnt, htw, bind]

theorem rtList (P : Prog) (hP : SchemaOK P) (hv : P.validateSet = false) (xs : List GoVal) :
    ∀ (e : Ty) (ws : List WVal) (f : Nat) (r : Bytes), WTList P.structs e xs → toWList P e xs = .ok ws →
      depthList ws ≤ f →
      ∃ xs', readListWith (readTy P.structs f e) ws.length (encList ws ++ r) = some (xs', r) ∧
        toWList P e xs' = .ok ws := by
  intro e ws f r hwt h hd
  cases xs with
  | nil => simp only [toWList] at h; cases h; exact ⟨[], by simp [readListWith, encList], rfl⟩
  | cons x rest =>
    simp only [WTList] at hwt
    simp only [toWList, Res.bind_eq_ok] at h
    obtain ⟨w, h1, ws', h2, h3⟩ := h
    cases h3
    simp only [depthList] at hd
    obtain ⟨x', hr1, ht1, _, _⟩ := rt P hP hv x e w f (encList ws' ++ r) hwt.1 h1 (by omega)
    obtain ⟨xs', hr2, ht2⟩ := rtList P hP hv rest e ws' f r hwt.2 h2 (by omega)
    refine ⟨x' :: xs', ?_, by simp [toWList, ht1, ht2, bind]⟩
    simp only [encList, List.append_assoc, List.length_cons, readListWith, hr1, hr2]

theorem rtPairs (P : Prog) (hP : SchemaOK P) (hv : P.validateSet = false) (kvs : List (GoVal × GoVal)) :
    ∀ (k vt : Ty) (ws : List (WVal × WVal)) (f : Nat) (r : Bytes), WTPairs P.structs k vt kvs →
      toWPairs P k vt kvs = .ok ws → depthPairs ws ≤ f → (∀ a ∈ kvs.map Prod.fst, a ≠ .nil) →
      ∃ kvs', readPairsWith (readTy P.structs f k) (readTy P.structs f vt) ws.length (encPairs ws ++ r) = some (kvs', r) ∧
        toWPairs P k vt kvs' = .ok ws ∧ (k.isBase = true → kvs'.map Prod.fst = kvs.map Prod.fst) ∧
        (∀ a ∈ kvs'.map Prod.fst, a ≠ .nil) := by
  intro k vt ws f r hwt h hd hnn
  cases kvs with
  | nil =>
    simp only [toWPairs] at h; cases h
    exact ⟨[], by simp [readPairsWith, encPairs], rfl, fun _ => rfl, by simp⟩
  | cons x rest =>
    obtain ⟨a, b⟩ := x
    simp only [WTPairs] at hwt
    simp only [toWPairs, Res.bind_eq_ok] at h
    obtain ⟨wa, h1, wb, h2, ws', h3, h4⟩ := h
    cases h4
    simp only [depthPairs] at hd
    obtain ⟨a', hra, hta, hna, hida⟩ := rt P hP hv a k wa f (encW wb ++ (encPairs ws' ++ r)) hwt.1 h1 (by omega)
    obtain ⟨b', hrb, htb, _, _⟩ := rt P hP hv b vt wb f (encPairs ws' ++ r) hwt.2.1 h2 (by omega)
    obtain ⟨kvs', hr3, ht3, hk3, hn3⟩ := rtPairs P hP hv rest k vt ws' f r hwt.2.2 h3 (by omega)
      (fun x hx => hnn x (by simp at hx ⊢; exact Or.inr hx))
    refine ⟨(a', b') :: kvs', ?_, by simp [toWPairs, hta, htb, ht3, bind], ?_, ?_⟩
    · simp only [encPairs, List.append_assoc, List.length_cons, readPairsWith, hra, hrb, hr3]
    · intro hb
      have : a' = a := hida hb (hnn a (by simp))
      simp [this, hk3 hb]
    · intro x hx
      simp only [List.map_cons, List.mem_cons] at hx
      rcases hx with rfl | hx
      · exact hna
      · exact hn3 x hx

theorem rtFields (P : Prog) (hP : SchemaOK P) (hv : P.validateSet = false) (fs : List GoVal) :
    ∀ (defs : List FieldDef) (f : Nat), IHs P (readTy P.structs f) f defs fs := by
  intro defs f
  cases fs with
  | nil => cases defs <;> simp [IHs]
  | cons v vs =>
    cases defs with
    | nil => simp [IHs]
    | cons d ds =>
      simp only [IHs]
      refine ⟨?_, rtFields P hP hv vs ds f⟩
      intro w hwt hw hd r
      exact rt P hP hv v d.ty w f r hwt hw hd
end


def noVal (P : Prog) : Prog := { P with validateSet := false }

mutual
theorem toW_noVal (P : Prog) (v : GoVal) : ∀ (ty : Ty) (w : WVal), toW P ty v = .ok w → toW (noVal P) ty v = .ok w := by
  intro ty w h
  cases v with
  | nil => cases ty <;> simpa [toW, noVal, Prog.struct?] using h
  | bool b => cases ty <;> simpa [toW] using h
  | int b => cases ty <;> simpa [toW] using h
  | dbl b => cases ty <;> simpa [toW] using h
  | bytes b => cases ty <;> simpa [toW] using h
  | list xs =>
    cases ty <;> try (simpa [toW] using h)
    · rename_i e
      simp only [toW, Res.bind_eq_ok] at h ⊢
      obtain ⟨ws, h1, h2⟩ := h
      exact ⟨ws, toWList_noVal P xs e ws h1, h2⟩
    · rename_i e
      simp only [toW] at h ⊢
      split at h
      · cases h
      · simp only [Res.bind_eq_ok] at h
        obtain ⟨ws, h1, h2⟩ := h
        simp only [noVal, Bool.false_and, Bool.false_eq_true, if_false, Res.bind_eq_ok]
        exact ⟨ws, toWList_noVal P xs e ws h1, h2⟩
  | map kvs =>
    cases ty <;> try (simpa [toW] using h)
    rename_i k vt
    simp only [toW, Res.bind_eq_ok] at h ⊢
    obtain ⟨ws, h1, h2⟩ := h
    exact ⟨ws, toWPairs_noVal P kvs k vt ws h1, h2⟩
  | strct fs =>
    cases ty <;> try (simpa [toW] using h)
    rename_i i
    simp only [toW] at h ⊢
    have : (noVal P).struct? i = P.struct? i := rfl
    rw [this]
    cases hs : P.struct? i with
    | none => simp [hs] at h
    | some sd =>
      simp only [hs] at h ⊢
      split at h
      · cases h
      · rename_i hc
        simp only [Res.bind_eq_ok] at h
        obtain ⟨ws, h1, h2⟩ := h
        simp only [hc, if_false, Res.bind_eq_ok, Bool.false_eq_true]
        exact ⟨ws, toWFields_noVal P fs sd.fields ws h1, h2⟩
theorem toWList_noVal (P : Prog) (xs : List GoVal) : ∀ (e : Ty) (ws : List WVal), toWList P e xs = .ok ws →
    toWList (noVal P) e xs = .ok ws := by
  intro e ws h
  cases xs with
  | nil => simpa [toWList] using h
  | cons x r =>
    simp only [toWList, Res.bind_eq_ok] at h ⊢
    obtain ⟨w, h1, ws', h2, h3⟩ := h
    exact ⟨w, toW_noVal P x e w h1, ws', toWList_noVal P r e ws' h2, h3⟩
theorem toWPairs_noVal (P : Prog) (kvs : List (GoVal × GoVal)) : ∀ (k v : Ty) (ws : List (WVal × WVal)),
    toWPairs P k v kvs = .ok ws → toWPairs (noVal P) k v kvs = .ok ws := by
  intro k v ws h
  cases kvs with
  | nil => simpa [toWPairs] using h
  | cons x r =>
    obtain ⟨a, b⟩ := x
    simp only [toWPairs, Res.bind_eq_ok] at h ⊢
    obtain ⟨wa, h1, wb, h2, ws', h3, h4⟩ := h
    exact ⟨wa, toW_noVal P a k wa h1, wb, toW_noVal P b v wb h2, ws', toWPairs_noVal P r k v ws' h3, h4⟩
theorem toWFields_noVal (P : Prog) (vs : List GoVal) : ∀ (defs : List FieldDef) (ws : List (Nat × WVal)),
    toWFields P defs vs = .ok ws → toWFields (noVal P) defs vs = .ok ws := by
  intro defs ws h
  cases vs with
  | nil => cases defs <;> simpa [toWFields] using h
  | cons v vs' =>
    cases defs with
    | nil => simpa [toWFields] using h
    | cons f fs =>
      simp only [toWFields] at h ⊢
      split at h
      · rename_i hc; simp only [hc, if_true]; exact toWFields_noVal P vs' fs ws h
      · rename_i hc
        simp only [hc, if_false, Bool.false_eq_true, Res.bind_eq_ok] at h ⊢
        obtain ⟨w, h1, ws', h2, h3⟩ := h
        exact ⟨w, toW_noVal P v f.ty w h1, ws', toWFields_noVal P vs' fs ws' h2, h3⟩
end

mutual
theorem depth_le_len (w : WVal) : w.depth ≤ (encW w).length := by
  cases w with
  | struct fs => have := depthFields_le fs; simp [WVal.depth, encW]; omega
  | map kt vt kvs => have := depthPairs_le kvs; simp [WVal.depth, encW, be_length]; omega
  | set et xs => have := depthList_le xs; simp [WVal.depth, encW, be_length]; omega
  | list et xs => have := depthList_le xs; simp [WVal.depth, encW, be_length]; omega
  | bin bs => simp [WVal.depth, encW, be_length]; omega
  | _ => simp [WVal.depth, encW, be_length]
theorem depthFields_le (fs : List (Nat × WVal)) : depthFields fs ≤ (encFields fs).length := by
  cases fs with
  | nil => simp [depthFields]
  | cons a r => obtain ⟨i, v⟩ := a; have := depth_le_len v; have := depthFields_le r; simp [depthFields, encFields]; omega
theorem depthPairs_le (kvs : List (WVal × WVal)) : depthPairs kvs ≤ (encPairs kvs).length := by
  cases kvs with
  | nil => simp [depthPairs]
  | cons a r => obtain ⟨k, v⟩ := a; have := depth_le_len k; have := depth_le_len v; have := depthPairs_le r; simp [depthPairs, encPairs]; omega
theorem depthList_le (xs : List WVal) : depthList xs ≤ (encList xs).length := by
  cases xs with
  | nil => simp [depthList]
  | cons x r => have := depth_le_len x; have := depthList_le r; simp [depthList, encList]; omega
end


end Gen.Std

namespace Gen.Std
open Wire Gen

theorem skipW_encW (u : WVal) (rest : Bytes) (h : WF u) (hd : u.depth ≤ 64) :
    skipW u.ttype.code (encW u ++ rest) = some rest := by
  simp [skipW, TType.ofCode_code, decW_encW u 64 rest h hd]

/-- one iteration of the Read loop on a field whose id the schema does not know: the field is
consumed and the loop state (object under construction, isset flags) is untouched -/
theorem read_step_unknown (rd : Ty → Bytes → Option (GoVal × Bytes)) (defs : List FieldDef) (g id : Nat)
    (u : WVal) (rest : Bytes) (cur : List GoVal) (seen : List Bool) (hid : id < 256 ^ 2)
    (hnf : findField defs id = none) (hwf : WF u) (hd : u.depth ≤ 64) :
    readFieldsWith rd defs (g + 1) (u.ttype.code :: (be 2 id ++ (encW u ++ rest))) cur seen =
      readFieldsWith rd defs g rest cur seen := by
  have hc0 : u.ttype.code ≠ 0 := by have := TType.code_pos u.ttype; omega
  simp only [readFieldsWith, hc0, if_false, readN_be 2 id _ hid, hnf, skipW_encW u rest hwf hd]

/-- … and on a field whose id is known but whose wire type differs from the schema's -/
theorem read_step_mistyped (rd : Ty → Bytes → Option (GoVal × Bytes)) (defs : List FieldDef) (g id j : Nat)
    (f : FieldDef) (u : WVal) (rest : Bytes) (cur : List GoVal) (seen : List Bool) (hid : id < 256 ^ 2)
    (hf : findField defs id = some (j, f)) (hne : f.ty.ttype.code ≠ u.ttype.code) (hwf : WF u) (hd : u.depth ≤ 64) :
    readFieldsWith rd defs (g + 1) (u.ttype.code :: (be 2 id ++ (encW u ++ rest))) cur seen =
      readFieldsWith rd defs g rest cur seen := by
  have hc0 : u.ttype.code ≠ 0 := by have := TType.code_pos u.ttype; omega
  simp only [readFieldsWith, hc0, if_false, readN_be 2 id _ hid, hf, hne, skipW_encW u rest hwf hd]

theorem skipW_append (c : Nat) (bs r y : Bytes) (h : skipW c bs = some r) : skipW c (bs ++ y) = some (r ++ y) := by
  unfold skipW at h ⊢
  cases ht : TType.ofCode c with
  | none => simp [ht] at h
  | some t =>
    simp only [ht] at h ⊢
    cases hd : decW 64 t bs with
    | none => simp [hd] at h
    | some p =>
      obtain ⟨w, r'⟩ := p
      simp only [hd, Option.map_some, Option.some.injEq] at h
      simp [decW_append 64 t bs w r' y hd, h]

theorem readScalar_append (ty : Ty) : AppOK (readScalar ty) := by
  intro bs x r y h
  cases ty <;> simp only [readScalar] at h ⊢
  case str | bin =>
    cases h1 : readN 4 bs with
    | none => simp [h1] at h
    | some p =>
      obtain ⟨n, r1⟩ := p
      simp only [h1] at h
      simp only [readN_append 4 bs y n r1 h1]
      split at h
      · cases h
      · rename_i hn
        simp only [hn, if_false]
        cases h2 : readBytes n r1 with
        | none => simp [h2] at h
        | some q =>
          obtain ⟨b, r2⟩ := q
          simp only [h2, Option.map_some, Option.some.injEq, Prod.mk.injEq] at h
          simp only [readBytes_app n r1 y b r2 h2, Option.map_some, Option.some.injEq, Prod.mk.injEq]
          exact ⟨h.1, by rw [h.2]⟩
  case list | set | map | struct => cases h
  all_goals
    simp only [Option.map_eq_some_iff, Prod.mk.injEq, Prod.exists] at h ⊢
    obtain ⟨a, b, h1, h2, h3⟩ := h
    exact ⟨a, b ++ y, readN_append _ bs y a b h1, h2, by rw [h3]⟩

theorem readListWith_append (d : Bytes → Option (GoVal × Bytes)) (hd : AppOK d) :
    ∀ n, AppOK (readListWith d n) := by
  intro n
  induction n with
  | zero => intro bs x r y h; simp [readListWith] at h ⊢; exact ⟨h.1, by rw [h.2]⟩
  | succ n ih =>
    intro bs x r y h
    simp only [readListWith] at h ⊢
    cases h1 : d bs with
    | none => simp [h1] at h
    | some p =>
      obtain ⟨a, r1⟩ := p
      simp only [h1] at h
      rw [hd bs a r1 y h1]
      cases h2 : readListWith d n r1 with
      | none => simp [h2] at h
      | some q =>
        obtain ⟨xs, r2⟩ := q
        simp only [h2, Option.some.injEq, Prod.mk.injEq] at h
        simp only [ih r1 xs r2 y h2, Option.some.injEq, Prod.mk.injEq]
        exact ⟨h.1, by rw [h.2]⟩

theorem readPairsWith_append (dk dv : Bytes → Option (GoVal × Bytes)) (hk : AppOK dk) (hv : AppOK dv) :
    ∀ n, AppOK (readPairsWith dk dv n) := by
  intro n
  induction n with
  | zero => intro bs x r y h; simp [readPairsWith] at h ⊢; exact ⟨h.1, by rw [h.2]⟩
  | succ n ih =>
    intro bs x r y h
    simp only [readPairsWith] at h ⊢
    cases h1 : dk bs with
    | none => simp [h1] at h
    | some p =>
      obtain ⟨a, r1⟩ := p
      simp only [h1] at h
      rw [hk bs a r1 y h1]
      cases h1' : dv r1 with
      | none => simp [h1'] at h
      | some p' =>
        obtain ⟨b, r1'⟩ := p'
        simp only [h1'] at h
        simp only [hv r1 b r1' y h1']
        cases h2 : readPairsWith dk dv n r1' with
        | none => simp [h2] at h
        | some q =>
          obtain ⟨xs, r2⟩ := q
          simp only [h2, Option.some.injEq, Prod.mk.injEq] at h
          simp only [ih r1' xs r2 y h2, Option.some.injEq, Prod.mk.injEq]
          exact ⟨h.1, by rw [h.2]⟩

/-- the Read loop is insensitive to appended input and to extra gas -/
theorem readFieldsWith_append (rd : Ty → Bytes → Option (GoVal × Bytes)) (hrd : ∀ t, AppOK (rd t))
    (defs : List FieldDef) :
    ∀ g bs cur seen fs r y g', readFieldsWith rd defs g bs cur seen = some (fs, r) → g ≤ g' →
      readFieldsWith rd defs g' (bs ++ y) cur seen = some (fs, r ++ y) := by
  intro g
  induction g with
  | zero => intro bs cur seen fs r y g' h; simp [readFieldsWith] at h
  | succ g ih =>
    intro bs cur seen fs r y g' h hg
    cases g' with
    | zero => omega
    | succ g' =>
    cases bs with
    | nil => simp [readFieldsWith] at h
    | cons c bs =>
      simp only [readFieldsWith, List.cons_append] at h ⊢
      split at h
      · rename_i hc
        simp only [hc, if_true]
        split at h
        · rename_i hro
          simp only [Option.some.injEq, Prod.mk.injEq] at h
          simp only [hro, if_true, Option.some.injEq, Prod.mk.injEq]
          exact ⟨h.1, by rw [h.2]⟩
        · cases h
      · rename_i hc
        simp only [hc, if_false]
        cases h1 : readN 2 bs with
        | none => simp [h1] at h
        | some p =>
          obtain ⟨id, r1⟩ := p
          simp only [h1] at h
          simp only [readN_append 2 bs y id r1 h1]
          cases hf : findField defs id with
          | none =>
            simp only [hf] at h ⊢
            cases hs : skipW c r1 with
            | none => simp [hs] at h
            | some r2 =>
              simp only [hs] at h
              simp only [skipW_append c r1 r2 y hs]
              exact ih r2 cur seen fs r y g' h (by omega)
          | some jf =>
            obtain ⟨j, f⟩ := jf
            simp only [hf] at h ⊢
            split at h
            · rename_i hty
              simp only [hty, if_true]
              cases h2 : rd f.ty r1 with
              | none => simp [h2] at h
              | some q =>
                obtain ⟨v, r2⟩ := q
                simp only [h2] at h
                simp only [hrd f.ty r1 v r2 y h2]
                exact ih r2 _ _ fs r y g' h (by omega)
            · rename_i hty
              simp only [hty, if_false]
              cases hs : skipW c r1 with
              | none => simp [hs] at h
              | some r2 =>
                simp only [hs] at h
                simp only [skipW_append c r1 r2 y hs]
                exact ih r2 cur seen fs r y g' h (by omega)

theorem readTy_append (S : List StructDef) : ∀ (f : Nat) (ty : Ty), AppOK (readTy S f ty) := by
  intro f
  induction f with
  | zero => intro ty bs x r y h; simp [readTy] at h
  | succ f ih =>
    intro ty bs x r y h
    cases ty with
    | list e | set e =>
      simp only [readTy] at h ⊢
      cases bs with
      | nil => simp at h
      | cons c bs =>
      simp only [List.cons_append] at h ⊢
      cases h1 : readN 4 bs with
      | none => simp [h1] at h
      | some p =>
        obtain ⟨n, r1⟩ := p
        simp only [h1] at h
        simp only [readN_append 4 bs y n r1 h1]
        split at h
        · cases h
        · rename_i hn
          simp only [hn, if_false]
          cases h2 : readListWith (readTy S f e) n r1 with
          | none => simp [h2] at h
          | some q =>
            obtain ⟨xs, r2⟩ := q
            simp only [h2, Option.map_some, Option.some.injEq, Prod.mk.injEq] at h
            simp only [readListWith_append _ (ih e) n r1 xs r2 y h2, Option.map_some, Option.some.injEq, Prod.mk.injEq]
            exact ⟨h.1, by rw [h.2]⟩
    | map k v =>
      simp only [readTy] at h ⊢
      cases bs with
      | nil => simp at h
      | cons c bs =>
      cases bs with
      | nil => simp at h
      | cons c2 bs =>
      simp only [List.cons_append] at h ⊢
      cases h1 : readN 4 bs with
      | none => simp [h1] at h
      | some p =>
        obtain ⟨n, r1⟩ := p
        simp only [h1] at h
        simp only [readN_append 4 bs y n r1 h1]
        split at h
        · cases h
        · rename_i hn
          simp only [hn, if_false]
          cases h2 : readPairsWith (readTy S f k) (readTy S f v) n r1 with
          | none => simp [h2] at h
          | some q =>
            obtain ⟨xs, r2⟩ := q
            simp only [h2, Option.map_some, Option.some.injEq, Prod.mk.injEq] at h
            simp only [readPairsWith_append _ _ (ih k) (ih v) n r1 xs r2 y h2, Option.map_some, Option.some.injEq, Prod.mk.injEq]
            exact ⟨h.1, by rw [h.2]⟩
    | struct i =>
      simp only [readTy] at h ⊢
      cases hs : S[i]? with
      | none => simp [hs] at h
      | some sd =>
        simp only [hs, newX_eq] at h ⊢
        cases h1 : readFieldsWith (readTy S f) sd.fields (bs.length + 1) bs (initVals sd) (sd.fields.map fun _ => false) with
        | none => simp [h1] at h
        | some q =>
          obtain ⟨fs, r1⟩ := q
          simp only [h1, Option.map_some, Option.some.injEq, Prod.mk.injEq] at h
          have := readFieldsWith_append (readTy S f) ih sd.fields (bs.length + 1) bs _ _ fs r1 y ((bs ++ y).length + 1) h1 (by simp)
          simp only [this, Option.map_some, Option.some.injEq, Prod.mk.injEq]
          exact ⟨h.1, by rw [h.2]⟩
    | bool | i8 | i16 | i32 | i64 | dbl | str | bin | enum =>
      simp only [readTy] at h ⊢
      exact readScalar_append _ bs x r y h


/-- a field stream `ms` that is the written fields `ws` (in order) interleaved with fields whose ids the
schema does not know (each well-formed and within the protocol's Skip depth) -/
inductive Mixed (defs : List FieldDef) : List (Nat × WVal) → List (Nat × WVal) → Prop
  | nil : Mixed defs [] []
  | known (x : Nat × WVal) (ws ms : List (Nat × WVal)) : Mixed defs ws ms → Mixed defs (x :: ws) (x :: ms)
  | unknown (id : Nat) (u : WVal) (ws ms : List (Nat × WVal)) : Mixed defs ws ms → id < 256 ^ 2 →
      findField defs id = none → WF u → u.depth ≤ 64 → Mixed defs ws ((id, u) :: ms)

theorem Mixed.refl (defs : List FieldDef) : ∀ ws, Mixed defs ws ws
  | [] => .nil
  | x :: ws => .known x ws ws (Mixed.refl defs ws)

/-- uniform per-field round-trip fact: one read-back value for every continuation -/
def RTu (P : Prog) (rd : Ty → Bytes → Option (GoVal × Bytes)) (dmax : Nat) (ty : Ty) (v : GoVal) : Prop :=
  ∀ w, WT P.structs ty v → toW P ty v = .ok w → w.depth ≤ dmax → ∃ v', (∀ r, rd ty (encW w ++ r) = some (v', r)) ∧
    toW P ty v' = .ok w ∧ v' ≠ .nil ∧ (ty.isBase → v ≠ .nil → v' = v)

def IHu (P : Prog) (rd : Ty → Bytes → Option (GoVal × Bytes)) (dmax : Nat) : List FieldDef → List GoVal → Prop
  | f :: fs, v :: vs => RTu P rd dmax f.ty v ∧ IHu P rd dmax fs vs
  | _, _ => True

theorem RTu_of_RTv (P : Prog) (rd : Ty → Bytes → Option (GoVal × Bytes)) (hrd : ∀ t, AppOK (rd t)) (dmax : Nat)
    (ty : Ty) (v : GoVal) (h : RTv P rd dmax ty v) : RTu P rd dmax ty v := by
  intro w hwt hw hd
  obtain ⟨v', h1, h2, h3, h4⟩ := h w hwt hw hd []
  refine ⟨v', fun r => ?_, h2, h3, h4⟩
  have := hrd ty (encW w ++ []) v' [] r h1
  simpa using this

theorem IHu_of_IHs (P : Prog) (rd : Ty → Bytes → Option (GoVal × Bytes)) (hrd : ∀ t, AppOK (rd t)) (dmax : Nat) :
    ∀ (fs : List FieldDef) (vs : List GoVal), IHs P rd dmax fs vs → IHu P rd dmax fs vs
  | [], _, _ => by simp [IHu]
  | _ :: _, [], _ => by simp [IHu]
  | f :: fs, v :: vs, h => by
    simp only [IHs] at h
    simp only [IHu]
    exact ⟨RTu_of_RTv P rd hrd dmax f.ty v h.1, IHu_of_IHs P rd hrd dmax fs vs h.2⟩

/-- the shape of a mixed stream: unknown fields, then either the end or the next written field -/
theorem Mixed.split (defs : List FieldDef) : ∀ ws ms, Mixed defs ws ms →
    ∃ us ms', ms = us ++ ms' ∧ Mixed defs [] us ∧
      ((ws = [] ∧ ms' = []) ∨ ∃ x ws' ms'', ws = x :: ws' ∧ ms' = x :: ms'' ∧ Mixed defs ws' ms'') := by
  intro ws ms h
  induction h with
  | nil => exact ⟨[], [], rfl, .nil, Or.inl ⟨rfl, rfl⟩⟩
  | known x ws ms h _ => exact ⟨[], x :: ms, rfl, .nil, Or.inr ⟨x, ws, ms, rfl, rfl, h⟩⟩
  | unknown id u ws ms _ h1 h2 h3 h4 ih =>
    obtain ⟨us, ms', e, hu, hr⟩ := ih
    exact ⟨(id, u) :: us, ms', by simp [e], .unknown id u [] us hu h1 h2 h3 h4, hr⟩

/-- a run of unknown fields is consumed without touching the loop state -/
theorem run_unknowns (rd : Ty → Bytes → Option (GoVal × Bytes)) (defs : List FieldDef) :
    ∀ (us : List (Nat × WVal)), Mixed defs [] us → ∀ (g : Nat) (rest : Bytes) (cur : List GoVal) (seen : List Bool),
      readFieldsWith rd defs (g + us.length) (encFields us ++ rest) cur seen = readFieldsWith rd defs g rest cur seen := by
  intro us h
  generalize hws : ([] : List (Nat × WVal)) = ws at h
  induction h with
  | nil => intro g rest cur seen; simp [encFields]
  | known x ws ms _ _ => cases hws
  | unknown id u ws ms _ h1 h2 h3 h4 ih =>
    intro g rest cur seen
    have := ih hws g rest cur seen
    simp only [encFields, List.length_cons, List.append_assoc, List.cons_append, List.nil_append]
    rw [← Nat.add_assoc, read_step_unknown rd defs (g + ms.length) id u _ cur seen h1 h2 h3 h4]
    exact this


theorem encFields_append : ∀ (a b : List (Nat × WVal)), encFields (a ++ b) = encFields a ++ encFields b
  | [], b => by simp [encFields]
  | (i, v) :: a, b => by simp [encFields, encFields_append a b]

theorem loop_rt_mixed (P : Prog) (rd : Ty → Bytes → Option (GoVal × Bytes)) (dmax : Nat) :
    ∀ (suf : List FieldDef) (svs : List GoVal) (ws : List (Nat × WVal)),
      toWFields P suf svs = .ok ws → depthFields ws ≤ dmax → IHu P rd dmax suf svs →
      WTFields P.structs suf svs → (∀ f ∈ suf, DfltOpt f) →
      ∀ (pre : List FieldDef) (cpre csuf : List GoVal) (spre ssuf : List Bool),
        ((pre ++ suf).map idOf).Nodup → cpre.length = pre.length → spre.length = pre.length →
        csuf.length = suf.length → ssuf.length = suf.length → Unset suf csuf →
        ∃ csuf' ssuf', csuf'.length = suf.length ∧ ssuf'.length = suf.length ∧
          toWFields P suf csuf' = .ok ws ∧ ReqSeen suf ssuf' ∧
          ∀ (ms : List (Nat × WVal)) (gas : Nat) (rest : Bytes), Mixed (pre ++ suf) ws ms → ms.length < gas →
            readFieldsWith rd (pre ++ suf) gas (encFields ms ++ rest) (cpre ++ csuf) (spre ++ ssuf)
              = readFieldsWith rd (pre ++ suf) (gas - ms.length) rest (cpre ++ csuf') (spre ++ ssuf') := by
  intro suf
  induction suf with
  | nil =>
    intro svs ws h _ _ _ _ pre cpre csuf spre ssuf _ _ _ hc hs _
    cases svs with
    | cons v vs => simp [toWFields] at h
    | nil =>
      simp only [toWFields] at h; cases h
      have : csuf = [] := List.eq_nil_of_length_eq_zero hc
      have : ssuf = [] := List.eq_nil_of_length_eq_zero hs
      subst_vars
      refine ⟨[], [], rfl, rfl, by simp [toWFields], trivial, ?_⟩
      intro ms gas rest hm hg
      have := run_unknowns rd (pre ++ []) ms hm (gas - ms.length) rest (cpre ++ []) (spre ++ [])
      have e : gas - ms.length + ms.length = gas := by omega
      rw [e] at this
      exact this
  | cons f fs ih =>
    intro svs ws h hdep hih hwt hdo pre cpre csuf spre ssuf hnd hcp hsp hc hs hun
    cases svs with
    | nil => simp [toWFields] at h
    | cons v vs =>
    cases csuf with
    | nil => simp at hc
    | cons c cs =>
    cases ssuf with
    | nil => simp at hs
    | cons b bs =>
    simp only [List.length_cons, Nat.add_right_cancel_iff] at hc hs
    simp only [IHu] at hih
    simp only [WTFields] at hwt
    simp only [Unset] at hun
    obtain ⟨hopt, hreq, hid, hwtr⟩ := hwt
    have hassoc : pre ++ f :: fs = (pre ++ [f]) ++ fs := by simp
    simp only [toWFields] at h
    split at h
    · -- skipped
      rename_i hcond
      simp only [Bool.and_eq_true, decide_eq_true_eq, Bool.not_eq_true'] at hcond
      obtain ⟨csuf', ssuf', hl1, hl2, htw, hrs, hrun⟩ :=
        ih vs ws h hdep hih.2 hwtr (fun g hg => hdo g (by simp [hg])) (pre ++ [f]) (cpre ++ [c]) cs (spre ++ [b]) bs
          (by rw [← hassoc]; exact hnd) (by simp [hcp]) (by simp [hsp]) hc hs hun.2
      refine ⟨c :: csuf', b :: ssuf', by simp [hl1], by simp [hl2], ?_, ?_, ?_⟩
      · simp only [toWFields]
        have : isSet f c = false := hun.1 hcond.1
        simp [hcond.1, this, htw]
      · simp only [ReqSeen]
        exact ⟨fun e => (by rw [hcond.1] at e; cases e), hrs⟩
      · intro ms gas rest hm hg
        have := hrun ms gas rest (by rw [← hassoc]; exact hm) hg
        simp only [List.append_assoc, List.singleton_append] at this
        rw [hassoc]; simpa using this
    · -- written
      rename_i hcond
      simp only [Res.bind_eq_ok] at h
      obtain ⟨w, hw, ws', hws', hcons⟩ := h
      cases hcons
      simp only [depthFields] at hdep
      have hwtv : WT P.structs f.ty v := by
        by_cases ho : f.req = .optional
        · rcases hopt ho with hn | hw'
          · simp [ho, hn.2] at hcond
          · exact hw'
        · exact hreq ho
      obtain ⟨_, htt⟩ := toW_WF P v f.ty w hwtv hw
      obtain ⟨v', hrd, htw', hnn, hidv⟩ := hih.1 w hwtv hw (by omega)
      obtain ⟨csuf', ssuf', hl1, hl2, htw, hrs, hrun⟩ :=
        ih vs ws' hws' (by omega) hih.2 hwtr (fun g hg => hdo g (by simp [hg])) (pre ++ [f]) (cpre ++ [v']) cs (spre ++ [true]) bs
          (by rw [← hassoc]; exact hnd) (by simp [hcp]) (by simp [hsp]) hc hs hun.2
      refine ⟨v' :: csuf', true :: ssuf', by simp [hl1], by simp [hl2], ?_, ?_, ?_⟩
      · simp only [toWFields]
        have hnc : (f.req = .optional && !isSet f v') = false := by
          by_cases ho : f.req = .optional
          · have hsv : isSet f v = true := by
              cases hh : isSet f v
              · simp [ho, hh] at hcond
              · rfl
            have := isSet_readback P f v v' w (hdo f (by simp)) ho hsv hw htw' hnn hidv
            simp [this]
          · simp [ho]
        simp only [hnc, htw', htw]
        rfl
      · simp only [ReqSeen]
        exact ⟨fun _ => trivial, hrs⟩
      · intro ms gas rest hm hg
        obtain ⟨us, ms', e, hus, halt⟩ := Mixed.split (pre ++ f :: fs) _ ms hm
        rcases halt with ⟨he, _⟩ | ⟨x, ws2, ms'', hx, hms', hm''⟩
        · cases he
        · cases hx
          subst hms'
          subst e
          simp only [List.length_append, List.length_cons] at hg ⊢
          have hc0 : w.ttype.code ≠ 0 := by have := TType.code_pos w.ttype; omega
          have hidlt : idOf f < 256 ^ 2 := by
            have := pat_lt 16 f.id; have := pow256.2.1; simp only [idOf]; omega
          have hff := findField_append pre f fs hnd
          have hset1 : (cpre ++ c :: cs).set pre.length v' = cpre ++ v' :: cs := by
            rw [← hcp]; exact set_append_len cpre c cs v'
          have hset2 : (spre ++ b :: bs).set pre.length true = spre ++ true :: bs := by
            rw [← hsp]; exact set_append_len spre b bs true
          -- skip the unknown prefix
          have hsk := run_unknowns rd (pre ++ f :: fs) us hus (gas - us.length) (encFields ((pat 16 f.id, w) :: ms'') ++ rest)
            (cpre ++ c :: cs) (spre ++ b :: bs)
          have eg : gas - us.length + us.length = gas := by omega
          rw [eg] at hsk
          rw [encFields_append, List.append_assoc, hsk]
          -- one step on the written field
          obtain ⟨g, hgg⟩ : ∃ g, gas - us.length = g + 1 := ⟨gas - us.length - 1, by omega⟩
          rw [hgg]
          simp only [encFields, List.append_assoc, List.cons_append, List.nil_append, readFieldsWith, hc0, if_false]
          have hid' : pat 16 f.id = idOf f := rfl
          rw [hid', readN_be 2 (idOf f) _ hidlt]
          simp only [hff, htt, if_true, hrd, hset1, hset2]
          have := hrun ms'' g rest (by rw [← hassoc]; exact hm'') (by omega)
          simp only [List.append_assoc, List.singleton_append] at this
          rw [hassoc]
          have hgl : gas - (us.length + (ms''.length + 1)) = g - ms''.length := by omega
          rw [hgl]
          simpa using this

/-- **Read with unknown fields anywhere**: one object `fs'` is what the generated Read builds from the
written fields `ws` of a well-typed object — whatever unknown-id fields are interleaved at whatever
positions; and that object re-encodes to exactly `ws`. -/
theorem struct_read_mixed (P : Prog) (hP : SchemaOK P) (hv : P.validateSet = false) (i : Nat) (sd : StructDef)
    (fs : List GoVal) (ws : List (Nat × WVal)) (f : Nat) (hsd : P.structs[i]? = some sd)
    (hwt : WTFields P.structs sd.fields fs) (hw : toWFields P sd.fields fs = .ok ws) (hd : depthFields ws ≤ f) :
    ∃ fs', toWFields P sd.fields fs' = .ok ws ∧
      ∀ (ms : List (Nat × WVal)) (r : Bytes), Mixed sd.fields ws ms →
        readTy P.structs (f + 1) (.struct i) (encFields ms ++ 0 :: r) = some (.strct fs', r) := by
  obtain ⟨hnd, hdo, hun, _⟩ := hP i sd hsd
  have hih := IHu_of_IHs P (readTy P.structs f) (readTy_append P.structs f) f sd.fields fs (rtFields P hP hv fs sd.fields f)
  obtain ⟨csuf', ssuf', hl1, hl2, htw, hrs, hrun⟩ :=
    loop_rt_mixed P (readTy P.structs f) f sd.fields fs ws hw hd hih hwt hdo [] [] (initVals sd) [] (sd.fields.map fun _ => false)
      (by simpa using hnd) rfl rfl (by simp [initVals]) (by simp) hun
  refine ⟨csuf', htw, ?_⟩
  intro ms r hm
  have hro := requiredOk_of_ReqSeen sd.fields ssuf' hrs
  have hlen : ms.length < (encFields ms ++ 0 :: r).length + 1 := by
    have := encFields_length ms; simp; omega
  have := hrun ms ((encFields ms ++ 0 :: r).length + 1) (0 :: r) (by simpa using hm) hlen
  obtain ⟨g, hg⟩ : ∃ g, (encFields ms ++ 0 :: r).length + 1 - ms.length = g + 1 :=
    ⟨(encFields ms ++ 0 :: r).length - ms.length, by omega⟩
  simp only [readTy, hsd, newX_eq]
  simp only [List.nil_append] at this
  rw [this, hg]
  simp [readFieldsWith, hro]


end Gen.Std
