import ThriftVerif.Gen.Std
/-
  Gen/Defaults: constants and default values (property C06).

  The code under study is generator/golang/resolver.go (getIDValue, resolveConst, onBool … onStructLike):
  a recursive function from (scope, IDL type, IDL initializer) to Go SOURCE TEXT.  The model keeps the
  text as a small expression tree `GoExpr` (printed back to text by `Gen.Defaults.Print`, compared with
  the real initialisers by the harness), follows resolver.go case by case -- tolerances and nil
  dereferences included -- and gives the tree a value semantics `evalGo` (what the compiled Go
  expression holds, as a `Gen.GoVal`).  The IDL side `evalIDL` is written from the property's rule list,
  independently of resolver.go.

  Inputs are the AST after the semantic pass (parser.Type with its resolved Category, ConstValue with
  its Extra), exactly what resolveConst receives.
-/
namespace Gen.Defaults
open Gen

abbrev Name := Bytes

/-- parser.Category restricted to what a type can have after resolution (union/exception = strct) -/
inductive Cat
  | bool | i8 | i16 | i32 | i64 | dbl | str | bin | enum | list | set | map | strct
  deriving DecidableEq, Repr, Inhabited

/-- parser.Category.IsBaseType: Bool ≤ c ≤ Binary -/
def Cat.isBase : Cat → Bool
  | .bool | .i8 | .i16 | .i32 | .i64 | .dbl | .str | .bin => true
  | _ => false

def Cat.intBits : Cat → Option Nat
  | .i8 => some 8 | .i16 => some 16 | .i32 => some 32 | .i64 => some 64
  | _ => none

/-- parser.Type as resolveConst sees it -/
inductive ATy
  | base (c : Cat)                                     -- written with a base type name
  | named (c : Cat) (ref : Option Nat) (name : Name)   -- a user name (typedef, enum, struct-like); `c` is the
                                                       -- Category the semantic pass computed; `ref` = Reference.Index
  | list (e : ATy) | set (e : ATy) | map (k v : ATy)   -- written inline (KeyType / ValueType present)
  deriving Repr, Inhabited, DecidableEq

def ATy.cat : ATy → Cat
  | .base c => c
  | .named c _ _ => c
  | .list _ => .list
  | .set _ => .set
  | .map _ _ => .map

/-- `t.ValueType` (nil for a typedef'd container) -/
def ATy.elem? : ATy → Option ATy
  | .list e | .set e => some e
  | .map _ v => some v
  | _ => none

/-- `t.KeyType` -/
def ATy.key? : ATy → Option ATy
  | .map k _ => some k
  | _ => none

/-- Resolver.bin2str -/
def bin2str : ATy → ATy
  | .base .bin => .base .str
  | .named .bin r n => .named .str r n
  | t => t

/-- parser.ConstValueExtra (Index = -1 is `none`) -/
structure Extra where
  isEnum : Bool
  index : Option Nat
  name : Name
  sel : Name
  deriving Repr, Inhabited, DecidableEq

/-- parser.ConstValue -/
inductive CV
  | int (n : Int)
  | dbl (bits : Nat) (txt : Bytes)      -- float64 bit pattern, and the text `fmt.Sprint` gives for it
  | lit (s : Bytes)
  | ident (s : Bytes) (x : Option Extra)
  | list (xs : List CV)
  | map (kvs : List (CV × CV))
  deriving Repr, Inhabited

structure EnumDef where
  name : Name
  values : List (Name × Int)
  deriving Repr, Inhabited

structure AField where
  name : Name
  req : Req
  ty : ATy
  dflt : Option CV
  deriving Repr, Inhabited

structure AStruct where
  name : Name
  fields : List AField
  deriving Repr, Inhabited

structure AConst where
  name : Name
  ty : ATy
  val : CV
  deriving Repr, Inhabited

structure ATypedef where
  name : Name
  ty : ATy
  deriving Repr, Inhabited

/-- one IDL file = one Scope -/
structure FileEnv where
  ns : Nat                          -- identity of the go namespace / import path
  includes : List (Nat × Bool)      -- ast.Includes: (file, Used); Scope.includes[i] is nil unless Used
  enums : List EnumDef := []
  typedefs : List ATypedef := []
  structs : List AStruct := []
  consts : List AConst := []
  others : List Name := []          -- further global names (services)
  deriving Repr, Inhabited

structure Env where
  files : List FileEnv
  vtic : Bool := false              -- option value_type_in_container
  deriving Repr, Inhabited

def Env.file? (E : Env) (g : Nat) : Option FileEnv := E.files[g]?

/-- `g.includes[i].Scope`: a Go panic (index out of range / nil dereference) is `none` -/
def Env.scopeInclude (E : Env) (g i : Nat) : Option Nat :=
  match E.file? g with
  | none => none
  | some f => match f.includes[i]? with
    | some (k, true) => some k
    | _ => none

/-- `ast.Includes[i].Reference` -/
def Env.astInclude (E : Env) (g i : Nat) : Option Nat :=
  match E.file? g with
  | none => none
  | some f => (f.includes[i]?).map (·.1)

def FileEnv.hasGlobal (f : FileEnv) (n : Name) : Bool :=
  f.consts.any (·.name == n) || f.enums.any (·.name == n) || f.typedefs.any (·.name == n) ||
  f.structs.any (·.name == n) || f.others.any (· == n)

/-- `g.globals.Get(name) != ""` -/
def Env.hasGlobal (E : Env) (g : Nat) (n : Name) : Bool :=
  match E.file? g with
  | some f => f.hasGlobal n
  | none => false

def Env.findConst (E : Env) (g : Nat) (n : Name) : Option AConst :=
  match E.file? g with
  | some f => f.consts.find? (·.name == n)
  | none => none

def Env.findEnum (E : Env) (g : Nat) (n : Name) : Option EnumDef :=
  match E.file? g with
  | some f => f.enums.find? (·.name == n)
  | none => none

def Env.findTypedef (E : Env) (g : Nat) (n : Name) : Option ATypedef :=
  match E.file? g with
  | some f => f.typedefs.find? (·.name == n)
  | none => none

def Env.findStruct (E : Env) (g : Nat) (n : Name) : Option AStruct :=
  match E.file? g with
  | some f => f.structs.find? (·.name == n)
  | none => none

def EnumDef.value? (e : EnumDef) (n : Name) : Option Int :=
  (e.values.find? (·.1 == n)).map (·.2)

/-- `st.GetField(name)`: position and field -/
def findField (fs : List AField) (n : Name) : Option (Nat × AField) :=
  go fs 0
where go : List AField → Nat → Option (Nat × AField)
  | [], _ => none
  | f :: r, i => if f.name == n then some (i, f) else go r (i + 1)

/-- fuel for typedef chains: one more than the number of typedefs of the program -/
def Env.derefFuel (E : Env) : Nat := (E.files.map (·.typedefs.length)).sum + 1

/-- semantic.Deref: follow typedefs (also across includes) to the defining file and the underlying type -/
def deref (E : Env) : Nat → Nat → ATy → Option (Nat × ATy)
  | 0, _, _ => none
  | fuel + 1, g, .named c ref name =>
      let g' := match ref with
        | none => some g
        | some i => E.astInclude g i
      match g' with
      | none => none
      | some g' =>
        match E.findTypedef g' name with
        | some td => deref E fuel g' td.ty
        | none => some (g', .named c none name)
  | _, g, t => some (g, t)

/-! ### Go expressions -/

/-- a Go type name as `getTypeName` builds it (only its printed form matters) -/
inductive GoTy
  | base (c : Cat)
  | named (file : Nat) (name : Name) (qual : Bool)
  | slice (ptr : Bool) (e : GoTy)
  | map (kptr : Bool) (k : GoTy) (vptr : Bool) (v : GoTy)
  | bad                                         -- getTypeName failed and the error was dropped
  deriving Repr, Inhabited, DecidableEq

/-- what a Go identifier emitted by getIDValue refers to -/
inductive GRef
  | global (file : Nat) (name : Name)           -- `g.globals.Get(name)` of that file
  | enumVal (file : Nat) (enum val : Name)      -- the Go constant of an enum member
  deriving Repr, Inhabited, DecidableEq

inductive GoExpr
  | boolLit (b : Bool)                          -- true / false
  | intLit (n : Int)                            -- fmt.Sprint(int64)
  | floatOfInt (n : Int)                        -- fmt.Sprint(int64) + ".0"
  | floatLit (bits : Nat) (txt : Bytes)         -- fmt.Sprint(float64)
  | strLit (raw : Bytes)                        -- the emitted text, quotes included
  | ident (r : GRef)
  | conv (ty : GoTy) (bits : Nat) (e : GoExpr)  -- T(e), T an integer type of `bits` bits
  | bytesConv (e : GoExpr)                      -- []byte(e)
  | sliceLit (ty : GoTy) (es : List GoExpr)     -- T{ e, … }  (T{} when empty)
  | mapLit (ty : GoTy) (kvs : List (GoExpr × GoExpr))
  | structLit (ty : GoTy) (file : Nat) (sname : Name) (ents : List (Nat × GoExpr))   -- &T{ F: e, … }
  | addr (e : GoExpr)                           -- &e
  | ptrTrick (ty : GoTy) (e : GoExpr)           -- (&struct{x T}{e}).x
  | unamp (e : GoExpr)                          -- the text of e without its leading `&` (elemValue)
  | star (e : GoExpr)                           -- *e (elemValue: the identifier of a struct constant)
  | strConv (e : GoExpr)                        -- string(e) (a binary constant used as map key)
  deriving Repr, Inhabited

/-- `strings.HasPrefix(val, "&")` -/
def GoExpr.startsAmp : GoExpr → Bool
  | .addr _ => true
  | .structLit .. => true
  | _ => false

/-! ### getTypeName -/

def Env.ns (E : Env) (g : Nat) : Nat :=
  match E.file? g with
  | some f => f.ns
  | none => 0

/-- `g.namespace != r.root.namespace` -/
def qual (E : Env) (root g : Nat) : Bool := E.ns g != E.ns root

def ptrElem (E : Env) (t : ATy) : Bool := t.cat == .strct && !E.vtic

def typeName (E : Env) (root : Nat) : Nat → ATy → Res GoTy
  | _, .base c => .ok (.base c)
  | g, .named _ ref name =>
      match ref with
      | some i =>
        match E.scopeInclude g i with
        | none => .panic
        | some g' => if E.hasGlobal g' name then .ok (.named g' name (qual E root g')) else .err
      | none => if E.hasGlobal g name then .ok (.named g name (qual E root g)) else .err
  | g, .list e => do
      let v ← typeName E root g e
      .ok (.slice (ptrElem E e) v)
  | g, .set e => do
      let v ← typeName E root g e
      .ok (.slice (ptrElem E e) v)
  | g, .map k v => do
      let kt ← (if k.cat == .bin then Res.ok (GoTy.base .str) else typeName E root g k)
      let vt ← typeName E root g v
      .ok (.map (k.cat == .strct) kt (ptrElem E v) vt)

/-! ### getIDValue -/

/-- getIDValue once the scope is fixed (`extra.Index == -1`); `ok none` is Go's `("", false)` -/
def idInner (E : Env) (g' : Nat) (x : Extra) : Res (Option GRef) :=
  if x.isEnum then
    match E.findEnum g' x.sel with
    | none => .ok none
    | some en => match en.value? x.name with
      | some _ => .ok (some (.enumVal g' x.sel x.name))
      | none => .ok none
  else if E.hasGlobal g' x.name then .ok (some (.global g' x.name)) else .ok none

def getIDValue (E : Env) (g : Nat) (x : Extra) : Res (Option GRef) :=
  let g' := match x.index with
    | none => (match E.file? g with | some _ => some g | none => none)
    | some i => E.scopeInclude g i
  match g' with
  | none => .panic
  | some g' => idInner E g' x

/-- `r.getIDValue(g, v.Extra)` where `v.Extra` may be nil (identifiers true/false, unresolved): an identifier
    that names nothing is "not found" (`if extra == nil { return "", false }`) -/
def getID (E : Env) (g : Nat) (x : Option Extra) : Res (Option GRef) :=
  match x with
  | none => .ok none
  | some x => getIDValue E g x

def bTrue : Bytes := [116, 114, 117, 101]
def bFalse : Bytes := [102, 97, 108, 115, 101]

/-- float64 `> 0` on a bit pattern -/
def dblPos (bits : Nat) : Bool := bits < 9223372036854775808 && bits != 0 && !isNaN bits

/-- the loop of `quoteLiteral`: a backslash takes the next character with it (an escaped single quote loses its
    backslash), a bare double quote is escaped, raw line breaks become their escape sequences -/
def quoteBody : Bytes → Bytes
  | [] => []
  | c :: r =>
      if c = 92 then
        (match r with
         | d :: r' => (if d = 39 then [39] else [92, d]) ++ quoteBody r'
         | [] => [92])                                  -- a trailing backslash falls to the default case
      else if c = 34 then 92 :: 34 :: quoteBody r
      else if c = 10 then 92 :: 110 :: quoteBody r
      else if c = 13 then 92 :: 114 :: quoteBody r
      else c :: quoteBody r

/-- `quoteLiteral`: the Go literal emitted for an IDL string literal -/
def emitStr (s : Bytes) : Bytes := 34 :: (quoteBody s ++ [34])

/-! ### the scalar cases -/

def onBool (E : Env) (g : Nat) (v : CV) : Res GoExpr :=
  match v with
  | .int n => .ok (.boolLit (decide (n > 0)))
  | .dbl bits _ => .ok (.boolLit (dblPos bits))
  | .ident s x =>
      if s = bTrue then .ok (.boolLit true)
      else if s = bFalse then .ok (.boolLit false)
      else match getID E g x with
        | .ok (some r) => .ok (.ident r)
        | .ok none => .err
        | .err => .err
        | .panic => .panic
  | _ => .err

def onInt (E : Env) (root g gv : Nat) (t : ATy) (v : CV) : Res GoExpr :=
  match v with
  | .int n => .ok (.intLit n)
  | .ident s x =>
      if s = bTrue then .ok (.intLit 1)
      else if s = bFalse then .ok (.intLit 0)
      else match getID E gv x with
        | .ok (some r) =>
            match typeName E root g t with
            | .ok ty => .ok (.conv ty (t.cat.intBits.getD 64) (.ident r))
            | .err => .ok (.conv .bad (t.cat.intBits.getD 64) (.ident r))
            | .panic => .panic
        | .ok none => .err
        | .err => .err
        | .panic => .panic
  | _ => .err

def onDouble (E : Env) (g : Nat) (v : CV) : Res GoExpr :=
  match v with
  | .int n => .ok (.floatOfInt n)
  | .dbl bits txt => .ok (.floatLit bits txt)
  | .ident s x =>
      if s = bTrue then .ok (.floatOfInt 1)
      else if s = bFalse then .ok (.floatOfInt 0)
      else match getID E g x with
        | .ok (some r) => .ok (.ident r)
        | .ok none => .err
        | .err => .err
        | .panic => .panic
  | _ => .err

/-- the switch of onStrBin -/
def strBinCore (E : Env) (g : Nat) (v : CV) : Res GoExpr :=
  match v with
  | .lit s => .ok (.strLit (emitStr s))
  | .ident s x =>
      if s = bTrue || s = bFalse then .err
      else match getID E g x with
        | .ok (some r) => .ok (.ident r)
        | .ok none => .err
        | .err => .err
        | .panic => .panic
  | _ => .err

/-- onStrBin: the deferred function wraps a successful result of a binary type in `[]byte(…)` -/
def onStrBin (E : Env) (g : Nat) (t : ATy) (v : CV) : Res GoExpr :=
  match strBinCore E g v with
  | .ok e => if t.cat == .bin then .ok (.bytesConv e) else .ok e
  | .err => .err
  | .panic => .panic

def onEnum (E : Env) (g : Nat) (v : CV) : Res GoExpr :=
  match v with
  | .int n => .ok (.intLit n)
  | .ident _ x =>
      match getID E g x with
      | .ok (some r) => .ok (.ident r)
      | .ok none => .err
      | .err => .err
      | .panic => .panic
  | _ => .err

/-- NeedRedirect (thrift.go) -/
def needRedirect (f : AField) : Bool :=
  if f.ty.cat == .strct then true
  else if f.req == .optional && f.dflt.isNone then
    (if f.ty.cat == .bin then false else f.ty.cat.isBase || f.ty.cat == .enum)
  else false

/-- Resolver.getStructLike -/
def structOf (E : Env) (g : Nat) (t : ATy) : Res (Nat × AStruct) :=
  match deref E E.derefFuel g t with
  | some (g', .named _ _ nm) =>
      match E.findStruct g' nm with
      | some st => .ok (g', st)
      | none => .err
  | some _ => .err
  | none => .err

/-- the tail of onStructLike's loop body: pointer trick and `&` -/
def redirect (f : AField) (typ : GoTy) (e : GoExpr) : GoExpr :=
  if needRedirect f then
    let e' := if f.ty.cat.isBase || f.ty.cat == .enum then GoExpr.ptrTrick typ e else e
    if e'.startsAmp then e' else .addr e'
  else e

/-- Resolver.derefContainer: the container type a (typedef'd) type names, with the scope its element types are
    written in -/
def derefC (E : Env) (g : Nat) (t : ATy) : Res (Nat × ATy) :=
  match t.elem? with
  | some _ => .ok (g, t)
  | none =>
    match deref E E.derefFuel g t with
    | some (g', t') => if t'.elem?.isSome then .ok (g', t') else .err
    | none => .err

/-- Resolver.elemValue: under value_type_in_container a struct-like element is a value: `&T{…}` loses its `&`,
    the identifier of a struct constant (a pointer) is dereferenced -/
def elemValue (E : Env) (t : ATy) (e : GoExpr) : GoExpr :=
  if t.cat == .strct && E.vtic then (if e.startsAmp then .unamp e else .star e) else e

def CV.isIdent : CV → Bool
  | .ident _ _ => true
  | _ => false

/-- onMap: a binary constant used as a key by identifier is converted, binary keys are strings in Go -/
def keyValue (kt : ATy) (k : CV) (e : GoExpr) : GoExpr :=
  if kt.cat == .bin && k.isIdent then .strConv e else e

mutual
/-- Resolver.resolveConst. `gv` is `Resolver.values`: the scope the whole constant expression is written in --
    identifiers are looked up there; `g` is the scope the TYPE `t` is written in -/
def resolveConst (E : Env) (root gv : Nat) : Nat → ATy → CV → Res GoExpr
  | g, t, v =>
    match t.cat with
    | .bool => onBool E gv v
    | .i8 | .i16 | .i32 | .i64 => onInt E root g gv t v
    | .dbl => onDouble E gv v
    | .str | .bin => onStrBin E gv t v
    | .enum => onEnum E gv v
    | .list | .set =>
        match typeName E root g t with
        | .err => .err
        | .panic => .panic
        | .ok ty =>
          match derefC E g t with
          | .err => .err
          | .panic => .panic
          | .ok (g', t') =>
            match v with
            | .list xs =>
                match resolveList E root gv g' t'.elem? xs with
                | .ok es => .ok (.sliceLit ty es)
                | .err => .err
                | .panic => .panic
            | .ident _ x =>
                match getID E gv x with
                | .ok (some r) => .ok (.ident r)
                | .panic => .panic
                | _ => .ok (.sliceLit ty [])
            | _ => .ok (.sliceLit ty [])
    | .map =>
        match typeName E root g t with
        | .err => .err
        | .panic => .panic
        | .ok ty =>
          match derefC E g t with
          | .err => .err
          | .panic => .panic
          | .ok (g', t') =>
            match v with
            | .map kvs =>
                match resolvePairs E root gv g' t'.key? t'.elem? kvs with
                | .ok es => .ok (.mapLit ty es)
                | .err => .err
                | .panic => .panic
            | .ident _ x =>
                match getID E gv x with
                | .ok (some r) => .ok (.ident r)
                | .panic => .panic
                | _ => .ok (.mapLit ty [])
            | _ => .ok (.mapLit ty [])
    | .strct =>
        match typeName E root g t with
        | .err => .err
        | .panic => .panic
        | .ok ty =>
          match v with
          | .ident _ x =>
              match getID E gv x with
              | .ok (some r) => .ok (.ident r)
              | .panic => .panic
              | _ => .err
          | .map kvs =>
              match structOf E g t with
              | .ok (file, st) =>
                  match resolveMembers E root gv file st kvs with
                  | .ok ents => .ok (.structLit ty file st.name ents)
                  | .err => .err
                  | .panic => .panic
              | .err => .err
              | .panic => .panic
          | _ => .err
/-- the loop of onSetOrList -/
def resolveList (E : Env) (root gv : Nat) : Nat → Option ATy → List CV → Res (List GoExpr)
  | _, _, [] => .ok []
  | _, none, _ :: _ => .panic
  | g, some e, x :: xs =>
      match resolveConst E root gv g e x with
      | .ok a =>
          match resolveList E root gv g (some e) xs with
          | .ok r => .ok (elemValue E e a :: r)
          | .err => .err
          | .panic => .panic
      | .err => .err
      | .panic => .panic
/-- the loop of onMap (the key is resolved at `bin2str` of the key type) -/
def resolvePairs (E : Env) (root gv : Nat) : Nat → Option ATy → Option ATy → List (CV × CV) → Res (List (GoExpr × GoExpr))
  | _, _, _, [] => .ok []
  | g, some kt, some vt, (k, v) :: r =>
      match resolveConst E root gv g (bin2str kt) k with
      | .ok a =>
          match resolveConst E root gv g vt v with
          | .ok b =>
              match resolvePairs E root gv g (some kt) (some vt) r with
              | .ok rest => .ok ((keyValue kt k a, elemValue E vt b) :: rest)
              | .err => .err
              | .panic => .panic
          | .err => .err
          | .panic => .panic
      | .err => .err
      | .panic => .panic
  | _, _, _, _ :: _ => .panic
/-- the loop of onStructLike: the members' TYPES are read in the scope `file` of the struct's definition, the
    identifiers among their values still in `gv` -/
def resolveMembers (E : Env) (root gv : Nat) : Nat → AStruct → List (CV × CV) → Res (List (Nat × GoExpr))
  | _, _, [] => .ok []
  | file, st, (k, v) :: r =>
      match k with
      | .lit n =>
          match findField st.fields n with
          | none => .err
          | some (idx, f) =>
              match typeName E root file f.ty with
              | .err => .err
              | .panic => .panic
              | .ok typ =>
                match resolveConst E root gv file f.ty v with
                | .ok e =>
                    match resolveMembers E root gv file st r with
                    | .ok rest => .ok ((idx, redirect f typ e) :: rest)
                    | .err => .err
                    | .panic => .panic
                | .err => .err
                | .panic => .panic
      | _ => .err
end

/-! ### value semantics of the emitted Go expressions -/

/-- nearest float64 (round to even) of a natural number, as a bit pattern -/
def f64OfNat (n : Nat) : Nat :=
  if n = 0 then 0 else
  let e := Nat.log2 n
  if e ≤ 52 then (e + 1023) * 4503599627370496 + (n * 2 ^ (52 - e) - 4503599627370496)
  else
    let sh := e - 52
    let q := n / 2 ^ sh
    let r := n % 2 ^ sh
    let half := 2 ^ (sh - 1)
    let q' := if r > half || (r == half && q % 2 == 1) then q + 1 else q
    (e + 1023) * 4503599627370496 + (q' - 4503599627370496)

def f64OfInt (n : Int) : Nat :=
  if n < 0 then 9223372036854775808 + f64OfNat n.natAbs else f64OfNat n.natAbs

def inRange (bits : Nat) (n : Int) : Bool :=
  decide (-(2 ^ (bits - 1) : Int) ≤ n) && decide (n < (2 ^ (bits - 1) : Int))

/-! Go's interpreted string literals (The Go Programming Language Specification, "String literals"). -/

def hexDigit? (c : Nat) : Option Nat :=
  if 48 ≤ c ∧ c ≤ 57 then some (c - 48)
  else if 97 ≤ c ∧ c ≤ 102 then some (c - 87)
  else if 65 ≤ c ∧ c ≤ 70 then some (c - 55)
  else none

def octDigit? (c : Nat) : Option Nat :=
  if 48 ≤ c ∧ c ≤ 55 then some (c - 48) else none

def utf8 (cp : Nat) : Bytes :=
  if cp < 128 then [cp]
  else if cp < 2048 then [192 + cp / 64, 128 + cp % 64]
  else if cp < 65536 then [224 + cp / 4096, 128 + cp / 64 % 64, 128 + cp % 64]
  else [240 + cp / 262144, 128 + cp / 4096 % 64, 128 + cp / 64 % 64, 128 + cp % 64]

def validRune (cp : Nat) : Bool := cp < 1114112 && !(55296 ≤ cp && cp < 57344)

/-- state of the scanner inside an interpreted string literal -/
inductive LexSt
  | norm                                           -- between characters
  | esc                                            -- after a backslash
  | num (base rem acc : Nat) (rune : Bool)         -- inside \ooo \xhh \uhhhh \Uhhhhhhhh: `rem` digits to go
  deriving DecidableEq, Repr, Inhabited

/-- the single-character escapes and the starts of the numeric ones: character after the backslash ↦ next state
    and bytes gained -/
def escTable : List (Nat × (LexSt × Bytes)) :=
  [(97, (.norm, [7])),                  -- \a
   (98, (.norm, [8])),                  -- \b
   (102, (.norm, [12])),                -- \f
   (110, (.norm, [10])),                -- \n
   (114, (.norm, [13])),                -- \r
   (116, (.norm, [9])),                 -- \t
   (118, (.norm, [11])),                -- \v
   (92, (.norm, [92])),                 -- \\
   (34, (.norm, [34])),                 -- \"
   (120, (.num 16 2 0 false, [])),      -- \x
   (117, (.num 16 4 0 true, [])),       -- \u
   (85, (.num 16 8 0 true, []))]        -- \U

def escLookup (c : Nat) : List (Nat × (LexSt × Bytes)) → Option (LexSt × Bytes)
  | [] => none
  | (k, v) :: r => if c = k then some v else escLookup c r

/-- one character: next state and the bytes the literal's value gains; `none` = not a valid literal -/
def lexStep : LexSt → Nat → Option (LexSt × Bytes)
  | .norm, c => if c = 92 then some (.esc, []) else some (.norm, [c])
  | .esc, c =>
      match escLookup c escTable with
      | some r => some r
      | none =>
        match octDigit? c with
        | some d => some (.num 8 2 d false, [])
        | none => none                          -- unknown escape (\' included: it is for rune literals only)
  | .num base rem acc rune, c =>
      match (if base = 16 then hexDigit? c else octDigit? c) with
      | none => none
      | some d =>
          let acc' := acc * base + d
          if rem ≤ 1 then
            (if rune then (if validRune acc' then some (.norm, utf8 acc') else none)
             else if acc' < 256 then some (.norm, [acc']) else none)
          else some (.num base (rem - 1) acc' rune, [])

/-- the text after the opening quote: a quote between characters closes the literal and must end the text,
    a raw newline is not allowed -/
def unqFrom : LexSt → Bytes → Option Bytes
  | _, [] => none                                   -- unterminated
  | st, c :: r =>
      if st = .norm ∧ c = 34 then (if r = [] then some [] else none)
      else if st = .norm ∧ c = 10 then none
      else match lexStep st c with
        | some (st', out) => (unqFrom st' r).map (out ++ ·)
        | none => none

/-- value of the Go source text `raw` read as an interpreted string literal; `none` = does not compile -/
def goUnquote (raw : Bytes) : Option Bytes :=
  match raw with
  | 34 :: r => unqFrom .norm r
  | _ => none

/-- one character of an IDL literal: Go's escape sequences, plus the IDL's own escaped single quote -/
def idlStep (st : LexSt) (c : Nat) : Option (LexSt × Bytes) :=
  if st = .esc ∧ c = 39 then some (.norm, [39]) else lexStep st c

/-- the IDL literal (the delimiter it was written with already unescaped by the parser) interpreted by the
    target language: escape sequences as in Go, `\'` a single quote, every other character -- a double quote, a
    line break -- stands for itself (docs/string-literals-in-the-IDL.md) -/
def interpFrom : LexSt → Bytes → Option Bytes
  | st, [] => if st = .norm then some [] else none
  | st, c :: r =>
      match idlStep st c with
      | some (st', out) => (interpFrom st' r).map (out ++ ·)
      | none => none

def interp (s : Bytes) : Option Bytes := interpFrom .norm s

/-- Go zero value of the field generated for `f` -/
def zeroField (f : AField) : GoVal :=
  match f.ty.cat with
  | .bool => if f.req == .optional && f.dflt.isNone then .nil else .bool false
  | .i8 | .i16 | .i32 | .i64 | .enum => if f.req == .optional && f.dflt.isNone then .nil else .int 0
  | .dbl => if f.req == .optional && f.dflt.isNone then .nil else .dbl 0
  | .str => if f.req == .optional && f.dflt.isNone then .nil else .bytes []
  | .bin | .list | .set | .map | .strct => .nil

def zeroFields (st : AStruct) : List GoVal := st.fields.map zeroField

/-- keyed elements of a composite literal applied to the zero struct -/
def applyEnts (base : List GoVal) (ents : List (Nat × GoVal)) : List GoVal :=
  ents.foldl (fun acc (p : Nat × GoVal) => acc.set p.1 p.2) base

def enumLookup (E : Env) (file : Nat) (en val : Name) : Option GoVal :=
  match E.findEnum file en with
  | some d => (d.value? val).map .int
  | none => none

/-- the values of the package-level Go constants/variables generated for IDL constants -/
abbrev ConstEnv := Nat → Name → Option GoVal

mutual
/-- value of an emitted expression; `none` = the expression does not compile / has no value -/
def evalGo (E : Env) (ρ : ConstEnv) : GoExpr → Option GoVal
  | .boolLit b => some (.bool b)
  | .intLit n => some (.int n)
  | .floatOfInt n => some (.dbl (f64OfInt n))
  | .floatLit bits _ => some (.dbl bits)
  | .strLit raw => (goUnquote raw).map .bytes
  | .ident (.global f n) => ρ f n
  | .ident (.enumVal f en v) => enumLookup E f en v
  | .conv _ bits e =>
      match evalGo E ρ e with
      | some (.int n) => if inRange bits n then some (.int n) else none
      | _ => none
  | .bytesConv e =>
      match evalGo E ρ e with
      | some (.bytes b) => some (.bytes b)
      | _ => none
  | .sliceLit _ es => (evalGoList E ρ es).map .list
  | .mapLit _ kvs => (evalGoPairs E ρ kvs).map .map
  | .structLit _ file sname ents =>
      match E.findStruct file sname with
      | some st => (evalGoEnts E ρ ents).map fun vs => .strct (applyEnts (zeroFields st) vs)
      | none => none
  | .addr e =>
      match e with
      | .ptrTrick _ a => evalGo E ρ a          -- a pointer to a fresh variable holding the value
      | _ => none                              -- `&Const`, `&0`, `&PtrVar`: not addressable / wrong type
  | .ptrTrick _ e => evalGo E ρ e
  | .unamp e => evalGo E ρ e                     -- the value itself instead of a pointer to it
  | .star e => evalGo E ρ e                      -- the value a pointer constant points to
  | .strConv e =>
      match evalGo E ρ e with
      | some (.bytes b) => some (.bytes b)
      | _ => none
def evalGoList (E : Env) (ρ : ConstEnv) : List GoExpr → Option (List GoVal)
  | [] => some []
  | e :: r =>
      match evalGo E ρ e with
      | some v => (evalGoList E ρ r).map (v :: ·)
      | none => none
def evalGoPairs (E : Env) (ρ : ConstEnv) : List (GoExpr × GoExpr) → Option (List (GoVal × GoVal))
  | [] => some []
  | (a, b) :: r =>
      match evalGo E ρ a with
      | some x =>
          match evalGo E ρ b with
          | some y => (evalGoPairs E ρ r).map ((x, y) :: ·)
          | none => none
      | none => none
def evalGoEnts (E : Env) (ρ : ConstEnv) : List (Nat × GoExpr) → Option (List (Nat × GoVal))
  | [] => some []
  | (i, e) :: r =>
      match evalGo E ρ e with
      | some v => (evalGoEnts E ρ r).map ((i, v) :: ·)
      | none => none
end

/-- the Go package-level environment: every IDL constant holds the value of its own initialiser
    (`fuel` bounds chains of constants referring to constants) -/
def goEnvOf (E : Env) : Nat → ConstEnv
  | 0 => fun _ _ => none
  | fuel + 1 => fun f n =>
      match E.findConst f n with
      | some c =>
          match resolveConst E f f f c.ty c.val with
          | .ok e => evalGo E (goEnvOf E fuel) e
          | _ => none
      | none => none

/-! ### the IDL side: the value an initializer denotes by the IDL's own rules -/

/-- element type of a list/set type, through typedefs; with the file the element type is written in -/
def elemTy (E : Env) (gt : Nat) (t : ATy) : Option (Nat × ATy) :=
  match deref E E.derefFuel gt t with
  | some (g', .list e) => some (g', e)
  | some (g', .set e) => some (g', e)
  | _ => none

def mapTy (E : Env) (gt : Nat) (t : ATy) : Option (Nat × ATy × ATy) :=
  match deref E E.derefFuel gt t with
  | some (g', .map k v) => some (g', k, v)
  | _ => none

/-- the value a resolved identifier denotes in file `f`: an enum member's number or the value of the constant -/
def refInner (E : Env) (ρ : ConstEnv) (f : Nat) (x : Extra) : Option GoVal :=
  if x.isEnum then enumLookup E f x.sel x.name else ρ f x.name

/-- the value a resolved identifier denotes, seen from file `gv` -/
def refValue (E : Env) (ρ : ConstEnv) (gv : Nat) (x : Option Extra) : Option GoVal :=
  match x with
  | none => none
  | some x =>
    let f := match x.index with
      | none => some gv
      | some i => E.astInclude gv i
    match f with
    | none => none
    | some f => refInner E ρ f x

/-- bool: 0/1/true/false, or a reference -/
def idlBool (E : Env) (ρ : ConstEnv) (gv : Nat) (v : CV) : Option GoVal :=
  match v with
  | .int n => if n = 0 then some (.bool false) else if n = 1 then some (.bool true) else none
  | .ident s x =>
      if s = bTrue then some (.bool true) else if s = bFalse then some (.bool false)
      else match refValue E ρ gv x with
        | some (.bool b) => some (.bool b)
        | _ => none
  | _ => none

/-- integers: a number that fits, or a reference to one -/
def idlInt (E : Env) (ρ : ConstEnv) (gv : Nat) (bits : Nat) (v : CV) : Option GoVal :=
  match v with
  | .int n => if inRange bits n then some (.int n) else none
  | .ident s x =>
      if s = bTrue || s = bFalse then none
      else match refValue E ρ gv x with
        | some (.int n) => if inRange bits n then some (.int n) else none
        | _ => none
  | _ => none

/-- double: a floating literal, an integer standing for a double, or a reference -/
def idlDouble (E : Env) (ρ : ConstEnv) (gv : Nat) (v : CV) : Option GoVal :=
  match v with
  | .int n => some (.dbl (f64OfInt n))
  | .dbl bits _ => some (.dbl bits)
  | .ident s x =>
      if s = bTrue || s = bFalse then none
      else match refValue E ρ gv x with
        | some (.dbl b) => some (.dbl b)
        | _ => none
  | _ => none

/-- string / binary: a literal (delimiter already unescaped by the parser) read by the target language, or a reference -/
def idlStr (E : Env) (ρ : ConstEnv) (gv : Nat) (v : CV) : Option GoVal :=
  match v with
  | .lit s => (interp s).map .bytes
  | .ident s x =>
      if s = bTrue || s = bFalse then none
      else match refValue E ρ gv x with
        | some (.bytes b) => some (.bytes b)
        | _ => none
  | _ => none

/-- enum: a member by number or by name, or a reference -/
def idlEnum (E : Env) (ρ : ConstEnv) (gv : Nat) (v : CV) : Option GoVal :=
  match v with
  | .int n => some (.int n)
  | .ident _ x =>
      match refValue E ρ gv x with
      | some (.int n) => some (.int n)
      | _ => none
  | _ => none

mutual
/-- `gt`: the file the type is written in; `gv`: the file the initializer is written in -/
def evalIDL (E : Env) (ρ : ConstEnv) : Nat → Nat → ATy → CV → Option GoVal
  | gt, gv, t, v =>
    match t.cat with
    | .bool => idlBool E ρ gv v
    | .i8 => idlInt E ρ gv 8 v
    | .i16 => idlInt E ρ gv 16 v
    | .i32 => idlInt E ρ gv 32 v
    | .i64 => idlInt E ρ gv 64 v
    | .dbl => idlDouble E ρ gv v
    | .str | .bin => idlStr E ρ gv v
    | .enum => idlEnum E ρ gv v
    | .list | .set =>
        match v with
        | .list xs =>
            match elemTy E gt t with
            | some (g', e) => (evalIDLList E ρ g' gv e xs).map .list
            | none => none
        | .map kvs => if kvs.isEmpty then some (.list []) else none      -- `{}` for an empty list
        | .ident _ x =>
            match refValue E ρ gv x with
            | some (.list l) => some (.list l)
            | _ => none
        | _ => none
    | .map =>
        match v with
        | .map kvs =>
            match mapTy E gt t with
            | some (g', k, w) => (evalIDLPairs E ρ g' gv k w kvs).map .map
            | none => none
        | .list xs => if xs.isEmpty then some (.map []) else none       -- `[]` for an empty map
        | .ident _ x =>
            match refValue E ρ gv x with
            | some (.map m) => some (.map m)
            | _ => none
        | _ => none
    | .strct =>
        match v with
        | .ident _ x =>
            match refValue E ρ gv x with
            | some (.strct fs) => some (.strct fs)
            | _ => none
        | .map kvs =>
            match structOf E gt t with
            | .ok (file, st) =>
                (evalIDLMembers E ρ file gv st kvs).map fun vs => .strct (applyEnts (zeroFields st) vs)
            | _ => none
        | _ => none
def evalIDLList (E : Env) (ρ : ConstEnv) : Nat → Nat → ATy → List CV → Option (List GoVal)
  | _, _, _, [] => some []
  | gt, gv, e, x :: r =>
      match evalIDL E ρ gt gv e x with
      | some v => (evalIDLList E ρ gt gv e r).map (v :: ·)
      | none => none
def evalIDLPairs (E : Env) (ρ : ConstEnv) : Nat → Nat → ATy → ATy → List (CV × CV) → Option (List (GoVal × GoVal))
  | _, _, _, _, [] => some []
  | gt, gv, k, w, (a, b) :: r =>
      match evalIDL E ρ gt gv k a with
      | some x =>
          match evalIDL E ρ gt gv w b with
          | some y => (evalIDLPairs E ρ gt gv k w r).map ((x, y) :: ·)
          | none => none
      | none => none
/-- struct literal keyed by field name; the members' types are written in the struct's file -/
def evalIDLMembers (E : Env) (ρ : ConstEnv) : Nat → Nat → AStruct → List (CV × CV) → Option (List (Nat × GoVal))
  | _, _, _, [] => some []
  | file, gv, st, (k, v) :: r =>
      match k with
      | .lit n =>
          match findField st.fields n with
          | some (idx, f) =>
              match evalIDL E ρ file gv f.ty v with
              | some x => (evalIDLMembers E ρ file gv st r).map ((idx, x) :: ·)
              | none => none
          | none => none
      | _ => none
end

/-- the IDL-side environment: every constant denotes the value of its own initializer at its own type -/
def idlEnvOf (E : Env) : Nat → ConstEnv
  | 0 => fun _ _ => none
  | fuel + 1 => fun f n =>
      match E.findConst f n with
      | some c => evalIDL E (idlEnvOf E fuel) f f c.ty c.val
      | none => none

/-! ### NewX / InitDefault / getters / IsSet over `Gen.Schema` -/

/-- `IsConstantInGo` -/
def isConstantInGo (t : ATy) : Bool := (t.cat.isBase && t.cat != .bin) || t.cat == .enum

/-- the value the generated code holds for the default of field `f` of a struct defined in `file`
    (`GetFieldInit`: the initialiser is resolved with the struct's file as root scope) -/
def fieldDefault (E : Env) (fuel : Nat) (file : Nat) (f : AField) : Option GoVal :=
  match f.dflt with
  | none => none
  | some d =>
      match resolveConst E file file file f.ty d with
      | .ok e => evalGo E (goEnvOf E fuel) e
      | _ => none

/-- the `Gen.Schema` view of a struct-like: ids, requiredness and resolved types come from the schema
    (`fs`), the declared defaults from the generator model -/
def structDefOf (E : Env) (fuel : Nat) (file : Nat) (st : AStruct) (sd : StructDef) : StructDef :=
  { sd with fields := (sd.fields.zip st.fields).map fun (fd, af) => { fd with dflt := fieldDefault E fuel file af } }

/-- Go zero value of a struct (`var x X`) -/
def zeroStruct (sd : StructDef) : GoVal :=
  .strct (sd.fields.map fun f =>
    match f.dflt with
    | some _ => (match f.ty with
        | .bool => .bool false
        | .i8 | .i16 | .i32 | .i64 | .enum => .int 0
        | .dbl => .dbl 0
        | .str => .bytes []
        | _ => .nil)
    | none => zeroOf f.req f.ty)

/-- `InitDefault()`: assigns the declared default to every field that has one -/
def initDefault (sd : StructDef) : GoVal → GoVal
  | .strct vs => .strct ((sd.fields.zip vs).map fun (f, v) => match f.dflt with | some d => d | none => v)
  | v => v

/-- SupportIsSet -/
def supportIsSet (f : FieldDef) : Bool := f.ty.isStruct || f.req == .optional

/-- the `<T>_<F>_DEFAULT` variable: declared default, else the zero value of DefaultTypeName -/
def defaultVar (f : FieldDef) : GoVal :=
  match f.dflt with
  | some d => d
  | none => match f.ty with
      | .bool => .bool false
      | .i8 | .i16 | .i32 | .i64 | .enum => .int 0
      | .dbl => .dbl 0
      | .str => .bytes []
      | _ => .nil

/-- `Get<F>()` on a field holding `v` -/
def getter (f : FieldDef) (v : GoVal) : GoVal :=
  if supportIsSet f then (if Std.isSet f v then v else defaultVar f) else v


/-! ### specification-side predicates: hypothesis of `const_value`, exact acceptance -/

def isMapLit : CV → Bool
  | .map _ => true
  | _ => false

/-- a struct-typed member must be given by a literal: for the identifier of a struct constant (already a
    pointer) the code emits `&C`, a `**T` -/
def addrOK (f : AField) (v : CV) : Bool := f.ty.cat != .strct || isMapLit v

mutual
/-- the hypothesis of `const_value`: no struct literal sets a struct-typed member by identifier -/
def good (E : Env) : Nat → ATy → CV → Bool
  | g, t, v =>
    match t.cat with
    | .list | .set =>
        match v with
        | .list xs =>
            (match derefC E g t with
             | .ok (g', t') => (match t'.elem? with | some e => goodL E g' e xs | none => true)
             | _ => true)
        | _ => true
    | .map =>
        match v with
        | .map kvs =>
            (match derefC E g t with
             | .ok (g', t') => (match t'.key?, t'.elem? with | some k, some w => goodP E g' (bin2str k) w kvs | _, _ => true)
             | _ => true)
        | _ => true
    | .strct =>
        match v with
        | .map kvs =>
            match structOf E g t with
            | .ok (file, st) => goodM E file st kvs
            | _ => true
        | _ => true
    | _ => true
def goodL (E : Env) : Nat → ATy → List CV → Bool
  | _, _, [] => true
  | g, e, x :: r => good E g e x && goodL E g e r
def goodP (E : Env) : Nat → ATy → ATy → List (CV × CV) → Bool
  | _, _, _, [] => true
  | g, k, w, (a, b) :: r => good E g k a && good E g w b && goodP E g k w r
def goodM (E : Env) : Nat → AStruct → List (CV × CV) → Bool
  | _, _, [] => true
  | file, st, (k, v) :: r =>
      (match k with
       | .lit n => (match findField st.fields n with
          | some (_, f) => addrOK f v && good E file f.ty v
          | none => true)
       | _ => true) && goodM E file st r
end

def CV.isLeaf : CV → Bool
  | .list _ | .map _ => false
  | _ => true

/-- thriftgo accepted the program: every constant's initialiser resolves (root scope = its own file) -/
def Accepted (E : Env) : Prop :=
  ∀ f n c, E.findConst f n = some c → ∃ e, resolveConst E f f f c.ty c.val = .ok e

/-- every constant's initialiser satisfies the hypothesis of `const_value` -/
def EnvGood (E : Env) : Prop :=
  ∀ f n c, E.findConst f n = some c → good E f c.ty c.val = true

def resOk {α : Type} : Res α → Bool
  | .ok _ => true
  | _ => false

/-- the identifier resolves to a Go name in scope `g` -/
def idResolves (E : Env) (g : Nat) (x : Option Extra) : Bool :=
  match getID E g x with
  | .ok (some _) => true
  | _ => false

/-- looking the identifier up crashes (a scope that does not have the include) -/
def idPanics (E : Env) (g : Nat) (x : Option Extra) : Bool :=
  match getID E g x with
  | .panic => true
  | _ => false

def isTF (s : Bytes) : Bool := s = bTrue || s = bFalse

def noPanic {α : Type} : Res α → Bool
  | .panic => false
  | _ => true

/-! the kinds of initializer each scalar category takes (C04's catalogue); `g` = the scope of the identifiers -/

def accBool (E : Env) (g : Nat) (v : CV) : Bool :=
  match v with
  | .int _ | .dbl _ _ => true
  | .ident s x => isTF s || idResolves E g x
  | _ => false

def accInt (E : Env) (root g gv : Nat) (t : ATy) (v : CV) : Bool :=
  match v with
  | .int _ => true
  | .ident s x => isTF s || (idResolves E gv x && noPanic (typeName E root g t))
  | _ => false

def accDouble (E : Env) (g : Nat) (v : CV) : Bool :=
  match v with
  | .int _ | .dbl _ _ => true
  | .ident s x => isTF s || idResolves E g x
  | _ => false

def accStr (E : Env) (g : Nat) (v : CV) : Bool :=
  match v with
  | .lit _ => true
  | .ident s x => !isTF s && idResolves E g x
  | _ => false

def accEnum (E : Env) (g : Nat) (v : CV) : Bool :=
  match v with
  | .int _ => true
  | .ident _ x => idResolves E g x
  | _ => false

def accScalar (E : Env) (root gv g : Nat) (t : ATy) (v : CV) : Bool :=
  match t.cat with
  | .bool => accBool E gv v
  | .i8 | .i16 | .i32 | .i64 => accInt E root g gv t v
  | .dbl => accDouble E gv v
  | .str | .bin => accStr E gv v
  | .enum => accEnum E gv v
  | _ => false

mutual
/-- exactly the initializers thriftgo accepts (the tolerance for containers included) -/
def accepts (E : Env) (root gv : Nat) : Nat → ATy → CV → Bool
  | g, t, v =>
    match t.cat with
    | .list | .set =>
        resOk (typeName E root g t) &&
        (match derefC E g t with
         | .ok (g', t') =>
            (match v with
             | .list xs => acceptsL E root gv g' t'.elem? xs
             | .ident _ x => !idPanics E gv x
             | _ => true)                                     -- any other kind: `T{}`
         | _ => false)
    | .map =>
        resOk (typeName E root g t) &&
        (match derefC E g t with
         | .ok (g', t') =>
            (match v with
             | .map kvs => acceptsP E root gv g' t'.key? t'.elem? kvs
             | .ident _ x => !idPanics E gv x
             | _ => true)
         | _ => false)
    | .strct =>
        resOk (typeName E root g t) &&
        (match v with
         | .ident _ x => idResolves E gv x
         | .map kvs =>
             (match structOf E g t with
              | .ok (file, st) => acceptsM E root gv file st kvs
              | _ => false)
         | _ => false)
    | _ => accScalar E root gv g t v
def acceptsL (E : Env) (root gv : Nat) : Nat → Option ATy → List CV → Bool
  | _, _, [] => true
  | _, none, _ :: _ => false
  | g, some e, x :: xs => accepts E root gv g e x && acceptsL E root gv g (some e) xs
def acceptsP (E : Env) (root gv : Nat) : Nat → Option ATy → Option ATy → List (CV × CV) → Bool
  | _, _, _, [] => true
  | g, some kt, some vt, (k, v) :: r =>
      accepts E root gv g (bin2str kt) k && accepts E root gv g vt v && acceptsP E root gv g (some kt) (some vt) r
  | _, _, _, _ :: _ => false
def acceptsM (E : Env) (root gv : Nat) : Nat → AStruct → List (CV × CV) → Bool
  | _, _, [] => true
  | file, st, (k, v) :: r =>
      (match k with
       | .lit n =>
           (match findField st.fields n with
            | some (_, f) => resOk (typeName E root file f.ty) && accepts E root gv file f.ty v
            | none => false)
       | _ => false) && acceptsM E root gv file st r
end

end Gen.Defaults
