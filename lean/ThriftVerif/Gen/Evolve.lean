import ThriftVerif.Gen.StdLemmas
/-
  Gen/Evolve: schema evolution at one struct level. `new` is `old` with fields added
  (a mask over `new`'s field list says which fields are `old`'s).
-/
namespace Gen.Evolve
open Wire Gen Gen.Std

/-- keep the elements whose mask bit is set -/
def proj {α} : List Bool → List α → List α
  | true :: m, x :: xs => x :: proj m xs
  | false :: m, _ :: xs => proj m xs
  | _, _ => []

/-- the elements whose mask bit is clear (the added fields) -/
def added {α} : List Bool → List α → List α
  | true :: m, _ :: xs => added m xs
  | false :: m, x :: xs => x :: added m xs
  | _, _ => []

theorem findField_go_none (id : Nat) : ∀ (defs : List FieldDef) (k : Nat), id ∉ defs.map idOf →
    findField.go id defs k = none
  | [], _, _ => rfl
  | f :: fs, k, h => by
    have h1 : idOf f ≠ id := fun e => h (by simp [e])
    have h2 : id ∉ fs.map idOf := fun e => h (by simp [e])
    simp only [findField.go]
    have : ¬ pat 16 f.id = id := h1
    simp [this, findField_go_none id fs (k + 1) h2]

theorem findField_none (defs : List FieldDef) (id : Nat) (h : id ∉ defs.map idOf) : findField defs id = none :=
  findField_go_none id defs 0 h

/-- values of added fields are within the protocol's Skip depth when written -/
def AddedShallow (P : Prog) : List Bool → List FieldDef → List GoVal → Prop
  | true :: m, _ :: fs, _ :: vs => AddedShallow P m fs vs
  | false :: m, f :: fs, v :: vs => (∀ w, toW P f.ty v = .ok w → w.depth ≤ 64) ∧ AddedShallow P m fs vs
  | _, _, _ => True

/-- **what the old reader sees of a new writer's fields**: the fields written for the new struct are
the fields the old struct would write for the projected object, interleaved with fields unknown to the
old schema. -/
theorem new_fields_mixed (P : Prog) (old : List FieldDef) :
    ∀ (mask : List Bool) (new : List FieldDef) (vs : List GoVal) (wsN : List (Nat × WVal)),
      mask.length = new.length → toWFields P new vs = .ok wsN → WTFields P.structs new vs →
      (∀ g ∈ added mask new, idOf g ∉ old.map idOf) → AddedShallow P mask new vs →
      ∃ wsO, toWFields P (proj mask new) (proj mask vs) = .ok wsO ∧ Mixed old wsO wsN := by
  intro mask
  induction mask with
  | nil =>
    intro new vs wsN hl h _ _ _
    cases new with
    | cons f fs => simp at hl
    | nil =>
      cases vs with
      | cons v vs => simp [toWFields] at h
      | nil => simp only [toWFields] at h; cases h; exact ⟨[], by simp [proj, toWFields], .nil⟩
  | cons b m ih =>
    intro new vs wsN hl h hwt hfresh hsh
    cases new with
    | nil => simp at hl
    | cons f fs =>
    cases vs with
    | nil => simp [toWFields] at h
    | cons v vs =>
    simp only [List.length_cons, Nat.add_right_cancel_iff] at hl
    simp only [WTFields] at hwt
    obtain ⟨hopt, hreq, hid, hwtr⟩ := hwt
    simp only [toWFields] at h
    cases b with
    | true =>
      simp only [proj, toWFields]
      simp only [added] at hfresh
      simp only [AddedShallow] at hsh
      split at h
      · rename_i hc
        obtain ⟨wsO, h1, h2⟩ := ih fs vs wsN hl h hwtr hfresh hsh
        exact ⟨wsO, by simp [hc, h1], h2⟩
      · rename_i hc
        simp only [Res.bind_eq_ok] at h
        obtain ⟨w, hw, ws', hws', hcons⟩ := h
        cases hcons
        obtain ⟨wsO, h1, h2⟩ := ih fs vs ws' hl hws' hwtr hfresh hsh
        refine ⟨(pat 16 f.id, w) :: wsO, ?_, .known _ _ _ h2⟩
        simp only [hc, if_false, Bool.false_eq_true, hw, h1]
        rfl
    | false =>
      simp only [proj]
      simp only [added, List.mem_cons, forall_eq_or_imp] at hfresh
      simp only [AddedShallow] at hsh
      split at h
      · exact ih fs vs wsN hl h hwtr hfresh.2 hsh.2
      · rename_i hc
        simp only [Res.bind_eq_ok] at h
        obtain ⟨w, hw, ws', hws', hcons⟩ := h
        cases hcons
        obtain ⟨wsO, h1, h2⟩ := ih fs vs ws' hl hws' hwtr hfresh.2 hsh.2
        have hwtv : WT P.structs f.ty v := by
          by_cases ho : f.req = .optional
          · rcases hopt ho with hn | hw'
            · simp [ho, hn.2] at hc
            · exact hw'
          · exact hreq ho
        obtain ⟨hwf, _⟩ := toW_WF P v f.ty w hwtv hw
        refine ⟨wsO, h1, .unknown (pat 16 f.id) w wsO ws' h2 ?_ (findField_none old _ hfresh.1) hwf (hsh.1 w hw)⟩
        have := pat_lt 16 f.id; have := pow256.2.1; omega


theorem WTFields_proj (S : List StructDef) : ∀ (mask : List Bool) (new : List FieldDef) (vs : List GoVal),
    mask.length = new.length → WTFields S new vs → WTFields S (proj mask new) (proj mask vs) := by
  intro mask
  induction mask with
  | nil => intro new vs _ _; simp [proj, WTFields]
  | cons b m ih =>
    intro new vs hl h
    cases new with
    | nil => simp at hl
    | cons f fs =>
    cases vs with
    | nil => simp [WTFields] at h
    | cons v vs =>
    simp only [List.length_cons, Nat.add_right_cancel_iff] at hl
    simp only [WTFields] at h
    cases b with
    | true => simp only [proj, WTFields]; exact ⟨h.1, h.2.1, h.2.2.1, ih fs vs hl h.2.2.2⟩
    | false => simp only [proj]; exact ih fs vs hl h.2.2.2

theorem Mixed_depth (defs : List FieldDef) : ∀ ws ms, Mixed defs ws ms → depthFields ws ≤ depthFields ms := by
  intro ws ms h
  induction h with
  | nil => simp
  | known x ws ms _ ih => obtain ⟨i, w⟩ := x; simp only [depthFields]; omega
  | unknown id u ws ms _ _ _ _ _ ih => simp only [depthFields]; omega

/-- **old reads new** (one struct level): code generated from the OLD struct reads the bytes that code
generated from the NEW struct (old + added fields with fresh ids, at any positions, of any types)
wrote, without error, and the object it builds encodes to exactly the fields the old struct writes
for the projected object — every field common to both versions keeps its wire value. -/
theorem old_reads_new (P : Prog) (hP : SchemaOK P) (hv : P.validateSet = false) (iOld : Nat)
    (sdOld sdNew : StructDef) (mask : List Bool) (vs : List GoVal) (wsN : List (Nat × WVal)) (f : Nat)
    (hO : P.structs[iOld]? = some sdOld) (hl : mask.length = sdNew.fields.length)
    (hproj : proj mask sdNew.fields = sdOld.fields)
    (hfresh : ∀ g ∈ added mask sdNew.fields, idOf g ∉ sdOld.fields.map idOf)
    (hwt : WTFields P.structs sdNew.fields vs) (hw : toWFields P sdNew.fields vs = .ok wsN)
    (hsh : AddedShallow P mask sdNew.fields vs) (hd : depthFields wsN ≤ f) :
    ∃ fs' wsO, toWFields P sdOld.fields (proj mask vs) = .ok wsO ∧ toWFields P sdOld.fields fs' = .ok wsO ∧
      ∀ r, readTy P.structs (f + 1) (.struct iOld) (encFields wsN ++ 0 :: r) = some (.strct fs', r) := by
  obtain ⟨wsO, h1, hm⟩ := new_fields_mixed P sdOld.fields mask sdNew.fields vs wsN hl hw hwt hfresh hsh
  rw [hproj] at h1
  have hwtO : WTFields P.structs sdOld.fields (proj mask vs) := by
    have := WTFields_proj P.structs mask sdNew.fields vs hl hwt
    rwa [hproj] at this
  have hdO : depthFields wsO ≤ f := by have := Mixed_depth sdOld.fields wsO wsN hm; omega
  obtain ⟨fs', h2, h3⟩ := struct_read_mixed P hP hv iOld sdOld (proj mask vs) wsO f hO hwtO h1 hdO
  exact ⟨fs', wsO, h1, h2, fun r => h3 wsN r hm⟩

/-- the Read loop of the NEW struct on the fields the OLD struct wrote: kept fields are read back,
added fields are never touched -/
theorem loop_rt_sub (P : Prog) (rd : Ty → Bytes → Option (GoVal × Bytes)) (dmax : Nat) :
    ∀ (mask : List Bool) (suf : List FieldDef) (ovs : List GoVal) (ws : List (Nat × WVal)),
      mask.length = suf.length →
      toWFields P (proj mask suf) ovs = .ok ws → depthFields ws ≤ dmax → IHu P rd dmax (proj mask suf) ovs →
      WTFields P.structs (proj mask suf) ovs → (∀ f ∈ suf, DfltOpt f) →
      ∀ (pre : List FieldDef) (cpre csuf : List GoVal) (spre ssuf : List Bool),
        ((pre ++ suf).map idOf).Nodup → cpre.length = pre.length → spre.length = pre.length →
        csuf.length = suf.length → ssuf.length = suf.length → Unset (proj mask suf) (proj mask csuf) →
        ∃ csuf' ssuf', csuf'.length = suf.length ∧ ssuf'.length = suf.length ∧
          toWFields P (proj mask suf) (proj mask csuf') = .ok ws ∧ ReqSeen (proj mask suf) (proj mask ssuf') ∧
          added mask csuf' = added mask csuf ∧ added mask ssuf' = added mask ssuf ∧
          ∀ (ms : List (Nat × WVal)) (gas : Nat) (rest : Bytes), Mixed (pre ++ suf) ws ms → ms.length < gas →
            readFieldsWith rd (pre ++ suf) gas (encFields ms ++ rest) (cpre ++ csuf) (spre ++ ssuf)
              = readFieldsWith rd (pre ++ suf) (gas - ms.length) rest (cpre ++ csuf') (spre ++ ssuf') := by
  intro mask
  induction mask with
  | nil =>
    intro suf ovs ws hl h _ _ _ _ pre cpre csuf spre ssuf _ _ _ hc hs _
    have hsuf : suf = [] := List.eq_nil_of_length_eq_zero hl.symm
    subst hsuf
    have : csuf = [] := List.eq_nil_of_length_eq_zero hc
    have : ssuf = [] := List.eq_nil_of_length_eq_zero hs
    subst_vars
    cases ovs with
    | cons v vs => simp [proj, toWFields] at h
    | nil =>
      simp only [proj, toWFields] at h; cases h
      refine ⟨[], [], rfl, rfl, by simp [proj, toWFields], by simp [proj, ReqSeen], rfl, rfl, ?_⟩
      intro ms gas rest hm hg
      have := run_unknowns rd (pre ++ []) ms hm (gas - ms.length) rest (cpre ++ []) (spre ++ [])
      have e : gas - ms.length + ms.length = gas := by omega
      rw [e] at this
      exact this
  | cons bit m ih =>
    intro suf ovs ws hl h hdep hih hwt hdo pre cpre csuf spre ssuf hnd hcp hsp hc hs hun
    cases suf with
    | nil => simp at hl
    | cons f fs =>
    cases csuf with
    | nil => simp at hc
    | cons c cs =>
    cases ssuf with
    | nil => simp at hs
    | cons b bs =>
    simp only [List.length_cons, Nat.add_right_cancel_iff] at hl hc hs
    have hassoc : pre ++ f :: fs = (pre ++ [f]) ++ fs := by simp
    cases bit with
    | false =>
      -- an added field: absent from the stream, its slot is never written
      simp only [proj] at h hih hwt hun
      obtain ⟨csuf', ssuf', hl1, hl2, htw, hrs, ha1, ha2, hrun⟩ :=
        ih fs ovs ws hl h hdep hih hwt (fun g hg => hdo g (by simp [hg])) (pre ++ [f]) (cpre ++ [c]) cs (spre ++ [b]) bs
          (by rw [← hassoc]; exact hnd) (by simp [hcp]) (by simp [hsp]) hc hs hun
      refine ⟨c :: csuf', b :: ssuf', by simp [hl1], by simp [hl2], by simpa [proj] using htw, by simpa [proj] using hrs,
        by simp [added, ha1], by simp [added, ha2], ?_⟩
      intro ms gas rest hm hg
      have := hrun ms gas rest (by rw [← hassoc]; exact hm) hg
      simp only [List.append_assoc, List.singleton_append] at this
      rw [hassoc]; simpa using this
    | true =>
      simp only [proj] at h hih hwt hun
      cases ovs with
      | nil => simp [toWFields] at h
      | cons v vs =>
      simp only [IHu] at hih
      simp only [WTFields] at hwt
      simp only [Unset] at hun
      obtain ⟨hopt, hreq, hid, hwtr⟩ := hwt
      simp only [toWFields] at h
      split at h
      · -- skipped
        rename_i hcond
        simp only [Bool.and_eq_true, decide_eq_true_eq, Bool.not_eq_true'] at hcond
        obtain ⟨csuf', ssuf', hl1, hl2, htw, hrs, ha1, ha2, hrun⟩ :=
          ih fs vs ws hl h hdep hih.2 hwtr (fun g hg => hdo g (by simp [hg])) (pre ++ [f]) (cpre ++ [c]) cs (spre ++ [b]) bs
            (by rw [← hassoc]; exact hnd) (by simp [hcp]) (by simp [hsp]) hc hs hun.2
        refine ⟨c :: csuf', b :: ssuf', by simp [hl1], by simp [hl2], ?_, ?_, by simp [added, ha1], by simp [added, ha2], ?_⟩
        · simp only [proj, toWFields]
          have : isSet f c = false := hun.1 hcond.1
          simp [hcond.1, this, htw]
        · simp only [proj, ReqSeen]
          exact ⟨fun e => (by rw [hcond.1] at e; cases e), hrs⟩
        · intro ms gas rest hm hg
          have := hrun ms gas rest (by rw [← hassoc]; exact hm) hg
          simp only [List.append_assoc, List.singleton_append] at this
          rw [hassoc]; simpa using this
      · -- written
        rename_i hcond
        simp only [Res.bind_eq_ok] at h
        obtain ⟨w, hw, ws', hws', hcons⟩ := h
        cases hcons
        simp only [depthFields] at hdep
        have hwtv : WT P.structs f.ty v := by
          by_cases ho : f.req = .optional
          · rcases hopt ho with hn | hw'
            · simp [ho, hn.2] at hcond
            · exact hw'
          · exact hreq ho
        obtain ⟨_, htt⟩ := toW_WF P v f.ty w hwtv hw
        obtain ⟨v', hrd, htw', hnn, hidv⟩ := hih.1 w hwtv hw (by omega)
        obtain ⟨csuf', ssuf', hl1, hl2, htw, hrs, ha1, ha2, hrun⟩ :=
          ih fs vs ws' hl hws' (by omega) hih.2 hwtr (fun g hg => hdo g (by simp [hg])) (pre ++ [f]) (cpre ++ [v']) cs (spre ++ [true]) bs
            (by rw [← hassoc]; exact hnd) (by simp [hcp]) (by simp [hsp]) hc hs hun.2
        refine ⟨v' :: csuf', true :: ssuf', by simp [hl1], by simp [hl2], ?_, ?_, by simp [added, ha1], by simp [added, ha2], ?_⟩
        · simp only [proj, toWFields]
          have hnc : (f.req = .optional && !isSet f v') = false := by
            by_cases ho : f.req = .optional
            · have hsv : isSet f v = true := by
                cases hh : isSet f v
                · simp [ho, hh] at hcond
                · rfl
              have := isSet_readback P f v v' w (hdo f (by simp)) ho hsv hw htw' hnn hidv
              simp [this]
            · simp [ho]
          simp only [hnc, htw', htw]
          rfl
        · simp only [proj, ReqSeen]
          exact ⟨fun _ => trivial, hrs⟩
        · intro ms gas rest hm hg
          obtain ⟨us, ms', e, hus, halt⟩ := Mixed.split (pre ++ f :: fs) _ ms hm
          rcases halt with ⟨he, _⟩ | ⟨x, ws2, ms'', hx, hms', hm''⟩
          · cases he
          · cases hx
            subst hms'
            subst e
            simp only [List.length_append, List.length_cons] at hg ⊢
            have hc0 : w.ttype.code ≠ 0 := by have := TType.code_pos w.ttype; omega
            have hidlt : idOf f < 256 ^ 2 := by
              have := pat_lt 16 f.id; have := pow256.2.1; simp only [idOf]; omega
            have hff := findField_append pre f fs hnd
            have hset1 : (cpre ++ c :: cs).set pre.length v' = cpre ++ v' :: cs := by
              rw [← hcp]; exact set_append_len cpre c cs v'
            have hset2 : (spre ++ b :: bs).set pre.length true = spre ++ true :: bs := by
              rw [← hsp]; exact set_append_len spre b bs true
            have hsk := run_unknowns rd (pre ++ f :: fs) us hus (gas - us.length) (encFields ((pat 16 f.id, w) :: ms'') ++ rest)
              (cpre ++ c :: cs) (spre ++ b :: bs)
            have eg : gas - us.length + us.length = gas := by omega
            rw [eg] at hsk
            rw [encFields_append, List.append_assoc, hsk]
            obtain ⟨g, hgg⟩ : ∃ g, gas - us.length = g + 1 := ⟨gas - us.length - 1, by omega⟩
            rw [hgg]
            simp only [encFields, List.append_assoc, List.cons_append, List.nil_append, readFieldsWith, hc0, if_false]
            have hid' : pat 16 f.id = idOf f := rfl
            rw [hid', readN_be 2 (idOf f) _ hidlt]
            simp only [hff, htt, if_true, hrd, hset1, hset2]
            have := hrun ms'' g rest (by rw [← hassoc]; exact hm'') (by omega)
            simp only [List.append_assoc, List.singleton_append] at this
            rw [hassoc]
            have hgl : gas - (us.length + (ms''.length + 1)) = g - ms''.length := by omega
            rw [hgl]
            simpa using this

theorem Unset_proj : ∀ (mask : List Bool) (defs : List FieldDef) (cs : List GoVal),
    Unset defs cs → Unset (proj mask defs) (proj mask cs)
  | [], _, _, _ => by simp [proj, Unset]
  | _ :: _, [], _, _ => by simp [proj, Unset]
  | _ :: _, _ :: _, [], _ => by simp [proj, Unset]
  | true :: m, f :: fs, c :: cs, h => by
    simp only [Unset] at h; simp only [proj, Unset]; exact ⟨h.1, Unset_proj m fs cs h.2⟩
  | false :: m, f :: fs, c :: cs, h => by
    simp only [Unset] at h; simp only [proj]; exact Unset_proj m fs cs h.2

theorem requiredOk_of_proj : ∀ (mask : List Bool) (defs : List FieldDef) (seen : List Bool),
    mask.length = defs.length → seen.length = defs.length →
    ReqSeen (proj mask defs) (proj mask seen) → (∀ g ∈ added mask defs, g.req ≠ .required) →
    requiredOk defs seen = true
  | [], [], _, _, _, _, _ => by simp [requiredOk]
  | [], _ :: _, _, h, _, _, _ => by simp at h
  | _ :: _, [], _, h, _, _, _ => by simp at h
  | _ :: _, _ :: _, [], _, h, _, _ => by simp at h
  | true :: m, f :: fs, b :: bs, h1, h2, hr, ha => by
    simp only [proj, ReqSeen] at hr
    simp only [added] at ha
    simp only [List.length_cons, Nat.add_right_cancel_iff] at h1 h2
    simp only [requiredOk, Bool.and_eq_true, Bool.or_eq_true, bne_iff_ne, ne_eq]
    refine ⟨?_, requiredOk_of_proj m fs bs h1 h2 hr.2 ha⟩
    by_cases hq : f.req = .required
    · exact Or.inr (hr.1 hq)
    · exact Or.inl hq
  | false :: m, f :: fs, b :: bs, h1, h2, hr, ha => by
    simp only [proj] at hr
    simp only [added, List.mem_cons, forall_eq_or_imp] at ha
    simp only [List.length_cons, Nat.add_right_cancel_iff] at h1 h2
    simp only [requiredOk, Bool.and_eq_true, Bool.or_eq_true, bne_iff_ne, ne_eq]
    exact ⟨Or.inl ha.1, requiredOk_of_proj m fs bs h1 h2 hr ha.2⟩

/-- **new reads old** (one struct level): code generated from the NEW struct (old + added optional or
default fields) reads what code generated from the OLD struct wrote; every common field keeps its
wire value and every added field holds its initial value (declared default, else zero/nil). -/
theorem new_reads_old (P : Prog) (hP : SchemaOK P) (hv : P.validateSet = false) (iNew : Nat)
    (sdOld sdNew : StructDef) (mask : List Bool) (us : List GoVal) (wsO : List (Nat × WVal)) (f : Nat)
    (hN : P.structs[iNew]? = some sdNew) (hl : mask.length = sdNew.fields.length)
    (hproj : proj mask sdNew.fields = sdOld.fields)
    (hadd : ∀ g ∈ added mask sdNew.fields, g.req ≠ .required)
    (hwt : WTFields P.structs sdOld.fields us) (hw : toWFields P sdOld.fields us = .ok wsO)
    (hd : depthFields wsO ≤ f) :
    ∃ fs', (∀ r, readTy P.structs (f + 1) (.struct iNew) (encFields wsO ++ 0 :: r) = some (.strct fs', r)) ∧
      toWFields P sdOld.fields (proj mask fs') = .ok wsO ∧ added mask fs' = added mask (initVals sdNew) := by
  obtain ⟨hnd, hdo, hun, _⟩ := hP iNew sdNew hN
  have hih : IHu P (readTy P.structs f) f (proj mask sdNew.fields) us := by
    rw [hproj]
    exact IHu_of_IHs P (readTy P.structs f) (readTy_append P.structs f) f sdOld.fields us (rtFields P hP hv us sdOld.fields f)
  obtain ⟨csuf', ssuf', hl1, hl2, htw, hrs, ha1, _, hrun⟩ :=
    loop_rt_sub P (readTy P.structs f) f mask sdNew.fields us wsO hl (by rw [hproj]; exact hw) hd hih
      (by rw [hproj]; exact hwt) hdo [] [] (initVals sdNew) [] (sdNew.fields.map fun _ => false)
      (by simpa using hnd) rfl rfl (by simp [initVals]) (by simp) (Unset_proj mask _ _ hun)
  refine ⟨csuf', ?_, by rw [← hproj]; exact htw, ha1⟩
  intro r
  have hro := requiredOk_of_proj mask sdNew.fields ssuf' hl hl2 hrs hadd
  have hlen : wsO.length < (encFields wsO ++ 0 :: r).length + 1 := by
    have := encFields_length wsO; simp; omega
  have := hrun wsO ((encFields wsO ++ 0 :: r).length + 1) (0 :: r) (by simpa using Mixed.refl _ wsO) hlen
  obtain ⟨g, hg⟩ : ∃ g, (encFields wsO ++ 0 :: r).length + 1 - wsO.length = g + 1 :=
    ⟨(encFields wsO ++ 0 :: r).length - wsO.length, by omega⟩
  simp only [readTy, hN, newX_eq]
  simp only [List.nil_append] at this
  rw [this, hg]
  simp [readFieldsWith, hro]

end Gen.Evolve
