import ThriftVerif.Gen.Std
import ThriftVerif.Generated.C10
/-
  Gen/Fast: what the code written by the fastgo backend computes
  (generator/fastgo/gen_blength.go, gen_fastwrite.go, gen_fastread.go, consts.go, utils.go), together with
  the primitives of the runtime library it is linked with (cloudwego/gopkg v0.2.0 protocol/thrift
  BinaryProtocol: Read*/Append*/Skip), over `Core.Wire` and `Gen.Schema`.

  * `blength`   — genBLength*: fields sorted by id, optional-skip rules, `off += 3` per header, fixed-size
                  fast paths `len * size`, `len * (ksz+vsz)`, `len * ksz` + loop over the other side.
  * `fastWrite` — genFastAppend*: same field order and skip rules, header `append(b, wiretype, id>>8, id)`,
                  container headers from `category2GopkgConsts`, NO union check, NO set validation,
                  nil struct pointer = a single STOP byte.
  * `fastRead`  — genFastRead*: `for { ReadFieldBegin(b[off:]) … switch uint32(fid)<<8|uint32(ftyp) … default: Skip }`,
                  required bitset checked after the loop; every `b[off:]` is an explicit `slice` whose
                  out-of-range case is the outcome `panic 2`; the runtime's `Skip` is modelled statement by
                  statement (`Gopkg.skipType`), including `typeToSize[t]` with `TType = int8` (a type byte ≥ 0x80 is a
                  negative index: outcome `panic 1`) and the unchecked length it answers for a map whose
                  last value is fixed-size.
  The tables come from `Generated.C10` (regenerated from /repo on every run).
-/
namespace Gen.Fast
open Wire Gen

/-- outcome of running generated code; `panic 1` = index out of range (`typeToSize[t]`, negative `int8` type),
`panic 2` = slice bounds out of range (`b[off:]` with `off > len(b)`) -/
inductive FRes (α : Type)
  | ok (a : α) | err | panic (why : Nat)
  deriving Repr

instance : Monad FRes where
  pure := .ok
  bind r f := match r with | .ok a => f a | .err => .err | .panic w => .panic w

def FRes.ofOption {α} : Option α → FRes α
  | some a => .ok a
  | none => .err

/-! ### tables (consts.go, utils.go) -/

/-- `parser.Category` of a resolved type -/
def catOf (P : Prog) : Ty → Nat
  | .bool => Generated.C10.catBool | .i8 => Generated.C10.catByte | .i16 => Generated.C10.catI16
  | .i32 => Generated.C10.catI32 | .i64 => Generated.C10.catI64 | .dbl => Generated.C10.catDouble
  | .str => Generated.C10.catString | .bin => Generated.C10.catBinary | .enum => Generated.C10.catEnum
  | .map _ _ => Generated.C10.catMap | .list _ => Generated.C10.catList | .set _ => Generated.C10.catSet
  | .struct i => match P.struct? i with
    | some sd => if sd.kind = 1 then Generated.C10.catUnion else if sd.kind = 2 then Generated.C10.catException
                 else Generated.C10.catStruct
    | none => Generated.C10.catStruct

/-- `category2ThriftWireType[t.Category]` -/
def wireTypeOf (P : Prog) (ty : Ty) : Nat := Generated.C10.category2ThriftWireType.getD (catOf P ty) 0
/-- `category2GopkgConsts[t.Category]` (as a TType code) -/
def gopkgTypeOf (P : Prog) (ty : Ty) : Nat := Generated.C10.category2GopkgConsts.getD (catOf P ty) 0
/-- `category2WireSize[t.Category]` -/
def wireSizeOf (P : Prog) (ty : Ty) : Nat := Generated.C10.category2WireSize.getD (catOf P ty) 0
/-- utils.go `isContainerType` -/
def isContainerType (P : Prog) (ty : Ty) : Bool := Generated.C10.containerCats.contains (catOf P ty)

/-- `f.GoTypeName().IsPointer()` (golang.NeedRedirect): struct-likes, and optional non-binary base types
without a default -/
def isPointerField (f : FieldDef) : Bool :=
  match f.ty with
  | .struct _ => true
  | .list _ | .set _ | .map _ _ | .bin => false
  | _ => f.req = .optional && f.dflt.isNone

/-- the guard emitted around an OPTIONAL field by genBLengthField and genFastAppendField (identical text):
case 0 (only when the code writer has it, `cmp`; see `Generated.C10.optBinDefaultCmp*`) an optional binary field
with a default: `if string(p.F) != string(<default>)`, the `IsSet<F>` of the standard code;
case 1 `if p.F != nil` (pointer or container type), case 2 `if p.F != <default>`, otherwise no guard -/
def optWritten (cmp : Bool) (P : Prog) (f : FieldDef) (v : GoVal) : Bool :=
  if cmp && decide (catOf P f.ty = Generated.C10.catBinary) && f.dflt.isSome then
    match f.dflt with
    | some d => Std.neDefault f.ty v d
    | none => true
  else if isPointerField f || isContainerType P f.ty then !goEq v .nil
  else match f.dflt with
    | some d => Std.neDefault f.ty v d
    | none => true

/-- is the field emitted at all -/
def written (cmp : Bool) (P : Prog) (f : FieldDef) (v : GoVal) : Bool := !(f.req = .optional) || optWritten cmp P f v

/-- insertion into a list sorted by field id -/
def insertField (x : FieldDef × GoVal) : List (FieldDef × GoVal) → List (FieldDef × GoVal)
  | [] => [x]
  | y :: r => if x.1.id ≤ y.1.id then x :: y :: r else y :: insertField x r

def sortPairs : List (FieldDef × GoVal) → List (FieldDef × GoVal)
  | [] => []
  | x :: r => insertField x (sortPairs r)

/-- getSortedFields (`sort.Slice` by `ID`; field ids are pairwise distinct, so the result does not depend on
the sorting algorithm): (field, value) pairs sorted by field id -/
def sortFields (defs : List FieldDef) (vals : List GoVal) : List (FieldDef × GoVal) :=
  sortPairs (defs.zip vals)

/-! ### BLength -/

def sumWith (g : GoVal → FRes Nat) : List GoVal → FRes Nat
  | [] => .ok 0
  | x :: r => do
      let a ← g x
      let b ← sumWith g r
      .ok (a + b)

def sumPairsWith (gk gv : GoVal → FRes Nat) : List (GoVal × GoVal) → FRes Nat
  | [] => .ok 0
  | (k, v) :: r => do
      let a ← gk k
      let b ← gv v
      let c ← sumPairsWith gk gv r
      .ok (a + b + c)

/-- genBLengthField over the sorted fields -/
def blengthFields (cmp : Bool) (P : Prog) (g : Ty → GoVal → FRes Nat) : List (FieldDef × GoVal) → FRes Nat
  | [] => .ok 0
  | (f, v) :: r =>
    if written cmp P f v then do
      let a ← g f.ty v
      let b ← blengthFields cmp P g r
      .ok (3 + a + b)
    else blengthFields cmp P g r

/-- genBLengthAny; the fuel bounds the nesting of the object (`.err` when exhausted or ill-shaped) -/
def blengthAny (cmp : Bool) (P : Prog) : Nat → Ty → GoVal → FRes Nat
  | 0, _, _ => .err
  | fuel+1, ty, v =>
    if 0 < wireSizeOf P ty then .ok (wireSizeOf P ty) else
    match ty, v with
    | .str, .bytes b => .ok (4 + b.length)
    | .bin, .bytes b => .ok (4 + b.length)
    | .bin, .nil => .ok 4
    | .list _, .nil => .ok 5
    | .set _, .nil => .ok 5
    | .list e, .list xs =>
        if 0 < wireSizeOf P e then .ok (5 + xs.length * wireSizeOf P e) else do
        let s ← sumWith (blengthAny cmp P fuel e) xs
        .ok (5 + s)
    | .set e, .list xs =>
        if 0 < wireSizeOf P e then .ok (5 + xs.length * wireSizeOf P e) else do
        let s ← sumWith (blengthAny cmp P fuel e) xs
        .ok (5 + s)
    | .map _ _, .nil => .ok 6
    | .map k w, .map kvs =>
        let ksz := wireSizeOf P k
        let vsz := wireSizeOf P w
        if 0 < ksz && 0 < vsz then .ok (6 + kvs.length * (ksz + vsz))
        else if 0 < ksz then do
          let s ← sumWith (blengthAny cmp P fuel w) (kvs.map (·.2))
          .ok (6 + kvs.length * ksz + s)
        else if 0 < vsz then do
          let s ← sumWith (blengthAny cmp P fuel k) (kvs.map (·.1))
          .ok (6 + kvs.length * vsz + s)
        else do
          let s ← sumPairsWith (blengthAny cmp P fuel k) (blengthAny cmp P fuel w) kvs
          .ok (6 + s)
    | .struct _, .nil => .ok 1
    | .struct i, .strct fs =>
        match P.struct? i with
        | some sd =>
            if sd.fields.length != fs.length then .err else do
            let s ← blengthFields cmp P (blengthAny cmp P fuel) (sortFields sd.fields fs)
            .ok (s + 1)
        | none => .err
    | _, _ => .err

/-- generated `BLength()` of the current generator -/
def blength (P : Prog) (fuel sidx : Nat) (obj : GoVal) : FRes Nat :=
  blengthAny Generated.C10.optBinDefaultCmpBLength P fuel (.struct sidx) obj

/-! ### FastAppend -/

def concatWith (g : GoVal → FRes Bytes) : List GoVal → FRes Bytes
  | [] => .ok []
  | x :: r => do
      let a ← g x
      let b ← concatWith g r
      .ok (a ++ b)

def concatPairsWith (gk gv : GoVal → FRes Bytes) : List (GoVal × GoVal) → FRes Bytes
  | [] => .ok []
  | (k, v) :: r => do
      let a ← gk k
      let b ← gv v
      let c ← concatPairsWith gk gv r
      .ok (a ++ b ++ c)

/-- genFastAppendField over the sorted fields: `append(b, wiretype, byte(id>>8), byte(id))` + value -/
def fastFields (cmp : Bool) (P : Prog) (g : Ty → GoVal → FRes Bytes) : List (FieldDef × GoVal) → FRes Bytes
  | [] => .ok []
  | (f, v) :: r =>
    if written cmp P f v then do
      let a ← g f.ty v
      let b ← fastFields cmp P g r
      .ok ([wireTypeOf P f.ty] ++ be 2 (pat 16 f.id) ++ a ++ b)
    else fastFields cmp P g r

/-- genFastAppendAny -/
def fastAny (cmp : Bool) (P : Prog) : Nat → Ty → GoVal → FRes Bytes
  | 0, _, _ => .err
  | fuel+1, ty, v =>
    match ty, v with
    | .bool, .bool b => .ok [if b then 1 else 0]
    | .i8, .int x => .ok (be 1 (pat 8 x))
    | .i16, .int x => .ok (be 2 (pat 16 x))
    | .i32, .int x => .ok (be 4 (pat 32 x))
    | .enum, .int x => .ok (be 4 (pat 32 x))
    | .i64, .int x => .ok (be 8 (pat 64 x))
    | .dbl, .dbl b => .ok (be 8 b)
    | .str, .bytes b => .ok (be 4 b.length ++ b)
    | .bin, .bytes b => .ok (be 4 b.length ++ b)
    | .bin, .nil => .ok (be 4 0)
    | .list e, .nil => .ok ([gopkgTypeOf P e] ++ be 4 0)
    | .set e, .nil => .ok ([gopkgTypeOf P e] ++ be 4 0)
    | .list e, .list xs => do
        let s ← concatWith (fastAny cmp P fuel e) xs
        .ok ([gopkgTypeOf P e] ++ be 4 xs.length ++ s)
    | .set e, .list xs => do
        let s ← concatWith (fastAny cmp P fuel e) xs
        .ok ([gopkgTypeOf P e] ++ be 4 xs.length ++ s)
    | .map k w, .nil => .ok ([gopkgTypeOf P k, gopkgTypeOf P w] ++ be 4 0)
    | .map k w, .map kvs => do
        let s ← concatPairsWith (fastAny cmp P fuel k) (fastAny cmp P fuel w) kvs
        .ok ([gopkgTypeOf P k, gopkgTypeOf P w] ++ be 4 kvs.length ++ s)
    | .struct _, .nil => .ok [0]
    | .struct i, .strct fs =>
        match P.struct? i with
        | some sd =>
            if sd.fields.length != fs.length then .err else do
            let s ← fastFields cmp P (fastAny cmp P fuel) (sortFields sd.fields fs)
            .ok (s ++ [0])
        | none => .err
    | _, _ => .err

/-- generated `FastAppend(nil)`, for either variant of the optional-binary-default guard -/
def fastWriteG (cmp : Bool) (P : Prog) (fuel sidx : Nat) (obj : GoVal) : FRes Bytes := fastAny cmp P fuel (.struct sidx) obj

/-- generated `FastAppend(nil)` of the current generator -/
def fastWrite (P : Prog) (fuel sidx : Nat) (obj : GoVal) : FRes Bytes :=
  fastWriteG Generated.C10.optBinDefaultCmpFastAppend P fuel sidx obj

/-- generated `FastWrite(buf)` with `len(buf) = BLength()`: `FastAppend(b[:0])`, panic if it outgrew `b` -/
def fastWriteInto (P : Prog) (fuel sidx : Nat) (obj : GoVal) : FRes Bytes := do
  let n ← blength P fuel sidx obj
  let bs ← fastWrite P fuel sidx obj
  if bs.length > n then .panic 3 else .ok bs

/-! ### the runtime library (cloudwego/gopkg protocol/thrift, BinaryProtocol) -/
namespace Gopkg

/-- `TType = int8`: a type byte ≥ 0x80 is negative -/
def neg (t : Nat) : Bool := 128 ≤ t

/-- `typeToSize[t]` (`[256]int8`): panics (index out of range) for a negative `t` -/
def typeToSize (t : Nat) : FRes Nat :=
  if neg t then .panic 1
  else .ok (if t = 2 ∨ t = 3 then 1 else if t = 6 then 2 else if t = 8 then 4 else if t = 4 ∨ t = 10 then 8 else 0)

/-- big-endian int32 at the head of `bs`, as its unsigned pattern (caller checks the length) -/
def u32 (bs : Bytes) : Nat := unbe (bs.take 4)

/-- `skipstr(p, e)`: consumed length or error -/
def skipstr (bs : Bytes) : Option Nat :=
  if 4 ≤ bs.length then
    let n := u32 bs
    if n ≥ maxSize then none            -- int32 < 0: errDataLength
    else if 4 + n ≤ bs.length then some (4 + n) else none
  else none

/-- one element inside a container/struct loop of `skipType`: fixed size without any bounds check,
strings through `skipstr`, everything else through the recursive call -/
def skipElem (rec : Nat → Bytes → FRes Nat) (sz t : Nat) (bs : Bytes) : FRes Nat :=
  if 0 < sz then .ok sz
  else if t = 11 then FRes.ofOption (skipstr bs)
  else rec t bs

/-- the `for j := 0; j < sz; j++` loop of the LIST/SET case; `i` is the running offset into `bs` -/
def listLoop (elem : Bytes → FRes Nat) : Nat → Nat → Bytes → FRes Nat
  | 0, i, _ => .ok i
  | n+1, i, bs =>
    if i ≥ bs.length then .err else do
    let vi ← elem (bs.drop i)
    listLoop elem n (i + vi) bs

/-- the loop of the MAP case -/
def mapLoop (ke ve : Bytes → FRes Nat) : Nat → Nat → Bytes → FRes Nat
  | 0, i, _ => .ok i
  | n+1, i, bs =>
    if i ≥ bs.length then .err else do
    let ki ← ke (bs.drop i)
    let i := i + ki
    if i ≥ bs.length then .err else do
    let vi ← ve (bs.drop i)
    mapLoop ke ve n (i + vi) bs

/-- the `for {}` loop of the STRUCT case; `gas` bounds the iterations (each consumes ≥ 1 byte) -/
def structLoop (rec : Nat → Bytes → FRes Nat) : Nat → Nat → Bytes → FRes Nat
  | 0, _, _ => .err
  | g+1, i, bs =>
    if i ≥ bs.length then .err else
    let ft := bs.getD i 0
    let i := i + 1
    if ft = 0 then .ok i else
    let i := i + 2
    if i ≥ bs.length then .err else do
    let sz ← typeToSize ft
    let fi ← skipElem rec sz ft (bs.drop i)
    structLoop rec g (i + fi) bs

/-- `skipType(p, e, t, maxdepth)` with `bs` = the bytes from `p` to `e`: the length it answers (which may
exceed `bs.length`, see the MAP loop), an error, or a panic -/
def skipType : Nat → Nat → Bytes → FRes Nat
  | 0, _, _ => .err                                   -- errDepthLimitExceeded
  | d+1, t, bs => do
    let n ← typeToSize t
    if 0 < n then (if n > bs.length then .err else .ok n)
    else if t = 11 then FRes.ofOption (skipstr bs)
    else if t = 13 then
      if 6 > bs.length then .err else
      let kt := bs.getD 0 0
      let vt := bs.getD 1 0
      let sz := u32 (bs.drop 2)
      if sz ≥ maxSize then .err else do
      let ksz ← typeToSize kt
      let vsz ← typeToSize vt
      if 0 < ksz && 0 < vsz then
        (if 6 + sz * (ksz + vsz) > bs.length then .err else .ok (6 + sz * (ksz + vsz)))
      else mapLoop (skipElem (skipType d) ksz kt) (skipElem (skipType d) vsz vt) sz 6 bs
    else if t = 14 ∨ t = 15 then
      if 5 > bs.length then .err else
      let vt := bs.getD 0 0
      let sz := u32 (bs.drop 1)
      if sz ≥ maxSize then .err else do
      let vsz ← typeToSize vt
      if 0 < vsz then (if 5 + sz * vsz > bs.length then .err else .ok (5 + sz * vsz))
      else listLoop (skipElem (skipType d) vsz vt) sz 5 bs
    else if t = 12 then structLoop (skipType d) (bs.length + 1) 0 bs
    else .err                                          -- unknown data type

/-- `BinaryProtocol.Skip(b, t)` (defaultRecursionDepth = 64) -/
def skip (t : Nat) (bs : Bytes) : FRes Nat :=
  if bs.length = 0 then .err else skipType 64 t bs

/-- `ReadFieldBegin`: (type byte, field id as unsigned 16-bit pattern, consumed) -/
def readFieldBegin : Bytes → Option (Nat × Nat × Nat)
  | [] => none
  | t :: r =>
    if t = 0 then some (0, 0, 1)
    else match r with
      | hi :: lo :: _ => some (t, hi * 256 + lo, 3)
      | _ => none

/-- `ReadI16/I32/I64/Double/Byte/Bool`: n bytes big endian -/
def readFixed (n : Nat) (bs : Bytes) : Option (Nat × Nat) :=
  if bs.length < n then none else some (unbe (bs.take n), n)

/-- `ReadListBegin/ReadSetBegin`: (size, 5); the element type is returned and ignored by the caller -/
def readListBegin (bs : Bytes) : Option (Nat × Nat) :=
  if bs.length < 5 then none else
  let sz := u32 (bs.drop 1)
  if sz ≥ maxSize then none else some (sz, 5)

/-- `ReadMapBegin`: (size, 6) -/
def readMapBegin (bs : Bytes) : Option (Nat × Nat) :=
  if bs.length < 6 then none else
  let sz := u32 (bs.drop 2)
  if sz ≥ maxSize then none else some (sz, 6)

/-- `ReadString/ReadBinary`: (bytes, 4 + n) -/
def readBin (bs : Bytes) : Option (Bytes × Nat) :=
  if bs.length < 4 then none else
  let n := u32 bs
  if n ≥ maxSize then none
  else if bs.length < 4 + n then none
  else some ((bs.drop 4).take n, 4 + n)

end Gopkg

/-! ### FastRead -/

/-- `off += l` followed by the next slice expression `b[off:]` (`rest` = the current `b[off:]`):
out of range = panic -/
def advance (rest : Bytes) (l : Nat) : FRes Bytes :=
  if l ≤ rest.length then .ok (rest.drop l) else .panic 2

/-- the switch key `uint32(fid)<<8 | uint32(ftyp)` for `fid : int16` (given as its unsigned pattern) and
`ftyp : int8` (given as the byte) -/
def switchKey (fid ftyp : Nat) : Nat :=
  if Gopkg.neg ftyp then 4294967040 + ftyp                       -- sign extension: 0xFFFFFF00 | ftyp
  else (pat 32 (unpat 16 fid) * 256) % 4294967296 + ftyp

/-- the case constant `uint32(f.ID)<<8 | uint32(category2ThriftWireType[cat])` -/
def caseKey (P : Prog) (f : FieldDef) : Nat := (pat 32 f.id * 256) % 4294967296 + wireTypeOf P f.ty

/-- the matching `case` of the switch: schema position and definition of the field -/
def findCase (P : Prog) (defs : List FieldDef) (key : Nat) : Option (Nat × FieldDef) :=
  go defs 0
where go : List FieldDef → Nat → Option (Nat × FieldDef)
  | [], _ => none
  | f :: r, i => if caseKey P f = key then some (i, f) else go r (i + 1)

def readElems (d : Bytes → FRes (GoVal × Bytes)) : Nat → Bytes → FRes (List GoVal × Bytes)
  | 0, bs => .ok ([], bs)
  | n+1, bs => do
      let (x, r) ← d bs
      let (xs, r') ← readElems d n r
      .ok (x :: xs, r')

def readPairs (dk dv : Bytes → FRes (GoVal × Bytes)) : Nat → Bytes → FRes (List (GoVal × GoVal) × Bytes)
  | 0, bs => .ok ([], bs)
  | n+1, bs => do
      let (k, r) ← dk bs
      let (v, r') ← dv r
      let (kvs, r'') ← readPairs dk dv n r'
      .ok ((k, v) :: kvs, r'')

/-- `x, l, err = x.ReadXxx(b[off:]); off += l; if err != nil { goto ReadFieldError }` for a fixed-size type -/
def readFixedVal (n : Nat) (mk : Nat → GoVal) (rest : Bytes) : FRes (GoVal × Bytes) :=
  match Gopkg.readFixed n rest with
  | none => .err
  | some (x, l) => do
      let rest' ← advance rest l
      .ok (mk x, rest')

/-- the `for { ftyp, fid, l, err = x.ReadFieldBegin(b[off:]) … }` loop of genFastRead, parameterised by the
runtime's Skip; `cur` = the object under construction (schema order), `seen` = the required bitset -/
def fastFieldsWith (skip : Nat → Bytes → FRes Nat) (P : Prog) (rd : Ty → Bytes → FRes (GoVal × Bytes))
    (defs : List FieldDef) : Nat → Bytes → List GoVal → List Bool → FRes (List GoVal × Bytes)
  | 0, _, _, _ => .err
  | g+1, rest, cur, seen =>
    match Gopkg.readFieldBegin rest with
    | none => .err
    | some (ftyp, fid, l) => do
      let rest ← advance rest l
      if ftyp = 0 then (if Std.requiredOk defs seen then .ok (cur, rest) else .err) else
      match findCase P defs (switchKey fid ftyp) with
      | some (j, f) => do
          let (v, rest') ← rd f.ty rest
          fastFieldsWith skip P rd defs g rest' (cur.set j v) (seen.set j true)
      | none => do
          let l ← skip ftyp rest
          let rest' ← advance rest l
          fastFieldsWith skip P rd defs g rest' cur seen

/-- genFastReadAny; the fuel bounds the nesting (the caller passes the input length + 1) -/
def fastReadTyWith (skip : Nat → Bytes → FRes Nat) (P : Prog) : Nat → Ty → Bytes → FRes (GoVal × Bytes)
  | 0, _, _ => .err
  | f+1, ty, rest =>
    match ty with
    | .bool => readFixedVal 1 (fun x => .bool (x == 1)) rest
    | .i8 => readFixedVal 1 (fun x => .int (unpat 8 x)) rest
    | .i16 => readFixedVal 2 (fun x => .int (unpat 16 x)) rest
    | .i32 => readFixedVal 4 (fun x => .int (unpat 32 x)) rest
    | .enum => readFixedVal 4 (fun x => .int (unpat 32 x)) rest
    | .i64 => readFixedVal 8 (fun x => .int (unpat 64 x)) rest
    | .dbl => readFixedVal 8 (fun x => .dbl x) rest
    | .str | .bin =>
        match Gopkg.readBin rest with
        | none => .err
        | some (b, l) => do
            let rest' ← advance rest l
            .ok (.bytes b, rest')
    | .list e | .set e =>
        match Gopkg.readListBegin rest with
        | none => .err
        | some (sz, l) => do
            let rest' ← advance rest l
            let (xs, r) ← readElems (fastReadTyWith skip P f e) sz rest'
            .ok (.list xs, r)
    | .map k w =>
        match Gopkg.readMapBegin rest with
        | none => .err
        | some (sz, l) => do
            let rest' ← advance rest l
            let (kvs, r) ← readPairs (fastReadTyWith skip P f k) (fastReadTyWith skip P f w) sz rest'
            .ok (.map (Std.mapOfPairs k kvs), r)
    | .struct i =>
        match P.struct? i with
        | none => .err
        | some sd =>
          match newX sd with
          | .strct init => do
              let (fs, r) ← fastFieldsWith skip P (fastReadTyWith skip P f) sd.fields (rest.length + 1) rest init
                (sd.fields.map fun _ => false)
              .ok (.strct fs, r)
          | _ => .err

/-- generated `FastRead` into a fresh `NewX()`: the object and the number of bytes consumed -/
def fastReadWith (skip : Nat → Bytes → FRes Nat) (P : Prog) (sidx : Nat) (bs : Bytes) : FRes (GoVal × Nat) := do
  let (v, r) ← fastReadTyWith skip P (bs.length + 1) (.struct sidx) bs
  .ok (v, bs.length - r.length)

/-- generated `FastRead` into an object the caller already holds (`cur`, e.g. a recycled object or one another message
was read into): the loop starts from its fields instead of `NewX()`'s; nested struct-likes are still built by `NewT()`,
containers by `make`. `fastReadWith … = fastReadIntoWith … (newX sd)`. -/
def fastReadIntoWith (skip : Nat → Bytes → FRes Nat) (P : Prog) (sidx : Nat) (cur : GoVal) (bs : Bytes) : FRes (GoVal × Nat) :=
  match P.struct? sidx, cur with
  | some sd, .strct fs => do
      let (fs', r) ← fastFieldsWith skip P (fastReadTyWith skip P bs.length) sd.fields (bs.length + 1) bs fs
        (sd.fields.map fun _ => false)
      .ok (.strct fs', bs.length - r.length)
  | _, _ => .err

/-- the standard generated `Read` (Gen.Std) into an object the caller already holds -/
def stdReadInto (P : Prog) (sidx : Nat) (cur : GoVal) (bs : Bytes) : Option GoVal :=
  match P.struct? sidx, cur with
  | some sd, .strct fs =>
      (Std.readFieldsWith (Std.readTy P.structs bs.length) sd.fields (bs.length + 1) bs fs (sd.fields.map fun _ => false)).map
        fun (fs', _) => .strct fs'
  | _, _ => none

/-- the skip path of the `default:` branch as the code writer emits it: optionally `if ftyp < 0 {error}` before the
call, optionally the call wrapped in a function literal whose deferred `recover()` turns a panic into an error,
optionally `if off > len(b) {error}` after `off += l`; with no guard it is gopkg's Skip itself -/
def guardedSkip (negGuard recov lenGuard : Bool) (t : Nat) (bs : Bytes) : FRes Nat :=
  if negGuard && Gopkg.neg t then .err else
  match Gopkg.skip t bs with
  | .panic w => if recov then .err else .panic w
  | .err => .err
  | .ok l => if lenGuard && decide (l > bs.length) then .err else .ok l

/-- FastRead of the code written by a generator with the given guards, linked with gopkg v0.2.0 -/
def fastReadG (negGuard recov lenGuard : Bool) (P : Prog) (sidx : Nat) (bs : Bytes) : FRes (GoVal × Nat) :=
  fastReadWith (guardedSkip negGuard recov lenGuard) P sidx bs

/-- the skip path of the current generator -/
def curSkip : Nat → Bytes → FRes Nat :=
  guardedSkip Generated.C10.guardNegativeType Generated.C10.guardRecover Generated.C10.guardSkipLength

/-- FastRead of the current generator into an object the caller holds -/
def fastReadInto (P : Prog) (sidx : Nat) (cur : GoVal) (bs : Bytes) : FRes (GoVal × Nat) := fastReadIntoWith curSkip P sidx cur bs

/-- FastRead of the current generator -/
def fastRead (P : Prog) (sidx : Nat) (bs : Bytes) : FRes (GoVal × Nat) := fastReadWith curSkip P sidx bs

end Gen.Fast
