import ThriftVerif.Gen.Fast
import ThriftVerif.Gen.StdLemmas
/- helper lemmas about Gen.Fast for Props/C10: the regenerated tables, BLength = length of FastAppend -/
set_option maxRecDepth 2000
namespace Gen.Fast
open Wire Gen


/-- the fixed wire size of a type per the Thrift binary protocol (0 = variable length) -/
def fixedSize : Ty → Nat
  | .bool => 1 | .i8 => 1 | .i16 => 2 | .i32 => 4 | .enum => 4 | .i64 => 8 | .dbl => 8
  | _ => 0

theorem wireTypeOf_eq (P : Prog) (ty : Ty) : wireTypeOf P ty = ty.ttype.code := by
  cases ty <;> try rfl
  case struct i =>
    simp only [wireTypeOf, catOf]
    cases P.struct? i with
    | none => rfl
    | some sd => simp only []; split
                 · rfl
                 · split <;> rfl

theorem gopkgTypeOf_eq (P : Prog) (ty : Ty) : gopkgTypeOf P ty = ty.ttype.code := by
  cases ty <;> try rfl
  case struct i =>
    simp only [gopkgTypeOf, catOf]
    cases P.struct? i with
    | none => rfl
    | some sd => simp only []; split
                 · rfl
                 · split <;> rfl

theorem wireSizeOf_eq (P : Prog) (ty : Ty) : wireSizeOf P ty = fixedSize ty := by
  cases ty <;> try rfl
  case struct i =>
    simp only [wireSizeOf, catOf]
    cases P.struct? i with
    | none => rfl
    | some sd => simp only []; split
                 · rfl
                 · split <;> rfl

theorem isContainerType_eq (P : Prog) (ty : Ty) :
    isContainerType P ty = (match ty with | .map _ _ | .list _ | .set _ | .bin => true | _ => false) := by
  cases ty <;> try rfl
  case struct i =>
    simp only [isContainerType, catOf]
    cases P.struct? i with
    | none => rfl
    | some sd => simp only []; split
                 · rfl
                 · split <;> rfl

theorem FRes.bind_eq_ok {α β} (x : FRes α) (f : α → FRes β) (b : β) :
    (x >>= f) = .ok b ↔ ∃ a, x = .ok a ∧ f a = .ok b := by
  cases x <;> simp [bind]

theorem FRes.ok_inj {α} (a b : α) : (FRes.ok a = FRes.ok b) ↔ a = b := by
  constructor
  · intro h; cases h; rfl
  · intro h; rw [h]

theorem concatWith_sum (g : GoVal → FRes Bytes) (h : GoVal → FRes Nat) :
    ∀ (xs : List GoVal) (bs : Bytes), (∀ x ∈ xs, ∀ b, g x = .ok b → h x = .ok b.length) →
      concatWith g xs = .ok bs → sumWith h xs = .ok bs.length := by
  intro xs
  induction xs with
  | nil => intro bs _ hc; simp [concatWith] at hc; cases hc; simp [sumWith]
  | cons x r ih =>
    intro bs hp hc
    simp only [concatWith, FRes.bind_eq_ok] at hc
    obtain ⟨a, ha, b, hb, hab⟩ := hc
    cases hab
    have h1 := hp x (by simp) a ha
    have h2 := ih b (fun y hy => hp y (by simp [hy])) hb
    simp [sumWith, h1, h2, bind]

theorem concatWith_fixed (g : GoVal → FRes Bytes) (n : Nat) :
    ∀ (xs : List GoVal) (bs : Bytes), (∀ x ∈ xs, ∀ b, g x = .ok b → b.length = n) →
      concatWith g xs = .ok bs → bs.length = xs.length * n := by
  intro xs
  induction xs with
  | nil => intro bs _ hc; simp [concatWith] at hc; cases hc; simp
  | cons x r ih =>
    intro bs hp hc
    simp only [concatWith, FRes.bind_eq_ok] at hc
    obtain ⟨a, ha, b, hb, hab⟩ := hc
    cases hab
    have h1 := hp x (by simp) a ha
    have h2 := ih b (fun y hy => hp y (by simp [hy])) hb
    simp [h1, h2, Nat.add_mul]; omega


theorem concatPairs_sum (gk gv : GoVal → FRes Bytes) (hk hv : GoVal → FRes Nat) :
    ∀ (kvs : List (GoVal × GoVal)) (bs : Bytes),
      (∀ p ∈ kvs, ∀ b, gk p.1 = .ok b → hk p.1 = .ok b.length) →
      (∀ p ∈ kvs, ∀ b, gv p.2 = .ok b → hv p.2 = .ok b.length) →
      concatPairsWith gk gv kvs = .ok bs → sumPairsWith hk hv kvs = .ok bs.length := by
  intro kvs
  induction kvs with
  | nil => intro bs _ _ hc; simp [concatPairsWith] at hc; cases hc; simp [sumPairsWith]
  | cons p r ih =>
    obtain ⟨k, v⟩ := p
    intro bs h1 h2 hc
    simp only [concatPairsWith, FRes.bind_eq_ok] at hc
    obtain ⟨a, ha, b, hb, c, hc', habc⟩ := hc
    cases habc
    have e1 := h1 (k, v) (by simp) a ha
    have e2 := h2 (k, v) (by simp) b hb
    have e3 := ih c (fun q hq => h1 q (by simp [hq])) (fun q hq => h2 q (by simp [hq])) hc'
    try dsimp only at e1 e2
    simp [sumPairsWith, e1, e2, e3, bind]; omega

theorem concatPairs_keyfixed (gk gv : GoVal → FRes Bytes) (hv : GoVal → FRes Nat) (n : Nat) :
    ∀ (kvs : List (GoVal × GoVal)) (bs : Bytes),
      (∀ p ∈ kvs, ∀ b, gk p.1 = .ok b → b.length = n) →
      (∀ p ∈ kvs, ∀ b, gv p.2 = .ok b → hv p.2 = .ok b.length) →
      concatPairsWith gk gv kvs = .ok bs →
      ∃ s, sumWith hv (kvs.map (·.2)) = .ok s ∧ bs.length = kvs.length * n + s := by
  intro kvs
  induction kvs with
  | nil => intro bs _ _ hc; simp [concatPairsWith] at hc; cases hc; exact ⟨0, by simp [sumWith], by simp⟩
  | cons p r ih =>
    obtain ⟨k, v⟩ := p
    intro bs h1 h2 hc
    simp only [concatPairsWith, FRes.bind_eq_ok] at hc
    obtain ⟨a, ha, b, hb, c, hc', habc⟩ := hc
    cases habc
    have e1 := h1 (k, v) (by simp) a ha
    have e2 := h2 (k, v) (by simp) b hb
    obtain ⟨s, hs, hl⟩ := ih c (fun q hq => h1 q (by simp [hq])) (fun q hq => h2 q (by simp [hq])) hc'
    try dsimp only at e1 e2
    refine ⟨b.length + s, by simp [sumWith, e2, hs, bind], ?_⟩
    simp [e1, hl, Nat.add_mul]; omega

theorem concatPairs_valfixed (gk gv : GoVal → FRes Bytes) (hk : GoVal → FRes Nat) (n : Nat) :
    ∀ (kvs : List (GoVal × GoVal)) (bs : Bytes),
      (∀ p ∈ kvs, ∀ b, gk p.1 = .ok b → hk p.1 = .ok b.length) →
      (∀ p ∈ kvs, ∀ b, gv p.2 = .ok b → b.length = n) →
      concatPairsWith gk gv kvs = .ok bs →
      ∃ s, sumWith hk (kvs.map (·.1)) = .ok s ∧ bs.length = kvs.length * n + s := by
  intro kvs
  induction kvs with
  | nil => intro bs _ _ hc; simp [concatPairsWith] at hc; cases hc; exact ⟨0, by simp [sumWith], by simp⟩
  | cons p r ih =>
    obtain ⟨k, v⟩ := p
    intro bs h1 h2 hc
    simp only [concatPairsWith, FRes.bind_eq_ok] at hc
    obtain ⟨a, ha, b, hb, c, hc', habc⟩ := hc
    cases habc
    have e1 := h1 (k, v) (by simp) a ha
    have e2 := h2 (k, v) (by simp) b hb
    obtain ⟨s, hs, hl⟩ := ih c (fun q hq => h1 q (by simp [hq])) (fun q hq => h2 q (by simp [hq])) hc'
    try dsimp only at e1 e2
    refine ⟨a.length + s, by simp [sumWith, e1, hs, bind], ?_⟩
    simp [e2, hl, Nat.add_mul]; omega

theorem concatPairs_fixed (gk gv : GoVal → FRes Bytes) (n m : Nat) :
    ∀ (kvs : List (GoVal × GoVal)) (bs : Bytes),
      (∀ p ∈ kvs, ∀ b, gk p.1 = .ok b → b.length = n) →
      (∀ p ∈ kvs, ∀ b, gv p.2 = .ok b → b.length = m) →
      concatPairsWith gk gv kvs = .ok bs → bs.length = kvs.length * (n + m) := by
  intro kvs
  induction kvs with
  | nil => intro bs _ _ hc; simp [concatPairsWith] at hc; cases hc; simp
  | cons p r ih =>
    obtain ⟨k, v⟩ := p
    intro bs h1 h2 hc
    simp only [concatPairsWith, FRes.bind_eq_ok] at hc
    obtain ⟨a, ha, b, hb, c, hc', habc⟩ := hc
    cases habc
    have e1 := h1 (k, v) (by simp) a ha
    have e2 := h2 (k, v) (by simp) b hb
    have e3 := ih c (fun q hq => h1 q (by simp [hq])) (fun q hq => h2 q (by simp [hq])) hc'
    try dsimp only at e1 e2
    simp [e1, e2, e3, Nat.add_mul]; omega

theorem fastFields_blength (c : Bool) (P : Prog) (g : Ty → GoVal → FRes Bytes) (h : Ty → GoVal → FRes Nat) :
    ∀ (l : List (FieldDef × GoVal)) (bs : Bytes),
      (∀ p ∈ l, ∀ b, g p.1.ty p.2 = .ok b → h p.1.ty p.2 = .ok b.length) →
      fastFields c P g l = .ok bs → blengthFields c P h l = .ok bs.length := by
  intro l
  induction l with
  | nil => intro bs _ hc; simp [fastFields] at hc; cases hc; simp [blengthFields]
  | cons p r ih =>
    obtain ⟨f, v⟩ := p
    intro bs hp hc
    unfold fastFields at hc
    unfold blengthFields
    split at hc
    · rename_i hw
      simp only [FRes.bind_eq_ok] at hc
      obtain ⟨a, ha, b, hb, hab⟩ := hc
      cases hab
      have e1 := hp (f, v) (by simp) a ha
      have e2 := ih b (fun q hq => hp q (by simp [hq])) hb
      try dsimp only at e1
      simp [hw, e1, e2, bind, be_length]; omega
    · rename_i hw
      simp only [hw]
      exact ih bs (fun q hq => hp q (by simp [hq])) hc

theorem fastAny_fixed (c : Bool) (P : Prog) (fuel : Nat) (ty : Ty) (v : GoVal) (bs : Bytes) (hz : 0 < fixedSize ty)
    (h : fastAny c P (fuel + 1) ty v = .ok bs) : bs.length = fixedSize ty := by
  cases ty <;> simp [fixedSize] at hz <;> cases v <;> simp [fastAny] at h <;> subst h <;> simp [fixedSize, be_length]


theorem fixedSize_pos_cases (ty : Ty) : 0 < fixedSize ty ∨ fixedSize ty = 0 := by omega

theorem blengthAny_exact (c : Bool) (P : Prog) : ∀ (fuel : Nat) (ty : Ty) (v : GoVal) (bs : Bytes),
    fastAny c P fuel ty v = .ok bs → blengthAny c P fuel ty v = .ok bs.length := by
  intro fuel
  induction fuel with
  | zero => intro ty v bs h; simp [fastAny] at h
  | succ fuel ih =>
    intro ty v bs h
    rcases fixedSize_pos_cases ty with hz | hz
    · -- fixed-size categories: `off += sz`
      have hl := fastAny_fixed c P fuel ty v bs hz h
      unfold blengthAny
      simp [wireSizeOf_eq, hz, hl]
    · have hnz : ¬ 0 < wireSizeOf P ty := by rw [wireSizeOf_eq]; omega
      unfold blengthAny
      simp only [hnz, if_false]
      cases ty <;> simp [fixedSize] at hz <;> cases v <;> simp only [fastAny] at h <;>
        first
        | (cases h; done)
        | skip
      case str.bytes b => cases h; simp [be_length]
      case bin.nil => cases h; simp [be_length]
      case bin.bytes b => cases h; simp [be_length]
      case list.nil e => cases h; simp [be_length]
      case set.nil e => cases h; simp [be_length]
      case map.nil k w => cases h; simp [be_length]
      case struct.nil i => cases h; simp
      case list.list e xs =>
        simp only [FRes.bind_eq_ok] at h
        obtain ⟨s, hs, hb⟩ := h
        cases hb
        simp only []
        rcases fixedSize_pos_cases e with he | he
        · have hl := concatWith_fixed (fastAny c P fuel e) (fixedSize e) xs s
            (fun x _ b hb => by
              cases fuel with
              | zero => simp [fastAny] at hb
              | succ f => exact fastAny_fixed c P f e x b he hb) hs
          simp [wireSizeOf_eq, he, hl, be_length]; omega
        · have hs' := concatWith_sum (fastAny c P fuel e) (blengthAny c P fuel e) xs s (fun x _ b hb => ih e x b hb) hs
          simp [wireSizeOf_eq, he, hs', bind, be_length]; omega
      case set.list e xs =>
        simp only [FRes.bind_eq_ok] at h
        obtain ⟨s, hs, hb⟩ := h
        cases hb
        simp only []
        rcases fixedSize_pos_cases e with he | he
        · have hl := concatWith_fixed (fastAny c P fuel e) (fixedSize e) xs s
            (fun x _ b hb => by
              cases fuel with
              | zero => simp [fastAny] at hb
              | succ f => exact fastAny_fixed c P f e x b he hb) hs
          simp [wireSizeOf_eq, he, hl, be_length]; omega
        · have hs' := concatWith_sum (fastAny c P fuel e) (blengthAny c P fuel e) xs s (fun x _ b hb => ih e x b hb) hs
          simp [wireSizeOf_eq, he, hs', bind, be_length]; omega
      case map.map k w kvs =>
        simp only [FRes.bind_eq_ok] at h
        obtain ⟨s, hs, hb⟩ := h
        cases hb
        simp only []
        have fixk : 0 < fixedSize k → ∀ p ∈ kvs, ∀ b, fastAny c P fuel k p.1 = .ok b → b.length = fixedSize k := by
          intro hk p _ b hb
          cases fuel with
          | zero => simp [fastAny] at hb
          | succ f => exact fastAny_fixed c P f k p.1 b hk hb
        have fixw : 0 < fixedSize w → ∀ p ∈ kvs, ∀ b, fastAny c P fuel w p.2 = .ok b → b.length = fixedSize w := by
          intro hw p _ b hb
          cases fuel with
          | zero => simp [fastAny] at hb
          | succ f => exact fastAny_fixed c P f w p.2 b hw hb
        rcases fixedSize_pos_cases k with hk | hk <;> rcases fixedSize_pos_cases w with hw | hw
        · have hl := concatPairs_fixed _ _ _ _ kvs s (fixk hk) (fixw hw) hs
          simp [wireSizeOf_eq, hk, hw, hl, be_length]; omega
        · obtain ⟨t, ht, hl⟩ := concatPairs_keyfixed _ _ (blengthAny c P fuel w) _ kvs s (fixk hk) (fun p _ b hb => ih w p.2 b hb) hs
          simp [wireSizeOf_eq, hk, hw, ht, hl, bind, be_length]; omega
        · obtain ⟨t, ht, hl⟩ := concatPairs_valfixed _ _ (blengthAny c P fuel k) _ kvs s (fun p _ b hb => ih k p.1 b hb) (fixw hw) hs
          simp [wireSizeOf_eq, hk, hw, ht, hl, bind, be_length]; omega
        · have hl := concatPairs_sum _ _ (blengthAny c P fuel k) (blengthAny c P fuel w) kvs s
            (fun p _ b hb => ih k p.1 b hb) (fun p _ b hb => ih w p.2 b hb) hs
          simp [wireSizeOf_eq, hk, hw, hl, bind, be_length]; omega
      case struct.strct i fs =>
        simp only []
        cases hsd : P.struct? i with
        | none => simp [hsd] at h
        | some sd =>
          simp only [hsd] at h ⊢
          split at h
          · cases h
          · rename_i hlen
            simp only [FRes.bind_eq_ok] at h
            obtain ⟨s, hs, hb⟩ := h
            cases hb
            have := fastFields_blength c P (fastAny c P fuel) (blengthAny c P fuel) (sortFields sd.fields fs) s
              (fun p _ b hb => ih p.1.ty p.2 b hb) hs
            simp [hlen, this, bind]


end Gen.Fast
