import ThriftVerif.Gen.UnknownLemmas
/-
  Gen/UnknownWriteLemmas: `unknown.write` (model `wr`) replays canonical encodings byte for byte
  (`wr_encW`, `write_enc`); the Append loop on well-formed fields (`appendB_of_dec`, `appendLoop_enc`);
  the nesting limit (`rd_deep`: deeper than the fuel ⇒ error).
-/
namespace Gen.Unknown
open Wire Gen

/-! ### `write` replays what `read` stored -/

theorem wFix_be (n v : Nat) (r out : Bytes) : wFix n (be n v ++ r) out = .ok r (out ++ be n v) := by
  have hl := be_length n v
  simp [wFix, hl, List.take_left' hl, List.drop_left' hl]

theorem wListWith_enc (f : Nat) (et : TType) :
    ∀ (xs : List WVal), (∀ x ∈ xs, ∀ r out, wr f et.code (encW x ++ r) out = .ok r (out ++ encW x)) →
      ∀ r out, wListWith (wr f et.code) xs.length (encList xs ++ r) out = .ok r (out ++ encList xs)
  | [], _, r, out => by simp [wListWith, encList]
  | x :: xs, h, r, out => by
    have h1 := h x (by simp) (encList xs ++ r) out
    have h2 := wListWith_enc f et xs (fun y hy => h y (by simp [hy])) r (out ++ encW x)
    simp only [List.length_cons, wListWith, encList, List.append_assoc, h1]
    simpa using h2

theorem wPairsWith_enc (f : Nat) (kt vt : TType) :
    ∀ (xs : List (WVal × WVal)),
      (∀ x ∈ xs, (∀ r out, wr f kt.code (encW x.1 ++ r) out = .ok r (out ++ encW x.1)) ∧
                 (∀ r out, wr f vt.code (encW x.2 ++ r) out = .ok r (out ++ encW x.2))) →
      ∀ r out, wPairsWith (wr f kt.code) (wr f vt.code) xs.length (encPairs xs ++ r) out = .ok r (out ++ encPairs xs)
  | [], _, r, out => by simp [wPairsWith, encPairs]
  | (k, v) :: xs, h, r, out => by
    have h1 := (h (k, v) (by simp)).1 (encW v ++ (encPairs xs ++ r)) out
    have h1' := (h (k, v) (by simp)).2 (encPairs xs ++ r) (out ++ encW k)
    have h2 := wPairsWith_enc f kt vt xs (fun y hy => h y (by simp [hy])) r (out ++ encW k ++ encW v)
    simp only [List.length_cons, wPairsWith, encPairs, List.append_assoc, h1, h1']
    simpa using h2

theorem wFieldsWith_enc (f : Nat) :
    ∀ (fs : List (Nat × WVal)),
      (∀ x ∈ fs, x.1 < 256 ^ 2 ∧ ∀ r out, wr f x.2.ttype.code (encW x.2 ++ r) out = .ok r (out ++ encW x.2)) →
      ∀ g r out, fs.length < g → wFieldsWith (wr f) g (encFields fs ++ 0 :: r) out = .ok r (out ++ encFields fs ++ [0])
  | [], _, g, r, out, hg => by
    obtain ⟨g', rfl⟩ : ∃ g', g = g' + 1 := ⟨g - 1, by simp at hg; omega⟩
    simp [wFieldsWith, encFields]
  | (id, v) :: fs, h, g, r, out, hg => by
    obtain ⟨g', rfl⟩ : ∃ g', g = g' + 1 := ⟨g - 1, by simp at hg; omega⟩
    obtain ⟨hid, h1⟩ := h (id, v) (by simp)
    have hc0 : v.ttype.code ≠ 0 := by have := TType.code_pos v.ttype; omega
    have h2 := wFieldsWith_enc f fs (fun y hy => h y (by simp [hy])) g' r (out ++ [v.ttype.code] ++ be 2 id ++ encW v)
      (by simp at hg; omega)
    simp only [encFields, List.append_assoc, List.cons_append, List.nil_append, wFieldsWith, hc0, if_false,
      readN_be 2 id _ hid, h1]
    simpa using h2

mutual
theorem wr_encW (w : WVal) : ∀ (f : Nat) (r out : Bytes), WF w → w.depth ≤ f →
    wr f w.ttype.code (encW w ++ r) out = .ok r (out ++ encW w) := by
  intro f r out hwf hd
  cases f with
  | zero => have := Std.depth_pos w; omega
  | succ f =>
  cases w with
  | bool b => cases b <;> simp [wr, WVal.ttype, TType.code, encW]
  | i8 v => simpa [wr, WVal.ttype, TType.code, encW] using wFix_be 1 v r out
  | dbl v => simpa [wr, WVal.ttype, TType.code, encW] using wFix_be 8 v r out
  | i16 v => simpa [wr, WVal.ttype, TType.code, encW] using wFix_be 2 v r out
  | i32 v => simpa [wr, WVal.ttype, TType.code, encW] using wFix_be 4 v r out
  | i64 v => simpa [wr, WVal.ttype, TType.code, encW] using wFix_be 8 v r out
  | bin bs =>
    simp only [WF] at hwf
    have h4 : bs.length < 256 ^ 4 := by simp only [maxSize] at hwf; have := pow_facts.2.2.1; omega
    have hm : ¬ bs.length ≥ maxSize := by omega
    have hlen : ¬ (bs.length ≥ maxSize ∨ bs.length > (be 4 bs.length ++ (bs ++ r)).length) := by
      simp [be_length]; omega
    have hlen2 : ¬ bs.length > (bs ++ r).length := by simp
    simp only [wr, WVal.ttype, TType.code, encW, List.append_assoc, wStr, readN_be 4 bs.length _ h4]
    simp only [hlen, hlen2, if_false, List.take_left' rfl, List.drop_left' rfl]
    simp
  | struct fs =>
    simp only [WF] at hwf
    simp only [WVal.depth] at hd
    have hsub := wFieldsWith_sub fs f hwf (by omega)
    have := wFieldsWith_enc f fs hsub ((encFields fs ++ 0 :: r).length + 1) r out
      (by have := encFields_length fs; simp; omega)
    simpa [wr, WVal.ttype, TType.code, encW] using this
  | map kt vt kvs =>
    simp only [WF] at hwf
    simp only [WVal.depth] at hd
    have h4 : kvs.length < 256 ^ 4 := by have := hwf.1; simp only [maxSize] at this; have := pow_facts.2.2.1; omega
    have hm : ¬ kvs.length ≥ maxSize := by have := hwf.1; omega
    have hsub := wPairsWith_sub kvs f kt vt hwf.2 (by omega)
    have := wPairsWith_enc f kt vt kvs hsub r (out ++ [kt.code, vt.code] ++ be 4 kvs.length)
    simp only [wr, WVal.ttype, show TType.map.code = 13 from rfl, encW, List.append_assoc, List.cons_append, List.nil_append,
      readN_be 4 kvs.length _ h4]
    simp only [hm, if_false]
    simpa using this
  | set et xs =>
    simp only [WF] at hwf
    simp only [WVal.depth] at hd
    have h4 : xs.length < 256 ^ 4 := by have := hwf.1; simp only [maxSize] at this; have := pow_facts.2.2.1; omega
    have hm : ¬ xs.length ≥ maxSize := by have := hwf.1; omega
    have hsub := wListWith_sub xs f et hwf.2 (by omega)
    have := wListWith_enc f et xs hsub r (out ++ [et.code] ++ be 4 xs.length)
    simp only [wr, WVal.ttype, show TType.set.code = 14 from rfl, encW, List.append_assoc, List.cons_append, List.nil_append,
      readN_be 4 xs.length _ h4]
    simp only [hm, if_false]
    simpa using this
  | list et xs =>
    simp only [WF] at hwf
    simp only [WVal.depth] at hd
    have h4 : xs.length < 256 ^ 4 := by have := hwf.1; simp only [maxSize] at this; have := pow_facts.2.2.1; omega
    have hm : ¬ xs.length ≥ maxSize := by have := hwf.1; omega
    have hsub := wListWith_sub xs f et hwf.2 (by omega)
    have := wListWith_enc f et xs hsub r (out ++ [et.code] ++ be 4 xs.length)
    simp only [wr, WVal.ttype, show TType.list.code = 15 from rfl, encW, List.append_assoc, List.cons_append, List.nil_append,
      readN_be 4 xs.length _ h4]
    simp only [hm, if_false]
    simpa using this
theorem wListWith_sub (xs : List WVal) : ∀ (f : Nat) (et : TType), WFList et xs → depthList xs ≤ f →
    ∀ x ∈ xs, ∀ r out, wr f et.code (encW x ++ r) out = .ok r (out ++ encW x) := by
  intro f et hwf hd
  cases xs with
  | nil => intro x hx; simp at hx
  | cons a rest =>
    simp only [WFList] at hwf
    simp only [depthList] at hd
    intro x hx
    simp only [List.mem_cons] at hx
    rcases hx with rfl | hx
    · intro r out
      have := wr_encW x f r out hwf.2.1 (by omega)
      rwa [hwf.1] at this
    · exact wListWith_sub rest f et hwf.2.2 (by omega) x hx
theorem wPairsWith_sub (xs : List (WVal × WVal)) : ∀ (f : Nat) (kt vt : TType), WFPairs kt vt xs → depthPairs xs ≤ f →
    ∀ x ∈ xs, (∀ r out, wr f kt.code (encW x.1 ++ r) out = .ok r (out ++ encW x.1)) ∧
              (∀ r out, wr f vt.code (encW x.2 ++ r) out = .ok r (out ++ encW x.2)) := by
  intro f kt vt hwf hd
  cases xs with
  | nil => intro x hx; simp at hx
  | cons a rest =>
    obtain ⟨k, v⟩ := a
    simp only [WFPairs] at hwf
    simp only [depthPairs] at hd
    intro x hx
    simp only [List.mem_cons] at hx
    rcases hx with rfl | hx
    · refine ⟨fun r out => ?_, fun r out => ?_⟩
      · have := wr_encW k f r out hwf.2.2.1 (by omega)
        rwa [hwf.1] at this
      · have := wr_encW v f r out hwf.2.2.2.1 (by omega)
        rwa [hwf.2.1] at this
    · exact wPairsWith_sub rest f kt vt hwf.2.2.2.2 (by omega) x hx
theorem wFieldsWith_sub (fs : List (Nat × WVal)) : ∀ (f : Nat), WFFields fs → depthFields fs ≤ f →
    ∀ x ∈ fs, x.1 < 256 ^ 2 ∧ ∀ r out, wr f x.2.ttype.code (encW x.2 ++ r) out = .ok r (out ++ encW x.2) := by
  intro f hwf hd
  cases fs with
  | nil => intro x hx; simp at hx
  | cons a rest =>
    obtain ⟨id, v⟩ := a
    simp only [WFFields] at hwf
    simp only [depthFields] at hd
    intro x hx
    simp only [List.mem_cons] at hx
    rcases hx with rfl | hx
    · exact ⟨hwf.1, fun r out => wr_encW v f r out hwf.2.1 (by omega)⟩
    · exact wFieldsWith_sub rest f hwf.2.2 (by omega) x hx
end

/-! ### the two top-level loops on well-formed fields -/

theorem writeLoop_enc (fuel : Nat) : ∀ (us : List (Nat × WVal)), WFFields us → depthFields us ≤ fuel →
    ∀ g out, us.length < g → writeLoop fuel g (encFields us) out = .ok [] (out ++ encFields us)
  | [], _, _, g, out, hg => by
    obtain ⟨g', rfl⟩ : ∃ g', g = g' + 1 := ⟨g - 1, by simp at hg; omega⟩
    simp [writeLoop, encFields]
  | (id, v) :: us, hwf, hd, g, out, hg => by
    obtain ⟨g', rfl⟩ : ∃ g', g = g' + 1 := ⟨g - 1, by simp at hg; omega⟩
    simp only [WFFields] at hwf
    simp only [depthFields] at hd
    have hc0 : v.ttype.code ≠ 0 := by have := TType.code_pos v.ttype; omega
    have h1 := wr_encW v fuel (encFields us) (out ++ [v.ttype.code] ++ be 2 id) hwf.2.1 (by omega)
    have h2 := writeLoop_enc fuel us hwf.2.2 (by omega) g' (out ++ [v.ttype.code] ++ be 2 id ++ encW v) (by simp at hg; omega)
    simp only [encFields, List.append_assoc, List.cons_append, List.nil_append, writeLoop, hc0, if_false,
      readN_be 2 id _ hwf.1]
    simp only [List.append_assoc, List.cons_append, List.nil_append] at h1 h2
    rw [h1]
    simpa using h2

/-- `Fields.Write` replays a buffer of well-formed fields byte for byte -/
theorem write_enc (us : List (Nat × WVal)) (hwf : WFFields us) : write (encFields us) = some (encFields us) := by
  have hd := Std.depthFields_le us
  have hl := encFields_length us
  have := writeLoop_enc ((encFields us).length + 1) us hwf (by omega) ((encFields us).length + 1) [] (by omega)
  simp [write, writeR, this]

/-- `Append` of one field wherever the protocol's Skip (strict decode to depth 64) accepts the value -/
theorem appendB_of_dec (acc : Fields) (t : TType) (id : Nat) (bs : Bytes) (w : WVal) (r : Bytes)
    (h : decW 64 t bs = some (w, r)) :
    appendB acc t.code id bs = some (acc ++ [t.code] ++ be 2 id ++ encW w, r) := by
  obtain ⟨s', e⟩ := agrees 64 t bs w r h (zeros 64) (acc ++ [t.code % 256] ++ be 2 id)
  have hlt := TType.code_lt t
  have hm : t.code % 256 = t.code := Nat.mod_eq_of_lt hlt
  rw [hm] at e
  simp only [appendB, append, maxNestingDepth, St.fresh, hm, e]

theorem appendB_enc (acc : Fields) (id : Nat) (u : WVal) (r : Bytes) (hwf : WF u) (hd : u.depth ≤ 64) :
    appendB acc u.ttype.code id (encW u ++ r) = some (acc ++ [u.ttype.code] ++ be 2 id ++ encW u, r) :=
  appendB_of_dec acc u.ttype id _ u r (decW_encW u 64 r hwf hd)

theorem appendLoop_enc : ∀ (us : List (Nat × WVal)), WFFields us → (∀ x ∈ us, x.2.depth ≤ 64) →
    ∀ (g : Nat) (rest s : Bytes) (acc : Fields), us.length < g →
      ∃ s', appendLoop g ⟨encFields us ++ 0 :: rest, s⟩ acc = ⟨⟨rest, s'⟩, acc ++ encFields us, false⟩
  | [], _, _, g, rest, s, acc, hg => by
    obtain ⟨g', rfl⟩ : ∃ g', g = g' + 1 := ⟨g - 1, by simp at hg; omega⟩
    exact ⟨s, by simp [appendLoop, rByte, encFields]⟩
  | (id, v) :: us, hwf, hd, g, rest, s, acc, hg => by
    obtain ⟨g', rfl⟩ : ∃ g', g = g' + 1 := ⟨g - 1, by simp at hg; omega⟩
    simp only [WFFields] at hwf
    have hc0 : v.ttype.code ≠ 0 := by have := TType.code_pos v.ttype; omega
    have hlt := TType.code_lt v.ttype
    have hm : v.ttype.code % 256 = v.ttype.code := Nat.mod_eq_of_lt hlt
    obtain ⟨s1, e1⟩ := rFix_of_readN (s := s) (readN_be 2 id (encW v ++ (encFields us ++ 0 :: rest)) hwf.1)
    obtain ⟨s2, e2⟩ := agrees 64 v.ttype _ v (encFields us ++ 0 :: rest)
      (decW_encW v 64 _ hwf.2.1 (hd (id, v) (by simp))) s1 (acc ++ [v.ttype.code % 256] ++ be 2 id)
    obtain ⟨s3, e3⟩ := appendLoop_enc us hwf.2.2 (fun x hx => hd x (by simp [hx])) g' rest s2
      (acc ++ [v.ttype.code] ++ be 2 id ++ encW v) (by simp at hg; omega)
    refine ⟨s3, ?_⟩
    simp only [hm] at e2
    simp only [encFields, List.append_assoc, List.cons_append, List.nil_append, appendLoop, rByte, hc0, if_false,
      Bool.false_eq_true, e1, append, maxNestingDepth, hm]
    simp only [List.append_assoc, List.cons_append, List.nil_append] at e2 e3
    rw [e2]
    simpa using e3

/-! ### the nesting limit -/

theorem rd_ok_enc (f : Nat) (w : WVal) (r s out : Bytes) (hwf : WF w) (hd : w.depth ≤ f) :
    ∃ s', rd f w.ttype.code ⟨encW w ++ r, s⟩ out = ⟨⟨r, s'⟩, out ++ encW w, false⟩ :=
  agrees f w.ttype _ w r (decW_encW w f r hwf hd) s out

mutual
theorem rd_deep (w : WVal) : ∀ (f : Nat) (r s out : Bytes), WF w → f < w.depth →
    (rd f w.ttype.code ⟨encW w ++ r, s⟩ out).err = true := by
  intro f r s out hwf hd
  cases f with
  | zero => simp [rd]
  | succ f =>
  cases w with
  | bool b => simp [WVal.depth] at hd
  | i8 v => simp [WVal.depth] at hd
  | dbl v => simp [WVal.depth] at hd
  | i16 v => simp [WVal.depth] at hd
  | i32 v => simp [WVal.depth] at hd
  | i64 v => simp [WVal.depth] at hd
  | bin bs => simp [WVal.depth] at hd
  | struct fs =>
    simp only [WF] at hwf
    simp only [WVal.depth] at hd
    have := fields_deep fs f r s out ((encFields fs ++ 0 :: r).length + 1) hwf (by omega)
    simpa [rd, WVal.ttype, TType.code, encW] using this
  | map kt vt kvs =>
    simp only [WF] at hwf
    simp only [WVal.depth] at hd
    have h4 : kvs.length < 256 ^ 4 := by have := hwf.1; simp only [maxSize] at this; have := pow_facts.2.2.1; omega
    have hm : ¬ kvs.length ≥ maxSize := by have := hwf.1; omega
    obtain ⟨s1, e1⟩ := rFix_of_readN (s := s) (readN_be 4 kvs.length (encPairs kvs ++ r) h4)
    have := pairs_deep kvs f kt vt r s1 (out ++ [kt.code, vt.code] ++ be 4 kvs.length) hwf.2 (by omega)
    simp only [rd, WVal.ttype, show TType.map.code = 13 from rfl, encW, List.append_assoc, List.cons_append, List.nil_append,
      rMapBegin, rByte]
    simp only [List.append_assoc, List.cons_append, List.nil_append] at this
    simp [e1, hm, this]
  | set et xs =>
    simp only [WF] at hwf
    simp only [WVal.depth] at hd
    have h4 : xs.length < 256 ^ 4 := by have := hwf.1; simp only [maxSize] at this; have := pow_facts.2.2.1; omega
    have hm : ¬ xs.length ≥ maxSize := by have := hwf.1; omega
    obtain ⟨s1, e1⟩ := rFix_of_readN (s := s) (readN_be 4 xs.length (encList xs ++ r) h4)
    have := list_deep xs f et r s1 (out ++ [et.code] ++ be 4 xs.length) hwf.2 (by omega)
    simp only [rd, WVal.ttype, show TType.set.code = 14 from rfl, encW, List.append_assoc, List.cons_append, List.nil_append,
      rListBegin, rByte]
    simp only [List.append_assoc, List.cons_append, List.nil_append] at this
    simp [e1, hm, this]
  | list et xs =>
    simp only [WF] at hwf
    simp only [WVal.depth] at hd
    have h4 : xs.length < 256 ^ 4 := by have := hwf.1; simp only [maxSize] at this; have := pow_facts.2.2.1; omega
    have hm : ¬ xs.length ≥ maxSize := by have := hwf.1; omega
    obtain ⟨s1, e1⟩ := rFix_of_readN (s := s) (readN_be 4 xs.length (encList xs ++ r) h4)
    have := list_deep xs f et r s1 (out ++ [et.code] ++ be 4 xs.length) hwf.2 (by omega)
    simp only [rd, WVal.ttype, show TType.list.code = 15 from rfl, encW, List.append_assoc, List.cons_append, List.nil_append,
      rListBegin, rByte]
    simp only [List.append_assoc, List.cons_append, List.nil_append] at this
    simp [e1, hm, this]
theorem list_deep (xs : List WVal) : ∀ (f : Nat) (et : TType) (r s out : Bytes), WFList et xs → f < depthList xs →
    (listWith (rd f et.code) xs.length ⟨encList xs ++ r, s⟩ out).err = true := by
  intro f et r s out hwf hd
  cases xs with
  | nil => simp [depthList] at hd
  | cons x rest =>
    simp only [WFList] at hwf
    simp only [depthList] at hd
    simp only [List.length_cons, listWith, encList, List.append_assoc]
    by_cases hx : f < x.depth
    · have := rd_deep x f (encList rest ++ r) s out hwf.2.1 hx
      rw [hwf.1] at this
      split
      · rfl
      · rename_i h; rw [h] at this; simp at this
    · obtain ⟨s1, e1⟩ := rd_ok_enc f x (encList rest ++ r) s out hwf.2.1 (by omega)
      rw [hwf.1] at e1
      rw [e1]
      exact list_deep rest f et r s1 (out ++ encW x) hwf.2.2 (by omega)
theorem pairs_deep (xs : List (WVal × WVal)) : ∀ (f : Nat) (kt vt : TType) (r s out : Bytes), WFPairs kt vt xs → f < depthPairs xs →
    (pairsWith (rd f kt.code) (rd f vt.code) xs.length ⟨encPairs xs ++ r, s⟩ out).err = true := by
  intro f kt vt r s out hwf hd
  cases xs with
  | nil => simp [depthPairs] at hd
  | cons a rest =>
    obtain ⟨k, v⟩ := a
    simp only [WFPairs] at hwf
    simp only [depthPairs] at hd
    simp only [List.length_cons, pairsWith, encPairs, List.append_assoc]
    by_cases hk : f < k.depth
    · have := rd_deep k f (encW v ++ (encPairs rest ++ r)) s out hwf.2.2.1 hk
      rw [hwf.1] at this
      split
      · rfl
      · rename_i h; rw [h] at this; simp at this
    · obtain ⟨s1, e1⟩ := rd_ok_enc f k (encW v ++ (encPairs rest ++ r)) s out hwf.2.2.1 (by omega)
      rw [hwf.1] at e1
      rw [e1]
      simp only
      by_cases hv : f < v.depth
      · have := rd_deep v f (encPairs rest ++ r) s1 (out ++ encW k) hwf.2.2.2.1 hv
        rw [hwf.2.1] at this
        split
        · rfl
        · rename_i h; rw [h] at this; simp at this
      · obtain ⟨s2, e2⟩ := rd_ok_enc f v (encPairs rest ++ r) s1 (out ++ encW k) hwf.2.2.2.1 (by omega)
        rw [hwf.2.1] at e2
        rw [e2]
        exact pairs_deep rest f kt vt r s2 (out ++ encW k ++ encW v) hwf.2.2.2.2 (by omega)
theorem fields_deep (fs : List (Nat × WVal)) : ∀ (f : Nat) (r s out : Bytes) (g : Nat), WFFields fs → f < depthFields fs →
    (fieldsWith (rd f) g ⟨encFields fs ++ 0 :: r, s⟩ out).err = true := by
  intro f r s out g hwf hd
  cases g with
  | zero => simp [fieldsWith]
  | succ g =>
  cases fs with
  | nil => simp [depthFields] at hd
  | cons a rest =>
    obtain ⟨id, v⟩ := a
    simp only [WFFields] at hwf
    simp only [depthFields] at hd
    have hc0 : v.ttype.code ≠ 0 := by have := TType.code_pos v.ttype; omega
    obtain ⟨s1, e1⟩ := rFix_of_readN (s := s) (readN_be 2 id (encW v ++ (encFields rest ++ 0 :: r)) hwf.1)
    simp only [encFields, List.append_assoc, List.cons_append, List.nil_append, fieldsWith, rByte, hc0, if_false,
      Bool.false_eq_true, e1]
    by_cases hv : f < v.depth
    · have := rd_deep v f (encFields rest ++ 0 :: r) s1 (out ++ [v.ttype.code] ++ be 2 id) hwf.2.1 hv
      simp only [List.append_assoc, List.cons_append, List.nil_append] at this
      split
      · rfl
      · rename_i h; rw [h] at this; simp at this
    · obtain ⟨s2, e2⟩ := rd_ok_enc f v (encFields rest ++ 0 :: r) s1 (out ++ [v.ttype.code] ++ be 2 id) hwf.2.1 (by omega)
      simp only [List.append_assoc, List.cons_append, List.nil_append] at e2
      rw [e2]
      exact fields_deep rest f r s2 _ g hwf.2.2 (by omega)
end

/-- nesting deeper than `maxNestingDepth` inside an unknown field: `Append` returns an error -/
theorem append_deep (acc : Fields) (id : Nat) (u : WVal) (r s : Bytes) (hwf : WF u) (hd : 64 < u.depth) :
    (append acc u.ttype.code id ⟨encW u ++ r, s⟩).err = true :=
  rd_deep u 64 r s _ hwf hd

theorem appendB_deep (acc : Fields) (id : Nat) (u : WVal) (r : Bytes) (hwf : WF u) (hd : 64 < u.depth) :
    appendB acc u.ttype.code id (encW u ++ r) = none := by
  have := append_deep acc id u r (zeros 64) hwf hd
  unfold appendB
  split
  · rename_i h; simp only [St.fresh] at h; rw [h] at this; simp at this
  · rfl

end Gen.Unknown
