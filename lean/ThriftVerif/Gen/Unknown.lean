import ThriftVerif.Gen.Std
/-
  Gen/Unknown: the `keep_unknown_fields` extension.

  * generator/golang/extension/unknown/unknown.go — `Fields.Append` (recursive `read`: pull one value of
    any TType from a TProtocol and re-encode it into the raw buffer, `maxNestingDepth = 64`) and
    `Fields.Write` (recursive `write`: re-parse the raw buffer with `Binary.*` and push it into a TProtocol);
  * generator/golang/templates/struct.go — `HandleUnknownFields` (default branch of the Read switch),
    `Write` emitting `_unknownFields` after the known fields, `CarryingUnknownFields`.

  The protocol `read` pulls from is apache thrift 0.13 `TBinaryProtocol` over a `TMemoryBuffer`; its
  state is `St`: the unread input plus the protocol's 64-byte scratch buffer. Until the fix
  "unknown.read returns the error of a scalar read" `read` DROPPED the error of every scalar
  `iprot.ReadX`, so the garbage apache returns next to an error (taken from that scratch buffer) was
  re-encoded into `Fields` and observable; now every read error is returned before anything is stored and
  the scratch buffer no longer shows in any result (it is kept in `St` only as inert state).
-/
namespace Gen.Unknown
open Wire Gen

/-- `type Fields []byte` -/
abbrev Fields := Bytes

/-! ### the protocol `read` pulls from (apache thrift 0.13 TBinaryProtocol over TMemoryBuffer) -/

structure St where
  inp : Bytes          -- unread bytes of the transport
  scr : Bytes          -- `p.buffer [64]byte`, reused by every fixed-width read and by short strings
  deriving Repr, Inhabited

def zeros (n : Nat) : Bytes := List.replicate n 0

def St.fresh (bs : Bytes) : St := { inp := bs, scr := zeros 64 }

/-- `ReadByte`: `(0, EOF)` on an empty transport -/
def rByte (st : St) : Nat × St × Bool :=
  match st.inp with
  | [] => (0, st, true)
  | b :: r => (b, { st with inp := r }, false)

/-- `ReadI16/I32/I64/Double`: `io.ReadFull(trans, p.buffer[0:n])`, then the value is taken from
`p.buffer[0:n]` whether or not the read was complete (stale bytes show through) -/
def rFix (n : Nat) (st : St) : Nat × St × Bool :=
  let k := min n st.inp.length
  let scr := st.inp.take k ++ st.scr.drop k
  (unbe (scr.take n), { inp := st.inp.drop k, scr := scr }, decide (st.inp.length < n))

/-- `ReadString` -/
def rStr (st : St) : Bytes × St × Bool :=
  match rFix 4 st with
  | (n, st1, e) =>
    if e then ([], st1, true)
    else if n ≥ maxSize then ([], st1, true)            -- size < 0: invalidDataLength
    else if n ≤ st1.inp.length then
      (st1.inp.take n, { inp := st1.inp.drop n,
                         scr := if n ≤ 64 then st1.inp.take n ++ st1.scr.drop n else st1.scr }, false)
    else ([], { inp := [], scr := st1.scr }, true)    -- short read: the transport is drained, error

/-- `ReadListBegin` / `ReadSetBegin`: element type byte, size; any error is reported -/
def rListBegin (st : St) : Nat × Nat × St × Bool :=
  match rByte st with
  | (et, st1, e1) =>
    if e1 then (0, 0, st1, true) else
    match rFix 4 st1 with
    | (n, st2, e2) =>
      if e2 then (et, 0, st2, true)
      else if n ≥ maxSize then (et, 0, st2, true)
      else (et, n, st2, false)

/-- `ReadMapBegin` -/
def rMapBegin (st : St) : Nat × Nat × Nat × St × Bool :=
  match rByte st with
  | (kt, st1, e1) =>
    if e1 then (0, 0, 0, st1, true) else
    match rByte st1 with
    | (vt, st2, e2) =>
      if e2 then (kt, 0, 0, st2, true) else
      match rFix 4 st2 with
      | (n, st3, e3) =>
        if e3 then (kt, vt, 0, st3, true)
        else if n ≥ maxSize then (kt, vt, 0, st3, true)
        else (kt, vt, n, st3, false)

/-! ### `read`: one value of wire type `t` from the protocol, re-encoded at the end of `out` -/

/-- result of `read`: protocol state, buffer, `err != nil` -/
structure R where
  st : St
  out : Bytes
  err : Bool
  deriving Repr, Inhabited

/-- `for i := 0; i < size; i++ { offset, err = read(…elem…); if err != nil { return } }` -/
def listWith (d : St → Bytes → R) : Nat → St → Bytes → R
  | 0, st, out => ⟨st, out, false⟩
  | n+1, st, out =>
    match d st out with
    | ⟨st', out', true⟩ => ⟨st', out', true⟩
    | ⟨st', out', false⟩ => listWith d n st' out'

def pairsWith (dk dv : St → Bytes → R) : Nat → St → Bytes → R
  | 0, st, out => ⟨st, out, false⟩
  | n+1, st, out =>
    match dk st out with
    | ⟨st1, out1, true⟩ => ⟨st1, out1, true⟩
    | ⟨st1, out1, false⟩ =>
      match dv st1 out1 with
      | ⟨st2, out2, true⟩ => ⟨st2, out2, true⟩
      | ⟨st2, out2, false⟩ => pairsWith dk dv n st2 out2

/-- the `for { ReadFieldBegin … }` loop of the TStruct case; `gas` bounds the iterations (every
iteration consumes at least the type byte, the caller passes the input length + 1) -/
def fieldsWith (d : Nat → St → Bytes → R) : Nat → St → Bytes → R
  | 0, st, out => ⟨st, out, true⟩
  | g+1, st, out =>
    match rByte st with
    | (t, st1, e1) =>
      if e1 then ⟨st1, out, true⟩ else
      if t = 0 then ⟨st1, out ++ [0], false⟩ else
      match rFix 2 st1 with
      | (id, st2, e2) =>
        if e2 then ⟨st2, out, true⟩ else
        match d t st2 (out ++ [t] ++ be 2 id) with
        | ⟨st3, out3, true⟩ => ⟨st3, out3, true⟩
        | ⟨st3, out3, false⟩ => fieldsWith d g st3 out3

/-- `read(buf, offset, iprot, name, fieldType, id, maxDepth)`; first argument = `maxDepth`.
Scalar cases: `if err != nil { return offset, err }` before the value is stored. -/
def rd : Nat → Nat → St → Bytes → R
  | 0, _, st, out => ⟨st, out, true⟩                       -- ErrExceedDepthLimit
  | f+1, t, st, out =>
    if t = 2 then match rByte st with | (b, st', e) => if e then ⟨st', out, true⟩ else ⟨st', out ++ [if b = 1 then 1 else 0], false⟩
    else if t = 3 then match rByte st with | (b, st', e) => if e then ⟨st', out, true⟩ else ⟨st', out ++ be 1 b, false⟩
    else if t = 4 then match rFix 8 st with | (v, st', e) => if e then ⟨st', out, true⟩ else ⟨st', out ++ be 8 v, false⟩
    else if t = 6 then match rFix 2 st with | (v, st', e) => if e then ⟨st', out, true⟩ else ⟨st', out ++ be 2 v, false⟩
    else if t = 8 then match rFix 4 st with | (v, st', e) => if e then ⟨st', out, true⟩ else ⟨st', out ++ be 4 v, false⟩
    else if t = 10 then match rFix 8 st with | (v, st', e) => if e then ⟨st', out, true⟩ else ⟨st', out ++ be 8 v, false⟩
    else if t = 11 then match rStr st with | (v, st', e) => if e then ⟨st', out, true⟩ else ⟨st', out ++ be 4 v.length ++ v, false⟩
    else if t = 14 ∨ t = 15 then
      match rListBegin st with
      | (et, n, st', e) =>
        if e then ⟨st', out, true⟩ else listWith (rd f et) n st' (out ++ [et] ++ be 4 n)
    else if t = 13 then
      match rMapBegin st with
      | (kt, vt, n, st', e) =>
        if e then ⟨st', out, true⟩ else pairsWith (rd f kt) (rd f vt) n st' (out ++ [kt, vt] ++ be 4 n)
    else if t = 12 then fieldsWith (rd f) (st.inp.length + 1) st out
    else ⟨st, out, true⟩                                    -- ErrUnknownType

def maxNestingDepth : Nat := 64

/-- `Fields.Append(xprot, name, fieldType, id)`: field header, then the value. The buffer is updated
even when an error is returned (`*fs = buf[:offset]`). -/
def append (fs : Fields) (t id : Nat) (st : St) : R :=
  rd maxNestingDepth t st (fs ++ [t % 256] ++ be 2 id)

/-- the generated Read loop of a struct none of whose ids is known (every field goes to `Append`),
on one protocol: what the in-process correspondence drives. No STOP is stored. -/
def appendLoop : Nat → St → Fields → R
  | 0, st, fs => ⟨st, fs, true⟩
  | g+1, st, fs =>
    match rByte st with
    | (t, st1, e1) =>
      if e1 then ⟨st1, fs, true⟩ else
      if t = 0 then ⟨st1, fs, false⟩ else
      match rFix 2 st1 with
      | (id, st2, e2) =>
        if e2 then ⟨st2, fs, true⟩ else
        match append fs t id st2 with
        | ⟨st3, fs3, true⟩ => ⟨st3, fs3, true⟩
        | ⟨st3, fs3, false⟩ => appendLoop g st3 fs3

/-- `Append` on plain bytes (fresh protocol state); `none` = error -/
def appendB (fs : Fields) (t id : Nat) (bs : Bytes) : Option (Fields × Bytes) :=
  match append fs t id (St.fresh bs) with
  | ⟨st, out, false⟩ => some (out, st.inp)
  | ⟨_, _, true⟩ => none

/-! ### `write`: replay of the raw buffer into a protocol (apache TBinaryProtocol writes) -/

/-- outcome of `Fields.Write` / `write` -/
inductive WR
  | ok (rest out : Bytes)
  | err
  | panic            -- slice bounds out of range in Binary.ReadString (see `wStr`)
  | crash            -- recursion fuel exhausted (unreachable: every level consumes a byte)
  deriving Repr, Inhabited

/-- copy `n` bytes (`Binary.ReadI16/I32/I64/Double` + the protocol's `WriteX`) -/
def wFix (n : Nat) (buf out : Bytes) : WR :=
  if buf.length < n then .err else .ok (buf.drop n) (out ++ buf.take n)

/-- `Binary.ReadString`: `if size < 0 || int(size) > len(buf)` compares with the length of the buffer
INCLUDING the 4 size bytes, so a size in `(len-4, len]` passes the test and the slice expression panics -/
def wStr (buf out : Bytes) : WR :=
  match readN 4 buf with
  | none => .err
  | some (n, r) =>
    if n ≥ maxSize ∨ n > buf.length then .err
    else if n > r.length then .panic
    else .ok (r.drop n) (out ++ be 4 n ++ r.take n)

def wListWith (d : Bytes → Bytes → WR) : Nat → Bytes → Bytes → WR
  | 0, buf, out => .ok buf out
  | n+1, buf, out =>
    match d buf out with
    | .ok buf' out' => wListWith d n buf' out'
    | e => e

def wPairsWith (dk dv : Bytes → Bytes → WR) : Nat → Bytes → Bytes → WR
  | 0, buf, out => .ok buf out
  | n+1, buf, out =>
    match dk buf out with
    | .ok buf1 out1 =>
      match dv buf1 out1 with
      | .ok buf2 out2 => wPairsWith dk dv n buf2 out2
      | e => e
    | e => e

def wFieldsWith (d : Nat → Bytes → Bytes → WR) : Nat → Bytes → Bytes → WR
  | 0, _, _ => .crash
  | _, [], _ => .err
  | g+1, t :: buf, out =>
    if t = 0 then .ok buf (out ++ [0]) else
    match readN 2 buf with
    | none => .err
    | some (id, r) =>
      match d t r (out ++ [t] ++ be 2 id) with
      | .ok buf' out' => wFieldsWith d g buf' out'
      | e => e

/-- `write(oprot, name, fieldType, id, fs)`; first argument = recursion fuel (the Go code has none) -/
def wr : Nat → Nat → Bytes → Bytes → WR
  | 0, _, _, _ => .crash
  | f+1, t, buf, out =>
    if t = 2 then match buf with | [] => .err | b :: r => .ok r (out ++ [if b = 1 then 1 else 0])
    else if t = 3 then wFix 1 buf out
    else if t = 4 then wFix 8 buf out
    else if t = 6 then wFix 2 buf out
    else if t = 8 then wFix 4 buf out
    else if t = 10 then wFix 8 buf out
    else if t = 11 then wStr buf out
    else if t = 14 ∨ t = 15 then
      match buf with
      | et :: r => match readN 4 r with
        | none => .err
        | some (n, r') => if n ≥ maxSize then .err else wListWith (wr f et) n r' (out ++ [et] ++ be 4 n)
      | [] => .err
    else if t = 13 then
      match buf with
      | kt :: vt :: r => match readN 4 r with
        | none => .err
        | some (n, r') => if n ≥ maxSize then .err else wPairsWith (wr f kt) (wr f vt) n r' (out ++ [kt, vt] ++ be 4 n)
      | _ => .err
    else if t = 12 then wFieldsWith (wr f) (buf.length + 1) buf out
    else .err

/-- the `for offset < len(rbuf)` loop of `Fields.Write` -/
def writeLoop (fuel : Nat) : Nat → Bytes → Bytes → WR
  | 0, _, _ => .crash
  | _, [], out => .ok [] out
  | g+1, t :: buf, out =>
    if t = 0 then .err else       -- a STOP byte as field type: header `00 00 00` is written, then ErrUnknownType
    match readN 2 buf with
    | none => .err
    | some (id, r) =>
      match wr fuel t r (out ++ [t] ++ be 2 id) with
      | .ok buf' out' => writeLoop fuel g buf' out'
      | e => e

/-- `Fields.Write(xprot)`: the bytes pushed into the protocol -/
def writeR (fs : Fields) : WR := writeLoop (fs.length + 1) (fs.length + 1) fs []

def write (fs : Fields) : Option Bytes :=
  match writeR fs with
  | .ok _ out => some out
  | _ => none

/-! ### generated code with `keep_unknown_fields` -/

/-- the `for { ReadFieldBegin … }` loop of StructLikeRead under `keep_unknown_fields`: a copy of
`Gen.Std.readFieldsWith` with the `_unknownFields` accumulator; an id that is not a `case` of the switch
goes to `Append`, a known id with another wire type is still skipped. (`Append` runs on a fresh
protocol state here: the scratch buffer shows in no result.) -/
def readFieldsKU (rdTy : Ty → Bytes → Option (GoVal × Bytes)) (defs : List FieldDef) :
    Nat → Bytes → List GoVal → List Bool → Fields → Option (List GoVal × Bytes × Fields)
  | 0, _, _, _, _ => none
  | _, [], _, _, _ => none
  | g+1, c :: bs, cur, seen, acc =>
    if c = 0 then (if Std.requiredOk defs seen then some (cur, bs, acc) else none) else
    match readN 2 bs with
    | none => none
    | some (id, r) =>
      match Std.findField defs id with
      | some (j, f) =>
        if f.ty.ttype.code = c then
          match rdTy f.ty r with
          | none => none
          | some (v, r') => readFieldsKU rdTy defs g r' (cur.set j v) (seen.set j true) acc
        else match Std.skipW c r with
          | none => none
          | some r' => readFieldsKU rdTy defs g r' cur seen acc
      | none =>
        match appendB acc c id r with
        | none => none
        | some (acc', r') => readFieldsKU rdTy defs g r' cur seen acc'

/-- generated `Write` under `keep_unknown_fields` at one struct level: known fields, then
`_unknownFields.Write`, then STOP -/
def writeFieldsKU (known : Bytes) (acc : Fields) : Res Bytes :=
  match write acc with
  | some u => .ok (known ++ u ++ [0])
  | none => .err

/-- `CarryingUnknownFields()` -/
def carrying (acc : Fields) : Bool := !acc.isEmpty

/-! #### the whole generated program with `keep_unknown_fields` (every struct level keeps its own buffer)

A struct object is `.strct (fields ++ [.bytes _unknownFields])`: the private buffer rides as one extra
trailing element. -/

def readTyKU (S : List StructDef) : Nat → Ty → Bytes → Option (GoVal × Bytes)
  | 0, _, _ => none
  | f+1, ty, bs =>
    match ty with
    | .list e => match bs with
      | _ :: r => match readN 4 r with
        | none => none
        | some (n, r') => if n ≥ maxSize then none else
          (Std.readListWith (readTyKU S f e) n r').map fun (xs, r'') => (.list xs, r'')
      | [] => none
    | .set e => match bs with
      | _ :: r => match readN 4 r with
        | none => none
        | some (n, r') => if n ≥ maxSize then none else
          (Std.readListWith (readTyKU S f e) n r').map fun (xs, r'') => (.list xs, r'')
      | [] => none
    | .map k v => match bs with
      | _ :: _ :: r => match readN 4 r with
        | none => none
        | some (n, r') => if n ≥ maxSize then none else
          (Std.readPairsWith (readTyKU S f k) (readTyKU S f v) n r').map fun (kvs, r'') => (.map (Std.mapOfPairs k kvs), r'')
      | _ => none
    | .struct i => match S[i]? with
      | none => none
      | some sd =>
        match newX sd with
        | .strct init =>
          (readFieldsKU (readTyKU S f) sd.fields (bs.length + 1) bs init (sd.fields.map fun _ => false) []).map
            fun (fs, r, acc) => (.strct (fs ++ [.bytes acc]), r)
        | _ => none
    | ty => Std.readScalar ty bs

/-- generated `Read` into a fresh `NewX()` -/
def readKU (P : Prog) (sidx : Nat) (bs : Bytes) : Option GoVal :=
  (readTyKU P.structs (bs.length + 1) (.struct sidx) bs).map (·.1)

/-- `len(p._unknownFields) > 0` of an object given by its element list (buffer = trailing element) -/
def carryingLast (fs : List GoVal) : Bool :=
  match fs.getLast? with
  | some (.bytes acc) => carrying acc
  | _ => false

mutual
/-- generated `Write` of a value of type `ty` through the binary protocol, bytes; struct objects may
carry the trailing `_unknownFields` element. Without it this is `encW <$> Std.toW`. -/
def toB (P : Prog) : Ty → GoVal → Res Bytes
  | .list e, .nil => .ok ([e.ttype.code] ++ be 4 0)
  | .list e, .list xs => do
      let b ← toBList P e xs
      .ok ([e.ttype.code] ++ be 4 xs.length ++ b)
  | .set e, .nil => .ok ([e.ttype.code] ++ be 4 0)
  | .set e, .list xs =>
      if P.validateSet && !Std.noDup xs then .err else do
      let b ← toBList P e xs
      .ok ([e.ttype.code] ++ be 4 xs.length ++ b)
  | .map k v, .nil => .ok ([k.ttype.code, v.ttype.code] ++ be 4 0)
  | .map k v, .map kvs => do
      let b ← toBPairs P k v kvs
      .ok ([k.ttype.code, v.ttype.code] ++ be 4 kvs.length ++ b)
  | .struct i, .nil =>
      match P.struct? i with
      | some sd => if sd.kind = 1 then .panic else .ok [0]
      | none => .err
  | .struct i, .strct fs =>
      match P.struct? i with
      | some sd =>
          -- `c != 1 && !(c == 0 && len(p._unknownFields) > 0)` (the second conjunct only under keep_unknown_fields,
          -- where alone an object has a buffer)
          if sd.kind = 1 && Std.countSet sd.fields fs != 1 &&
             !(Std.countSet sd.fields fs == 0 && carryingLast fs) then .err else do
          let b ← toBFields P sd.fields fs
          .ok (b ++ [0])
      | none => .err
  | ty, v => do
      let w ← Res.ofOption (Std.scalarW ty v)
      .ok (encW w)
def toBList (P : Prog) (e : Ty) : List GoVal → Res Bytes
  | [] => .ok []
  | x :: r => do
      let a ← toB P e x
      let b ← toBList P e r
      .ok (a ++ b)
def toBPairs (P : Prog) (k v : Ty) : List (GoVal × GoVal) → Res Bytes
  | [] => .ok []
  | (a, b) :: r => do
      let x ← toB P k a
      let y ← toB P v b
      let z ← toBPairs P k v r
      .ok (x ++ y ++ z)
def toBFields (P : Prog) : List FieldDef → List GoVal → Res Bytes
  | [], [] => .ok []
  | [], [.bytes acc] => Res.ofOption (write acc)            -- `p._unknownFields.Write(oprot)`
  | f :: fs, v :: vs =>
      if f.req = .optional && !Std.isSet f v then toBFields P fs vs else do
      let a ← toB P f.ty v
      let b ← toBFields P fs vs
      .ok ([f.ty.ttype.code] ++ be 2 (pat 16 f.id) ++ a ++ b)
  | _, _ => .err
end

/-- generated `Write` -/
def writeKU (P : Prog) (sidx : Nat) (obj : GoVal) : Res Bytes := toB P (.struct sidx) obj

/-- `CarryingUnknownFields()` of a struct object -/
def carryingObj : GoVal → Bool
  | .strct fs => carryingLast fs
  | _ => false

mutual
/-- drop the private buffers (what a dump of the exported fields shows) -/
def strip (S : List StructDef) : Ty → GoVal → GoVal
  | .list e, .list xs => .list (stripList S e xs)
  | .set e, .list xs => .list (stripList S e xs)
  | .map k v, .map kvs => .map (stripPairs S k v kvs)
  | .struct i, .strct fs =>
      match S[i]? with
      | some sd => .strct (stripFields S sd.fields fs)
      | none => .strct fs
  | _, v => v
def stripList (S : List StructDef) (e : Ty) : List GoVal → List GoVal
  | [] => []
  | x :: r => strip S e x :: stripList S e r
def stripPairs (S : List StructDef) (k v : Ty) : List (GoVal × GoVal) → List (GoVal × GoVal)
  | [] => []
  | (a, b) :: r => (strip S k a, strip S v b) :: stripPairs S k v r
def stripFields (S : List StructDef) : List FieldDef → List GoVal → List GoVal
  | f :: fs, v :: vs => strip S f.ty v :: stripFields S fs vs
  | _, _ => []
end

end Gen.Unknown
