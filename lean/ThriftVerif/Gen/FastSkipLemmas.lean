import ThriftVerif.Gen.FastLemmas
/- helper lemmas about Gen.Fast for Props/C10:
   (1) FastRead never panics when the runtime's Skip is bounds-respecting (`fastReadTy_np`);
   (2) gopkg's Skip accepts whatever the strict untyped decoder `Wire.decW` accepts, consuming the same bytes
       (`skipType_refines`);
   (3) the suggested two-line repair of gopkg's Skip (`Gopkg.skipTypeF`) satisfies the bounds hypothesis of (1). -/
set_option maxRecDepth 4000
namespace Gen.Fast
open Wire Gen


/-- the outcome is `ok` or `err` -/
def NoPanic {α} : FRes α → Prop
  | .panic _ => False
  | _ => True

/-- the bounds-checked behaviour the generated code assumes of the runtime's `Skip`: it never panics and a
length it answers lies within the buffer it was given -/
def SkipBounded (skip : Nat → Bytes → FRes Nat) : Prop :=
  ∀ t bs, match skip t bs with
    | .ok l => l ≤ bs.length
    | .err => True
    | .panic _ => False

theorem NoPanic.bind {α β} (x : FRes α) (f : α → FRes β) (hx : NoPanic x) (hf : ∀ a, x = .ok a → NoPanic (f a)) :
    NoPanic (x >>= f) := by
  cases x with
  | ok a => exact hf a rfl
  | err => trivial
  | panic w => exact hx

theorem advance_ok (rest : Bytes) (l : Nat) (h : l ≤ rest.length) : advance rest l = .ok (rest.drop l) := by
  simp [advance, h]

theorem readFixed_le (n : Nat) (bs : Bytes) (x l : Nat) (h : Gopkg.readFixed n bs = some (x, l)) : l ≤ bs.length := by
  unfold Gopkg.readFixed at h
  split at h
  · cases h
  · cases h; omega

theorem readFixedVal_np (n : Nat) (mk : Nat → GoVal) (rest : Bytes) : NoPanic (readFixedVal n mk rest) := by
  unfold readFixedVal
  cases h : Gopkg.readFixed n rest with
  | none => trivial
  | some p =>
    obtain ⟨x, l⟩ := p
    simp only []
    rw [advance_ok rest l (readFixed_le n rest x l h)]
    trivial

theorem readBin_le (bs b : Bytes) (l : Nat) (h : Gopkg.readBin bs = some (b, l)) : l ≤ bs.length := by
  unfold Gopkg.readBin at h
  split at h
  · cases h
  · simp only [] at h
    split at h
    · cases h
    · split at h
      · cases h
      · cases h; omega

theorem readListBegin_le (bs : Bytes) (sz l : Nat) (h : Gopkg.readListBegin bs = some (sz, l)) : l ≤ bs.length := by
  unfold Gopkg.readListBegin at h
  split at h
  · cases h
  · simp only [] at h
    split at h
    · cases h
    · cases h; omega

theorem readMapBegin_le (bs : Bytes) (sz l : Nat) (h : Gopkg.readMapBegin bs = some (sz, l)) : l ≤ bs.length := by
  unfold Gopkg.readMapBegin at h
  split at h
  · cases h
  · simp only [] at h
    split at h
    · cases h
    · cases h; omega

theorem readFieldBegin_le (bs : Bytes) (t id l : Nat) (h : Gopkg.readFieldBegin bs = some (t, id, l)) : l ≤ bs.length := by
  cases bs with
  | nil => simp [Gopkg.readFieldBegin] at h
  | cons c r =>
    simp only [Gopkg.readFieldBegin] at h
    split at h
    · cases h; simp
    · cases r with
      | nil => simp at h
      | cons a r2 => cases r2 with
        | nil => simp at h
        | cons b r3 => simp at h; obtain ⟨_, _, rfl⟩ := h; simp

theorem readElems_np (d : Bytes → FRes (GoVal × Bytes)) (hd : ∀ bs, NoPanic (d bs)) :
    ∀ n bs, NoPanic (readElems d n bs) := by
  intro n
  induction n with
  | zero => intro bs; simp [readElems]; trivial
  | succ n ih =>
    intro bs
    simp only [readElems]
    apply NoPanic.bind _ _ (hd bs)
    intro p _
    obtain ⟨x, r⟩ := p
    apply NoPanic.bind _ _ (ih r)
    intro q _
    trivial

theorem readPairs_np (dk dv : Bytes → FRes (GoVal × Bytes)) (hk : ∀ bs, NoPanic (dk bs)) (hv : ∀ bs, NoPanic (dv bs)) :
    ∀ n bs, NoPanic (readPairs dk dv n bs) := by
  intro n
  induction n with
  | zero => intro bs; simp [readPairs]; trivial
  | succ n ih =>
    intro bs
    simp only [readPairs]
    apply NoPanic.bind _ _ (hk bs)
    intro p _
    obtain ⟨x, r⟩ := p
    apply NoPanic.bind _ _ (hv r)
    intro q _
    obtain ⟨y, r'⟩ := q
    apply NoPanic.bind _ _ (ih r')
    intro q _
    trivial

theorem fastFields_np (skip : Nat → Bytes → FRes Nat) (hs : SkipBounded skip) (P : Prog)
    (rd : Ty → Bytes → FRes (GoVal × Bytes)) (hrd : ∀ ty bs, NoPanic (rd ty bs)) (defs : List FieldDef) :
    ∀ g rest cur seen, NoPanic (fastFieldsWith skip P rd defs g rest cur seen) := by
  intro g
  induction g with
  | zero => intro rest cur seen; simp [fastFieldsWith]; trivial
  | succ g ih =>
    intro rest cur seen
    simp only [fastFieldsWith]
    cases h : Gopkg.readFieldBegin rest with
    | none => trivial
    | some p =>
      obtain ⟨ftyp, fid, l⟩ := p
      simp only []
      rw [advance_ok rest l (readFieldBegin_le rest ftyp fid l h)]
      simp only [bind]
      split
      · split <;> trivial
      · cases hc : findCase P defs (switchKey fid ftyp) with
        | some q =>
          obtain ⟨j, f⟩ := q
          simp only []
          apply NoPanic.bind _ _ (hrd f.ty _)
          intro p _
          exact ih _ _ _
        | none =>
          simp only []
          have hb := hs ftyp (rest.drop l)
          cases hk : skip ftyp (rest.drop l) with
          | panic w => rw [hk] at hb; exact hb.elim
          | err => trivial
          | ok k =>
            rw [hk] at hb
            simp only [] at hb
            show NoPanic ((advance (List.drop l rest) k) >>= _)
            rw [advance_ok _ k hb]
            exact ih _ _ _

theorem fastReadTy_np (skip : Nat → Bytes → FRes Nat) (hs : SkipBounded skip) (P : Prog) :
    ∀ f ty bs, NoPanic (fastReadTyWith skip P f ty bs) := by
  intro f
  induction f with
  | zero => intro ty bs; simp [fastReadTyWith]; trivial
  | succ f ih =>
    intro ty bs
    cases ty <;> simp only [fastReadTyWith] <;> try exact readFixedVal_np _ _ _
    case str | bin =>
      cases h : Gopkg.readBin bs with
      | none => trivial
      | some p =>
        obtain ⟨b, l⟩ := p
        simp only []
        rw [advance_ok bs l (readBin_le bs b l h)]
        trivial
    case list e | set e =>
      cases h : Gopkg.readListBegin bs with
      | none => trivial
      | some p =>
        obtain ⟨sz, l⟩ := p
        simp only []
        rw [advance_ok bs l (readListBegin_le bs sz l h)]
        apply NoPanic.bind _ _ (readElems_np _ (ih e) sz _)
        intro q _
        trivial
    case map k w =>
      cases h : Gopkg.readMapBegin bs with
      | none => trivial
      | some p =>
        obtain ⟨sz, l⟩ := p
        simp only []
        rw [advance_ok bs l (readMapBegin_le bs sz l h)]
        apply NoPanic.bind _ _ (readPairs_np _ _ (ih k) (ih w) sz _)
        intro q _
        trivial
    case struct i =>
      cases P.struct? i with
      | none => trivial
      | some sd =>
        simp only []
        cases newX sd <;> try trivial
        rename_i init
        simp only []
        apply NoPanic.bind _ _ (fastFields_np skip hs P _ (ih) sd.fields _ _ _ _)
        intro q _
        trivial




/-- fixed wire size of an untyped wire type, as gopkg's `typeToSize` has it -/
def tsize : TType → Nat
  | .bool => 1 | .i8 => 1 | .dbl => 8 | .i16 => 2 | .i32 => 4 | .i64 => 8
  | _ => 0

theorem typeToSize_code (t : TType) : Gopkg.typeToSize t.code = .ok (tsize t) := by
  cases t <;> rfl

theorem ofCode_some (n : Nat) (t : TType) (h : TType.ofCode n = some t) : n = t.code := by
  unfold TType.ofCode at h
  repeat (split at h; · (cases h; subst_vars; rfl))
  cases h

/-- `res` is a successful skip of `bs` down to the suffix `r`, with an in-range length -/
def SkipsTo (res : FRes Nat) (bs r : Bytes) : Prop := ∃ k, res = .ok k ∧ k ≤ bs.length ∧ bs.drop k = r

theorem drop_cons_getD (bs : Bytes) (i c : Nat) (rest : Bytes) (h : bs.drop i = c :: rest) :
    i < bs.length ∧ bs.getD i 0 = c ∧ bs.drop (i + 1) = rest := by
  have hi : i < bs.length := by
    by_cases hh : i < bs.length
    · exact hh
    · have : bs.drop i = [] := List.drop_eq_nil_of_le (by omega)
      rw [this] at h; cases h
  rw [List.drop_eq_getElem_cons hi] at h
  injection h with h1 h2
  refine ⟨hi, ?_, h2⟩
  simp [List.getD_eq_getElem?_getD, List.getElem?_eq_getElem hi, h1]

theorem readN_some (n : Nat) (bs : Bytes) (x : Nat) (r : Bytes) (h : readN n bs = some (x, r)) :
    n ≤ bs.length ∧ x = unbe (bs.take n) ∧ r = bs.drop n := by
  unfold readN at h
  split at h
  · cases h
  · cases h; exact ⟨by omega, rfl, rfl⟩

theorem readBytes_some (n : Nat) (bs b r : Bytes) (h : readBytes n bs = some (b, r)) :
    n ≤ bs.length ∧ b = bs.take n ∧ r = bs.drop n := by
  unfold readBytes at h
  split at h
  · cases h
  · cases h; exact ⟨by omega, rfl, rfl⟩

theorem decW_nil (d : Nat) (t : TType) : decW d t [] = none := by
  cases d with
  | zero => rfl
  | succ d => cases t <;> simp [decW, readN, decFieldsWith]

theorem decW_ne_nil (d : Nat) (t : TType) (bs : Bytes) (w : WVal) (r : Bytes) (h : decW d t bs = some (w, r)) : bs ≠ [] := by
  intro e; subst e; rw [decW_nil] at h; cases h

theorem decW_fuel_pos (d : Nat) (t : TType) (bs : Bytes) (w : WVal) (r : Bytes) (h : decW d t bs = some (w, r)) : 0 < d := by
  cases d with
  | zero => simp [decW] at h
  | succ d => omega

/-- a fixed-size value takes exactly `tsize t` bytes -/
theorem decW_fixed (d : Nat) (t : TType) (bs : Bytes) (w : WVal) (r : Bytes) (hz : 0 < tsize t)
    (h : decW d t bs = some (w, r)) : tsize t ≤ bs.length ∧ r = bs.drop (tsize t) := by
  cases d with
  | zero => simp [decW] at h
  | succ d =>
    cases t <;> simp [tsize] at hz <;> simp only [decW] at h <;>
      (split at h
       · cases h
       · rename_i x r' hr
         cases h
         have := readN_some _ _ _ _ hr
         exact ⟨this.1, this.2.2⟩)


/-- inside a loop of `skipType` an element is skipped like a value of its own (when that succeeds) -/
theorem skipElem_of (d : Nat) (t : TType) (bs r : Bytes) (hd : 0 < d)
    (h : SkipsTo (Gopkg.skipType d t.code bs) bs r) :
    SkipsTo (Gopkg.skipElem (Gopkg.skipType d) (tsize t) t.code bs) bs r := by
  cases d with
  | zero => omega
  | succ d =>
    obtain ⟨k, hk, hle, hdrop⟩ := h
    unfold Gopkg.skipElem
    by_cases hz : 0 < tsize t
    · simp only [hz, if_true]
      unfold Gopkg.skipType at hk
      rw [typeToSize_code] at hk
      simp only [bind, hz, if_true] at hk
      split at hk
      · cases hk
      · cases hk; exact ⟨_, rfl, hle, hdrop⟩
    · simp only [hz, if_false]
      by_cases h11 : t.code = 11
      · simp only [h11, if_true]
        unfold Gopkg.skipType at hk
        rw [typeToSize_code] at hk
        simp only [bind, hz, if_false, h11, if_true] at hk
        exact ⟨k, hk, hle, hdrop⟩
      · simp only [h11, if_false]
        exact ⟨k, hk, hle, hdrop⟩

theorem listLoop_of (elem : Bytes → FRes Nat) (dec : Bytes → Option (WVal × Bytes))
    (h : ∀ bs x r, dec bs = some (x, r) → bs ≠ [] ∧ SkipsTo (elem bs) bs r) :
    ∀ (n : Nat) (bs : Bytes) (i : Nat) (xs : List WVal) (r : Bytes), i ≤ bs.length →
      decListWith dec n (bs.drop i) = some (xs, r) →
      ∃ k, Gopkg.listLoop elem n i bs = .ok k ∧ k ≤ bs.length ∧ bs.drop k = r := by
  intro n
  induction n with
  | zero =>
    intro bs i xs r hi hdec
    simp only [decListWith] at hdec
    cases hdec
    exact ⟨i, rfl, hi, rfl⟩
  | succ n ih =>
    intro bs i xs r hi hdec
    simp only [decListWith] at hdec
    cases hd : dec (bs.drop i) with
    | none => simp [hd] at hdec
    | some p =>
      obtain ⟨x, r1⟩ := p
      simp only [hd] at hdec
      obtain ⟨hne, k1, hk1, hle1, hdrop1⟩ := h _ _ _ hd
      have hlt : i < bs.length := by
        by_cases hh : i < bs.length
        · exact hh
        · exact absurd (List.drop_eq_nil_of_le (by omega)) hne
      cases hrec : decListWith dec n r1 with
      | none => simp [hrec] at hdec
      | some q =>
        obtain ⟨xs', r'⟩ := q
        simp only [hrec] at hdec
        cases hdec
        simp only [List.length_drop] at hle1
        have hd2 : bs.drop (i + k1) = r1 := by rw [← hdrop1, List.drop_drop]
        obtain ⟨k, hk, hle, hdr⟩ := ih bs (i + k1) xs' r (by omega) (by rw [hd2]; exact hrec)
        refine ⟨k, ?_, hle, hdr⟩
        simp only [Gopkg.listLoop]
        have : ¬ i ≥ bs.length := by omega
        simp only [this, if_false, hk1, bind]
        exact hk

theorem mapLoop_of (ke ve : Bytes → FRes Nat) (dk dv : Bytes → Option (WVal × Bytes))
    (hk : ∀ bs x r, dk bs = some (x, r) → bs ≠ [] ∧ SkipsTo (ke bs) bs r)
    (hv : ∀ bs x r, dv bs = some (x, r) → bs ≠ [] ∧ SkipsTo (ve bs) bs r) :
    ∀ (n : Nat) (bs : Bytes) (i : Nat) (kvs : List (WVal × WVal)) (r : Bytes), i ≤ bs.length →
      decPairsWith dk dv n (bs.drop i) = some (kvs, r) →
      ∃ k, Gopkg.mapLoop ke ve n i bs = .ok k ∧ k ≤ bs.length ∧ bs.drop k = r := by
  intro n
  induction n with
  | zero =>
    intro bs i kvs r hi hdec
    simp only [decPairsWith] at hdec
    cases hdec
    exact ⟨i, rfl, hi, rfl⟩
  | succ n ih =>
    intro bs i kvs r hi hdec
    simp only [decPairsWith] at hdec
    cases hd : dk (bs.drop i) with
    | none => simp [hd] at hdec
    | some p =>
      obtain ⟨x, r1⟩ := p
      simp only [hd] at hdec
      obtain ⟨hne, k1, hk1, hle1, hdrop1⟩ := hk _ _ _ hd
      have hlt : i < bs.length := by
        by_cases hh : i < bs.length
        · exact hh
        · exact absurd (List.drop_eq_nil_of_le (by omega)) hne
      simp only [List.length_drop] at hle1
      have hd2 : bs.drop (i + k1) = r1 := by rw [← hdrop1, List.drop_drop]
      cases hdv : dv r1 with
      | none => simp [hdv] at hdec
      | some p2 =>
        obtain ⟨y, r2⟩ := p2
        simp only [hdv] at hdec
        obtain ⟨hne2, k2, hk2, hle2, hdrop2⟩ := hv _ _ _ hdv
        have hlt2 : i + k1 < bs.length := by
          by_cases hh : i + k1 < bs.length
          · exact hh
          · have : bs.drop (i + k1) = [] := List.drop_eq_nil_of_le (by omega)
            rw [hd2] at this; exact absurd this hne2
        rw [← hd2] at hk2 hle2 hdrop2
        simp only [List.length_drop] at hle2
        have hd3 : bs.drop (i + k1 + k2) = r2 := by rw [← hdrop2, List.drop_drop]
        cases hrec : decPairsWith dk dv n r2 with
        | none => simp [hrec] at hdec
        | some q =>
          obtain ⟨kvs', r'⟩ := q
          simp only [hrec] at hdec
          cases hdec
          obtain ⟨k, hkk, hle, hdr⟩ := ih bs (i + k1 + k2) kvs' r (by omega) (by rw [hd3]; exact hrec)
          refine ⟨k, ?_, hle, hdr⟩
          simp only [Gopkg.mapLoop]
          have n1 : ¬ i ≥ bs.length := by omega
          have n2 : ¬ i + k1 ≥ bs.length := by omega
          simp only [n1, if_false, hk1, bind, n2, hk2]
          exact hkk


theorem structLoop_of (d : Nat)
    (ih : ∀ (t : TType) (bs : Bytes) (w : WVal) (r : Bytes), decW d t bs = some (w, r) → SkipsTo (Gopkg.skipType d t.code bs) bs r) :
    ∀ (g : Nat) (bs : Bytes) (i : Nat) (fs : List (Nat × WVal)) (r : Bytes), i ≤ bs.length →
      decFieldsWith (decW d) g (bs.drop i) = some (fs, r) →
      ∃ k, Gopkg.structLoop (Gopkg.skipType d) g i bs = .ok k ∧ k ≤ bs.length ∧ bs.drop k = r := by
  intro g
  induction g with
  | zero => intro bs i fs r _ hdec; simp [decFieldsWith] at hdec
  | succ g ihg =>
    intro bs i fs r hi hdec
    cases hb : bs.drop i with
    | nil => rw [hb] at hdec; simp [decFieldsWith] at hdec
    | cons c rest =>
      rw [hb] at hdec
      obtain ⟨hlt, hget, hrest⟩ := drop_cons_getD bs i c rest hb
      simp only [decFieldsWith] at hdec
      have n1 : ¬ i ≥ bs.length := by omega
      by_cases hc : c = 0
      · simp only [hc, if_true] at hdec
        cases hdec
        refine ⟨i + 1, ?_, by omega, hrest⟩
        simp only [Gopkg.structLoop, n1, if_false, hget, hc, if_true]
      · simp only [hc, if_false] at hdec
        cases ht : TType.ofCode c with
        | none => simp [ht] at hdec
        | some t =>
          simp only [ht] at hdec
          have hcode := ofCode_some c t ht
          cases hr : readN 2 rest with
          | none => simp [hr] at hdec
          | some p =>
            obtain ⟨id, r1⟩ := p
            simp only [hr] at hdec
            obtain ⟨h2le, _, hr1⟩ := readN_some 2 rest id r1 hr
            have hd3 : bs.drop (i + 1 + 2) = r1 := by rw [hr1, ← hrest, List.drop_drop]
            cases hv : decW d t r1 with
            | none => simp [hv] at hdec
            | some q =>
              obtain ⟨v, r2⟩ := q
              simp only [hv] at hdec
              have hne := decW_ne_nil d t r1 v r2 hv
              have hpos := decW_fuel_pos d t r1 v r2 hv
              have hlt3 : i + 1 + 2 < bs.length := by
                by_cases hh : i + 1 + 2 < bs.length
                · exact hh
                · have : bs.drop (i + 1 + 2) = [] := List.drop_eq_nil_of_le (by omega)
                  rw [hd3] at this; exact absurd this hne
              obtain ⟨k1, hk1, hle1, hdrop1⟩ := skipElem_of d t r1 r2 hpos (ih t r1 v r2 hv)
              rw [← hd3] at hk1 hle1 hdrop1
              simp only [List.length_drop] at hle1
              have hd4 : bs.drop (i + 1 + 2 + k1) = r2 := by rw [← hdrop1, List.drop_drop]
              cases hrec : decFieldsWith (decW d) g r2 with
              | none => simp [hrec] at hdec
              | some q2 =>
                obtain ⟨fs', r'⟩ := q2
                simp only [hrec] at hdec
                cases hdec
                obtain ⟨k, hk, hle, hdr⟩ := ihg bs (i + 1 + 2 + k1) fs' r (by omega) (by rw [hd4]; exact hrec)
                refine ⟨k, ?_, hle, hdr⟩
                simp only [Gopkg.structLoop]
                have n3 : ¬ i + 1 + 2 ≥ bs.length := by omega
                simp only [n1, if_false, hget, hc, n3]
                rw [hcode, typeToSize_code]
                simp only [bind, hk1]
                exact hk

/-- a list of fixed-size elements takes `n * size` bytes -/
theorem decList_fixed (d : Nat) (et : TType) (hz : 0 < tsize et) :
    ∀ (n : Nat) (bs : Bytes) (xs : List WVal) (r : Bytes), decListWith (decW d et) n bs = some (xs, r) →
      n * tsize et ≤ bs.length ∧ r = bs.drop (n * tsize et) := by
  intro n
  induction n with
  | zero => intro bs xs r h; simp only [decListWith] at h; cases h; simp
  | succ n ih =>
    intro bs xs r h
    simp only [decListWith] at h
    cases hd : decW d et bs with
    | none => simp [hd] at h
    | some p =>
      obtain ⟨x, r1⟩ := p
      simp only [hd] at h
      obtain ⟨hle, hr1⟩ := decW_fixed d et bs x r1 hz hd
      cases hrec : decListWith (decW d et) n r1 with
      | none => simp [hrec] at h
      | some q =>
        obtain ⟨xs', r'⟩ := q
        simp only [hrec] at h
        cases h
        obtain ⟨hle2, hr2⟩ := ih r1 xs' r hrec
        rw [hr1] at hle2 hr2
        simp only [List.length_drop, List.drop_drop] at hle2 hr2
        refine ⟨by rw [Nat.add_mul]; omega, ?_⟩
        rw [hr2, Nat.add_mul, Nat.one_mul, Nat.add_comm]

theorem decPairs_fixed (d : Nat) (kt vt : TType) (hk : 0 < tsize kt) (hv : 0 < tsize vt) :
    ∀ (n : Nat) (bs : Bytes) (kvs : List (WVal × WVal)) (r : Bytes), decPairsWith (decW d kt) (decW d vt) n bs = some (kvs, r) →
      n * (tsize kt + tsize vt) ≤ bs.length ∧ r = bs.drop (n * (tsize kt + tsize vt)) := by
  intro n
  induction n with
  | zero => intro bs kvs r h; simp only [decPairsWith] at h; cases h; simp
  | succ n ih =>
    intro bs kvs r h
    simp only [decPairsWith] at h
    cases hd : decW d kt bs with
    | none => simp [hd] at h
    | some p =>
      obtain ⟨x, r1⟩ := p
      simp only [hd] at h
      obtain ⟨hle, hr1⟩ := decW_fixed d kt bs x r1 hk hd
      cases hd2 : decW d vt r1 with
      | none => simp [hd2] at h
      | some p2 =>
        obtain ⟨y, r2⟩ := p2
        simp only [hd2] at h
        obtain ⟨hle', hr2⟩ := decW_fixed d vt r1 y r2 hv hd2
        cases hrec : decPairsWith (decW d kt) (decW d vt) n r2 with
        | none => simp [hrec] at h
        | some q =>
          obtain ⟨kvs', r'⟩ := q
          simp only [hrec] at h
          cases h
          obtain ⟨hle3, hr3⟩ := ih r2 kvs' r hrec
          rw [hr2, hr1] at hle3 hr3
          rw [hr1] at hle'
          simp only [List.length_drop, List.drop_drop] at hle3 hr3 hle'
          refine ⟨by rw [Nat.add_mul]; omega, ?_⟩
          rw [hr3, Nat.add_mul, Nat.one_mul]
          congr 1; omega


theorem u32_eq (bs : Bytes) (n : Nat) (r : Bytes) (h : readN 4 bs = some (n, r)) : Gopkg.u32 bs = n := by
  obtain ⟨_, hn, _⟩ := readN_some 4 bs n r h
  rw [hn]; rfl


theorem elem_of (d : Nat)
    (ih : ∀ (t : TType) (bs : Bytes) (w : WVal) (r : Bytes), decW d t bs = some (w, r) → SkipsTo (Gopkg.skipType d t.code bs) bs r)
    (et : TType) : ∀ bs x r, decW d et bs = some (x, r) →
      bs ≠ [] ∧ SkipsTo (Gopkg.skipElem (Gopkg.skipType d) (tsize et) et.code bs) bs r :=
  fun bs x r h => ⟨decW_ne_nil d et bs x r h, skipElem_of d et bs r (decW_fuel_pos d et bs x r h) (ih et bs x r h)⟩

theorem skip_list_case (d : Nat)
    (ih : ∀ (t : TType) (bs : Bytes) (w : WVal) (r : Bytes), decW d t bs = some (w, r) → SkipsTo (Gopkg.skipType d t.code bs) bs r)
    (code : Nat) (hcode : code = 14 ∨ code = 15) (ec : Nat) (r0 : Bytes) (et : TType) (het : TType.ofCode ec = some et)
    (n : Nat) (r' : Bytes) (h4 : readN 4 r0 = some (n, r')) (hn : ¬ n ≥ maxSize) (xs : List WVal) (r : Bytes)
    (hl : decListWith (decW d et) n r' = some (xs, r)) :
    SkipsTo (Gopkg.skipType (d + 1) code (ec :: r0)) (ec :: r0) r := by
  obtain ⟨h4le, _, hr'⟩ := readN_some 4 r0 n r' h4
  have hec := ofCode_some ec et het
  subst hec
  have hu : Gopkg.u32 (List.drop 1 (et.code :: r0)) = n := by simpa using u32_eq r0 n r' h4
  have hd5 : List.drop 5 (et.code :: r0) = r' := by rw [hr']; rfl
  have hts : Gopkg.typeToSize code = .ok 0 := by rcases hcode with h | h <;> subst h <;> rfl
  have hlen : ¬ 5 > (et.code :: r0).length := by simp only [List.length_cons]; omega
  have hg : (et.code :: r0).getD 0 0 = et.code := rfl
  have c1 : ¬ code = 11 := by omega
  have c2 : ¬ code = 13 := by omega
  unfold Gopkg.skipType
  rw [hts]
  simp only [bind, Nat.lt_irrefl, if_false, c1, c2, hcode, if_true, hlen, hg, hu, hn]
  rw [typeToSize_code]
  simp only []
  by_cases hz : 0 < tsize et
  · obtain ⟨hle, hr⟩ := decList_fixed d et hz n r' xs r hl
    rw [hr'] at hle
    simp only [List.length_drop] at hle
    simp only [hz, if_true]
    split
    · rename_i hgt
      simp only [List.length_cons] at hgt
      omega
    · refine ⟨_, rfl, by simp only [List.length_cons]; omega, ?_⟩
      rw [hr, ← hd5, List.drop_drop]
  · simp only [hz, if_false]
    exact listLoop_of _ _ (elem_of d ih et) n (et.code :: r0) 5 xs r
      (by simp only [List.length_cons]; omega) (by rw [hd5]; exact hl)

theorem skip_map_case (d : Nat)
    (ih : ∀ (t : TType) (bs : Bytes) (w : WVal) (r : Bytes), decW d t bs = some (w, r) → SkipsTo (Gopkg.skipType d t.code bs) bs r)
    (kc vc : Nat) (r0 : Bytes) (kt vt : TType) (hkt : TType.ofCode kc = some kt) (hvt : TType.ofCode vc = some vt)
    (n : Nat) (r' : Bytes) (h4 : readN 4 r0 = some (n, r')) (hn : ¬ n ≥ maxSize) (kvs : List (WVal × WVal)) (r : Bytes)
    (hl : decPairsWith (decW d kt) (decW d vt) n r' = some (kvs, r)) :
    SkipsTo (Gopkg.skipType (d + 1) 13 (kc :: vc :: r0)) (kc :: vc :: r0) r := by
  obtain ⟨h4le, _, hr'⟩ := readN_some 4 r0 n r' h4
  have hkc := ofCode_some kc kt hkt
  have hvc := ofCode_some vc vt hvt
  subst hkc
  subst hvc
  have hu : Gopkg.u32 (List.drop 2 (kt.code :: vt.code :: r0)) = n := by simpa using u32_eq r0 n r' h4
  have hd6 : List.drop 6 (kt.code :: vt.code :: r0) = r' := by rw [hr']; rfl
  have hts : Gopkg.typeToSize 13 = .ok 0 := rfl
  have hlen : ¬ 6 > (kt.code :: vt.code :: r0).length := by simp only [List.length_cons]; omega
  have hg0 : (kt.code :: vt.code :: r0).getD 0 0 = kt.code := rfl
  have hg1 : (kt.code :: vt.code :: r0).getD 1 0 = vt.code := rfl
  unfold Gopkg.skipType
  rw [hts]
  simp only [bind, Nat.lt_irrefl, if_false, if_true, hlen, hg0, hg1, hu, hn]
  simp only [show ¬ (13 : Nat) = 11 by decide, if_false]
  rw [typeToSize_code, typeToSize_code]
  simp only []
  by_cases hz : 0 < tsize kt ∧ 0 < tsize vt
  · obtain ⟨hle, hr⟩ := decPairs_fixed d kt vt hz.1 hz.2 n r' kvs r hl
    rw [hr'] at hle
    simp only [List.length_drop] at hle
    simp only [hz.1, hz.2, decide_true, Bool.and_self, if_true]
    split
    · rename_i hgt
      simp only [List.length_cons] at hgt
      omega
    · refine ⟨_, rfl, by simp only [List.length_cons]; omega, ?_⟩
      rw [hr, ← hd6, List.drop_drop]
  · have : (decide (0 < tsize kt) && decide (0 < tsize vt)) = false := by
      simp only [Bool.and_eq_false_iff, decide_eq_false_iff_not]
      by_cases h1 : 0 < tsize kt
      · right; intro h2; exact hz ⟨h1, h2⟩
      · left; exact h1
    simp only [this, Bool.false_eq_true, if_false]
    exact mapLoop_of _ _ _ _ (elem_of d ih kt) (elem_of d ih vt) n (kt.code :: vt.code :: r0) 6 kvs r
      (by simp only [List.length_cons]; omega) (by rw [hd6]; exact hl)
/-- **gopkg's Skip accepts whatever the strict untyped decoder accepts, consuming the same bytes** -/
theorem skipType_refines : ∀ (d : Nat) (t : TType) (bs : Bytes) (w : WVal) (r : Bytes),
    decW d t bs = some (w, r) → SkipsTo (Gopkg.skipType d t.code bs) bs r := by
  intro d
  induction d with
  | zero => intro t bs w r h; simp [decW] at h
  | succ d ih =>
    intro t bs w r h
    by_cases hz : 0 < tsize t
    · -- fixed-size
      obtain ⟨hle, hr⟩ := decW_fixed (d + 1) t bs w r hz h
      refine ⟨tsize t, ?_, hle, hr.symm⟩
      unfold Gopkg.skipType
      rw [typeToSize_code]
      have : ¬ tsize t > bs.length := by omega
      simp only [bind, hz, if_true, this, if_false]
    · cases t <;> simp [tsize] at hz
      case str =>
        simp only [decW] at h
        cases h4 : readN 4 bs with
        | none => simp [h4] at h
        | some p =>
          obtain ⟨n, r1⟩ := p
          simp only [h4] at h
          split at h
          · cases h
          · rename_i hn
            cases hb : readBytes n r1 with
            | none => simp [hb] at h
            | some q =>
              obtain ⟨b, r'⟩ := q
              simp only [hb] at h
              cases h
              obtain ⟨h4le, _, hr1⟩ := readN_some 4 bs n r1 h4
              obtain ⟨hnle, _, hr'⟩ := readBytes_some n r1 b r hb
              rw [hr1] at hnle hr'
              simp only [List.length_drop, List.drop_drop] at hnle hr'
              refine ⟨4 + n, ?_, by omega, hr'.symm⟩
              unfold Gopkg.skipType
              have e : Gopkg.typeToSize TType.str.code = .ok 0 := rfl
              rw [e]
              have c11 : TType.str.code = 11 := rfl
              simp only [bind, c11, if_true, Nat.lt_irrefl, if_false]
              unfold Gopkg.skipstr
              have : 4 ≤ bs.length := h4le
              have hu := u32_eq bs n r1 h4
              have h1 : ¬ n ≥ maxSize := hn
              have h2 : 4 + n ≤ bs.length := by omega
              simp [this, hu, h1, h2, FRes.ofOption]
      case struct =>
        simp only [decW] at h
        cases hf : decFieldsWith (decW d) (bs.length + 1) bs with
        | none => simp [hf] at h
        | some p =>
          obtain ⟨fs, r'⟩ := p
          simp only [hf] at h
          cases h
          obtain ⟨k, hk, hle, hdr⟩ := structLoop_of d ih (bs.length + 1) bs 0 fs r (by omega) (by simpa using hf)
          refine ⟨k, ?_, hle, hdr⟩
          unfold Gopkg.skipType
          have e : Gopkg.typeToSize TType.struct.code = .ok 0 := rfl
          rw [e]
          have c12 : TType.struct.code = 12 := rfl
          simp only [bind, c12, Nat.lt_irrefl, if_false]
          simpa using hk
      case map =>
        simp only [decW] at h
        cases bs with
        | nil => simp at h
        | cons kc r1 => cases r1 with
          | nil => simp at h
          | cons vc r0 =>
            simp only [] at h
            cases hkt : TType.ofCode kc with
            | none => simp [hkt] at h
            | some kt => cases hvt : TType.ofCode vc with
              | none => simp [hkt, hvt] at h
              | some vt =>
                simp only [hkt, hvt] at h
                cases h4 : readN 4 r0 with
                | none => simp [h4] at h
                | some p =>
                  obtain ⟨n, r'⟩ := p
                  simp only [h4] at h
                  split at h
                  · cases h
                  · rename_i hn
                    cases hl : decPairsWith (decW d kt) (decW d vt) n r' with
                    | none => simp [hl] at h
                    | some q =>
                      obtain ⟨kvs, r''⟩ := q
                      simp only [hl] at h
                      cases h
                      exact skip_map_case d ih kc vc r0 kt vt hkt hvt n r' h4 hn kvs r hl
      case set =>
        simp only [decW] at h
        cases bs with
        | nil => simp at h
        | cons ec r0 =>
          simp only [] at h
          cases het : TType.ofCode ec with
          | none => simp [het] at h
          | some et =>
            simp only [het] at h
            cases h4 : readN 4 r0 with
            | none => simp [h4] at h
            | some p =>
              obtain ⟨n, r'⟩ := p
              simp only [h4] at h
              split at h
              · cases h
              · rename_i hn
                cases hl : decListWith (decW d et) n r' with
                | none => simp [hl] at h
                | some q =>
                  obtain ⟨xs, r''⟩ := q
                  simp only [hl] at h
                  cases h
                  exact skip_list_case d ih 14 (Or.inl rfl) ec r0 et het n r' h4 hn xs r hl
      case list =>
        simp only [decW] at h
        cases bs with
        | nil => simp at h
        | cons ec r0 =>
          simp only [] at h
          cases het : TType.ofCode ec with
          | none => simp [het] at h
          | some et =>
            simp only [het] at h
            cases h4 : readN 4 r0 with
            | none => simp [h4] at h
            | some p =>
              obtain ⟨n, r'⟩ := p
              simp only [h4] at h
              split at h
              · cases h
              · rename_i hn
                cases hl : decListWith (decW d et) n r' with
                | none => simp [hl] at h
                | some q =>
                  obtain ⟨xs, r''⟩ := q
                  simp only [hl] at h
                  cases h
                  exact skip_list_case d ih 15 (Or.inr rfl) ec r0 et het n r' h4 hn xs r hl




/-! ### the suggested repair of gopkg's Skip, and the proof that it satisfies `SkipBounded` -/
namespace Gopkg

/-- `typeToSize[uint8(t)]`: no negative index; bytes ≥ 0x80 have size 0 and end in "unknown data type" -/
def typeToSizeF (t : Nat) : Nat :=
  if t = 2 ∨ t = 3 then 1 else if t = 6 then 2 else if t = 8 then 4 else if t = 4 ∨ t = 10 then 8 else 0

def structLoopF (rec : Nat → Bytes → FRes Nat) : Nat → Nat → Bytes → FRes Nat
  | 0, _, _ => .err
  | g+1, i, bs =>
    if i ≥ bs.length then .err else
    let ft := bs.getD i 0
    let i := i + 1
    if ft = 0 then .ok i else
    let i := i + 2
    if i ≥ bs.length then .err else do
    let fi ← skipElem rec (typeToSizeF ft) ft (bs.drop i)
    structLoopF rec g (i + fi) bs

/-- `skipType` with (a) `typeToSize[uint8(t)]` and (b) `if p+i > e { return errBufferTooShort }` before the
`return i, nil` of the MAP loop -/
def skipTypeF : Nat → Nat → Bytes → FRes Nat
  | 0, _, _ => .err
  | d+1, t, bs =>
    let n := typeToSizeF t
    if 0 < n then (if n > bs.length then .err else .ok n)
    else if t = 11 then FRes.ofOption (skipstr bs)
    else if t = 13 then
      if 6 > bs.length then .err else
      let kt := bs.getD 0 0
      let vt := bs.getD 1 0
      let sz := u32 (bs.drop 2)
      if sz ≥ maxSize then .err else
      let ksz := typeToSizeF kt
      let vsz := typeToSizeF vt
      if 0 < ksz && 0 < vsz then
        (if 6 + sz * (ksz + vsz) > bs.length then .err else .ok (6 + sz * (ksz + vsz)))
      else do
        let i ← mapLoop (skipElem (skipTypeF d) ksz kt) (skipElem (skipTypeF d) vsz vt) sz 6 bs
        if i > bs.length then .err else .ok i
    else if t = 14 ∨ t = 15 then
      if 5 > bs.length then .err else
      let vt := bs.getD 0 0
      let sz := u32 (bs.drop 1)
      if sz ≥ maxSize then .err else
      let vsz := typeToSizeF vt
      if 0 < vsz then (if 5 + sz * vsz > bs.length then .err else .ok (5 + sz * vsz))
      else listLoop (skipElem (skipTypeF d) vsz vt) sz 5 bs
    else if t = 12 then structLoopF (skipTypeF d) (bs.length + 1) 0 bs
    else .err

def skipF (t : Nat) (bs : Bytes) : FRes Nat :=
  if bs.length = 0 then .err else skipTypeF 64 t bs

end Gopkg

/-- in-range answer or error, never a panic -/
def Bounded (r : FRes Nat) (bs : Bytes) : Prop :=
  match r with
  | .ok l => l ≤ bs.length
  | .err => True
  | .panic _ => False

theorem skipstr_bounded (bs : Bytes) : Bounded (FRes.ofOption (Gopkg.skipstr bs)) bs := by
  unfold Gopkg.skipstr
  split
  · simp only []
    split
    · trivial
    · split
      · simp only [FRes.ofOption, Bounded]; omega
      · trivial
  · trivial

theorem listLoop_bounded (elem : Bytes → FRes Nat) (he : ∀ bs, Bounded (elem bs) bs) :
    ∀ (n i : Nat) (bs : Bytes), i ≤ bs.length → Bounded (Gopkg.listLoop elem n i bs) bs := by
  intro n
  induction n with
  | zero => intro i bs hi; simpa [Gopkg.listLoop, Bounded] using hi
  | succ n ih =>
    intro i bs hi
    simp only [Gopkg.listLoop]
    split
    · trivial
    · have hb := he (bs.drop i)
      cases hk : elem (bs.drop i) with
      | panic w => rw [hk] at hb; exact hb.elim
      | err => trivial
      | ok k =>
        rw [hk] at hb
        simp only [Bounded, List.length_drop] at hb
        simp only [bind]
        exact ih (i + k) bs (by omega)

theorem mapLoop_np (ke ve : Bytes → FRes Nat) (hk : ∀ bs, NoPanic (ke bs)) (hv : ∀ bs, NoPanic (ve bs)) :
    ∀ (n i : Nat) (bs : Bytes), NoPanic (Gopkg.mapLoop ke ve n i bs) := by
  intro n
  induction n with
  | zero => intro i bs; trivial
  | succ n ih =>
    intro i bs
    simp only [Gopkg.mapLoop]
    split
    · trivial
    · apply NoPanic.bind _ _ (hk _)
      intro a _
      split
      · trivial
      · apply NoPanic.bind _ _ (hv _)
        intro b _
        exact ih _ _

theorem Bounded.noPanic {r : FRes Nat} {bs : Bytes} (h : Bounded r bs) : NoPanic r := by
  cases r <;> first | trivial | exact h

theorem skipElem_np (rec : Nat → Bytes → FRes Nat) (hr : ∀ t bs, NoPanic (rec t bs)) (sz t : Nat) (bs : Bytes) :
    NoPanic (Gopkg.skipElem rec sz t bs) := by
  unfold Gopkg.skipElem
  split
  · trivial
  · split
    · exact (skipstr_bounded bs).noPanic
    · exact hr t bs

theorem skipElem_bounded0 (rec : Nat → Bytes → FRes Nat) (hr : ∀ t bs, Bounded (rec t bs) bs) (t : Nat) (bs : Bytes) :
    Bounded (Gopkg.skipElem rec 0 t bs) bs := by
  unfold Gopkg.skipElem
  simp only [Nat.lt_irrefl, if_false]
  split
  · exact skipstr_bounded bs
  · exact hr t bs

theorem structLoopF_bounded (rec : Nat → Bytes → FRes Nat) (hr : ∀ t bs, NoPanic (rec t bs)) :
    ∀ (g i : Nat) (bs : Bytes), Bounded (Gopkg.structLoopF rec g i bs) bs := by
  intro g
  induction g with
  | zero => intro i bs; trivial
  | succ g ih =>
    intro i bs
    simp only [Gopkg.structLoopF]
    split
    · trivial
    · rename_i hlt
      split
      · simp only [Bounded]; omega
      · split
        · trivial
        · have hn := skipElem_np rec hr (Gopkg.typeToSizeF (bs.getD i 0)) (bs.getD i 0) (bs.drop (i + 1 + 2))
          cases hk : Gopkg.skipElem rec (Gopkg.typeToSizeF (bs.getD i 0)) (bs.getD i 0) (bs.drop (i + 1 + 2)) with
          | panic w => rw [hk] at hn; exact hn.elim
          | err => trivial
          | ok k => simp only [bind]; exact ih _ _

theorem skipTypeF_bounded : ∀ (d t : Nat) (bs : Bytes), Bounded (Gopkg.skipTypeF d t bs) bs := by
  intro d
  induction d with
  | zero => intro t bs; trivial
  | succ d ih =>
    intro t bs
    have ihn : ∀ t bs, NoPanic (Gopkg.skipTypeF d t bs) := fun t bs => (ih t bs).noPanic
    simp only [Gopkg.skipTypeF]
    split
    · split
      · trivial
      · simp only [Bounded]; omega
    · split
      · exact skipstr_bounded bs
      · split
        · -- MAP
          split
          · trivial
          · split
            · trivial
            · split
              · split
                · trivial
                · simp only [Bounded]; omega
              · have hn := mapLoop_np _ _ (skipElem_np (Gopkg.skipTypeF d) ihn (Gopkg.typeToSizeF (bs.getD 0 0)) (bs.getD 0 0))
                  (skipElem_np (Gopkg.skipTypeF d) ihn (Gopkg.typeToSizeF (bs.getD 1 0)) (bs.getD 1 0)) (Gopkg.u32 (bs.drop 2)) 6 bs
                cases hk : Gopkg.mapLoop (Gopkg.skipElem (Gopkg.skipTypeF d) (Gopkg.typeToSizeF (bs.getD 0 0)) (bs.getD 0 0))
                    (Gopkg.skipElem (Gopkg.skipTypeF d) (Gopkg.typeToSizeF (bs.getD 1 0)) (bs.getD 1 0)) (Gopkg.u32 (bs.drop 2)) 6 bs with
                | panic w => rw [hk] at hn; exact hn.elim
                | err => trivial
                | ok k =>
                  simp only [bind]
                  split
                  · trivial
                  · simp only [Bounded]; omega
        · split
          · -- LIST / SET
            split
            · trivial
            · split
              · trivial
              · split
                · split
                  · trivial
                  · simp only [Bounded]; omega
                · rename_i hlen _ hz
                  have hz0 : Gopkg.typeToSizeF (bs.getD 0 0) = 0 := by omega
                  rw [hz0]
                  exact listLoop_bounded _ (skipElem_bounded0 (Gopkg.skipTypeF d) ih (bs.getD 0 0)) _ 5 bs (by omega)
          · split
            · exact structLoopF_bounded (Gopkg.skipTypeF d) ihn _ 0 bs
            · trivial

/-- the repaired Skip satisfies the hypothesis of `fast_read_no_panic` -/
theorem skipF_bounded : SkipBounded Gopkg.skipF := by
  intro t bs
  show Bounded (Gopkg.skipF t bs) bs
  unfold Gopkg.skipF
  split
  · trivial
  · exact skipTypeF_bounded 64 t bs



/-- **the guards emitted by the repaired generator discharge the hypothesis on the runtime's Skip**: whatever
gopkg's Skip answers — a panic (recovered by the deferred `recover()`), a length beyond the buffer (caught by
`if off > len(b)`) — the guarded skip path is bounds-respecting. Nothing about `Gopkg.skip` is used. -/
theorem guardedSkip_bounded (n : Bool) : SkipBounded (guardedSkip n true true) := by
  intro t bs
  show Bounded (guardedSkip n true true t bs) bs
  unfold guardedSkip
  split
  · trivial
  · cases Gopkg.skip t bs with
    | panic w => trivial
    | err => trivial
    | ok l =>
      simp only [Bool.true_and]
      by_cases h : l > bs.length
      · simp only [h, decide_true, if_true]; trivial
      · simp only [h, decide_false, Bool.false_eq_true, if_false]
        show l ≤ bs.length
        omega

/-- without guards the skip path is gopkg's Skip -/
theorem guardedSkip_none : guardedSkip false false false = Gopkg.skip := by
  funext t bs
  unfold guardedSkip
  cases Gopkg.skip t bs <;> simp

end Gen.Fast
