import ThriftVerif.Gen.Mask
import ThriftVerif.Gen.StdLemmas
/-
  Helper lemmas for Props/C13.lean (field-mask filtered serialization).
-/
namespace Gen.Mask
open Wire Gen Gen.Std
open FieldMask (MaskOpt Sites)

/-! ### counting -/

/-- number of `j` in `[i, i+k)` with `p j` -/
def cnt (p : Nat → Bool) : Nat → Nat → Nat
  | _, 0 => 0
  | i, k + 1 => (if p i then 1 else 0) + cnt p (i + 1) k

theorem cnt_le (p : Nat → Bool) : ∀ k i, cnt p i k ≤ k := by
  intro k
  induction k with
  | zero => intro i; simp [cnt]
  | succ k ih => intro i; have := ih (i + 1); simp only [cnt]; split <;> omega

theorem cnt_range' (p : Nat → Bool) : ∀ k i, ((List.range' i k).filter p).length = cnt p i k := by
  intro k
  induction k with
  | zero => intro i; simp [cnt]
  | succ k ih =>
    intro i
    rw [List.range'_succ, List.filter_cons]
    have := ih (i + 1)
    split <;> simp_all [cnt] <;> omega

theorem cnt_range (p : Nat → Bool) (n : Nat) : ((List.range n).filter p).length = cnt p 0 n := by
  rw [List.range_eq_range']; exact cnt_range' p n 0

theorem cnt_not (p : Nat → Bool) : ∀ k i, cnt p i k + cnt (fun j => !p j) i k = k := by
  intro k
  induction k with
  | zero => intro i; simp [cnt]
  | succ k ih =>
    intro i
    have := ih (i + 1)
    simp only [cnt]
    by_cases h : p i = true
    · simp [h]; omega
    · have h' : p i = false := by simpa using h
      simp [h']; omega

theorem cnt_all (p : Nat → Bool) : ∀ k i, (∀ j, i ≤ j → j < i + k → p j = true) → cnt p i k = k := by
  intro k
  induction k with
  | zero => intro i _; simp [cnt]
  | succ k ih =>
    intro i h
    have h1 := h i (Nat.le_refl _) (by omega)
    have := ih (i + 1) (fun j a b => h j (by omega) (by omega))
    simp [cnt, h1, this]; omega

/-- the repaired loop subtracts exactly the unselected indices -/
theorem precountFix_eq (ex : Nat → Bool) : ∀ rem i l, precountFix ex rem i l = l - cnt (fun j => !ex j) i rem := by
  intro rem
  induction rem with
  | zero => intro i l; simp [precountFix, cnt]
  | succ rem ih =>
    intro i l
    simp only [precountFix, cnt, ih]
    by_cases h : ex i = true
    · simp [h]
    · have h' : ex i = false := by simpa using h
      simp [h']; omega

theorem precountFix_count (ex : Nat → Bool) (n : Nat) : precountFix ex n 0 n = cnt ex 0 n := by
  rw [precountFix_eq]; have := cnt_not ex n 0; omega

/-- the loop as coded never announces fewer elements than are selected below its current bound:
it only decrements at unselected indices it visits, and it visits a subset of `[i, l)` -/
theorem precountMut_ge (ex : Nat → Bool) : ∀ fuel i l, l - cnt (fun j => !ex j) i (l - i) ≤ precountMut ex fuel i l := by
  intro fuel
  induction fuel with
  | zero => intro i l; simp [precountMut]
  | succ fuel ih =>
    intro i l
    simp only [precountMut]
    split
    · rename_i hlt
      have e : l - i = (l - i - 1) + 1 := by omega
      rw [e]
      simp only [cnt]
      by_cases hx0 : ex i = true
      case neg =>
        have hx : ex i = false := by simpa using hx0
        simp only [hx, Bool.not_false, if_true, Bool.false_eq_true, if_false]
        have := ih (i + 1) (l - 1)
        have e2 : l - 1 - (i + 1) = l - i - 1 - 1 := by omega
        rw [e2] at this
        -- cnt over a shorter range is smaller
        have hmono : ∀ (p : Nat → Bool) k i, cnt p i k ≤ cnt p i (k + 1) := by
          intro p k
          induction k with
          | zero => intro i; simp [cnt]
          | succ k ihk => intro i; have := ihk (i + 1); simp only [cnt] at *; omega
        by_cases hz : l - i - 1 = 0
        · have hz2 : l - i - 1 - 1 = 0 := by omega
          rw [hz2] at this
          rw [hz]
          simp only [cnt] at *
          omega
        case neg =>
          have e3 : l - i - 1 = (l - i - 1 - 1) + 1 := by omega
          have hm := hmono (fun j => !ex j) (l - i - 1 - 1) (i + 1)
          rw [← e3] at hm
          omega
      case pos =>
        simp only [hx0, Bool.not_true, if_true, Bool.false_eq_true, if_false]
        have := ih (i + 1) l
        have e2 : l - (i + 1) = l - i - 1 := by omega
        rw [e2] at this
        omega
    · rename_i hge
      have : l - i = 0 := by omega
      simp [this, cnt]

theorem precountMut_all (ex : Nat → Bool) (n : Nat) (h : ∀ j, j < n → ex j = true) : ∀ fuel i, i ≤ n → precountMut ex fuel i n = n := by
  intro fuel
  induction fuel with
  | zero => intro i _; simp [precountMut]
  | succ fuel ih =>
    intro i hi
    simp only [precountMut]
    split
    · rename_i hlt; simp [h i hlt]; exact ih (i + 1) (by omega)
    · rfl

/-- FieldWriteMap's count: the bound is not touched, every key is visited once -/
theorem precountKeys_eq {α} (ex : α → Bool) (keys : List α) : precountKeys ex keys = (keys.filter ex).length := by
  have gen : ∀ (ks : List α) (l : Nat), (ks.filter (fun k => !ex k)).length ≤ l →
      ks.foldl (fun l k => if ex k then l else l - 1) l = l - (ks.filter (fun k => !ex k)).length := by
    intro ks
    induction ks with
    | nil => intro l _; simp
    | cons k r ih =>
      intro l hl
      simp only [List.foldl_cons]
      by_cases hk : ex k = true
      · have e : List.filter (fun k => !ex k) (k :: r) = List.filter (fun k => !ex k) r := by simp [List.filter_cons, hk]
        rw [e] at hl ⊢
        simp only [hk, if_true]
        exact ih l hl
      · have hk' : ex k = false := by simpa using hk
        have e : List.filter (fun k => !ex k) (k :: r) = k :: List.filter (fun k => !ex k) r := by simp [List.filter_cons, hk']
        rw [e] at hl ⊢
        simp only [hk', List.length_cons, Bool.false_eq_true, if_false] at *
        rw [ih (l - 1) (by omega)]; omega
  have hsplit : ∀ (ks : List α), (ks.filter ex).length + (ks.filter (fun k => !ex k)).length = ks.length := by
    intro ks
    induction ks with
    | nil => simp
    | cons k r ih => simp only [List.filter_cons]; cases h : ex k <;> simp <;> omega
  unfold precountKeys
  have := hsplit keys
  rw [gen keys keys.length (by omega)]; omega

/-! ### the library's answers on a nil mask -/

@[simp] theorem qField_none (cfg : Sites) (id : Int) : qField cfg .none id = .ok (.none, true) := rfl
@[simp] theorem qInt_none (cfg : Sites) (i : Int) : qInt cfg .none i = (.none, true) := rfl
@[simp] theorem qStr_none (cfg : Sites) (s : Bytes) : qStr cfg .none s = (.none, true) := rfl
@[simp] theorem keyQ_none (cfg : Sites) (k : Ty) (a : GoVal) : keyQ cfg k .none a = (.none, true) := by
  unfold keyQ; split
  · rfl
  · split <;> rfl
@[simp] theorem allQ_none : (MaskOpt.none).allQ = true := rfl
@[simp] theorem lenShortcut_none (T : Tpl) : lenShortcut T .none = true := by simp [lenShortcut, isBlackQ]
@[simp] theorem reqMask_none (T : Tpl) (b : Bool) : reqMask T (.none, b) = .none := by unfold reqMask; split <;> rfl
@[simp] theorem childMask_noOwn (O : Opts) (fm : MaskOpt) : childMask O none fm = fm := by
  unfold childMask; split <;> rfl
@[simp] theorem Env.get_nil (j : Nat) : Env.get [] j = none := rfl

/-! ### exact-count trees -/

def Res.map {α β} (f : α → β) : Res α → Res β
  | .ok a => .ok (f a)
  | .err => .err
  | .panic => .panic

@[simp] theorem embed_ttype (w : WVal) : (embed w).ttype = w.ttype := by
  cases w <;> simp [embed, MW.ttype, WVal.ttype]

mutual
theorem encM_embed (w : WVal) : encM (embed w) = encW w := by
  cases w with
  | struct fs => simp [embed, encM, encW, encMFields_embed fs]
  | map kt vt kvs => simp [embed, encM, encW, encMPairs_embed kvs, embedPairs_length kvs]
  | set et xs => simp [embed, encM, encW, encMList_embed xs, embedList_length xs]
  | list et xs => simp [embed, encM, encW, encMList_embed xs, embedList_length xs]
  | _ => simp [embed, encM]
theorem encMFields_embed (fs : List (Nat × WVal)) : encMFields (embedFields fs) = encFields fs := by
  cases fs with
  | nil => simp [embedFields, encMFields, encFields]
  | cons a r => obtain ⟨i, v⟩ := a; simp [embedFields, encMFields, encFields, encM_embed v, encMFields_embed r]
theorem encMPairs_embed (kvs : List (WVal × WVal)) : encMPairs (embedPairs kvs) = encPairs kvs := by
  cases kvs with
  | nil => simp [embedPairs, encMPairs, encPairs]
  | cons a r => obtain ⟨k, v⟩ := a; simp [embedPairs, encMPairs, encPairs, encM_embed k, encM_embed v, encMPairs_embed r]
theorem encMList_embed (xs : List WVal) : encMList (embedList xs) = encList xs := by
  cases xs with
  | nil => simp [embedList, encMList, encList]
  | cons x r => simp [embedList, encMList, encList, encM_embed x, encMList_embed r]
theorem embedPairs_length (kvs : List (WVal × WVal)) : (embedPairs kvs).length = kvs.length := by
  cases kvs with
  | nil => simp [embedPairs]
  | cons a r => obtain ⟨k, v⟩ := a; simp [embedPairs, embedPairs_length r]
theorem embedList_length (xs : List WVal) : (embedList xs).length = xs.length := by
  cases xs with
  | nil => simp [embedList]
  | cons x r => simp [embedList, embedList_length r]
end

/-! ### a nil mask: the masked Write is the standard Write -/

theorem embed_scalar (ty : Ty) (v : GoVal) (w : WVal) (h : scalarW ty v = some w) : embed w = .leaf w := by
  cases ty <;> cases v <;> simp [scalarW] at h <;> subst h <;> rfl

theorem Res.map_bind {α β γ} (x : Res α) (f : α → Res β) (g : β → γ) :
    Res.map g (x >>= f) = x >>= fun a => Res.map g (f a) := by
  cases x <;> rfl

theorem scalar_case (ty : Ty) (v : GoVal) :
    ((Res.ofOption (scalarW ty v)) >>= fun w => (Res.ok (MW.leaf w) : Res MW)) = Res.map embed (Res.ofOption (scalarW ty v)) := by
  cases h : scalarW ty v with
  | none => rfl
  | some w => simp [Res.ofOption, Res.map, bind, embed_scalar ty v w h]

theorem toWList_length (P : Prog) (e : Ty) : ∀ (xs : List GoVal) (ws : List WVal), toWList P e xs = .ok ws → ws.length = xs.length := by
  intro xs
  induction xs with
  | nil => intro ws h; simp [toWList] at h; subst h; rfl
  | cons x r ih =>
    intro ws h
    simp only [toWList, Res.bind_eq_ok] at h
    obtain ⟨w, _, ws', h2, h3⟩ := h
    cases h3
    simp [ih ws' h2]

theorem toWPairs_length (P : Prog) (k v : Ty) : ∀ (kvs : List (GoVal × GoVal)) (ws : List (WVal × WVal)),
    toWPairs P k v kvs = .ok ws → ws.length = kvs.length := by
  intro kvs
  induction kvs with
  | nil => intro ws h; simp [toWPairs] at h; subst h; rfl
  | cons p r ih =>
    obtain ⟨a, b⟩ := p
    intro ws h
    simp only [toWPairs, Res.bind_eq_ok] at h
    obtain ⟨wa, _, wb, _, ws', h2, h3⟩ := h
    cases h3
    simp [ih ws' h2]

mutual
theorem toM_nil (P : Prog) (T : Tpl) (O : Opts) (cfg : Sites) (v : GoVal) :
    ∀ ty, toM P T O cfg [] .none ty v = Res.map embed (toW P ty v) := by
  intro ty
  cases v with
  | list xs =>
    cases ty <;> try (simp only [toM, toW]; exact scalar_case _ _)
    · rename_i e
      simp only [toM, toW, lenShortcut_none, if_true, toMList_nil P T O cfg xs e 0]
      cases h : toWList P e xs <;> simp [Res.map, bind, embed]
      exact (toWList_length P e xs _ h).symm
    · rename_i e
      simp only [toM, toW, lenShortcut_none, if_true, toMList_nil P T O cfg xs e 0]
      split
      · rfl
      · cases h : toWList P e xs <;> simp [Res.map, bind, embed]
        exact (toWList_length P e xs _ h).symm
  | map kvs =>
    cases ty <;> try (simp only [toM, toW]; exact scalar_case _ _)
    rename_i k w
    simp only [toM, toW, lenShortcut_none, if_true, qInt_none, Bool.or_true, ite_self, toMPairs_nil P T O cfg kvs k w]
    cases h : toWPairs P k w kvs <;> simp [Res.map, bind, embed]
    exact (toWPairs_length P k w kvs _ h).symm
  | strct fs =>
    cases ty <;> try (simp only [toM, toW]; exact scalar_case _ _)
    rename_i i
    simp only [toM, toW]
    cases hs : P.struct? i with
    | none => rfl
    | some sd =>
      by_cases hc : (decide (sd.kind = 1) && countSet sd.fields fs != 1) = true
      · simp only [hc, if_true]; rfl
      · simp only [hc, toMFields_nil P T O cfg fs sd.fields 0]
        cases toWFields P sd.fields fs <;> simp [Res.map, bind, embed]
  | nil =>
    cases ty <;> try (simp only [toM, toW]; exact scalar_case _ _)
    all_goals first
      | (simp [toM, toW, Res.map, embed, embedList, embedPairs]; done)
      | (rename_i i
         simp only [toM, toW]
         cases hs : P.struct? i with
         | none => rfl
         | some sd => by_cases hk : sd.kind = 1 <;> simp [hk, Res.map, embed, embedFields])
  | bool b => cases ty <;> (simp only [toM, toW]; exact scalar_case _ _)
  | int x => cases ty <;> (simp only [toM, toW]; exact scalar_case _ _)
  | dbl x => cases ty <;> (simp only [toM, toW]; exact scalar_case _ _)
  | bytes x => cases ty <;> (simp only [toM, toW]; exact scalar_case _ _)
theorem toMList_nil (P : Prog) (T : Tpl) (O : Opts) (cfg : Sites) (xs : List GoVal) :
    ∀ e i, toMList P T O cfg .none e i xs = Res.map embedList (toWList P e xs) := by
  intro e i
  cases xs with
  | nil => simp [toMList, toWList, Res.map, embedList]
  | cons x r =>
    simp only [toMList, toWList, qInt_none, if_true, toM_nil P T O cfg x e, toMList_nil P T O cfg r e (i + 1)]
    cases toW P e x <;> simp [Res.map, bind]
    cases toWList P e r <;> simp [Res.map, embedList]
theorem toMPairs_nil (P : Prog) (T : Tpl) (O : Opts) (cfg : Sites) (kvs : List (GoVal × GoVal)) :
    ∀ k v, toMPairs P T O cfg .none k v kvs = Res.map embedPairs (toWPairs P k v kvs) := by
  intro k v
  cases kvs with
  | nil => simp [toMPairs, toWPairs, Res.map, embedPairs]
  | cons p r =>
    obtain ⟨a, b⟩ := p
    simp only [toMPairs, toWPairs, keyQ_none, if_true, toM_nil P T O cfg a k, toM_nil P T O cfg b v, toMPairs_nil P T O cfg r k v]
    cases toW P k a <;> simp [Res.map, bind]
    cases toW P v b <;> simp [Res.map]
    cases toWPairs P k v r <;> simp [Res.map, embedPairs]
theorem toMFields_nil (P : Prog) (T : Tpl) (O : Opts) (cfg : Sites) (vs : List GoVal) :
    ∀ defs j, toMFields P T O cfg .none [] j defs vs = Res.map embedFields (toWFields P defs vs) := by
  intro defs j
  cases vs with
  | nil => cases defs <;> simp [toMFields, toWFields, Res.map, embedFields]
  | cons v r =>
    cases defs with
    | nil => simp [toMFields, toWFields, Res.map]
    | cons f fs =>
      simp only [toMFields, toWFields, qField_none, Env.get_nil, childMask_noOwn, reqMask_none, ite_self]
      split
      · exact toMFields_nil P T O cfg r fs (j + 1)
      · have key : (do
            let w ← toM P T O cfg [] .none f.ty v
            let ws ← toMFields P T O cfg .none [] (j + 1) fs r
            Res.ok ((pat 16 f.id, w) :: ws)) = Res.map embedFields (do
            let w ← toW P f.ty v
            let ws ← toWFields P fs r
            Res.ok ((pat 16 f.id, w) :: ws)) := by
          rw [toM_nil P T O cfg v f.ty, toMFields_nil P T O cfg r fs (j + 1)]
          cases toW P f.ty v <;> simp [Res.map, bind]
          cases toWFields P fs r <;> simp [Res.map, embedFields]
        split
        · simpa [bind] using key
        · simpa [bind] using key
end

/-! ### a nil mask: the masked Read is the standard Read -/

@[simp] theorem liftO_none {α} : (liftO (none : Option α)) = .err := rfl
@[simp] theorem liftO_some {α} (a : α) : liftO (some a) = .ok a := rfl

theorem readListM_nil (d : MaskOpt → Bytes → Res (GoVal × Bytes)) (d' : Bytes → Option (GoVal × Bytes))
    (skip : Bytes → Option Bytes) (q : Nat → MaskOpt × Bool)
    (hd : ∀ bs, d .none bs = liftO (d' bs)) (hq : ∀ i, q i = (.none, true)) :
    ∀ n i bs, readListM d skip q n i bs = liftO (readListWith d' n bs) := by
  intro n
  induction n with
  | zero => intro i bs; rfl
  | succ n ih =>
    intro i bs
    simp only [readListM, readListWith, hq, if_true, hd]
    cases d' bs with
    | none => rfl
    | some p =>
      obtain ⟨x, r⟩ := p
      simp only [liftO_some, bind, ih]
      cases readListWith d' n r with
      | none => rfl
      | some p2 => rfl

theorem readPairsM_nil (dk : Bytes → Res (GoVal × Bytes)) (dv : MaskOpt → Bytes → Res (GoVal × Bytes))
    (dk' dv' : Bytes → Option (GoVal × Bytes)) (skip : Bytes → Option Bytes) (q : GoVal → MaskOpt × Bool)
    (hk : ∀ bs, dk bs = liftO (dk' bs)) (hv : ∀ bs, dv .none bs = liftO (dv' bs)) (hq : ∀ k, q k = (.none, true)) :
    ∀ n bs, readPairsM dk dv skip q n bs = liftO (readPairsWith dk' dv' n bs) := by
  intro n
  induction n with
  | zero => intro bs; rfl
  | succ n ih =>
    intro bs
    simp only [readPairsM, readPairsWith, hk]
    cases dk' bs with
    | none => rfl
    | some p =>
      obtain ⟨k, r⟩ := p
      simp only [liftO_some, bind, hq, if_true, hv]
      cases dv' r with
      | none => rfl
      | some p2 =>
        obtain ⟨v, r'⟩ := p2
        simp only [liftO_some, ih]
        cases readPairsWith dk' dv' n r' with
        | none => rfl
        | some p3 => rfl

theorem readFieldsM_nil (cfg : Sites) (rd : MaskOpt → Ty → Bytes → Res (GoVal × Bytes)) (rd' : Ty → Bytes → Option (GoVal × Bytes))
    (defs : List FieldDef) (hrd : ∀ ty bs, rd .none ty bs = liftO (rd' ty bs)) :
    ∀ g bs cur seen, readFieldsM cfg rd .none defs g bs cur seen = liftO (readFieldsWith rd' defs g bs cur seen) := by
  intro g
  induction g with
  | zero => intro bs cur seen; rfl
  | succ g ih =>
    intro bs cur seen
    cases bs with
    | nil => rfl
    | cons c bs =>
      simp only [readFieldsM, readFieldsWith]
      split
      · split <;> rfl
      · cases readN 2 bs with
        | none => rfl
        | some p =>
          obtain ⟨id, r⟩ := p
          simp only []
          cases findField defs id with
          | none =>
            simp only []
            cases skipW c r with
            | none => rfl
            | some r' => exact ih r' cur seen
          | some jf =>
            obtain ⟨j, f⟩ := jf
            simp only []
            split
            · simp only [qField_none, bind, if_true, hrd]
              cases rd' f.ty r with
              | none => rfl
              | some p2 => obtain ⟨v, r'⟩ := p2; simp only [liftO_some]; exact ih r' _ _
            · cases skipW c r with
              | none => rfl
              | some r' => exact ih r' cur seen

theorem readTyM_nil (S : List StructDef) (cfg : Sites) : ∀ f ty bs, readTyM S cfg f .none ty bs = liftO (readTy S f ty bs) := by
  intro f
  induction f with
  | zero => intro ty bs; rfl
  | succ f ih =>
    intro ty bs
    cases ty with
    | list e =>
      simp only [readTyM, readTy]
      cases bs with
      | nil => rfl
      | cons b r =>
        simp only []
        cases readN 4 r with
        | none => rfl
        | some p =>
          obtain ⟨n, r'⟩ := p
          simp only []
          split
          · rfl
          · rw [readListM_nil (fun m => readTyM S cfg f m e) (readTy S f e) (skipW e.ttype.code) (fun i => qInt cfg .none (Int.ofNat i)) (fun bs => ih e bs) (fun i => rfl)]
            cases readListWith (readTy S f e) n r' with
            | none => rfl
            | some p2 => rfl
    | set e =>
      simp only [readTyM, readTy]
      cases bs with
      | nil => rfl
      | cons b r =>
        simp only []
        cases readN 4 r with
        | none => rfl
        | some p =>
          obtain ⟨n, r'⟩ := p
          simp only []
          split
          · rfl
          · rw [readListM_nil (fun m => readTyM S cfg f m e) (readTy S f e) (skipW e.ttype.code) (fun i => qInt cfg .none (Int.ofNat i)) (fun bs => ih e bs) (fun i => rfl)]
            cases readListWith (readTy S f e) n r' with
            | none => rfl
            | some p2 => rfl
    | map k v =>
      simp only [readTyM, readTy]
      match bs with
      | [] => rfl
      | [_] => rfl
      | _ :: _ :: r =>
        simp only []
        cases readN 4 r with
        | none => rfl
        | some p =>
          obtain ⟨n, r'⟩ := p
          simp only []
          split
          · rfl
          · rw [readPairsM_nil (readTyM S cfg f .none k) (fun m => readTyM S cfg f m v) (readTy S f k) (readTy S f v) (skipW v.ttype.code) (keyQ cfg k .none) (fun bs => ih k bs) (fun bs => ih v bs) (fun a => keyQ_none cfg k a)]
            cases readPairsWith (readTy S f k) (readTy S f v) n r' with
            | none => rfl
            | some p2 => rfl
    | struct i =>
      simp only [readTyM, readTy]
      cases S[i]? with
      | none => rfl
      | some sd =>
        simp only []
        cases newX sd with
        | strct init =>
          simp only []
          rw [readFieldsM_nil cfg (readTyM S cfg f) (readTy S f) sd.fields (fun ty bs => ih ty bs)]
          cases readFieldsWith (readTy S f) sd.fields (bs.length + 1) bs init (sd.fields.map fun _ => false) with
          | none => rfl
          | some p2 => rfl
        | _ => rfl
    | _ => simp only [readTyM, readTy]

theorem read_nil (P : Prog) (cfg : Sites) (sidx : Nat) (bs : Bytes) :
    read P cfg .none sidx bs = liftO (Gen.Std.read P sidx bs) := by
  unfold read Gen.Std.read
  rw [readTyM_nil]
  cases readTy P.structs (bs.length + 1) (.struct sidx) bs with
  | none => rfl
  | some p => rfl

/-! ### well-formedness of the masked Write (header counts = elements written) -/

/-- the sub-masks generated code can get hold of, starting from `fm` -/
inductive Reach (cfg : Sites) : MaskOpt → MaskOpt → Prop
  | refl (m : MaskOpt) : Reach cfg m m
  | int {m m' : MaskOpt} (i : Int) : Reach cfg m m' → Reach cfg m (qInt cfg m' i).1
  | str {m m' : MaskOpt} (s : Bytes) : Reach cfg m m' → Reach cfg m (qStr cfg m' s).1
  | field {m m' m'' : MaskOpt} (id : Int) (b : Bool) : Reach cfg m m' → qField cfg m' id = .ok (m'', b) → Reach cfg m m''

/-- `All()` is honest: when it answers true, every index and key passes -/
def Coh (cfg : Sites) (m : MaskOpt) : Prop :=
  m.allQ = true → (∀ i, (qInt cfg m i).2 = true) ∧ (∀ s, (qStr cfg m s).2 = true)

def Good (cfg : Sites) (fm : MaskOpt) : Prop := ∀ m, Reach cfg fm m → Coh cfg m

theorem Reach.trans {cfg : Sites} {a b c : MaskOpt} (h1 : Reach cfg a b) (h2 : Reach cfg b c) : Reach cfg a c := by
  induction h2 with
  | refl => exact h1
  | int i _ ih => exact .int i ih
  | str s _ ih => exact .str s ih
  | field id b _ hq ih => exact .field id b ih hq

theorem Good.sub {cfg : Sites} {fm m : MaskOpt} (h : Good cfg fm) (hr : Reach cfg fm m) : Good cfg m :=
  fun m' hr' => h m' (hr.trans hr')

theorem Good.coh {cfg : Sites} {fm : MaskOpt} (h : Good cfg fm) : Coh cfg fm := h fm (.refl fm)

theorem Good.int {cfg : Sites} {fm : MaskOpt} (h : Good cfg fm) (i : Int) : Good cfg (qInt cfg fm i).1 :=
  h.sub (.int i (.refl fm))
theorem Good.str {cfg : Sites} {fm : MaskOpt} (h : Good cfg fm) (s : Bytes) : Good cfg (qStr cfg fm s).1 :=
  h.sub (.str s (.refl fm))
theorem Good.field {cfg : Sites} {fm m : MaskOpt} {b : Bool} (h : Good cfg fm) (id : Int) (hq : qField cfg fm id = .ok (m, b)) : Good cfg m :=
  h.sub (.field id b (.refl fm) hq)
theorem Good.key {cfg : Sites} {fm : MaskOpt} (h : Good cfg fm) (k : Ty) (a : GoVal) : Good cfg (keyQ cfg k fm a).1 := by
  unfold keyQ; split
  · exact h.int _
  · split
    · exact h.str _
    · exact h.int _

theorem reach_none (cfg : Sites) : ∀ n m, Reach cfg n m → n = .none → m = .none := by
  intro n m h
  induction h with
  | refl => intro hn; exact hn
  | int i _ ih => intro hn; rw [ih hn]; rfl
  | str s _ ih => intro hn; rw [ih hn]; rfl
  | field id b _ hq ih =>
    intro hn
    rw [ih hn] at hq
    simp only [qField_none] at hq
    cases hq; rfl

theorem good_none (cfg : Sites) : Good cfg .none := by
  intro m h
  rw [reach_none cfg .none m h rfl]
  intro _
  exact ⟨fun i => rfl, fun s => rfl⟩

/-- every map key type is one the templates pre-count for (integer or string key) -/
def tyKeysOk : Ty → Bool
  | .list e => tyKeysOk e
  | .set e => tyKeysOk e
  | .map k v => (isIntKey k || isStrKey k) && tyKeysOk v
  | _ => true

def KeysOk (P : Prog) : Prop := ∀ i sd, P.struct? i = some sd → ∀ f, f ∈ sd.fields → tyKeysOk f.ty = true

theorem zeroM_toW (ty : Ty) : ∃ w, (zeroM ty).toW? = some w := by
  cases ty <;> simp [zeroM, MW.toW?, toWList?, toWPairs?, toWFields?]

/-- the announced count of a list/set under the repaired pre-count loop and an honest `All()` -/
theorem count_ok (T : Tpl) (cfg : Sites) (fm : MaskOpt) (n : Nat) (hT : T.preMut = false) (hc : Coh cfg fm) :
    (if lenShortcut T fm then n else precountList T (fun i => (qInt cfg fm (Int.ofNat i)).2) n) =
      cnt (fun i => (qInt cfg fm (Int.ofNat i)).2) 0 n := by
  split
  · rename_i ha
    have ha' : fm.allQ = true := by
      simp only [lenShortcut, Bool.and_eq_true] at ha; exact ha.1
    have := (hc ha').1
    rw [cnt_all]
    intro j _ _
    exact this _
  · simp [precountList, hT, precountFix_count]

theorem filter_map_fst_length {α β} (p : α → Bool) (kvs : List (α × β)) :
    ((kvs.map Prod.fst).filter p).length = (kvs.filter fun q => p q.1).length := by
  induction kvs with
  | nil => rfl
  | cons a r ih => simp only [List.map_cons, List.filter_cons]; split <;> simp [ih]

theorem filter_all_length {α} (p : α → Bool) (l : List α) (h : ∀ a, p a = true) : (l.filter p).length = l.length := by
  induction l with
  | nil => rfl
  | cons a r ih => simp [List.filter_cons, h a, ih]

mutual
theorem toM_wf (P : Prog) (T : Tpl) (O : Opts) (cfg : Sites) (hT : T.preMut = false) (hP : KeysOk P) (v : GoVal) :
    ∀ fm ty m, Good cfg fm → tyKeysOk ty = true → toM P T O cfg [] fm ty v = .ok m → ∃ w, m.toW? = some w := by
  intro fm ty m hg hk h
  have scalar : ∀ ty v, ((Res.ofOption (scalarW ty v)) >>= fun w => (Res.ok (MW.leaf w) : Res MW)) = .ok m → ∃ w, m.toW? = some w := by
    intro ty v h
    simp only [Res.bind_eq_ok] at h
    obtain ⟨w, _, h2⟩ := h
    cases h2
    exact ⟨w, rfl⟩
  cases v with
  | list xs =>
    cases ty <;> try (simp only [toM] at h; exact scalar _ _ h)
    · rename_i e
      simp only [toM, Res.bind_eq_ok] at h
      obtain ⟨ws, h1, h2⟩ := h
      cases h2
      obtain ⟨⟨wl, hwl⟩, hlen⟩ := toMList_wf P T O cfg hT hP xs fm e 0 ws hg (by simpa [tyKeysOk] using hk) h1
      refine ⟨.list e.ttype wl, ?_⟩
      simp only [MW.toW?, count_ok T cfg fm xs.length hT hg.coh, hlen, if_true, hwl, Option.map]
    · rename_i e
      simp only [toM] at h
      split at h
      · cases h
      · simp only [Res.bind_eq_ok] at h
        obtain ⟨ws, h1, h2⟩ := h
        cases h2
        obtain ⟨⟨wl, hwl⟩, hlen⟩ := toMList_wf P T O cfg hT hP xs fm e 0 ws hg (by simpa [tyKeysOk] using hk) h1
        refine ⟨.set e.ttype wl, ?_⟩
        simp only [MW.toW?, count_ok T cfg fm xs.length hT hg.coh, hlen, if_true, hwl, Option.map]
  | map kvs =>
    cases ty <;> try (simp only [toM] at h; exact scalar _ _ h)
    rename_i k w
    simp only [tyKeysOk, Bool.and_eq_true] at hk
    simp only [toM, Res.bind_eq_ok] at h
    obtain ⟨ws, h1, h2⟩ := h
    cases h2
    obtain ⟨⟨wl, hwl⟩, hlen⟩ := toMPairs_wf P T O cfg hT hP kvs fm k w ws hg (by
      rcases Bool.or_eq_true _ _ |>.mp hk.1 with h | h
      · cases k <;> simp [isIntKey] at h <;> rfl
      · cases k <;> simp [isStrKey] at h <;> rfl) hk.2 h1
    refine ⟨.map k.ttype w.ttype wl, ?_⟩
    have hc : (if (isIntKey k || isStrKey k) = true then
          (if lenShortcut T fm = true then kvs.length else precountKeys (fun a => (keyQ cfg k fm a).2) (kvs.map Prod.fst))
        else if (T.blackAll || (qInt cfg fm 0).2) = true then kvs.length else 0) = ws.length := by
      rw [hlen]
      simp only [hk.1, if_true]
      split
      · rename_i hn
        have hn' : fm.allQ = true := by
          simp only [lenShortcut, Bool.and_eq_true] at hn; exact hn.1
        have hall : ∀ a, (keyQ cfg k fm a).2 = true := by
          intro a
          have := hg.coh hn'
          unfold keyQ; split
          · exact this.1 _
          · split
            · exact this.2 _
            · exact this.1 _
        exact (filter_all_length (fun q : GoVal × GoVal => (keyQ cfg k fm q.1).2) kvs (fun q => hall q.1)).symm
      · rw [precountKeys_eq, filter_map_fst_length]
    simp only [MW.toW?, hc, if_true, hwl, Option.map]
  | strct fs =>
    cases ty <;> try (simp only [toM] at h; exact scalar _ _ h)
    rename_i i
    simp only [toM] at h
    cases hs : P.struct? i with
    | none => simp [hs] at h
    | some sd =>
      simp only [hs] at h
      split at h
      · cases h
      · simp only [Res.bind_eq_ok] at h
        obtain ⟨ws, h1, h2⟩ := h
        cases h2
        obtain ⟨wl, hwl⟩ := toMFields_wf P T O cfg hT hP fs fm 0 sd.fields ws hg (hP i sd hs) h1
        exact ⟨.struct wl, by simp [MW.toW?, hwl]⟩
  | nil =>
    cases ty <;> try (simp only [toM] at h; exact scalar _ _ h)
    all_goals first
      | (simp only [toM] at h; cases h; simp [MW.toW?, toWList?, toWPairs?]; done)
      | (rename_i i
         simp only [toM] at h
         cases hs : P.struct? i with
         | none => simp [hs] at h
         | some sd =>
           simp only [hs] at h
           split at h
           · cases h
           · cases h; simp [MW.toW?, toWFields?])
  | bool b => cases ty <;> (simp only [toM] at h; exact scalar _ _ h)
  | int x => cases ty <;> (simp only [toM] at h; exact scalar _ _ h)
  | dbl x => cases ty <;> (simp only [toM] at h; exact scalar _ _ h)
  | bytes x => cases ty <;> (simp only [toM] at h; exact scalar _ _ h)
theorem toMList_wf (P : Prog) (T : Tpl) (O : Opts) (cfg : Sites) (hT : T.preMut = false) (hP : KeysOk P) (xs : List GoVal) :
    ∀ fm e i ws, Good cfg fm → tyKeysOk e = true → toMList P T O cfg fm e i xs = .ok ws →
      (∃ wl, toWList? ws = some wl) ∧ ws.length = cnt (fun j => (qInt cfg fm (Int.ofNat j)).2) i xs.length := by
  intro fm e i ws hg hk h
  cases xs with
  | nil => simp only [toMList] at h; cases h; exact ⟨⟨[], rfl⟩, rfl⟩
  | cons x r =>
    simp only [toMList] at h
    split at h
    · rename_i hp
      simp only [Res.bind_eq_ok] at h
      obtain ⟨w, h1, ws', h2, h3⟩ := h
      cases h3
      obtain ⟨w0, hw0⟩ := toM_wf P T O cfg hT hP x _ e w (hg.int _) hk h1
      obtain ⟨⟨wl, hwl⟩, hlen⟩ := toMList_wf P T O cfg hT hP r fm e (i + 1) ws' hg hk h2
      refine ⟨⟨w0 :: wl, by simp [toWList?, hw0, hwl]⟩, ?_⟩
      simp only [List.length_cons, cnt, hp, if_true, hlen]; omega
    · rename_i hp
      obtain ⟨hw, hlen⟩ := toMList_wf P T O cfg hT hP r fm e (i + 1) ws hg hk h
      refine ⟨hw, ?_⟩
      simp only [List.length_cons, cnt, hp, hlen]; simp
theorem toMPairs_wf (P : Prog) (T : Tpl) (O : Opts) (cfg : Sites) (hT : T.preMut = false) (hP : KeysOk P) (kvs : List (GoVal × GoVal)) :
    ∀ fm k v ws, Good cfg fm → tyKeysOk k = true → tyKeysOk v = true → toMPairs P T O cfg fm k v kvs = .ok ws →
      (∃ wl, toWPairs? ws = some wl) ∧ ws.length = (kvs.filter fun q => (keyQ cfg k fm q.1).2).length := by
  intro fm k v ws hg hkk hkv h
  cases kvs with
  | nil => simp only [toMPairs] at h; cases h; exact ⟨⟨[], rfl⟩, rfl⟩
  | cons p r =>
    obtain ⟨a, b⟩ := p
    simp only [toMPairs] at h
    split at h
    · rename_i hp
      simp only [Res.bind_eq_ok] at h
      obtain ⟨wa, h1, wb, h2, ws', h3, h4⟩ := h
      cases h4
      obtain ⟨a0, ha0⟩ := toM_wf P T O cfg hT hP a _ k wa (good_none cfg) hkk h1
      obtain ⟨b0, hb0⟩ := toM_wf P T O cfg hT hP b _ v wb (hg.key k a) hkv h2
      obtain ⟨⟨wl, hwl⟩, hlen⟩ := toMPairs_wf P T O cfg hT hP r fm k v ws' hg hkk hkv h3
      refine ⟨⟨(a0, b0) :: wl, by simp [toWPairs?, ha0, hb0, hwl]⟩, ?_⟩
      simp [List.filter_cons, hp, hlen]
    · rename_i hp
      obtain ⟨hw, hlen⟩ := toMPairs_wf P T O cfg hT hP r fm k v ws hg hkk hkv h
      refine ⟨hw, ?_⟩
      simp [List.filter_cons, hp, hlen]
theorem toMFields_wf (P : Prog) (T : Tpl) (O : Opts) (cfg : Sites) (hT : T.preMut = false) (hP : KeysOk P) (vs : List GoVal) :
    ∀ sm j defs ws, Good cfg sm → (∀ f, f ∈ defs → tyKeysOk f.ty = true) → toMFields P T O cfg sm [] j defs vs = .ok ws →
      ∃ wl, toWFields? ws = some wl := by
  intro sm j defs ws hg hk h
  cases vs with
  | nil =>
    cases defs with
    | nil => simp only [toMFields] at h; cases h; exact ⟨[], rfl⟩
    | cons f fs => simp [toMFields] at h
  | cons v r =>
    cases defs with
    | nil => simp [toMFields] at h
    | cons f fs =>
      have hkf := hk f (List.mem_cons_self)
      have hkr : ∀ g, g ∈ fs → tyKeysOk g.ty = true := fun g hgm => hk g (List.mem_cons_of_mem _ hgm)
      simp only [toMFields, Env.get_nil, childMask_noOwn, ite_self] at h
      split at h
      · exact toMFields_wf P T O cfg hT hP r sm (j + 1) fs ws hg hkr h
      · split at h
        · simp only [Res.bind_eq_ok] at h
          obtain ⟨q, hq, w, h1, ws', h2, h3⟩ := h
          cases h3
          have hgq : Good cfg (reqMask T q) := by
            unfold reqMask
            split
            · split at hq
              · cases hq; exact good_none cfg
              · exact hg.field f.id (b := q.2) hq
            · exact good_none cfg
          obtain ⟨w0, hw0⟩ := toM_wf P T O cfg hT hP v _ f.ty w hgq hkf h1
          obtain ⟨wl, hwl⟩ := toMFields_wf P T O cfg hT hP r sm (j + 1) fs ws' hg hkr h2
          exact ⟨(pat 16 f.id, w0) :: wl, by simp [toWFields?, hw0, hwl]⟩
        · simp only [Res.bind_eq_ok] at h
          obtain ⟨q, hq, h⟩ := h
          split at h
          · simp only [Res.bind_eq_ok] at h
            obtain ⟨w, h1, ws', h2, h3⟩ := h
            cases h3
            obtain ⟨w0, hw0⟩ := toM_wf P T O cfg hT hP v _ f.ty w (hg.field f.id (b := q.2) hq) hkf h1
            obtain ⟨wl, hwl⟩ := toMFields_wf P T O cfg hT hP r sm (j + 1) fs ws' hg hkr h2
            exact ⟨(pat 16 f.id, w0) :: wl, by simp [toWFields?, hw0, hwl]⟩
          · split at h
            · simp only [Res.bind_eq_ok] at h
              obtain ⟨ws', h2, h3⟩ := h
              cases h3
              obtain ⟨w0, hw0⟩ := zeroM_toW f.ty
              obtain ⟨wl, hwl⟩ := toMFields_wf P T O cfg hT hP r sm (j + 1) fs ws' hg hkr h2
              exact ⟨(pat 16 f.id, w0) :: wl, by simp [toWFields?, hw0, hwl]⟩
            · exact toMFields_wf P T O cfg hT hP r sm (j + 1) fs ws hg hkr h
end

/-! ### what is written: exactly the selected elements, each under its sub-mask -/

/-- the elements of a list/set the mask selects (positions counted from `i`), with the sub-mask each is written under -/
def selIdx (cfg : Sites) (fm : MaskOpt) (i : Nat) (xs : List GoVal) : List (GoVal × MaskOpt) :=
  (xs.zipIdx i).filterMap fun p =>
    if (qInt cfg fm (Int.ofNat p.2)).2 then some (p.1, (qInt cfg fm (Int.ofNat p.2)).1) else none

/-- the entries of a map the mask selects, with the sub-mask the value is written under -/
def selKeys (cfg : Sites) (k : Ty) (fm : MaskOpt) (kvs : List (GoVal × GoVal)) : List ((GoVal × GoVal) × MaskOpt) :=
  kvs.filterMap fun p => if (keyQ cfg k fm p.1).2 then some (p, (keyQ cfg k fm p.1).1) else none

def resMapM {α β} (f : α → Res β) : List α → Res (List β)
  | [] => .ok []
  | a :: r => do
    let b ← f a
    let bs ← resMapM f r
    .ok (b :: bs)

theorem toMList_spec (P : Prog) (T : Tpl) (O : Opts) (cfg : Sites) (fm : MaskOpt) (e : Ty) :
    ∀ (xs : List GoVal) (i : Nat), toMList P T O cfg fm e i xs = resMapM (fun p => toM P T O cfg [] p.2 e p.1) (selIdx cfg fm i xs) := by
  intro xs
  induction xs with
  | nil => intro i; rfl
  | cons x r ih =>
    intro i
    simp only [toMList, selIdx, List.zipIdx_cons, List.filterMap_cons]
    split
    · rename_i hp
      simp only [hp, if_true, resMapM]
      have := ih (i + 1)
      simp only [selIdx] at this
      rw [this]
    · rename_i hp
      simp only [hp]
      have := ih (i + 1)
      simp only [selIdx] at this
      simpa using this

theorem toMPairs_spec (P : Prog) (T : Tpl) (O : Opts) (cfg : Sites) (fm : MaskOpt) (k v : Ty) :
    ∀ (kvs : List (GoVal × GoVal)), toMPairs P T O cfg fm k v kvs =
      resMapM (fun p => do
        let wa ← toM P T O cfg [] .none k p.1.1
        let wb ← toM P T O cfg [] p.2 v p.1.2
        Res.ok (wa, wb)) (selKeys cfg k fm kvs) := by
  intro kvs
  induction kvs with
  | nil => rfl
  | cons p r ih =>
    obtain ⟨a, b⟩ := p
    simp only [toMPairs, selKeys, List.filterMap_cons]
    split
    · rename_i hp
      simp only [hp, if_true, resMapM]
      simp only [selKeys] at ih
      rw [ih]
      cases toM P T O cfg [] .none k a <;> simp [bind]
      cases toM P T O cfg [] (keyQ cfg k fm a).1 v b <;> simp
    · rename_i hp
      simp only [hp]
      simp only [selKeys] at ih
      simpa using ih

/-! ### Read: an unselected element or field is skipped, consuming the same bytes -/

theorem skip_of_readScalar (e : Ty) (hb : e.isBase = true) (bs r : Bytes) (x : GoVal) (h : readScalar e bs = some (x, r)) :
    skipW e.ttype.code bs = some r := by
  cases e <;> simp [Ty.isBase] at hb <;>
    simp only [readScalar, skipW, Ty.ttype, TType.ofCode_code, decW] at h ⊢
  all_goals first
    | (cases hr : readN 1 bs <;> simp [hr] at h ⊢; exact h.2)
    | (cases hr : readN 2 bs <;> simp [hr] at h ⊢; exact h.2)
    | (cases hr : readN 8 bs <;> simp [hr] at h ⊢; exact h.2)
    | (cases hr : readN 4 bs with
       | none => simp [hr] at h
       | some p =>
         obtain ⟨n, r0⟩ := p
         simp only [hr] at h ⊢
         first
           | (simp at h ⊢; exact h.2)
           | (split at h
              · cases h
              · rename_i hn
                simp only [hn, if_false]
                cases hb2 : readBytes n r0 <;> simp [hb2] at h ⊢
                exact h.2))

/-- reading a list/set of base-typed elements under a mask: if the unmasked reader gets `xs` out of the bytes, the masked
reader gets exactly the selected ones out of the same bytes (the others are skipped, no error) -/
theorem readListM_base (S : List StructDef) (cfg : Sites) (f : Nat) (e : Ty) (hb : e.isBase = true) (q : Nat → MaskOpt × Bool) :
    ∀ (n i : Nat) (bs r : Bytes) (xs : List GoVal), readListWith (readScalar e) n bs = some (xs, r) →
      readListM (fun m => readTyM S cfg (f + 1) m e) (skipW e.ttype.code) q n i bs =
        .ok ((xs.zipIdx i).filterMap (fun p => if (q p.2).2 then some p.1 else none), r) := by
  have hrd : ∀ m bs, readTyM S cfg (f + 1) m e bs = liftO (readScalar e bs) := by
    intro m bs
    cases e <;> simp [Ty.isBase] at hb <;> simp only [readTyM]
  intro n
  induction n with
  | zero => intro i bs r xs h; simp [readListWith] at h; obtain ⟨h1, h2⟩ := h; subst h1 h2; rfl
  | succ n ih =>
    intro i bs r xs h
    simp only [readListWith] at h
    cases hx : readScalar e bs with
    | none => simp [hx] at h
    | some p =>
      obtain ⟨x, r1⟩ := p
      simp only [hx] at h
      cases hl : readListWith (readScalar e) n r1 with
      | none => simp [hl] at h
      | some p2 =>
        obtain ⟨xs', r2⟩ := p2
        simp only [hl, Option.some.injEq, Prod.mk.injEq] at h
        obtain ⟨h1, h2⟩ := h
        subst h1 h2
        simp only [readListM, List.zipIdx_cons, List.filterMap_cons]
        split
        · rename_i hp
          simp only [hrd, hx, liftO_some, bind, ih (i + 1) r1 r2 xs' hl, hp, if_true]
        · rename_i hp
          simp only [skip_of_readScalar e hb bs r1 x hx, ih (i + 1) r1 r2 xs' hl, hp]

/-! ### a tree with exact counts is encoded like the wire value it denotes -/

mutual
theorem encM_toW (m : MW) : ∀ w, m.toW? = some w → encM m = encW w ∧ m.ttype = w.ttype := by
  intro w h
  cases m with
  | leaf w0 => simp only [MW.toW?, Option.some.injEq] at h; subst h; exact ⟨rfl, rfl⟩
  | struct fs =>
    simp only [MW.toW?] at h
    cases hf : toWFields? fs with
    | none => simp [hf] at h
    | some ws =>
      simp only [hf, Option.map, Option.some.injEq] at h; subst h
      exact ⟨by simp [encM, encW, encMFields_toW fs ws hf], rfl⟩
  | map kt vt c kvs =>
    simp only [MW.toW?] at h
    split at h
    · rename_i hc
      cases hf : toWPairs? kvs with
      | none => simp [hf] at h
      | some ws =>
        simp only [hf, Option.map, Option.some.injEq] at h; subst h
        obtain ⟨he, hl⟩ := encMPairs_toW kvs ws hf
        exact ⟨by simp [encM, encW, he, hc, hl], rfl⟩
    · cases h
  | set et c xs =>
    simp only [MW.toW?] at h
    split at h
    · rename_i hc
      cases hf : toWList? xs with
      | none => simp [hf] at h
      | some ws =>
        simp only [hf, Option.map, Option.some.injEq] at h; subst h
        obtain ⟨he, hl⟩ := encMList_toW xs ws hf
        exact ⟨by simp [encM, encW, he, hc, hl], rfl⟩
    · cases h
  | list et c xs =>
    simp only [MW.toW?] at h
    split at h
    · rename_i hc
      cases hf : toWList? xs with
      | none => simp [hf] at h
      | some ws =>
        simp only [hf, Option.map, Option.some.injEq] at h; subst h
        obtain ⟨he, hl⟩ := encMList_toW xs ws hf
        exact ⟨by simp [encM, encW, he, hc, hl], rfl⟩
    · cases h
theorem encMFields_toW (fs : List (Nat × MW)) : ∀ ws, toWFields? fs = some ws → encMFields fs = encFields ws := by
  intro ws h
  cases fs with
  | nil => simp only [toWFields?, Option.some.injEq] at h; subst h; rfl
  | cons a r =>
    obtain ⟨id, v⟩ := a
    simp only [toWFields?] at h
    cases hv : v.toW? with
    | none => simp [hv] at h
    | some w =>
      cases hr : toWFields? r with
      | none => simp [hv, hr] at h
      | some ws' =>
        simp only [hv, hr, Option.some.injEq] at h; subst h
        obtain ⟨he, ht⟩ := encM_toW v w hv
        simp [encMFields, encFields, he, ht, encMFields_toW r ws' hr]
theorem encMPairs_toW (kvs : List (MW × MW)) : ∀ ws, toWPairs? kvs = some ws → encMPairs kvs = encPairs ws ∧ kvs.length = ws.length := by
  intro ws h
  cases kvs with
  | nil => simp only [toWPairs?, Option.some.injEq] at h; subst h; exact ⟨rfl, rfl⟩
  | cons a r =>
    obtain ⟨k, v⟩ := a
    simp only [toWPairs?] at h
    cases hk : k.toW? with
    | none => simp [hk] at h
    | some wk =>
      cases hv : v.toW? with
      | none => simp [hk, hv] at h
      | some wv =>
        cases hr : toWPairs? r with
        | none => simp [hk, hv, hr] at h
        | some ws' =>
          simp only [hk, hv, hr, Option.some.injEq] at h; subst h
          obtain ⟨he, hl⟩ := encMPairs_toW r ws' hr
          simp [encMPairs, encPairs, (encM_toW k wk hk).1, (encM_toW v wv hv).1, he, hl]
theorem encMList_toW (xs : List MW) : ∀ ws, toWList? xs = some ws → encMList xs = encList ws ∧ xs.length = ws.length := by
  intro ws h
  cases xs with
  | nil => simp only [toWList?, Option.some.injEq] at h; subst h; exact ⟨rfl, rfl⟩
  | cons x r =>
    simp only [toWList?] at h
    cases hx : x.toW? with
    | none => simp [hx] at h
    | some w =>
      cases hr : toWList? r with
      | none => simp [hx, hr] at h
      | some ws' =>
        simp only [hx, hr, Option.some.injEq] at h; subst h
        obtain ⟨he, hl⟩ := encMList_toW r ws' hr
        simp [encMList, encList, (encM_toW x w hx).1, he, hl]
end

end Gen.Mask
