import ThriftVerif.Gen.StdLemmas
/-
  A Bool-valued checker for `Gen.Std.SchemaOK` with a soundness lemma, so that `SchemaOK` of a
  regenerated (concrete) schema is discharged by `decide` on `schemaOkB`.
-/
namespace Gen.Std
open Gen

def dfltOptB (f : FieldDef) : Bool :=
  !(f.req == .optional) || !f.dflt.isSome || f.ty.isBase

def unsetB : List FieldDef → List GoVal → Bool
  | f :: fs, c :: cs => (!(f.req == .optional) || !isSet f c) && unsetB fs cs
  | _, _ => true

def nodupB : List Nat → Bool
  | [] => true
  | x :: r => !r.contains x && nodupB r

def structOkB (sd : StructDef) : Bool :=
  nodupB (sd.fields.map idOf) && sd.fields.all dfltOptB && unsetB sd.fields (initVals sd) &&
  (!(sd.kind == 1) || sd.fields.all (fun f => f.req == .optional))

def schemaOkB (P : Prog) : Bool := P.structs.all structOkB

theorem nodupB_sound : ∀ (l : List Nat), nodupB l = true → l.Nodup
  | [], _ => List.nodup_nil
  | x :: r, h => by
    simp only [nodupB, Bool.and_eq_true, Bool.not_eq_true', List.contains_eq_mem, decide_eq_false_iff_not] at h
    exact List.nodup_cons.mpr ⟨h.1, nodupB_sound r h.2⟩

theorem unsetB_sound : ∀ (fs : List FieldDef) (cs : List GoVal), unsetB fs cs = true → Unset fs cs
  | [], _, _ => by simp [Unset]
  | _ :: _, [], _ => by simp [Unset]
  | f :: fs, c :: cs, h => by
    simp only [unsetB, Bool.and_eq_true, Bool.or_eq_true, Bool.not_eq_true', beq_eq_false_iff_ne, ne_eq] at h
    simp only [Unset]
    refine ⟨fun ho => ?_, unsetB_sound fs cs h.2⟩
    rcases h.1 with h1 | h1
    · exact absurd ho h1
    · exact h1

theorem structOkB_sound (sd : StructDef) (h : structOkB sd = true) : StructOK sd := by
  simp only [structOkB, Bool.and_eq_true, Bool.or_eq_true, Bool.not_eq_true', beq_eq_false_iff_ne, ne_eq,
    List.all_eq_true, beq_iff_eq] at h
  obtain ⟨⟨⟨h1, h2⟩, h3⟩, h4⟩ := h
  refine ⟨nodupB_sound _ h1, ?_, unsetB_sound _ _ h3, ?_⟩
  · intro f hf ho hd
    have := h2 f hf
    simp only [dfltOptB, Bool.or_eq_true, Bool.not_eq_true', beq_eq_false_iff_ne, ne_eq] at this
    rcases this with (h | h) | h
    · exact absurd ho h
    · rw [hd] at h; cases h
    · exact h
  · intro hk f hf
    rcases h4 with h | h
    · exact absurd hk h
    · exact h f hf

theorem schemaOkB_sound (P : Prog) (h : schemaOkB P = true) : SchemaOK P := by
  intro i sd hsd
  simp only [schemaOkB, List.all_eq_true] at h
  exact structOkB_sound sd (h sd (List.mem_of_getElem? hsd))

end Gen.Std
