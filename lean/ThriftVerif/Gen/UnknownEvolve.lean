import ThriftVerif.Gen.UnknownWriteLemmas
import ThriftVerif.Gen.Evolve
/-
  Gen/UnknownEvolve: the keep_unknown_fields Read loop against the plain one (`ku_sim`), its buffer on a
  mixed stream (`ku_stream`, `readStructKU_mixed`), and the NEW schema's reader on the re-ordered stream the
  old code writes back (`new_reads_rewritten`, `toWFields_merge`). One struct level, on top of the mixed-stream
  machinery of Gen/StdLemmas and Gen/Evolve.
-/
namespace Gen.Unknown
open Wire Gen Gen.Std Gen.Evolve

/-! ### the keep_unknown_fields Read loop against the plain one -/

theorem appendB_of_skip (acc : Fields) (c id : Nat) (bs r' : Bytes) (h : skipW c bs = some r') :
    ∃ u, appendB acc c id bs = some (acc ++ [c] ++ be 2 id ++ encW u, r') := by
  unfold skipW at h
  cases ht : TType.ofCode c with
  | none => simp [ht] at h
  | some t =>
    simp only [ht] at h
    cases hd : decW 64 t bs with
    | none => simp [hd] at h
    | some p =>
      obtain ⟨w, r⟩ := p
      simp only [hd, Option.map_some, Option.some.injEq] at h
      subst h
      have := appendB_of_dec acc t id bs w r hd
      rw [ofCode_eq ht] at this
      exact ⟨w, this⟩

/-- **simulation**: on every input on which the plain Read loop succeeds, the keep_unknown_fields loop
succeeds too, builds the same object and stops at the same place (its buffer may have grown) -/
theorem ku_sim (rdTy : Ty → Bytes → Option (GoVal × Bytes)) (defs : List FieldDef) :
    ∀ (g : Nat) (bs : Bytes) (cur : List GoVal) (seen : List Bool) (acc : Fields) (c : List GoVal) (r : Bytes),
      readFieldsWith rdTy defs g bs cur seen = some (c, r) →
      ∃ acc', readFieldsKU rdTy defs g bs cur seen acc = some (c, r, acc') := by
  intro g
  induction g with
  | zero => intro bs cur seen acc c r h; simp [readFieldsWith] at h
  | succ g ih =>
    intro bs cur seen acc c r h
    cases bs with
    | nil => simp [readFieldsWith] at h
    | cons c0 bs =>
      simp only [readFieldsWith] at h
      simp only [readFieldsKU]
      by_cases hc : c0 = 0
      · simp only [hc, if_true] at h ⊢
        split at h
        · rename_i hr
          simp only [Option.some.injEq, Prod.mk.injEq] at h
          simp [hr, h.1, h.2]
        · cases h
      · simp only [hc, if_false] at h ⊢
        cases hi : readN 2 bs with
        | none => simp [hi] at h
        | some p =>
          obtain ⟨id, r1⟩ := p
          simp only [hi] at h ⊢
          cases hf : findField defs id with
          | some jf =>
            obtain ⟨j, f⟩ := jf
            simp only [hf] at h ⊢
            by_cases ht : f.ty.ttype.code = c0
            · simp only [ht, if_true] at h ⊢
              cases hv : rdTy f.ty r1 with
              | none => simp [hv] at h
              | some q =>
                obtain ⟨v, r2⟩ := q
                simp only [hv] at h ⊢
                exact ih r2 _ _ acc c r h
            · simp only [ht, if_false] at h ⊢
              cases hs : skipW c0 r1 with
              | none => simp [hs] at h
              | some r2 =>
                simp only [hs] at h ⊢
                exact ih r2 _ _ acc c r h
          | none =>
            simp only [hf] at h ⊢
            cases hs : skipW c0 r1 with
            | none => simp [hs] at h
            | some r2 =>
              simp only [hs] at h
              obtain ⟨u, hu⟩ := appendB_of_skip acc c0 id r1 r2 hs
              simp only [hu]
              exact ih r2 _ _ _ c r h

/-- the fields of a stream the schema does not know, in arrival order -/
def unk (defs : List FieldDef) (ms : List (Nat × WVal)) : List (Nat × WVal) :=
  ms.filter fun x => (findField defs x.1).isNone

/-- a field the Read loop consumes exactly: its id is a `case` of the switch, the wire type matches and the
field reader reads back precisely the encoding -/
def Known (rdTy : Ty → Bytes → Option (GoVal × Bytes)) (defs : List FieldDef) (x : Nat × WVal) : Prop :=
  x.1 < 256 ^ 2 ∧ ∃ j f, findField defs x.1 = some (j, f) ∧ f.ty.ttype = x.2.ttype ∧
    ∀ rest, ∃ v, rdTy f.ty (encW x.2 ++ rest) = some (v, rest)

/-- **the buffer after a mixed stream**: the keep_unknown_fields loop, on the written fields `ws`
interleaved with unknown ones, appends exactly the canonical encodings of the unknown ones, in arrival
order, and nothing else -/
theorem ku_stream (rdTy : Ty → Bytes → Option (GoVal × Bytes)) (defs : List FieldDef) :
    ∀ (ws ms : List (Nat × WVal)), Mixed defs ws ms → (∀ x ∈ ws, Known rdTy defs x) →
      ∀ (g : Nat) (rest : Bytes) (cur : List GoVal) (seen : List Bool) (acc : Fields),
        ∃ cur' seen', readFieldsKU rdTy defs (g + ms.length) (encFields ms ++ rest) cur seen acc =
          readFieldsKU rdTy defs g rest cur' seen' (acc ++ encFields (unk defs ms)) := by
  intro ws ms hm
  induction hm with
  | nil => intro _ g rest cur seen acc; exact ⟨cur, seen, by simp [encFields, unk]⟩
  | known x ws ms _ ih =>
    intro hk g rest cur seen acc
    obtain ⟨id, w⟩ := x
    obtain ⟨hid, j, f, hf, htt, hrd⟩ := hk (id, w) (by simp)
    obtain ⟨v, hv⟩ := hrd (encFields ms ++ rest)
    obtain ⟨cur', seen', e⟩ := ih (fun y hy => hk y (by simp [hy])) g rest (cur.set j v) (seen.set j true) acc
    refine ⟨cur', seen', ?_⟩
    have hc0 : w.ttype.code ≠ 0 := by have := TType.code_pos w.ttype; omega
    have hunk : unk defs ((id, w) :: ms) = unk defs ms := by simp [unk, hf]
    simp only [List.length_cons, ← Nat.add_assoc, encFields, List.append_assoc, List.cons_append, List.nil_append,
      readFieldsKU, hc0, if_false, readN_be 2 id _ hid, hf, htt, if_true, hv, hunk]
    exact e
  | unknown id u ws ms _ hid hnf hwf hd ih =>
    intro hk g rest cur seen acc
    obtain ⟨cur', seen', e⟩ := ih hk g rest cur seen (acc ++ [u.ttype.code] ++ be 2 id ++ encW u)
    refine ⟨cur', seen', ?_⟩
    have hc0 : u.ttype.code ≠ 0 := by have := TType.code_pos u.ttype; omega
    have hunk : unk defs ((id, u) :: ms) = (id, u) :: unk defs ms := by simp [unk, hnf]
    simp only [List.length_cons, ← Nat.add_assoc, encFields, List.append_assoc, List.cons_append, List.nil_append,
      readFieldsKU, hc0, if_false, readN_be 2 id _ hid, hnf, appendB_enc acc id u _ hwf hd, hunk]
    simp only [List.append_assoc, List.cons_append, List.nil_append] at e
    exact e

/-- every field the generated Write emits for a well-typed object is `Known` to the reader of the same schema -/
theorem written_known (P : Prog) (rdTy : Ty → Bytes → Option (GoVal × Bytes)) (dmax : Nat) :
    ∀ (suf : List FieldDef) (svs : List GoVal) (ws : List (Nat × WVal)),
      toWFields P suf svs = .ok ws → depthFields ws ≤ dmax → IHu P rdTy dmax suf svs → WTFields P.structs suf svs →
      ∀ (pre : List FieldDef), ((pre ++ suf).map idOf).Nodup → ∀ x ∈ ws, Known rdTy (pre ++ suf) x := by
  intro suf
  induction suf with
  | nil =>
    intro svs ws h _ _ _ pre _ x hx
    cases svs with
    | cons v vs => simp [toWFields] at h
    | nil => simp only [toWFields] at h; cases h; simp at hx
  | cons f fs ih =>
    intro svs ws h hdep hih hwt pre hnd
    cases svs with
    | nil => simp [toWFields] at h
    | cons v vs =>
    simp only [IHu] at hih
    simp only [WTFields] at hwt
    obtain ⟨hopt, hreq, hidr, hwtr⟩ := hwt
    have hassoc : pre ++ f :: fs = (pre ++ [f]) ++ fs := by simp
    simp only [toWFields] at h
    split at h
    · intro x hx
      have := ih vs ws h hdep hih.2 hwtr (pre ++ [f]) (by rw [← hassoc]; exact hnd) x hx
      rwa [hassoc]
    · rename_i hcond
      simp only [Res.bind_eq_ok] at h
      obtain ⟨w, hw, ws', hws', hcons⟩ := h
      cases hcons
      simp only [depthFields] at hdep
      have hwtv : WT P.structs f.ty v := by
        by_cases ho : f.req = .optional
        · rcases hopt ho with hn | hw'
          · simp [ho, hn.2] at hcond
          · exact hw'
        · exact hreq ho
      obtain ⟨_, htt⟩ := toW_WF P v f.ty w hwtv hw
      obtain ⟨v', hrd, _, _, _⟩ := hih.1 w hwtv hw (by omega)
      intro x hx
      simp only [List.mem_cons] at hx
      rcases hx with rfl | hx
      · refine ⟨?_, pre.length, f, findField_append pre f fs hnd, htt.symm, fun rest => ⟨v', hrd rest⟩⟩
        have := pat_lt 16 f.id; have := pow256.2.1; simp only; omega
      · have := ih vs ws' hws' (by omega) hih.2 hwtr (pre ++ [f]) (by rw [← hassoc]; exact hnd) x hx
        rwa [hassoc]

/-- in a mixed stream the unknown fields are well-formed, so `Fields.Write` replays them -/
theorem unk_WF (rdTy : Ty → Bytes → Option (GoVal × Bytes)) (defs : List FieldDef) :
    ∀ (ws ms : List (Nat × WVal)), Mixed defs ws ms → (∀ x ∈ ws, Known rdTy defs x) → WFFields (unk defs ms) := by
  intro ws ms hm
  induction hm with
  | nil => intro _; simp [unk, WFFields]
  | known x ws ms _ ih =>
    intro hk
    obtain ⟨id, w⟩ := x
    obtain ⟨_, j, f, hf, _, _⟩ := hk (id, w) (by simp)
    have hunk : unk defs ((id, w) :: ms) = unk defs ms := by simp [unk, hf]
    rw [hunk]
    exact ih (fun y hy => hk y (by simp [hy]))
  | unknown id u ws ms _ hid hnf hwf hd ih =>
    intro hk
    have hunk : unk defs ((id, u) :: ms) = (id, u) :: unk defs ms := by simp [unk, hnf]
    rw [hunk]
    exact ⟨hid, hwf, ih hk⟩

/-- the mixed stream carries an unknown field iff its unknown part is non-empty iff the buffer is -/
theorem encFields_eq_nil (us : List (Nat × WVal)) : encFields us = [] ↔ us = [] := by
  cases us with
  | nil => simp [encFields]
  | cons a r => obtain ⟨i, v⟩ := a; simp [encFields]

/-- generated Read of struct `sd` under keep_unknown_fields at ONE struct level: the values of known
fields go through `rdTy` (the theorems instantiate it with the plain readers `readTy`) -/
def readStructKU (rdTy : Ty → Bytes → Option (GoVal × Bytes)) (sd : StructDef) (bs : Bytes) :
    Option (List GoVal × Bytes × Fields) :=
  readFieldsKU rdTy sd.fields (bs.length + 1) bs (initVals sd) (sd.fields.map fun _ => false) []

/-- the plain Read of struct `i`, unfolded to its loop -/
theorem readTy_struct (S : List StructDef) (f i : Nat) (sd : StructDef) (bs : Bytes) (fs : List GoVal) (r : Bytes)
    (hsd : S[i]? = some sd) (h : readTy S (f + 1) (.struct i) bs = some (.strct fs, r)) :
    readFieldsWith (readTy S f) sd.fields (bs.length + 1) bs (initVals sd) (sd.fields.map fun _ => false) = some (fs, r) := by
  simp only [readTy, hsd, newX_eq] at h
  cases hh : readFieldsWith (readTy S f) sd.fields (bs.length + 1) bs (initVals sd) (sd.fields.map fun _ => false) with
  | none => simp [hh] at h
  | some p =>
    obtain ⟨a, b⟩ := p
    simp only [hh, Option.map_some, Option.some.injEq, Prod.mk.injEq, GoVal.strct.injEq] at h
    rw [h.1, h.2]

/-- **Read under keep_unknown_fields of a mixed stream** (one struct level): same object as the plain
Read, and the buffer holds exactly the unknown fields' canonical encodings in arrival order -/
theorem readStructKU_mixed (P : Prog) (hP : SchemaOK P) (hv : P.validateSet = false) (i : Nat) (sd : StructDef)
    (fs : List GoVal) (ws : List (Nat × WVal)) (f : Nat) (hsd : P.structs[i]? = some sd)
    (hwt : WTFields P.structs sd.fields fs) (hw : toWFields P sd.fields fs = .ok ws) (hd : depthFields ws ≤ f) :
    ∃ fs', toWFields P sd.fields fs' = .ok ws ∧
      ∀ (ms : List (Nat × WVal)) (r : Bytes), Mixed sd.fields ws ms →
        readTy P.structs (f + 1) (.struct i) (encFields ms ++ 0 :: r) = some (.strct fs', r) ∧
        readStructKU (readTy P.structs f) sd (encFields ms ++ 0 :: r) = some (fs', r, encFields (unk sd.fields ms)) ∧
        WFFields (unk sd.fields ms) := by
  obtain ⟨fs', htw, hread⟩ := struct_read_mixed P hP hv i sd fs ws f hsd hwt hw hd
  refine ⟨fs', htw, fun ms r hm => ?_⟩
  have hstd := hread ms r hm
  have hloop := readTy_struct P.structs f i sd _ fs' r hsd hstd
  obtain ⟨acc', hku⟩ := ku_sim (readTy P.structs f) sd.fields _ _ _ _ [] fs' r hloop
  obtain ⟨hnd, _, _, _⟩ := hP i sd hsd
  have hih := IHu_of_IHs P (readTy P.structs f) (readTy_append P.structs f) f sd.fields fs (rtFields P hP hv fs sd.fields f)
  have hkn := written_known P (readTy P.structs f) f sd.fields fs ws hw hd hih hwt [] (by simpa using hnd)
  simp only [List.nil_append] at hkn
  have hlen : (encFields ms ++ 0 :: r).length + 1 = ((encFields ms ++ 0 :: r).length + 1 - ms.length) + ms.length := by
    have := encFields_length ms; simp; omega
  obtain ⟨cur', seen', hst⟩ := ku_stream (readTy P.structs f) sd.fields ws ms hm hkn
    ((encFields ms ++ 0 :: r).length + 1 - ms.length) (0 :: r) (initVals sd) (sd.fields.map fun _ => false) []
  rw [← hlen, hku] at hst
  obtain ⟨g, hg⟩ : ∃ g, (encFields ms ++ 0 :: r).length + 1 - ms.length = g + 1 :=
    ⟨(encFields ms ++ 0 :: r).length - ms.length, by have := encFields_length ms; simp; omega⟩
  rw [hg] at hst
  simp only [readFieldsKU, if_true, List.nil_append] at hst
  refine ⟨hstd, ?_, unk_WF (readTy P.structs f) sd.fields ws ms hm hkn⟩
  unfold readStructKU
  rw [hku]
  split at hst
  · simp only [Option.some.injEq, Prod.mk.injEq] at hst
    rw [hst.2.2]
  · cases hst

/-! ### the re-written stream under the NEW schema -/

theorem proj_not {α} : ∀ (m : List Bool) (l : List α), proj (m.map (!·)) l = added m l
  | [], _ => by simp [proj, added]
  | _ :: _, [] => by simp [proj, added]
  | true :: m, x :: xs => by simp [proj, added, proj_not m xs]
  | false :: m, x :: xs => by simp [proj, added, proj_not m xs]

theorem added_not {α} : ∀ (m : List Bool) (l : List α), added (m.map (!·)) l = proj m l
  | [], _ => by simp [proj, added]
  | _ :: _, [] => by simp [proj, added]
  | true :: m, x :: xs => by simp [proj, added, added_not m xs]
  | false :: m, x :: xs => by simp [proj, added, added_not m xs]

theorem mem_proj {α} : ∀ (m : List Bool) (l : List α) (x : α), x ∈ proj m l → x ∈ l
  | [], _, _, h => by simp [proj] at h
  | _ :: _, [], _, h => by simp [proj] at h
  | true :: m, y :: ys, x, h => by
    simp only [proj, List.mem_cons] at h ⊢
    rcases h with rfl | h
    · exact Or.inl rfl
    · exact Or.inr (mem_proj m ys x h)
  | false :: m, y :: ys, x, h => by
    simp only [proj] at h
    exact List.mem_cons_of_mem _ (mem_proj m ys x h)

theorem mem_added {α} (m : List Bool) (l : List α) (x : α) (h : x ∈ added m l) : x ∈ l := by
  rw [← proj_not] at h; exact mem_proj _ l x h

theorem toWFields_ids (P : Prog) : ∀ (defs : List FieldDef) (vs : List GoVal) (ws : List (Nat × WVal)),
    toWFields P defs vs = .ok ws → ∀ x ∈ ws, x.1 ∈ defs.map idOf
  | [], [], ws, h, x, hx => by simp only [toWFields] at h; cases h; simp at hx
  | [], _ :: _, ws, h, _, _ => by simp [toWFields] at h
  | _ :: _, [], ws, h, _, _ => by simp [toWFields] at h
  | f :: fs, v :: vs, ws, h, x, hx => by
    simp only [toWFields] at h
    split at h
    · have := toWFields_ids P fs vs ws h x hx
      simp only [List.map_cons, List.mem_cons]; exact Or.inr this
    · simp only [Res.bind_eq_ok] at h
      obtain ⟨w, _, ws', hws', hcons⟩ := h
      cases hcons
      simp only [List.mem_cons] at hx
      rcases hx with rfl | hx
      · simp [idOf]
      · have := toWFields_ids P fs vs ws' hws' x hx
        simp only [List.map_cons, List.mem_cons]; exact Or.inr this

/-- one step of `toWFields_merge`: two objects whose field lists encode alike under a sub-schema `sub ⊆ fs`
(ids distinct from the head field's) agree on the head field's contribution -/
theorem head_contrib (P : Prog) (f : FieldDef) (sub : List FieldDef) (a0 b0 : GoVal) (pa pb : List GoVal)
    (wo : List (Nat × WVal)) (hnid : idOf f ∉ sub.map idOf)
    (ha : toWFields P (f :: sub) (a0 :: pa) = .ok wo) (hb : toWFields P (f :: sub) (b0 :: pb) = .ok wo) :
    ∃ wt, toWFields P sub pa = .ok wt ∧ toWFields P sub pb = .ok wt ∧
      ∀ (fs : List FieldDef) (as bs : List GoVal), toWFields P fs as = toWFields P fs bs →
        toWFields P (f :: fs) (a0 :: as) = toWFields P (f :: fs) (b0 :: bs) := by
  simp only [toWFields] at ha hb
  split at ha <;> split at hb
  · rename_i ca cb
    exact ⟨wo, ha, hb, fun fs as bs h => by simp only [toWFields, ca, cb, if_true, h]⟩
  · rename_i ca cb
    simp only [Res.bind_eq_ok] at hb
    obtain ⟨w, _, ws', _, hcons⟩ := hb
    cases hcons
    have := toWFields_ids P sub pa _ ha (pat 16 f.id, w) (by simp)
    exact absurd this hnid
  · rename_i ca cb
    simp only [Res.bind_eq_ok] at ha
    obtain ⟨w, _, ws', _, hcons⟩ := ha
    cases hcons
    have := toWFields_ids P sub pb _ hb (pat 16 f.id, w) (by simp)
    exact absurd this hnid
  · rename_i ca cb
    simp only [Res.bind_eq_ok] at ha hb
    obtain ⟨wa, hwa, ta, hta, hca⟩ := ha
    obtain ⟨wb, hwb, tb, htb, hcb⟩ := hb
    cases hca
    simp only [Res.ok.injEq, List.cons.injEq, Prod.mk.injEq, true_and] at hcb
    obtain ⟨rfl, rfl⟩ := hcb
    refine ⟨tb, hta, htb, fun fs as bs h => ?_⟩
    simp only [toWFields, ca, cb, hwa, hwb, h]

/-- **merge**: an object is determined, as far as its wire value goes, by the wire values of its common
part and of its added part (field ids distinct) -/
theorem toWFields_merge (P : Prog) : ∀ (mask : List Bool) (defs : List FieldDef) (a b : List GoVal)
    (wo wa : List (Nat × WVal)), mask.length = defs.length → a.length = defs.length → b.length = defs.length →
    (defs.map idOf).Nodup →
    toWFields P (proj mask defs) (proj mask a) = .ok wo → toWFields P (proj mask defs) (proj mask b) = .ok wo →
    toWFields P (added mask defs) (added mask a) = .ok wa → toWFields P (added mask defs) (added mask b) = .ok wa →
    toWFields P defs a = toWFields P defs b := by
  intro mask
  induction mask with
  | nil =>
    intro defs a b _ _ hl ha hb _ _ _ _ _
    have : defs = [] := List.eq_nil_of_length_eq_zero hl.symm
    subst this
    have : a = [] := List.eq_nil_of_length_eq_zero ha
    have : b = [] := List.eq_nil_of_length_eq_zero hb
    subst_vars; rfl
  | cons bit m ih =>
    intro defs a b wo wa hl ha hb hnd hpa hpb haa hab
    cases defs with
    | nil => simp at hl
    | cons f fs =>
    cases a with
    | nil => simp at ha
    | cons a0 as =>
    cases b with
    | nil => simp at hb
    | cons b0 bs =>
    simp only [List.length_cons, Nat.add_right_cancel_iff] at hl ha hb
    simp only [List.map_cons, List.nodup_cons] at hnd
    cases bit with
    | true =>
      simp only [proj] at hpa hpb
      simp only [added] at haa hab
      have hnid : idOf f ∉ (proj m fs).map idOf := by
        intro h
        obtain ⟨g, hg, he⟩ := List.mem_map.1 h
        exact hnd.1 (List.mem_map.2 ⟨g, mem_proj m fs g hg, he⟩)
      obtain ⟨wt, h1, h2, hstep⟩ := head_contrib P f (proj m fs) a0 b0 (proj m as) (proj m bs) wo hnid hpa hpb
      exact hstep fs as bs (ih fs as bs wt wa hl ha hb hnd.2 h1 h2 haa hab)
    | false =>
      simp only [proj] at hpa hpb
      simp only [added] at haa hab
      have hnid : idOf f ∉ (added m fs).map idOf := by
        intro h
        obtain ⟨g, hg, he⟩ := List.mem_map.1 h
        exact hnd.1 (List.mem_map.2 ⟨g, mem_added m fs g hg, he⟩)
      obtain ⟨wt, h1, h2, hstep⟩ := head_contrib P f (added m fs) a0 b0 (added m as) (added m bs) wa hnid haa hab
      exact hstep fs as bs (ih fs as bs wo wt hl ha hb hnd.2 hpa hpb h1 h2)

theorem findField_go_some (id : Nat) : ∀ (defs : List FieldDef) (k : Nat), id ∈ defs.map idOf →
    ∃ j f, findField.go id defs k = some (j, f)
  | [], _, h => by simp at h
  | f :: fs, k, h => by
    simp only [findField.go]
    by_cases e : pat 16 f.id = id
    · exact ⟨k, f, by simp [e]⟩
    · have : id ∈ fs.map idOf := by
        simp only [List.map_cons, List.mem_cons] at h
        rcases h with h | h
        · exact absurd h.symm e
        · exact h
      obtain ⟨j, f', hj⟩ := findField_go_some id fs (k + 1) this
      exact ⟨j, f', by simp [e, hj]⟩

theorem findField_some_of_mem (defs : List FieldDef) (id : Nat) (h : id ∈ defs.map idOf) :
    ∃ j f, findField defs id = some (j, f) := findField_go_some id defs 0 h

/-- the unknown part of what the new struct wrote is what its added fields wrote -/
theorem unk_written (P : Prog) (old : List FieldDef) : ∀ (mask : List Bool) (new : List FieldDef) (vs : List GoVal)
    (wsN : List (Nat × WVal)), mask.length = new.length → toWFields P new vs = .ok wsN →
    (∀ g ∈ proj mask new, idOf g ∈ old.map idOf) → (∀ g ∈ added mask new, idOf g ∉ old.map idOf) →
    toWFields P (added mask new) (added mask vs) = .ok (unk old wsN) := by
  intro mask
  induction mask with
  | nil =>
    intro new vs wsN hl h _ _
    have : new = [] := List.eq_nil_of_length_eq_zero hl.symm
    subst this
    cases vs with
    | cons v vs => simp [toWFields] at h
    | nil => simp only [toWFields] at h; cases h; simp [added, toWFields, unk]
  | cons b m ih =>
    intro new vs wsN hl h hold hfresh
    cases new with
    | nil => simp at hl
    | cons f fs =>
    cases vs with
    | nil => simp [toWFields] at h
    | cons v vs =>
    simp only [List.length_cons, Nat.add_right_cancel_iff] at hl
    simp only [toWFields] at h
    cases b with
    | true =>
      simp only [proj, List.mem_cons, forall_eq_or_imp] at hold
      simp only [added] at hfresh ⊢
      split at h
      · exact ih fs vs wsN hl h hold.2 hfresh
      · simp only [Res.bind_eq_ok] at h
        obtain ⟨w, _, ws', hws', hcons⟩ := h
        cases hcons
        obtain ⟨j, f', hf⟩ := findField_some_of_mem old (idOf f) hold.1
        have hunk : unk old ((pat 16 f.id, w) :: ws') = unk old ws' := by
          have : findField old (pat 16 f.id) = some (j, f') := hf
          simp [unk, this]
        rw [hunk]
        exact ih fs vs ws' hl hws' hold.2 hfresh
    | false =>
      simp only [proj] at hold
      simp only [added, List.mem_cons, forall_eq_or_imp] at hfresh
      simp only [added, toWFields]
      split at h
      · rename_i hc
        simp only [hc, if_true]
        exact ih fs vs wsN hl h hold hfresh.2
      · rename_i hc
        simp only [Res.bind_eq_ok] at h
        obtain ⟨w, hw, ws', hws', hcons⟩ := h
        cases hcons
        have hnf : findField old (pat 16 f.id) = none := findField_none old _ hfresh.1
        have hunk : unk old ((pat 16 f.id, w) :: ws') = (pat 16 f.id, w) :: unk old ws' := by simp [unk, hnf]
        rw [hunk]
        simp only [hc, hw, ih fs vs ws' hl hws' hold hfresh.2]
        rfl

theorem depth_unk (defs : List FieldDef) : ∀ (ms : List (Nat × WVal)), depthFields (unk defs ms) ≤ depthFields ms
  | [] => by simp [unk]
  | (i, v) :: ms => by
    have ih := depth_unk defs ms
    simp only [unk, List.filter_cons] at ih ⊢
    split
    · simp only [depthFields]; omega
    · simp only [depthFields]; omega

/-- **the NEW reader on a re-ordered stream**: the common fields (as the old struct writes them) followed
by the added fields: read without error; the object's common part and added part encode exactly as given -/
theorem new_reads_rewritten (P : Prog) (hP : SchemaOK P) (hv : P.validateSet = false) (iNew : Nat) (sdNew : StructDef)
    (mask : List Bool) (vs : List GoVal) (wsO wsA : List (Nat × WVal)) (f : Nat)
    (hN : P.structs[iNew]? = some sdNew) (hl : mask.length = sdNew.fields.length)
    (hadd : ∀ g ∈ added mask sdNew.fields, g.req ≠ .required)
    (hwt : WTFields P.structs sdNew.fields vs)
    (hwO : toWFields P (proj mask sdNew.fields) (proj mask vs) = .ok wsO)
    (hwA : toWFields P (added mask sdNew.fields) (added mask vs) = .ok wsA)
    (hdO : depthFields wsO ≤ f) (hdA : depthFields wsA ≤ f) :
    ∃ fs'', fs''.length = sdNew.fields.length ∧
      (∀ r', readTy P.structs (f + 1) (.struct iNew) (encFields (wsO ++ wsA) ++ 0 :: r') = some (.strct fs'', r')) ∧
      toWFields P (proj mask sdNew.fields) (proj mask fs'') = .ok wsO ∧
      toWFields P (added mask sdNew.fields) (added mask fs'') = .ok wsA := by
  obtain ⟨hnd, hdo, hun, _⟩ := hP iNew sdNew hN
  let nm := mask.map (!·)
  have hlnm : nm.length = sdNew.fields.length := by simp [nm, hl]
  have hrd := readTy_append P.structs f
  have hihO := IHu_of_IHs P (readTy P.structs f) hrd f _ _ (rtFields P hP hv (proj mask vs) (proj mask sdNew.fields) f)
  have hihA := IHu_of_IHs P (readTy P.structs f) hrd f _ _ (rtFields P hP hv (added mask vs) (added mask sdNew.fields) f)
  have hwtO := WTFields_proj P.structs mask sdNew.fields vs hl hwt
  have hwtA := WTFields_proj P.structs nm sdNew.fields vs hlnm hwt
  simp only [nm, proj_not] at hwtA
  obtain ⟨c1, s1, hl1, hl2, htw1, hrs1, ha1, ha2, hrun1⟩ :=
    loop_rt_sub P (readTy P.structs f) f mask sdNew.fields (proj mask vs) wsO hl hwO hdO hihO hwtO hdo
      [] [] (initVals sdNew) [] (sdNew.fields.map fun _ => false)
      (by simpa using hnd) rfl rfl (by simp [initVals]) (by simp) (Unset_proj mask _ _ hun)
  have hun2 : Unset (proj nm sdNew.fields) (proj nm c1) := by
    have := Unset_proj nm _ _ hun
    simp only [nm, proj_not] at this ⊢
    rw [ha1]; exact this
  obtain ⟨c2, s2, hl1', hl2', htw2, hrs2, hb1, hb2, hrun2⟩ :=
    loop_rt_sub P (readTy P.structs f) f nm sdNew.fields (added mask vs) wsA hlnm
      (by simp only [nm, proj_not]; exact hwA) hdA (by simp only [nm, proj_not]; exact hihA)
      (by simp only [nm, proj_not]; exact hwtA) hdo
      [] [] c1 [] s1 (by simpa using hnd) rfl rfl hl1 hl2 hun2
  simp only [nm, proj_not, added_not] at htw2 hrs2 hb1 hb2
  refine ⟨c2, hl1', ?_, by rw [hb1]; exact htw1, htw2⟩
  intro r'
  have hro : requiredOk sdNew.fields s2 = true :=
    requiredOk_of_proj mask sdNew.fields s2 hl hl2' (by rw [hb2]; exact hrs1) hadd
  have hlenO := encFields_length wsO
  have hlenA := encFields_length wsA
  have e1 := hrun1 wsO ((encFields (wsO ++ wsA) ++ 0 :: r').length + 1) (encFields wsA ++ 0 :: r')
    (by simpa using Mixed.refl _ wsO) (by simp [encFields_append]; omega)
  have e2 := hrun2 wsA ((encFields (wsO ++ wsA) ++ 0 :: r').length + 1 - wsO.length) (0 :: r')
    (by simpa using Mixed.refl _ wsA) (by simp [encFields_append]; omega)
  obtain ⟨g, hg⟩ : ∃ g, (encFields (wsO ++ wsA) ++ 0 :: r').length + 1 - wsO.length - wsA.length = g + 1 :=
    ⟨(encFields (wsO ++ wsA) ++ 0 :: r').length - wsO.length - wsA.length, by simp [encFields_append]; omega⟩
  simp only [readTy, hN, newX_eq]
  simp only [List.nil_append] at e1 e2
  have happ : encFields (wsO ++ wsA) ++ 0 :: r' = encFields wsO ++ (encFields wsA ++ 0 :: r') := by
    simp [encFields_append]
  rw [← happ] at e1
  rw [e1, e2, hg]
  simp [readFieldsWith, hro]

end Gen.Unknown
