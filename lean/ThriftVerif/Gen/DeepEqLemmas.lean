import ThriftVerif.Gen.DeepEq
/- helper lemmas about Gen.DeepEq for Props/C18 -/
namespace Gen.DeepEq
open Gen

/-! ### generic facts about `Res` -/

/-- the outcome is the error return -/
def isErr {α} : Res α → Bool
  | .err => true
  | _ => false

theorem Res.bind_ne_panic {α β} (x : Res α) (f : α → Res β) (hx : x ≠ .panic) (hf : ∀ a, f a ≠ .panic) :
    (x >>= f) ≠ .panic := by
  cases x with
  | ok a => exact hf a
  | err => intro h; cases h
  | panic => exact absurd rfl hx

theorem Res.bind_ok {α β} (a : α) (f : α → Res β) : ((Res.ok a : Res α) >>= f) = f a := rfl

/-! ### no panic: the `len` test guards every slice index -/

mutual
theorem deepEqual_ne_panic (F : Facts) (hF : F.lenTest = true) (P : Prog) (a : GoVal) :
    ∀ (ty : Ty) (b : GoVal), deepEqual F P ty a b ≠ .panic := by
  intro ty b
  cases a with
  | nil => cases ty <;> simp [deepEqual]
  | bool x => cases ty <;> simp [deepEqual]
  | int x => cases ty <;> simp [deepEqual]
  | dbl x => cases ty <;> simp [deepEqual]
  | bytes x => cases ty <;> simp [deepEqual]
  | list xs =>
    cases ty <;> try (simp [deepEqual]; done)
    all_goals
      rename_i e
      simp only [deepEqual, hF, Bool.true_and]
      split
      · simp
      · rename_i hl
        apply deepEqElems_ne_panic F hF P xs
        simp at hl
        omega
  | map kvs =>
    cases ty <;> try (simp [deepEqual]; done)
    rename_i k v
    simp only [deepEqual]
    split
    · simp
    · exact deepEqEntries_ne_panic F hF P kvs k v _
  | strct fs =>
    cases ty <;> try (simp [deepEqual]; done)
    rename_i i
    simp only [deepEqual]
    cases b <;> try (simp)
    rename_i gs
    cases hs : P.struct? i with
    | none => simp
    | some sd => simp only []; exact deepEqFields_ne_panic F hF P fs sd.fields gs
theorem deepEqElems_ne_panic (F : Facts) (hF : F.lenTest = true) (P : Prog) (xs : List GoVal) :
    ∀ (e : Ty) (i : Nat) (src : List GoVal), i + xs.length ≤ src.length → deepEqElems F P e xs i src ≠ .panic := by
  intro e i src h
  cases xs with
  | nil => simp [deepEqElems]
  | cons v r =>
    simp only [deepEqElems]
    have hi : i < src.length := by simp at h; omega
    rw [List.getElem?_eq_getElem hi]
    simp only []
    apply Res.bind_ne_panic
    · exact deepEqual_ne_panic F hF P v e _
    · intro c
      cases c
      · simp
      · simp only [if_true]
        apply deepEqElems_ne_panic F hF P r
        simp at h; omega
theorem deepEqEntries_ne_panic (F : Facts) (hF : F.lenTest = true) (P : Prog) (kvs : List (GoVal × GoVal)) :
    ∀ (k v : Ty) (src : List (GoVal × GoVal)), deepEqEntries F P k v kvs src ≠ .panic := by
  intro k v src
  cases kvs with
  | nil => simp [deepEqEntries]
  | cons x r =>
    obtain ⟨key, val⟩ := x
    simp only [deepEqEntries]
    split
    · split
      · simp
      · apply Res.bind_ne_panic
        · exact deepEqual_ne_panic F hF P val v _
        · intro c
          cases c
          · simp
          · simp only [if_true]; exact deepEqEntries_ne_panic F hF P r k v src
    · apply Res.bind_ne_panic
      · exact deepEqual_ne_panic F hF P val v _
      · intro c
        cases c
        · simp
        · simp only [if_true]; exact deepEqEntries_ne_panic F hF P r k v src
theorem deepEqFields_ne_panic (F : Facts) (hF : F.lenTest = true) (P : Prog) (as : List GoVal) :
    ∀ (defs : List FieldDef) (bs : List GoVal), deepEqFields F P defs as bs ≠ .panic := by
  intro defs bs
  cases as with
  | nil => cases defs <;> cases bs <;> simp [deepEqFields]
  | cons a as' =>
    cases defs with
    | nil => simp [deepEqFields]
    | cons f fs =>
      cases bs with
      | nil => simp [deepEqFields]
      | cons b bs' =>
        simp only [deepEqFields]
        apply Res.bind_ne_panic
        · split
          · simp
          · exact deepEqual_ne_panic F hF P a f.ty b
        · intro c
          cases c
          · simp
          · simp only [if_true]; exact deepEqFields_ne_panic F hF P as' fs bs'
end

/-! ### the pairs on which DeepEqual is structural equality

`aligned P ty a b`: walking the two values in lockstep (as both the template and the specification do),
* every pair of maps met has keys of a base type (or one of the maps is empty / the sizes differ) and EQUAL KEY SETS:
  every key of the left map is found in the right one and vice versa;
* no optional binary field without default is unset on one side and set on the other;
* base-typed slots hold values of their type (what the Go type system guarantees), struct indexes resolve.
It is a decidable (Bool) condition on the pair. -/

/-- a value of base type `ty` as Go's type system allows it in a non-pointer slot -/
def baseOK (ty : Ty) (v : GoVal) : Bool :=
  match ty, v with
  | .bool, .bool _ => true
  | .dbl, .dbl _ => true
  | .str, .bytes _ => true
  | .bin, .bytes _ => true
  | .bin, .nil => true
  | .i8, .int _ => true
  | .i16, .int _ => true
  | .i32, .int _ => true
  | .i64, .int _ => true
  | .enum, .int _ => true
  | _, _ => false

mutual
def aligned (P : Prog) (ty : Ty) (a b : GoVal) : Bool :=
  match ty, a with
  | .struct _, .nil => true
  | .struct i, .strct fs =>
      match b with
      | .nil => true
      | .strct gs =>
          match P.struct? i with
          | some sd => alignedFields P sd.fields fs gs
          | none => false
      | _ => false
  | .list _, .nil => true
  | .list e, .list xs => xs.length != (elemsOf b).length || alignedList P e xs (elemsOf b)
  | .set _, .nil => true
  | .set e, .list xs => xs.length != (elemsOf b).length || alignedList P e xs (elemsOf b)
  | .map _ _, .nil => true
  | .map k v, .map kvs =>
      kvs.length != (entriesOf b).length ||
      (if k.isStruct then kvs.isEmpty
       else alignedEntries P k v kvs (entriesOf b) && (entriesOf b).all (fun e' => (index k kvs e'.1).isSome))
  | ty, a => baseOK ty a && baseOK ty b
termination_by structural a
def alignedList (P : Prog) (e : Ty) (xs ys : List GoVal) : Bool :=
  match xs, ys with
  | x :: xs, y :: ys => aligned P e x y && alignedList P e xs ys
  | _, _ => true
termination_by structural xs
def alignedEntries (P : Prog) (k v : Ty) (kvs other : List (GoVal × GoVal)) : Bool :=
  match kvs with
  | [] => true
  | (key, val) :: r =>
      (match index k other key with
       | some w => aligned P v val w
       | none => false) && alignedEntries P k v r other
termination_by structural kvs
def alignedFields (P : Prog) (defs : List FieldDef) (as bs : List GoVal) : Bool :=
  match defs, as, bs with
  | [], [], [] => true
  | f :: fs, a :: as, b :: bs =>
      (if isPtrField f then isNilV a || isNilV b || (baseOK f.ty a && baseOK f.ty b)
       else (if presenceSlot f && f.ty == .bin then isNilV a == isNilV b else true) && aligned P f.ty a b)
      && alignedFields P fs as bs
  | _, _, _ => false
termination_by structural as
end

theorem baseEq_eq_scalarEq (ty : Ty) (a b : GoVal) (ha : baseOK ty a = true) (hb : baseOK ty b = true) :
    baseEq ty a b = scalarEq ty a b := by
  cases ty <;> cases a <;> cases b <;> simp_all [baseOK, baseEq, scalarEq, goEq, bytesOf]

theorem isPtr_presence (f : FieldDef) (h : isPtrField f = true) : presenceSlot f = true := by
  simp only [isPtrField, Bool.and_eq_true] at h
  simp [presenceSlot, h.1.1.1, h.1.1.2, h.1.2]

theorem valEq_base (P : Prog) (ty : Ty) (a b : GoVal) (hb : ty.isBase = true) : valEq P ty a b = scalarEq ty a b := by
  cases ty <;> simp [Ty.isBase] at hb <;> cases a <;> simp [valEq]

theorem field_ptr (P : Prog) (f : FieldDef) (a b : GoVal) (hp : isPtrField f = true)
    (h : (isNilV a || isNilV b || (baseOK f.ty a && baseOK f.ty b)) = true) :
    ptrBaseEq f.ty a b =
      (if (presenceSlot f && (isNilV a || isNilV b)) = true then isNilV a && isNilV b else valEq P f.ty a b) := by
  have hps := isPtr_presence f hp
  have hbase : f.ty.isBase = true := by
    simp only [isPtrField, Bool.and_eq_true] at hp; exact hp.1.2
  rw [valEq_base P f.ty a b hbase, hps]
  by_cases hn : (isNilV a || isNilV b) = true
  · simp only [hn, Bool.true_and, if_true]
    cases a <;> cases b <;> simp_all [isNilV, ptrBaseEq]
  · simp only [hn, Bool.and_false, Bool.false_eq_true, if_false]
    simp only [hn, Bool.false_or, Bool.and_eq_true] at h
    rw [← baseEq_eq_scalarEq f.ty a b h.1 h.2]
    cases a <;> cases b <;> simp_all [isNilV, ptrBaseEq]

theorem field_nonptr (P : Prog) (f : FieldDef) (a b : GoVal) (hp : ¬ isPtrField f = true)
    (h : (if (presenceSlot f && f.ty == .bin) = true then isNilV a == isNilV b else true) = true) :
    valEq P f.ty a b =
      (if (presenceSlot f && (isNilV a || isNilV b)) = true then isNilV a && isNilV b else valEq P f.ty a b) := by
  by_cases hq : (presenceSlot f && (isNilV a || isNilV b)) = true
  · rw [if_pos hq]
    simp only [Bool.and_eq_true] at hq
    have hcase : f.ty = .bin ∨ f.ty.isStruct = true := by
      have h1 := hq.1
      simp only [presenceSlot, Bool.and_eq_true, Bool.or_eq_true] at h1
      simp only [isPtrField, Bool.and_eq_true, not_and, bne_iff_ne, ne_eq, Decidable.not_not] at hp
      cases h1.2 with
      | inl hb => exact Or.inl (hp ⟨h1.1, hb⟩)
      | inr hs => exact Or.inr hs
    cases hcase with
    | inl hbin =>
      simp only [hq.1, hbin, beq_self_eq_true, Bool.and_self, if_true, beq_iff_eq] at h
      rw [hbin]
      cases a <;> cases b <;> simp_all [isNilV, valEq, scalarEq, bytesOf]
    | inr hst =>
      cases hty : f.ty <;> simp [hty, Ty.isStruct] at hst
      cases a <;> cases b <;> simp_all [isNilV, valEq, scalarEq]
  · rw [if_neg hq]

theorem valEqList_length (P : Prog) (e : Ty) : ∀ (xs ys : List GoVal), valEqList P e xs ys = true → xs.length = ys.length := by
  intro xs
  induction xs with
  | nil => intro ys h; cases ys <;> simp_all [valEqList]
  | cons x r ih =>
    intro ys h
    cases ys with
    | nil => simp [valEqList] at h
    | cons y t =>
      simp only [valEqList, Bool.and_eq_true] at h
      simp [ih t h.2]

theorem bind_ok_ite (c : Bool) (x : Res Bool) :
    ((Res.ok c : Res Bool) >>= fun c => if c = true then x else Res.ok false) = if c = true then x else .ok false := rfl

mutual
theorem deepEqual_eq_valEq (F : Facts) (hF : F.lenTest = true) (P : Prog) (a : GoVal) :
    ∀ (ty : Ty) (b : GoVal), aligned P ty a b = true → deepEqual F P ty a b = .ok (valEq P ty a b) := by
  intro ty b h
  have base : ∀ (ty : Ty) (a : GoVal), (baseOK ty a && baseOK ty b) = true →
      (Res.ok (baseEq ty a b) : Res Bool) = .ok (scalarEq ty a b) := by
    intro ty a h
    simp only [Bool.and_eq_true] at h
    rw [baseEq_eq_scalarEq ty a b h.1 h.2]
  cases a with
  | nil =>
    cases ty <;> first
      | (simp only [aligned] at h; simp only [deepEqual, valEq]; exact base _ _ h)
      | simp [deepEqual, valEq, hF]
  | bool x => cases ty <;> (simp only [aligned] at h; simp only [deepEqual, valEq]; exact base _ _ h)
  | int x => cases ty <;> (simp only [aligned] at h; simp only [deepEqual, valEq]; exact base _ _ h)
  | dbl x => cases ty <;> (simp only [aligned] at h; simp only [deepEqual, valEq]; exact base _ _ h)
  | bytes x => cases ty <;> (simp only [aligned] at h; simp only [deepEqual, valEq]; exact base _ _ h)
  | list xs =>
    cases ty <;> try (simp only [aligned] at h; simp only [deepEqual, valEq]; exact base _ _ h)
    all_goals
      rename_i e
      simp only [aligned, Bool.or_eq_true] at h
      simp only [deepEqual, valEq, hF, Bool.true_and]
      by_cases hl : xs.length = (elemsOf b).length
      · have h2 : alignedList P e xs (elemsOf b) = true := by
          cases h with
          | inl h => simp [hl] at h
          | inr h => exact h
        have := deepEqElems_eq F hF P xs e 0 (elemsOf b) (by omega) (by simpa using h2)
        simp only [List.drop_zero] at this
        simp [hl, this]
      · have hv : valEqList P e xs (elemsOf b) = false := by
          cases hv : valEqList P e xs (elemsOf b) with
          | false => rfl
          | true => exact absurd (valEqList_length P e xs _ hv) hl
        simp [hl, hv]
  | map kvs =>
    cases ty <;> try (simp only [aligned] at h; simp only [deepEqual, valEq]; exact base _ _ h)
    rename_i k v
    simp only [aligned, Bool.or_eq_true] at h
    simp only [deepEqual, valEq, hF, Bool.true_and]
    by_cases hl : kvs.length = (entriesOf b).length
    · have h2 : (if k.isStruct = true then kvs.isEmpty
          else alignedEntries P k v kvs (entriesOf b) && (entriesOf b).all (fun e' => (index k kvs e'.1).isSome)) = true := by
        cases h with
        | inl h => simp [hl] at h
        | inr h => exact h
      by_cases hk : k.isStruct = true
      · simp only [hk, if_true] at h2 ⊢
        have hnil : kvs = [] := by simpa using h2
        subst hnil
        have hb : entriesOf b = [] := by
          simp at hl
          exact List.eq_nil_of_length_eq_zero hl.symm
        simp [hb, deepEqEntries, valEqSub]
      · simp only [hk, if_false, Bool.false_eq_true, Bool.and_eq_true] at h2 ⊢
        have := deepEqEntries_eq F hF P kvs k v (entriesOf b) h2.1
        simp [hl, this, h2.2]
    · simp [hl]
  | strct fs =>
    cases ty <;> try (simp only [aligned] at h; simp only [deepEqual, valEq]; exact base _ _ h)
    rename_i i
    simp only [aligned] at h
    simp only [deepEqual, valEq]
    cases b <;> try (first | (simp at h; done) | (simp; done))
    rename_i gs
    cases hs : P.struct? i with
    | none => simp [hs] at h
    | some sd =>
      simp only [hs] at h ⊢
      exact deepEqFields_eq F hF P fs sd.fields gs h
termination_by structural a
theorem deepEqElems_eq (F : Facts) (hF : F.lenTest = true) (P : Prog) (xs : List GoVal) :
    ∀ (e : Ty) (i : Nat) (src : List GoVal), i + xs.length = src.length → alignedList P e xs (src.drop i) = true →
      deepEqElems F P e xs i src = .ok (valEqList P e xs (src.drop i)) := by
  intro e i src hlen h
  cases xs with
  | nil =>
    have : src.drop i = [] := by
      apply List.drop_eq_nil_of_le
      simp at hlen; omega
    simp [deepEqElems, valEqList, this]
  | cons v r =>
    have hi : i < src.length := by simp at hlen; omega
    rw [List.drop_eq_getElem_cons hi] at h ⊢
    simp only [alignedList, Bool.and_eq_true] at h
    simp only [deepEqElems, valEqList, List.getElem?_eq_getElem hi]
    rw [deepEqual_eq_valEq F hF P v e _ h.1, bind_ok_ite]
    have ih := deepEqElems_eq F hF P r e (i + 1) src (by simp at hlen; omega) h.2
    cases hv : valEq P e v src[i] with
    | false => simp
    | true => simp [ih]
termination_by structural xs
theorem deepEqEntries_eq (F : Facts) (hF : F.lenTest = true) (P : Prog) (kvs : List (GoVal × GoVal)) :
    ∀ (k v : Ty) (src : List (GoVal × GoVal)), alignedEntries P k v kvs src = true →
      deepEqEntries F P k v kvs src = .ok (valEqEntries P k v kvs src) := by
  intro k v src h
  cases kvs with
  | nil => simp [deepEqEntries, valEqEntries]
  | cons x r =>
    obtain ⟨key, val⟩ := x
    simp only [alignedEntries, Bool.and_eq_true] at h
    simp only [deepEqEntries, valEqEntries]
    cases hi : index k src key with
    | none => simp [hi] at h
    | some w =>
      simp only [hi] at h ⊢
      rw [deepEqual_eq_valEq F hF P val v w h.1, bind_ok_ite]
      have ih := deepEqEntries_eq F hF P r k v src h.2
      cases hv : valEq P v val w with
      | false => simp
      | true => simp [ih]
termination_by structural kvs
theorem deepEqFields_eq (F : Facts) (hF : F.lenTest = true) (P : Prog) (as : List GoVal) :
    ∀ (defs : List FieldDef) (bs : List GoVal), alignedFields P defs as bs = true →
      deepEqFields F P defs as bs = .ok (valEqFields P defs as bs) := by
  intro defs bs h
  cases as with
  | nil => cases defs <;> cases bs <;> simp_all [alignedFields, deepEqFields, valEqFields]
  | cons a as' =>
    cases defs with
    | nil => simp [alignedFields] at h
    | cons f fs =>
      cases bs with
      | nil => simp [alignedFields] at h
      | cons b bs' =>
        simp only [alignedFields, Bool.and_eq_true] at h
        have ih := deepEqFields_eq F hF P as' fs bs' h.2
        simp only [deepEqFields, valEqFields]
        have hfield : (if isPtrField f = true then Res.ok (ptrBaseEq f.ty a b) else deepEqual F P f.ty a b) =
            Res.ok (if (presenceSlot f && (isNilV a || isNilV b)) = true then isNilV a && isNilV b else valEq P f.ty a b) := by
          by_cases hp : isPtrField f = true
          · simp only [hp, if_true] at h ⊢
            rw [field_ptr P f a b hp h.1]
          · simp only [hp, if_false, Bool.false_eq_true] at h ⊢
            simp only [Bool.and_eq_true] at h
            rw [deepEqual_eq_valEq F hF P a f.ty b h.1.2]
            exact congrArg Res.ok (field_nonptr P f a b hp (by simp only [Bool.and_eq_true]; exact h.1.1))
        rw [hfield, bind_ok_ite, ih]
        cases hv : (if (presenceSlot f && (isNilV a || isNilV b)) = true then isNilV a && isNilV b else valEq P f.ty a b) <;> simp
termination_by structural as
end

/-! ### validate_set: the double loop refuses exactly the slices with a pair `i < j` of equal elements -/

/-- some later element compares equal to `x` / some pair `i < j` compares equal -/
def hasDup (cmp : GoVal → GoVal → Res Bool) : List GoVal → Bool
  | [] => false
  | x :: r => r.any (fun y => cmp x y == .ok true) || hasDup cmp r

theorem dupFrom_eq (cmp : GoVal → GoVal → Res Bool) (x : GoVal) :
    ∀ (ys : List GoVal), (∀ y ∈ ys, ∃ c, cmp x y = .ok c) →
      dupFrom cmp x ys = .ok (ys.any (fun y => cmp x y == .ok true)) := by
  intro ys
  induction ys with
  | nil => intro _; simp [dupFrom]
  | cons y r ih =>
    intro h
    obtain ⟨c, hc⟩ := h y (by simp)
    have ih' := ih (fun z hz => h z (by simp [hz]))
    simp only [dupFrom, hc, List.any_cons]
    cases c with
    | true => simp [Res.bind_ok]
    | false =>
      have : ((Res.ok false : Res Bool) == Res.ok true) = false := by decide
      simp [Res.bind_ok, ih', this]

theorem dupCheck_eq (cmp : GoVal → GoVal → Res Bool) :
    ∀ (xs : List GoVal), (∀ x ∈ xs, ∀ y ∈ xs, ∃ c, cmp x y = .ok c) → dupCheck cmp xs = .ok (hasDup cmp xs) := by
  intro xs
  induction xs with
  | nil => intro _; simp [dupCheck, hasDup]
  | cons x r ih =>
    intro h
    have h1 := dupFrom_eq cmp x r (fun y hy => h x (by simp) y (by simp [hy]))
    have ih' := ih (fun a ha b hb => h a (by simp [ha]) b (by simp [hb]))
    simp only [dupCheck, h1, hasDup]
    cases hany : r.any (fun y => cmp x y == .ok true) with
    | true => simp [Res.bind_ok]
    | false => simp [Res.bind_ok, ih']

theorem hasDup_iff (cmp : GoVal → GoVal → Res Bool) :
    ∀ (xs : List GoVal), hasDup cmp xs = true ↔
      ∃ (i j : Nat) (_ : i < j) (hj : j < xs.length), cmp (xs[i]'(by omega)) xs[j] = .ok true := by
  intro xs
  induction xs with
  | nil => simp [hasDup]
  | cons x r ih =>
    simp only [hasDup, Bool.or_eq_true, List.any_eq_true, beq_iff_eq, ih]
    constructor
    · intro h
      cases h with
      | inl h =>
        obtain ⟨y, hy, hc⟩ := h
        obtain ⟨n, hn, rfl⟩ := List.getElem_of_mem hy
        exact ⟨0, n + 1, by omega, by simp; omega, by simpa using hc⟩
      | inr h =>
        obtain ⟨i, j, hij, hj, hc⟩ := h
        exact ⟨i + 1, j + 1, by omega, by simp; omega, by simpa using hc⟩
    · intro h
      obtain ⟨i, j, hij, hj, hc⟩ := h
      cases i with
      | zero =>
        cases j with
        | zero => omega
        | succ j' =>
          left
          simp only [List.length_cons] at hj
          exact ⟨r[j'], List.getElem_mem _, by simpa using hc⟩
      | succ i' =>
        cases j with
        | zero => omega
        | succ j' =>
          right
          simp only [List.length_cons] at hj
          exact ⟨i', j', by omega, by omega, by simpa using hc⟩

/-! ### without gen_deep_equal the model is `Gen.Std.toW` -/

theorem any_goEq (x : GoVal) (r : List GoVal) :
    (r.any fun y => (Res.ok (goEq x y) : Res Bool) == Res.ok true) = !r.all fun y => !goEq x y := by
  induction r with
  | nil => simp
  | cons y t iht =>
    simp only [List.any_cons, List.all_cons, Bool.not_and, Bool.not_not, iht]
    congr 1
    cases goEq x y <;> decide

theorem hasDup_goEq (xs : List GoVal) : hasDup (fun x y => .ok (goEq x y)) xs = !Std.noDup xs := by
  induction xs with
  | nil => simp [hasDup, Std.noDup]
  | cons x r ih => simp only [hasDup, Std.noDup, ih, Bool.not_and, any_goEq]

theorem dupCheck_goEq (xs : List GoVal) : dupCheck (fun x y => .ok (goEq x y)) xs = .ok (!Std.noDup xs) := by
  rw [dupCheck_eq _ xs (fun x _ y _ => ⟨_, rfl⟩), hasDup_goEq]

mutual
theorem toW_eq_std (F : Facts) (P : Prog) (v : GoVal) : ∀ (ty : Ty), toW F P false ty v = Std.toW P ty v := by
  intro ty
  cases v with
  | nil => cases ty <;> first | (simp [toW, Std.toW]; done) | (simp only [toW, Std.toW]; cases P.struct? _ <;> rfl)
  | bool b => cases ty <;> simp [toW, Std.toW]
  | int b => cases ty <;> simp [toW, Std.toW]
  | dbl b => cases ty <;> simp [toW, Std.toW]
  | bytes b => cases ty <;> simp [toW, Std.toW]
  | list xs =>
    cases ty <;> try (simp [toW, Std.toW]; done)
    · rename_i e
      simp only [toW, Std.toW, toWList_eq_std F P xs e]
    · rename_i e
      have hc : (setCmp F P false e) = (fun x y => Res.ok (goEq x y)) := by
        funext x y; simp [setCmp]
      simp only [toW, Std.toW, toWList_eq_std F P xs e, hc, dupCheck_goEq]
      cases hv : P.validateSet <;> cases hn : Std.noDup xs <;> simp
  | map kvs =>
    cases ty <;> try (simp [toW, Std.toW]; done)
    rename_i k vt
    simp only [toW, Std.toW, toWPairs_eq_std F P kvs k vt]
  | strct fs =>
    cases ty <;> try (simp [toW, Std.toW]; done)
    rename_i i
    simp only [toW, Std.toW]
    cases hs : P.struct? i with
    | none => rfl
    | some sd => simp only [toWFields_eq_std F P fs sd.fields]
termination_by structural v
theorem toWList_eq_std (F : Facts) (P : Prog) (xs : List GoVal) : ∀ (e : Ty), toWList F P false e xs = Std.toWList P e xs := by
  intro e
  cases xs with
  | nil => simp [toWList, Std.toWList]
  | cons x r => simp only [toWList, Std.toWList, toW_eq_std F P x e, toWList_eq_std F P r e]
termination_by structural xs
theorem toWPairs_eq_std (F : Facts) (P : Prog) (kvs : List (GoVal × GoVal)) : ∀ (k v : Ty),
    toWPairs F P false k v kvs = Std.toWPairs P k v kvs := by
  intro k v
  cases kvs with
  | nil => simp [toWPairs, Std.toWPairs]
  | cons x r =>
    obtain ⟨a, b⟩ := x
    simp only [toWPairs, Std.toWPairs, toW_eq_std F P a k, toW_eq_std F P b v, toWPairs_eq_std F P r k v]
termination_by structural kvs
theorem toWFields_eq_std (F : Facts) (P : Prog) (vs : List GoVal) : ∀ (defs : List FieldDef),
    toWFields F P false defs vs = Std.toWFields P defs vs := by
  intro defs
  cases vs with
  | nil => cases defs <;> simp [toWFields, Std.toWFields]
  | cons v vs' =>
    cases defs with
    | nil => simp [toWFields, Std.toWFields]
    | cons f fs => simp only [toWFields, Std.toWFields, toW_eq_std F P v f.ty, toWFields_eq_std F P vs' fs]
termination_by structural vs
end

/-! ### reflexivity on deep copies

`selfOK P ty a`: `a` is a value of type `ty` as a Go program can hold it (base slots hold values of their type, map
keys pairwise different under Go's `==`), it holds NO NaN, and every map with struct-typed keys is empty.
For such values a deep copy compares equal. (NaN and struct-keyed maps are exactly what breaks it.) -/

def nanFreeBase (ty : Ty) (v : GoVal) : Bool :=
  baseOK ty v && (match v with | .dbl x => !isNaN x | _ => true)

/-- the Go map invariant: every key equals itself (no NaN) and differs from every later key -/
def distinctKeys (k : Ty) : List (GoVal × GoVal) → Bool
  | [] => true
  | (key, _) :: r => Std.keyEq k key key && r.all (fun e => !Std.keyEq k key e.1) && distinctKeys k r

mutual
def selfOK (P : Prog) (ty : Ty) (a : GoVal) : Bool :=
  match ty, a with
  | .struct _, .nil => true
  | .struct i, .strct fs =>
      match P.struct? i with
      | some sd => selfOKFields P sd.fields fs
      | none => false
  | .list _, .nil => true
  | .list e, .list xs => selfOKList P e xs
  | .set _, .nil => true
  | .set e, .list xs => selfOKList P e xs
  | .map _ _, .nil => true
  | .map k v, .map kvs => if k.isStruct then kvs.isEmpty else distinctKeys k kvs && selfOKEntries P v kvs
  | ty, a => nanFreeBase ty a
termination_by structural a
def selfOKList (P : Prog) (e : Ty) (xs : List GoVal) : Bool :=
  match xs with
  | [] => true
  | x :: r => selfOK P e x && selfOKList P e r
termination_by structural xs
def selfOKEntries (P : Prog) (v : Ty) (kvs : List (GoVal × GoVal)) : Bool :=
  match kvs with
  | [] => true
  | (_, val) :: r => selfOK P v val && selfOKEntries P v r
termination_by structural kvs
def selfOKFields (P : Prog) (defs : List FieldDef) (as : List GoVal) : Bool :=
  match defs, as with
  | [], [] => true
  | f :: fs, a :: as =>
      (if isPtrField f then isNilV a || nanFreeBase f.ty a else selfOK P f.ty a) && selfOKFields P fs as
  | _, _ => false
termination_by structural as
end

theorem baseEq_self (ty : Ty) (a : GoVal) (h : nanFreeBase ty a = true) : baseEq ty a a = true := by
  simp only [nanFreeBase, Bool.and_eq_true] at h
  cases ty <;> cases a <;> simp_all [baseOK, baseEq, goEq, dblEq]

theorem index_self (k : Ty) : ∀ (m : List (GoVal × GoVal)), distinctKeys k m = true →
    ∀ e ∈ m, index k m e.1 = some e.2 := by
  intro m
  induction m with
  | nil => intro _ e he; cases he
  | cons x r ih =>
    obtain ⟨k0, v0⟩ := x
    intro h e he
    simp only [distinctKeys, Bool.and_eq_true, List.all_eq_true, Bool.not_eq_true'] at h
    cases List.mem_cons.mp he with
    | inl heq => subst heq; simp [index, List.find?, h.1.1]
    | inr hr =>
      have hne : Std.keyEq k k0 e.1 = false := h.1.2 e hr
      have := ih h.2 e hr
      simp only [index] at this ⊢
      simp only [List.find?, hne]
      exact this

mutual
theorem deepEqual_refl (F : Facts) (hF : F.lenTest = true) (P : Prog) (a : GoVal) :
    ∀ (ty : Ty), selfOK P ty a = true → deepEqual F P ty a a = .ok true := by
  intro ty h
  have base : ∀ (ty : Ty) (a : GoVal), nanFreeBase ty a = true → (Res.ok (baseEq ty a a) : Res Bool) = .ok true := by
    intro ty a h; rw [baseEq_self ty a h]
  cases a with
  | nil =>
    cases ty <;> first
      | (simp only [selfOK] at h; simp only [deepEqual]; exact base _ _ h)
      | simp [deepEqual, isNilV, elemsOf, entriesOf]
  | bool x => cases ty <;> (simp only [selfOK] at h; simp only [deepEqual]; exact base _ _ h)
  | int x => cases ty <;> (simp only [selfOK] at h; simp only [deepEqual]; exact base _ _ h)
  | dbl x => cases ty <;> (simp only [selfOK] at h; simp only [deepEqual]; exact base _ _ h)
  | bytes x => cases ty <;> (simp only [selfOK] at h; simp only [deepEqual]; exact base _ _ h)
  | list xs =>
    cases ty <;> try (simp only [selfOK] at h; simp only [deepEqual]; exact base _ _ h)
    all_goals
      rename_i e
      simp only [selfOK] at h
      have := deepEqElems_refl F hF P xs e [] h
      simpa [deepEqual, elemsOf] using this
  | map kvs =>
    cases ty <;> try (simp only [selfOK] at h; simp only [deepEqual]; exact base _ _ h)
    rename_i k v
    simp only [selfOK] at h
    simp only [deepEqual, entriesOf, bne_self_eq_false, Bool.and_false, Bool.false_eq_true, if_false]
    by_cases hk : k.isStruct = true
    · simp only [hk, if_true] at h
      have : kvs = [] := by simpa using h
      subst this
      simp [deepEqEntries]
    · simp only [hk, if_false, Bool.false_eq_true, Bool.and_eq_true] at h
      exact deepEqEntries_refl F hF P kvs k v kvs (fun e he => index_self k kvs h.1 e he) h.2
  | strct fs =>
    cases ty <;> try (simp only [selfOK] at h; simp only [deepEqual]; exact base _ _ h)
    rename_i i
    simp only [selfOK] at h
    simp only [deepEqual]
    cases hs : P.struct? i with
    | none => simp [hs] at h
    | some sd =>
      simp only [hs] at h ⊢
      exact deepEqFields_refl F hF P fs sd.fields h
termination_by structural a
theorem deepEqElems_refl (F : Facts) (hF : F.lenTest = true) (P : Prog) (xs : List GoVal) :
    ∀ (e : Ty) (pre : List GoVal), selfOKList P e xs = true →
      deepEqElems F P e xs pre.length (pre ++ xs) = .ok true := by
  intro e pre h
  cases xs with
  | nil => simp [deepEqElems]
  | cons v r =>
    simp only [selfOKList, Bool.and_eq_true] at h
    have hget : (pre ++ v :: r)[pre.length]? = some v := by simp
    simp only [deepEqElems, hget]
    rw [deepEqual_refl F hF P v e h.1, bind_ok_ite]
    have ih := deepEqElems_refl F hF P r e (pre ++ [v]) h.2
    simpa using ih
termination_by structural xs
theorem deepEqEntries_refl (F : Facts) (hF : F.lenTest = true) (P : Prog) (kvs : List (GoVal × GoVal)) :
    ∀ (k v : Ty) (src : List (GoVal × GoVal)), (∀ e ∈ kvs, index k src e.1 = some e.2) → selfOKEntries P v kvs = true →
      deepEqEntries F P k v kvs src = .ok true := by
  intro k v src hidx h
  cases kvs with
  | nil => simp [deepEqEntries]
  | cons x r =>
    obtain ⟨key, val⟩ := x
    simp only [selfOKEntries, Bool.and_eq_true] at h
    have h0 := hidx (key, val) (by simp)
    simp only [deepEqEntries, h0]
    rw [deepEqual_refl F hF P val v h.1, bind_ok_ite]
    simp only [if_true]
    exact deepEqEntries_refl F hF P r k v src (fun e he => hidx e (by simp [he])) h.2
termination_by structural kvs
theorem deepEqFields_refl (F : Facts) (hF : F.lenTest = true) (P : Prog) (as : List GoVal) :
    ∀ (defs : List FieldDef), selfOKFields P defs as = true → deepEqFields F P defs as as = .ok true := by
  intro defs h
  cases as with
  | nil => cases defs <;> simp_all [selfOKFields, deepEqFields]
  | cons a as' =>
    cases defs with
    | nil => simp [selfOKFields] at h
    | cons f fs =>
      simp only [selfOKFields, Bool.and_eq_true] at h
      have ih := deepEqFields_refl F hF P as' fs h.2
      simp only [deepEqFields]
      have hfield : (if isPtrField f = true then Res.ok (ptrBaseEq f.ty a a) else deepEqual F P f.ty a a) = Res.ok true := by
        by_cases hp : isPtrField f = true
        · simp only [hp, if_true, Bool.or_eq_true] at h ⊢
          cases h.1 with
          | inl hn => cases a <;> simp_all [isNilV, ptrBaseEq]
          | inr hb =>
            have := baseEq_self f.ty a hb
            cases a <;> simp_all [ptrBaseEq]
        · simp only [hp, if_false, Bool.false_eq_true] at h ⊢
          exact deepEqual_refl F hF P a f.ty h.1
      rw [hfield, bind_ok_ite]
      simpa using ih
termination_by structural as
end

/-! ### no false negatives when no map has struct-typed keys

For programs without struct-typed map keys, two values that ARE structurally equal are reported equal (the defects
that remain there — missing key read as zero, optional binary — only make DIFFERENT values compare equal). -/

def _root_.Gen.Ty.noStructKey : Ty → Bool
  | .list e => e.noStructKey
  | .set e => e.noStructKey
  | .map k v => !k.isStruct && k.noStructKey && v.noStructKey
  | _ => true

def _root_.Gen.Prog.noStructKey (P : Prog) : Bool :=
  P.structs.all fun sd => sd.fields.all fun f => f.ty.noStructKey

theorem scalarEq_baseEq (ty : Ty) (a b : GoVal) (h : scalarEq ty a b = true) : baseEq ty a b = true := by
  cases ty <;> cases a <;> cases b <;> simp_all [baseEq, scalarEq, goEq, bytesOf]

theorem struct_fields_noStructKey (P : Prog) (hP : P.noStructKey = true) (i : Nat) (sd : StructDef)
    (hs : P.struct? i = some sd) : ∀ f ∈ sd.fields, f.ty.noStructKey = true := by
  intro f hf
  simp only [Prog.noStructKey, List.all_eq_true] at hP
  have hmem : sd ∈ P.structs := by
    simp only [Prog.struct?] at hs
    exact List.mem_of_getElem? hs
  exact hP sd hmem f hf

mutual
theorem valEq_deepEqual (F : Facts) (hF : F.lenTest = true) (P : Prog) (hP : P.noStructKey = true) (a : GoVal) :
    ∀ (ty : Ty) (b : GoVal), ty.noStructKey = true → valEq P ty a b = true → deepEqual F P ty a b = .ok true := by
  intro ty b hty h
  have base : ∀ (ty : Ty) (a : GoVal), scalarEq ty a b = true → (Res.ok (baseEq ty a b) : Res Bool) = .ok true := by
    intro ty a h; rw [scalarEq_baseEq ty a b h]
  cases a with
  | nil =>
    cases ty <;> first
      | (simp only [valEq] at h; simp only [deepEqual]; exact base _ _ h)
      | (simp only [valEq] at h; simp [deepEqual, h])
  | bool x => cases ty <;> (simp only [valEq] at h; simp only [deepEqual]; exact base _ _ h)
  | int x => cases ty <;> (simp only [valEq] at h; simp only [deepEqual]; exact base _ _ h)
  | dbl x => cases ty <;> (simp only [valEq] at h; simp only [deepEqual]; exact base _ _ h)
  | bytes x => cases ty <;> (simp only [valEq] at h; simp only [deepEqual]; exact base _ _ h)
  | list xs =>
    cases ty <;> try (simp only [valEq] at h; simp only [deepEqual]; exact base _ _ h)
    all_goals
      rename_i e
      simp only [valEq] at h
      have hl := valEqList_length P e xs _ h
      have := deepEqElems_complete F hF P hP xs e 0 (elemsOf b) (by simpa [Ty.noStructKey] using hty) (by simpa using h)
      simp [deepEqual, hl, this]
  | map kvs =>
    cases ty <;> try (simp only [valEq] at h; simp only [deepEqual]; exact base _ _ h)
    rename_i k v
    simp only [Ty.noStructKey, Bool.and_eq_true, Bool.not_eq_true'] at hty
    simp only [valEq, hty.1.1, Bool.false_eq_true, if_false, Bool.and_eq_true, beq_iff_eq] at h
    have := deepEqEntries_complete F hF P hP kvs k v (entriesOf b) hty.2 h.2.1
    simp [deepEqual, h.1, this]
  | strct fs =>
    cases ty <;> try (simp only [valEq] at h; simp only [deepEqual]; exact base _ _ h)
    rename_i i
    simp only [valEq] at h
    simp only [deepEqual]
    cases b <;> try (simp at h; done)
    rename_i gs
    cases hs : P.struct? i with
    | none => simp [hs] at h
    | some sd =>
      simp only [hs] at h ⊢
      exact deepEqFields_complete F hF P hP fs sd.fields gs (struct_fields_noStructKey P hP i sd hs) h
termination_by structural a
theorem deepEqElems_complete (F : Facts) (hF : F.lenTest = true) (P : Prog) (hP : P.noStructKey = true) (xs : List GoVal) :
    ∀ (e : Ty) (i : Nat) (src : List GoVal), e.noStructKey = true → valEqList P e xs (src.drop i) = true →
      deepEqElems F P e xs i src = .ok true := by
  intro e i src he h
  cases xs with
  | nil => simp [deepEqElems]
  | cons v r =>
    have hi : i < src.length := by
      cases hd : src.drop i with
      | nil => simp [hd, valEqList] at h
      | cons y t =>
        have := congrArg List.length hd
        simp at this; omega
    rw [List.drop_eq_getElem_cons hi] at h
    simp only [valEqList, Bool.and_eq_true] at h
    simp only [deepEqElems, List.getElem?_eq_getElem hi]
    rw [valEq_deepEqual F hF P hP v e _ he h.1, bind_ok_ite]
    simp only [if_true]
    exact deepEqElems_complete F hF P hP r e (i + 1) src he h.2
termination_by structural xs
theorem deepEqEntries_complete (F : Facts) (hF : F.lenTest = true) (P : Prog) (hP : P.noStructKey = true)
    (kvs : List (GoVal × GoVal)) :
    ∀ (k v : Ty) (src : List (GoVal × GoVal)), v.noStructKey = true → valEqEntries P k v kvs src = true →
      deepEqEntries F P k v kvs src = .ok true := by
  intro k v src hv h
  cases kvs with
  | nil => simp [deepEqEntries]
  | cons x r =>
    obtain ⟨key, val⟩ := x
    simp only [valEqEntries, Bool.and_eq_true] at h
    simp only [deepEqEntries]
    cases hi : index k src key with
    | none => simp [hi] at h
    | some w =>
      simp only [hi] at h ⊢
      rw [valEq_deepEqual F hF P hP val v w hv h.1, bind_ok_ite]
      simp only [if_true]
      exact deepEqEntries_complete F hF P hP r k v src hv h.2
termination_by structural kvs
theorem deepEqFields_complete (F : Facts) (hF : F.lenTest = true) (P : Prog) (hP : P.noStructKey = true) (as : List GoVal) :
    ∀ (defs : List FieldDef) (bs : List GoVal), (∀ f ∈ defs, f.ty.noStructKey = true) → valEqFields P defs as bs = true →
      deepEqFields F P defs as bs = .ok true := by
  intro defs bs hdefs h
  cases as with
  | nil => cases defs <;> cases bs <;> simp_all [valEqFields, deepEqFields]
  | cons a as' =>
    cases defs with
    | nil => simp [valEqFields] at h
    | cons f fs =>
      cases bs with
      | nil => simp [valEqFields] at h
      | cons b bs' =>
        simp only [valEqFields] at h
        rw [Bool.and_eq_true] at h
        have ih := deepEqFields_complete F hF P hP as' fs bs' (fun g hg => hdefs g (by simp [hg])) h.2
        have hfty := hdefs f (by simp)
        simp only [deepEqFields]
        have hfield : (if isPtrField f = true then Res.ok (ptrBaseEq f.ty a b) else deepEqual F P f.ty a b) = Res.ok true := by
          by_cases hq : (presenceSlot f && (isNilV a || isNilV b)) = true
          · have h1 := h.1
            simp only [hq, if_true, Bool.and_eq_true] at h1
            have ha : a = .nil := by cases a <;> simp_all [isNilV]
            have hb : b = .nil := by cases b <;> simp_all [isNilV]
            subst ha; subst hb
            by_cases hp : isPtrField f = true
            · simp [hp, ptrBaseEq]
            · simp only [hp, if_false, Bool.false_eq_true]
              cases hty : f.ty <;> simp [deepEqual, isNilV, baseEq, bytesOf, goEq, elemsOf, entriesOf]
          · have h1 := h.1
            simp only [hq, if_false, Bool.false_eq_true] at h1
            by_cases hp : isPtrField f = true
            · have hps := isPtr_presence f hp
              have hbase : f.ty.isBase = true := by
                simp only [isPtrField, Bool.and_eq_true] at hp; exact hp.1.2
              rw [valEq_base P f.ty a b hbase] at h1
              have hbe := scalarEq_baseEq f.ty a b h1
              simp only [hps, Bool.true_and, Bool.or_eq_true, not_or, Bool.not_eq_true] at hq
              simp only [hp, if_true]
              cases a <;> cases b <;> simp_all [isNilV, ptrBaseEq]
            · simp only [hp, if_false, Bool.false_eq_true]
              exact valEq_deepEqual F hF P hP a f.ty b hfty h1
        rw [hfield, bind_ok_ite]
        simpa using ih
termination_by structural as
end

/-! ### witnesses (the directed program of harness/cmd/c18/directed.go, reduced to the structs used) -/
namespace Witness

def fd (id : Int) (req : Req) (ty : Ty) : FieldDef := { id := id, req := req, ty := ty, dflt := none }

/-- `struct K {1: i32 x}` (0)  `struct D0 {1: map<i32,i32> m}` (1)  `struct D1 {1: map<K,i32> m}` (2)
    `struct D2 {1: optional binary b}` (3)  `struct D3 {1: set<map<i32,i32>> s}` (4) -/
def P : Prog := { structs := [
  { kind := 0, fields := [fd 1 .default .i32] },
  { kind := 0, fields := [fd 1 .default (.map .i32 .i32)] },
  { kind := 0, fields := [fd 1 .default (.map (.struct 0) .i32)] },
  { kind := 0, fields := [fd 1 .optional .bin] },
  { kind := 0, fields := [fd 1 .default (.set (.map .i32 .i32))] }] }

/-- `P` without the struct-keyed map -/
def P1 : Prog := { structs := [
  { kind := 0, fields := [fd 1 .default .i32] },
  { kind := 0, fields := [fd 1 .default (.map .i32 .i32)] }] }

/-- `struct D {1: double d}` -/
def PD : Prog := { structs := [{ kind := 0, fields := [fd 1 .default .dbl] }] }

def m10 : GoVal := .strct [.map [(.int 1, .int 0)]]
def m20 : GoVal := .strct [.map [(.int 2, .int 0)]]
def m25 : GoVal := .strct [.map [(.int 2, .int 5)]]
def m13 : GoVal := .strct [.map [(.int 1, .int 3)]]
def k17 : GoVal := .strct [.map [(.strct [.int 1], .int 7)]]
def unsetBin : GoVal := .strct [.nil]
def emptyBin : GoVal := .strct [.bytes []]
def setOfMaps : GoVal := .strct [.list [.map [(.int 1, .int 0)], .map [(.int 2, .int 0)]]]

end Witness

end Gen.DeepEq
