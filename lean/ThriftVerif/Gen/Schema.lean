import ThriftVerif.Core.Wire
/-
  Gen/Schema: the typed layer shared by the models of generated code.
  A `Prog` is the resolved, typedef-free schema of one IDL program (what the
  harness derives from its own abstract program, see docs/BATCH.md §1/§5);
  a `GoVal` describes what a generated Go object holds (docs/BATCH.md §2).
-/
namespace Gen
open Wire

inductive Ty
  | bool | i8 | i16 | i32 | i64 | dbl | str | bin | enum
  | list (e : Ty) | set (e : Ty) | map (k v : Ty) | struct (sidx : Nat)
  deriving Repr, DecidableEq, Inhabited

def Ty.ttype : Ty → TType
  | .bool => .bool | .i8 => .i8 | .i16 => .i16 | .i32 => .i32 | .i64 => .i64 | .dbl => .dbl
  | .str => .str | .bin => .str | .enum => .i32
  | .list _ => .list | .set _ => .set | .map _ _ => .map | .struct _ => .struct

def Ty.isBase : Ty → Bool
  | .list _ | .set _ | .map _ _ | .struct _ => false
  | _ => true

def Ty.isStruct : Ty → Bool
  | .struct _ => true
  | _ => false

inductive Req | required | optional | default
  deriving Repr, DecidableEq, Inhabited

/-- what a generated Go object holds -/
inductive GoVal
  | nil
  | bool (b : Bool)
  | int (v : Int)
  | dbl (bits : Nat)
  | bytes (bs : Bytes)
  | list (xs : List GoVal)                 -- a non-nil slice (list or set)
  | map (kvs : List (GoVal × GoVal))       -- a non-nil map, entries in canonical (sorted) order
  | strct (fs : List GoVal)                -- a struct-like, all fields in schema order
  deriving Repr, Inhabited

structure FieldDef where
  id : Int
  req : Req
  ty : Ty
  dflt : Option GoVal
  deriving Repr, Inhabited

structure StructDef where
  kind : Nat            -- 0 struct, 1 union, 2 exception
  fields : List FieldDef
  deriving Repr, Inhabited

structure Prog where
  structs : List StructDef
  keepUnknown : Bool := false
  validateSet : Bool := true
  deriving Repr, Inhabited

def Prog.struct? (P : Prog) (i : Nat) : Option StructDef := P.structs[i]?

/-- outcome of running generated code -/
inductive Res (α : Type)
  | ok (a : α) | err | panic
  deriving Repr

instance : Monad Res where
  pure := .ok
  bind r f := match r with | .ok a => f a | .err => .err | .panic => .panic

def Res.ofOption {α} : Option α → Res α
  | some a => .ok a
  | none => .err

/-- two's-complement bit pattern of `v` at `bits` bits -/
def pat (bits : Nat) (v : Int) : Nat := (v % (2 ^ bits : Int)).toNat

/-- signed value of a bit pattern -/
def unpat (bits : Nat) (x : Nat) : Int :=
  if x ≥ 2 ^ (bits - 1) then (x : Int) - (2 ^ bits : Int) else (x : Int)

/-- is the double bit pattern a NaN -/
def isNaN (bits : Nat) : Bool :=
  (bits / 4503599627370496) % 2048 == 2047 && bits % 4503599627370496 != 0

/-- Go `==` on float64 bit patterns (`+0 == -0`, `NaN != NaN`) -/
def dblEq (a b : Nat) : Bool :=
  if isNaN a || isNaN b then false
  else if a % 9223372036854775808 == 0 && b % 9223372036854775808 == 0 then true
  else a == b

mutual
/-- reflect.DeepEqual on the Go values a `GoVal` stands for (pointers compared by pointee) -/
def goEq : GoVal → GoVal → Bool
  | .nil, .nil => true
  | .bool a, .bool b => a == b
  | .int a, .int b => a == b
  | .dbl a, .dbl b => dblEq a b
  | .bytes a, .bytes b => a == b
  | .list a, .list b => goEqList a b
  | .map a, .map b => goEqPairs a b
  | .strct a, .strct b => goEqList a b
  | _, _ => false
def goEqList : List GoVal → List GoVal → Bool
  | [], [] => true
  | x :: xs, y :: ys => goEq x y && goEqList xs ys
  | _, _ => false
def goEqPairs : List (GoVal × GoVal) → List (GoVal × GoVal) → Bool
  | [], [] => true
  | (k, v) :: xs, (k', v') :: ys => goEq k k' && goEq v v' && goEqPairs xs ys
  | _, _ => false
end

/-- the zero value a generated struct field starts from when it has no declared default -/
def zeroOf (req : Req) (ty : Ty) : GoVal :=
  match ty with
  | .bool => if req = .optional then .nil else .bool false
  | .i8 | .i16 | .i32 | .i64 | .enum => if req = .optional then .nil else .int 0
  | .dbl => if req = .optional then .nil else .dbl 0
  | .str => if req = .optional then .nil else .bytes []
  | .bin => .nil
  | .list _ | .set _ | .map _ _ | .struct _ => .nil

/-- `NewX()` / `InitDefault()` on a zero struct: declared defaults, everything else zero/nil -/
def newX (sd : StructDef) : GoVal :=
  .strct (sd.fields.map fun f => match f.dflt with
    | some d => d
    | none => zeroOf f.req f.ty)

end Gen
