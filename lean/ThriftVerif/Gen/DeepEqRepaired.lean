import ThriftVerif.Gen.DeepEqSymm
/- the REPAIRED template (`_src, ok := src[k]; if !ok { return false }`, Facts.commaOk = true): DeepEqual is
   structural equality on every well-shaped pair without struct-typed map keys and without the optional-binary clash.
   The only non-structural step is a pigeonhole argument: two Go maps of the same size, every key of the one found in
   the other, have the same key set. -/
namespace Gen.DeepEq
open Gen

/-! ### pigeonhole on lists -/

theorem subset_of_nodup_subset_length {α} : ∀ (l₁ l₂ : List α), l₁.Nodup → l₁ ⊆ l₂ → l₂.length ≤ l₁.length → l₂ ⊆ l₁ := by
  classical
  intro l₁
  induction l₁ with
  | nil =>
    intro l₂ _ _ hlen x hx
    have : l₂ = [] := List.eq_nil_of_length_eq_zero (by simpa using hlen)
    simp [this] at hx
  | cons a t ih =>
    intro l₂ h₁ hsub hlen x hx
    rw [List.nodup_cons] at h₁
    have ha : a ∈ l₂ := hsub (List.mem_cons_self ..)
    have htsub : t ⊆ l₂.erase a := by
      intro y hy
      have hya : y ≠ a := fun h => h₁.1 (h ▸ hy)
      exact (List.mem_erase_of_ne hya).2 (hsub (List.mem_cons_of_mem _ hy))
    have hlen' : (l₂.erase a).length ≤ t.length := by
      rw [List.length_erase]; simp [ha]; simp at hlen; omega
    have hih := ih (l₂.erase a) h₁.2 htsub hlen'
    by_cases hxa : x = a
    · simp [hxa]
    · exact List.mem_cons_of_mem _ (hih ((List.mem_erase_of_ne hxa).2 hx))

/-! ### canonical map keys: Go `==` on base values is equality of canonical forms -/

def canonKey : GoVal → GoVal
  | .dbl x => .dbl (if x % 9223372036854775808 == 0 then 0 else x)
  | v => v

theorem not_nan_of_zeroish (y : Nat) (h : y % 9223372036854775808 = 0) : isNaN y = false := by
  unfold isNaN
  have : y % 4503599627370496 = 0 := by omega
  simp [this]

theorem dblEq_iff_canon (x y : Nat) (hx : dblEq x x = true) :
    dblEq x y = true ↔ (if x % 9223372036854775808 == 0 then 0 else x) = (if y % 9223372036854775808 == 0 then 0 else y) := by
  have hnx : isNaN x = false := by
    unfold dblEq at hx
    cases h : isNaN x <;> simp_all
  unfold dblEq
  by_cases zx : x % 9223372036854775808 = 0 <;> by_cases zy : y % 9223372036854775808 = 0
  · simp [zx, zy, hnx, not_nan_of_zeroish y zy]
  · simp [zx, zy, hnx]
    constructor
    · intro h; omega
    · intro h; omega
  · simp [zx, zy, hnx]
    constructor
    · intro h; omega
    · intro h; omega
  · simp only [zx, zy, hnx, Bool.false_or, beq_iff_eq, if_false]
    constructor
    · intro h
      cases hy : isNaN y <;> simp_all
    · intro h
      subst h
      simp [hnx]

theorem goEq_iff_canon (a b : GoVal) (ha : isBaseVal a = true) (hb : isBaseVal b = true) (haa : goEq a a = true) :
    goEq a b = true ↔ canonKey a = canonKey b := by
  cases a <;> simp [isBaseVal] at ha <;> cases b <;> simp [isBaseVal] at hb <;> simp [goEq, canonKey] at haa ⊢
  · rename_i x y
    simpa using dblEq_iff_canon x y haa

/-! ### two Go maps of the same size, every key of the one found in the other: the same key set -/

def keysC (m : List (GoVal × GoVal)) : List GoVal := m.map (fun e => canonKey e.1)

theorem keyEq_goEq (k : Ty) (hk : k.isStruct = false) (a b : GoVal) : Std.keyEq k a b = goEq a b := by
  simp [Std.keyEq, hk]

theorem distinct_self (k : Ty) : ∀ (m : List (GoVal × GoVal)), distinctKeys k m = true →
    ∀ e ∈ m, Std.keyEq k e.1 e.1 = true := by
  intro m
  induction m with
  | nil => intro _ e he; cases he
  | cons x r ih =>
    obtain ⟨k0, v0⟩ := x
    intro h e he
    simp only [distinctKeys, Bool.and_eq_true] at h
    cases List.mem_cons.mp he with
    | inl heq => subst heq; exact h.1.1
    | inr hr => exact ih h.2 e hr

theorem keysC_nodup (k : Ty) (hk : k.isStruct = false) : ∀ (m : List (GoVal × GoVal)), distinctKeys k m = true →
    (∀ e ∈ m, isBaseVal e.1 = true) → (keysC m).Nodup := by
  intro m
  induction m with
  | nil => intro _ _; simp [keysC]
  | cons x r ih =>
    obtain ⟨k0, v0⟩ := x
    intro h hb
    simp only [distinctKeys, Bool.and_eq_true, List.all_eq_true, Bool.not_eq_true'] at h
    have hb' : ∀ e ∈ r, isBaseVal e.1 = true := fun e he => hb e (by simp [he])
    simp only [keysC, List.map_cons, List.nodup_cons]
    refine ⟨?_, ih h.2 hb'⟩
    intro hmem
    obtain ⟨e, he, heq⟩ := List.mem_map.mp hmem
    have h00 : goEq k0 k0 = true := by rw [← keyEq_goEq k hk]; exact h.1.1
    have : goEq k0 e.1 = true := (goEq_iff_canon k0 e.1 (hb (k0, v0) (by simp)) (hb' e he) h00).mpr heq.symm
    have hne := h.1.2 e he
    rw [keyEq_goEq k hk] at hne
    simp [this] at hne

theorem index_isSome_iff (k : Ty) (hk : k.isStruct = false) (m : List (GoVal × GoVal)) (hd : distinctKeys k m = true)
    (hb : ∀ e ∈ m, isBaseVal e.1 = true) (key : GoVal) (hkey : isBaseVal key = true) :
    (index k m key).isSome = true ↔ canonKey key ∈ keysC m := by
  constructor
  · intro h
    cases hi : index k m key with
    | none => simp [hi] at h
    | some w =>
      obtain ⟨e, he, _, hke⟩ := index_some_mem k m key w hi
      have hee := distinct_self k m hd e he
      rw [keyEq_goEq k hk] at hke hee
      have := (goEq_iff_canon e.1 key (hb e he) hkey hee).mp hke
      exact List.mem_map.mpr ⟨e, he, this⟩
  · intro h
    obtain ⟨e, he, heq⟩ := List.mem_map.mp h
    have hee := distinct_self k m hd e he
    rw [keyEq_goEq k hk] at hee
    have := (goEq_iff_canon e.1 key (hb e he) hkey hee).mpr heq
    exact index_isSome_of_mem k m key e he (by rw [keyEq_goEq k hk]; exact this)

theorem keys_pigeonhole (k : Ty) (hk : k.isStruct = false) (ma mb : List (GoVal × GoVal))
    (hwa : keysWF k ma = true) (hwb : keysWF k mb = true) (hl : ma.length = mb.length)
    (h : ∀ e ∈ ma, (index k mb e.1).isSome = true) : ∀ e' ∈ mb, (index k ma e'.1).isSome = true := by
  simp only [keysWF, hk, Bool.false_or, Bool.and_eq_true, List.all_eq_true] at hwa hwb
  have hsub : keysC ma ⊆ keysC mb := by
    intro x hx
    obtain ⟨e, he, rfl⟩ := List.mem_map.mp hx
    exact (index_isSome_iff k hk mb hwb.1 hwb.2 e.1 (hwa.2 e he)).mp (h e he)
  have hrev := subset_of_nodup_subset_length (keysC ma) (keysC mb) (keysC_nodup k hk ma hwa.1 hwa.2) hsub
    (by simp [keysC, hl])
  intro e' he'
  exact (index_isSome_iff k hk ma hwa.1 hwa.2 e'.1 (hwb.2 e' he')).mpr (hrev (List.mem_map.mpr ⟨e', he', rfl⟩))

/-! ### well-shaped pairs (no condition on the key SETS) and the repaired template -/

mutual
def shaped (P : Prog) (ty : Ty) (a b : GoVal) : Bool :=
  match ty, a with
  | .struct _, .nil => true
  | .struct i, .strct fs =>
      match b with
      | .nil => true
      | .strct gs =>
          match P.struct? i with
          | some sd => shapedFields P sd.fields fs gs
          | none => false
      | _ => false
  | .list _, .nil => true
  | .list e, .list xs => xs.length != (elemsOf b).length || shapedList P e xs (elemsOf b)
  | .set _, .nil => true
  | .set e, .list xs => xs.length != (elemsOf b).length || shapedList P e xs (elemsOf b)
  | .map _ _, .nil => true
  | .map k v, .map kvs =>
      kvs.length != (entriesOf b).length ||
      (if k.isStruct then kvs.isEmpty
       else keysWF k kvs && keysWF k (entriesOf b) && shapedEntries P k v kvs (entriesOf b))
  | ty, a => baseOK ty a && baseOK ty b
termination_by structural a
def shapedList (P : Prog) (e : Ty) (xs ys : List GoVal) : Bool :=
  match xs, ys with
  | x :: xs, y :: ys => shaped P e x y && shapedList P e xs ys
  | _, _ => true
termination_by structural xs
def shapedEntries (P : Prog) (k v : Ty) (kvs other : List (GoVal × GoVal)) : Bool :=
  match kvs with
  | [] => true
  | (key, val) :: r =>
      (match index k other key with
       | some w => shaped P v val w
       | none => true) && shapedEntries P k v r other
termination_by structural kvs
def shapedFields (P : Prog) (defs : List FieldDef) (as bs : List GoVal) : Bool :=
  match defs, as, bs with
  | [], [], [] => true
  | f :: fs, a :: as, b :: bs =>
      (if isPtrField f then isNilV a || isNilV b || (baseOK f.ty a && baseOK f.ty b)
       else (if presenceSlot f && f.ty == .bin then isNilV a == isNilV b else true) && shaped P f.ty a b)
      && shapedFields P fs as bs
  | _, _, _ => false
termination_by structural as
end

mutual
theorem deepEqual_eq_valEq_rep (F : Facts) (hF : F.lenTest = true) (hC : F.commaOk = true) (P : Prog) (a : GoVal) :
    ∀ (ty : Ty) (b : GoVal), shaped P ty a b = true → deepEqual F P ty a b = .ok (valEq P ty a b) := by
  intro ty b h
  have base : ∀ (ty : Ty) (a : GoVal), (baseOK ty a && baseOK ty b) = true →
      (Res.ok (baseEq ty a b) : Res Bool) = .ok (scalarEq ty a b) := by
    intro ty a h
    simp only [Bool.and_eq_true] at h
    rw [baseEq_eq_scalarEq ty a b h.1 h.2]
  cases a with
  | nil =>
    cases ty <;> first
      | (simp only [shaped] at h; simp only [deepEqual, valEq]; exact base _ _ h)
      | simp [deepEqual, valEq, hF]
  | bool x => cases ty <;> (simp only [shaped] at h; simp only [deepEqual, valEq]; exact base _ _ h)
  | int x => cases ty <;> (simp only [shaped] at h; simp only [deepEqual, valEq]; exact base _ _ h)
  | dbl x => cases ty <;> (simp only [shaped] at h; simp only [deepEqual, valEq]; exact base _ _ h)
  | bytes x => cases ty <;> (simp only [shaped] at h; simp only [deepEqual, valEq]; exact base _ _ h)
  | list xs =>
    cases ty <;> try (simp only [shaped] at h; simp only [deepEqual, valEq]; exact base _ _ h)
    all_goals
      rename_i e
      simp only [shaped, Bool.or_eq_true] at h
      simp only [deepEqual, valEq, hF, Bool.true_and]
      by_cases hl : xs.length = (elemsOf b).length
      · have h2 : shapedList P e xs (elemsOf b) = true := by
          cases h with
          | inl h => simp [hl] at h
          | inr h => exact h
        have := deepEqElems_eq_rep F hF hC P xs e 0 (elemsOf b) (by omega) (by simpa using h2)
        simp only [List.drop_zero] at this
        simp [hl, this]
      · have hv : valEqList P e xs (elemsOf b) = false := by
          cases hv : valEqList P e xs (elemsOf b) with
          | false => rfl
          | true => exact absurd (valEqList_length P e xs _ hv) hl
        simp [hl, hv]
  | map kvs =>
    cases ty <;> try (simp only [shaped] at h; simp only [deepEqual, valEq]; exact base _ _ h)
    rename_i k v
    simp only [shaped, Bool.or_eq_true] at h
    simp only [deepEqual, valEq, hF, Bool.true_and]
    by_cases hl : kvs.length = (entriesOf b).length
    · have h2 : (if k.isStruct = true then kvs.isEmpty
          else keysWF k kvs && keysWF k (entriesOf b) && shapedEntries P k v kvs (entriesOf b)) = true := by
        cases h with
        | inl h => simp [hl] at h
        | inr h => exact h
      by_cases hk : k.isStruct = true
      · simp only [hk, if_true] at h2 ⊢
        have hnil : kvs = [] := by simpa using h2
        subst hnil
        have hb : entriesOf b = [] := by
          simp at hl
          exact List.eq_nil_of_length_eq_zero hl.symm
        simp [hb, deepEqEntries, valEqSub]
      · have hk' : k.isStruct = false := by simpa using hk
        simp only [hk, if_false, Bool.false_eq_true, Bool.and_eq_true] at h2 ⊢
        have hde := deepEqEntries_eq_rep F hF hC P kvs k v (entriesOf b) h2.2
        cases hv : valEqEntries P k v kvs (entriesOf b) with
        | false => simp [hl, hde, hv]
        | true =>
          have hsome : ∀ e ∈ kvs, (index k (entriesOf b) e.1).isSome = true := by
            intro e he
            obtain ⟨w, hi, _⟩ := (valEqEntries_iff P k v (entriesOf b) kvs).mp hv e he
            simp [hi]
          have hall := keys_pigeonhole k hk' kvs (entriesOf b) h2.1.1 h2.1.2 hl hsome
          have hall' : ((entriesOf b).all fun e' => (index k kvs e'.1).isSome) = true := List.all_eq_true.mpr hall
          simp [hl, hde, hv, hall']
    · simp [hl]
  | strct fs =>
    cases ty <;> try (simp only [shaped] at h; simp only [deepEqual, valEq]; exact base _ _ h)
    rename_i i
    simp only [shaped] at h
    simp only [deepEqual, valEq]
    cases b <;> try (first | (simp at h; done) | (simp; done))
    rename_i gs
    cases hs : P.struct? i with
    | none => simp [hs] at h
    | some sd =>
      simp only [hs] at h ⊢
      exact deepEqFields_eq_rep F hF hC P fs sd.fields gs h
termination_by structural a
theorem deepEqElems_eq_rep (F : Facts) (hF : F.lenTest = true) (hC : F.commaOk = true) (P : Prog) (xs : List GoVal) :
    ∀ (e : Ty) (i : Nat) (src : List GoVal), i + xs.length = src.length → shapedList P e xs (src.drop i) = true →
      deepEqElems F P e xs i src = .ok (valEqList P e xs (src.drop i)) := by
  intro e i src hlen h
  cases xs with
  | nil =>
    have : src.drop i = [] := by
      apply List.drop_eq_nil_of_le
      simp at hlen; omega
    simp [deepEqElems, valEqList, this]
  | cons v r =>
    have hi : i < src.length := by simp at hlen; omega
    rw [List.drop_eq_getElem_cons hi] at h ⊢
    simp only [shapedList, Bool.and_eq_true] at h
    simp only [deepEqElems, valEqList, List.getElem?_eq_getElem hi]
    rw [deepEqual_eq_valEq_rep F hF hC P v e _ h.1, bind_ok_ite]
    have ih := deepEqElems_eq_rep F hF hC P r e (i + 1) src (by simp at hlen; omega) h.2
    cases hv : valEq P e v src[i] with
    | false => simp
    | true => simp [ih]
termination_by structural xs
theorem deepEqEntries_eq_rep (F : Facts) (hF : F.lenTest = true) (hC : F.commaOk = true) (P : Prog) (kvs : List (GoVal × GoVal)) :
    ∀ (k v : Ty) (src : List (GoVal × GoVal)), shapedEntries P k v kvs src = true →
      deepEqEntries F P k v kvs src = .ok (valEqEntries P k v kvs src) := by
  intro k v src h
  cases kvs with
  | nil => simp [deepEqEntries, valEqEntries]
  | cons x r =>
    obtain ⟨key, val⟩ := x
    simp only [shapedEntries, Bool.and_eq_true] at h
    simp only [deepEqEntries, valEqEntries]
    cases hi : index k src key with
    | none => simp [hC]
    | some w =>
      simp only [hi] at h ⊢
      rw [deepEqual_eq_valEq_rep F hF hC P val v w h.1, bind_ok_ite]
      have ih := deepEqEntries_eq_rep F hF hC P r k v src h.2
      cases hv : valEq P v val w with
      | false => simp
      | true => simp [ih]
termination_by structural kvs
theorem deepEqFields_eq_rep (F : Facts) (hF : F.lenTest = true) (hC : F.commaOk = true) (P : Prog) (as : List GoVal) :
    ∀ (defs : List FieldDef) (bs : List GoVal), shapedFields P defs as bs = true →
      deepEqFields F P defs as bs = .ok (valEqFields P defs as bs) := by
  intro defs bs h
  cases as with
  | nil => cases defs <;> cases bs <;> simp_all [shapedFields, deepEqFields, valEqFields]
  | cons a as' =>
    cases defs with
    | nil => simp [shapedFields] at h
    | cons f fs =>
      cases bs with
      | nil => simp [shapedFields] at h
      | cons b bs' =>
        simp only [shapedFields, Bool.and_eq_true] at h
        have ih := deepEqFields_eq_rep F hF hC P as' fs bs' h.2
        simp only [deepEqFields, valEqFields]
        have hfield : (if isPtrField f = true then Res.ok (ptrBaseEq f.ty a b) else deepEqual F P f.ty a b) =
            Res.ok (if (presenceSlot f && (isNilV a || isNilV b)) = true then isNilV a && isNilV b else valEq P f.ty a b) := by
          by_cases hp : isPtrField f = true
          · simp only [hp, if_true] at h ⊢
            rw [field_ptr P f a b hp h.1]
          · simp only [hp, if_false, Bool.false_eq_true] at h ⊢
            simp only [Bool.and_eq_true] at h
            rw [deepEqual_eq_valEq_rep F hF hC P a f.ty b h.1.2]
            exact congrArg Res.ok (field_nonptr P f a b hp (by simp only [Bool.and_eq_true]; exact h.1.1))
        rw [hfield, bind_ok_ite, ih]
        cases hv : (if (presenceSlot f && (isNilV a || isNilV b)) = true then isNilV a && isNilV b else valEq P f.ty a b) <;> simp
termination_by structural as
end

end Gen.DeepEq
