import ThriftVerif.Gen.DeepEqLemmas
/- symmetry of the specification `valEq` on well-formed values (Go map invariant: keys pairwise different),
   and with it symmetry of the generated DeepEqual on the pairs of `deep_equal_iff_partial` -/
namespace Gen.DeepEq
open Gen

/-! ### Go `==` on base-typed map keys is a partial equivalence -/

def isBaseVal : GoVal → Bool
  | .bool _ | .int _ | .dbl _ | .bytes _ => true
  | _ => false

theorem dblEq_comm (x y : Nat) : dblEq x y = dblEq y x := by
  unfold dblEq
  rw [Bool.or_comm (isNaN x) (isNaN y), Bool.and_comm (x % 9223372036854775808 == 0) (y % 9223372036854775808 == 0)]
  have : (x == y) = (y == x) := by
    cases h : x == y <;> cases h' : y == x <;> simp_all
  rw [this]

theorem dblEq_trans (x y z : Nat) (h1 : dblEq x y = true) (h2 : dblEq y z = true) : dblEq x z = true := by
  unfold dblEq at *
  cases hx : isNaN x <;> cases hy : isNaN y <;> cases hz : isNaN z <;> simp_all
  by_cases zx : x % 9223372036854775808 = 0 <;> by_cases zy : y % 9223372036854775808 = 0 <;>
    by_cases zz : z % 9223372036854775808 = 0 <;> simp_all

theorem goEq_comm_base (a b : GoVal) (ha : isBaseVal a = true) : goEq a b = goEq b a := by
  cases a <;> simp [isBaseVal] at ha <;> cases b <;> simp [goEq, dblEq_comm, Bool.beq_comm]
  all_goals first | rfl | (constructor <;> intro h <;> exact h.symm)

theorem goEq_trans_base (a b c : GoVal) (ha : isBaseVal a = true) (h1 : goEq a b = true) (h2 : goEq b c = true) :
    goEq a c = true := by
  cases a <;> simp [isBaseVal] at ha <;> cases b <;> simp [goEq] at h1 <;> cases c <;> simp [goEq] at h2 ⊢
  · simp_all
  · simp_all
  · exact dblEq_trans _ _ _ h1 h2
  · simp_all

/-! ### Go map lookups in maps with pairwise different base-typed keys -/

/-- the keys of a map whose key type is not a struct are base values, pairwise different and equal to themselves -/
def keysWF (k : Ty) (m : List (GoVal × GoVal)) : Bool :=
  k.isStruct || (distinctKeys k m && m.all (fun e => isBaseVal e.1))

theorem index_some_mem (k : Ty) (m : List (GoVal × GoVal)) (key w : GoVal) (h : index k m key = some w) :
    ∃ e ∈ m, e.2 = w ∧ Std.keyEq k e.1 key = true := by
  simp only [index] at h
  cases hf : m.find? (fun e => Std.keyEq k e.1 key) with
  | none => simp [hf] at h
  | some e =>
    simp only [hf, Option.some.injEq] at h
    exact ⟨e, List.mem_of_find?_eq_some hf, h, by simpa using List.find?_some hf⟩

theorem index_isSome_of_mem (k : Ty) (m : List (GoVal × GoVal)) (key : GoVal) (e : GoVal × GoVal) (he : e ∈ m)
    (hk : Std.keyEq k e.1 key = true) : (index k m key).isSome = true := by
  simp only [index]
  cases hf : m.find? (fun e => Std.keyEq k e.1 key) with
  | none =>
    have := List.find?_eq_none.mp hf e he
    simp [hk] at this
  | some e => simp

theorem keyEq_comm (k : Ty) (a b : GoVal) (ha : isBaseVal a = true) : Std.keyEq k a b = Std.keyEq k b a := by
  simp only [Std.keyEq]; split
  · rfl
  · exact goEq_comm_base a b ha

theorem keyEq_trans (k : Ty) (a b c : GoVal) (ha : isBaseVal a = true) (h1 : Std.keyEq k a b = true)
    (h2 : Std.keyEq k b c = true) : Std.keyEq k a c = true := by
  simp only [Std.keyEq] at *
  split at h1
  · cases h1
  · rename_i hs; simp only [hs, if_false, Bool.false_eq_true] at h2 ⊢; exact goEq_trans_base a b c ha h1 h2

theorem distinct_unique (k : Ty) : ∀ (m : List (GoVal × GoVal)), distinctKeys k m = true →
    (∀ e ∈ m, isBaseVal e.1 = true) → ∀ e1 ∈ m, ∀ e2 ∈ m, Std.keyEq k e1.1 e2.1 = true → e1 = e2 := by
  intro m
  induction m with
  | nil => intro _ _ e1 h1; cases h1
  | cons x r ih =>
    obtain ⟨k0, v0⟩ := x
    intro h hb e1 h1 e2 h2 hk
    simp only [distinctKeys, Bool.and_eq_true, List.all_eq_true, Bool.not_eq_true'] at h
    have hb' : ∀ e ∈ r, isBaseVal e.1 = true := fun e he => hb e (by simp [he])
    cases List.mem_cons.mp h1 with
    | inl a1 =>
      cases List.mem_cons.mp h2 with
      | inl a2 => rw [a1, a2]
      | inr a2 =>
        subst a1
        have := h.1.2 e2 a2
        simp [this] at hk
    | inr a1 =>
      cases List.mem_cons.mp h2 with
      | inl a2 =>
        subst a2
        have hne := h.1.2 e1 a1
        rw [keyEq_comm k e1.1 k0 (hb' e1 a1)] at hk
        simp [hne] at hk
      | inr a2 => exact ih h.2 hb' e1 a1 e2 a2 hk

/-- `ma ⊆ mb` key-wise under a relation `R` on the values -/
def EntriesOK (R : GoVal → GoVal → Bool) (k : Ty) (ma mb : List (GoVal × GoVal)) : Prop :=
  ∀ e ∈ ma, ∃ w, index k mb e.1 = some w ∧ R e.2 w = true

/-- the key-wise comparison can be turned around when both maps respect the Go map invariant -/
theorem entriesOK_flip (R R' : GoVal → GoVal → Bool) (k : Ty) (hk : k.isStruct = false) (ma mb : List (GoVal × GoVal))
    (hwb : keysWF k mb = true)
    (h1 : EntriesOK R k ma mb) (h2 : ∀ e' ∈ mb, (index k ma e'.1).isSome = true)
    (hsym : ∀ e ∈ ma, ∀ e' ∈ mb, R e.2 e'.2 = true → R' e'.2 e.2 = true) :
    EntriesOK R' k mb ma ∧ ∀ e ∈ ma, (index k mb e.1).isSome = true := by
  simp only [keysWF, hk, Bool.false_or, Bool.and_eq_true, List.all_eq_true] at hwb
  constructor
  · intro e' he'
    have hs := h2 e' he'
    cases hi : index k ma e'.1 with
    | none => simp [hi] at hs
    | some w' =>
      refine ⟨w', rfl, ?_⟩
      obtain ⟨e0, he0, hw0, hk0⟩ := index_some_mem k ma e'.1 w' hi
      obtain ⟨w, hiw, hR⟩ := h1 e0 he0
      obtain ⟨e1, he1, hw1, hk1⟩ := index_some_mem k mb e0.1 w hiw
      have hkk : Std.keyEq k e1.1 e'.1 = true := keyEq_trans k e1.1 e0.1 e'.1 (hwb.2 e1 he1) hk1 hk0
      have heq : e1 = e' := distinct_unique k mb hwb.1 hwb.2 e1 he1 e' he' hkk
      subst heq
      have := hsym e0 he0 e1 he1 (by rw [hw1]; exact hR)
      rw [hw0] at this
      exact this
  · intro e he
    obtain ⟨w, hiw, _⟩ := h1 e he
    simp [hiw]

theorem valEqEntries_iff (P : Prog) (k v : Ty) (mb : List (GoVal × GoVal)) : ∀ (ma : List (GoVal × GoVal)),
    valEqEntries P k v ma mb = true ↔ EntriesOK (valEq P v) k ma mb := by
  intro ma
  induction ma with
  | nil => simp [valEqEntries, EntriesOK]
  | cons x r ih =>
    obtain ⟨key, val⟩ := x
    simp only [valEqEntries, Bool.and_eq_true, ih, EntriesOK, List.mem_cons, forall_eq_or_imp]
    constructor
    · intro h
      refine ⟨?_, h.2⟩
      cases hi : index k mb key with
      | none => simp [hi] at h
      | some w => exact ⟨w, rfl, by simpa [hi] using h.1⟩
    · intro h
      refine ⟨?_, h.2⟩
      obtain ⟨w, hi, hR⟩ := h.1
      simp [hi, hR]

theorem valEqSub_iff (P : Prog) (k v : Ty) (mb : List (GoVal × GoVal)) : ∀ (ma : List (GoVal × GoVal)),
    valEqSub P k v ma mb = true ↔
      ∀ e ∈ ma, ∃ e' ∈ mb, valEq P k e.1 e'.1 = true ∧ valEq P v e.2 e'.2 = true := by
  intro ma
  induction ma with
  | nil => simp [valEqSub]
  | cons x r ih =>
    obtain ⟨key, val⟩ := x
    simp [valEqSub, ih]

theorem valEqAny_iff (P : Prog) (k v : Ty) (e' : GoVal × GoVal) : ∀ (ma : List (GoVal × GoVal)),
    valEqAny P k v ma e' = true ↔ ∃ e ∈ ma, valEq P k e.1 e'.1 = true ∧ valEq P v e.2 e'.2 = true := by
  intro ma
  induction ma with
  | nil => simp [valEqAny]
  | cons x r ih =>
    obtain ⟨key, val⟩ := x
    simp [valEqAny, ih]

/-! ### well-formed values and symmetry of `valEq` -/

mutual
/-- a value of type `ty` as a Go program can hold it: shapes follow the type, struct indexes resolve, maps with
base-typed keys respect the Go map invariant (`keysWF`) -/
def wf (P : Prog) (ty : Ty) (a : GoVal) : Bool :=
  match ty, a with
  | _, .nil => true
  | .struct i, .strct fs =>
      match P.struct? i with
      | some sd => wfFields P sd.fields fs
      | none => false
  | .list e, .list xs => wfList P e xs
  | .set e, .list xs => wfList P e xs
  | .map k v, .map kvs => keysWF k kvs && wfEntries P k v kvs
  | ty, a => baseOK ty a
termination_by structural a
def wfList (P : Prog) (e : Ty) (xs : List GoVal) : Bool :=
  match xs with
  | [] => true
  | x :: r => wf P e x && wfList P e r
termination_by structural xs
def wfEntries (P : Prog) (k v : Ty) (kvs : List (GoVal × GoVal)) : Bool :=
  match kvs with
  | [] => true
  | (key, val) :: r => wf P k key && wf P v val && wfEntries P k v r
termination_by structural kvs
def wfFields (P : Prog) (defs : List FieldDef) (as : List GoVal) : Bool :=
  match defs, as with
  | [], [] => true
  | f :: fs, a :: as => wf P f.ty a && wfFields P fs as
  | _, _ => false
termination_by structural as
end

theorem scalarEq_comm (ty : Ty) (a b : GoVal) : scalarEq ty a b = scalarEq ty b a := by
  cases ty <;> cases a <;> cases b <;> simp [scalarEq, dblEq_comm, Bool.beq_comm]

theorem wfEntries_mem (P : Prog) (k v : Ty) : ∀ (m : List (GoVal × GoVal)), wfEntries P k v m = true →
    ∀ e ∈ m, wf P k e.1 = true ∧ wf P v e.2 = true := by
  intro m
  induction m with
  | nil => intro _ e he; cases he
  | cons x r ih =>
    obtain ⟨key, val⟩ := x
    intro h e he
    simp only [wfEntries, Bool.and_eq_true] at h
    cases List.mem_cons.mp he with
    | inl heq => subst heq; exact ⟨h.1.1, h.1.2⟩
    | inr hr => exact ih h.2 e hr

theorem map_comm (P : Prog) (k v : Ty) (ma mb : List (GoVal × GoVal))
    (hwa : keysWF k ma = true) (hwb : keysWF k mb = true)
    (H : ∀ e ∈ ma, ∀ e' ∈ mb, valEq P k e.1 e'.1 = valEq P k e'.1 e.1 ∧ valEq P v e.2 e'.2 = valEq P v e'.2 e.2) :
    valEq P (.map k v) (.map ma) (.map mb) = valEq P (.map k v) (.map mb) (.map ma) := by
  simp only [valEq, entriesOf]
  rw [Bool.eq_iff_iff]
  by_cases hk : k.isStruct = true
  · simp only [hk, if_true, Bool.and_eq_true, beq_iff_eq, valEqSub_iff, List.all_eq_true, valEqAny_iff]
    constructor
    · intro ⟨hl, h1, h2⟩
      refine ⟨hl.symm, ?_, ?_⟩
      · intro e' he'
        obtain ⟨e, he, hkk, hvv⟩ := h2 e' he'
        exact ⟨e, he, by rw [← (H e he e' he').1]; exact hkk, by rw [← (H e he e' he').2]; exact hvv⟩
      · intro e he
        obtain ⟨e', he', hkk, hvv⟩ := h1 e he
        exact ⟨e', he', by rw [← (H e he e' he').1]; exact hkk, by rw [← (H e he e' he').2]; exact hvv⟩
    · intro ⟨hl, h1, h2⟩
      refine ⟨hl.symm, ?_, ?_⟩
      · intro e he
        obtain ⟨e', he', hkk, hvv⟩ := h2 e he
        exact ⟨e', he', by rw [(H e he e' he').1]; exact hkk, by rw [(H e he e' he').2]; exact hvv⟩
      · intro e' he'
        obtain ⟨e, he, hkk, hvv⟩ := h1 e' he'
        exact ⟨e, he, by rw [(H e he e' he').1]; exact hkk, by rw [(H e he e' he').2]; exact hvv⟩
  · have hk' : k.isStruct = false := by simpa using hk
    simp only [hk', Bool.false_eq_true, if_false, Bool.and_eq_true, beq_iff_eq, valEqEntries_iff, List.all_eq_true]
    constructor
    · intro ⟨hl, h1, h2⟩
      have := entriesOK_flip (valEq P v) (valEq P v) k hk' ma mb hwb h1 h2
        (fun e he e' he' h => by rw [← (H e he e' he').2]; exact h)
      exact ⟨hl.symm, this.1, this.2⟩
    · intro ⟨hl, h1, h2⟩
      have := entriesOK_flip (valEq P v) (valEq P v) k hk' mb ma hwa h1 h2
        (fun e' he' e he h => by rw [(H e he e' he').2]; exact h)
      exact ⟨hl.symm, this.1, this.2⟩

mutual
theorem valEq_comm (P : Prog) (a : GoVal) : ∀ (ty : Ty) (b : GoVal), wf P ty a = true → wf P ty b = true →
    valEq P ty a b = valEq P ty b a := by
  intro ty b ha hb
  cases a with
  | nil =>
    cases ty <;> cases b <;> simp_all [valEq, wf, baseOK, scalarEq, isNilV, elemsOf, entriesOf, bytesOf]
    all_goals (first | (rename_i xs; cases xs <;> simp [valEqList, valEqSub, valEqEntries]) | skip)
  | bool x => cases ty <;> simp [wf, baseOK] at ha; cases b <;> simp_all [valEq, wf, baseOK, scalarEq, Bool.beq_comm]
  | int x =>
    cases ty <;> simp [wf, baseOK] at ha <;> cases b <;> simp_all [valEq, wf, baseOK, scalarEq, Bool.beq_comm]
  | dbl x => cases ty <;> simp [wf, baseOK] at ha; cases b <;> simp_all [valEq, wf, baseOK, scalarEq, dblEq_comm]
  | bytes x =>
    cases ty <;> simp [wf, baseOK] at ha <;> cases b <;> simp_all [valEq, wf, baseOK, scalarEq, bytesOf, Bool.beq_comm]
  | list xs =>
    cases ty <;> simp [wf, baseOK] at ha
    all_goals
      rename_i e
      cases b <;> simp [wf, baseOK] at hb
      · cases xs <;> simp [valEq, valEqList, elemsOf]
      · rename_i ys
        simp only [valEq, elemsOf]
        exact valEqList_comm P xs e ys ha hb
  | map ma =>
    cases ty <;> simp [wf, baseOK] at ha
    rename_i k v
    cases b <;> simp [wf, baseOK] at hb
    · cases ma <;> simp [valEq, entriesOf, valEqSub, valEqEntries]
    · rename_i mb
      exact map_comm P k v ma mb ha.1 hb.1 (entries_comm P ma k v mb ha.2 hb.2)
  | strct fs =>
    cases ty <;> simp [wf, baseOK] at ha
    rename_i i
    cases b <;> simp [wf, baseOK] at hb
    · simp [valEq, isNilV]
    · rename_i gs
      simp only [valEq]
      cases hs : P.struct? i with
      | none => rfl
      | some sd =>
        simp only [hs] at ha hb ⊢
        exact valEqFields_comm P fs sd.fields gs ha hb
termination_by structural a
theorem valEqList_comm (P : Prog) (xs : List GoVal) : ∀ (e : Ty) (ys : List GoVal), wfList P e xs = true → wfList P e ys = true →
    valEqList P e xs ys = valEqList P e ys xs := by
  intro e ys ha hb
  cases xs with
  | nil => cases ys <;> simp [valEqList]
  | cons x r =>
    cases ys with
    | nil => simp [valEqList]
    | cons y t =>
      simp only [wfList, Bool.and_eq_true] at ha hb
      simp only [valEqList, valEq_comm P x e y ha.1 hb.1, valEqList_comm P r e t ha.2 hb.2]
termination_by structural xs
theorem valEqFields_comm (P : Prog) (as : List GoVal) : ∀ (defs : List FieldDef) (bs : List GoVal),
    wfFields P defs as = true → wfFields P defs bs = true → valEqFields P defs as bs = valEqFields P defs bs as := by
  intro defs bs ha hb
  cases as with
  | nil => cases defs <;> cases bs <;> simp_all [valEqFields, wfFields]
  | cons a as' =>
    cases defs with
    | nil => simp [wfFields] at ha
    | cons f fs =>
      cases bs with
      | nil => simp [wfFields] at hb
      | cons b bs' =>
        simp only [wfFields, Bool.and_eq_true] at ha hb
        simp only [valEqFields, valEq_comm P a f.ty b ha.1 hb.1, valEqFields_comm P as' fs bs' ha.2 hb.2,
          Bool.or_comm (isNilV a) (isNilV b), Bool.and_comm (isNilV a) (isNilV b)]
termination_by structural as
theorem entries_comm (P : Prog) (kvs : List (GoVal × GoVal)) : ∀ (k v : Ty) (mb : List (GoVal × GoVal)),
    wfEntries P k v kvs = true → wfEntries P k v mb = true →
      ∀ e ∈ kvs, ∀ e' ∈ mb, valEq P k e.1 e'.1 = valEq P k e'.1 e.1 ∧ valEq P v e.2 e'.2 = valEq P v e'.2 e.2 := by
  intro k v mb ha hb e he e' he'
  cases kvs with
  | nil => cases he
  | cons x r =>
    obtain ⟨key, val⟩ := x
    simp only [wfEntries, Bool.and_eq_true] at ha
    have hb' := wfEntries_mem P k v mb hb e' he'
    cases List.mem_cons.mp he with
    | inl heq =>
      subst heq
      exact ⟨valEq_comm P key k e'.1 ha.1.1 hb'.1, valEq_comm P val v e'.2 ha.1.2 hb'.2⟩
    | inr hr => exact entries_comm P r k v mb ha.2 hb e hr e' he'
termination_by structural kvs
end

/-! ### the hypothesis `aligned` is symmetric on well-formed values -/

theorem alignedEntries_iff (P : Prog) (k v : Ty) (mb : List (GoVal × GoVal)) : ∀ (ma : List (GoVal × GoVal)),
    alignedEntries P k v ma mb = true ↔ EntriesOK (aligned P v) k ma mb := by
  intro ma
  induction ma with
  | nil => simp [alignedEntries, EntriesOK]
  | cons x r ih =>
    obtain ⟨key, val⟩ := x
    simp only [alignedEntries, Bool.and_eq_true, ih, EntriesOK, List.mem_cons, forall_eq_or_imp]
    constructor
    · intro h
      refine ⟨?_, h.2⟩
      cases hi : index k mb key with
      | none => simp [hi] at h
      | some w => exact ⟨w, rfl, by simpa [hi] using h.1⟩
    · intro h
      refine ⟨?_, h.2⟩
      obtain ⟨w, hi, hR⟩ := h.1
      simp [hi, hR]

theorem map_aligned_comm (P : Prog) (k v : Ty) (ma mb : List (GoVal × GoVal))
    (hwb : keysWF k mb = true)
    (H : ∀ e ∈ ma, ∀ e' ∈ mb, aligned P v e.2 e'.2 = true → aligned P v e'.2 e.2 = true)
    (h : aligned P (.map k v) (.map ma) (.map mb) = true) : aligned P (.map k v) (.map mb) (.map ma) = true := by
  simp only [aligned, entriesOf, Bool.or_eq_true] at h ⊢
  by_cases hl : ma.length = mb.length
  · right
    have h' := h.resolve_left (by simp [hl])
    by_cases hk : k.isStruct = true
    · simp only [hk, if_true] at h' ⊢
      have : ma = [] := by simpa using h'
      subst this
      have : mb = [] := List.eq_nil_of_length_eq_zero (by simpa using hl.symm)
      simp [this]
    · have hk' : k.isStruct = false := by simpa using hk
      simp only [hk', Bool.false_eq_true, if_false, Bool.and_eq_true, alignedEntries_iff, List.all_eq_true] at h' ⊢
      have := entriesOK_flip (aligned P v) (aligned P v) k hk' ma mb hwb h'.1 h'.2 H
      exact ⟨this.1, this.2⟩
  · left
    simp only [bne_iff_ne, ne_eq]
    exact fun h => hl h.symm

mutual
theorem aligned_comm (P : Prog) (a : GoVal) : ∀ (ty : Ty) (b : GoVal), wf P ty a = true → wf P ty b = true →
    aligned P ty a b = true → aligned P ty b a = true := by
  intro ty b ha hb h
  cases a with
  | nil =>
    cases ty <;> cases b <;> simp_all [aligned, wf, baseOK, elemsOf, entriesOf]
    all_goals (first | (rename_i xs; cases xs <;> simp [alignedList, alignedEntries]) | skip)
  | bool x => cases ty <;> simp [wf, baseOK] at ha; cases b <;> simp_all [aligned, wf, baseOK]
  | int x => cases ty <;> simp [wf, baseOK] at ha <;> cases b <;> simp_all [aligned, wf, baseOK]
  | dbl x => cases ty <;> simp [wf, baseOK] at ha; cases b <;> simp_all [aligned, wf, baseOK]
  | bytes x => cases ty <;> simp [wf, baseOK] at ha <;> cases b <;> simp_all [aligned, wf, baseOK]
  | list xs =>
    cases ty <;> simp [wf, baseOK] at ha
    all_goals
      rename_i e
      cases b <;> simp [wf, baseOK] at hb
      · simp [aligned]
      · rename_i ys
        simp only [aligned, elemsOf, Bool.or_eq_true] at h ⊢
        by_cases hl : xs.length = ys.length
        · right
          exact alignedList_comm P xs e ys ha hb (h.resolve_left (by simp [hl]))
        · left
          simp only [bne_iff_ne, ne_eq]
          exact fun h => hl h.symm
  | map ma =>
    cases ty <;> simp [wf, baseOK] at ha
    rename_i k v
    cases b <;> simp [wf, baseOK] at hb
    · simp [aligned]
    · rename_i mb
      exact map_aligned_comm P k v ma mb hb.1 (alignedEntries_comm P ma k v mb ha.2 hb.2) h
  | strct fs =>
    cases ty <;> simp [wf, baseOK] at ha
    rename_i i
    cases b <;> simp [wf, baseOK] at hb
    · simp [aligned]
    · rename_i gs
      simp only [aligned] at h ⊢
      cases hs : P.struct? i with
      | none => simp [hs] at h
      | some sd =>
        simp only [hs] at ha hb h ⊢
        exact alignedFields_comm P fs sd.fields gs ha hb h
termination_by structural a
theorem alignedList_comm (P : Prog) (xs : List GoVal) : ∀ (e : Ty) (ys : List GoVal), wfList P e xs = true → wfList P e ys = true →
    alignedList P e xs ys = true → alignedList P e ys xs = true := by
  intro e ys ha hb h
  cases xs with
  | nil => cases ys <;> simp [alignedList]
  | cons x r =>
    cases ys with
    | nil => simp [alignedList]
    | cons y t =>
      simp only [wfList, Bool.and_eq_true] at ha hb
      simp only [alignedList, Bool.and_eq_true] at h ⊢
      exact ⟨aligned_comm P x e y ha.1 hb.1 h.1, alignedList_comm P r e t ha.2 hb.2 h.2⟩
termination_by structural xs
theorem alignedFields_comm (P : Prog) (as : List GoVal) : ∀ (defs : List FieldDef) (bs : List GoVal),
    wfFields P defs as = true → wfFields P defs bs = true → alignedFields P defs as bs = true → alignedFields P defs bs as = true := by
  intro defs bs ha hb h
  cases as with
  | nil => cases defs <;> cases bs <;> simp_all [alignedFields, wfFields]
  | cons a as' =>
    cases defs with
    | nil => simp [wfFields] at ha
    | cons f fs =>
      cases bs with
      | nil => simp [wfFields] at hb
      | cons b bs' =>
        simp only [wfFields, Bool.and_eq_true] at ha hb
        simp only [alignedFields] at h ⊢
        rw [Bool.and_eq_true] at h ⊢
        refine ⟨?_, alignedFields_comm P as' fs bs' ha.2 hb.2 h.2⟩
        by_cases hp : isPtrField f = true
        · have h1 := h.1
          simp only [hp, if_true] at h1 ⊢
          rw [Bool.or_comm (isNilV b) (isNilV a), Bool.and_comm (baseOK f.ty b) (baseOK f.ty a)]
          exact h1
        · have h1 := h.1
          simp only [hp, if_false, Bool.false_eq_true] at h1 ⊢
          rw [Bool.and_eq_true] at h1 ⊢
          refine ⟨?_, aligned_comm P a f.ty b ha.1 hb.1 h1.2⟩
          have h2 := h1.1
          split at h2
          · rename_i hc; simp only [hc, if_true] at h2 ⊢
            rw [Bool.beq_comm]; exact h2
          · rename_i hc; simp [hc]
termination_by structural as
theorem alignedEntries_comm (P : Prog) (kvs : List (GoVal × GoVal)) : ∀ (k v : Ty) (mb : List (GoVal × GoVal)),
    wfEntries P k v kvs = true → wfEntries P k v mb = true →
      ∀ e ∈ kvs, ∀ e' ∈ mb, aligned P v e.2 e'.2 = true → aligned P v e'.2 e.2 = true := by
  intro k v mb ha hb e he e' he'
  cases kvs with
  | nil => cases he
  | cons x r =>
    obtain ⟨key, val⟩ := x
    simp only [wfEntries, Bool.and_eq_true] at ha
    have hb' := wfEntries_mem P k v mb hb e' he'
    cases List.mem_cons.mp he with
    | inl heq =>
      subst heq
      exact aligned_comm P val v e'.2 ha.1.2 hb'.2
    | inr hr => exact alignedEntries_comm P r k v mb ha.2 hb e hr e' he'
termination_by structural kvs
end

end Gen.DeepEq
