import ThriftVerif.Gen.FastSkipLemmas
/- helper lemmas about Gen.Fast for Props/C10: FastRead (linked with gopkg) refines the standard Read of Gen.Std:
   the switch `uint32(fid)<<8|uint32(ftyp)` selects a field exactly when `switch id` + type test does
   (`key_eq`, `findCase_eq`), gopkg's primitives read what the protocol primitives of Core.Wire read, and gopkg's
   Skip accepts what the strict skip of Gen.Std accepts (`skip_refines`) -/
set_option maxRecDepth 4000
namespace Gen.Fast
open Wire Gen


theorem pat32_256 (a : Int) (h : -32768 ≤ a ∧ a < 32768) :
    (pat 32 a * 256) % 4294967296 = if a < 0 then (4294967296 + a * 256).toNat else (a * 256).toNat := by
  unfold pat
  have e : ((2:Int) ^ 32) = 4294967296 := by decide
  rw [e]
  split <;> omega

theorem unpat16_range (x : Nat) (h : x < 65536) : -32768 ≤ unpat 16 x ∧ unpat 16 x < 32768 := by
  unfold unpat
  have e1 : (2:Nat) ^ (16 - 1) = 32768 := by decide
  have e2 : ((2:Int) ^ 16) = 65536 := by decide
  rw [e1, e2]
  split <;> omega

theorem pat16_unpat16 (a : Int) (x : Nat) (h : -32768 ≤ a ∧ a < 32768) (hx : x < 65536) : pat 16 a = x ↔ a = unpat 16 x := by
  unfold pat unpat
  have e1 : (2:Nat) ^ (16 - 1) = 32768 := by decide
  have e2 : ((2:Int) ^ 16) = 65536 := by decide
  rw [e1, e2]
  split <;> omega

theorem code_le (ty : Ty) : ty.ttype.code ≤ 15 := by
  cases ty <;> simp [Ty.ttype, TType.code]

/-- the switch of genFastRead selects a field exactly when the standard Read does: same id and same wire type -/
theorem key_eq (P : Prog) (f : FieldDef) (fid ftyp : Nat) (hr : -32768 ≤ f.id ∧ f.id < 32768) (hf : fid < 65536) :
    caseKey P f = switchKey fid ftyp ↔ (pat 16 f.id = fid ∧ f.ty.ttype.code = ftyp) := by
  unfold caseKey switchKey Gopkg.neg
  rw [wireTypeOf_eq, pat32_256 f.id hr, pat16_unpat16 f.id fid hr hf]
  have hc := code_le f.ty
  by_cases hn : 128 ≤ ftyp
  · simp only [hn, decide_true, if_true]
    split <;> omega
  · simp only [hn, decide_false, Bool.false_eq_true, if_false]
    rw [pat32_256 (unpat 16 fid) (unpat16_range fid hf)]
    have := unpat16_range fid hf
    split <;> split <;> omega

def FieldsOK (defs : List FieldDef) : Prop :=
  (defs.map Std.idOf).Nodup ∧ ∀ f ∈ defs, -32768 ≤ f.id ∧ f.id < 32768

theorem findCase_go_none (P : Prog) (key : Nat) (fid ftyp : Nat) (hk : key = switchKey fid ftyp) (hf : fid < 65536) :
    ∀ (defs : List FieldDef) (i : Nat), (∀ f ∈ defs, -32768 ≤ f.id ∧ f.id < 32768) → (∀ f ∈ defs, pat 16 f.id ≠ fid) →
      findCase.go P key defs i = none := by
  intro defs
  induction defs with
  | nil => intro i _ _; rfl
  | cons f r ih =>
    intro i hr hne
    simp only [findCase.go]
    have : ¬ caseKey P f = key := by
      rw [hk, key_eq P f fid ftyp (hr f (by simp)) hf]
      intro h; exact hne f (by simp) h.1
    simp only [this, if_false]
    exact ih (i + 1) (fun g hg => hr g (by simp [hg])) (fun g hg => hne g (by simp [hg]))

theorem findCase_go_eq (P : Prog) (fid ftyp : Nat) (hf : fid < 65536) :
    ∀ (defs : List FieldDef) (i : Nat), FieldsOK defs →
      findCase.go P (switchKey fid ftyp) defs i =
        (match Std.findField.go fid defs i with
         | some (j, f) => if f.ty.ttype.code = ftyp then some (j, f) else none
         | none => none) := by
  intro defs
  induction defs with
  | nil => intro i _; rfl
  | cons f r ih =>
    intro i hok
    obtain ⟨hnd, hr⟩ := hok
    simp only [List.map_cons, List.nodup_cons] at hnd
    simp only [findCase.go, Std.findField.go]
    have hk := key_eq P f fid ftyp (hr f (by simp)) hf
    by_cases hid : pat 16 f.id = fid
    · simp only [hid, if_true]
      by_cases ht : f.ty.ttype.code = ftyp
      · have : caseKey P f = switchKey fid ftyp := hk.mpr ⟨hid, ht⟩
        simp [this, ht]
      · have : ¬ caseKey P f = switchKey fid ftyp := fun h => ht (hk.mp h).2
        simp only [this, if_false, ht]
        apply findCase_go_none P _ fid ftyp rfl hf r (i + 1) (fun g hg => hr g (by simp [hg]))
        intro g hg he
        apply hnd.1
        have : Std.idOf g = Std.idOf f := by simp only [Std.idOf]; rw [he, hid]
        rw [← this]
        exact List.mem_map_of_mem hg
    · have : ¬ caseKey P f = switchKey fid ftyp := fun h => hid (hk.mp h).1
      simp only [this, if_false, hid]
      exact ih (i + 1) ⟨hnd.2, fun g hg => hr g (by simp [hg])⟩

theorem findCase_eq (P : Prog) (defs : List FieldDef) (fid ftyp : Nat) (hf : fid < 65536) (hok : FieldsOK defs) :
    findCase P defs (switchKey fid ftyp) =
      (match Std.findField defs fid with
       | some (j, f) => if f.ty.ttype.code = ftyp then some (j, f) else none
       | none => none) := by
  unfold findCase Std.findField
  exact findCase_go_eq P fid ftyp hf defs 0 hok


/-- the input is a byte string (every element < 256; the standing convention for `Bytes`) -/
def B256 (bs : Bytes) : Prop := ∀ b ∈ bs, b < 256

theorem B256.drop {bs : Bytes} (h : B256 bs) (k : Nat) : B256 (bs.drop k) :=
  fun b hb => h b (List.mem_of_mem_drop hb)

theorem readFixed_of_readN (n : Nat) (bs : Bytes) (x : Nat) (r : Bytes) (h : readN n bs = some (x, r)) :
    Gopkg.readFixed n bs = some (x, n) ∧ advance bs n = .ok r := by
  obtain ⟨hle, hx, hr⟩ := readN_some n bs x r h
  constructor
  · unfold Gopkg.readFixed
    have : ¬ bs.length < n := by omega
    simp [this, hx]
  · rw [advance_ok bs n hle, hr]

theorem readFixedVal_of_readN (n : Nat) (mk : Nat → GoVal) (bs : Bytes) (x : Nat) (r : Bytes) (h : readN n bs = some (x, r)) :
    readFixedVal n mk bs = .ok (mk x, r) := by
  obtain ⟨h1, h2⟩ := readFixed_of_readN n bs x r h
  simp [readFixedVal, h1, h2, bind]

theorem map_some_inv {α β} (o : Option α) (g : α → β) (b : β) (h : o.map g = some b) : ∃ a, o = some a ∧ g a = b := by
  cases o with
  | none => simp at h
  | some a => exact ⟨a, rfl, by simpa using h⟩

theorem scalar_refine (skip : Nat → Bytes → FRes Nat) (P : Prog) (f : Nat) (ty : Ty) (bs : Bytes) (v : GoVal) (r : Bytes)
    (hb : ty.isBase = true) (hB : B256 bs) (h : Std.readScalar ty bs = some (v, r)) :
    fastReadTyWith skip P (f + 1) ty bs = .ok (v, r) ∧ B256 r := by
  cases ty <;> simp [Ty.isBase] at hb <;> simp only [Std.readScalar] at h
  case str | bin =>
    cases h4 : readN 4 bs with
    | none => simp [h4] at h
    | some p =>
      obtain ⟨n, r1⟩ := p
      simp only [h4] at h
      split at h
      · cases h
      · rename_i hn
        obtain ⟨q, hq, hv⟩ := map_some_inv _ _ _ h
        obtain ⟨b, r'⟩ := q
        simp only [Prod.mk.injEq] at hv
        obtain ⟨rfl, rfl⟩ := hv
        obtain ⟨h4le, _, hr1⟩ := readN_some 4 bs n r1 h4
        obtain ⟨hnle, hb', hr'⟩ := readBytes_some n r1 b r' hq
        rw [hr1] at hnle hb' hr'
        simp only [List.length_drop, List.drop_drop] at hnle hr'
        have hu := u32_eq bs n r1 h4
        have e : Gopkg.readBin bs = some (b, 4 + n) := by
          unfold Gopkg.readBin
          have a1 : ¬ bs.length < 4 := by omega
          have a2 : ¬ bs.length < 4 + n := by omega
          simp [a1, hu, hn, a2, hb']
        refine ⟨?_, by rw [hr']; exact hB.drop _⟩
        simp only [fastReadTyWith, e]
        rw [advance_ok bs (4 + n) (by omega), hr']
        rfl
  all_goals
    obtain ⟨q, hq, hv⟩ := map_some_inv _ _ _ h
    obtain ⟨x, r'⟩ := q
    simp only [Prod.mk.injEq] at hv
    obtain ⟨rfl, rfl⟩ := hv
    obtain ⟨_, _, hr⟩ := readN_some _ _ _ _ hq
    refine ⟨?_, by rw [hr]; exact hB.drop _⟩
    simp only [fastReadTyWith]
    exact readFixedVal_of_readN _ _ _ _ _ hq

theorem elems_refine (dS : Bytes → Option (GoVal × Bytes)) (dF : Bytes → FRes (GoVal × Bytes))
    (h : ∀ bs v r, B256 bs → dS bs = some (v, r) → dF bs = .ok (v, r) ∧ B256 r) :
    ∀ (n : Nat) (bs : Bytes) (xs : List GoVal) (r : Bytes), B256 bs → Std.readListWith dS n bs = some (xs, r) →
      readElems dF n bs = .ok (xs, r) ∧ B256 r := by
  intro n
  induction n with
  | zero => intro bs xs r hB hs; simp only [Std.readListWith] at hs; cases hs; exact ⟨rfl, hB⟩
  | succ n ih =>
    intro bs xs r hB hs
    simp only [Std.readListWith] at hs
    cases hd : dS bs with
    | none => simp [hd] at hs
    | some p =>
      obtain ⟨x, r1⟩ := p
      simp only [hd] at hs
      obtain ⟨e1, hB1⟩ := h bs x r1 hB hd
      cases hrec : Std.readListWith dS n r1 with
      | none => simp [hrec] at hs
      | some q =>
        obtain ⟨xs', r'⟩ := q
        simp only [hrec] at hs
        cases hs
        obtain ⟨e2, hB2⟩ := ih r1 xs' r hB1 hrec
        exact ⟨by simp [readElems, e1, e2, bind], hB2⟩

theorem pairs_refine (kS vS : Bytes → Option (GoVal × Bytes)) (kF vF : Bytes → FRes (GoVal × Bytes))
    (hk : ∀ bs v r, B256 bs → kS bs = some (v, r) → kF bs = .ok (v, r) ∧ B256 r)
    (hv : ∀ bs v r, B256 bs → vS bs = some (v, r) → vF bs = .ok (v, r) ∧ B256 r) :
    ∀ (n : Nat) (bs : Bytes) (kvs : List (GoVal × GoVal)) (r : Bytes), B256 bs → Std.readPairsWith kS vS n bs = some (kvs, r) →
      readPairs kF vF n bs = .ok (kvs, r) ∧ B256 r := by
  intro n
  induction n with
  | zero => intro bs kvs r hB hs; simp only [Std.readPairsWith] at hs; cases hs; exact ⟨rfl, hB⟩
  | succ n ih =>
    intro bs kvs r hB hs
    simp only [Std.readPairsWith] at hs
    cases hd : kS bs with
    | none => simp [hd] at hs
    | some p =>
      obtain ⟨x, r1⟩ := p
      simp only [hd] at hs
      obtain ⟨e1, hB1⟩ := hk bs x r1 hB hd
      cases hd2 : vS r1 with
      | none => simp [hd2] at hs
      | some p2 =>
        obtain ⟨y, r2⟩ := p2
        simp only [hd2] at hs
        obtain ⟨e2, hB2⟩ := hv r1 y r2 hB1 hd2
        cases hrec : Std.readPairsWith kS vS n r2 with
        | none => simp [hrec] at hs
        | some q =>
          obtain ⟨kvs', r'⟩ := q
          simp only [hrec] at hs
          cases hs
          obtain ⟨e3, hB3⟩ := ih r2 kvs' r hB2 hrec
          exact ⟨by simp [readPairs, e1, e2, e3, bind], hB3⟩


theorem skip_refines (c : Nat) (bs r : Bytes) (h : Std.skipW c bs = some r) : SkipsTo (Gopkg.skip c bs) bs r := by
  unfold Std.skipW at h
  cases ht : TType.ofCode c with
  | none => simp [ht] at h
  | some t =>
    simp only [ht] at h
    obtain ⟨q, hq, hv⟩ := map_some_inv _ _ _ h
    obtain ⟨w, r'⟩ := q
    simp only [] at hv
    subst hv
    have hne := decW_ne_nil 64 t bs w r' hq
    have hc := ofCode_some c t ht
    unfold Gopkg.skip
    have : ¬ bs.length = 0 := by
      intro e; exact hne (List.eq_nil_of_length_eq_zero e)
    simp only [this, if_false]
    rw [hc]
    exact skipType_refines 64 t bs w r' hq

theorem readFieldBegin_stop (bs : Bytes) : Gopkg.readFieldBegin (0 :: bs) = some (0, 0, 1) := by
  simp [Gopkg.readFieldBegin]

theorem readFieldBegin_field (c : Nat) (bs : Bytes) (id : Nat) (r : Bytes) (hc : c ≠ 0) (hB : B256 (c :: bs))
    (h : readN 2 bs = some (id, r)) :
    Gopkg.readFieldBegin (c :: bs) = some (c, id, 3) ∧ advance (c :: bs) 3 = .ok r ∧ id < 65536 := by
  obtain ⟨hle, hid, hr⟩ := readN_some 2 bs id r h
  cases bs with
  | nil => simp at hle
  | cons hi r1 => cases r1 with
    | nil => simp at hle
    | cons lo r2 =>
      have h1 : hi < 256 := hB hi (by simp)
      have h2 : lo < 256 := hB lo (by simp)
      have e : id = hi * 256 + lo := by rw [hid]; simp [unbe]
      refine ⟨?_, ?_, by omega⟩
      · simp [Gopkg.readFieldBegin, hc, e]
      · rw [advance_ok _ 3 (by simp)]; rw [hr]; rfl

/-- a skip path refines the strict skip of Gen.Std -/
def SkipRefines (skip : Nat → Bytes → FRes Nat) : Prop :=
  ∀ (c : Nat) (bs r : Bytes), Std.skipW c bs = some r → SkipsTo (skip c bs) bs r

theorem gopkg_skipRefines : SkipRefines Gopkg.skip := skip_refines

theorem guardedSkip_refines (n rc lg : Bool) : SkipRefines (guardedSkip n rc lg) := by
  intro c bs r h
  obtain ⟨k, hk, hle, hdr⟩ := skip_refines c bs r h
  refine ⟨k, ?_, hle, hdr⟩
  have hneg : Gopkg.neg c = false := by
    unfold Std.skipW at h
    cases ht : TType.ofCode c with
    | none => simp [ht] at h
    | some t =>
      have := ofCode_some c t ht
      have hc := TType.code_lt t
      subst this
      cases t <;> rfl
  unfold guardedSkip
  have : ¬ k > bs.length := by omega
  simp [hneg, hk, this]

theorem fields_refine (skip : Nat → Bytes → FRes Nat) (hsk : SkipRefines skip) (P : Prog) (defs : List FieldDef) (hok : FieldsOK defs)
    (rdS : Ty → Bytes → Option (GoVal × Bytes)) (rdF : Ty → Bytes → FRes (GoVal × Bytes))
    (hrd : ∀ ty bs v r, B256 bs → rdS ty bs = some (v, r) → rdF ty bs = .ok (v, r) ∧ B256 r) :
    ∀ (g : Nat) (bs : Bytes) (cur : List GoVal) (seen : List Bool) (res : List GoVal) (r : Bytes), B256 bs →
      Std.readFieldsWith rdS defs g bs cur seen = some (res, r) →
      fastFieldsWith skip P rdF defs g bs cur seen = .ok (res, r) ∧ B256 r := by
  intro g
  induction g with
  | zero => intro bs cur seen res r _ h; simp [Std.readFieldsWith] at h
  | succ g ih =>
    intro bs cur seen res r hB h
    cases bs with
    | nil => simp [Std.readFieldsWith] at h
    | cons c bs' =>
      simp only [Std.readFieldsWith] at h
      by_cases hc : c = 0
      · subst hc
        simp only [if_true] at h
        split at h
        · rename_i hreq
          cases h
          refine ⟨?_, fun b hb => hB b (by simp [hb])⟩
          simp only [fastFieldsWith, readFieldBegin_stop]
          rw [advance_ok _ 1 (by simp)]
          simp [bind, hreq]
        · cases h
      · simp only [hc, if_false] at h
        cases h2 : readN 2 bs' with
        | none => simp [h2] at h
        | some p =>
          obtain ⟨id, r1⟩ := p
          simp only [h2] at h
          obtain ⟨e1, e2, hid⟩ := readFieldBegin_field c bs' id r1 hc hB h2
          have hB1 : B256 r1 := by
            obtain ⟨_, _, hr⟩ := readN_some 2 bs' id r1 h2
            rw [hr]; exact (show B256 bs' from fun b hb => hB b (by simp [hb])).drop 2
          simp only [fastFieldsWith, e1, e2, bind, hc, if_false]
          rw [findCase_eq P defs id c hid hok]
          cases hf : Std.findField defs id with
          | none =>
            simp only [hf] at h ⊢
            cases hs : Std.skipW c r1 with
            | none => simp [hs] at h
            | some r2 =>
              simp only [hs] at h
              obtain ⟨k, hk, hle, hdr⟩ := hsk c r1 r2 hs
              simp only [hk]
              rw [advance_ok r1 k hle, hdr]
              exact ih r2 cur seen res r (by rw [← hdr]; exact hB1.drop k) h
          | some q =>
            obtain ⟨j, f⟩ := q
            simp only [hf] at h ⊢
            by_cases ht : f.ty.ttype.code = c
            · simp only [ht, if_true] at h ⊢
              cases hv : rdS f.ty r1 with
              | none => simp [hv] at h
              | some q2 =>
                obtain ⟨v, r2⟩ := q2
                simp only [hv] at h
                obtain ⟨e3, hB2⟩ := hrd f.ty r1 v r2 hB1 hv
                simp only [e3]
                exact ih r2 _ _ res r hB2 h
            · simp only [ht, if_false] at h ⊢
              cases hs : Std.skipW c r1 with
              | none => simp [hs] at h
              | some r2 =>
                simp only [hs] at h
                obtain ⟨k, hk, hle, hdr⟩ := hsk c r1 r2 hs
                simp only [hk]
                rw [advance_ok r1 k hle, hdr]
                exact ih r2 cur seen res r (by rw [← hdr]; exact hB1.drop k) h

def ProgOK (P : Prog) : Prop := ∀ (i : Nat) (sd : StructDef), P.structs[i]? = some sd → FieldsOK sd.fields

/-- **FastRead refines the standard Read**: on every byte string the standard reader accepts, the code
generated by fastgo (linked with gopkg) answers the same object and the same rest -/
theorem fastReadTy_refines (skip : Nat → Bytes → FRes Nat) (hsk : SkipRefines skip) (P : Prog) (hP : ProgOK P) :
    ∀ (f : Nat) (ty : Ty) (bs : Bytes) (v : GoVal) (r : Bytes), B256 bs →
    Std.readTy P.structs f ty bs = some (v, r) → fastReadTyWith skip P f ty bs = .ok (v, r) ∧ B256 r := by
  intro f
  induction f with
  | zero => intro ty bs v r _ h; simp [Std.readTy] at h
  | succ f ih =>
    intro ty bs v r hB h
    by_cases hb : ty.isBase = true
    · rw [Std.readTy_base P.structs f ty bs hb] at h
      exact scalar_refine skip P f ty bs v r hb hB h
    · cases ty <;> simp [Ty.isBase] at hb
      case list el =>
        simp only [Std.readTy] at h
        cases bs with
        | nil => simp at h
        | cons ec r0 =>
          simp only [] at h
          cases h4 : readN 4 r0 with
          | none => simp [h4] at h
          | some p =>
            obtain ⟨n, r'⟩ := p
            simp only [h4] at h
            split at h
            · cases h
            · rename_i hn
              obtain ⟨q, hq, hv⟩ := map_some_inv _ _ _ h
              obtain ⟨xs, r''⟩ := q
              simp only [Prod.mk.injEq] at hv
              obtain ⟨rfl, rfl⟩ := hv
              obtain ⟨h4le, _, hr'⟩ := readN_some 4 r0 n r' h4
              have hu : Gopkg.u32 (List.drop 1 (ec :: r0)) = n := by simpa using u32_eq r0 n r' h4
              have eb : Gopkg.readListBegin (ec :: r0) = some (n, 5) := by
                unfold Gopkg.readListBegin
                have a1 : ¬ (ec :: r0).length < 5 := by simp only [List.length_cons]; omega
                simp only [a1, if_false, hu, hn]
              have hd5 : List.drop 5 (ec :: r0) = r' := by rw [hr']; rfl
              have hB' : B256 r' := by rw [← hd5]; exact hB.drop 5
              obtain ⟨e2, hB2⟩ := elems_refine _ _ (fun bs v r => ih el bs v r) n r' xs r'' hB' hq
              refine ⟨?_, hB2⟩
              simp only [fastReadTyWith, eb]
              rw [advance_ok _ 5 (by simp only [List.length_cons]; omega), hd5]
              simp [bind, e2]
      case set el =>
        simp only [Std.readTy] at h
        cases bs with
        | nil => simp at h
        | cons ec r0 =>
          simp only [] at h
          cases h4 : readN 4 r0 with
          | none => simp [h4] at h
          | some p =>
            obtain ⟨n, r'⟩ := p
            simp only [h4] at h
            split at h
            · cases h
            · rename_i hn
              obtain ⟨q, hq, hv⟩ := map_some_inv _ _ _ h
              obtain ⟨xs, r''⟩ := q
              simp only [Prod.mk.injEq] at hv
              obtain ⟨rfl, rfl⟩ := hv
              obtain ⟨h4le, _, hr'⟩ := readN_some 4 r0 n r' h4
              have hu : Gopkg.u32 (List.drop 1 (ec :: r0)) = n := by simpa using u32_eq r0 n r' h4
              have eb : Gopkg.readListBegin (ec :: r0) = some (n, 5) := by
                unfold Gopkg.readListBegin
                have a1 : ¬ (ec :: r0).length < 5 := by simp only [List.length_cons]; omega
                simp only [a1, if_false, hu, hn]
              have hd5 : List.drop 5 (ec :: r0) = r' := by rw [hr']; rfl
              have hB' : B256 r' := by rw [← hd5]; exact hB.drop 5
              obtain ⟨e2, hB2⟩ := elems_refine _ _ (fun bs v r => ih el bs v r) n r' xs r'' hB' hq
              refine ⟨?_, hB2⟩
              simp only [fastReadTyWith, eb]
              rw [advance_ok _ 5 (by simp only [List.length_cons]; omega), hd5]
              simp [bind, e2]
      case map k w =>
        simp only [Std.readTy] at h
        cases bs with
        | nil => simp at h
        | cons kc r1 => cases r1 with
          | nil => simp at h
          | cons vc r0 =>
            simp only [] at h
            cases h4 : readN 4 r0 with
            | none => simp [h4] at h
            | some p =>
              obtain ⟨n, r'⟩ := p
              simp only [h4] at h
              split at h
              · cases h
              · rename_i hn
                obtain ⟨q, hq, hv⟩ := map_some_inv _ _ _ h
                obtain ⟨kvs, r''⟩ := q
                simp only [Prod.mk.injEq] at hv
                obtain ⟨rfl, rfl⟩ := hv
                obtain ⟨h4le, _, hr'⟩ := readN_some 4 r0 n r' h4
                have hu : Gopkg.u32 (List.drop 2 (kc :: vc :: r0)) = n := by simpa using u32_eq r0 n r' h4
                have eb : Gopkg.readMapBegin (kc :: vc :: r0) = some (n, 6) := by
                  unfold Gopkg.readMapBegin
                  have a1 : ¬ (kc :: vc :: r0).length < 6 := by simp only [List.length_cons]; omega
                  simp only [a1, if_false, hu, hn]
                have hd6 : List.drop 6 (kc :: vc :: r0) = r' := by rw [hr']; rfl
                have hB' : B256 r' := by rw [← hd6]; exact hB.drop 6
                obtain ⟨e2, hB2⟩ := pairs_refine _ _ _ _ (fun bs v r => ih k bs v r) (fun bs v r => ih w bs v r) n r' kvs r'' hB' hq
                refine ⟨?_, hB2⟩
                simp only [fastReadTyWith, eb]
                rw [advance_ok _ 6 (by simp only [List.length_cons]; omega), hd6]
                simp [bind, e2]
      case struct i =>
        simp only [Std.readTy] at h
        have hs : P.struct? i = P.structs[i]? := rfl
        cases hsd : P.structs[i]? with
        | none => simp [hsd] at h
        | some sd =>
          simp only [hsd] at h
          cases hnx : newX sd with
          | strct init =>
            simp only [hnx] at h
            obtain ⟨q, hq, hv⟩ := map_some_inv _ _ _ h
            obtain ⟨fs, r'⟩ := q
            simp only [Prod.mk.injEq] at hv
            obtain ⟨rfl, rfl⟩ := hv
            obtain ⟨e2, hB2⟩ := fields_refine skip hsk P sd.fields (hP i sd hsd) _ _ (fun ty bs v r => ih ty bs v r) _ bs _ _ fs r' hB hq
            refine ⟨?_, hB2⟩
            simp only [fastReadTyWith, hs, hsd, hnx]
            simp [bind, e2]
          | _ => simp [hnx] at h



/-- **object reuse**: for EVERY object the caller holds and every byte string, whenever the standard Read into that
object succeeds, FastRead into the same object builds the same object -/
theorem fastReadInto_refines (skip : Nat → Bytes → FRes Nat) (hsk : SkipRefines skip) (P : Prog) (hP : ProgOK P) (sidx : Nat)
    (cur obj : GoVal) (bs : Bytes) (hB : B256 bs) (h : stdReadInto P sidx cur bs = some obj) :
    ∃ n, fastReadIntoWith skip P sidx cur bs = .ok (obj, n) ∧ n ≤ bs.length := by
  unfold stdReadInto at h
  unfold fastReadIntoWith
  have hs : P.struct? sidx = P.structs[sidx]? := rfl
  cases hsd : P.struct? sidx with
  | none => simp [hsd] at h
  | some sd =>
    cases cur <;> simp only [hsd] at h <;> try (cases h; done)
    rename_i fs
    obtain ⟨q, hq, hv⟩ := map_some_inv _ _ _ h
    obtain ⟨fs', r⟩ := q
    simp only [] at hv
    subst hv
    have hsd' : P.structs[sidx]? = some sd := by rw [← hs]; exact hsd
    obtain ⟨e, _⟩ := fields_refine skip hsk P sd.fields (hP sidx sd hsd') (Std.readTy P.structs bs.length)
      (fastReadTyWith skip P bs.length)
      (fun ty b v r => fastReadTy_refines skip hsk P hP bs.length ty b v r) _ bs fs _ fs' r hB hq
    refine ⟨bs.length - r.length, ?_, by omega⟩
    simp [e, bind]

end Gen.Fast
