import ThriftVerif.Gen.UnknownEvolve
/-
  Gen/UnknownChain: one hop (Read, then Write of the same object) through code generated with
  keep_unknown_fields from the OLD struct and through code generated from the NEW struct, and chains of hops.
-/
namespace Gen.Unknown
open Wire Gen Gen.Std Gen.Evolve

/-- generated `Write` of struct `sd` under keep_unknown_fields at one struct level: the union check
(`c != 1 && !(c == 0 && len(p._unknownFields) > 0)`), the known fields, then `_unknownFields.Write`, then STOP -/
def writeStructKU (P : Prog) (sd : StructDef) (fs : List GoVal) (acc : Fields) : Res Bytes :=
  if sd.kind = 1 && countSet sd.fields fs != 1 && !(countSet sd.fields fs == 0 && carrying acc) then .err else
  match toWFields P sd.fields fs with
  | .ok ws => writeFieldsKU (encFields ws) acc
  | .err => .err
  | .panic => .panic

/-- Read into `NewX()`, `CarryingUnknownFields()`, Write of the same object (keep_unknown_fields) -/
def hopKU (P : Prog) (f : Nat) (sd : StructDef) (bs : Bytes) : Option (Bytes × Bool) :=
  match readStructKU (readTy P.structs f) sd bs with
  | some (fs, _, acc) =>
    match writeStructKU P sd fs acc with
    | .ok out => some (out, carrying acc)
    | _ => none
  | none => none

/-- Read into `NewX()`, Write of the same object (plain code) -/
def hopStd (P : Prog) (f : Nat) (i : Nat) (bs : Bytes) : Option Bytes :=
  match readTy P.structs (f + 1) (.struct i) bs with
  | some (v, _) =>
    match Std.write P i v with
    | .ok out => some out
    | _ => none
  | none => none

/-- the hypotheses of one-level evolution: `sdNew` = `sdOld` + added fields (mask), both struct tables entries
of `P` (nested types are shared), `vs` a well-typed object of the new struct that writes `wsN` -/
structure Evo (P : Prog) (iOld iNew : Nat) (sdOld sdNew : StructDef) (mask : List Bool) (vs : List GoVal)
    (wsN : List (Nat × WVal)) (f : Nat) : Prop where
  hP : SchemaOK P
  hv : P.validateSet = false
  hO : P.structs[iOld]? = some sdOld
  hN : P.structs[iNew]? = some sdNew
  hl : mask.length = sdNew.fields.length
  hproj : proj mask sdNew.fields = sdOld.fields
  hfresh : ∀ g ∈ added mask sdNew.fields, idOf g ∉ sdOld.fields.map idOf
  hadd : ∀ g ∈ added mask sdNew.fields, g.req ≠ .required
  hwt : WTFields P.structs sdNew.fields vs
  hw : toWFields P sdNew.fields vs = .ok wsN
  hsh : AddedShallow P mask sdNew.fields vs
  hd : depthFields wsN ≤ f
  /-- for a union: the new code's Write succeeded, i.e. exactly one member was set -/
  hcount : (sdOld.kind = 1 ∨ sdNew.kind = 1) → wsN.length = 1

theorem toWFields_length (P : Prog) : ∀ (defs : List FieldDef) (vs : List GoVal) (ws : List (Nat × WVal)),
    toWFields P defs vs = .ok ws → vs.length = defs.length
  | [], [], _, _ => rfl
  | [], _ :: _, _, h => by simp [toWFields] at h
  | _ :: _, [], _, h => by simp [toWFields] at h
  | f :: fs, v :: vs, ws, h => by
    simp only [toWFields] at h
    split at h
    · simp [toWFields_length P fs vs ws h]
    · simp only [Res.bind_eq_ok] at h
      obtain ⟨_, _, ws', hws', _⟩ := h
      simp [toWFields_length P fs vs ws' hws']

/-- facts about the unknown part of a mixed stream -/
theorem unk_facts (rdTy : Ty → Bytes → Option (GoVal × Bytes)) (defs : List FieldDef) :
    ∀ (ws ms : List (Nat × WVal)), Mixed defs ws ms → (∀ x ∈ ws, Known rdTy defs x) →
      ∀ x ∈ unk defs ms, x.1 < 256 ^ 2 ∧ findField defs x.1 = none ∧ WF x.2 ∧ x.2.depth ≤ 64 := by
  intro ws ms hm
  induction hm with
  | nil => intro _ x hx; simp [unk] at hx
  | known x ws ms _ ih =>
    intro hk y hy
    obtain ⟨id, w⟩ := x
    obtain ⟨_, j, f, hf, _, _⟩ := hk (id, w) (by simp)
    have hunk : unk defs ((id, w) :: ms) = unk defs ms := by simp [unk, hf]
    rw [hunk] at hy
    exact ih (fun z hz => hk z (by simp [hz])) y hy
  | unknown id u ws ms _ hid hnf hwf hd ih =>
    intro hk y hy
    have hunk : unk defs ((id, u) :: ms) = (id, u) :: unk defs ms := by simp [unk, hnf]
    rw [hunk] at hy
    simp only [List.mem_cons] at hy
    rcases hy with rfl | hy
    · exact ⟨hid, hnf, hwf, hd⟩
    · exact ih hk y hy

theorem mixed_perm (rdTy : Ty → Bytes → Option (GoVal × Bytes)) (defs : List FieldDef) :
    ∀ (ws ms : List (Nat × WVal)), Mixed defs ws ms → (∀ x ∈ ws, Known rdTy defs x) →
      (ws ++ unk defs ms).Perm ms := by
  intro ws ms hm
  induction hm with
  | nil => intro _; simp [unk]
  | known x ws ms _ ih =>
    intro hk
    obtain ⟨id, w⟩ := x
    obtain ⟨_, j, f, hf, _, _⟩ := hk (id, w) (by simp)
    have hunk : unk defs ((id, w) :: ms) = unk defs ms := by simp [unk, hf]
    rw [hunk]
    exact (ih (fun z hz => hk z (by simp [hz]))).cons _
  | unknown id u ws ms _ hid hnf hwf hd ih =>
    intro hk
    have hunk : unk defs ((id, u) :: ms) = (id, u) :: unk defs ms := by simp [unk, hnf]
    rw [hunk]
    exact List.perm_middle.trans ((ih hk).cons _)

theorem mixed_unknowns (defs : List FieldDef) : ∀ (us : List (Nat × WVal)),
    (∀ x ∈ us, x.1 < 256 ^ 2 ∧ findField defs x.1 = none ∧ WF x.2 ∧ x.2.depth ≤ 64) → Mixed defs [] us
  | [], _ => .nil
  | (id, u) :: us, h => by
    obtain ⟨h1, h2, h3, h4⟩ := h (id, u) (by simp)
    exact .unknown id u [] us (mixed_unknowns defs us (fun y hy => h y (by simp [hy]))) h1 h2 h3 h4

theorem mixed_append (defs : List FieldDef) (us : List (Nat × WVal))
    (h : ∀ x ∈ us, x.1 < 256 ^ 2 ∧ findField defs x.1 = none ∧ WF x.2 ∧ x.2.depth ≤ 64) :
    ∀ (ws : List (Nat × WVal)), Mixed defs ws (ws ++ us)
  | [] => by simpa using mixed_unknowns defs us h
  | x :: ws => .known x ws (ws ++ us) (mixed_append defs us h ws)

theorem unk_append_split (rdTy : Ty → Bytes → Option (GoVal × Bytes)) (defs : List FieldDef) (ws us : List (Nat × WVal))
    (hk : ∀ x ∈ ws, Known rdTy defs x) (hu : ∀ x ∈ us, findField defs x.1 = none) :
    unk defs (ws ++ us) = us := by
  have h1 : unk defs ws = [] := by
    simp only [unk, List.filter_eq_nil_iff]
    intro x hx
    obtain ⟨_, j, f, hf, _, _⟩ := hk x hx
    simp [hf]
  have h2 : unk defs us = us := by
    simp only [unk, List.filter_eq_self]
    intro x hx
    simp [hu x hx]
  simp only [unk, List.filter_append] at h1 h2 ⊢
  rw [h1, h2]; rfl

theorem write_struct (P : Prog) (i : Nat) (sd : StructDef) (fs : List GoVal) (ws : List (Nat × WVal))
    (hsd : P.structs[i]? = some sd) (hk : sd.kind = 1 → countSet sd.fields fs = 1) (hw : toWFields P sd.fields fs = .ok ws) :
    Std.write P i (.strct fs) = .ok (encFields ws ++ [0]) := by
  have : P.struct? i = some sd := hsd
  have hc : (sd.kind = 1 && countSet sd.fields fs != 1) = false := by
    by_cases h1 : sd.kind = 1
    · simp [h1, hk h1]
    · simp [h1]
  simp only [Std.write, toW, this, hc, hw]
  rfl

theorem union_ok (sd : StructDef) (fs : List GoVal) (acc : Fields)
    (h : sd.kind = 1 → countSet sd.fields fs = 1 ∨ (countSet sd.fields fs = 0 ∧ carrying acc = true)) :
    (sd.kind = 1 && countSet sd.fields fs != 1 && !(countSet sd.fields fs == 0 && carrying acc)) = false := by
  by_cases h1 : sd.kind = 1
  · rcases h h1 with h2 | ⟨h2, h3⟩
    · simp [h1, h2]
    · simp [h1, h2, h3]
  · simp [h1]

theorem carrying_enc (us : List (Nat × WVal)) : carrying (encFields us) = !us.isEmpty := by
  cases us with
  | nil => rfl
  | cons a r => obtain ⟨i, v⟩ := a; simp [carrying, encFields]

/-- everything the hop theorems need, derived once from `Evo` -/
theorem Evo.parts {P : Prog} {iOld iNew : Nat} {sdOld sdNew : StructDef} {mask : List Bool} {vs : List GoVal}
    {wsN : List (Nat × WVal)} {f : Nat} (E : Evo P iOld iNew sdOld sdNew mask vs wsN f) :
    ∃ wsO, toWFields P sdOld.fields (proj mask vs) = .ok wsO ∧
      toWFields P (added mask sdNew.fields) (added mask vs) = .ok (unk sdOld.fields wsN) ∧
      Mixed sdOld.fields wsO wsN ∧ depthFields wsO ≤ f ∧ depthFields (unk sdOld.fields wsN) ≤ f ∧
      WTFields P.structs sdOld.fields (proj mask vs) := by
  obtain ⟨wsO, h1, hm⟩ := new_fields_mixed P sdOld.fields mask sdNew.fields vs wsN E.hl E.hw E.hwt E.hfresh E.hsh
  rw [E.hproj] at h1
  have hwtO : WTFields P.structs sdOld.fields (proj mask vs) := by
    have := WTFields_proj P.structs mask sdNew.fields vs E.hl E.hwt
    rwa [E.hproj] at this
  have hA := unk_written P sdOld.fields mask sdNew.fields vs wsN E.hl E.hw
    (fun g hg => by rw [E.hproj] at hg; exact List.mem_map.2 ⟨g, hg, rfl⟩) E.hfresh
  have hdO : depthFields wsO ≤ f := by have := Mixed_depth sdOld.fields wsO wsN hm; have := E.hd; omega
  have hdA : depthFields (unk sdOld.fields wsN) ≤ f := by have := depth_unk sdOld.fields wsN; have := E.hd; omega
  exact ⟨wsO, h1, hA, hm, hdO, hdA, hwtO⟩

/-- what the old code with keep_unknown_fields does to ANY mixed stream over its written fields `wsO`:
reads it, carries iff an unknown field is present, and writes the common fields followed by the unknown
ones in arrival order -/
theorem hopKU_mixed (P : Prog) (hP : SchemaOK P) (hv : P.validateSet = false) (i : Nat) (sd : StructDef)
    (ms : List (Nat × WVal))
    (fs : List GoVal) (ws : List (Nat × WVal)) (f : Nat) (hsd : P.structs[i]? = some sd)
    (hk : sd.kind = 1 → ws.length = 1 ∨ (ws.length = 0 ∧ unk sd.fields ms ≠ []))
    (hwt : WTFields P.structs sd.fields fs) (hw : toWFields P sd.fields fs = .ok ws) (hd : depthFields ws ≤ f)
    (hm : Mixed sd.fields ws ms) :
    hopKU P f sd (encFields ms ++ [0]) = some (encFields (ws ++ unk sd.fields ms) ++ [0], !(unk sd.fields ms).isEmpty) := by
  obtain ⟨fs', htw, hread⟩ := readStructKU_mixed P hP hv i sd fs ws f hsd hwt hw hd
  obtain ⟨_, hku, hwf⟩ := hread ms [] hm
  have hu := union_ok sd fs' (encFields (unk sd.fields ms)) (fun h1 => by
    obtain ⟨_, _, _, hopt⟩ := hP i sd hsd
    have hc := countSet_written P sd.fields fs' ws htw (hopt h1)
    rcases hk h1 with h2 | ⟨h2, h3⟩
    · exact Or.inl (by omega)
    · refine Or.inr ⟨by omega, ?_⟩
      rw [carrying_enc]
      cases hh : unk sd.fields ms with
      | nil => exact absurd hh h3
      | cons a r => rfl)
  have hwr : writeStructKU P sd fs' (encFields (unk sd.fields ms)) = .ok (encFields (ws ++ unk sd.fields ms) ++ [0]) := by
    simp only [writeStructKU, hu, htw, writeFieldsKU, write_enc _ hwf, encFields_append]
    rfl
  simp only [hopKU, hku, hwr, carrying_enc]

theorem hopStd_read (P : Prog) (hP : SchemaOK P) (f i : Nat) (sd : StructDef) (bs : Bytes) (fs : List GoVal) (ws : List (Nat × WVal))
    (hsd : P.structs[i]? = some sd) (hk : sd.kind = 1 → ws.length = 1)
    (hr : readTy P.structs (f + 1) (.struct i) bs = some (.strct fs, [])) (hw : toWFields P sd.fields fs = .ok ws) :
    hopStd P f i bs = some (encFields ws ++ [0]) := by
  have hk' : sd.kind = 1 → countSet sd.fields fs = 1 := fun h1 => by
    obtain ⟨_, _, _, hopt⟩ := hP i sd hsd
    have := countSet_written P sd.fields fs ws hw (hopt h1)
    have := hk h1
    omega
  simp only [hopStd, hr, write_struct P i sd fs ws hsd hk' hw]

section
variable {P : Prog} {iOld iNew : Nat} {sdOld sdNew : StructDef} {mask : List Bool} {vs : List GoVal}
  {wsN : List (Nat × WVal)} {f : Nat}

/-- for a union the single field the new code wrote is either a common one or an added one -/
theorem union_split (E : Evo P iOld iNew sdOld sdNew mask vs wsN f) {wsO wsA : List (Nat × WVal)}
    (hperm : (wsO ++ wsA).Perm wsN) : sdOld.kind = 1 → wsO.length = 1 ∨ (wsO.length = 0 ∧ wsA ≠ []) := by
  intro h1
  have h := E.hcount (Or.inl h1)
  have hl := hperm.length_eq
  simp only [List.length_append] at hl
  cases wsA with
  | nil => simp at hl; exact Or.inl (by omega)
  | cons a r => simp at hl; exact Or.inr ⟨by omega, by simp⟩

/-- **keep_roundtrip** (one struct level; struct, exception or union). New code writes `wsN`; old code generated with
keep_unknown_fields reads these bytes and writes its object back: the bytes are the common fields `wsO`
followed by the added fields `wsA` — a permutation of `wsN`, each field's encoding byte-identical —; the
object reports carrying iff an added field was on the wire; and the NEW code reads the re-written bytes
without error into an object that encodes to exactly `wsN`. -/
theorem keep_roundtrip_core (E : Evo P iOld iNew sdOld sdNew mask vs wsN f) :
    ∃ wsO wsA fs'', toWFields P sdOld.fields (proj mask vs) = .ok wsO ∧
      toWFields P (added mask sdNew.fields) (added mask vs) = .ok wsA ∧
      hopKU P f sdOld (encFields wsN ++ [0]) = some (encFields (wsO ++ wsA) ++ [0], !wsA.isEmpty) ∧
      (wsO ++ wsA).Perm wsN ∧
      (∀ r', readTy P.structs (f + 1) (.struct iNew) (encFields (wsO ++ wsA) ++ 0 :: r') = some (.strct fs'', r')) ∧
      toWFields P sdNew.fields fs'' = .ok wsN := by
  obtain ⟨wsO, hwO, hwA, hm, hdO, hdA, hwtO⟩ := E.parts
  obtain ⟨hndO, _, _, _⟩ := E.hP iOld sdOld E.hO
  have hih := IHu_of_IHs P (readTy P.structs f) (readTy_append P.structs f) f sdOld.fields (proj mask vs)
    (rtFields P E.hP E.hv (proj mask vs) sdOld.fields f)
  have hkn := written_known P (readTy P.structs f) f sdOld.fields (proj mask vs) wsO hwO hdO hih hwtO [] (by simpa using hndO)
  simp only [List.nil_append] at hkn
  have hperm := mixed_perm (readTy P.structs f) sdOld.fields wsO wsN hm hkn
  have hhop := hopKU_mixed P E.hP E.hv iOld sdOld wsN (proj mask vs) wsO f E.hO (union_split E hperm) hwtO hwO hdO hm
  have hwO' : toWFields P (proj mask sdNew.fields) (proj mask vs) = .ok wsO := by rw [E.hproj]; exact hwO
  obtain ⟨fs'', hlen, hrd, hpO, hpA⟩ := new_reads_rewritten P E.hP E.hv iNew sdNew mask vs wsO (unk sdOld.fields wsN) f
    E.hN E.hl E.hadd E.hwt hwO' hwA hdO hdA
  obtain ⟨hndN, _, _, _⟩ := E.hP iNew sdNew E.hN
  have hmerge := toWFields_merge P mask sdNew.fields fs'' vs wsO (unk sdOld.fields wsN) E.hl hlen
    (toWFields_length P _ _ _ E.hw) hndN hpO hwO' hpA hwA
  exact ⟨wsO, unk sdOld.fields wsN, fs'', hwO, hwA, hhop, hperm, hrd, by rw [hmerge]; exact E.hw⟩

/-- a hop of a chain: through the old code with keep_unknown_fields, or through the new code -/
inductive Hop | oldKeep | new
  deriving DecidableEq, Repr

def runHop (P : Prog) (f : Nat) (sdOld : StructDef) (iNew : Nat) : Hop → Bytes → Option Bytes
  | .oldKeep, b => (hopKU P f sdOld b).map (·.1)
  | .new, b => hopStd P f iNew b

def runChain (P : Prog) (f : Nat) (sdOld : StructDef) (iNew : Nat) : List Hop → Bytes → Option Bytes
  | [], b => some b
  | h :: hs, b => (runHop P f sdOld iNew h b).bind (runChain P f sdOld iNew hs)

/-- the bytes after one hop: what the new code writes after a hop through the new code, the common fields
followed by the added ones after a hop through the old code -/
def afterHop (b0 b1 : Bytes) : Hop → Bytes
  | .oldKeep => b1
  | .new => b0

def endOf (b0 b1 : Bytes) : Bytes → List Hop → Bytes
  | b, [] => b
  | _, h :: hs => endOf b0 b1 (afterHop b0 b1 h) hs

theorem endOf_last (b0 b1 : Bytes) : ∀ (hs : List Hop) (b : Bytes) (h : Hop), endOf b0 b1 b (hs ++ [h]) = afterHop b0 b1 h
  | [], _, _ => rfl
  | _ :: hs, _, h => endOf_last b0 b1 hs _ h

/-- **chain**: along any chain of hops old(keep)→new→old(keep)→… the bytes alternate between exactly two
values: what the new code writes (`encFields wsN`) after a hop through the new code, and the common fields
followed by the added ones after a hop through the old code; nothing is ever lost. -/
theorem chain_core (E : Evo P iOld iNew sdOld sdNew mask vs wsN f) :
    ∃ wsO wsA, (wsO ++ wsA).Perm wsN ∧
      ∀ (hops : List Hop) (b : Bytes), b = encFields wsN ++ [0] ∨ b = encFields (wsO ++ wsA) ++ [0] →
        runChain P f sdOld iNew hops b = some (endOf (encFields wsN ++ [0]) (encFields (wsO ++ wsA) ++ [0]) b hops) := by
  obtain ⟨wsO, wsA, fs'', hwO, hwA, hK0, hperm, hrd1, htw1⟩ := keep_roundtrip_core E
  obtain ⟨wsO', hwO', hwA', hm, hdO, hdA, hwtO⟩ := E.parts
  have hOeq : wsO' = wsO := by rw [hwO] at hwO'; cases hwO'; rfl
  subst hOeq
  have hAeq : wsA = unk sdOld.fields wsN := by rw [hwA] at hwA'; cases hwA'; rfl
  refine ⟨wsO', wsA, hperm, ?_⟩
  obtain ⟨hndO, _, _, _⟩ := E.hP iOld sdOld E.hO
  have hih := IHu_of_IHs P (readTy P.structs f) (readTy_append P.structs f) f sdOld.fields (proj mask vs)
    (rtFields P E.hP E.hv (proj mask vs) sdOld.fields f)
  have hkn := written_known P (readTy P.structs f) f sdOld.fields (proj mask vs) wsO' hwO hdO hih hwtO [] (by simpa using hndO)
  simp only [List.nil_append] at hkn
  have hfacts := unk_facts (readTy P.structs f) sdOld.fields wsO' wsN hm hkn
  rw [← hAeq] at hfacts
  have hm1 : Mixed sdOld.fields wsO' (wsO' ++ wsA) := mixed_append sdOld.fields wsA hfacts wsO'
  have hunk1 : unk sdOld.fields (wsO' ++ wsA) = wsA :=
    unk_append_split (readTy P.structs f) sdOld.fields wsO' wsA hkn (fun x hx => (hfacts x hx).2.1)
  have hK1 := hopKU_mixed P E.hP E.hv iOld sdOld (wsO' ++ wsA) (proj mask vs) wsO' f E.hO
    (by rw [hunk1]; exact union_split E hperm) hwtO hwO hdO hm1
  rw [hunk1] at hK1
  obtain ⟨fs0, htw0, hrd0⟩ := struct_read_mixed P E.hP E.hv iNew sdNew vs wsN f E.hN E.hwt E.hw E.hd
  have hN0 : hopStd P f iNew (encFields wsN ++ [0]) = some (encFields wsN ++ [0]) :=
    hopStd_read P E.hP f iNew sdNew _ fs0 wsN E.hN (fun h => E.hcount (Or.inr h)) (hrd0 wsN [] (Mixed.refl _ wsN)) htw0
  have hN1 : hopStd P f iNew (encFields (wsO' ++ wsA) ++ [0]) = some (encFields wsN ++ [0]) :=
    hopStd_read P E.hP f iNew sdNew _ fs'' wsN E.hN (fun h => E.hcount (Or.inr h)) (hrd1 []) htw1
  intro hops
  induction hops with
  | nil => intro b _; rfl
  | cons h hs ih =>
    intro b hb
    have hstep : runHop P f sdOld iNew h b = some (afterHop (encFields wsN ++ [0]) (encFields (wsO' ++ wsA) ++ [0]) h) := by
      cases h <;> rcases hb with rfl | rfl <;> simp [runHop, afterHop, hK0, hK1, hN0, hN1]
    simp only [runChain, hstep, Option.bind_some, endOf]
    exact ih _ (by cases h <;> simp [afterHop])

/-- **carrying_iff**: for any stream that is the old struct's written fields interleaved with fields of
other ids, `CarryingUnknownFields()` after Read is true iff a field id outside the old schema was present -/
theorem carrying_iff_core (hP : SchemaOK P) (hv : P.validateSet = false) (i : Nat) (sd : StructDef)
    (fs : List GoVal) (ws : List (Nat × WVal)) (hsd : P.structs[i]? = some sd)
    (hwt : WTFields P.structs sd.fields fs) (hw : toWFields P sd.fields fs = .ok ws) (hd : depthFields ws ≤ f)
    (ms : List (Nat × WVal)) (r : Bytes) (hm : Mixed sd.fields ws ms) :
    ∃ fs' acc, readStructKU (readTy P.structs f) sd (encFields ms ++ 0 :: r) = some (fs', r, acc) ∧
      (carrying acc = true ↔ ∃ x ∈ ms, findField sd.fields x.1 = none) := by
  obtain ⟨fs', _, hread⟩ := readStructKU_mixed P hP hv i sd fs ws f hsd hwt hw hd
  obtain ⟨_, hku, _⟩ := hread ms r hm
  refine ⟨fs', _, hku, ?_⟩
  rw [carrying_enc]
  simp only [Bool.not_eq_true', List.isEmpty_eq_false_iff, ne_eq]
  constructor
  · intro hne
    obtain ⟨x, hx⟩ := List.exists_mem_of_ne_nil _ hne
    simp only [unk, List.mem_filter, Option.isNone_iff_eq_none] at hx
    exact ⟨x, hx.1, hx.2⟩
  · rintro ⟨x, hx, hnf⟩ he
    have : x ∈ unk sd.fields ms := by simp [unk, hx, hnf]
    rw [he] at this; simp at this

/-- **ku_no_unknown_is_std**: on data written by the same struct (no unknown id), Read under
keep_unknown_fields builds the object the plain Read builds and leaves the buffer empty; and Write with an
empty buffer is the plain Write -/
theorem ku_no_unknown_core (hP : SchemaOK P) (hv : P.validateSet = false) (i : Nat) (sd : StructDef)
    (fs : List GoVal) (ws : List (Nat × WVal)) (hsd : P.structs[i]? = some sd)
    (hwt : WTFields P.structs sd.fields fs) (hw : toWFields P sd.fields fs = .ok ws) (hd : depthFields ws ≤ f) (r : Bytes) :
    ∃ fs', readTy P.structs (f + 1) (.struct i) (encFields ws ++ 0 :: r) = some (.strct fs', r) ∧
      readStructKU (readTy P.structs f) sd (encFields ws ++ 0 :: r) = some (fs', r, []) := by
  obtain ⟨fs', _, hread⟩ := readStructKU_mixed P hP hv i sd fs ws f hsd hwt hw hd
  obtain ⟨hstd, hku, _⟩ := hread ws r (Mixed.refl _ ws)
  obtain ⟨hnd, _, _, _⟩ := hP i sd hsd
  have hih := IHu_of_IHs P (readTy P.structs f) (readTy_append P.structs f) f sd.fields fs (rtFields P hP hv fs sd.fields f)
  have hkn := written_known P (readTy P.structs f) f sd.fields fs ws hw hd hih hwt [] (by simpa using hnd)
  simp only [List.nil_append] at hkn
  have := unk_append_split (readTy P.structs f) sd.fields ws [] hkn (by simp)
  simp only [List.append_nil] at this
  rw [this] at hku
  exact ⟨fs', hstd, hku⟩

theorem writeStructKU_nil (P : Prog) (i : Nat) (sd : StructDef) (fs : List GoVal) (hsd : P.structs[i]? = some sd) :
    writeStructKU P sd fs [] = Std.write P i (.strct fs) := by
  have : P.struct? i = some sd := hsd
  simp only [writeStructKU, Std.write, toW, this, carrying, List.isEmpty_nil, Bool.not_true, Bool.and_false, Bool.not_false, Bool.and_true]
  split
  · rfl
  · cases toWFields P sd.fields fs <;> simp [writeFieldsKU, write, writeR, writeLoop] <;> rfl

end

end Gen.Unknown
