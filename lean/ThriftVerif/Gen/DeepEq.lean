import ThriftVerif.Gen.Std
/-
  Gen/DeepEq: what the code generated from templates/deep_equal.go computes (option gen_deep_equal), and
  the set-uniqueness check of FieldWriteSet (templates/struct.go, `Features.ValidateSet`), statement by
  statement:

    func (p *T) DeepEqual(ano *T) bool {            -- StructLikeDeepEqual
      if p == ano { return true } else if p == nil || ano == nil { return false }
      if !p.Field<N>DeepEqual(ano.F) { return false } …   (fields in IDL order)
      return true }
    func (p *T) Field<N>DeepEqual(src X) bool { <FieldDeepEqual ctx>; return true }

    FieldDeepEqual         = struct-like → `if !tgt.DeepEqual(src) { return false }`
                             container   → [pointer tests]; `if len(tgt) != len(src) { return false }`;
                                           `for i|k, v := range tgt { _src := src[i|k]; <FieldDeepEqual v _src> }`
                             base        → [if IsPointer: `tgt == src → true`, one nil → false]; then
                                           strings.Compare / bytes.Compare / `!=`

  The two objects compared are DISJOINT object graphs (what two independently built or decoded values are):
  two pointers are `==` only if both are nil, and a struct-typed map key (a pointer in Go) coming from one
  map is never a key of the other. The identical-object case `x.DeepEqual(x)` is `deepEqualTop … true`.

  Indexing the other MAP with a missing key yields the Go zero value of the element type (`zeroElem`);
  indexing the other SLICE out of range is a Go panic (`.panic`) — unreachable behind the `len` test, which
  is a theorem (`Props.C18.deep_equal_nil_safe`), not an assumption.

  `Facts` holds the two skeleton facts of the template that the planned repair would flip; they are extracted
  from the template text on every run (Generated/C18.lean) and the model follows them.
-/
deriving instance DecidableEq for Gen.Res

namespace Gen.DeepEq
open Gen

/-- skeleton facts read off templates/deep_equal.go -/
structure Facts where
  /-- FieldDeepEqualContainer tests `len(tgt) != len(src)` before the loop -/
  lenTest : Bool
  /-- the loop body reads the other map as `_src, ok := src[k]` and returns false when `!ok`
      (false on the current tree: `_src := src[k]`) -/
  commaOk : Bool
  deriving Repr, DecidableEq, Inhabited

/-- the template as it is on the current tree -/
def Facts.current : Facts := { lenTest := true, commaOk := false }

/-- `NeedRedirect`: the Go field is a pointer to a base value iff optional, no default, base type other than binary -/
def isPtrField (f : FieldDef) : Bool :=
  f.req == .optional && f.dflt.isNone && f.ty.isBase && f.ty != .bin

/-- bytes held by a string / []byte slot (a nil []byte has no bytes) -/
def bytesOf : GoVal → Bytes
  | .bytes b => b
  | _ => []

/-- elements of a slice value (nil → none); `len(x)` of a slice is `(elemsOf x).length` -/
def elemsOf : GoVal → List GoVal
  | .list xs => xs
  | _ => []

/-- entries of a map value (nil → none); `len(m)` is `(entriesOf m).length` -/
def entriesOf : GoVal → List (GoVal × GoVal)
  | .map kvs => kvs
  | _ => []

def isNilV : GoVal → Bool
  | .nil => true
  | _ => false

/-- FieldDeepEqualBase after the pointer tests: `strings.Compare(a,b) != 0`, `bytes.Compare(a,b) != 0`, `a != b`;
true = "not different" -/
def baseEq (ty : Ty) (a b : GoVal) : Bool :=
  match ty with
  | .str | .bin => bytesOf a == bytesOf b
  | _ => goEq a b

/-- FieldDeepEqualBase on a POINTER slot (`*int32`, `*string`, …): `tgt == src → true` (disjoint object graphs: only
when both are nil), `tgt == nil || src == nil → false`, else the pointees are compared -/
def ptrBaseEq (ty : Ty) (a b : GoVal) : Bool :=
  match a, b with
  | .nil, .nil => true
  | .nil, _ => false
  | _, .nil => false
  | a, b => baseEq ty a b

/-- the Go zero value of a container element of type `ty` (what `m[k]` yields for a missing key) -/
def zeroElem (ty : Ty) : GoVal := zeroOf .default ty

/-- Go map index `m[k]`: first (= only) entry whose key is `==` to `k`; struct-typed keys are pointers of the
other object graph and are never found -/
def index (kty : Ty) (m : List (GoVal × GoVal)) (k : GoVal) : Option GoVal :=
  match m.find? (fun e => Std.keyEq kty e.1 k) with
  | some e => some e.2
  | none => none

mutual
/-- `FieldDeepEqual` on a non-pointer slot (`tgt` = a, `src` = b): struct-like → `a.DeepEqual(b)` -/
def deepEqual (F : Facts) (P : Prog) (ty : Ty) (a b : GoVal) : Res Bool :=
  match ty, a with
  -- (p *T).DeepEqual(ano): p == ano (both nil) → true; p == nil → false
  | .struct _, .nil => .ok (isNilV b)
  | .struct i, .strct fs =>
      match b with
      | .nil => .ok false
      | .strct gs =>
          match P.struct? i with
          | some sd => deepEqFields F P sd.fields fs gs
          | none => .err
      | _ => .err
  | .list _, .nil => .ok (!F.lenTest || (elemsOf b).length == 0)
  | .list e, .list xs =>
      if F.lenTest && xs.length != (elemsOf b).length then .ok false else deepEqElems F P e xs 0 (elemsOf b)
  | .set _, .nil => .ok (!F.lenTest || (elemsOf b).length == 0)
  | .set e, .list xs =>
      if F.lenTest && xs.length != (elemsOf b).length then .ok false else deepEqElems F P e xs 0 (elemsOf b)
  | .map _ _, .nil => .ok (!F.lenTest || (entriesOf b).length == 0)
  | .map k v, .map kvs =>
      if F.lenTest && kvs.length != (entriesOf b).length then .ok false else deepEqEntries F P k v kvs (entriesOf b)
  | ty, a => .ok (baseEq ty a b)
termination_by structural a
/-- `for i, v := range tgt { _src := src[i]; … }` from index `i` on -/
def deepEqElems (F : Facts) (P : Prog) (e : Ty) (xs : List GoVal) (i : Nat) (src : List GoVal) : Res Bool :=
  match xs with
  | [] => .ok true
  | v :: r =>
      match src[i]? with
      | none => .panic                       -- index out of range
      | some s => do
          let c ← deepEqual F P e v s
          if c then deepEqElems F P e r (i + 1) src else .ok false
termination_by structural xs
/-- `for k, v := range tgt { _src := src[k]; … }` -/
def deepEqEntries (F : Facts) (P : Prog) (k v : Ty) (kvs : List (GoVal × GoVal)) (src : List (GoVal × GoVal)) : Res Bool :=
  match kvs with
  | [] => .ok true
  | (key, val) :: r =>
      match index k src key with
      | none =>
          if F.commaOk then .ok false else do
          let c ← deepEqual F P v val (zeroElem v)
          if c then deepEqEntries F P k v r src else .ok false
      | some s => do
          let c ← deepEqual F P v val s
          if c then deepEqEntries F P k v r src else .ok false
termination_by structural kvs
/-- the `if !p.Field<N>DeepEqual(ano.F) { return false }` chain; a field slot that is a pointer to a base value
gets the pointer tests of FieldDeepEqualBase first -/
def deepEqFields (F : Facts) (P : Prog) (defs : List FieldDef) (as bs : List GoVal) : Res Bool :=
  match defs, as, bs with
  | [], [], [] => .ok true
  | f :: fs, a :: as, b :: bs => do
      let c ← (if isPtrField f then .ok (ptrBaseEq f.ty a b) else deepEqual F P f.ty a b)
      if c then deepEqFields F P fs as bs else .ok false
  | _, _, _ => .err
termination_by structural as
end

/-- `p.Field<N>DeepEqual(src)` for field `f` (what `deepEqFields` runs per field) -/
def fieldEq (F : Facts) (P : Prog) (f : FieldDef) (a b : GoVal) : Res Bool :=
  if isPtrField f then .ok (ptrBaseEq f.ty a b) else deepEqual F P f.ty a b

/-- `x.DeepEqual(y)` on objects of struct `sidx`; `same` = the two arguments are the SAME pointer -/
def deepEqualTop (F : Facts) (P : Prog) (sidx : Nat) (same : Bool) (a b : GoVal) : Res Bool :=
  if same then .ok true else deepEqual F P (.struct sidx) a b

/-! ### `x.DeepEqual(y)` where `y` is a SHALLOW copy of `x` (`*y = *x`): every pointer, slice and map is shared -/

def isNaNKey : GoVal → Bool
  | .dbl x => isNaN x
  | _ => false

mutual
/-- `FieldDeepEqual` on a non-pointer slot when `src` is the very same Go value as `tgt` -/
def selfEq (F : Facts) (P : Prog) (ty : Ty) (a : GoVal) : Res Bool :=
  match ty, a with
  | .struct _, _ => .ok true                       -- p == ano
  | .list e, .list xs => selfEqElems F P e xs
  | .set e, .list xs => selfEqElems F P e xs
  | .map k v, .map kvs => selfEqEntries F P k v kvs
  | .list _, _ => .ok true
  | .set _, _ => .ok true
  | .map _ _, _ => .ok true
  | ty, a => .ok (baseEq ty a a)
termination_by structural a
def selfEqElems (F : Facts) (P : Prog) (e : Ty) (xs : List GoVal) : Res Bool :=
  match xs with
  | [] => .ok true
  | v :: r => do
      let c ← selfEq F P e v
      if c then selfEqElems F P e r else .ok false
termination_by structural xs
/-- `_src := src[k]` finds the entry itself (same map, same key pointer) unless the key is a NaN -/
def selfEqEntries (F : Facts) (P : Prog) (k v : Ty) (kvs : List (GoVal × GoVal)) : Res Bool :=
  match kvs with
  | [] => .ok true
  | (key, val) :: r => do
      let c ← (if isNaNKey key then
                 (if F.commaOk then .ok false else deepEqual F P v val (zeroElem v))
               else selfEq F P v val)
      if c then selfEqEntries F P k v r else .ok false
termination_by structural kvs
end

/-- fields of the shallow copy: pointer slots hold the same pointer -/
def selfEqFields (F : Facts) (P : Prog) : List FieldDef → List GoVal → Res Bool
  | [], [] => .ok true
  | f :: fs, a :: as => do
      let c ← (if isPtrField f then .ok true else selfEq F P f.ty a)
      if c then selfEqFields F P fs as else .ok false
  | _, _ => .err

/-- `x.DeepEqual(y)` with `y := new(T); *y = *x` -/
def shallowCopyEq (F : Facts) (P : Prog) (sidx : Nat) (a : GoVal) : Res Bool :=
  match a, P.struct? sidx with
  | .strct fs, some sd => selfEqFields F P sd.fields fs
  | _, _ => .err

/-! ### values that SHARE element pointers (op `ES`)

The driver builds `x` and `y` from two descriptions and then makes every struct-typed ELEMENT of a list / set / map
(base-typed keys) of `y` the very pointer of `x`'s element at the same index / key whenever both are non-nil and their
descriptions are identical (`descEq`). For such an element pair `v.DeepEqual(_src)` answers through `p == ano`. -/

mutual
/-- identical descriptions (strict: nil ≠ empty, doubles by bit pattern, entries in the given order) -/
def descEq : GoVal → GoVal → Bool
  | .nil, .nil => true
  | .bool a, .bool b => a == b
  | .int a, .int b => a == b
  | .dbl a, .dbl b => a == b
  | .bytes a, .bytes b => a == b
  | .list a, .list b => descEqList a b
  | .map a, .map b => descEqPairs a b
  | .strct a, .strct b => descEqList a b
  | _, _ => false
def descEqList : List GoVal → List GoVal → Bool
  | [], [] => true
  | x :: xs, y :: ys => descEq x y && descEqList xs ys
  | _, _ => false
def descEqPairs : List (GoVal × GoVal) → List (GoVal × GoVal) → Bool
  | [], [] => true
  | (k, v) :: xs, (k', v') :: ys => descEq k k' && descEq v v' && descEqPairs xs ys
  | _, _ => false
end

/-- the element pair is one shared struct pointer -/
def sharedElem (e : Ty) (v s : GoVal) : Bool := e.isStruct && !isNilV v && descEq v s

mutual
def deepEqualSh (F : Facts) (P : Prog) (ty : Ty) (a b : GoVal) : Res Bool :=
  match ty, a with
  | .struct _, .nil => .ok (isNilV b)
  | .struct i, .strct fs =>
      match b with
      | .nil => .ok false
      | .strct gs =>
          match P.struct? i with
          | some sd => deepEqFieldsSh F P sd.fields fs gs
          | none => .err
      | _ => .err
  | .list _, .nil => .ok (!F.lenTest || (elemsOf b).length == 0)
  | .list e, .list xs =>
      if F.lenTest && xs.length != (elemsOf b).length then .ok false else deepEqElemsSh F P e xs 0 (elemsOf b)
  | .set _, .nil => .ok (!F.lenTest || (elemsOf b).length == 0)
  | .set e, .list xs =>
      if F.lenTest && xs.length != (elemsOf b).length then .ok false else deepEqElemsSh F P e xs 0 (elemsOf b)
  | .map _ _, .nil => .ok (!F.lenTest || (entriesOf b).length == 0)
  | .map k v, .map kvs =>
      if F.lenTest && kvs.length != (entriesOf b).length then .ok false else deepEqEntriesSh F P k v kvs (entriesOf b)
  | ty, a => .ok (baseEq ty a b)
termination_by structural a
def deepEqElemsSh (F : Facts) (P : Prog) (e : Ty) (xs : List GoVal) (i : Nat) (src : List GoVal) : Res Bool :=
  match xs with
  | [] => .ok true
  | v :: r =>
      match src[i]? with
      | none => .panic
      | some s => do
          let c ← (if sharedElem e v s then .ok true else deepEqualSh F P e v s)
          if c then deepEqElemsSh F P e r (i + 1) src else .ok false
termination_by structural xs
def deepEqEntriesSh (F : Facts) (P : Prog) (k v : Ty) (kvs : List (GoVal × GoVal)) (src : List (GoVal × GoVal)) : Res Bool :=
  match kvs with
  | [] => .ok true
  | (key, val) :: r =>
      match index k src key with
      | none =>
          if F.commaOk then .ok false else do
          let c ← deepEqualSh F P v val (zeroElem v)
          if c then deepEqEntriesSh F P k v r src else .ok false
      | some s => do
          let c ← (if sharedElem v val s then .ok true else deepEqualSh F P v val s)
          if c then deepEqEntriesSh F P k v r src else .ok false
termination_by structural kvs
def deepEqFieldsSh (F : Facts) (P : Prog) (defs : List FieldDef) (as bs : List GoVal) : Res Bool :=
  match defs, as, bs with
  | [], [], [] => .ok true
  | f :: fs, a :: as, b :: bs => do
      let c ← (if isPtrField f then .ok (ptrBaseEq f.ty a b) else deepEqualSh F P f.ty a b)
      if c then deepEqFieldsSh F P fs as bs else .ok false
  | _, _, _ => .err
termination_by structural as
end

/-! ### validate_set inside Write -/

/-- inner loop `for j := i + 1; j < len; j++ { if eq(x, xs[j]) { return err } }` -/
def dupFrom (cmp : GoVal → GoVal → Res Bool) (x : GoVal) : List GoVal → Res Bool
  | [] => .ok false
  | y :: r => do
      let c ← cmp x y
      if c then .ok true else dupFrom cmp x r

/-- outer loop `for i := 0; i < len; i++`: true = "slice is not unique" -/
def dupCheck (cmp : GoVal → GoVal → Res Bool) : List GoVal → Res Bool
  | [] => .ok false
  | x :: r => do
      let c ← dupFrom cmp x r
      if c then .ok true else dupCheck cmp r

/-- the comparison FieldWriteSet emits for elements of type `e`: the closure around `FieldDeepEqual` with
gen_deep_equal, `reflect.DeepEqual` otherwise -/
def setCmp (F : Facts) (P : Prog) (de : Bool) (e : Ty) (x y : GoVal) : Res Bool :=
  if de then deepEqual F P e x y else .ok (goEq x y)

mutual
/-- generated Write (as `Gen.Std.toW`) with the set check of the unit's option set: `de` = gen_deep_equal -/
def toW (F : Facts) (P : Prog) (de : Bool) : Ty → GoVal → Res Wire.WVal
  | .list e, .nil => .ok (.list e.ttype [])
  | .list e, .list xs => do
      let ws ← toWList F P de e xs
      .ok (.list e.ttype ws)
  | .set e, .nil => .ok (.set e.ttype [])
  | .set e, .list xs =>
      if P.validateSet then
        (match dupCheck (setCmp F P de e) xs with
         | .ok false => do
             let ws ← toWList F P de e xs
             .ok (.set e.ttype ws)
         | .ok true => .err
         | .err => .err
         | .panic => .panic)
      else do
        let ws ← toWList F P de e xs
        .ok (.set e.ttype ws)
  | .map k v, .nil => .ok (.map k.ttype v.ttype [])
  | .map k v, .map kvs => do
      let ws ← toWPairs F P de k v kvs
      .ok (.map k.ttype v.ttype ws)
  | .struct i, .nil =>
      match P.struct? i with
      | some sd => if sd.kind = 1 then .panic else .ok (.struct [])
      | none => .err
  | .struct i, .strct fs =>
      match P.struct? i with
      | some sd =>
          if sd.kind = 1 && Std.countSet sd.fields fs != 1 then .err else do
          let ws ← toWFields F P de sd.fields fs
          .ok (.struct ws)
      | none => .err
  | ty, v => Res.ofOption (Std.scalarW ty v)
def toWList (F : Facts) (P : Prog) (de : Bool) (e : Ty) : List GoVal → Res (List Wire.WVal)
  | [] => .ok []
  | x :: r => do
      let w ← toW F P de e x
      let ws ← toWList F P de e r
      .ok (w :: ws)
def toWPairs (F : Facts) (P : Prog) (de : Bool) (k v : Ty) : List (GoVal × GoVal) → Res (List (Wire.WVal × Wire.WVal))
  | [] => .ok []
  | (a, b) :: r => do
      let wa ← toW F P de k a
      let wb ← toW F P de v b
      let ws ← toWPairs F P de k v r
      .ok ((wa, wb) :: ws)
def toWFields (F : Facts) (P : Prog) (de : Bool) : List FieldDef → List GoVal → Res (List (Nat × Wire.WVal))
  | [], [] => .ok []
  | f :: fs, v :: vs =>
      if f.req = .optional && !Std.isSet f v then toWFields F P de fs vs else do
      let w ← toW F P de f.ty v
      let ws ← toWFields F P de fs vs
      .ok ((pat 16 f.id, w) :: ws)
  | _, _ => .err
end

/-! ### Specification: structural equality of two Go objects of an IDL type

Written from the property's wording, not from the template: per field; lists and sets element-wise; maps
key-wise (same size, every key of the one is a key of the other, equal values under equal keys); nil and
empty containers (and byte strings) alike; an unset optional scalar or struct differs from every set one;
doubles by Go `==`. -/

/-- equality of two scalars of base type `ty` (non-nil slots; a nil []byte is the empty byte string) -/
def scalarEq (ty : Ty) (a b : GoVal) : Bool :=
  match ty, a, b with
  | .bool, .bool x, .bool y => x == y
  | .dbl, .dbl x, .dbl y => dblEq x y
  | .str, .bytes x, .bytes y => x == y
  | .bin, x, y => bytesOf x == bytesOf y
  | .dbl, _, _ => false
  | .str, _, _ => false
  | .bool, _, _ => false
  | _, .int x, .int y => x == y
  | _, _, _ => false

/-- an optional field slot whose presence is carried by nil / non-nil: optional without default, base or struct type -/
def presenceSlot (f : FieldDef) : Bool :=
  f.req == .optional && f.dflt.isNone && (f.ty.isBase || f.ty.isStruct)

mutual
def valEq (P : Prog) (ty : Ty) (a b : GoVal) : Bool :=
  match ty, a with
  | .struct _, .nil => isNilV b
  | .struct i, .strct fs =>
      match b with
      | .strct gs =>
          match P.struct? i with
          | some sd => valEqFields P sd.fields fs gs
          | none => false
      | _ => false
  | .list _, .nil => (elemsOf b).length == 0
  | .list e, .list xs => valEqList P e xs (elemsOf b)
  | .set _, .nil => (elemsOf b).length == 0
  | .set e, .list xs => valEqList P e xs (elemsOf b)
  | .map _ _, .nil => (entriesOf b).length == 0
  | .map k v, .map kvs =>
      kvs.length == (entriesOf b).length &&
      (if k.isStruct then
         -- struct keys are compared by content
         valEqSub P k v kvs (entriesOf b) && (entriesOf b).all (fun e' => valEqAny P k v kvs e')
       else
         valEqEntries P k v kvs (entriesOf b) && (entriesOf b).all (fun e' => (index k kvs e'.1).isSome))
  | ty, a => scalarEq ty a b
termination_by structural a
/-- element-wise, same length -/
def valEqList (P : Prog) (e : Ty) (xs ys : List GoVal) : Bool :=
  match xs, ys with
  | [], [] => true
  | x :: xs, y :: ys => valEq P e x y && valEqList P e xs ys
  | _, _ => false
termination_by structural xs
/-- key-wise for base-typed keys: every key of the left map is a key of the right one, with an equal value -/
def valEqEntries (P : Prog) (k v : Ty) (kvs other : List (GoVal × GoVal)) : Bool :=
  match kvs with
  | [] => true
  | (key, val) :: r =>
      (match index k other key with
       | some w => valEq P v val w
       | none => false) && valEqEntries P k v r other
termination_by structural kvs
/-- struct-typed keys: every entry of the left map has an entry with equal key and equal value on the right -/
def valEqSub (P : Prog) (k v : Ty) (kvs other : List (GoVal × GoVal)) : Bool :=
  match kvs with
  | [] => true
  | (key, val) :: r => other.any (fun e' => valEq P k key e'.1 && valEq P v val e'.2) && valEqSub P k v r other
termination_by structural kvs
/-- some entry of the left map equals `e'` -/
def valEqAny (P : Prog) (k v : Ty) (kvs : List (GoVal × GoVal)) (e' : GoVal × GoVal) : Bool :=
  match kvs with
  | [] => false
  | (key, val) :: r => (valEq P k key e'.1 && valEq P v val e'.2) || valEqAny P k v r e'
termination_by structural kvs
def valEqFields (P : Prog) (defs : List FieldDef) (as bs : List GoVal) : Bool :=
  match defs, as, bs with
  | [], [], [] => true
  | f :: fs, a :: as, b :: bs =>
      (if presenceSlot f && (isNilV a || isNilV b) then isNilV a && isNilV b
       else valEq P f.ty a b) && valEqFields P fs as bs
  | _, _, _ => false
termination_by structural as
end

end Gen.DeepEq
