import ThriftVerif.Gen.Rpc
import ThriftVerif.Gen.StdLemmas
/- helper lemmas about Gen.Rpc for Props/C08 -/
namespace Gen.Rpc
open Wire Gen Gen.Std

/-! ### envelope -/

theorem decMsg_encMsg (sr : Bool) (name : Bytes) (ty seq : Nat) (r : Bytes)
    (hn : name.length < maxSize) (ht : ty < 256) (hs : seq < 256 ^ 4) :
    decMsg sr (encMsg name ty seq ++ r) = some (name, ty, seq, r) := by
  have hp := pow_facts.2.2.1
  have h1 : version1 + ty < 256 ^ 4 := by simp only [version1]; omega
  have h2 : name.length < 256 ^ 4 := by simp only [maxSize] at hn; omega
  simp only [encMsg, List.append_assoc, decMsg]
  rw [readN_be 4 _ _ h1]
  have hge : version1 + ty ≥ 2147483648 := by simp only [version1]; omega
  have hver : ¬ ((version1 + ty) / 65536 * 65536 ≠ version1) := by simp only [version1]; omega
  have hty : (version1 + ty) % 256 = ty := by simp only [version1]; omega
  simp only [hge, if_true, hver, if_false]
  rw [readN_be 4 _ _ h2]
  have hnn : ¬ name.length ≥ maxSize := by omega
  simp only [hnn, if_false, readBytes_append]
  rw [readN_be 4 _ _ hs, hty]

/-! ### reading a struct from an arbitrary initial object -/

theorem readFrom_rt (P : Prog) (hP : SchemaOK P) (hv : P.validateSet = false) (i : Nat) (sd : StructDef)
    (fs init : List GoVal) (ws : List (Nat × WVal)) (r : Bytes)
    (hsd : P.structs[i]? = some sd) (hwt : WTFields P.structs sd.fields fs)
    (hw : toWFields P sd.fields fs = .ok ws)
    (hlen : init.length = sd.fields.length) (hun : Unset sd.fields init) :
    ∃ fs', readFrom P.structs i init (encFields ws ++ 0 :: r) = some (fs', r) ∧
      toWFields P sd.fields fs' = .ok ws ∧ fs'.length = sd.fields.length := by
  obtain ⟨hnd, hdo, _, _⟩ := hP i sd hsd
  let bs := encFields ws ++ 0 :: r
  have hdep : depthFields ws ≤ bs.length := by
    have := depthFields_le ws
    simp only [bs, List.length_append, List.length_cons]; omega
  have hih := rtFields P hP hv fs sd.fields bs.length
  have hgas : ws.length < bs.length + 1 := by
    have := encFields_length ws
    simp only [bs, List.length_append, List.length_cons]; omega
  obtain ⟨csuf', ssuf', hl1, _, hrun, htw, hrs⟩ :=
    loop_rt P (readTy P.structs bs.length) bs.length sd.fields fs ws hw hdep hih hwt hdo [] [] init []
      (sd.fields.map fun _ => false) (bs.length + 1) (0 :: r) (by simpa using hnd) rfl rfl hlen (by simp) hgas hun
  have hro := requiredOk_of_ReqSeen sd.fields ssuf' hrs
  obtain ⟨g, hg⟩ : ∃ g, bs.length + 1 - ws.length = g + 1 := ⟨bs.length - ws.length, by omega⟩
  refine ⟨csuf', ?_, htw, hl1⟩
  simp only [readFrom, hsd]
  simp only [List.nil_append] at hrun
  show readFieldsWith (readTy P.structs bs.length) sd.fields (bs.length + 1) bs init _ = _
  rw [hrun, hg]
  simp [readFieldsWith, hro]

/-! ### optional, default-free field lists (the `<fn>_result` structs) -/

def AllOpt (defs : List FieldDef) : Prop := ∀ f ∈ defs, f.req = .optional ∧ f.dflt = none

theorem isSet_nodflt (f : FieldDef) (v : GoVal) (h : f.dflt = none) : isSet f v = !goEq v .nil := by
  simp [isSet, h]

theorem unset_nil (f : FieldDef) (v : GoVal) (h : f.dflt = none) (hs : isSet f v = false) : v = .nil := by
  rw [isSet_nodflt f v h] at hs
  exact (goEq_nil_right v).mp (by simpa using hs)

theorem toWFields_ids (P : Prog) : ∀ (defs : List FieldDef) (vs : List GoVal) (ws : List (Nat × WVal)),
    toWFields P defs vs = .ok ws → ∀ p ∈ ws, ∃ f ∈ defs, idOf f = p.1
  | [], [], ws, h, p, hp => by simp [toWFields] at h; cases h; cases hp
  | [], _ :: _, ws, h, _, _ => by simp [toWFields] at h
  | _ :: _, [], ws, h, _, _ => by simp [toWFields] at h
  | f :: fs, v :: vs, ws, h, p, hp => by
    simp only [toWFields] at h
    split at h
    · obtain ⟨g, hg, e⟩ := toWFields_ids P fs vs ws h p hp
      exact ⟨g, by simp [hg], e⟩
    · simp only [Res.bind_eq_ok] at h
      obtain ⟨w, _, ws', h2, h3⟩ := h
      cases h3
      rcases List.mem_cons.mp hp with rfl | hp'
      · exact ⟨f, by simp, rfl⟩
      · obtain ⟨g, hg, e⟩ := toWFields_ids P fs vs ws' h2 p hp'
        exact ⟨g, by simp [hg], e⟩

/-- position-wise agreement of two objects of an all-optional struct -/
def PosRel (P : Prog) : List FieldDef → List GoVal → List GoVal → Prop
  | f :: fs, a :: as, b :: bs =>
      ((a = .nil ∧ b = .nil) ∨ (a ≠ .nil ∧ b ≠ .nil ∧ ∃ w, toW P f.ty a = .ok w ∧ toW P f.ty b = .ok w)) ∧ PosRel P fs as bs
  | [], [], [] => True
  | _, _, _ => False

/-- two objects of an all-optional, default-free struct with distinct ids that encode to the same fields
agree position by position (same fields set, same wire values) -/
theorem posRel_of_same_wire (P : Prog) : ∀ (defs : List FieldDef) (as bs : List GoVal) (ws : List (Nat × WVal)),
    AllOpt defs → (defs.map idOf).Nodup → toWFields P defs as = .ok ws → toWFields P defs bs = .ok ws →
    PosRel P defs as bs
  | [], [], [], _, _, _, _, _ => trivial
  | [], [], _ :: _, _, _, _, _, h => by simp [toWFields] at h
  | [], _ :: _, _, _, _, _, h, _ => by simp [toWFields] at h
  | _ :: _, [], _, _, _, _, h, _ => by simp [toWFields] at h
  | _ :: _, _ :: _, [], _, _, _, _, h => by simp [toWFields] at h
  | f :: fs, a :: as, b :: bs, ws, ho, hnd, ha, hb => by
    have hof := ho f (by simp)
    have hot : AllOpt fs := fun g hg => ho g (by simp [hg])
    simp only [List.map_cons, List.nodup_cons] at hnd
    simp only [toWFields, hof.1, decide_true, Bool.true_and] at ha hb
    simp only [PosRel]
    cases hsa : isSet f a <;> cases hsb : isSet f b
    · simp only [hsa, hsb, Bool.not_false, if_true] at ha hb
      exact ⟨Or.inl ⟨unset_nil f a hof.2 hsa, unset_nil f b hof.2 hsb⟩, posRel_of_same_wire P fs as bs ws hot hnd.2 ha hb⟩
    · -- a unset, b set: the id of f would have to come from the tail
      simp only [hsa, hsb, Bool.not_false, Bool.not_true, if_true, Bool.false_eq_true, if_false, Res.bind_eq_ok] at ha hb
      obtain ⟨w, _, ws', _, h3⟩ := hb
      cases h3
      obtain ⟨g, hg, e⟩ := toWFields_ids P fs as _ ha (idOf f, w) (by simp [idOf])
      exact absurd (List.mem_map.mpr ⟨g, hg, e⟩) hnd.1
    · simp only [hsa, hsb, Bool.not_false, Bool.not_true, if_true, Bool.false_eq_true, if_false, Res.bind_eq_ok] at ha hb
      obtain ⟨w, _, ws', _, h3⟩ := ha
      cases h3
      obtain ⟨g, hg, e⟩ := toWFields_ids P fs bs _ hb (idOf f, w) (by simp [idOf])
      exact absurd (List.mem_map.mpr ⟨g, hg, e⟩) hnd.1
    · simp only [hsa, hsb, Bool.not_true, Bool.false_eq_true, if_false, Res.bind_eq_ok] at ha hb
      obtain ⟨wa, ha1, wsa, ha2, ha3⟩ := ha
      obtain ⟨wb, hb1, wsb, hb2, hb3⟩ := hb
      cases ha3
      simp only [Res.ok.injEq, List.cons.injEq, Prod.mk.injEq, true_and] at hb3
      obtain ⟨hw, hws⟩ := hb3
      subst hw; subst hws
      have na : a ≠ .nil := by
        intro e; subst e; rw [isSet_nodflt f _ hof.2] at hsa; simp [goEq] at hsa
      have nb : b ≠ .nil := by
        intro e; subst e; rw [isSet_nodflt f _ hof.2] at hsb; simp [goEq] at hsb
      exact ⟨Or.inr ⟨na, nb, wb, ha1, hb1⟩, posRel_of_same_wire P fs as bs wsb hot hnd.2 ha2 hb2⟩

/-! ### `pick` respects position-wise agreement -/

/-- what the caller may observe instead of `v`: the same Go value, or one with the same encoding -/
def WireEq (P : Prog) (ty : Ty) (v v' : GoVal) : Prop :=
  v = v' ∨ ∃ w, toW P ty v = .ok w ∧ toW P ty v' = .ok w

def tyAt (defs : List FieldDef) (k : Nat) : Ty := ((defs.drop k).head?.map (·.ty)).getD (.struct 0)

inductive OutcomeRel (P : Prog) (succTy : Ty) (throws : List FieldDef) : Outcome → Outcome → Prop
  | ok (v v' : GoVal) : WireEq P succTy v v' → OutcomeRel P succTy throws (.ok v) (.ok v')
  | exc (i : Nat) (v v' : GoVal) : WireEq P (tyAt throws i) v v' → v' ≠ .nil → OutcomeRel P succTy throws (.exc i v) (.exc i v')
  | app (t : Int) (msg : Bytes) : OutcomeRel P succTy throws (.app t msg) (.app t msg)
  | err : OutcomeRel P succTy throws .err .err

theorem firstThrow_rel (P : Prog) : ∀ (defs : List FieldDef) (as bs : List GoVal) (k : Nat), PosRel P defs as bs →
    (firstThrow as k = none ∧ firstThrow bs k = none) ∨
    (∃ j v v', firstThrow as k = some (k + j, v) ∧ firstThrow bs k = some (k + j, v') ∧ v' ≠ .nil ∧
      ∃ w, toW P (tyAt defs j) v = .ok w ∧ toW P (tyAt defs j) v' = .ok w)
  | [], [], [], _, _ => Or.inl ⟨rfl, rfl⟩
  | [], [], _ :: _, _, h => by simp [PosRel] at h
  | [], _ :: _, _, _, h => by simp [PosRel] at h
  | _ :: _, [], _, _, h => by simp [PosRel] at h
  | _ :: _, _ :: _, [], _, h => by simp [PosRel] at h
  | f :: fs, a :: as, b :: bs, k, h => by
    simp only [PosRel] at h
    rcases h.1 with ⟨ha, hb⟩ | ⟨ha, hb, w, h1, h2⟩
    · subst ha; subst hb
      simp only [firstThrow]
      rcases firstThrow_rel P fs as bs (k + 1) h.2 with hn | ⟨j, v, v', e1, e2, hn, w, h1, h2⟩
      · exact Or.inl hn
      · refine Or.inr ⟨j + 1, v, v', ?_, ?_, hn, w, ?_, ?_⟩
        · rw [e1]; congr 2; omega
        · rw [e2]; congr 2; omega
        · simpa [tyAt] using h1
        · simpa [tyAt] using h2
    · refine Or.inr ⟨0, a, b, ?_, ?_, hb, w, by simpa [tyAt] using h1, by simpa [tyAt] using h2⟩
      · cases a <;> simp_all [firstThrow]
      · cases b <;> simp_all [firstThrow]

theorem firstThrow_nils (n k : Nat) : firstThrow (nils n) k = none := by
  induction n generalizing k with
  | zero => rfl
  | succ n ih => simp only [nils, List.replicate_succ, firstThrow]; exact ih (k + 1)

theorem firstThrow_set (n i k : Nat) (v : GoVal) (hi : i < n) (hv : v ≠ .nil) :
    firstThrow ((nils n).set i v) k = some (k + i, v) := by
  induction n generalizing i k with
  | zero => omega
  | succ n ih =>
    cases i with
    | zero => cases v <;> simp_all [nils, List.replicate_succ, firstThrow]
    | succ i =>
      simp only [nils, List.replicate_succ, List.set_cons_succ, firstThrow]
      have := ih i (k + 1) (by omega)
      simp only [nils] at this
      rw [this]; congr 2; omega

theorem set_nil_nils (n i : Nat) : (nils n).set i .nil = nils n := by
  induction n generalizing i with
  | zero => rfl
  | succ n ih => cases i <;> simp_all [nils, List.replicate_succ]

/-! ### application exceptions -/

theorem read_step_known (rd : Ty → Bytes → Option (GoVal × Bytes)) (defs : List FieldDef) (g id j c : Nat) (f : FieldDef)
    (rest r' : Bytes) (v : GoVal) (cur : List GoVal) (seen : List Bool)
    (hc : c ≠ 0) (hid : id < 256 ^ 2) (hf : findField defs id = some (j, f)) (hcode : f.ty.ttype.code = c)
    (hrd : rd f.ty rest = some (v, r')) :
    readFieldsWith rd defs (g + 1) (c :: (be 2 id ++ rest)) cur seen =
      readFieldsWith rd defs g r' (cur.set j v) (seen.set j true) := by
  simp [readFieldsWith, hc, readN_be 2 id rest hid, hf, hcode, hrd]

theorem appFields_read (n g : Nat) (msg : Bytes) (ty : Nat) (r : Bytes) (c0 c1 : GoVal) (s0 s1 : Bool)
    (hm : msg.length < maxSize) (ht : ty < 2147483648) :
    readFieldsWith (readTy [] (n + 1)) appExcDef.fields (g + 3)
      (11 :: (be 2 1 ++ (be 4 msg.length ++ (msg ++ (8 :: (be 2 2 ++ (be 4 ty ++ (0 :: r)))))))) [c0, c1] [s0, s1] =
      some ([.bytes msg, .int ty], r) := by
  have hp := pow_facts.2.2.1
  have hml : msg.length < 256 ^ 4 := by simp only [maxSize] at hm; omega
  have hnn : ¬ msg.length ≥ maxSize := by omega
  have hty : ty < 256 ^ 4 := by omega
  have hun : unpat 32 ty = (ty : Int) := by
    have : (2:Nat) ^ (32 - 1) = 2147483648 := by decide
    simp only [unpat, this]
    split
    · omega
    · rfl
  have f1 : findField appExcDef.fields 1 = some (0, { id := 1, req := .default, ty := .str, dflt := none }) := by
    simp [findField, findField.go, appExcDef, pat]
  have f2 : findField appExcDef.fields 2 = some (1, { id := 2, req := .default, ty := .i32, dflt := none }) := by
    simp [findField, findField.go, appExcDef, pat]
  rw [read_step_known _ _ (g + 2) 1 0 11 _ _ (8 :: (be 2 2 ++ (be 4 ty ++ (0 :: r)))) (.bytes msg) _ _ (by decide) (by decide) f1 rfl
    (by simp [readTy, readScalar, readN_be 4 _ _ hml, hnn, readBytes_append])]
  rw [read_step_known _ _ (g + 1) 2 1 8 _ _ (0 :: r) (.int ty) _ _ (by decide) (by decide) f2 rfl
    (by simp [readTy, readScalar, readN_be 4 _ _ hty, hun])]
  simp [readFieldsWith, requiredOk, appExcDef]

theorem readAppExc_enc (msg : Bytes) (ty : Nat) (r : Bytes) (hz : msg.length > 0) (hm : msg.length < maxSize)
    (ht : ty < 2147483648) :
    readAppExc (encW (appExcW msg ty) ++ r) = some ((msg, (ty : Int)), r) := by
  have e : encW (appExcW msg ty) ++ r =
      11 :: (be 2 1 ++ (be 4 msg.length ++ (msg ++ (8 :: (be 2 2 ++ (be 4 ty ++ (0 :: r))))))) := by
    simp [appExcW, hz, encW, encFields, WVal.ttype, TType.code]
  rw [e]
  generalize hbs : (11 :: (be 2 1 ++ (be 4 msg.length ++ (msg ++ (8 :: (be 2 2 ++ (be 4 ty ++ (0 :: r)))))))) = bs
  obtain ⟨n, hn⟩ : ∃ n, bs.length = n + 3 := by
    refine ⟨bs.length - 3, ?_⟩
    rw [← hbs]; simp [be_length]; omega
  simp only [readAppExc, hn]
  rw [← hbs, show n + 3 + 1 = (n + 1) + 3 from rfl, show n + 3 = (n + 2) + 1 from rfl]
  rw [appFields_read (n + 2) (n + 1) msg ty r _ _ _ _ hm ht]

/-! ### well-formed service tables -/

structure MethodOK (P : Prog) (m : Method) : Prop where
  name : m.name.length < maxSize
  args : ∃ sd, P.structs[m.args]? = some sd ∧ sd.kind = 0 ∧ ∀ f ∈ sd.fields, f.req ≠ .optional
  result : m.oneway = false → ∃ sd, P.structs[m.result]? = some sd ∧ sd.kind = 0 ∧
    sd.fields.length = (if m.void then 0 else 1) + m.nthrows ∧ AllOpt sd.fields ∧
    (m.void = false → sd.fields.head?.map (·.id) = some 0)
  oneway : m.oneway = true → m.void = true ∧ m.nthrows = 0

theorem methodOkB_sound (P : Prog) (m : Method) (h : methodOkB P m = true) : MethodOK P m := by
  simp only [methodOkB, Bool.and_eq_true, decide_eq_true_eq] at h
  obtain ⟨⟨h1, h2⟩, h3⟩ := h
  refine ⟨h1, ?_, ?_, ?_⟩
  · simp only [Prog.struct?] at h2
    cases hs : P.structs[m.args]? with
    | none => simp [hs] at h2
    | some sd =>
      simp only [hs, argsOkB, Bool.and_eq_true, beq_iff_eq, List.all_eq_true, bne_iff_ne, ne_eq] at h2
      exact ⟨sd, rfl, h2.1, h2.2⟩
  · intro ho
    simp only [ho, Bool.false_eq_true, if_false, Prog.struct?] at h3
    cases hs : P.structs[m.result]? with
    | none => simp [hs] at h3
    | some sd =>
      simp only [hs, resultOkB, Bool.and_eq_true, beq_iff_eq, List.all_eq_true, Bool.or_eq_true, Option.isNone_iff_eq_none] at h3
      obtain ⟨⟨⟨k, l⟩, o⟩, z⟩ := h3
      refine ⟨sd, rfl, k, l, fun f hf => o f hf, ?_⟩
      intro hv
      rcases z with z | z
      · simp [hv] at z
      · exact z
  · intro ho
    simp only [ho, if_true, Bool.and_eq_true, beq_iff_eq] at h3
    exact h3

/-! ### the pieces of one call -/

theorem write_struct (P : Prog) (i : Nat) (sd : StructDef) (fs : List GoVal) (ws : List (Nat × WVal))
    (hsd : P.structs[i]? = some sd) (hk : sd.kind = 0) (hw : toWFields P sd.fields fs = .ok ws) :
    write P i (.strct fs) = .ok (encFields ws ++ [0]) := by
  simp [write, toW, Prog.struct?, hsd, hk, hw, bind, encW]

theorem process_known (P : Prog) (svc : Service) (h : Handler) (m : Method) (ty seq : Nat) (body : Bytes)
    (hn : m.name.length < maxSize) (ht : ty < 256) (hs : seq < 256 ^ 4)
    (hd : mapGet m.name svc.procMap = some m) :
    process P svc h (encMsg m.name ty seq ++ body) = processFn P m h seq body := by
  simp [process, decMsg_encMsg false m.name ty seq body hn ht hs, hd]

theorem unset_nonopt : ∀ (defs : List FieldDef) (init : List GoVal), (∀ f ∈ defs, f.req ≠ .optional) → Unset defs init
  | [], _, _ => by simp [Unset]
  | _ :: _, [], _ => by simp [Unset]
  | f :: fs, c :: cs, h => by
    simp only [Unset]
    exact ⟨fun e => absurd e (h f (by simp)), unset_nonopt fs cs (fun g hg => h g (by simp [hg]))⟩

theorem unset_allopt_zero : ∀ (defs : List FieldDef), AllOpt defs → Unset defs (defs.map goZero)
  | [], _ => by simp [Unset]
  | f :: fs, h => by
    have hf := h f (by simp)
    simp only [List.map_cons, Unset]
    refine ⟨fun _ => ?_, unset_allopt_zero fs (fun g hg => h g (by simp [hg]))⟩
    have : goZero f = .nil := by
      simp only [goZero, hf.2, Option.isSome_none, Bool.false_and, Bool.false_eq_true, if_false, hf.1]
      cases f.ty <;> simp [zeroOf]
    rw [this, isSet_nodflt f _ hf.2]; simp [goEq]

theorem schemaOK_noVal (P : Prog) (hP : SchemaOK P) : SchemaOK (noVal P) := fun i sd h => hP i sd h

/-- `x := T{}; x.Read` of what `Write` produced for a well-typed object of a struct whose zero object has no
optional field set: succeeds, consumes exactly the struct, and the object read encodes to the same fields -/
theorem readZero_rt (P : Prog) (hP : SchemaOK P) (i : Nat) (sd : StructDef) (fs : List GoVal) (ws : List (Nat × WVal))
    (r : Bytes) (hsd : P.structs[i]? = some sd) (hwt : WTFields P.structs sd.fields fs)
    (hw : toWFields P sd.fields fs = .ok ws) (hun : Unset sd.fields (zeroVals sd)) :
    ∃ fs', readZero P.structs i (encFields ws ++ 0 :: r) = some (fs', r) ∧
      toWFields (noVal P) sd.fields fs' = .ok ws ∧ fs'.length = sd.fields.length := by
  have hw' := toWFields_noVal P fs sd.fields ws hw
  obtain ⟨fs', h1, h2, h3⟩ := readFrom_rt (noVal P) (schemaOK_noVal P hP) rfl i sd fs (zeroVals sd) ws r hsd hwt hw'
    (by simp [zeroVals]) hun
  refine ⟨fs', ?_, h2, h3⟩
  simp only [readZero, hsd]
  exact h1

/-- the answer of the handler is something the processor can send: a well-typed, writable `<fn>_result`
object, or an error text that fits a string -/
def AnswerOK (P : Prog) (m : Method) (ans : Answer) : Prop :=
  ∀ rd, P.structs[m.result]? = some rd →
    match resultOf m ans with
    | .ok robj => WTFields P.structs rd.fields robj ∧ ∃ ws, toWFields P rd.fields robj = .ok ws
    | .error msg => (asc "Internal error processing " ++ m.name ++ asc ": " ++ msg).length < maxSize

theorem nextSeq_lt (s : Nat) : nextSeq s < 256 ^ 4 := by
  have := pow_facts.2.2.1
  simp only [nextSeq]; omega

theorem pick_resultOf (ty : Option Ty) (m : Method) (ans : Answer) (robj : List GoVal) (ho : m.oneway = false)
    (h : resultOf m ans = .ok robj) : pick ty m robj = outcomeOf m ty ans := by
  cases ans with
  | ok v =>
    simp only [resultOf, Except.ok.injEq] at h
    subst h
    cases hv : m.void <;> simp [pick, hv, firstThrow_nils, outcomeOf, ho]
  | exc i v =>
    simp only [resultOf] at h
    split at h
    · rename_i hi
      simp only [Except.ok.injEq] at h
      subst h
      by_cases hn : v = .nil
      · subst hn
        cases hv : m.void <;> simp [pick, hv, set_nil_nils, firstThrow_nils, outcomeOf, ho, hi]
      · have hf := firstThrow_set m.nthrows i 0 v hi hn
        cases hv : m.void <;> cases v <;> simp_all [pick, outcomeOf]
    · cases h
  | err msg => simp [resultOf] at h

def throwDefs (P : Prog) (m : Method) : List FieldDef :=
  match P.struct? m.result with
  | some rd => rd.fields.drop (if m.void then 0 else 1)
  | none => []

def succTyD (P : Prog) (m : Method) : Ty := (successTy P m).getD .bool

theorem WireEq.refl (P : Prog) (ty : Ty) (v : GoVal) : WireEq P ty v v := Or.inl rfl

theorem pick_rel (P : Prog) (m : Method) (rd : StructDef) (hrd : P.structs[m.result]? = some rd)
    (as bs : List GoVal) (hl : rd.fields.length = (if m.void then 0 else 1) + m.nthrows)
    (hr : PosRel P rd.fields as bs) :
    OutcomeRel P (succTyD P m) (throwDefs P m) (pick (successTy P m) m as) (pick (successTy P m) m bs) := by
  have htd : throwDefs P m = rd.fields.drop (if m.void then 0 else 1) := by simp [throwDefs, Prog.struct?, hrd]
  cases hv : m.void
  · -- a value is returned: rd.fields = success :: throws
    simp only [hv, Bool.false_eq_true, if_false] at hl htd
    match hf : rd.fields, as, bs, hr with
    | [], _, _, _ => simp [hf] at hl; omega
    | sf :: tf, [], _, hr => simp [PosRel] at hr
    | sf :: tf, _ :: _, [], hr => simp [PosRel] at hr
    | sf :: tf, a0 :: as', b0 :: bs', hr =>
      simp only [PosRel] at hr
      have hst : successTy P m = some sf.ty := by simp [successTy, Prog.struct?, hrd, hf]
      have hsd : succTyD P m = sf.ty := by simp [succTyD, hst]
      have htd' : throwDefs P m = tf := by rw [htd, hf]; rfl
      simp only [pick, hv, Bool.false_eq_true, if_false, List.drop_succ_cons, List.drop_zero, List.head?_cons, hst]
      rcases firstThrow_rel P tf as' bs' 0 hr.2 with ⟨e1, e2⟩ | ⟨j, v, v', e1, e2, hn, w, h1, h2⟩
      · rw [e1, e2]
        rcases hr.1 with ⟨ha, hb⟩ | ⟨ha, hb, w, h1, h2⟩
        · subst ha; subst hb
          exact OutcomeRel.ok _ _ (WireEq.refl _ _ _)
        · have ea : succOr (some sf.ty) a0 = a0 := by cases a0 <;> simp_all [succOr]
          have eb : succOr (some sf.ty) b0 = b0 := by cases b0 <;> simp_all [succOr]
          dsimp only
          rw [ea, eb, hsd]
          exact OutcomeRel.ok _ _ (Or.inr ⟨w, h1, h2⟩)
      · rw [e1, e2]
        simp only [Nat.zero_add]
        rw [htd']
        exact OutcomeRel.exc j v v' (Or.inr ⟨w, h1, h2⟩) hn
  · simp only [hv, if_true, List.drop_zero] at htd
    simp only [pick, hv, if_true]
    rcases firstThrow_rel P rd.fields as bs 0 hr with ⟨e1, e2⟩ | ⟨j, v, v', e1, e2, hn, w, h1, h2⟩
    · rw [e1, e2]; exact OutcomeRel.ok _ _ (WireEq.refl _ _ _)
    · rw [e1, e2]
      simp only [Nat.zero_add]
      rw [htd]
      exact OutcomeRel.exc j v v' (Or.inr ⟨w, h1, h2⟩) hn

theorem outcomeOf_error (ty : Option Ty) (m : Method) (ans : Answer) (msg : Bytes) (ho : m.oneway = false)
    (h : resultOf m ans = .error msg) :
    outcomeOf m ty ans = .app INTERNAL_ERROR (asc "Internal error processing " ++ m.name ++ asc ": " ++ msg) := by
  cases ans with
  | ok v => simp [resultOf] at h
  | exc i v =>
    simp only [resultOf] at h
    split at h
    · cases h
    · rename_i hi
      cases h
      simp [outcomeOf, ho, hi]
  | err e =>
    simp only [resultOf, Except.error.injEq] at h
    subst h
    simp [outcomeOf, ho]

theorem asc_len_pos (msg name : Bytes) : (asc "Internal error processing " ++ name ++ asc ": " ++ msg).length > 0 := by
  simp [asc]

/-- **one call on a fresh connection**, all pieces: what is sent, what the handler sees, what comes back -/
theorem call_main (P : Prog) (hP : SchemaOK P) (svc : Service) (m : Method) (h : Handler) (a : List GoVal) (seq : Nat)
    (hm : MethodOK P m) (hd : mapGet m.name svc.procMap = some m)
    (ad : StructDef) (hsd : P.structs[m.args]? = some ad)
    (hwt : WTFields P.structs ad.fields a) (ws : List (Nat × WVal)) (hw : toWFields P ad.fields a = .ok ws)
    (hans : ∀ a', m.oneway = false → AnswerOK P m (h m a')) :
    ∃ a', toWFields (noVal P) ad.fields a' = .ok ws ∧
      ∃ obs, call P svc m h a (Conn.fresh seq) = (Conn.fresh (nextSeq seq), obs) ∧
        obs.req = some (encMsg m.name tCALL (nextSeq seq) ++ (encFields ws ++ [0])) ∧
        (∃ po, obs.proc = some po ∧ po.log = [(m.name, a')] ∧ po.rest = some [] ∧ (m.oneway = true → po.reply = [])) ∧
        OutcomeRel (noVal P) (succTyD P m) (throwDefs P m) (outcomeOf m (successTy P m) (h m a')) obs.outcome := by
  obtain ⟨sd, hs, hk, hno⟩ := hm.args
  rw [hsd] at hs; cases hs
  have hsend : clientSend P seq m a = (nextSeq seq, .ok (encMsg m.name tCALL (nextSeq seq) ++ (encFields ws ++ [0]))) := by
    simp [clientSend, write_struct P m.args ad a ws hsd hk hw, bind, pure]
  obtain ⟨a', hread, hwa, _⟩ := readZero_rt P hP m.args ad a ws [] hsd hwt hw
    (unset_nonopt ad.fields _ hno)
  refine ⟨a', hwa, ?_⟩
  have hproc : process P svc h ([] ++ (encMsg m.name tCALL (nextSeq seq) ++ (encFields ws ++ [0]))) =
      processFn P m h (nextSeq seq) (encFields ws ++ [0]) := by
    rw [List.nil_append]
    exact process_known P svc h m tCALL (nextSeq seq) _ hm.name (by decide) (nextSeq_lt seq) hd
  simp only [call, hsend, Conn.fresh, hproc]
  simp only [processFn, hread]
  cases ho : m.oneway
  · -- a reply is expected
    obtain ⟨rd, hrd, hrk, hrl, hro, _⟩ := hm.result ho
    have hA := hans a' ho rd hrd
    simp only [Bool.false_eq_true, if_false]
    cases hres : resultOf m (h m a') with
    | error msg =>
      simp only [hres] at hA
      have hrecv : clientRecv P (nextSeq seq) m ([] ++ excReply m.name (nextSeq seq)
            (asc "Internal error processing " ++ m.name ++ asc ": " ++ msg) INTERNAL_ERROR) =
          (.app INTERNAL_ERROR (asc "Internal error processing " ++ m.name ++ asc ": " ++ msg), some []) := by
        have hne : (asc "Internal error processing " ++ m.name ++ asc ": " ++ msg) ≠ [] := by
          intro e; have := asc_len_pos msg m.name; rw [e] at this; simp at this
        simp only [List.nil_append, clientRecv, excReply,
          decMsg_encMsg false m.name tEXCEPTION (nextSeq seq) _ hm.name (by decide) (nextSeq_lt seq)]
        simp only [ne_eq, not_true_eq_false, if_false, if_true]
        rw [← List.append_nil (encW _), readAppExc_enc _ INTERNAL_ERROR [] (asc_len_pos msg m.name) hA (by decide)]
        dsimp only
        rw [if_neg hne]
      simp only [hrecv]
      refine ⟨_, rfl, rfl, ⟨_, rfl, rfl, rfl, fun e => by simp at e⟩, ?_⟩
      rw [outcomeOf_error _ m _ msg ho hres]
      exact OutcomeRel.app _ _
    | ok robj =>
      simp only [hres] at hA
      obtain ⟨hwtr, wr, hwr⟩ := hA
      simp only [write_struct P m.result rd robj wr hrd hrk hwr]
      obtain ⟨fs', hread2, hwf, _⟩ := readZero_rt P hP m.result rd robj wr [] hrd hwtr hwr
        (by simpa [zeroVals] using unset_allopt_zero rd.fields hro)
      have hrecv : clientRecv P (nextSeq seq) m ([] ++ (encMsg m.name tREPLY (nextSeq seq) ++ (encFields wr ++ [0]))) =
          (pick (successTy P m) m fs', some []) := by
        simp only [List.nil_append, clientRecv,
          decMsg_encMsg false m.name tREPLY (nextSeq seq) _ hm.name (by decide) (nextSeq_lt seq)]
        simp only [ne_eq, not_true_eq_false, if_false, hread2]
        simp [tREPLY, tEXCEPTION]
      simp only [hrecv]
      refine ⟨_, rfl, rfl, ⟨_, rfl, rfl, rfl, fun e => by simp at e⟩, ?_⟩
      have hnd := (hP m.result rd hrd).1
      have hpr := posRel_of_same_wire (noVal P) rd.fields robj fs' wr hro hnd (toWFields_noVal P robj rd.fields wr hwr) hwf
      rw [← pick_resultOf (successTy P m) m (h m a') robj ho hres]
      exact pick_rel (noVal P) m rd hrd robj fs' hrl hpr
  · -- oneway: nothing comes back
    simp only [if_true, List.append_nil]
    refine ⟨_, rfl, rfl, ⟨_, rfl, rfl, rfl, fun _ => rfl⟩, ?_⟩
    simp only [outcomeOf, ho]
    cases h m a' <;> simp <;> exact OutcomeRel.ok _ _ (WireEq.refl _ _ _)


/-! ### dispatch: the processor map of an `extends` chain -/

theorem mapGet_mapSet_same (k : Bytes) (v : Method) : ∀ mp, mapGet k (mapSet k v mp) = some v
  | [] => by simp [mapSet, mapGet]
  | (k', v') :: r => by
    by_cases h : k' = k
    · simp [mapSet, mapGet, h]
    · simp [mapSet, mapGet, h, mapGet_mapSet_same k v r]

theorem mapGet_mapSet_other (k k2 : Bytes) (v : Method) (hne : k2 ≠ k) : ∀ mp, mapGet k2 (mapSet k v mp) = mapGet k2 mp
  | [] => by simp [mapSet, mapGet, Ne.symm hne]
  | (k', v') :: r => by
    by_cases h : k' = k
    · subst h; simp [mapSet, mapGet, Ne.symm hne]
    · by_cases h2 : k' = k2
      · subst h2; simp [mapSet, mapGet, hne]
      · simp [mapSet, mapGet, h, h2, mapGet_mapSet_other k k2 v hne r]

theorem mapGet_addAll_notin (k : Bytes) : ∀ (ms : List Method) (mp : List (Bytes × Method)),
    k ∉ ms.map (·.name) → mapGet k (addAll ms mp) = mapGet k mp
  | [], mp, _ => rfl
  | m :: ms, mp, h => by
    simp only [List.map_cons, List.mem_cons, not_or] at h
    have := mapGet_addAll_notin k ms (mapSet m.name m mp) h.2
    simp only [addAll, List.foldl_cons] at this ⊢
    rw [this, mapGet_mapSet_other m.name k m h.1]

theorem mapGet_addAll_mem (m : Method) : ∀ (ms : List Method) (mp : List (Bytes × Method)),
    m ∈ ms → (ms.map (·.name)).Nodup → mapGet m.name (addAll ms mp) = some m
  | [], _, h, _ => by cases h
  | x :: ms, mp, h, hnd => by
    simp only [List.map_cons, List.nodup_cons] at hnd
    rcases List.mem_cons.mp h with rfl | hm
    · have := mapGet_addAll_notin m.name ms (mapSet m.name m mp) hnd.1
      simp only [addAll, List.foldl_cons] at this ⊢
      rw [this, mapGet_mapSet_same]
    · have := mapGet_addAll_mem m ms (mapSet x.name x mp) hm hnd.2
      simpa [addAll] using this

/-- no method name occurs twice along the `extends` chain -/
def Service.NoShadow (svc : Service) : Prop := (svc.methods.map (·.name)).Nodup

theorem dispatch_mem : ∀ (svc : Service), svc.NoShadow → ∀ m ∈ svc.methods, mapGet m.name svc.procMap = some m
  | .root ms, hn, m, hm => mapGet_addAll_mem m ms [] hm hn
  | .ext ms b, hn, m, hm => by
    simp only [Service.NoShadow, Service.methods, List.map_append, List.nodup_append] at hn
    simp only [Service.methods, List.mem_append] at hm
    simp only [Service.procMap]
    rcases hm with hm | hm
    · exact mapGet_addAll_mem m ms _ hm hn.1
    · have hni : m.name ∉ ms.map (·.name) := by
        intro hin
        exact hn.2.2 m.name hin m.name (List.mem_map.mpr ⟨m, hm, rfl⟩) rfl
      rw [mapGet_addAll_notin m.name ms _ hni]
      exact dispatch_mem b hn.2.1 m hm

theorem dispatch_unknown : ∀ (svc : Service) (name : Bytes), name ∉ svc.methods.map (·.name) → mapGet name svc.procMap = none
  | .root ms, name, h => by
    simp only [Service.methods] at h
    simp only [Service.procMap]
    rw [mapGet_addAll_notin name ms [] h]; rfl
  | .ext ms b, name, h => by
    simp only [Service.methods, List.map_append, List.mem_append, not_or] at h
    simp only [Service.procMap]
    rw [mapGet_addAll_notin name ms _ h.1]
    exact dispatch_unknown b name h.2

/-! ### shape of the `<fn>_result` fields on the wire -/

theorem toWFields_nils (P : Prog) : ∀ (defs : List FieldDef), AllOpt defs → toWFields P defs (nils defs.length) = .ok []
  | [], _ => rfl
  | f :: fs, h => by
    have hf := h f (by simp)
    simp only [List.length_cons, nils, List.replicate_succ, toWFields, hf.1, decide_true, Bool.true_and,
      isSet_nodflt f _ hf.2, goEq, Bool.not_true, Bool.not_false, if_true]
    exact toWFields_nils P fs (fun g hg => h g (by simp [hg]))

theorem isSet_of_ne_nil (f : FieldDef) (v : GoVal) (h : f.dflt = none) (hv : v ≠ .nil) : isSet f v = true := by
  rw [isSet_nodflt f v h]
  cases hg : goEq v .nil
  · rfl
  · exact absurd ((goEq_nil_right v).mp hg) hv

/-- exactly the i-th field set: exactly that field is written, under its own id -/
theorem toWFields_single (P : Prog) : ∀ (defs : List FieldDef) (i : Nat) (v : GoVal) (wr : List (Nat × WVal)),
    AllOpt defs → i < defs.length → v ≠ .nil → toWFields P defs ((nils defs.length).set i v) = .ok wr →
    ∃ f w, (defs.drop i).head? = some f ∧ toW P f.ty v = .ok w ∧ wr = [(idOf f, w)]
  | [], i, _, _, _, hi, _, _ => by simp at hi
  | f :: fs, 0, v, wr, h, _, hv, hw => by
    have hf := h f (by simp)
    simp only [List.length_cons, nils, List.replicate_succ, List.set_cons_zero, toWFields, hf.1, decide_true,
      Bool.true_and, isSet_of_ne_nil f v hf.2 hv, Bool.not_true, Bool.false_eq_true, if_false, Res.bind_eq_ok] at hw
    obtain ⟨w, h1, ws', h2, h3⟩ := hw
    have := toWFields_nils P fs (fun g hg => h g (by simp [hg]))
    simp only [nils] at this
    rw [this] at h2
    cases h2; cases h3
    exact ⟨f, w, rfl, h1, rfl⟩
  | f :: fs, i + 1, v, wr, h, hi, hv, hw => by
    have hf := h f (by simp)
    simp only [List.length_cons, nils, List.replicate_succ, List.set_cons_succ, toWFields, hf.1, decide_true,
      Bool.true_and, isSet_nodflt f _ hf.2, goEq, Bool.not_true, Bool.not_false, if_true] at hw
    have := toWFields_single P fs i v wr (fun g hg => h g (by simp [hg])) (by simpa using hi) hv (by simpa [nils] using hw)
    simpa using this

theorem toWFields_nonopt_ids (P : Prog) : ∀ (defs : List FieldDef) (vs : List GoVal) (ws : List (Nat × WVal)),
    (∀ f ∈ defs, f.req ≠ .optional) → toWFields P defs vs = .ok ws → ws.map (·.1) = defs.map idOf
  | [], [], ws, _, h => by simp [toWFields] at h; cases h; rfl
  | [], _ :: _, _, _, h => by simp [toWFields] at h
  | _ :: _, [], _, _, h => by simp [toWFields] at h
  | f :: fs, v :: vs, ws, hno, h => by
    have hf := hno f (by simp)
    have : (f.req = .optional && !isSet f v) = false := by simp [hf]
    simp only [toWFields, this, Bool.false_eq_true, if_false, Res.bind_eq_ok] at h
    obtain ⟨w, _, ws', h2, h3⟩ := h
    cases h3
    simp [idOf, toWFields_nonopt_ids P fs vs ws' (fun g hg => hno g (by simp [hg])) h2]

/-- what `<svc>Processor<Fn>.Process` writes back, by handler answer -/
theorem processFn_reply (P : Prog) (m : Method) (h : Handler) (seq : Nat) (bs rest : Bytes) (a' : List GoVal)
    (hread : readZero P.structs m.args bs = some (a', rest)) :
    (m.oneway = true → (processFn P m h seq bs).reply = []) ∧
    (m.oneway = false → ∀ msg, resultOf m (h m a') = .error msg →
      (processFn P m h seq bs).reply =
        excReply m.name seq (asc "Internal error processing " ++ m.name ++ asc ": " ++ msg) INTERNAL_ERROR) ∧
    (m.oneway = false → ∀ robj rd wr, resultOf m (h m a') = .ok robj → P.structs[m.result]? = some rd → rd.kind = 0 →
      toWFields P rd.fields robj = .ok wr →
      (processFn P m h seq bs).reply = encMsg m.name tREPLY seq ++ encW (.struct wr)) := by
  refine ⟨fun ho => ?_, fun ho msg hr => ?_, fun ho robj rd wr hr hrd hk hw => ?_⟩
  · simp [processFn, hread, ho]
  · simp [processFn, hread, ho, hr]
  · simp [processFn, hread, ho, hr, write_struct P m.result rd robj wr hrd hk hw, encW]

/-! ### sequences of calls on one connection -/

def seqAfter : Nat → Nat → Nat
  | 0, s => s
  | n + 1, s => seqAfter n (nextSeq s)

/-- the hypotheses of `call_main` for one call of a history -/
structure CallOK (P : Prog) (svc : Service) (s : CallSpec) : Prop where
  method : MethodOK P s.m
  dispatch : mapGet s.m.name svc.procMap = some s.m
  wt : ∃ ad, P.structs[s.m.args]? = some ad ∧ WTFields P.structs ad.fields s.a ∧ ∃ ws, toWFields P ad.fields s.a = .ok ws
  answers : ∀ a', s.m.oneway = false → AnswerOK P s.m (s.h s.m a')

def obsAlone (P : Prog) (svc : Service) (seq : Nat) : List CallSpec → List CallObs
  | [] => []
  | s :: r => (call P svc s.m s.h s.a (Conn.fresh seq)).2 :: obsAlone P svc (nextSeq seq) r

theorem runCalls_fresh (P : Prog) (hP : SchemaOK P) (svc : Service) : ∀ (specs : List CallSpec) (seq : Nat),
    (∀ s ∈ specs, CallOK P svc s) →
    runCalls P svc specs (Conn.fresh seq) = (Conn.fresh (seqAfter specs.length seq), obsAlone P svc seq specs)
  | [], _, _ => rfl
  | s :: r, seq, h => by
    have hs := h s (by simp)
    obtain ⟨ad, hsd, hwt, ws, hw⟩ := hs.wt
    obtain ⟨_, _, obs, hc, _⟩ := call_main P hP svc s.m s.h s.a seq hs.method hs.dispatch ad hsd hwt ws hw hs.answers
    have ih := runCalls_fresh P hP svc r (nextSeq seq) (fun x hx => h x (by simp [hx]))
    simp only [runCalls, hc, ih, obsAlone, List.length_cons, seqAfter]


/-! ### sufficient conditions for `AnswerOK` in terms of the handler's value -/

def IdsOK (defs : List FieldDef) : Prop := ∀ f ∈ defs, -32768 ≤ f.id ∧ f.id < 32768

theorem isSet_nil (f : FieldDef) (h : f.dflt = none) : isSet f .nil = false := by
  rw [isSet_nodflt f _ h]; simp [goEq]

theorem wt_head_nil (S : List StructDef) (f : FieldDef) (fs : List FieldDef) (vs : List GoVal)
    (hf : f.req = .optional ∧ f.dflt = none) (hid : -32768 ≤ f.id ∧ f.id < 32768) (rest : WTFields S fs vs) :
    WTFields S (f :: fs) (.nil :: vs) := by
  unfold WTFields
  exact ⟨fun _ => Or.inl ⟨rfl, isSet_nil f hf.2⟩, fun hn => absurd hf.1 hn, hid, rest⟩

theorem wt_head_val (S : List StructDef) (f : FieldDef) (fs : List FieldDef) (v : GoVal) (vs : List GoVal)
    (hf : f.req = .optional ∧ f.dflt = none) (hid : -32768 ≤ f.id ∧ f.id < 32768) (hwt : WT S f.ty v)
    (rest : WTFields S fs vs) : WTFields S (f :: fs) (v :: vs) := by
  unfold WTFields
  exact ⟨fun _ => Or.inr hwt, fun hn => absurd hf.1 hn, hid, rest⟩

theorem tw_head_nil (P : Prog) (f : FieldDef) (fs : List FieldDef) (vs : List GoVal)
    (hf : f.req = .optional ∧ f.dflt = none) : toWFields P (f :: fs) (.nil :: vs) = toWFields P fs vs := by
  simp [toWFields, hf.1, isSet_nil f hf.2]

theorem tw_head_val (P : Prog) (f : FieldDef) (fs : List FieldDef) (v : GoVal) (vs : List GoVal) (w : WVal)
    (ws : List (Nat × WVal)) (hw : toW P f.ty v = .ok w) (h : toWFields P fs vs = .ok ws) :
    ∃ ws', toWFields P (f :: fs) (v :: vs) = .ok ws' := by
  simp only [toWFields]
  split
  · exact ⟨ws, h⟩
  · exact ⟨(pat 16 f.id, w) :: ws, by simp [hw, h, bind]⟩

theorem wtFields_nils (S : List StructDef) : ∀ (defs : List FieldDef), AllOpt defs → IdsOK defs →
    WTFields S defs (nils defs.length)
  | [], _, _ => by simp [nils, WTFields]
  | f :: fs, h, hi => by
    simp only [List.length_cons, nils, List.replicate_succ]
    exact wt_head_nil S f fs _ (h f (by simp)) (hi f (by simp))
      (wtFields_nils S fs (fun g hg => h g (by simp [hg])) (fun g hg => hi g (by simp [hg])))

/-- one field (the i-th) holds a well-typed writable value, the others nothing -/
theorem single_ok (P : Prog) : ∀ (defs : List FieldDef) (i : Nat) (v : GoVal), AllOpt defs → IdsOK defs → i < defs.length →
    (∀ f, (defs.drop i).head? = some f → WT P.structs f.ty v ∧ ∃ w, toW P f.ty v = .ok w) →
    WTFields P.structs defs ((nils defs.length).set i v) ∧ ∃ ws, toWFields P defs ((nils defs.length).set i v) = .ok ws
  | [], i, _, _, _, hi, _ => by simp at hi
  | f :: fs, 0, v, h, hids, _, hv => by
    obtain ⟨hwt, w, hw⟩ := hv f rfl
    have hot : AllOpt fs := fun g hg => h g (by simp [hg])
    have hit : IdsOK fs := fun g hg => hids g (by simp [hg])
    simp only [List.length_cons, nils, List.replicate_succ, List.set_cons_zero]
    exact ⟨wt_head_val _ f fs v _ (h f (by simp)) (hids f (by simp)) hwt (wtFields_nils _ fs hot hit),
      tw_head_val P f fs v _ w [] hw (toWFields_nils P fs hot)⟩
  | f :: fs, i + 1, v, h, hids, hi, hv => by
    have hot : AllOpt fs := fun g hg => h g (by simp [hg])
    have hit : IdsOK fs := fun g hg => hids g (by simp [hg])
    obtain ⟨h1, ws, h2⟩ := single_ok P fs i v hot hit (by simpa using hi) (fun g hg => hv g (by simpa using hg))
    simp only [List.length_cons, nils, List.replicate_succ, List.set_cons_succ]
    simp only [nils] at h1 h2
    exact ⟨wt_head_nil _ f fs _ (h f (by simp)) (hids f (by simp)) h1, ws, by rw [tw_head_nil P f fs _ (h f (by simp))]; exact h2⟩

/-- a handler error whose text fits a string is always answerable -/
theorem answerOK_err (P : Prog) (m : Method) (msg : Bytes)
    (h : (asc "Internal error processing " ++ m.name ++ asc ": " ++ msg).length < maxSize) : AnswerOK P m (.err msg) := by
  intro rd _
  simpa [resultOf] using h

/-- returning nothing / nil, or a well-typed value that `Write` accepts, is answerable -/
theorem answerOK_ok (P : Prog) (m : Method) (hm : MethodOK P m) (ho : m.oneway = false) (v : GoVal)
    (hids : ∀ rd, P.structs[m.result]? = some rd → IdsOK rd.fields)
    (hv : m.void = false → v = .nil ∨ ∀ rd sf, P.structs[m.result]? = some rd → rd.fields.head? = some sf →
      WT P.structs sf.ty v ∧ ∃ w, toW P sf.ty v = .ok w) :
    AnswerOK P m (.ok v) := by
  intro rd hrd
  obtain ⟨rd', hrd', _, hl, hao, _⟩ := hm.result ho
  rw [hrd] at hrd'; cases hrd'
  have hi := hids rd hrd
  simp only [resultOf]
  cases hvoid : m.void
  · simp only [hvoid, Bool.false_eq_true, if_false] at hl ⊢
    match hf : rd.fields with
    | [] => simp [hf] at hl; omega
    | sf :: tf =>
      have htl : tf.length = m.nthrows := by simp [hf] at hl; omega
      have hsf := hao sf (by simp [hf])
      have hot : AllOpt tf := fun g hg => hao g (by simp [hf, hg])
      have hit : IdsOK tf := fun g hg => hi g (by simp [hf, hg])
      have hn := toWFields_nils P tf hot
      rw [← htl]
      simp only [List.singleton_append]
      rcases hv hvoid with hnil | hwt
      · subst hnil
        exact ⟨wt_head_nil _ sf tf _ hsf (hi sf (by simp [hf])) (wtFields_nils _ tf hot hit),
          [], by rw [tw_head_nil P sf tf _ hsf]; exact hn⟩
      · obtain ⟨hw1, w, hw2⟩ := hwt rd sf hrd (by simp [hf])
        exact ⟨wt_head_val _ sf tf v _ hsf (hi sf (by simp [hf])) hw1 (wtFields_nils _ tf hot hit),
          tw_head_val P sf tf v _ w [] hw2 hn⟩
  · simp only [hvoid, if_true, Nat.zero_add, List.nil_append] at hl ⊢
    rw [← hl]
    exact ⟨wtFields_nils _ rd.fields hao hi, [], toWFields_nils P rd.fields hao⟩

/-- returning the i-th declared exception, a well-typed struct that `Write` accepts, is answerable -/
theorem answerOK_exc (P : Prog) (m : Method) (hm : MethodOK P m) (ho : m.oneway = false) (i : Nat) (v : GoVal)
    (hi : i < m.nthrows) (hids : ∀ rd, P.structs[m.result]? = some rd → IdsOK rd.fields)
    (hv : ∀ f, ((throwDefs P m).drop i).head? = some f → WT P.structs f.ty v ∧ ∃ w, toW P f.ty v = .ok w) :
    AnswerOK P m (.exc i v) := by
  intro rd hrd
  obtain ⟨rd', hrd', _, hl, hao, _⟩ := hm.result ho
  rw [hrd] at hrd'; cases hrd'
  have hI := hids rd hrd
  have htd : throwDefs P m = rd.fields.drop (if m.void then 0 else 1) := by simp [throwDefs, Prog.struct?, hrd]
  simp only [resultOf, hi, if_true]
  cases hvoid : m.void
  · simp only [hvoid, Bool.false_eq_true, if_false] at hl htd ⊢
    match hf : rd.fields with
    | [] => simp [hf] at hl; omega
    | sf :: tf =>
      have htl : tf.length = m.nthrows := by simp [hf] at hl; omega
      have hsf := hao sf (by simp [hf])
      have hot : AllOpt tf := fun g hg => hao g (by simp [hf, hg])
      have hit : IdsOK tf := fun g hg => hI g (by simp [hf, hg])
      rw [← htl] at hi ⊢
      obtain ⟨h1, ws, h2⟩ := single_ok P tf i v hot hit hi (fun g hg => hv g (by rw [htd, hf]; simpa using hg))
      simp only [List.singleton_append]
      exact ⟨wt_head_nil _ sf tf _ hsf (hI sf (by simp [hf])) h1, ws, by rw [tw_head_nil P sf tf _ hsf]; exact h2⟩
  · simp only [hvoid, if_true, Nat.zero_add, List.drop_zero, List.nil_append] at hl htd ⊢
    rw [← hl] at hi ⊢
    exact single_ok P rd.fields i v hao hI hi (fun g hg => hv g (by rw [htd]; exact hg))


/-! ### streaming functions -/

theorem kept_not_streaming (fs : List Fn) (f : Fn) (hf : f ∈ fs) (hs : f.isStreaming = true)
    (hd : (fs.map (·.m.name)).Nodup) : f.m.name ∉ (keptMethods fs).map (·.name) := by
  induction fs with
  | nil => cases hf
  | cons g gs ih =>
    simp only [List.map_cons, List.nodup_cons] at hd
    intro hin
    simp only [keptMethods, List.map_map, List.mem_map, List.mem_filter, Function.comp] at hin
    obtain ⟨k, ⟨hk, hks⟩, hkn⟩ := hin
    rcases List.mem_cons.mp hf with rfl | hfg
    · rcases List.mem_cons.mp hk with rfl | hkg
      · simp [hs] at hks
      · exact hd.1 (List.mem_map.mpr ⟨k, hkg, hkn⟩)
    · rcases List.mem_cons.mp hk with rfl | hkg
      · exact hd.1 (List.mem_map.mpr ⟨f, hfg, hkn.symm⟩)
      · exact ih hfg hd.2 (by
          simp only [keptMethods, List.map_map, List.mem_map, List.mem_filter, Function.comp]
          exact ⟨k, ⟨hkg, hks⟩, hkn⟩)

end Gen.Rpc
