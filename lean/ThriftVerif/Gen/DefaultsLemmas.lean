import ThriftVerif.Gen.Defaults
/-
  Gen/DefaultsLemmas: helper lemmas for Props/C06 -- the hypotheses of `const_value` as decidable predicates,
  soundness of the emitted Go expressions against the IDL-side evaluator, exact rejection, string literals.
-/
open Gen

namespace Gen.Defaults

mutual
def identFree : CV → Bool
  | .ident _ _ => false
  | .list xs => identFreeL xs
  | .map kvs => identFreeP kvs
  | _ => true
def identFreeL : List CV → Bool
  | [] => true
  | x :: r => identFree x && identFreeL r
def identFreeP : List (CV × CV) → Bool
  | [] => true
  | (k, v) :: r => identFree k && identFree v && identFreeP r
end

def litOK (s : Bytes) : Bool := goUnquote (emitStr s) == interp s

def isMapLit : CV → Bool
  | .map _ => true
  | _ => false

/-- a member that needs a pointer but is not of a base type: only a struct literal gives an addressable value -/
def addrOK (f : AField) (v : CV) : Bool :=
  if needRedirect f && !f.ty.cat.isBase then f.ty.cat == .strct && isMapLit v else true

/-- a string literal must be one on which Go's reading of the emitted text is the literal's meaning -/
def goodStr : CV → Bool
  | .lit s => litOK s
  | _ => true

mutual
def good (E : Env) : Nat → ATy → CV → Bool
  | g, t, v =>
    match t.cat with
    | .str | .bin => goodStr v
    | .list | .set =>
        match v with
        | .list xs => (match t.elem? with | some e => goodL E g e xs | none => true)
        | _ => true
    | .map =>
        match v with
        | .map kvs => (match t.key?, t.elem? with | some k, some w => goodP E g (bin2str k) w kvs | _, _ => true)
        | _ => true
    | .strct =>
        match v with
        | .map kvs =>
            match structOf E g t with
            | .ok (file, st) => (file == g || identFreeP kvs) && goodM E file st kvs
            | _ => true
        | _ => true
    | _ => true
def goodL (E : Env) : Nat → ATy → List CV → Bool
  | _, _, [] => true
  | g, e, x :: r => good E g e x && goodL E g e r
def goodP (E : Env) : Nat → ATy → ATy → List (CV × CV) → Bool
  | _, _, _, [] => true
  | g, k, w, (a, b) :: r => good E g k a && good E g w b && goodP E g k w r
def goodM (E : Env) : Nat → AStruct → List (CV × CV) → Bool
  | _, _, [] => true
  | file, st, (k, v) :: r =>
      (match k with
       | .lit n => (match findField st.fields n with
          | some (_, f) => addrOK f v && good E file f.ty v
          | none => true)
       | _ => true) && goodM E file st r
end

end Gen.Defaults


namespace Gen.Defaults

/-- the Go package environment agrees with the IDL-side environment wherever the latter is defined -/
structure EnvAgree (E : Env) (ρG ρI : ConstEnv) : Prop where
  val : ∀ f n v, ρI f n = some v → ρG f n = some v
  dom : ∀ f n v, ρI f n = some v → E.hasGlobal f n = true

theorem scope_ast {E : Env} {g i k : Nat} (h : E.scopeInclude g i = some k) : E.astInclude g i = some k := by
  unfold Env.scopeInclude at h
  unfold Env.astInclude
  cases hf : E.file? g with
  | none => simp [hf] at h
  | some f =>
    simp only [hf] at h ⊢
    cases hi : f.includes[i]? with
    | none => simp [hi] at h
    | some p =>
      obtain ⟨a, b⟩ := p
      cases b <;> simp [hi] at h ⊢
      exact h

theorem idInner_sound {E : Env} {ρG ρI : ConstEnv} (ha : EnvAgree E ρG ρI) {f : Nat} {x : Extra} {r : GRef} {val : GoVal}
    (h : idInner E f x = .ok (some r)) (hv : refInner E ρI f x = some val) : evalGo E ρG (.ident r) = some val := by
  unfold idInner at h
  unfold refInner at hv
  cases he : x.isEnum with
  | true =>
    simp only [he, if_true] at h hv
    cases hen : E.findEnum f x.sel with
    | none => simp [hen] at h
    | some en =>
      simp only [hen] at h
      cases hvv : en.value? x.name with
      | none => simp [hvv] at h
      | some n =>
        simp only [hvv, Res.ok.injEq, Option.some.injEq] at h
        subst h
        simp only [evalGo]
        exact hv
  | false =>
    simp only [he, Bool.false_eq_true, if_false] at h hv
    cases hg : E.hasGlobal f x.name with
    | true =>
      simp only [hg, if_true, Res.ok.injEq, Option.some.injEq] at h
      subst h
      simp only [evalGo]
      exact ha.val _ _ _ hv
    | false => simp [hg] at h

theorem idInner_none {E : Env} {ρG ρI : ConstEnv} (ha : EnvAgree E ρG ρI) {f : Nat} {x : Extra}
    (h : idInner E f x = .ok none) : refInner E ρI f x = none := by
  unfold idInner at h
  unfold refInner
  cases he : x.isEnum with
  | true =>
    simp only [he, if_true] at h ⊢
    unfold enumLookup
    cases hen : E.findEnum f x.sel with
    | none => rfl
    | some en =>
      simp only [hen] at h ⊢
      cases hvv : en.value? x.name with
      | none => rfl
      | some n => simp [hvv] at h
  | false =>
    simp only [he, Bool.false_eq_true, if_false] at h ⊢
    cases hg : E.hasGlobal f x.name with
    | true => simp [hg] at h
    | false =>
      cases hr : ρI f x.name with
      | none => rfl
      | some v => have := ha.dom _ _ _ hr; simp [hg] at this

theorem idInner_not_err {E : Env} {f : Nat} {x : Extra} : idInner E f x ≠ .err ∧ idInner E f x ≠ .panic := by
  unfold idInner
  cases x.isEnum <;> simp
  · cases E.hasGlobal f x.name <;> simp
  · cases E.findEnum f x.sel with
    | none => simp
    | some en => cases hv : en.value? x.name <;> simp [hv]

/-- the three outcomes of `getID` seen from the IDL side (`g` = the file the initializer is written in) -/
theorem getID_sound {E : Env} {ρG ρI : ConstEnv} (ha : EnvAgree E ρG ρI) {g : Nat} {x : Option Extra} {r : GRef} {val : GoVal}
    (h : getID E g x = .ok (some r)) (hv : refValue E ρI g x = some val) : evalGo E ρG (.ident r) = some val := by
  cases x with
  | none => simp [getID] at h
  | some x =>
    simp only [getID, getIDValue] at h
    simp only [refValue] at hv
    cases hi : x.index with
    | none =>
      simp only [hi] at h hv
      cases hf : E.file? g with
      | none => simp [hf] at h
      | some fe =>
        simp only [hf] at h
        exact idInner_sound ha h hv
    | some i =>
      simp only [hi] at h hv
      cases hs : E.scopeInclude g i with
      | none => simp [hs] at h
      | some g' =>
        simp only [hs] at h
        simp only [scope_ast hs] at hv
        exact idInner_sound ha h hv

theorem getID_none {E : Env} {ρG ρI : ConstEnv} (ha : EnvAgree E ρG ρI) {g : Nat} {x : Option Extra}
    (h : getID E g x = .ok none) : refValue E ρI g x = none := by
  cases x with
  | none => rfl
  | some x =>
    simp only [getID, getIDValue] at h
    simp only [refValue]
    cases hi : x.index with
    | none =>
      simp only [hi] at h ⊢
      cases hf : E.file? g with
      | none => simp [hf] at h
      | some fe =>
        simp only [hf] at h
        exact idInner_none ha h
    | some i =>
      simp only [hi] at h ⊢
      cases hs : E.scopeInclude g i with
      | none => simp [hs] at h
      | some g' =>
        simp only [hs] at h
        simp only [scope_ast hs]
        exact idInner_none ha h

theorem getID_not_err {E : Env} {g : Nat} {x : Option Extra} : getID E g x ≠ .err := by
  cases x with
  | none => simp [getID]
  | some x =>
    simp only [getID, getIDValue]
    split
    · simp
    · exact idInner_not_err.1

end Gen.Defaults
