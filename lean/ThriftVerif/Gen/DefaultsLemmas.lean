import ThriftVerif.Gen.Defaults
/-
  Gen/DefaultsLemmas: helper lemmas for Props/C06 -- the hypotheses of `const_value` as decidable predicates,
  soundness of the emitted Go expressions against the IDL-side evaluator, exact rejection, string literals.
-/
open Gen

namespace Gen.Defaults


end Gen.Defaults


namespace Gen.Defaults

/-- the Go package environment agrees with the IDL-side environment wherever the latter is defined -/
structure EnvAgree (E : Env) (ρG ρI : ConstEnv) : Prop where
  val : ∀ f n v, ρI f n = some v → ρG f n = some v
  dom : ∀ f n v, ρI f n = some v → E.hasGlobal f n = true

theorem scope_ast {E : Env} {g i k : Nat} (h : E.scopeInclude g i = some k) : E.astInclude g i = some k := by
  unfold Env.scopeInclude at h
  unfold Env.astInclude
  cases hf : E.file? g with
  | none => simp [hf] at h
  | some f =>
    simp only [hf] at h ⊢
    cases hi : f.includes[i]? with
    | none => simp [hi] at h
    | some p =>
      obtain ⟨a, b⟩ := p
      cases b <;> simp [hi] at h ⊢
      exact h

theorem idInner_sound {E : Env} {ρG ρI : ConstEnv} (ha : EnvAgree E ρG ρI) {f : Nat} {x : Extra} {r : GRef} {val : GoVal}
    (h : idInner E f x = .ok (some r)) (hv : refInner E ρI f x = some val) : evalGo E ρG (.ident r) = some val := by
  unfold idInner at h
  unfold refInner at hv
  cases he : x.isEnum with
  | true =>
    simp only [he, if_true] at h hv
    cases hen : E.findEnum f x.sel with
    | none => simp [hen] at h
    | some en =>
      simp only [hen] at h
      cases hvv : en.value? x.name with
      | none => simp [hvv] at h
      | some n =>
        simp only [hvv, Res.ok.injEq, Option.some.injEq] at h
        subst h
        simp only [evalGo]
        exact hv
  | false =>
    simp only [he, Bool.false_eq_true, if_false] at h hv
    cases hg : E.hasGlobal f x.name with
    | true =>
      simp only [hg, if_true, Res.ok.injEq, Option.some.injEq] at h
      subst h
      simp only [evalGo]
      exact ha.val _ _ _ hv
    | false => simp [hg] at h

theorem idInner_none {E : Env} {ρG ρI : ConstEnv} (ha : EnvAgree E ρG ρI) {f : Nat} {x : Extra}
    (h : idInner E f x = .ok none) : refInner E ρI f x = none := by
  unfold idInner at h
  unfold refInner
  cases he : x.isEnum with
  | true =>
    simp only [he, if_true] at h ⊢
    unfold enumLookup
    cases hen : E.findEnum f x.sel with
    | none => rfl
    | some en =>
      simp only [hen] at h ⊢
      cases hvv : en.value? x.name with
      | none => rfl
      | some n => simp [hvv] at h
  | false =>
    simp only [he, Bool.false_eq_true, if_false] at h ⊢
    cases hg : E.hasGlobal f x.name with
    | true => simp [hg] at h
    | false =>
      cases hr : ρI f x.name with
      | none => rfl
      | some v => have := ha.dom _ _ _ hr; simp [hg] at this

theorem idInner_not_err {E : Env} {f : Nat} {x : Extra} : idInner E f x ≠ .err ∧ idInner E f x ≠ .panic := by
  unfold idInner
  cases x.isEnum <;> simp
  · cases E.hasGlobal f x.name <;> simp
  · cases E.findEnum f x.sel with
    | none => simp
    | some en => cases hv : en.value? x.name <;> simp [hv]

/-- the outcomes of `getID` seen from the IDL side; `gv` is the file the initializer is written in: either the
    scope is that file, or the identifier carries no Extra (then it means the same everywhere) -/
theorem getID_sound {E : Env} {ρG ρI : ConstEnv} (ha : EnvAgree E ρG ρI) {g gv : Nat} {x : Option Extra} {r : GRef} {val : GoVal}
    (h : getID E g x = .ok (some r)) (hs : g = gv ∨ x = none) (hv : refValue E ρI gv x = some val) :
    evalGo E ρG (.ident r) = some val := by
  cases x with
  | none => simp [getID] at h
  | some x =>
    have hg : g = gv := by rcases hs with h1 | h1; exact h1; cases h1
    subst hg
    simp only [getID, getIDValue] at h
    simp only [refValue] at hv
    cases hi : x.index with
    | none =>
      simp only [hi] at h hv
      cases hf : E.file? g with
      | none => simp [hf] at h
      | some fe =>
        simp only [hf] at h
        exact idInner_sound ha h hv
    | some i =>
      simp only [hi] at h hv
      cases hs : E.scopeInclude g i with
      | none => simp [hs] at h
      | some g' =>
        simp only [hs] at h
        simp only [scope_ast hs] at hv
        exact idInner_sound ha h hv

theorem getID_none {E : Env} {ρG ρI : ConstEnv} (ha : EnvAgree E ρG ρI) {g gv : Nat} {x : Option Extra}
    (h : getID E g x = .ok none) (hs : g = gv ∨ x = none) : refValue E ρI gv x = none := by
  cases x with
  | none => rfl
  | some x =>
    have hg : g = gv := by rcases hs with h1 | h1; exact h1; cases h1
    subst hg
    simp only [getID, getIDValue] at h
    simp only [refValue]
    cases hi : x.index with
    | none =>
      simp only [hi] at h ⊢
      cases hf : E.file? g with
      | none => simp [hf] at h
      | some fe =>
        simp only [hf] at h
        exact idInner_none ha h
    | some i =>
      simp only [hi] at h ⊢
      cases hs : E.scopeInclude g i with
      | none => simp [hs] at h
      | some g' =>
        simp only [hs] at h
        simp only [scope_ast hs]
        exact idInner_none ha h

theorem getID_not_err {E : Env} {g : Nat} {x : Option Extra} : getID E g x ≠ .err := by
  cases x with
  | none => simp [getID]
  | some x =>
    simp only [getID, getIDValue]
    split
    · simp
    · exact idInner_not_err.1

end Gen.Defaults

namespace Gen.Defaults

theorem hexDigit_lt {c : Nat} (hc : c < 48) : hexDigit? c = none := by
  unfold hexDigit?
  have : ¬(48 ≤ c ∧ c ≤ 57) := by omega
  have : ¬(97 ≤ c ∧ c ≤ 102) := by omega
  have : ¬(65 ≤ c ∧ c ≤ 70) := by omega
  simp [*]

theorem octDigit_lt {c : Nat} (hc : c < 48) : octDigit? c = none := by
  unfold octDigit?
  have : ¬(48 ≤ c ∧ c ≤ 55) := by omega
  simp [*]

theorem lexStep_num_none {b r a : Nat} {u : Bool} {c : Nat} (hc : c < 48 ∨ c = 92) : lexStep (.num b r a u) c = none := by
  have h1 : hexDigit? c = none := by
    rcases hc with hc | hc
    · exact hexDigit_lt hc
    · subst hc; decide
  have h2 : octDigit? c = none := by
    rcases hc with hc | hc
    · exact octDigit_lt hc
    · subst hc; decide
  simp only [lexStep]
  split <;> simp_all

theorem escLookup_mem {c : Nat} {v : LexSt × Bytes} : ∀ {l : List (Nat × (LexSt × Bytes))}, escLookup c l = some v → (c, v) ∈ l
  | [], h => by simp [escLookup] at h
  | (k, w) :: r, h => by
    simp only [escLookup] at h
    by_cases hk : c = k
    · simp only [hk, if_true, Option.some.injEq] at h
      subst hk h
      exact List.mem_cons_self
    · simp only [hk, if_false] at h
      exact List.mem_cons_of_mem _ (escLookup_mem h)

def LexSt.isEsc : LexSt → Bool
  | .esc => true
  | _ => false

theorem escTable_not_esc : ∀ p ∈ escTable, p.2.1.isEsc = false := by decide

/-- a step from a state other than `esc` on a character other than a backslash never ends in `esc`; a step
    from `esc` never does -/
theorem lexStep_not_esc {st st' : LexSt} {c : Nat} {out : Bytes} (h : lexStep st c = some (st', out))
    (hc : st = .esc ∨ c ≠ 92) : st' ≠ .esc := by
  cases st with
  | norm =>
    have : c ≠ 92 := by rcases hc with h1 | h1; cases h1; exact h1
    simp [lexStep, this] at h
    intro he; rw [← h.1] at he; cases he
  | esc =>
    simp only [lexStep] at h
    cases hl : escLookup c escTable with
    | some r =>
      simp only [hl, Option.some.injEq] at h
      have := escTable_not_esc _ (escLookup_mem hl)
      subst h
      intro he
      simp [he, LexSt.isEsc] at this
    | none =>
      simp only [hl] at h
      cases ho : octDigit? c with
      | none => simp [ho] at h
      | some d =>
        simp only [ho, Option.some.injEq, Prod.mk.injEq] at h
        intro he; rw [← h.1] at he; cases he
  | num b r a u =>
    intro he
    subst he
    simp only [lexStep] at h
    split at h
    · cases h
    · split at h
      · split at h
        · split at h <;> simp at h
        · split at h <;> simp at h
      · simp at h

theorem unqFrom_cons {st : LexSt} {c : Nat} {r : Bytes} (h34 : ¬(st = .norm ∧ c = 34)) (h10 : ¬(st = .norm ∧ c = 10)) :
    unqFrom st (c :: r) = (lexStep st c).bind fun p => (unqFrom p.1 r).map (p.2 ++ ·) := by
  cases hl : lexStep st c with
  | none => simp [unqFrom, h34, h10, hl]
  | some p => obtain ⟨a, b⟩ := p; simp [unqFrom, h34, h10, hl]

theorem unqFrom_norm_bslash (d : Nat) (r : Bytes) :
    unqFrom .norm (92 :: d :: r) = (lexStep .esc d).bind fun p => (unqFrom p.1 r).map (p.2 ++ ·) := by
  rw [unqFrom_cons (by simp) (by simp)]
  have : lexStep .norm 92 = some (.esc, []) := by simp [lexStep]
  rw [this]
  simp only [Option.bind_some]
  rw [unqFrom_cons (by simp) (by simp)]
  cases lexStep .esc d with
  | none => rfl
  | some p => obtain ⟨a, b⟩ := p; simp [Function.comp_def]

theorem interpFrom_cons (st : LexSt) (c : Nat) (r : Bytes) :
    interpFrom st (c :: r) = (idlStep st c).bind fun p => (interpFrom p.1 r).map (p.2 ++ ·) := by
  cases hl : idlStep st c with
  | none => simp [interpFrom, hl]
  | some p => obtain ⟨a, b⟩ := p; simp [interpFrom, hl]

theorem idlStep_ne {st : LexSt} {c : Nat} (h : ¬(st = .esc ∧ c = 39)) : idlStep st c = lexStep st c := by
  simp [idlStep, h]

/-- the state after a non-`esc` state is `norm` or inside a numeric escape -/
theorem not_esc_cases {st : LexSt} (h : st ≠ .esc) : st = .norm ∨ ∃ b r a u, st = .num b r a u := by
  cases st with
  | norm => exact Or.inl rfl
  | esc => exact absurd rfl h
  | num b r a u => exact Or.inr ⟨b, r, a, u, rfl⟩

theorem norm_bslash : lexStep .norm 92 = some (.esc, []) := by simp [lexStep]
theorem idl_norm_bslash : idlStep .norm 92 = some (.esc, []) := by simp [idlStep, lexStep]

theorem interp_norm_bslash (d : Nat) (r : Bytes) :
    interpFrom .norm (92 :: d :: r) = (idlStep .esc d).bind fun p => (interpFrom p.1 r).map (p.2 ++ ·) := by
  rw [interpFrom_cons, idl_norm_bslash]
  simp only [Option.bind_some]
  rw [interpFrom_cons]
  cases idlStep .esc d with
  | none => rfl
  | some p => obtain ⟨a, b⟩ := p; simp [Function.comp_def]

/-- in a numeric escape, what `quoteLiteral` emits for a character it rewrites is invalid, as the character is -/
theorem num_both_none {b k a : Nat} {u : Bool} {c : Nat} {out rest r : Bytes} (hc : c < 48 ∨ c = 92)
    (hout : ∃ x tl, out = x :: tl ∧ (x < 48 ∨ x = 92) ∧ ¬(x = 34) ∧ ¬(x = 10)) :
    unqFrom (.num b k a u) (out ++ rest) = interpFrom (.num b k a u) (c :: r) := by
  obtain ⟨x, tl, ho, hx, h34, h10⟩ := hout
  subst ho
  rw [List.cons_append, unqFrom_cons (by simp [h34]) (by simp [h10]), lexStep_num_none hx,
    interpFrom_cons, idlStep_ne (by simp), lexStep_num_none hc]
  rfl

/-- **simulation**: Go reading the text `quoteLiteral` emits (closing quote appended), from any state between
    characters, is the IDL literal read by `interp` -/
theorem unq_quote : ∀ (s : Bytes) (st : LexSt), st ≠ .esc → unqFrom st (quoteBody s ++ [34]) = interpFrom st s
  | [], st, hst => by
    rcases not_esc_cases hst with h | ⟨b, r, a, u, h⟩ <;> subst h
    · simp [quoteBody, unqFrom, interpFrom]
    · simp [quoteBody, unqFrom, interpFrom, lexStep_num_none (Or.inl (by omega : 34 < 48))]
  | [c], st, hst => by
    by_cases h92 : c = 92
    · subst h92
      have hq : quoteBody [92] = [92] := by simp [quoteBody]
      rcases not_esc_cases hst with h | ⟨b, r, a, u, h⟩ <;> subst h
      · rw [hq]
        have : unqFrom .norm ([92] ++ [34]) = none := by
          rw [List.cons_append, List.nil_append, unqFrom_norm_bslash]
          simp [lexStep, escLookup, escTable, unqFrom]
        rw [this, interpFrom_cons, idl_norm_bslash]
        simp [interpFrom]
      · rw [hq]; exact num_both_none (Or.inr rfl) ⟨92, [], rfl, Or.inr rfl, by simp, by simp⟩
    · have ih := unq_quote []
      simp only [quoteBody, List.nil_append] at ih
      by_cases h34 : c = 34
      · subst h34
        have hq : quoteBody [34] = [92, 34] := by simp [quoteBody]
        rw [hq]
        rcases not_esc_cases hst with h | ⟨b, r, a, u, h⟩ <;> subst h
        · rw [List.cons_append, List.cons_append, List.nil_append, unqFrom_norm_bslash, interpFrom_cons, idlStep_ne (by simp)]
          simp [lexStep, escLookup, escTable, ih .norm (by simp)]
        · exact num_both_none (Or.inl (by omega)) ⟨92, [34], rfl, Or.inr rfl, by simp, by simp⟩
      · by_cases h10 : c = 10
        · subst h10
          have hq : quoteBody [10] = [92, 110] := by simp [quoteBody]
          rw [hq]
          rcases not_esc_cases hst with h | ⟨b, r, a, u, h⟩ <;> subst h
          · rw [List.cons_append, List.cons_append, List.nil_append, unqFrom_norm_bslash, interpFrom_cons, idlStep_ne (by simp)]
            simp [lexStep, escLookup, escTable, ih .norm (by simp)]
          · exact num_both_none (Or.inl (by omega)) ⟨92, [110], rfl, Or.inr rfl, by simp, by simp⟩
        · by_cases h13 : c = 13
          · subst h13
            have hq : quoteBody [13] = [92, 114] := by simp [quoteBody]
            rw [hq]
            rcases not_esc_cases hst with h | ⟨b, r, a, u, h⟩ <;> subst h
            · rw [List.cons_append, List.cons_append, List.nil_append, unqFrom_norm_bslash, interpFrom_cons, idlStep_ne (by simp)]
              simp [lexStep, escLookup, escTable, ih .norm (by simp)]
            · exact num_both_none (Or.inl (by omega)) ⟨92, [114], rfl, Or.inr rfl, by simp, by simp⟩
          · have hq : quoteBody [c] = [c] := by simp [quoteBody, h92, h34, h10, h13]
            rw [hq, List.cons_append, List.nil_append, unqFrom_cons (by simp [h34]) (by simp [h10]), interpFrom_cons,
              idlStep_ne (by simp [hst])]
            cases hl : lexStep st c with
            | none => rfl
            | some p =>
              obtain ⟨st', out⟩ := p
              simp [ih st' (lexStep_not_esc hl (Or.inr h92))]
  | c :: d :: r, st, hst => by
    by_cases h92 : c = 92
    · subst h92
      rcases not_esc_cases hst with h | ⟨b, k, a, u, h⟩ <;> subst h
      · by_cases h39 : d = 39
        · subst h39
          have ih := unq_quote r .norm (by simp)
          have hq : quoteBody (92 :: 39 :: r) = 39 :: quoteBody r := by simp [quoteBody]
          rw [hq, List.cons_append, unqFrom_cons (by simp) (by simp), interp_norm_bslash]
          simp [idlStep, lexStep, ih]
        · have hq : quoteBody (92 :: d :: r) = 92 :: d :: quoteBody r := by simp [quoteBody, h39]
          rw [hq, List.cons_append, List.cons_append, unqFrom_norm_bslash, interp_norm_bslash, idlStep_ne (by simp [h39])]
          cases hl : lexStep .esc d with
          | none => rfl
          | some p =>
            obtain ⟨st', out⟩ := p
            simp [unq_quote r st' (lexStep_not_esc hl (Or.inl rfl))]
      · by_cases h39 : d = 39
        · subst h39
          have hq : quoteBody (92 :: 39 :: r) = [39] ++ quoteBody r := by simp [quoteBody]
          rw [hq, List.append_assoc]
          exact num_both_none (Or.inr rfl) ⟨39, [], rfl, Or.inl (by omega), by simp, by simp⟩
        · have hq : quoteBody (92 :: d :: r) = [92, d] ++ quoteBody r := by simp [quoteBody, h39]
          rw [hq, List.append_assoc]
          exact num_both_none (Or.inr rfl) ⟨92, [d], rfl, Or.inr rfl, by simp, by simp⟩
    · have ih := unq_quote (d :: r)
      by_cases h34 : c = 34
      · subst h34
        have hq : quoteBody (34 :: d :: r) = [92, 34] ++ quoteBody (d :: r) := by simp [quoteBody]
        rw [hq, List.append_assoc]
        rcases not_esc_cases hst with h | ⟨b, k, a, u, h⟩ <;> subst h
        · rw [List.cons_append, List.cons_append, List.nil_append, unqFrom_norm_bslash, interpFrom_cons, idlStep_ne (by simp)]
          simp [lexStep, escLookup, escTable, ih .norm (by simp)]
        · exact num_both_none (Or.inl (by omega)) ⟨92, [34], rfl, Or.inr rfl, by simp, by simp⟩
      · by_cases h10 : c = 10
        · subst h10
          have hq : quoteBody (10 :: d :: r) = [92, 110] ++ quoteBody (d :: r) := by simp [quoteBody]
          rw [hq, List.append_assoc]
          rcases not_esc_cases hst with h | ⟨b, k, a, u, h⟩ <;> subst h
          · rw [List.cons_append, List.cons_append, List.nil_append, unqFrom_norm_bslash, interpFrom_cons, idlStep_ne (by simp)]
            simp [lexStep, escLookup, escTable, ih .norm (by simp)]
          · exact num_both_none (Or.inl (by omega)) ⟨92, [110], rfl, Or.inr rfl, by simp, by simp⟩
        · by_cases h13 : c = 13
          · subst h13
            have hq : quoteBody (13 :: d :: r) = [92, 114] ++ quoteBody (d :: r) := by simp [quoteBody]
            rw [hq, List.append_assoc]
            rcases not_esc_cases hst with h | ⟨b, k, a, u, h⟩ <;> subst h
            · rw [List.cons_append, List.cons_append, List.nil_append, unqFrom_norm_bslash, interpFrom_cons, idlStep_ne (by simp)]
              simp [lexStep, escLookup, escTable, ih .norm (by simp)]
            · exact num_both_none (Or.inl (by omega)) ⟨92, [114], rfl, Or.inr rfl, by simp, by simp⟩
          · have hq : quoteBody (c :: d :: r) = c :: quoteBody (d :: r) := by simp [quoteBody, h92, h34, h10, h13]
            rw [hq, List.cons_append, unqFrom_cons (by simp [h34]) (by simp [h10]), interpFrom_cons,
              idlStep_ne (by simp [hst])]
            cases hl : lexStep st c with
            | none => rfl
            | some p =>
              obtain ⟨st', out⟩ := p
              simp [ih st' (lexStep_not_esc hl (Or.inr h92))]

/-- **string_literal_value**: Go reads the emitted literal as the IDL literal's meaning -- for every literal -/
theorem goUnquote_emit (s : Bytes) : goUnquote (emitStr s) = interp s := by
  simp only [goUnquote, emitStr, interp]
  exact unq_quote s .norm (by simp)

end Gen.Defaults


namespace Gen.Defaults

section scalars
variable {E : Env} {ρG ρI : ConstEnv} (ha : EnvAgree E ρG ρI) {root g gv : Nat} {t : ATy} {v : CV} {e : GoExpr} {val : GoVal}

theorem hs'_ {gv : Nat} {x : Option Extra} : gv = gv ∨ x = none := Or.inl rfl
include ha

theorem onBool_sound (h : onBool E gv v = .ok e)
    (hI : idlBool E ρI gv v = some val) : evalGo E ρG e = some val := by
  unfold idlBool at hI
  cases v with
  | int n =>
    simp only [onBool, Res.ok.injEq] at h
    subst h
    simp only [evalGo]
    by_cases h0 : n = 0
    · subst h0; simp at hI; simp [← hI]
    · by_cases h1 : n = 1
      · subst h1; simp at hI; simp [← hI]
      · simp [h0, h1] at hI
  | dbl b tx => simp at hI
  | lit s => simp at hI
  | list xs => simp at hI
  | map kvs => simp at hI
  | ident s x =>
    have hs' : gv = gv ∨ x = none := Or.inl rfl
    simp only [onBool] at h
    simp only at hI
    by_cases ht : s = bTrue
    · simp only [ht, if_true, Res.ok.injEq] at h hI
      subst h; simpa [evalGo] using hI
    · simp only [ht, if_false] at h hI
      by_cases hf : s = bFalse
      · simp only [hf, if_true, Res.ok.injEq] at h hI
        subst h; simpa [evalGo] using hI
      · simp only [hf, if_false] at h hI
        cases hid : getID E gv x with
        | err => simp [hid] at h
        | panic => simp [hid] at h
        | ok o =>
          cases o with
          | none => simp [hid] at h
          | some r =>
            simp only [hid, Res.ok.injEq] at h
            subst h
            cases hr : refValue E ρI gv x with
            | none => simp [hr] at hI
            | some w =>
              have := getID_sound ha hid hs' hr
              rw [this]
              cases w <;> simp [hr] at hI
              subst hI; rfl

theorem onInt_sound {bits : Nat} (hb : t.cat.intBits.getD 64 = bits) (h : onInt E root g gv t v = .ok e)
    (hI : idlInt E ρI gv bits v = some val) : evalGo E ρG e = some val := by
  unfold idlInt at hI
  cases v with
  | int n =>
    simp only [onInt, Res.ok.injEq] at h
    subst h
    simp only [evalGo]
    simp only at hI
    split at hI <;> simp_all
  | dbl b tx => simp at hI
  | lit s => simp at hI
  | list xs => simp at hI
  | map kvs => simp at hI
  | ident s x =>
    have hs' : gv = gv ∨ x = none := Or.inl rfl
    simp only [onInt] at h
    simp only at hI
    by_cases ht : s = bTrue
    · simp [ht] at hI
    · by_cases hf : s = bFalse
      · simp [hf] at hI
      · simp only [ht, hf, if_false, Bool.or_self, decide_false, Bool.false_eq_true] at h hI
        cases hid : getID E gv x with
        | err => simp [hid] at h
        | panic => simp [hid] at h
        | ok o =>
          cases o with
          | none => simp [hid] at h
          | some r =>
            simp only [hid] at h
            cases hr : refValue E ρI gv x with
            | none => simp [hr] at hI
            | some w =>
              have hgo := getID_sound ha hid hs' hr
              cases w <;> simp [hr] at hI
              obtain ⟨hin, hv⟩ := hI
              subst hv
              cases htn : typeName E root g t with
              | panic => simp [htn] at h
              | err =>
                simp only [htn, Res.ok.injEq] at h
                subst h
                simp [evalGo, hgo, hin, hb]
              | ok ty =>
                simp only [htn, Res.ok.injEq] at h
                subst h
                simp [evalGo, hgo, hin, hb]

theorem onDouble_sound (h : onDouble E gv v = .ok e)
    (hI : idlDouble E ρI gv v = some val) : evalGo E ρG e = some val := by
  unfold idlDouble at hI
  cases v with
  | int n =>
    simp only [onDouble, Res.ok.injEq] at h
    subst h
    simpa [evalGo] using hI
  | dbl b tx =>
    simp only [onDouble, Res.ok.injEq] at h
    subst h
    simpa [evalGo] using hI
  | lit s => simp at hI
  | list xs => simp at hI
  | map kvs => simp at hI
  | ident s x =>
    have hs' : gv = gv ∨ x = none := Or.inl rfl
    simp only [onDouble] at h
    simp only at hI
    by_cases ht : s = bTrue
    · simp [ht] at hI
    · by_cases hf : s = bFalse
      · simp [hf] at hI
      · simp only [ht, hf, if_false, Bool.or_self, decide_false, Bool.false_eq_true] at h hI
        cases hid : getID E gv x with
        | err => simp [hid] at h
        | panic => simp [hid] at h
        | ok o =>
          cases o with
          | none => simp [hid] at h
          | some r =>
            simp only [hid, Res.ok.injEq] at h
            subst h
            cases hr : refValue E ρI gv x with
            | none => simp [hr] at hI
            | some w =>
              have := getID_sound ha hid hs' hr
              rw [this]
              cases w <;> simp [hr] at hI
              subst hI; rfl

theorem onEnum_sound (h : onEnum E gv v = .ok e)
    (hI : idlEnum E ρI gv v = some val) : evalGo E ρG e = some val := by
  unfold idlEnum at hI
  cases v with
  | int n =>
    simp only [onEnum, Res.ok.injEq] at h
    subst h
    simpa [evalGo] using hI
  | dbl b tx => simp at hI
  | lit s => simp at hI
  | list xs => simp at hI
  | map kvs => simp at hI
  | ident s x =>
    have hs' : gv = gv ∨ x = none := Or.inl rfl
    simp only [onEnum] at h
    simp only at hI
    cases hid : getID E gv x with
    | err => simp [hid] at h
    | panic => simp [hid] at h
    | ok o =>
      cases o with
      | none => simp [hid] at h
      | some r =>
        simp only [hid, Res.ok.injEq] at h
        subst h
        cases hr : refValue E ρI gv x with
        | none => simp [hr] at hI
        | some w =>
          have := getID_sound ha hid hs' hr
          rw [this]
          cases w <;> simp [hr] at hI
          subst hI; rfl

theorem onStrBin_sound (h : onStrBin E gv t v = .ok e)
    (hI : idlStr E ρI gv v = some val) : evalGo E ρG e = some val := by
  unfold idlStr at hI
  have key : ∀ e0, strBinCore E gv v = Res.ok e0 → ∃ b, val = .bytes b ∧ evalGo E ρG e0 = some (.bytes b) := by
    intro e0 h0
    unfold strBinCore at h0
    cases v with
    | int n => simp at h0
    | dbl b tx => simp at h0
    | list xs => simp at h0
    | map kvs => simp at h0
    | lit s =>
      simp only [Res.ok.injEq] at h0
      subst h0
      simp only at hI
      simp only [evalGo, goUnquote_emit]
      cases hi : interp s with
      | none => simp [hi] at hI
      | some b => simp [hi] at hI; exact ⟨b, hI.symm, rfl⟩
    | ident s x =>
      have hs' : gv = gv ∨ x = none := Or.inl rfl
      simp only at h0 hI
      by_cases hb : (s = bTrue || s = bFalse) = true
      · simp [hb] at h0
      · simp only [hb, Bool.false_eq_true, if_false] at h0 hI
        cases hid : getID E gv x with
        | err => simp [hid] at h0
        | panic => simp [hid] at h0
        | ok o =>
          cases o with
          | none => simp [hid] at h0
          | some r =>
            simp only [hid, Res.ok.injEq] at h0
            subst h0
            cases hr : refValue E ρI gv x with
            | none => simp [hr] at hI
            | some w =>
              have := getID_sound ha hid hs' hr
              cases w <;> simp [hr] at hI
              exact ⟨_, hI.symm, this⟩
  unfold onStrBin at h
  cases hc : strBinCore E gv v with
  | err => simp [hc] at h
  | panic => simp [hc] at h
  | ok e0 =>
    obtain ⟨b, hb, he0⟩ := key e0 hc
    subst hb
    simp only [hc] at h
    split at h
    · simp only [Res.ok.injEq] at h
      subst h
      simp [evalGo, he0]
    · simp only [Res.ok.injEq] at h
      subst h
      exact he0

end scalars
end Gen.Defaults

namespace Gen.Defaults

theorem find?_name_struct {l : List AStruct} {nm : Name} {st : AStruct} (h : l.find? (·.name == nm) = some st) :
    st.name = nm ∧ l.find? (·.name == st.name) = some st := by
  have hp := List.find?_some h
  simp only [beq_iff_eq] at hp
  exact ⟨hp, by rw [hp]; exact h⟩

theorem structOf_find {E : Env} {g : Nat} {t : ATy} {file : Nat} {st : AStruct}
    (h : structOf E g t = .ok (file, st)) : E.findStruct file st.name = some st := by
  unfold structOf at h
  split at h
  · rename_i g' c r nm heq
    cases hf : E.findStruct g' nm with
    | none => simp [hf] at h
    | some st' =>
      simp only [hf, Res.ok.injEq, Prod.mk.injEq] at h
      obtain ⟨h1, h2⟩ := h
      subst h1 h2
      unfold Env.findStruct at hf ⊢
      cases hfe : E.file? g' with
      | none => simp [hfe] at hf
      | some fe =>
        simp only [hfe] at hf ⊢
        exact (find?_name_struct hf).2
  · simp at h
  · simp at h


end Gen.Defaults

namespace Gen.Defaults

theorem derefFuel_succ (E : Env) : ∃ n, E.derefFuel = n + 1 := ⟨_, rfl⟩

/-- the element type the IDL side finds for a list/set type is the one `derefContainer` hands to the loop -/
theorem derefC_elemTy {E : Env} {g g' g2 : Nat} {t t' e : ATy}
    (hd : derefC E g t = .ok (g', t')) (he : elemTy E g t = some (g2, e)) : g2 = g' ∧ t'.elem? = some e := by
  obtain ⟨n, hn⟩ := derefFuel_succ E
  unfold derefC at hd
  unfold elemTy at he
  cases hel : t.elem? with
  | some x =>
    simp only [hel, Res.ok.injEq, Prod.mk.injEq] at hd
    obtain ⟨h1, h2⟩ := hd
    subst h1 h2
    rw [hn] at he
    cases t with
    | base c => simp [ATy.elem?] at hel
    | named c r nm => simp [ATy.elem?] at hel
    | list a => simp [deref] at he; simp [ATy.elem?, he.1, he.2]
    | set a => simp [deref] at he; simp [ATy.elem?, he.1, he.2]
    | map k w => simp [deref] at he
  | none =>
    simp only [hel] at hd
    cases hdr : deref E E.derefFuel g t with
    | none => simp [hdr] at hd
    | some p =>
      obtain ⟨g1, t1⟩ := p
      simp only [hdr] at hd he
      split at hd
      · simp only [Res.ok.injEq, Prod.mk.injEq] at hd
        obtain ⟨h1, h2⟩ := hd
        subst h1 h2
        cases t1 <;> simp [ATy.elem?] at he ⊢ <;> simp [he.1, he.2]
      · cases hd

theorem derefC_mapTy {E : Env} {g g' g2 : Nat} {t t' k w : ATy}
    (hd : derefC E g t = .ok (g', t')) (he : mapTy E g t = some (g2, k, w)) :
    g2 = g' ∧ t'.key? = some k ∧ t'.elem? = some w := by
  obtain ⟨n, hn⟩ := derefFuel_succ E
  unfold derefC at hd
  unfold mapTy at he
  cases hel : t.elem? with
  | some x =>
    simp only [hel, Res.ok.injEq, Prod.mk.injEq] at hd
    obtain ⟨h1, h2⟩ := hd
    subst h1 h2
    rw [hn] at he
    cases t with
    | base c => simp [ATy.elem?] at hel
    | named c r nm => simp [ATy.elem?] at hel
    | list a => simp [deref] at he
    | set a => simp [deref] at he
    | map k' w' => simp [deref] at he; simp [ATy.elem?, ATy.key?, he.1, he.2.1, he.2.2]
  | none =>
    simp only [hel] at hd
    cases hdr : deref E E.derefFuel g t with
    | none => simp [hdr] at hd
    | some p =>
      obtain ⟨g1, t1⟩ := p
      simp only [hdr] at hd he
      split at hd
      · simp only [Res.ok.injEq, Prod.mk.injEq] at hd
        obtain ⟨h1, h2⟩ := hd
        subst h1 h2
        cases t1 <;> simp [ATy.elem?, ATy.key?] at he ⊢ <;> simp [he.1, he.2.1, he.2.2]
      · cases hd

theorem bin2str_cat_ne (k : ATy) : (bin2str k).cat = if k.cat = .bin then .str else k.cat := by
  cases k with
  | base c => cases c <;> simp [bin2str, ATy.cat]
  | named c r n => cases c <;> simp [bin2str, ATy.cat]
  | list e => simp [bin2str, ATy.cat]
  | set e => simp [bin2str, ATy.cat]
  | map a b => simp [bin2str, ATy.cat]

theorem bin2str_eq_of_ne (k : ATy) (h : k.cat ≠ .bin) : bin2str k = k := by
  cases k with
  | base c => cases c <;> simp_all [bin2str, ATy.cat]
  | named c r n => cases c <;> simp_all [bin2str, ATy.cat]
  | list e => simp [bin2str]
  | set e => simp [bin2str]
  | map a b => simp [bin2str]

/-- the IDL side reads a key of a binary type like a key of a string type -/
theorem evalIDL_bin2str (E : Env) (ρ : ConstEnv) (gt gv : Nat) (k : ATy) (v : CV) :
    evalIDL E ρ gt gv (bin2str k) v = evalIDL E ρ gt gv k v := by
  by_cases h : k.cat = .bin
  · have h2 : (bin2str k).cat = .str := by rw [bin2str_cat_ne]; simp [h]
    rw [evalIDL.eq_def, evalIDL.eq_def]
    simp only [h, h2]
  · rw [bin2str_eq_of_ne k h]

/-- a value of a binary type is a byte string -/
theorem evalIDL_bin_bytes {E : Env} {ρ : ConstEnv} {gt gv : Nat} {k : ATy} {v : CV} {w : GoVal}
    (hc : k.cat = .bin) (h : evalIDL E ρ gt gv k v = some w) : ∃ b, w = .bytes b := by
  rw [evalIDL.eq_def] at h
  simp only [hc] at h
  unfold idlStr at h
  cases v with
  | lit s => cases hi : interp s <;> simp [hi] at h; exact ⟨_, h.symm⟩
  | ident s x =>
    simp only at h
    split at h
    · cases h
    · cases hr : refValue E ρ gv x with
      | none => simp [hr] at h
      | some u => cases u <;> simp [hr] at h; exact ⟨_, h.symm⟩
  | int n => simp at h
  | dbl b tx => simp at h
  | list xs => simp at h
  | map kvs => simp at h

theorem evalGo_elemValue (E : Env) (ρ : ConstEnv) (t : ATy) (e : GoExpr) :
    evalGo E ρ (elemValue E t e) = evalGo E ρ e := by
  unfold elemValue
  split
  · split <;> simp [evalGo]
  · rfl

theorem evalGo_keyValue {E : Env} {ρ : ConstEnv} {kt : ATy} {k : CV} {e : GoExpr} {w : GoVal}
    (he : evalGo E ρ e = some w) (hb : kt.cat = .bin → ∃ b, w = .bytes b) :
    evalGo E ρ (keyValue kt k e) = some w := by
  unfold keyValue
  split
  · rename_i hc
    simp only [Bool.and_eq_true, beq_iff_eq] at hc
    obtain ⟨b, hw⟩ := hb hc.1
    subst hw
    simp [evalGo, he]
  · exact he

theorem redirect_sound {E : Env} {ρG : ConstEnv} {f : AField} {typ : GoTy} {v : CV} {e : GoExpr} {x : GoVal}
    {root gv file : Nat} (hr : resolveConst E root gv file f.ty v = .ok e) (hok : addrOK f v = true)
    (he : evalGo E ρG e = some x) : evalGo E ρG (redirect f typ e) = some x := by
  unfold redirect
  cases hn : needRedirect f with
  | false => simpa using he
  | true =>
    simp only [if_true]
    cases hb : (f.ty.cat.isBase || f.ty.cat == .enum) with
    | true => simp [GoExpr.startsAmp, evalGo, he]
    | false =>
      simp only [Bool.false_eq_true, if_false]
      have hc : f.ty.cat = .strct := by
        unfold needRedirect at hn
        by_cases h1 : (f.ty.cat == Cat.strct) = true
        · simpa using h1
        · simp only [h1, if_false, Bool.false_eq_true] at hn
          by_cases h2 : (f.req == .optional && f.dflt.isNone) = true
          · simp only [h2, if_true] at hn
            by_cases h3 : (f.ty.cat == Cat.bin) = true
            · simp [h3] at hn
            · simp only [h3, if_false, Bool.false_eq_true] at hn
              rw [hb] at hn; cases hn
          · simp [h2] at hn
      have hm : isMapLit v = true := by
        simp only [addrOK, hc, bne_self_eq_false, Bool.false_or] at hok
        exact hok
      cases v with
      | map kvs =>
        rw [resolveConst.eq_def] at hr
        simp only [hc] at hr
        cases htn : typeName E root file f.ty with
        | err => simp [htn] at hr
        | panic => simp [htn] at hr
        | ok ty =>
          simp only [htn] at hr
          cases hso : structOf E file f.ty with
          | err => simp [hso] at hr
          | panic => simp [hso] at hr
          | ok p =>
            obtain ⟨fl, st⟩ := p
            simp only [hso] at hr
            cases hm2 : resolveMembers E root gv fl st kvs with
            | err => simp [hm2] at hr
            | panic => simp [hm2] at hr
            | ok ents =>
              simp only [hm2, Res.ok.injEq] at hr
              subst hr
              simpa [GoExpr.startsAmp] using he
      | int n => simp [isMapLit] at hm
      | dbl b tx => simp [isMapLit] at hm
      | lit s => simp [isMapLit] at hm
      | ident s x => simp [isMapLit] at hm
      | list xs => simp [isMapLit] at hm

end Gen.Defaults

namespace Gen.Defaults

section main
set_option linter.unusedSectionVars false
variable {E : Env} {ρG ρI : ConstEnv} (ha : EnvAgree E ρG ρI) (root gv : Nat)
include ha

/-- all types whose initialisers are not recursive -/
theorem rc_scalar {v : CV} {g : Nat} {t : ATy} {e : GoExpr} {val : GoVal}
    (hsc : t.cat ≠ .list ∧ t.cat ≠ .set ∧ t.cat ≠ .map ∧ t.cat ≠ .strct)
    (h : resolveConst E root gv g t v = .ok e)
    (hI : evalIDL E ρI g gv t v = some val) : evalGo E ρG e = some val := by
  rw [resolveConst.eq_def] at h
  rw [evalIDL.eq_def] at hI
  cases hc : t.cat with
  | bool => simp only [hc] at h hI; exact onBool_sound ha h hI
  | i8 => simp only [hc] at h hI; exact onInt_sound ha (by simp [hc, Cat.intBits]) h hI
  | i16 => simp only [hc] at h hI; exact onInt_sound ha (by simp [hc, Cat.intBits]) h hI
  | i32 => simp only [hc] at h hI; exact onInt_sound ha (by simp [hc, Cat.intBits]) h hI
  | i64 => simp only [hc] at h hI; exact onInt_sound ha (by simp [hc, Cat.intBits]) h hI
  | dbl => simp only [hc] at h hI; exact onDouble_sound ha h hI
  | str => simp only [hc] at h hI; exact onStrBin_sound ha h hI
  | bin => simp only [hc] at h hI; exact onStrBin_sound ha h hI
  | enum => simp only [hc] at h hI; exact onEnum_sound ha h hI
  | list => exact absurd hc hsc.1
  | set => exact absurd hc hsc.2.1
  | map => exact absurd hc hsc.2.2.1
  | strct => exact absurd hc hsc.2.2.2

/-- an identifier as initialiser of a container or struct-like -/
theorem rc_ident_composite {s : Bytes} {x : Option Extra} {g : Nat} {t : ATy} {e : GoExpr} {val : GoVal}
    (hsc : t.cat = .list ∨ t.cat = .set ∨ t.cat = .map ∨ t.cat = .strct)
    (h : resolveConst E root gv g t (.ident s x) = .ok e)
    (hI : evalIDL E ρI g gv t (.ident s x) = some val) : evalGo E ρG e = some val := by
  have hs' : gv = gv ∨ x = none := Or.inl rfl
  rw [resolveConst.eq_def] at h
  rw [evalIDL.eq_def] at hI
  -- what the four cases share
  have common : ∀ (fallback : Res GoExpr),
      (match getID E gv x with
        | .ok (some r) => Res.ok (GoExpr.ident r)
        | .panic => Res.panic
        | _ => fallback) = Res.ok e →
      ∀ w, refValue E ρI gv x = some w → evalGo E ρG e = some w := by
    intro fb h w hw
    cases hid : getID E gv x with
    | panic => simp [hid] at h
    | err => exact absurd hid getID_not_err
    | ok o =>
      cases o with
      | none => have := getID_none ha hid hs'; rw [this] at hw; cases hw
      | some r =>
        simp only [hid, Res.ok.injEq] at h
        subst h
        exact getID_sound ha hid hs' hw
  cases htn : typeName E root g t with
  | err => rcases hsc with hc | hc | hc | hc <;> simp [hc, htn] at h
  | panic => rcases hsc with hc | hc | hc | hc <;> simp [hc, htn] at h
  | ok ty =>
    cases hr : refValue E ρI gv x with
    | none => rcases hsc with hc | hc | hc | hc <;> simp [hc, hr] at hI
    | some w =>
      rcases hsc with hc | hc | hc | hc <;> simp only [hc, htn] at h hI
      · cases hd : derefC E g t with
        | err => simp [hd] at h
        | panic => simp [hd] at h
        | ok p =>
          simp only [hd] at h
          have := common _ h w hr
          cases w <;> simp [hr] at hI
          subst hI; exact this
      · cases hd : derefC E g t with
        | err => simp [hd] at h
        | panic => simp [hd] at h
        | ok p =>
          simp only [hd] at h
          have := common _ h w hr
          cases w <;> simp [hr] at hI
          subst hI; exact this
      · cases hd : derefC E g t with
        | err => simp [hd] at h
        | panic => simp [hd] at h
        | ok p =>
          simp only [hd] at h
          have := common _ h w hr
          cases w <;> simp [hr] at hI
          subst hI; exact this
      · have := common _ h w hr
        cases w <;> simp [hr] at hI
        subst hI; exact this

theorem rc_leaf {v : CV} {g : Nat} {t : ATy} {e : GoExpr} {val : GoVal} (hl : v.isLeaf = true)
    (h : resolveConst E root gv g t v = .ok e)
    (hI : evalIDL E ρI g gv t v = some val) : evalGo E ρG e = some val := by
  by_cases hsc : t.cat ≠ .list ∧ t.cat ≠ .set ∧ t.cat ≠ .map ∧ t.cat ≠ .strct
  · exact rc_scalar ha root gv hsc h hI
  · have hcomp : t.cat = .list ∨ t.cat = .set ∨ t.cat = .map ∨ t.cat = .strct := by
      cases hc : t.cat <;> simp_all
    cases v with
    | ident s x => exact rc_ident_composite ha root gv hcomp h hI
    | list xs => simp [CV.isLeaf] at hl
    | map kvs => simp [CV.isLeaf] at hl
    | int n => rw [evalIDL.eq_def] at hI; rcases hcomp with hc | hc | hc | hc <;> simp [hc] at hI
    | dbl b tx => rw [evalIDL.eq_def] at hI; rcases hcomp with hc | hc | hc | hc <;> simp [hc] at hI
    | lit s => rw [evalIDL.eq_def] at hI; rcases hcomp with hc | hc | hc | hc <;> simp [hc] at hI

omit ha in
theorem list_case {xs : List CV} {g : Nat} {t : ATy} {e : GoExpr} {val : GoVal}
    (ih : ∀ (g : Nat) (et : ATy) (es : List GoExpr) (vals : List GoVal),
      resolveList E root gv g (some et) xs = .ok es → goodL E g et xs = true →
      evalIDLList E ρI g gv et xs = some vals → evalGoList E ρG es = some vals)
    (hc : t.cat = .list ∨ t.cat = .set)
    (h : resolveConst E root gv g t (.list xs) = .ok e)
    (hg : good E g t (.list xs) = true) (hI : evalIDL E ρI g gv t (.list xs) = some val) :
    evalGo E ρG e = some val := by
  rw [resolveConst.eq_def] at h
  rw [evalIDL.eq_def] at hI
  rw [good.eq_def] at hg
  rcases hc with hc | hc
  all_goals
    simp only [hc] at h hI hg
    cases htn : typeName E root g t with
    | err => simp [htn] at h
    | panic => simp [htn] at h
    | ok ty =>
      simp only [htn] at h
      cases hd : derefC E g t with
      | err => simp [hd] at h
      | panic => simp [hd] at h
      | ok p =>
        obtain ⟨g', t'⟩ := p
        simp only [hd] at h hg
        cases hrl : resolveList E root gv g' t'.elem? xs with
        | err => simp [hrl] at h
        | panic => simp [hrl] at h
        | ok es =>
          simp only [hrl, Res.ok.injEq] at h
          subst h
          cases het : elemTy E g t with
          | none => simp [het] at hI
          | some q =>
            obtain ⟨g2, et⟩ := q
            obtain ⟨hg2, hel⟩ := derefC_elemTy hd het
            subst hg2
            simp only [het] at hI
            rw [hel] at hrl
            simp only [hel] at hg
            cases hl : evalIDLList E ρI g2 gv et xs with
            | none => simp [hl] at hI
            | some vals =>
              simp only [hl, Option.map_some, Option.some.injEq] at hI
              subst hI
              have := ih g2 et es vals hrl hg hl
              simp [evalGo, this]

omit ha in
/-- `{}` written for a list or set (and, on the Go side, any other map literal: fault tolerance) -/
theorem list_wrongkind {kvs : List (CV × CV)} {g : Nat} {t : ATy} {e : GoExpr} {val : GoVal}
    (hc : t.cat = .list ∨ t.cat = .set)
    (h : resolveConst E root gv g t (.map kvs) = .ok e) (hI : evalIDL E ρI g gv t (.map kvs) = some val) :
    evalGo E ρG e = some val := by
  rw [resolveConst.eq_def] at h
  rw [evalIDL.eq_def] at hI
  rcases hc with hc | hc
  all_goals
    simp only [hc] at h hI
    cases htn : typeName E root g t with
    | err => simp [htn] at h
    | panic => simp [htn] at h
    | ok ty =>
      simp only [htn] at h
      cases hd : derefC E g t with
      | err => simp [hd] at h
      | panic => simp [hd] at h
      | ok p =>
        simp only [hd, Res.ok.injEq] at h
        subst h
        split at hI
        · simp only [Option.some.injEq] at hI; subst hI; simp [evalGo, evalGoList]
        · cases hI

omit ha in
theorem map_wrongkind {xs : List CV} {g : Nat} {t : ATy} {e : GoExpr} {val : GoVal}
    (hc : t.cat = .map)
    (h : resolveConst E root gv g t (.list xs) = .ok e) (hI : evalIDL E ρI g gv t (.list xs) = some val) :
    evalGo E ρG e = some val := by
  rw [resolveConst.eq_def] at h
  rw [evalIDL.eq_def] at hI
  simp only [hc] at h hI
  cases htn : typeName E root g t with
  | err => simp [htn] at h
  | panic => simp [htn] at h
  | ok ty =>
    simp only [htn] at h
    cases hd : derefC E g t with
    | err => simp [hd] at h
    | panic => simp [hd] at h
    | ok p =>
      simp only [hd, Res.ok.injEq] at h
      subst h
      split at hI
      · simp only [Option.some.injEq] at hI; subst hI; simp [evalGo, evalGoPairs]
      · cases hI

omit ha in
theorem map_case {kvs : List (CV × CV)} {g : Nat} {t : ATy} {e : GoExpr} {val : GoVal}
    (ih : ∀ (g : Nat) (kt vt : ATy) (es : List (GoExpr × GoExpr)) (vals : List (GoVal × GoVal)),
      resolvePairs E root gv g (some kt) (some vt) kvs = .ok es →
      goodP E g (bin2str kt) vt kvs = true →
      evalIDLPairs E ρI g gv kt vt kvs = some vals → evalGoPairs E ρG es = some vals)
    (hc : t.cat = .map)
    (h : resolveConst E root gv g t (.map kvs) = .ok e)
    (hg : good E g t (.map kvs) = true) (hI : evalIDL E ρI g gv t (.map kvs) = some val) :
    evalGo E ρG e = some val := by
  rw [resolveConst.eq_def] at h
  rw [evalIDL.eq_def] at hI
  rw [good.eq_def] at hg
  simp only [hc] at h hI hg
  cases htn : typeName E root g t with
  | err => simp [htn] at h
  | panic => simp [htn] at h
  | ok ty =>
    simp only [htn] at h
    cases hd : derefC E g t with
    | err => simp [hd] at h
    | panic => simp [hd] at h
    | ok p =>
      obtain ⟨g', t'⟩ := p
      simp only [hd] at h hg
      cases hrl : resolvePairs E root gv g' t'.key? t'.elem? kvs with
      | err => simp [hrl] at h
      | panic => simp [hrl] at h
      | ok es =>
        simp only [hrl, Res.ok.injEq] at h
        subst h
        cases het : mapTy E g t with
        | none => simp [het] at hI
        | some q =>
          obtain ⟨g2, kt, vt⟩ := q
          obtain ⟨hg2, hk, hel⟩ := derefC_mapTy hd het
          subst hg2
          simp only [het] at hI
          rw [hk, hel] at hrl
          simp only [hk, hel] at hg
          cases hl : evalIDLPairs E ρI g2 gv kt vt kvs with
          | none => simp [hl] at hI
          | some vals =>
            simp only [hl, Option.map_some, Option.some.injEq] at hI
            subst hI
            have := ih g2 kt vt es vals hrl hg hl
            simp [evalGo, this]

omit ha in
theorem struct_case {kvs : List (CV × CV)} {g : Nat} {t : ATy} {e : GoExpr} {val : GoVal}
    (ih : ∀ (file : Nat) (st : AStruct) (ents : List (Nat × GoExpr)) (vals : List (Nat × GoVal)),
      resolveMembers E root gv file st kvs = .ok ents → goodM E file st kvs = true →
      evalIDLMembers E ρI file gv st kvs = some vals → evalGoEnts E ρG ents = some vals)
    (hc : t.cat = .strct)
    (h : resolveConst E root gv g t (.map kvs) = .ok e)
    (hg : good E g t (.map kvs) = true) (hI : evalIDL E ρI g gv t (.map kvs) = some val) :
    evalGo E ρG e = some val := by
  rw [resolveConst.eq_def] at h
  rw [evalIDL.eq_def] at hI
  rw [good.eq_def] at hg
  simp only [hc] at h hI hg
  cases htn : typeName E root g t with
  | err => simp [htn] at h
  | panic => simp [htn] at h
  | ok ty =>
    simp only [htn] at h
    cases hso : structOf E g t with
    | err => simp [hso] at h
    | panic => simp [hso] at h
    | ok p =>
      obtain ⟨file, st⟩ := p
      simp only [hso] at h hI hg
      cases hrm : resolveMembers E root gv file st kvs with
      | err => simp [hrm] at h
      | panic => simp [hrm] at h
      | ok ents =>
        simp only [hrm, Res.ok.injEq] at h
        subst h
        cases hl : evalIDLMembers E ρI file gv st kvs with
        | none => simp [hl] at hI
        | some vals =>
          simp only [hl, Option.map_some, Option.some.injEq] at hI
          subst hI
          have := ih file st ents vals hrm hg hl
          simp [evalGo, structOf_find hso, this]

omit ha in
theorem struct_list {xs : List CV} {g : Nat} {t : ATy} {e : GoExpr}
    (hc : t.cat = .strct) (h : resolveConst E root gv g t (.list xs) = .ok e) : False := by
  rw [resolveConst.eq_def] at h
  simp only [hc] at h
  cases htn : typeName E root g t <;> simp [htn] at h

mutual
theorem rc_sound : ∀ (v : CV) (g : Nat) (t : ATy) (e : GoExpr) (val : GoVal),
    resolveConst E root gv g t v = .ok e → good E g t v = true →
    evalIDL E ρI g gv t v = some val → evalGo E ρG e = some val
  | .int n, _, _, _, _, h, _, hI => rc_leaf ha root gv rfl h hI
  | .dbl b tx, _, _, _, _, h, _, hI => rc_leaf ha root gv rfl h hI
  | .lit s, _, _, _, _, h, _, hI => rc_leaf ha root gv rfl h hI
  | .ident s x, _, _, _, _, h, _, hI => rc_leaf ha root gv rfl h hI
  | .list xs, g, t, e, val, h, hg, hI => by
      by_cases hsc : t.cat ≠ .list ∧ t.cat ≠ .set ∧ t.cat ≠ .map ∧ t.cat ≠ .strct
      · exact rc_scalar ha root gv hsc h hI
      · cases hc : t.cat with
        | list => exact list_case root gv (rl_sound xs) (Or.inl hc) h hg hI
        | set => exact list_case root gv (rl_sound xs) (Or.inr hc) h hg hI
        | map => exact map_wrongkind root gv hc h hI
        | strct => exact (struct_list root gv hc h).elim
        | _ => simp_all
  | .map kvs, g, t, e, val, h, hg, hI => by
      by_cases hsc : t.cat ≠ .list ∧ t.cat ≠ .set ∧ t.cat ≠ .map ∧ t.cat ≠ .strct
      · exact rc_scalar ha root gv hsc h hI
      · cases hc : t.cat with
        | list => exact list_wrongkind root gv (Or.inl hc) h hI
        | set => exact list_wrongkind root gv (Or.inr hc) h hI
        | map => exact map_case root gv (rp_sound kvs) hc h hg hI
        | strct => exact struct_case root gv (rm_sound kvs) hc h hg hI
        | _ => simp_all
theorem rl_sound : ∀ (xs : List CV) (g : Nat) (et : ATy) (es : List GoExpr) (vals : List GoVal),
    resolveList E root gv g (some et) xs = .ok es → goodL E g et xs = true →
    evalIDLList E ρI g gv et xs = some vals → evalGoList E ρG es = some vals
  | [], _, _, es, vals, h, _, hI => by
      simp only [resolveList, Res.ok.injEq] at h
      simp only [evalIDLList, Option.some.injEq] at hI
      subst h hI
      simp [evalGoList]
  | x :: r, g, et, es, vals, h, hg, hI => by
      simp only [resolveList] at h
      simp only [evalIDLList] at hI
      simp only [goodL, Bool.and_eq_true] at hg
      cases h1 : resolveConst E root gv g et x with
      | err => simp [h1] at h
      | panic => simp [h1] at h
      | ok a =>
        simp only [h1] at h
        cases h2 : resolveList E root gv g (some et) r with
        | err => simp [h2] at h
        | panic => simp [h2] at h
        | ok rest =>
          simp only [h2, Res.ok.injEq] at h
          subst h
          cases hv : evalIDL E ρI g gv et x with
          | none => simp [hv] at hI
          | some w =>
            simp only [hv] at hI
            cases hvs : evalIDLList E ρI g gv et r with
            | none => simp [hvs] at hI
            | some ws =>
              simp only [hvs, Option.map_some, Option.some.injEq] at hI
              subst hI
              have e1 := rc_sound x g et a w h1 hg.1 hv
              have e2 := rl_sound r g et rest ws h2 hg.2 hvs
              simp [evalGoList, evalGo_elemValue, e1, e2]
theorem rp_sound : ∀ (kvs : List (CV × CV)) (g : Nat) (kt vt : ATy) (es : List (GoExpr × GoExpr)) (vals : List (GoVal × GoVal)),
    resolvePairs E root gv g (some kt) (some vt) kvs = .ok es →
    goodP E g (bin2str kt) vt kvs = true →
    evalIDLPairs E ρI g gv kt vt kvs = some vals → evalGoPairs E ρG es = some vals
  | [], _, _, _, es, vals, h, _, hI => by
      simp only [resolvePairs, Res.ok.injEq] at h
      simp only [evalIDLPairs, Option.some.injEq] at hI
      subst h hI
      simp [evalGoPairs]
  | (k, v) :: r, g, kt, vt, es, vals, h, hg, hI => by
      simp only [resolvePairs] at h
      simp only [evalIDLPairs] at hI
      simp only [goodP, Bool.and_eq_true] at hg
      cases h1 : resolveConst E root gv g (bin2str kt) k with
      | err => simp [h1] at h
      | panic => simp [h1] at h
      | ok a =>
        simp only [h1] at h
        cases h2 : resolveConst E root gv g vt v with
        | err => simp [h2] at h
        | panic => simp [h2] at h
        | ok b =>
          simp only [h2] at h
          cases h3 : resolvePairs E root gv g (some kt) (some vt) r with
          | err => simp [h3] at h
          | panic => simp [h3] at h
          | ok rest =>
            simp only [h3, Res.ok.injEq] at h
            subst h
            cases hk : evalIDL E ρI g gv kt k with
            | none => simp [hk] at hI
            | some wk =>
              simp only [hk] at hI
              cases hv : evalIDL E ρI g gv vt v with
              | none => simp [hv] at hI
              | some wv =>
                simp only [hv] at hI
                cases hvs : evalIDLPairs E ρI g gv kt vt r with
                | none => simp [hvs] at hI
                | some ws =>
                  simp only [hvs, Option.map_some, Option.some.injEq] at hI
                  subst hI
                  have hk' : evalIDL E ρI g gv (bin2str kt) k = some wk := by rw [evalIDL_bin2str]; exact hk
                  have e1 := rc_sound k g (bin2str kt) a wk h1 hg.1.1 hk'
                  have e1' := evalGo_keyValue (kt := kt) (k := k) e1 (fun hb => evalIDL_bin_bytes hb hk)
                  have e2 := rc_sound v g vt b wv h2 hg.1.2 hv
                  have e3 := rp_sound r g kt vt rest ws h3 hg.2 hvs
                  simp [evalGoPairs, evalGo_elemValue, e1', e2, e3]
theorem rm_sound : ∀ (kvs : List (CV × CV)) (file : Nat) (st : AStruct) (ents : List (Nat × GoExpr)) (vals : List (Nat × GoVal)),
    resolveMembers E root gv file st kvs = .ok ents → goodM E file st kvs = true →
    evalIDLMembers E ρI file gv st kvs = some vals → evalGoEnts E ρG ents = some vals
  | [], _, _, ents, vals, h, _, hI => by
      simp only [resolveMembers, Res.ok.injEq] at h
      simp only [evalIDLMembers, Option.some.injEq] at hI
      subst h hI
      simp [evalGoEnts]
  | (k, v) :: r, file, st, ents, vals, h, hg, hI => by
      simp only [resolveMembers] at h
      simp only [evalIDLMembers] at hI
      simp only [goodM, Bool.and_eq_true] at hg
      cases k with
      | int n => simp at h
      | dbl b tx => simp at h
      | ident s x => simp at h
      | list xs => simp at h
      | map m => simp at h
      | lit n =>
        simp only at h hI hg
        cases hf : findField st.fields n with
        | none => simp [hf] at h
        | some p =>
          obtain ⟨idx, f⟩ := p
          simp only [hf] at h hI hg
          simp only [Bool.and_eq_true] at hg
          cases htn : typeName E root file f.ty with
          | err => simp [htn] at h
          | panic => simp [htn] at h
          | ok typ =>
            simp only [htn] at h
            cases h1 : resolveConst E root gv file f.ty v with
            | err => simp [h1] at h
            | panic => simp [h1] at h
            | ok e =>
              simp only [h1] at h
              cases h2 : resolveMembers E root gv file st r with
              | err => simp [h2] at h
              | panic => simp [h2] at h
              | ok rest =>
                simp only [h2, Res.ok.injEq] at h
                subst h
                cases hv : evalIDL E ρI file gv f.ty v with
                | none => simp [hv] at hI
                | some w =>
                  simp only [hv] at hI
                  cases hvs : evalIDLMembers E ρI file gv st r with
                  | none => simp [hvs] at hI
                  | some ws =>
                    simp only [hvs, Option.map_some, Option.some.injEq] at hI
                    subst hI
                    have e1 := rc_sound v file f.ty e w h1 hg.1.2 hv
                    have e1' := redirect_sound (typ := typ) h1 hg.1.1 e1
                    have e2 := rm_sound r file st rest ws h2 hg.2 hvs
                    simp [evalGoEnts, e1', e2]
end

end main
end Gen.Defaults

namespace Gen.Defaults

theorem findConst_hasGlobal {E : Env} {f : Nat} {n : Name} {c : AConst} (h : E.findConst f n = some c) :
    E.hasGlobal f n = true := by
  unfold Env.findConst at h
  unfold Env.hasGlobal
  cases hf : E.file? f with
  | none => simp [hf] at h
  | some fe =>
    simp only [hf] at h ⊢
    have hp := List.find?_some h
    have hm := List.mem_of_find?_eq_some h
    unfold FileEnv.hasGlobal
    have : fe.consts.any (fun x => x.name == n) = true := List.any_eq_true.mpr ⟨c, hm, hp⟩
    simp [this]

theorem envAgree (E : Env) (hacc : Accepted E) (hgood : EnvGood E) :
    ∀ fuel, EnvAgree E (goEnvOf E fuel) (idlEnvOf E fuel)
  | 0 => ⟨by intro f n v h; simp [idlEnvOf] at h, by intro f n v h; simp [idlEnvOf] at h⟩
  | fuel + 1 => by
    have ih := envAgree E hacc hgood fuel
    constructor
    · intro f n v h
      simp only [idlEnvOf] at h
      simp only [goEnvOf]
      cases hc : E.findConst f n with
      | none => simp [hc] at h
      | some c =>
        simp only [hc] at h ⊢
        obtain ⟨e, he⟩ := hacc f n c hc
        simp only [he]
        exact rc_sound ih f f c.val f c.ty e v he (hgood f n c hc) h
    · intro f n v h
      simp only [idlEnvOf] at h
      cases hc : E.findConst f n with
      | none => simp [hc] at h
      | some c => exact findConst_hasGlobal hc

end Gen.Defaults

namespace Gen.Defaults

theorem initDefault_zero (sd : StructDef) : initDefault sd (zeroStruct sd) = newX sd := by
  simp only [zeroStruct, initDefault, newX]
  congr 1
  induction sd.fields with
  | nil => rfl
  | cons f r ih =>
    simp only [List.map_cons, List.zip_cons_cons]
    rw [ih]
    cases hd : f.dflt <;> simp

theorem getter_unset (f : FieldDef) (v : GoVal) (hs : supportIsSet f = true) (hu : Std.isSet f v = false) :
    getter f v = defaultVar f := by
  simp [getter, hs, hu]

end Gen.Defaults

namespace Gen.Defaults

theorem bFalse_ne_bTrue : bFalse ≠ bTrue := by decide

theorem getID_cases (E : Env) (g : Nat) (x : Option Extra) :
    (∃ r, getID E g x = .ok (some r)) ∨ getID E g x = .ok none ∨ getID E g x = .panic := by
  cases h : getID E g x with
  | ok o => cases o with
    | none => exact Or.inr (Or.inl rfl)
    | some r => exact Or.inl ⟨r, rfl⟩
  | err => exact absurd h getID_not_err
  | panic => exact Or.inr (Or.inr rfl)

theorem onBool_isOk (E : Env) (g : Nat) (v : CV) :
    resOk (onBool E g v) = accBool E g v := by
  unfold accBool
  cases v with
  | ident s x =>
    simp only [onBool, isTF, idResolves]
    by_cases h1 : s = bTrue
    · simp [h1, resOk]
    · by_cases h2 : s = bFalse
      · simp [h2, resOk, bFalse_ne_bTrue]
      · simp only [h1, h2, if_false]
        rcases getID_cases E g x with ⟨r, h⟩ | h | h <;> simp [h, resOk]
  | _ => simp [onBool, resOk]

theorem onDouble_isOk (E : Env) (g : Nat) (v : CV) :
    resOk (onDouble E g v) = accDouble E g v := by
  unfold accDouble
  cases v with
  | ident s x =>
    simp only [onDouble, isTF, idResolves]
    by_cases h1 : s = bTrue
    · simp [h1, resOk]
    · by_cases h2 : s = bFalse
      · simp [h2, resOk, bFalse_ne_bTrue]
      · simp only [h1, h2, if_false]
        rcases getID_cases E g x with ⟨r, h⟩ | h | h <;> simp [h, resOk]
  | _ => simp [onDouble, resOk]

theorem onInt_isOk (E : Env) (root g gv : Nat) (t : ATy) (v : CV) :
    resOk (onInt E root g gv t v) = accInt E root g gv t v := by
  unfold accInt
  cases v with
  | ident s x =>
    simp only [onInt, isTF, idResolves]
    by_cases h1 : s = bTrue
    · simp [h1, resOk]
    · by_cases h2 : s = bFalse
      · simp [h2, resOk, bFalse_ne_bTrue]
      · simp only [h1, h2, if_false]
        rcases getID_cases E gv x with ⟨r, h⟩ | h | h
        · cases htn : typeName E root g t <;> simp [h, resOk, noPanic]
        · simp [h, resOk]
        · simp [h, resOk]
  | _ => simp [onInt, resOk]

theorem onEnum_isOk (E : Env) (g : Nat) (v : CV) :
    resOk (onEnum E g v) = accEnum E g v := by
  unfold accEnum
  cases v with
  | ident s x =>
    simp only [onEnum, idResolves]
    rcases getID_cases E g x with ⟨r, h⟩ | h | h <;> simp [h, resOk]
  | _ => simp [onEnum, resOk]

theorem onStrBin_isOk (E : Env) (g : Nat) (t : ATy) (v : CV) :
    resOk (onStrBin E g t v) = accStr E g v := by
  have core : resOk (strBinCore E g v) = accStr E g v := by
    unfold accStr
    cases v with
    | ident s x =>
      simp only [strBinCore, isTF, idResolves]
      by_cases hb : (s = bTrue || s = bFalse) = true
      · simp only [hb, if_true]; simp [resOk]
      · simp only [hb, Bool.false_eq_true, if_false]
        rcases getID_cases E g x with ⟨r, h⟩ | h | h <;> simp [h, resOk]
    | _ => simp [strBinCore, resOk]
  rw [← core]
  unfold onStrBin
  cases strBinCore E g v with
  | ok e => by_cases hc : (t.cat == Cat.bin) = true <;> simp [hc, resOk]
  | err => rfl
  | panic => rfl

/-- scalars: thriftgo accepts exactly the kinds of the catalogue -/
theorem scalar_isOk (E : Env) (root gv g : Nat) (t : ATy) (v : CV)
    (hsc : t.cat ≠ .list ∧ t.cat ≠ .set ∧ t.cat ≠ .map ∧ t.cat ≠ .strct) :
    resOk (resolveConst E root gv g t v) = accScalar E root gv g t v := by
  rw [resolveConst.eq_def]
  unfold accScalar
  cases hc : t.cat with
  | bool => simp only [hc]; exact onBool_isOk E gv v
  | i8 => simp only [hc]; rw [onInt_isOk]
  | i16 => simp only [hc]; rw [onInt_isOk]
  | i32 => simp only [hc]; rw [onInt_isOk]
  | i64 => simp only [hc]; rw [onInt_isOk]
  | dbl => simp only [hc]; exact onDouble_isOk E gv v
  | str => simp only [hc]; exact onStrBin_isOk E gv t v
  | bin => simp only [hc]; exact onStrBin_isOk E gv t v
  | enum => simp only [hc]; exact onEnum_isOk E gv v
  | list => exact absurd hc hsc.1
  | set => exact absurd hc hsc.2.1
  | map => exact absurd hc hsc.2.2.1
  | strct => exact absurd hc hsc.2.2.2

theorem accepts_scalar (E : Env) (root gv g : Nat) (t : ATy) (v : CV)
    (hsc : t.cat ≠ .list ∧ t.cat ≠ .set ∧ t.cat ≠ .map ∧ t.cat ≠ .strct) :
    accepts E root gv g t v = accScalar E root gv g t v := by
  rw [accepts.eq_def]
  cases hc : t.cat <;> simp_all

/-- composite types with a leaf initializer (number, literal, identifier) -/
theorem leaf_isOk (E : Env) (root gv g : Nat) (t : ATy) (v : CV) (hl : v.isLeaf = true) :
    resOk (resolveConst E root gv g t v) = accepts E root gv g t v := by
  by_cases hsc : t.cat ≠ .list ∧ t.cat ≠ .set ∧ t.cat ≠ .map ∧ t.cat ≠ .strct
  · rw [scalar_isOk E root gv g t v hsc, accepts_scalar E root gv g t v hsc]
  · rw [resolveConst.eq_def, accepts.eq_def]
    have hcomp : t.cat = .list ∨ t.cat = .set ∨ t.cat = .map ∨ t.cat = .strct := by
      cases hc : t.cat <;> simp_all
    rcases hcomp with hc | hc | hc | hc
    all_goals
      simp only [hc]
      cases htn : typeName E root g t with
      | err => simp [resOk]
      | panic => simp [resOk]
      | ok ty =>
        first
          | (cases hd : derefC E g t with
             | err => simp [resOk]
             | panic => simp [resOk]
             | ok p =>
               cases v with
               | list xs => simp [CV.isLeaf] at hl
               | map kvs => simp [CV.isLeaf] at hl
               | ident s x =>
                 simp only [idPanics, idResolves]
                 rcases getID_cases E gv x with ⟨r, h⟩ | h | h <;> simp [h, resOk]
               | int n => simp [resOk]
               | dbl b tx => simp [resOk]
               | lit s => simp [resOk])
          | (cases v with
             | list xs => simp [CV.isLeaf] at hl
             | map kvs => simp [CV.isLeaf] at hl
             | ident s x =>
               simp only [idPanics, idResolves]
               rcases getID_cases E gv x with ⟨r, h⟩ | h | h <;> simp [h, resOk]
             | int n => simp [resOk]
             | dbl b tx => simp [resOk]
             | lit s => simp [resOk])

section acc
variable (E : Env) (root gv : Nat)

mutual
theorem rc_isOk : ∀ (v : CV) (g : Nat) (t : ATy), resOk (resolveConst E root gv g t v) = accepts E root gv g t v
  | .int n, g, t => leaf_isOk E root gv g t _ rfl
  | .dbl b tx, g, t => leaf_isOk E root gv g t _ rfl
  | .lit s, g, t => leaf_isOk E root gv g t _ rfl
  | .ident s x, g, t => leaf_isOk E root gv g t _ rfl
  | .list xs, g, t => by
      by_cases hsc : t.cat ≠ .list ∧ t.cat ≠ .set ∧ t.cat ≠ .map ∧ t.cat ≠ .strct
      · rw [scalar_isOk E root gv g t _ hsc, accepts_scalar E root gv g t _ hsc]
      · rw [resolveConst.eq_def, accepts.eq_def]
        have hcomp : t.cat = .list ∨ t.cat = .set ∨ t.cat = .map ∨ t.cat = .strct := by
          cases hc : t.cat <;> simp_all
        rcases hcomp with hc | hc | hc | hc
        · simp only [hc]
          cases htn : typeName E root g t with
          | err => simp [resOk]
          | panic => simp [resOk]
          | ok ty =>
            cases hd : derefC E g t with
            | err => simp [resOk]
            | panic => simp [resOk]
            | ok p =>
              obtain ⟨g', t'⟩ := p
              have ih := rl_isOk xs g' t'.elem?
              simp only []
              rw [← ih]
              cases resolveList E root gv g' t'.elem? xs <;> simp [resOk]
        · simp only [hc]
          cases htn : typeName E root g t with
          | err => simp [resOk]
          | panic => simp [resOk]
          | ok ty =>
            cases hd : derefC E g t with
            | err => simp [resOk]
            | panic => simp [resOk]
            | ok p =>
              obtain ⟨g', t'⟩ := p
              have ih := rl_isOk xs g' t'.elem?
              simp only []
              rw [← ih]
              cases resolveList E root gv g' t'.elem? xs <;> simp [resOk]
        · simp only [hc]
          cases htn : typeName E root g t with
          | err => simp [resOk]
          | panic => simp [resOk]
          | ok ty => cases hd : derefC E g t <;> simp [resOk]
        · simp only [hc]
          cases htn : typeName E root g t <;> simp [resOk]
  | .map kvs, g, t => by
      by_cases hsc : t.cat ≠ .list ∧ t.cat ≠ .set ∧ t.cat ≠ .map ∧ t.cat ≠ .strct
      · rw [scalar_isOk E root gv g t _ hsc, accepts_scalar E root gv g t _ hsc]
      · rw [resolveConst.eq_def, accepts.eq_def]
        have hcomp : t.cat = .list ∨ t.cat = .set ∨ t.cat = .map ∨ t.cat = .strct := by
          cases hc : t.cat <;> simp_all
        rcases hcomp with hc | hc | hc | hc
        · simp only [hc]
          cases htn : typeName E root g t with
          | err => simp [resOk]
          | panic => simp [resOk]
          | ok ty => cases hd : derefC E g t <;> simp [resOk]
        · simp only [hc]
          cases htn : typeName E root g t with
          | err => simp [resOk]
          | panic => simp [resOk]
          | ok ty => cases hd : derefC E g t <;> simp [resOk]
        · simp only [hc]
          cases htn : typeName E root g t with
          | err => simp [resOk]
          | panic => simp [resOk]
          | ok ty =>
            cases hd : derefC E g t with
            | err => simp [resOk]
            | panic => simp [resOk]
            | ok p =>
              obtain ⟨g', t'⟩ := p
              have ihp := rp_isOk kvs g' t'.key? t'.elem?
              simp only []
              rw [← ihp]
              cases resolvePairs E root gv g' t'.key? t'.elem? kvs <;> simp [resOk]
        · simp only [hc]
          cases htn : typeName E root g t with
          | err => simp [resOk]
          | panic => simp [resOk]
          | ok ty =>
            cases hso : structOf E g t with
            | err => simp [resOk]
            | panic => simp [resOk]
            | ok p =>
              obtain ⟨file, st⟩ := p
              have ihm := rm_isOk kvs file st
              simp only []
              rw [← ihm]
              cases resolveMembers E root gv file st kvs <;> simp [resOk]
theorem rl_isOk : ∀ (xs : List CV) (g : Nat) (et : Option ATy), resOk (resolveList E root gv g et xs) = acceptsL E root gv g et xs
  | [], g, et => by simp [resolveList, acceptsL, resOk]
  | x :: r, g, none => by simp [resolveList, acceptsL, resOk]
  | x :: r, g, some e => by
      have h1 := rc_isOk x g e
      have h2 := rl_isOk r g (some e)
      simp only [resolveList, acceptsL]
      rw [← h1, ← h2]
      cases resolveConst E root gv g e x with
      | err => simp [resOk]
      | panic => simp [resOk]
      | ok a => cases resolveList E root gv g (some e) r <;> simp [resOk]
theorem rp_isOk : ∀ (kvs : List (CV × CV)) (g : Nat) (kt vt : Option ATy),
    resOk (resolvePairs E root gv g kt vt kvs) = acceptsP E root gv g kt vt kvs
  | [], g, kt, vt => by simp [resolvePairs, acceptsP, resOk]
  | (k, v) :: r, g, some kt, some vt => by
      have h1 := rc_isOk k g (bin2str kt)
      have h2 := rc_isOk v g vt
      have h3 := rp_isOk r g (some kt) (some vt)
      simp only [resolvePairs, acceptsP]
      rw [← h1, ← h2, ← h3]
      cases resolveConst E root gv g (bin2str kt) k with
      | err => simp [resOk]
      | panic => simp [resOk]
      | ok a =>
        cases resolveConst E root gv g vt v with
        | err => simp [resOk]
        | panic => simp [resOk]
        | ok b => cases resolvePairs E root gv g (some kt) (some vt) r <;> simp [resOk]
  | (k, v) :: r, g, none, vt => by simp [resolvePairs, acceptsP, resOk]
  | (k, v) :: r, g, some kt, none => by simp [resolvePairs, acceptsP, resOk]
theorem rm_isOk : ∀ (kvs : List (CV × CV)) (file : Nat) (st : AStruct),
    resOk (resolveMembers E root gv file st kvs) = acceptsM E root gv file st kvs
  | [], file, st => by simp [resolveMembers, acceptsM, resOk]
  | (k, v) :: r, file, st => by
      have h3 := rm_isOk r file st
      cases k with
      | lit n =>
        simp only [resolveMembers, acceptsM]
        cases hf : findField st.fields n with
        | none => simp [resOk]
        | some p =>
          obtain ⟨idx, f⟩ := p
          have h1 := rc_isOk v file f.ty
          simp only []
          rw [← h1, ← h3]
          cases typeName E root file f.ty with
          | err => simp [resOk]
          | panic => simp [resOk]
          | ok typ =>
            cases resolveConst E root gv file f.ty v with
            | err => simp [resOk]
            | panic => simp [resOk]
            | ok e => cases resolveMembers E root gv file st r <;> simp [resOk]
      | int n => simp [resolveMembers, acceptsM, resOk]
      | dbl b tx => simp [resolveMembers, acceptsM, resOk]
      | ident s x => simp [resolveMembers, acceptsM, resOk]
      | list xs => simp [resolveMembers, acceptsM, resOk]
      | map m => simp [resolveMembers, acceptsM, resOk]
end
end acc

end Gen.Defaults
