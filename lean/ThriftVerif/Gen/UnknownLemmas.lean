import ThriftVerif.Gen.Unknown
import ThriftVerif.Gen.StdLemmas
/-
  Gen/UnknownLemmas: `unknown.read` (model `rd`) against the strict untyped decoder of Core/Wire.
  Main result `agrees`: wherever `decW f t` succeeds, `rd f t.code` consumes the same bytes, reports no
  error and appends `encW` of the decoded value — for every protocol scratch state.
-/
namespace Gen.Unknown
open Wire Gen

theorem ofCode_eq {n : Nat} {t : TType} (h : TType.ofCode n = some t) : t.code = n := by
  unfold TType.ofCode at h
  repeat' split at h
  all_goals first | (cases h; simp [TType.code, *]) | cases h

theorem readN_some {n : Nat} {bs : Bytes} {x : Nat} {r : Bytes} (h : readN n bs = some (x, r)) :
    n ≤ bs.length ∧ x = unbe (bs.take n) ∧ r = bs.drop n := by
  unfold readN at h
  split at h
  · cases h
  · simp only [Option.some.injEq, Prod.mk.injEq] at h
    exact ⟨by omega, h.1.symm, h.2.symm⟩

theorem rFix_of_readN {n : Nat} {bs s : Bytes} {x : Nat} {r : Bytes} (h : readN n bs = some (x, r)) :
    ∃ s', rFix n ⟨bs, s⟩ = (x, ⟨r, s'⟩, false) := by
  obtain ⟨hl, hx, hr⟩ := readN_some h
  refine ⟨bs.take n ++ s.drop n, ?_⟩
  have hk : min n bs.length = n := Nat.min_eq_left hl
  have ht : (bs.take n ++ s.drop n).take n = bs.take n := by
    rw [List.take_append_of_le_length (by simp [hk])]
    simp [List.take_take]
  simp only [rFix, hk, ht, hx, hr]
  simp; omega

theorem rStr_of_dec {bs s : Bytes} {n : Nat} {r b r' : Bytes} (h1 : readN 4 bs = some (n, r)) (h2 : ¬ n ≥ maxSize)
    (h3 : readBytes n r = some (b, r')) : ∃ s', rStr ⟨bs, s⟩ = (b, ⟨r', s'⟩, false) := by
  obtain ⟨s1, hs1⟩ := rFix_of_readN (s := s) h1
  unfold readBytes at h3
  split at h3
  · cases h3
  · rename_i hl
    simp only [Option.some.injEq, Prod.mk.injEq] at h3
    simp only [rStr, hs1, Bool.false_eq_true, if_false, h2]
    have : n ≤ r.length := by omega
    simp only [this, if_true, h3.1, h3.2]
    exact ⟨_, rfl⟩

/-- the statement `rd` is proved to satisfy at fuel `f`: wherever the strict decoder succeeds, `read`
consumes the same bytes, reports no error and appends the canonical encoding of the decoded value -/
def Agrees (f : Nat) : Prop :=
  ∀ (t : TType) (bs : Bytes) (w : WVal) (r : Bytes), decW f t bs = some (w, r) →
    ∀ (s out : Bytes), ∃ s', rd f t.code ⟨bs, s⟩ out = ⟨⟨r, s'⟩, out ++ encW w, false⟩

theorem listWith_of_dec (d : Bytes → Option (WVal × Bytes)) (e : St → Bytes → R)
    (h : ∀ bs w r, d bs = some (w, r) → ∀ s out, ∃ s', e ⟨bs, s⟩ out = ⟨⟨r, s'⟩, out ++ encW w, false⟩) :
    ∀ (n : Nat) (bs : Bytes) (xs : List WVal) (r : Bytes), decListWith d n bs = some (xs, r) →
      xs.length = n ∧ ∀ s out, ∃ s', listWith e n ⟨bs, s⟩ out = ⟨⟨r, s'⟩, out ++ encList xs, false⟩ := by
  intro n
  induction n with
  | zero =>
    intro bs xs r hd
    simp only [decListWith, Option.some.injEq, Prod.mk.injEq] at hd
    obtain ⟨rfl, rfl⟩ := hd
    exact ⟨rfl, fun s out => ⟨s, by simp [listWith, encList]⟩⟩
  | succ n ih =>
    intro bs xs r hd
    simp only [decListWith] at hd
    cases h1 : d bs with
    | none => simp [h1] at hd
    | some p =>
      obtain ⟨x, r1⟩ := p
      simp only [h1] at hd
      cases h2 : decListWith d n r1 with
      | none => simp [h2] at hd
      | some q =>
        obtain ⟨ys, r2⟩ := q
        simp only [h2, Option.some.injEq, Prod.mk.injEq] at hd
        obtain ⟨rfl, rfl⟩ := hd
        obtain ⟨hl, hrest⟩ := ih r1 ys r2 h2
        refine ⟨by simp [hl], fun s out => ?_⟩
        obtain ⟨s1, e1⟩ := h bs x r1 h1 s out
        obtain ⟨s2, e2⟩ := hrest s1 (out ++ encW x)
        exact ⟨s2, by simp [listWith, e1, e2, encList]⟩

theorem pairsWith_of_dec (dk dv : Bytes → Option (WVal × Bytes)) (ek ev : St → Bytes → R)
    (hk : ∀ bs w r, dk bs = some (w, r) → ∀ s out, ∃ s', ek ⟨bs, s⟩ out = ⟨⟨r, s'⟩, out ++ encW w, false⟩)
    (hv : ∀ bs w r, dv bs = some (w, r) → ∀ s out, ∃ s', ev ⟨bs, s⟩ out = ⟨⟨r, s'⟩, out ++ encW w, false⟩) :
    ∀ (n : Nat) (bs : Bytes) (xs : List (WVal × WVal)) (r : Bytes), decPairsWith dk dv n bs = some (xs, r) →
      xs.length = n ∧ ∀ s out, ∃ s', pairsWith ek ev n ⟨bs, s⟩ out = ⟨⟨r, s'⟩, out ++ encPairs xs, false⟩ := by
  intro n
  induction n with
  | zero =>
    intro bs xs r hd
    simp only [decPairsWith, Option.some.injEq, Prod.mk.injEq] at hd
    obtain ⟨rfl, rfl⟩ := hd
    exact ⟨rfl, fun s out => ⟨s, by simp [pairsWith, encPairs]⟩⟩
  | succ n ih =>
    intro bs xs r hd
    simp only [decPairsWith] at hd
    cases h1 : dk bs with
    | none => simp [h1] at hd
    | some p =>
      obtain ⟨k, r1⟩ := p
      simp only [h1] at hd
      cases h1' : dv r1 with
      | none => simp [h1'] at hd
      | some p' =>
        obtain ⟨v, r1'⟩ := p'
        simp only [h1'] at hd
        cases h2 : decPairsWith dk dv n r1' with
        | none => simp [h2] at hd
        | some q =>
          obtain ⟨ys, r2⟩ := q
          simp only [h2, Option.some.injEq, Prod.mk.injEq] at hd
          obtain ⟨rfl, rfl⟩ := hd
          obtain ⟨hl, hrest⟩ := ih r1' ys r2 h2
          refine ⟨by simp [hl], fun s out => ?_⟩
          obtain ⟨s1, e1⟩ := hk bs k r1 h1 s out
          obtain ⟨s1', e1'⟩ := hv r1 v r1' h1' s1 (out ++ encW k)
          obtain ⟨s2, e2⟩ := hrest s1' (out ++ encW k ++ encW v)
          simp only [List.append_assoc] at e1' e2
          exact ⟨s2, by simp [pairsWith, e1, e1', e2, encPairs]⟩

theorem fieldsWith_of_dec (d : TType → Bytes → Option (WVal × Bytes)) (e : Nat → St → Bytes → R)
    (h : ∀ t bs w r, d t bs = some (w, r) → w.ttype = t ∧ ∀ s out, ∃ s', e t.code ⟨bs, s⟩ out = ⟨⟨r, s'⟩, out ++ encW w, false⟩) :
    ∀ (g : Nat) (bs : Bytes) (fs : List (Nat × WVal)) (r : Bytes), decFieldsWith d g bs = some (fs, r) →
      ∀ s out, ∃ s', fieldsWith e g ⟨bs, s⟩ out = ⟨⟨r, s'⟩, out ++ encFields fs ++ [0], false⟩ := by
  intro g
  induction g with
  | zero => intro bs fs r hd; simp [decFieldsWith] at hd
  | succ g ih =>
    intro bs fs r hd s out
    cases bs with
    | nil => simp [decFieldsWith] at hd
    | cons c bs =>
      simp only [decFieldsWith] at hd
      by_cases hc : c = 0
      · simp only [hc, if_true, Option.some.injEq, Prod.mk.injEq] at hd
        obtain ⟨rfl, rfl⟩ := hd
        exact ⟨s, by simp [fieldsWith, rByte, hc, encFields]⟩
      · simp only [hc, if_false] at hd
        cases ht : TType.ofCode c with
        | none => simp [ht] at hd
        | some t =>
          simp only [ht] at hd
          cases hi : readN 2 bs with
          | none => simp [hi] at hd
          | some p =>
            obtain ⟨id, r1⟩ := p
            simp only [hi] at hd
            cases hv : d t r1 with
            | none => simp [hv] at hd
            | some q =>
              obtain ⟨v, r2⟩ := q
              simp only [hv] at hd
              cases hrest : decFieldsWith d g r2 with
              | none => simp [hrest] at hd
              | some q2 =>
                obtain ⟨fs', r3⟩ := q2
                simp only [hrest, Option.some.injEq, Prod.mk.injEq] at hd
                obtain ⟨rfl, rfl⟩ := hd
                obtain ⟨s1, e1⟩ := rFix_of_readN (s := s) hi
                obtain ⟨htt, hv'⟩ := h t r1 v r2 hv
                have hcode : t.code = c := ofCode_eq ht
                obtain ⟨s2, e2⟩ := hv' s1 (out ++ [c] ++ be 2 id)
                obtain ⟨s3, e3⟩ := ih r2 fs' r3 hrest s2 (out ++ [c] ++ be 2 id ++ encW v)
                refine ⟨s3, ?_⟩
                rw [hcode] at e2
                simp only [fieldsWith, rByte, hc, if_false, Bool.false_eq_true, e1, e2, e3, encFields, htt, hcode]
                simp


theorem decW_ttype : ∀ (f : Nat) (t : TType) (bs : Bytes) (w : WVal) (r : Bytes), decW f t bs = some (w, r) → w.ttype = t := by
  intro f t bs w r h
  cases f with
  | zero => simp [decW] at h
  | succ f =>
    cases t <;> simp only [decW] at h <;> (repeat' split at h) <;>
      first | (cases h; rfl) | (simp at h)

theorem agrees : ∀ f, Agrees f := by
  intro f
  induction f with
  | zero => intro t bs w r h; simp [decW] at h
  | succ f ih =>
    intro t bs w r h s out
    have ih' : ∀ t bs w r, decW f t bs = some (w, r) → w.ttype = t ∧
        ∀ s out, ∃ s', rd f t.code ⟨bs, s⟩ out = ⟨⟨r, s'⟩, out ++ encW w, false⟩ :=
      fun t bs w r h => ⟨decW_ttype f t bs w r h, ih t bs w r h⟩
    cases t with
    | bool =>
      simp only [decW] at h
      cases h1 : readN 1 bs with
      | none => simp [h1] at h
      | some p =>
        obtain ⟨x, r1⟩ := p
        simp only [h1, Option.some.injEq, Prod.mk.injEq] at h
        obtain ⟨rfl, rfl⟩ := h
        obtain ⟨hl, hx, hr⟩ := readN_some h1
        cases bs with
        | nil => simp at hl
        | cons b bs' =>
          refine ⟨s, ?_⟩
          have hx' : x = b := by simp [hx, unbe]
          simp only [rd, TType.code, if_true, rByte, hr, List.drop_succ_cons, List.drop_zero, hx', encW]
          by_cases hb : b = 1 <;> simp [hb]
    | i8 =>
      simp only [decW] at h
      cases h1 : readN 1 bs with
      | none => simp [h1] at h
      | some p =>
        obtain ⟨x, r1⟩ := p
        simp only [h1, Option.some.injEq, Prod.mk.injEq] at h
        obtain ⟨rfl, rfl⟩ := h
        obtain ⟨hl, hx, hr⟩ := readN_some h1
        cases bs with
        | nil => simp at hl
        | cons b bs' =>
          refine ⟨s, ?_⟩
          have hx' : x = b := by simp [hx, unbe]
          simp [rd, TType.code, rByte, hr, hx', encW]
    | dbl =>
      simp only [decW] at h
      cases h1 : readN 8 bs with
      | none => simp [h1] at h
      | some p =>
        obtain ⟨x, r1⟩ := p
        simp only [h1, Option.some.injEq, Prod.mk.injEq] at h
        obtain ⟨rfl, rfl⟩ := h
        obtain ⟨s1, e1⟩ := rFix_of_readN (s := s) h1
        exact ⟨s1, by simp [rd, TType.code, e1, encW]⟩
    | i16 =>
      simp only [decW] at h
      cases h1 : readN 2 bs with
      | none => simp [h1] at h
      | some p =>
        obtain ⟨x, r1⟩ := p
        simp only [h1, Option.some.injEq, Prod.mk.injEq] at h
        obtain ⟨rfl, rfl⟩ := h
        obtain ⟨s1, e1⟩ := rFix_of_readN (s := s) h1
        exact ⟨s1, by simp [rd, TType.code, e1, encW]⟩
    | i32 =>
      simp only [decW] at h
      cases h1 : readN 4 bs with
      | none => simp [h1] at h
      | some p =>
        obtain ⟨x, r1⟩ := p
        simp only [h1, Option.some.injEq, Prod.mk.injEq] at h
        obtain ⟨rfl, rfl⟩ := h
        obtain ⟨s1, e1⟩ := rFix_of_readN (s := s) h1
        exact ⟨s1, by simp [rd, TType.code, e1, encW]⟩
    | i64 =>
      simp only [decW] at h
      cases h1 : readN 8 bs with
      | none => simp [h1] at h
      | some p =>
        obtain ⟨x, r1⟩ := p
        simp only [h1, Option.some.injEq, Prod.mk.injEq] at h
        obtain ⟨rfl, rfl⟩ := h
        obtain ⟨s1, e1⟩ := rFix_of_readN (s := s) h1
        exact ⟨s1, by simp [rd, TType.code, e1, encW]⟩
    | str =>
      simp only [decW] at h
      cases h1 : readN 4 bs with
      | none => simp [h1] at h
      | some p =>
        obtain ⟨n, r1⟩ := p
        simp only [h1] at h
        by_cases hn : n ≥ maxSize
        · simp [hn] at h
        · simp only [hn, if_false] at h
          cases h2 : readBytes n r1 with
          | none => simp [h2] at h
          | some q =>
            obtain ⟨b, r2⟩ := q
            simp only [h2, Option.some.injEq, Prod.mk.injEq] at h
            obtain ⟨rfl, rfl⟩ := h
            obtain ⟨s1, e1⟩ := rStr_of_dec (s := s) h1 hn h2
            exact ⟨s1, by simp [rd, TType.code, e1, encW]⟩
    | struct =>
      simp only [decW] at h
      cases h1 : decFieldsWith (decW f) (bs.length + 1) bs with
      | none => simp [h1] at h
      | some p =>
        obtain ⟨fs, r1⟩ := p
        simp only [h1, Option.some.injEq, Prod.mk.injEq] at h
        obtain ⟨rfl, rfl⟩ := h
        obtain ⟨s1, e1⟩ := fieldsWith_of_dec (decW f) (rd f) ih' (bs.length + 1) bs fs r1 h1 s out
        exact ⟨s1, by simp [rd, TType.code, e1, encW]⟩
    | list =>
      simp only [decW] at h
      cases bs with
      | nil => simp at h
      | cons ec r0 =>
        simp only at h
        cases ht : TType.ofCode ec with
        | none => simp [ht] at h
        | some et =>
          simp only [ht] at h
          cases h1 : readN 4 r0 with
          | none => simp [h1] at h
          | some p =>
            obtain ⟨n, r1⟩ := p
            simp only [h1] at h
            by_cases hn : n ≥ maxSize
            · simp [hn] at h
            · simp only [hn, if_false] at h
              cases h2 : decListWith (decW f et) n r1 with
              | none => simp [h2] at h
              | some q =>
                obtain ⟨xs, r2⟩ := q
                simp only [h2, Option.some.injEq, Prod.mk.injEq] at h
                obtain ⟨rfl, rfl⟩ := h
                obtain ⟨s1, e1⟩ := rFix_of_readN (s := s) h1
                have hcode := ofCode_eq ht
                obtain ⟨hl, hxs⟩ := listWith_of_dec (decW f et) (rd f et.code) (ih et) n r1 xs r2 h2
                obtain ⟨s2, e2⟩ := hxs s1 (out ++ [ec] ++ be 4 n)
                rw [hcode] at e2
                refine ⟨s2, ?_⟩
                simp only [List.append_assoc, List.cons_append, List.nil_append] at e2
                simp only [rd, show TType.list.code = 15 from rfl]
                simp [rListBegin, rByte, e1, hn, e2, encW, hl, hcode]
    | set =>
      simp only [decW] at h
      cases bs with
      | nil => simp at h
      | cons ec r0 =>
        simp only at h
        cases ht : TType.ofCode ec with
        | none => simp [ht] at h
        | some et =>
          simp only [ht] at h
          cases h1 : readN 4 r0 with
          | none => simp [h1] at h
          | some p =>
            obtain ⟨n, r1⟩ := p
            simp only [h1] at h
            by_cases hn : n ≥ maxSize
            · simp [hn] at h
            · simp only [hn, if_false] at h
              cases h2 : decListWith (decW f et) n r1 with
              | none => simp [h2] at h
              | some q =>
                obtain ⟨xs, r2⟩ := q
                simp only [h2, Option.some.injEq, Prod.mk.injEq] at h
                obtain ⟨rfl, rfl⟩ := h
                obtain ⟨s1, e1⟩ := rFix_of_readN (s := s) h1
                have hcode := ofCode_eq ht
                obtain ⟨hl, hxs⟩ := listWith_of_dec (decW f et) (rd f et.code) (ih et) n r1 xs r2 h2
                obtain ⟨s2, e2⟩ := hxs s1 (out ++ [ec] ++ be 4 n)
                rw [hcode] at e2
                refine ⟨s2, ?_⟩
                simp only [List.append_assoc, List.cons_append, List.nil_append] at e2
                simp only [rd, show TType.set.code = 14 from rfl]
                simp [rListBegin, rByte, e1, hn, e2, encW, hl, hcode]
    | map =>
      simp only [decW] at h
      cases bs with
      | nil => simp at h
      | cons kc r00 =>
      cases r00 with
      | nil => simp at h
      | cons vc r0 =>
        simp only at h
        cases hkt : TType.ofCode kc with
        | none => simp [hkt] at h
        | some kt =>
        cases hvt : TType.ofCode vc with
        | none => simp [hkt, hvt] at h
        | some vt =>
          simp only [hkt, hvt] at h
          cases h1 : readN 4 r0 with
          | none => simp [h1] at h
          | some p =>
            obtain ⟨n, r1⟩ := p
            simp only [h1] at h
            by_cases hn : n ≥ maxSize
            · simp [hn] at h
            · simp only [hn, if_false] at h
              cases h2 : decPairsWith (decW f kt) (decW f vt) n r1 with
              | none => simp [h2] at h
              | some q =>
                obtain ⟨xs, r2⟩ := q
                simp only [h2, Option.some.injEq, Prod.mk.injEq] at h
                obtain ⟨rfl, rfl⟩ := h
                obtain ⟨s1, e1⟩ := rFix_of_readN (s := s) h1
                have hkc := ofCode_eq hkt
                have hvc := ofCode_eq hvt
                obtain ⟨hl, hxs⟩ := pairsWith_of_dec (decW f kt) (decW f vt) (rd f kt.code) (rd f vt.code) (ih kt) (ih vt) n r1 xs r2 h2
                obtain ⟨s2, e2⟩ := hxs s1 (out ++ [kc, vc] ++ be 4 n)
                rw [hkc, hvc] at e2
                refine ⟨s2, ?_⟩
                simp only [List.append_assoc, List.cons_append, List.nil_append] at e2
                simp only [rd, show TType.map.code = 13 from rfl]
                simp [rMapBegin, rByte, e1, hn, e2, encW, hl, hkc, hvc]

end Gen.Unknown
