import ThriftVerif.Props.C13
