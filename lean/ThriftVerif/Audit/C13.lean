import ThriftVerif.Props.C13
#print axioms Props.C13.key_dispatch_table_sound
#print axioms Props.C13.zero_writer_table_sound
#print axioms Props.C13.precount_map
#print axioms Props.C13.precount_list_repaired
#print axioms Props.C13.precount_list_partial
#print axioms Props.C13.masked_write_wellformed_partial
#print axioms Props.C13.masked_write_restrict
#print axioms Props.C13.masked_read_restrict
#print axioms Props.C13.nil_mask_is_std_write
#print axioms Props.C13.nil_mask_is_std_read
#print axioms Props.C13.required_still_written
#print axioms Props.C13.nonrequired_filtered_absent_partial
#print axioms Props.C13.halfway
