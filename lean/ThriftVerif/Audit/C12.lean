import ThriftVerif.Props.C12
