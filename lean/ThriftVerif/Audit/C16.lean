import ThriftVerif.Props.C16
