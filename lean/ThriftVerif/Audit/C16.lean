import ThriftVerif.Props.C16
#print axioms Props.C16.fuel_suffices
#print axioms Props.C16.mark_sound
#print axioms Props.C16.mark_exact
#print axioms Props.C16.always_kept
#print axioms Props.C16.kept_bodies_unchanged
#print axioms Props.C16.kept_refs_kept
#print axioms Props.C16.services_nofilter
#print axioms Props.C16.consts_typedefs_reachable
#print axioms Props.C16.method_filter
#print axioms Props.C16.trim_resolves_partial
#print axioms Props.C16.base_service_kept_regression
#print axioms Props.C16.repaired_witnesses
#print axioms Props.C16.not_idempotent_with_methods
#print axioms Props.C16.fuel_independent
#print axioms Props.C16.bindings_preserved
