import ThriftVerif.Props.C05
#print axioms Props.C05.tables_match_spec
#print axioms Props.C05.typedef_fixpoint_complete
#print axioms Props.C05.resolve_category
#print axioms Props.C05.used_iff_referenced
#print axioms Props.C05.deref_total
#print axioms Props.C05.resolve_const_binding
#print axioms Props.C05.order_independent
#print axioms Props.C05.getEnum_fuel_unreachable
