import ThriftVerif.Props.C05
