import ThriftVerif.Props.C04
