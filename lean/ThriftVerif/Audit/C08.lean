import ThriftVerif.Props.C08
#print axioms Props.C08.template_constants_sound
#print axioms Props.C08.msg_roundtrip
#print axioms Props.C08.extends_dispatch
#print axioms Props.C08.extends_dispatch_step
#print axioms Props.C08.call_roundtrip
#print axioms Props.C08.handler_sees_args
#print axioms Props.C08.unknown_method
#print axioms Props.C08.wire_shape_request
#print axioms Props.C08.wire_shape_reply
#print axioms Props.C08.call_sequence
#print axioms Props.C08.answer_sufficient
#print axioms Props.C08.streaming_removed
