import ThriftVerif.Props.C08
