import ThriftVerif.Props.C06
