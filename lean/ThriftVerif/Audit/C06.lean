import ThriftVerif.Props.C06
#print axioms Props.C06.const_value
#print axioms Props.C06.const_value_named
#print axioms Props.C06.const_value_fails_escaped_quote
#print axioms Props.C06.const_value_fails_foreign_struct_literal
#print axioms Props.C06.const_value_fails_optional_enum_member
#print axioms Props.C06.string_literal_emission
#print axioms Props.C06.string_literal_value
#print axioms Props.C06.string_literal_plain
#print axioms Props.C06.string_literal_defects
#print axioms Props.C06.newX_defaults
#print axioms Props.C06.initDefault_zero_eq_newX
#print axioms Props.C06.getter_default
#print axioms Props.C06.getter_set
#print axioms Props.C06.isset_optional_default
#print axioms Props.C06.isset_pointer
#print axioms Props.C06.predicate_tables_sound
