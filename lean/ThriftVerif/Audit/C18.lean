import ThriftVerif.Props.C18
#print axioms Props.C18.facts_current
#print axioms Props.C18.deep_equal_iff_partial
#print axioms Props.C18.deep_equal_iff_fails_missing_key
#print axioms Props.C18.deep_equal_iff_fails_struct_key
#print axioms Props.C18.deep_equal_iff_fails_optional_binary
#print axioms Props.C18.deep_equal_not_symmetric
#print axioms Props.C18.deep_equal_identical
#print axioms Props.C18.deep_equal_nil_safe
#print axioms Props.C18.validate_set_iff
#print axioms Props.C18.validate_set_write
#print axioms Props.C18.validate_set_rejects_distinct
#print axioms Props.C18.write_eq_std
#print axioms Props.C18.deep_equal_no_false_negative
#print axioms Props.C18.deep_equal_refl
#print axioms Props.C18.spec_symmetric
#print axioms Props.C18.deep_equal_symm_partial
#print axioms Props.C18.deep_equal_iff_repaired
