import ThriftVerif.Props.C18
