import ThriftVerif.Props.C03
