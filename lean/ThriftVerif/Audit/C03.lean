import ThriftVerif.Props.C03
#print axioms Props.C03.grammar_wf
#print axioms Props.C03.peg_total
#print axioms Props.C03.parse_total
#print axioms Props.C03.grammar_captures
#print axioms Props.C03.tree_conforms
#print axioms Props.C03.tree_in_bounds
#print axioms Props.C03.walker_no_panic
#print axioms Props.C03.field_ids
#print axioms Props.C03.field_ids_written
#print axioms Props.C03.enum_values
#print axioms Props.C03.annotations_append
#print axioms Props.C03.annotations_keys_first_occurrence
#print axioms Props.C03.literal_unescape
#print axioms Props.C03.quote_kind_independent
#print axioms Props.C03.skip_absorbs_ws
#print axioms Props.C03.list_separator_ignored
#print axioms Props.C03.skip_nodes_ignored
