import ThriftVerif.Props.C09
#print axioms Props.C09.old_reads_new
#print axioms Props.C09.new_reads_old
#print axioms Props.C09.tables_match
#print axioms Props.C09.unknown_append_write
#print axioms Props.C09.append_agrees_with_skip
#print axioms Props.C09.depth_limit
#print axioms Props.C09.ku_reads_like_std
#print axioms Props.C09.ku_no_unknown_is_std
#print axioms Props.C09.carrying_iff
#print axioms Props.C09.keep_roundtrip
#print axioms Props.C09.chain
#print axioms Props.C09.union_unknown_member_rewritten
