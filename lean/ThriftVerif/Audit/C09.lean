import ThriftVerif.Props.C09
#print axioms Props.C09.old_reads_new
#print axioms Props.C09.new_reads_old
