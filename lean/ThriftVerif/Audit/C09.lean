import ThriftVerif.Props.C09
