import ThriftVerif.Props.C10
