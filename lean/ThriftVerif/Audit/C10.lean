import ThriftVerif.Props.C10
#print axioms Props.C10.wire_tables_sound
#print axioms Props.C10.blength_exact
#print axioms Props.C10.fast_write_into_blength
#print axioms Props.C10.fast_write_is_std
#print axioms Props.C10.fast_write_decodes
#print axioms Props.C10.fast_write_eq_std_sorted
#print axioms Props.C10.fast_read_refines_std
#print axioms Props.C10.fast_read_eq_std_on_written
#print axioms Props.C10.fast_read_tolerates_unknown
#print axioms Props.C10.fast_read_no_panic
#print axioms Props.C10.fast_read_no_panic_with_repaired_skip
#print axioms Props.C10.gopkg_skip_not_bounded
#print axioms Props.C10.fast_read_panics_on_truncation
#print axioms Props.C10.fast_read_panics_on_type_byte
#print axioms Props.C10.fast_write_optional_binary_default_differs
