import ThriftVerif.Props.C17
#print axioms Props.C17.generated_cfg_is_std
