import ThriftVerif.Props.C17
#print axioms Props.C17.generated_cfg_is_std
#print axioms Props.C17.writer_plain
#print axioms Props.C17.type_annotation_escaped_once
#print axioms Props.C17.literal_roundtrip
#print axioms Props.C17.literal_roundtrip_parsed
#print axioms Props.C17.literal_roundtrip_iff_safe_witnesses
#print axioms Props.C17.annotation_roundtrip
#print axioms Props.C17.annotation_text_roundtrip
#print axioms Props.C17.numeric_roundtrip_int
#print axioms Props.C17.numeric_roundtrip_double
#print axioms Props.C17.constvalue_roundtrip
#print axioms Props.C17.dump_parse_partial
#print axioms Props.C17.dump_accepted_partial
#print axioms Props.C17.tree_dump_exactly_once
#print axioms Props.C17.tree_dump_break_witness
