import ThriftVerif.Props.C17
