import ThriftVerif.Props.C20
#print axioms Props.C20.prefix_safe_lookup
#print axioms Props.C20.table_prefix_safe
#print axioms Props.C20.documented_accepted
#print axioms Props.C20.table_wellformed
#print axioms Props.C20.sets_exactly_own
#print axioms Props.C20.documented_name_resolves
#print axioms Props.C20.slim_disables_deep_equal
#print axioms Props.C20.reject_iff
#print axioms Props.C20.step_reject_local
#print axioms Props.C20.naming_style_keeps_initialisms
#print axioms Props.C20.cmdline_transparent
#print axioms Props.C20.cmdline_adds_nothing_unless_nested
#print axioms Props.C20.cmdline_value_keeps_equals
#print axioms Props.C20.nested_forces_slim
#print axioms Props.C20.cmdline_sets_exactly_own
#print axioms Props.C20.cmdline_outcome_is_handle
