import ThriftVerif.Props.C14
#print axioms Props.C14.queries_match_paths
#print axioms Props.C14.order_independent
#print axioms Props.C14.error_iff
#print axioms Props.C14.json_roundtrip
#print axioms Props.C14.no_panic_partial
#print axioms Props.C14.no_panic_repaired
#print axioms Props.C14.getpath_terminates_partial
#print axioms Props.C14.getpath_terminates_repaired
