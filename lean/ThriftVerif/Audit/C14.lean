import ThriftVerif.Props.C14
