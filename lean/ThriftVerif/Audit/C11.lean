import ThriftVerif.Props.C11
