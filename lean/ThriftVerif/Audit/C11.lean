import ThriftVerif.Props.C11
#print axioms Props.C11.schema_ok
#print axioms Props.C11.codec_roundtrip
#print axioms Props.C11.request_roundtrip
#print axioms Props.C11.response_roundtrip
#print axioms Props.C11.marshal_total
#print axioms Props.C11.write_ends_with_stop
#print axioms Props.C11.compress_decompress
#print axioms Props.C11.trailer_detected
#print axioms Props.C11.trailer_absent
#print axioms Props.C11.trailer_ignored_by_reader
#print axioms Props.C11.version_gate
#print axioms Props.C11.params_order
#print axioms Props.C11.fault_fails
#print axioms Props.C11.answer_honoured
#print axioms Props.C11.warnings_shown_on_failure
#print axioms Props.C11.each_generate_runs_own_plugins
#print axioms Props.C11.plugin_params_own
