import ThriftVerif.Props.C19
#print axioms Props.C19.facts_match
