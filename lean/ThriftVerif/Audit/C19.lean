import ThriftVerif.Props.C19
