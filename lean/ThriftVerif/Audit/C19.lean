import ThriftVerif.Props.C19
#print axioms Props.C19.facts_match
#print axioms Props.C19.inv
#print axioms Props.C19.no_panic
#print axioms Props.C19.no_deadlock
#print axioms Props.C19.termination
#print axioms Props.C19.terminates_within
#print axioms Props.C19.return_means_quiescent
#print axioms Props.C19.success_means_all_written
#print axioms Props.C19.success_written_perm
#print axioms Props.C19.failure_reported
#print axioms Props.C19.returned_error_genuine
#print axioms Props.C19.no_double_write
#print axioms Props.C19.written_own_content
#print axioms Props.C19.semaphore_bound
