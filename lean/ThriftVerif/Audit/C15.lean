import ThriftVerif.Props.C15
