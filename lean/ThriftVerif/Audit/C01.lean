import ThriftVerif.Props.C01
#print axioms Props.C01.ns_add_fresh
#print axioms Props.C01.ns_inj
#print axioms Props.C01.ns_names_distinct
#print axioms Props.C01.scope_globals_nodup
#print axioms Props.C01.struct_members_nodup
#print axioms Props.C01.func_params_safe
#print axioms Props.C01.keywords_cover
#print axioms Props.C01.imports_exact
#print axioms Props.C01.scope_globals_complete_partial
#print axioms Props.C01.mint_clash_witness
#print axioms Props.C01.struct_members_complete_partial
