import ThriftVerif.Props.C01
