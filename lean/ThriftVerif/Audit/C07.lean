import ThriftVerif.Props.C07
