import ThriftVerif.Props.C02
#print axioms Props.C02.wire_roundtrip
#print axioms Props.C02.write_wellformed
#print axioms Props.C02.read_write_roundtrip
#print axioms Props.C02.union_write_refuses
#print axioms Props.C02.presentation_options_irrelevant
#print axioms Props.C02.read_skips_unknown
#print axioms Props.C02.read_retag_skips
#print axioms Props.C02.read_required_missing
#print axioms Props.C02.read_skips_unknown_anywhere
#print axioms Props.C02.typeid_table_sound
