import ThriftVerif.Props.C02
