/- C08 property theorems (stub: not built yet) -/
