import ThriftVerif.Gen.Rpc
import ThriftVerif.Gen.RpcLemmas
import ThriftVerif.Gen.SchemaCheck
import ThriftVerif.Generated.C08
/-
  C08 — generated client and processor carry a call end to end.
  Property theorems over `Gen.Rpc` (model of templates/{client,processor,service}.go + scope.go buildSynthesized,
  with apache TStandardClient / TBinaryProtocol message framing as documented parameters), built on
  `Gen.Std` (generated Read/Write) and `Core.Wire`.

  Vocabulary: `SchemaOK P` = what the semantic checker guarantees about the schema (C02); `MethodOK P m` = the
  service table refers to a `<fn>_args` struct without optional fields and a `<fn>_result` struct made of
  `success` (id 0, unless void) followed by the throws, all optional, no defaults — checked by the model driver
  on every service line the harness emits (`methodOkB`, sound by `methodOkB_sound`); `CallOK` = the arguments
  are Go values of the argument types that `Write` accepts, and whatever the handler answers is a well-typed,
  writable result (or an error text that fits a string). `WireEq v v'` = equal, or encoding to the same wire
  value (a nil slice inside a struct comes back as an empty one, etc.: the normal form the oracle uses too).
  No bound on the number of services, methods, arguments, nesting, sizes or calls.
-/
namespace Props.C08
open Wire Gen Gen.Std Gen.Rpc

/-- regenerated obligation: the constants the templates emit (application-exception kinds with their message
prefixes, message types of the replies, the synthesized struct names and the `success` field) are the ones the
model uses. Extracted from templates/processor.go, templates/client.go and scope.go on every run. -/
theorem template_constants_sound :
    Generated.C08.appExceptions =
      [("INTERNAL_ERROR", "\"Internal error processing {{.Name}}: \"+err2.Error()"), ("PROTOCOL_ERROR", "err.Error()"),
       ("UNKNOWN_METHOD", "\"Unknown function \"+name")] ∧
    Generated.C08.messageBegins =
      [("\"{{.Name}}\"", "EXCEPTION"), ("\"{{.Name}}\"", "REPLY"), ("name", "EXCEPTION")] ∧
    Generated.C08.clientCalls = [("\"{{.Name}}\"", "&_args", "&_result"), ("\"{{.Name}}\"", "&_args", "nil")] ∧
    Generated.C08.synthesized = [("args", "v.Name + \"_args\""), ("result", "v.Name + \"_result\""),
      ("success.id", "0"), ("success.name", "\"success\""), ("success.req", "parser.FieldType_Optional")] ∧
    Generated.C08.streaming = [("guard", "!g.utils.Features().ThriftStreaming"), ("loop", "req.GetAST().DepthFirstSearch()"),
      ("filter", "st.IsStreaming"),
      ("key", "\"streaming.mode\""), ("StreamingModeKey", "\"streaming.mode\""), ("StreamingBidirectional", "\"bidirectional\""),
      ("StreamingClientSide", "\"client\""), ("StreamingServerSide", "\"server\""), ("StreamingUnary", "\"unary\"")] ∧
    -- every message the processor writes is flushed before `Process` returns (the model's `ProcOut.reply` is what LEFT
    -- the server): after each WriteMessageEnd of the template the next statement on oprot is the Flush
    Generated.C08.flushAfterEnd =
      [("oprot.WriteMessageEnd()", "oprot.Flush(ctx)"), ("oprot.WriteMessageEnd()", "oprot.Flush(ctx)"),
       ("oprot.WriteMessageEnd()", "oprot.Flush(ctx)"), ("oprot.WriteMessageEnd()", "oprot.Flush(ctx)"),
       ("if err2 = oprot.WriteMessageEnd(); err == nil && err2 != nil {", "if err2 = oprot.Flush(ctx); err == nil && err2 != nil {")] := by
  decide

/-- **msg_roundtrip**: the strict-write message header is read back exactly (any trailing bytes untouched),
whether or not the reader insists on the version word. -/
theorem msg_roundtrip (strictRead : Bool) (name : Bytes) (ty seq : Nat) (r : Bytes)
    (hn : name.length < maxSize) (ht : ty < 256) (hs : seq < 256 ^ 4) :
    decMsg strictRead (encMsg name ty seq ++ r) = some (name, ty, seq, r) :=
  decMsg_encMsg strictRead name ty seq r hn ht hs

/-- **extends_dispatch**: the processor of a service handles every method of every ancestor — the map built by
`New<Svc>Processor` (base processor first, own functions added to the same map) sends each name reachable
through `extends*` to that method's processor function. Structural induction on the chain; `NoShadow` = no
name is declared twice along the chain. -/
theorem extends_dispatch (svc : Service) (hn : svc.NoShadow) (m : Method) (hm : m ∈ svc.methods) :
    mapGet m.name svc.procMap = some m :=
  dispatch_mem svc hn m hm

/-- one more level of `extends` keeps every inherited method dispatchable (the induction step, stated on its own) -/
theorem extends_dispatch_step (ms : List Method) (base : Service) (hn : (Service.ext ms base).NoShadow)
    (m : Method) (hm : m ∈ base.methods) :
    mapGet m.name (Service.ext ms base).procMap = some m :=
  dispatch_mem _ hn m (by simp [Service.methods, hm])

/-- **call_roundtrip** (with handler_sees_args and the request half of wire_shape): for every accepted schema,
every service, every method reachable through `extends*`, every argument list that `Write` accepts and every
handler: one call on a fresh connection
 * sends `⟨name as in the IDL, CALL, seqid+1⟩ ++ args struct` (`ws` = the encoded argument fields),
 * makes the processor invoke the handler exactly once, with arguments `a'` that encode to the same fields `ws`,
 * delivers to the caller `outcomeOf (h m a')`: the returned value / the declared exception (same index, same
   wire value) / TApplicationException INTERNAL_ERROR with the handler's error text / nothing for oneway
   (no reply bytes at all),
 * and leaves the connection clean: both queues empty, sequence counter advanced by one. -/
theorem call_roundtrip (P : Prog) (hP : SchemaOK P) (svc : Service) (hn : svc.NoShadow) (m : Method)
    (hmem : m ∈ svc.methods) (hm : MethodOK P m) (h : Handler) (a : List GoVal) (seq : Nat)
    (ad : StructDef) (hsd : P.structs[m.args]? = some ad)
    (hwt : WTFields P.structs ad.fields a) (ws : List (Nat × WVal)) (hw : toWFields P ad.fields a = .ok ws)
    (hans : ∀ a', m.oneway = false → AnswerOK P m (h m a')) :
    ∃ a', toWFields (noVal P) ad.fields a' = .ok ws ∧
      ∃ obs, call P svc m h a (Conn.fresh seq) = (Conn.fresh (nextSeq seq), obs) ∧
        obs.req = some (encMsg m.name tCALL (nextSeq seq) ++ (encFields ws ++ [0])) ∧
        (∃ po, obs.proc = some po ∧ po.log = [(m.name, a')] ∧ po.rest = some [] ∧ (m.oneway = true → po.reply = [])) ∧
        OutcomeRel (noVal P) (succTyD P m) (throwDefs P m) (outcomeOf m (successTy P m) (h m a')) obs.outcome :=
  call_main P hP svc m h a seq hm (dispatch_mem svc hn m hmem) ad hsd hwt ws hw hans

/-- **handler_sees_args**: the handler log of the call holds exactly one entry, for this method, and the
arguments in it encode (set-uniqueness validation aside) to the very fields the client sent. -/
theorem handler_sees_args (P : Prog) (hP : SchemaOK P) (svc : Service) (hn : svc.NoShadow) (m : Method)
    (hmem : m ∈ svc.methods) (hm : MethodOK P m) (h : Handler) (a : List GoVal) (seq : Nat)
    (ad : StructDef) (hsd : P.structs[m.args]? = some ad)
    (hwt : WTFields P.structs ad.fields a) (ws : List (Nat × WVal)) (hw : toWFields P ad.fields a = .ok ws)
    (hans : ∀ a', m.oneway = false → AnswerOK P m (h m a')) :
    ∃ a' po, (call P svc m h a (Conn.fresh seq)).2.proc = some po ∧ po.log = [(m.name, a')] ∧
      toWFields (noVal P) ad.fields a' = .ok ws ∧ toWFields (noVal P) ad.fields a = .ok ws := by
  obtain ⟨a', h1, obs, hc, _, ⟨po, hp, hl, _, _⟩, _⟩ :=
    call_main P hP svc m h a seq hm (dispatch_mem svc hn m hmem) ad hsd hwt ws hw hans
  exact ⟨a', po, by rw [hc]; exact hp, hl, h1, toWFields_noVal P a ad.fields ws hw⟩

/-- **unknown_method**: a message whose name is not in the (inherited) method table — whatever its message type —
never reaches the handler and is answered by `⟨same name, EXCEPTION, same seqid⟩ ++ TApplicationException
UNKNOWN_METHOD`; a well-formed args struct behind it is consumed. The generated client's reader decodes that
answer as application exception type 1. -/
theorem unknown_method (P : Prog) (svc : Service) (h : Handler) (name : Bytes) (ty seq : Nat) (args : WVal) (r : Bytes)
    (hnot : name ∉ svc.methods.map (·.name))
    (hn : name.length < maxSize) (ht : ty < 256) (hs : seq < 256 ^ 4)
    (hst : args.ttype = .struct) (hwf : WF args) (hd : args.depth ≤ 64) :
    let po := process P svc h (encMsg name ty seq ++ (encW args ++ r))
    po.log = [] ∧ po.rest = some r ∧ po.success = false ∧
    po.reply = encMsg name tEXCEPTION seq ++ encW (appExcW (asc "Unknown function " ++ name) UNKNOWN_METHOD) ∧
    (decMsg false po.reply).map (fun x => (x.1, x.2.1, x.2.2.1)) = some (name, tEXCEPTION, seq) ∧
    ((asc "Unknown function " ++ name).length < maxSize →
      readAppExc (encW (appExcW (asc "Unknown function " ++ name) UNKNOWN_METHOD)) =
        some ((asc "Unknown function " ++ name, 1), [])) := by
  have hg := dispatch_unknown svc name hnot
  have hsk : skipW 12 (encW args ++ r) = some r := by
    have := skipW_encW args r hwf hd
    rw [hst] at this
    simpa [TType.code] using this
  simp only [process, decMsg_encMsg false name ty seq _ hn ht hs, hg, excReply]
  refine ⟨by trivial, hsk, by trivial, by trivial, ?_, ?_⟩
  · rw [decMsg_encMsg false name tEXCEPTION seq _ hn (by decide) hs]; rfl
  · intro hl
    have := readAppExc_enc (asc "Unknown function " ++ name) UNKNOWN_METHOD [] (by simp [asc]) hl (by decide)
    simpa [UNKNOWN_METHOD] using this

/-- **streaming_removed**: without `thrift_streaming`, a function carrying a `streaming.mode` annotation (any mode) is
not part of the generated service — of ANY file of the program: the filter runs over every AST reachable from the
request's (`loop` in `template_constants_sound`; before fix 6b9b20c only the main file was filtered), and the model
applies `keptMethods` to every service of the table alike: the method table is `keptMethods` of the IDL functions, and a CALL with the
streaming function's name is answered like any unknown name — UNKNOWN_METHOD with the same name and seqid, handler
not invoked, args consumed (function names of a service are pairwise distinct: semantic checker). -/
theorem streaming_removed (P : Prog) (fns : List Fn) (h : Handler) (f : Fn) (hf : f ∈ fns) (hs : f.isStreaming = true)
    (hd : (fns.map (·.m.name)).Nodup) (ty seq : Nat) (args : WVal) (r : Bytes)
    (hn : f.m.name.length < maxSize) (ht : ty < 256) (hsq : seq < 256 ^ 4)
    (hst : args.ttype = .struct) (hwf : WF args) (hdp : args.depth ≤ 64) :
    f.m ∉ keptMethods fns ∧
    let po := process P (.root (keptMethods fns)) h (encMsg f.m.name ty seq ++ (encW args ++ r))
    po.log = [] ∧ po.rest = some r ∧
    po.reply = encMsg f.m.name tEXCEPTION seq ++ encW (appExcW (asc "Unknown function " ++ f.m.name) UNKNOWN_METHOD) := by
  have hnot := kept_not_streaming fns f hf hs hd
  refine ⟨fun hin => hnot (List.mem_map.mpr ⟨f.m, hin, rfl⟩), ?_⟩
  have := unknown_method P (.root (keptMethods fns)) h f.m.name ty seq args r (by simpa [Service.methods] using hnot)
    hn ht hsq hst hwf hdp
  exact ⟨this.1, this.2.1, this.2.2.2.1⟩

/-- **wire_shape**, request: the args struct carries one field per argument, all of them, in IDL order, each
under its IDL id (as a 16-bit pattern). -/
theorem wire_shape_request (P : Prog) (m : Method) (hm : MethodOK P m) (seq : Nat) (a : List GoVal)
    (ad : StructDef) (hsd : P.structs[m.args]? = some ad) (ws : List (Nat × WVal))
    (hw : toWFields P ad.fields a = .ok ws) :
    clientSend P seq m a = (nextSeq seq, .ok (encMsg m.name tCALL (nextSeq seq) ++ encW (.struct ws))) ∧
    ws.map (·.1) = ad.fields.map (fun f => pat 16 f.id) := by
  obtain ⟨sd, hs, hk, hno⟩ := hm.args
  rw [hsd] at hs; cases hs
  refine ⟨?_, toWFields_nonopt_ids P ad.fields a ws hno hw⟩
  simp [clientSend, write_struct P m.args ad a ws hsd hk hw, bind, pure, encW]

/-- **wire_shape**, reply: `⟨name, REPLY, seqid⟩ ++ result struct`, in which a returned value travels as field
`success` with id 0 and the i-th declared exception under its own IDL id, nothing else; any other handler error
is `⟨name, EXCEPTION, seqid⟩ ++ TApplicationException INTERNAL_ERROR`; a oneway function writes nothing. -/
theorem wire_shape_reply (P : Prog) (m : Method) (hm : MethodOK P m) (h : Handler) (seq : Nat) (bs rest : Bytes)
    (a' : List GoVal) (hread : readZero P.structs m.args bs = some (a', rest)) :
    (m.oneway = true → (processFn P m h seq bs).reply = []) ∧
    (m.oneway = false → ∀ msg, resultOf m (h m a') = .error msg →
      (processFn P m h seq bs).reply =
        encMsg m.name tEXCEPTION seq ++
          encW (appExcW (asc "Internal error processing " ++ m.name ++ asc ": " ++ msg) INTERNAL_ERROR)) ∧
    (m.oneway = false → ∀ rd, P.structs[m.result]? = some rd → ∀ robj wr, resultOf m (h m a') = .ok robj →
      toWFields P rd.fields robj = .ok wr →
      (processFn P m h seq bs).reply = encMsg m.name tREPLY seq ++ encW (.struct wr) ∧
      (∀ v, h m a' = .ok v → m.void = false → v ≠ .nil →
        ∃ sf w, rd.fields.head? = some sf ∧ toW P sf.ty v = .ok w ∧ wr = [(0, w)]) ∧
      (∀ i v, h m a' = .exc i v → i < m.nthrows → v ≠ .nil →
        ∃ f w, ((throwDefs P m).drop i).head? = some f ∧ toW P f.ty v = .ok w ∧ wr = [(pat 16 f.id, w)])) := by
  obtain ⟨h1, h2, h3⟩ := processFn_reply P m h seq bs rest a' hread
  refine ⟨h1, fun ho msg hr => by rw [h2 ho msg hr]; rfl, ?_⟩
  intro ho rd hrd robj wr hres hwr
  obtain ⟨rd', hrd', hk, hl, hao, hid⟩ := hm.result ho
  rw [hrd] at hrd'; cases hrd'
  refine ⟨h3 ho robj rd wr hres hrd hk hwr, ?_, ?_⟩
  · intro v hv hvoid hne
    simp only [hv, resultOf, hvoid, Bool.false_eq_true, if_false, Except.ok.injEq] at hres
    subst hres
    simp only [hvoid, Bool.false_eq_true, if_false] at hl
    match hf : rd.fields with
    | [] => simp [hf] at hl; omega
    | sf :: tf =>
      have hsf := hao sf (by simp [hf])
      have hid0 : sf.id = 0 := by simpa [hf] using hid hvoid
      have htl : tf.length = m.nthrows := by simp [hf] at hl; omega
      rw [hf] at hwr
      simp only [List.singleton_append, toWFields, hsf.1, decide_true, Bool.true_and,
        isSet_of_ne_nil sf v hsf.2 hne, Bool.not_true, Bool.false_eq_true, if_false, Res.bind_eq_ok] at hwr
      obtain ⟨w, hw1, ws', hw2, hw3⟩ := hwr
      rw [← htl, toWFields_nils P tf (fun g hg => hao g (by simp [hf, hg]))] at hw2
      cases hw2; cases hw3
      exact ⟨sf, w, rfl, hw1, by simp [hid0, pat]⟩
  · intro i v hv hi hne
    simp only [hv, resultOf, hi, if_true, Except.ok.injEq] at hres
    subst hres
    have htd : throwDefs P m = rd.fields.drop (if m.void then 0 else 1) := by simp [throwDefs, Prog.struct?, hrd]
    cases hvoid : m.void
    · simp only [hvoid, Bool.false_eq_true, if_false] at hl htd hwr
      match hf : rd.fields with
      | [] => simp [hf] at hl; omega
      | sf :: tf =>
        have hsf := hao sf (by simp [hf])
        have htl : tf.length = m.nthrows := by simp [hf] at hl; omega
        rw [hf] at hwr
        simp only [List.singleton_append, toWFields, hsf.1, decide_true, Bool.true_and, isSet_nodflt sf _ hsf.2, goEq,
          Bool.not_true, Bool.not_false, if_true] at hwr
        rw [← htl] at hwr hi
        obtain ⟨f, w, e1, e2, e3⟩ := toWFields_single P tf i v wr (fun g hg => hao g (by simp [hf, hg])) hi hne hwr
        exact ⟨f, w, by rw [htd, hf]; simpa using e1, e2, e3⟩
    · simp only [hvoid, if_true, Nat.zero_add, List.drop_zero, List.nil_append] at hl htd hwr
      rw [← hl] at hwr hi
      obtain ⟨f, w, e1, e2, e3⟩ := toWFields_single P rd.fields i v wr hao hi hne hwr
      exact ⟨f, w, by rw [htd]; exact e1, e2, e3⟩

/-- **call_sequence**: for any history of calls on one connection (each with its own — arbitrary, possibly
stateful — handler), by induction over the history: the connection is clean after every call, the sequence id
advances by one per call, and the observation of the n-th call (request bytes, handler log, reply bytes, what the
caller gets) is exactly what that call yields ALONE on a fresh connection carrying that sequence id: it depends
on the n-th call only. -/
theorem call_sequence (P : Prog) (hP : SchemaOK P) (svc : Service) (specs : List CallSpec) (seq : Nat)
    (h : ∀ s ∈ specs, CallOK P svc s) :
    runCalls P svc specs (Conn.fresh seq) = (Conn.fresh (seqAfter specs.length seq), obsAlone P svc seq specs) :=
  runCalls_fresh P hP svc specs seq h

/-- **answers that satisfy `AnswerOK`** (the hypothesis of call_roundtrip / call_sequence about the handler), in terms
of the handler's own value: (1) any error whose text fits a string; (2) for a function returning a value: nil, or any
well-typed value of the return type that `Write` accepts (void: anything); (3) the i-th declared exception, a
well-typed value of that exception type that `Write` accepts. `IdsOK` = field ids are int16. -/
theorem answer_sufficient (P : Prog) (m : Method) (hm : MethodOK P m) (ho : m.oneway = false)
    (hids : ∀ rd, P.structs[m.result]? = some rd → IdsOK rd.fields) :
    (∀ msg, (asc "Internal error processing " ++ m.name ++ asc ": " ++ msg).length < maxSize → AnswerOK P m (.err msg)) ∧
    (∀ v, (m.void = false → v = .nil ∨ ∀ rd sf, P.structs[m.result]? = some rd → rd.fields.head? = some sf →
        WT P.structs sf.ty v ∧ ∃ w, toW P sf.ty v = .ok w) → AnswerOK P m (.ok v)) ∧
    (∀ i v, i < m.nthrows → (∀ f, ((throwDefs P m).drop i).head? = some f → WT P.structs f.ty v ∧ ∃ w, toW P f.ty v = .ok w) →
        AnswerOK P m (.exc i v)) :=
  ⟨fun msg h => answerOK_err P m msg h, fun v hv => answerOK_ok P m hm ho v hids hv,
   fun i v hi hv => answerOK_exc P m hm ho i v hi hids hv⟩

/-! non-vacuity: a concrete schema, service chain and call satisfy every hypothesis, and the model computes the
expected bytes -/

/-- structs: 0 = exception X {1: string msg}; 1 = add_args {1: i32 x, 2: i32 y}; 2 = add_result {0: optional i32
success, 1: optional X e}; 3 = ping_args {}; 4 = fire_args {1: i32 x} -/
def exProg : Prog := { structs := [
  { kind := 2, fields := [{ id := 1, req := .default, ty := .str, dflt := none }] },
  { kind := 0, fields := [{ id := 1, req := .default, ty := .i32, dflt := none }, { id := 2, req := .default, ty := .i32, dflt := none }] },
  { kind := 0, fields := [{ id := 0, req := .optional, ty := .i32, dflt := none }, { id := 1, req := .optional, ty := .struct 0, dflt := none }] },
  { kind := 0, fields := [] },
  { kind := 0, fields := [{ id := 1, req := .default, ty := .i32, dflt := none }] }] }

def exAdd : Method := { name := asc "add", args := 1, result := 2, oneway := false, void := false, nthrows := 1 }
def exFire : Method := { name := asc "fire", args := 4, result := 0, oneway := true, void := true, nthrows := 0 }
def exSvc : Service := .ext [exAdd] (.root [exFire])

example : SchemaOK exProg := schemaOkB_sound exProg (by decide)
example : MethodOK exProg exAdd := methodOkB_sound exProg exAdd (by decide)
example : MethodOK exProg exFire := methodOkB_sound exProg exFire (by decide)
example : exSvc.NoShadow := by unfold Service.NoShadow; decide
example : exFire ∈ exSvc.methods := by decide

/-- the hypotheses of call_roundtrip / call_sequence (`CallOK`) are satisfiable: a concrete call -/
example : CallOK exProg exSvc ⟨exAdd, fun _ _ => .ok (.int 5), [.int 2, .int 3]⟩ := by
  refine ⟨methodOkB_sound exProg exAdd (by decide), by rfl, ?_, ?_⟩
  · refine ⟨_, rfl, ?_, _, rfl⟩
    simp [WTFields, WT]
  · intro a' _ rd hrd
    have : rd = { kind := 0, fields := [{ id := 0, req := .optional, ty := .i32, dflt := none },
        { id := 1, req := .optional, ty := .struct 0, dflt := none }] } := by
      simp [exAdd, exProg] at hrd; exact hrd.symm
    subst this
    refine ⟨?_, _, rfl⟩
    simp [WTFields, WT, exAdd, nils, isSet, goEq]

example : (call exProg exSvc exAdd (fun _ a => match a with | [.int x, .int y] => .ok (.int (x + y)) | _ => .err [])
    [.int 2, .int 3] (Conn.fresh 0)).2.outcome = .ok (.int 5) := by rfl

example : (call exProg exSvc exAdd (fun _ _ => .exc 0 (.strct [.bytes [111]])) [.int 2, .int 3] (Conn.fresh 0)).2.outcome
    = .exc 0 (.strct [.bytes [111]]) := by rfl

example : (call exProg exSvc exFire (fun _ _ => .err []) [.int 2] (Conn.fresh 7)).2.proc.map (·.reply) = some [] := by decide

end Props.C08
