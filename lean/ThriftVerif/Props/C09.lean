import ThriftVerif.Gen.UnknownChain
import ThriftVerif.Generated.C09
import ThriftVerif.Gen.SchemaCheck
/-
  C09 — schema evolution: unknown fields are tolerated, and preserved when asked.
  First part: code generated WITHOUT keep_unknown_fields (`Gen.Std`): old↔new compatibility at one struct
  level. Second part: the keep_unknown_fields extension (`Gen.Unknown`): append/write of raw unknown fields,
  the nesting limit, the Read loop with the buffer, read-then-rewrite, chains, CarryingUnknownFields.
  All struct-level statements are ONE-level: the two versions of a struct differ in their own field lists and
  share the struct table for nested types; fields added inside nested structs are covered by the
  correspondence (compiled pairs) only. See docs/C09.md.
-/
namespace Props.C09
open Wire Gen Gen.Std Gen.Evolve

/-- **old reads new**: for every accepted schema, every pair (old struct, new struct = old + any
number of added fields with fresh ids, at any positions, of any types nested no deeper than the
protocol's Skip limit), and every well-typed object of the new struct: the bytes the new code writes
are read without error by the old code, and the object the old code builds encodes to exactly what the
old code would write for the projected object — every common field keeps its value. -/
theorem old_reads_new (P : Prog) (hP : SchemaOK P) (hv : P.validateSet = false) (iOld : Nat)
    (sdOld sdNew : StructDef) (mask : List Bool) (vs : List GoVal) (wsN : List (Nat × WVal)) (f : Nat)
    (hO : P.structs[iOld]? = some sdOld) (hl : mask.length = sdNew.fields.length)
    (hproj : proj mask sdNew.fields = sdOld.fields)
    (hfresh : ∀ g ∈ added mask sdNew.fields, idOf g ∉ sdOld.fields.map idOf)
    (hwt : WTFields P.structs sdNew.fields vs) (hw : toWFields P sdNew.fields vs = .ok wsN)
    (hsh : AddedShallow P mask sdNew.fields vs) (hd : depthFields wsN ≤ f) :
    ∃ fs' wsO, toWFields P sdOld.fields (proj mask vs) = .ok wsO ∧ toWFields P sdOld.fields fs' = .ok wsO ∧
      ∀ r, readTy P.structs (f + 1) (.struct iOld) (encFields wsN ++ 0 :: r) = some (.strct fs', r) :=
  Gen.Evolve.old_reads_new P hP hv iOld sdOld sdNew mask vs wsN f hO hl hproj hfresh hwt hw hsh hd

/-- **new reads old**: the new code reads what the old code wrote; common fields keep their value,
added (optional/default) fields take their initial value (declared default, else zero/nil). -/
theorem new_reads_old (P : Prog) (hP : SchemaOK P) (hv : P.validateSet = false) (iNew : Nat)
    (sdOld sdNew : StructDef) (mask : List Bool) (us : List GoVal) (wsO : List (Nat × WVal)) (f : Nat)
    (hN : P.structs[iNew]? = some sdNew) (hl : mask.length = sdNew.fields.length)
    (hproj : proj mask sdNew.fields = sdOld.fields)
    (hadd : ∀ g ∈ added mask sdNew.fields, g.req ≠ .required)
    (hwt : WTFields P.structs sdOld.fields us) (hw : toWFields P sdOld.fields us = .ok wsO)
    (hd : depthFields wsO ≤ f) :
    ∃ fs', (∀ r, readTy P.structs (f + 1) (.struct iNew) (encFields wsO ++ 0 :: r) = some (.strct fs', r)) ∧
      toWFields P sdOld.fields (proj mask fs') = .ok wsO ∧ added mask fs' = added mask (initVals sdNew) :=
  Gen.Evolve.new_reads_old P hP hv iNew sdOld sdNew mask us wsO f hN hl hproj hadd hwt hw hd

/-! ## keep_unknown_fields -/
open Gen.Unknown

/-- **tie of the tables**: the type codes `unknown.read`/`write` switch on are the binary protocol's codes the
model uses, the nesting limit is the model's, and every statement of templates/struct.go the model of the
generated code rests on is present in the tree the run looks at. -/
theorem tables_match :
    Generated.C09.typeCodes.map (·.2) = [TType.bool, .i8, .dbl, .i16, .i32, .i64, .str, .struct, .map, .set, .list].map TType.code ∧
    Generated.C09.maxNestingDepth = Gen.Unknown.maxNestingDepth ∧
    Generated.C09.templateFacts.all (·.2) = true := by decide

/-- **unknown_append_write**: for any sequence of well-formed fields (ids in int16, values well-formed and
nested no deeper than 64) arriving on the protocol, in any protocol scratch state, starting from any buffer:
the Read loop's `Fields.Append` calls consume exactly the fields, report no error and leave the buffer =
old buffer ++ the fields' encodings, byte-identical and in arrival order; and `Fields.Write` of such a buffer
emits exactly these bytes. -/
theorem unknown_append_write (us : List (Nat × WVal)) (hwf : WFFields us) (hd : ∀ x ∈ us, x.2.depth ≤ 64)
    (rest scr : Bytes) (acc : Fields) :
    (∃ scr', appendLoop (us.length + 1) ⟨encFields us ++ 0 :: rest, scr⟩ acc = ⟨⟨rest, scr'⟩, acc ++ encFields us, false⟩) ∧
    Gen.Unknown.write (encFields us) = some (encFields us) :=
  ⟨appendLoop_enc us hwf hd (us.length + 1) rest scr acc (by omega), write_enc us hwf⟩

/-- **append_agrees_with_skip**: `Fields.Append` accepts every value the protocol's Skip (strict decode to
depth 64) accepts — ANY bytes, not only canonical ones —, consumes the same bytes, and stores the canonical
re-encoding of the value decoded (a bool byte other than 1 becomes 0; everything else is copied). -/
theorem append_agrees_with_skip (acc : Fields) (t : TType) (id : Nat) (bs : Bytes) (w : WVal) (r : Bytes)
    (h : decW 64 t bs = some (w, r)) :
    appendB acc t.code id bs = some (acc ++ [t.code] ++ be 2 id ++ encW w, r) :=
  appendB_of_dec acc t id bs w r h

/-- **depth_limit**: a well-formed value nested deeper than `maxNestingDepth` inside an unknown field makes
`Fields.Append` return an error (the model has no panic outcome for `Append`; the correspondence runs the
real code under `recover`), in any protocol state and whatever follows. -/
theorem depth_limit (acc : Fields) (id : Nat) (u : WVal) (r scr : Bytes) (hwf : WF u)
    (hd : Gen.Unknown.maxNestingDepth < u.depth) :
    (append acc u.ttype.code id ⟨encW u ++ r, scr⟩).err = true ∧ appendB acc u.ttype.code id (encW u ++ r) = none :=
  ⟨append_deep acc id u r scr hwf hd, appendB_deep acc id u r hwf hd⟩

/-- **ku_reads_like_std**: on EVERY input (well-formed or not) on which the plain Read loop succeeds, the
keep_unknown_fields loop succeeds, builds the same object, stops at the same byte; only its buffer differs. -/
theorem ku_reads_like_std (rdTy : Ty → Bytes → Option (GoVal × Bytes)) (defs : List FieldDef) (g : Nat) (bs : Bytes)
    (cur : List GoVal) (seen : List Bool) (acc : Fields) (c : List GoVal) (r : Bytes)
    (h : readFieldsWith rdTy defs g bs cur seen = some (c, r)) :
    ∃ acc', readFieldsKU rdTy defs g bs cur seen acc = some (c, r, acc') :=
  ku_sim rdTy defs g bs cur seen acc c r h

/-- **ku_no_unknown_is_std**: on what the same struct wrote (no unknown id occurs) Read under
keep_unknown_fields = plain Read with the buffer left empty, and Write with an empty buffer = plain Write. -/
theorem ku_no_unknown_is_std (P : Prog) (hP : SchemaOK P) (hv : P.validateSet = false) (i : Nat) (sd : StructDef)
    (fs : List GoVal) (ws : List (Nat × WVal)) (f : Nat) (hsd : P.structs[i]? = some sd)
    (hwt : WTFields P.structs sd.fields fs) (hw : toWFields P sd.fields fs = .ok ws) (hd : depthFields ws ≤ f) (r : Bytes) :
    (∃ fs', readTy P.structs (f + 1) (.struct i) (encFields ws ++ 0 :: r) = some (.strct fs', r) ∧
      readStructKU (readTy P.structs f) sd (encFields ws ++ 0 :: r) = some (fs', r, [])) ∧
    ∀ obj, writeStructKU P sd obj [] = Gen.Std.write P i (.strct obj) :=
  ⟨ku_no_unknown_core hP hv i sd fs ws hsd hwt hw hd r, fun obj => writeStructKU_nil P i sd obj hsd⟩

/-- **carrying_iff**: after Read (keep_unknown_fields) of the struct's own written fields interleaved, at any
positions, with fields of other ids, `CarryingUnknownFields()` ↔ the input had a field id outside the schema
at that struct level. -/
theorem carrying_iff (P : Prog) (hP : SchemaOK P) (hv : P.validateSet = false) (i : Nat) (sd : StructDef)
    (fs : List GoVal) (ws : List (Nat × WVal)) (f : Nat) (hsd : P.structs[i]? = some sd)
    (hwt : WTFields P.structs sd.fields fs) (hw : toWFields P sd.fields fs = .ok ws) (hd : depthFields ws ≤ f)
    (ms : List (Nat × WVal)) (r : Bytes) (hm : Mixed sd.fields ws ms) :
    ∃ fs' acc, readStructKU (readTy P.structs f) sd (encFields ms ++ 0 :: r) = some (fs', r, acc) ∧
      (carrying acc = true ↔ ∃ x ∈ ms, findField sd.fields x.1 = none) :=
  carrying_iff_core hP hv i sd fs ws hsd hwt hw hd ms r hm

/-- **keep_roundtrip** (struct, exception or union; one level). `E` bundles: accepted schema, old struct at
`iOld`, new struct at `iNew` = old + added non-required fields with fresh ids at any positions, a well-typed
object `vs` of the new struct that writes the fields `wsN` (added values within the Skip depth; for a union:
exactly one member set, i.e. the new code's Write succeeded). Then the old code generated with
keep_unknown_fields, given the new code's bytes, reads them and writes back the common fields `wsO` (exactly
what it would write for the projected object) followed by the added fields `wsA` (exactly what the new code
wrote for them, byte-identical, in arrival order) — a permutation of `wsN`: nothing dropped, duplicated or
changed —, reports `CarryingUnknownFields()` iff an added field was on the wire, and the NEW code reads the
re-written bytes without error into an object that encodes to exactly `wsN`. -/
theorem keep_roundtrip {P : Prog} {iOld iNew : Nat} {sdOld sdNew : StructDef} {mask : List Bool} {vs : List GoVal}
    {wsN : List (Nat × WVal)} {f : Nat} (E : Evo P iOld iNew sdOld sdNew mask vs wsN f) :
    ∃ wsO wsA fs'', toWFields P sdOld.fields (proj mask vs) = .ok wsO ∧
      toWFields P (added mask sdNew.fields) (added mask vs) = .ok wsA ∧
      hopKU P f sdOld (encFields wsN ++ [0]) = some (encFields (wsO ++ wsA) ++ [0], !wsA.isEmpty) ∧
      (wsO ++ wsA).Perm wsN ∧
      (∀ r', readTy P.structs (f + 1) (.struct iNew) (encFields (wsO ++ wsA) ++ 0 :: r') = some (.strct fs'', r')) ∧
      toWFields P sdNew.fields fs'' = .ok wsN :=
  keep_roundtrip_core E

/-- **chain**: through ANY chain of hops old(keep_unknown_fields)→new→old→… of any length, starting from the
new code's bytes (or from the re-written ones), every hop succeeds and the bytes are always one of exactly two
strings: `encFields wsN` after a hop through the new code, common-then-added (a permutation of `wsN`) after
a hop through the old code. With `keep_roundtrip` (both strings decode under the new schema to an object that
encodes to `wsN`) nothing is ever lost. -/
theorem chain {P : Prog} {iOld iNew : Nat} {sdOld sdNew : StructDef} {mask : List Bool} {vs : List GoVal}
    {wsN : List (Nat × WVal)} {f : Nat} (E : Evo P iOld iNew sdOld sdNew mask vs wsN f) :
    ∃ wsO wsA, (wsO ++ wsA).Perm wsN ∧
      ∀ (hops : List Hop) (b : Bytes), b = encFields wsN ++ [0] ∨ b = encFields (wsO ++ wsA) ++ [0] →
        runChain P f sdOld iNew hops b = some (endOf (encFields wsN ++ [0]) (encFields (wsO ++ wsA) ++ [0]) b hops) :=
  chain_core E

/-! ### regression item: a union carrying a member the old schema does not know

`old: union U {1: i32 a}`, `new: union U {1: i32 a, 2: string b}`, value `U{b: "hi"}`. Before the fix
"union Write accepts 0 known members when unknown fields are carried" the old code's Write refused this
object (`CountSetFields` = 0 ≠ 1) and `keep_roundtrip` was false for unions. -/

def unionOld : StructDef := { kind := 1, fields := [{ id := 1, req := .optional, ty := .i32, dflt := none }] }
def unionProg : Prog := { structs := [unionOld], keepUnknown := true, validateSet := false }
/-- `0b 0002 00000002 'h' 'i' 00`: what the new code writes for `U{b: "hi"}` -/
def unionBytes : Bytes := [11, 0, 2, 0, 0, 0, 2, 104, 105, 0]

/-- the old code with keep_unknown_fields reads the new union, carries the member it does not know, and
writes it back byte for byte — at one level and in the whole-program model; an empty union is still refused -/
theorem union_unknown_member_rewritten :
    readStructKU (readTy unionProg.structs 5) unionOld unionBytes = some ([.nil], [], [11, 0, 2, 0, 0, 0, 2, 104, 105]) ∧
    hopKU unionProg 5 unionOld unionBytes = some (unionBytes, true) ∧
    writeKU unionProg 0 (.strct [.nil, .bytes [11, 0, 2, 0, 0, 0, 2, 104, 105]]) = .ok unionBytes ∧
    writeStructKU unionProg unionOld [.nil] [] = .err ∧
    writeKU unionProg 0 (.strct [.nil, .bytes []]) = .err := by
  refine ⟨by rfl, by rfl, by rfl, by rfl, by rfl⟩

/-! ### the hypotheses are satisfiable: `struct S {1: i32 x}` → `struct S {1: i32 x, 2: optional string y}` -/

def exOld : StructDef := { kind := 0, fields := [{ id := 1, req := .default, ty := .i32, dflt := none }] }
def exNew : StructDef := { kind := 0, fields := [{ id := 1, req := .default, ty := .i32, dflt := none },
                                                  { id := 2, req := .optional, ty := .str, dflt := none }] }
def exProg : Prog := { structs := [exOld, exNew], keepUnknown := true, validateSet := false }

example : Evo exProg 0 1 exOld exNew [true, false] [.int 7, .bytes [104, 105]]
    [(1, .i32 7), (2, .bin [104, 105])] 1 where
  hP := Gen.Std.schemaOkB_sound exProg (by decide)
  hv := rfl
  hO := rfl
  hN := rfl
  hl := rfl
  hproj := rfl
  hfresh := by decide
  hadd := by decide
  hwt := by simp [WTFields, WT, exNew, fitsLen, maxSize]
  hw := by rfl
  hsh := by
    simp only [AddedShallow, exNew, and_true]
    intro w h
    have : w = .bin [104, 105] := by
      simp only [toW, scalarW, Res.ofOption] at h; cases h; rfl
    subst this; simp [WVal.depth]
  hd := by decide
  hcount := by decide

/-- on that instance the hop is computed: common field first, the added one after it, carrying -/
example : hopKU exProg 1 exOld [8, 0, 1, 0, 0, 0, 7, 11, 0, 2, 0, 0, 0, 2, 104, 105, 0] =
    some ([8, 0, 1, 0, 0, 0, 7, 11, 0, 2, 0, 0, 0, 2, 104, 105, 0], true) := by rfl

end Props.C09
