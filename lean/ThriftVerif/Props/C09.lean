/- C09 property theorems (stub: not built yet) -/
