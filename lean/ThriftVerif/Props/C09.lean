import ThriftVerif.Gen.Evolve
/-
  C09 — schema evolution: unknown fields are tolerated, and preserved when asked.
  This file holds the part proved over `Gen.Std` (code generated WITHOUT keep_unknown_fields):
  old↔new compatibility at one struct level. The keep_unknown_fields part (append/write of raw
  unknown fields, chains, carrying_iff, depth limit) is stated over `Gen.Unknown` further below
  once that model is built (see docs/C09.md).
-/
namespace Props.C09
open Wire Gen Gen.Std Gen.Evolve

/-- **old reads new**: for every accepted schema, every pair (old struct, new struct = old + any
number of added fields with fresh ids, at any positions, of any types nested no deeper than the
protocol's Skip limit), and every well-typed object of the new struct: the bytes the new code writes
are read without error by the old code, and the object the old code builds encodes to exactly what the
old code would write for the projected object — every common field keeps its value. -/
theorem old_reads_new (P : Prog) (hP : SchemaOK P) (hv : P.validateSet = false) (iOld : Nat)
    (sdOld sdNew : StructDef) (mask : List Bool) (vs : List GoVal) (wsN : List (Nat × WVal)) (f : Nat)
    (hO : P.structs[iOld]? = some sdOld) (hl : mask.length = sdNew.fields.length)
    (hproj : proj mask sdNew.fields = sdOld.fields)
    (hfresh : ∀ g ∈ added mask sdNew.fields, idOf g ∉ sdOld.fields.map idOf)
    (hwt : WTFields P.structs sdNew.fields vs) (hw : toWFields P sdNew.fields vs = .ok wsN)
    (hsh : AddedShallow P mask sdNew.fields vs) (hd : depthFields wsN ≤ f) :
    ∃ fs' wsO, toWFields P sdOld.fields (proj mask vs) = .ok wsO ∧ toWFields P sdOld.fields fs' = .ok wsO ∧
      ∀ r, readTy P.structs (f + 1) (.struct iOld) (encFields wsN ++ 0 :: r) = some (.strct fs', r) :=
  Gen.Evolve.old_reads_new P hP hv iOld sdOld sdNew mask vs wsN f hO hl hproj hfresh hwt hw hsh hd

/-- **new reads old**: the new code reads what the old code wrote; common fields keep their value,
added (optional/default) fields take their initial value (declared default, else zero/nil). -/
theorem new_reads_old (P : Prog) (hP : SchemaOK P) (hv : P.validateSet = false) (iNew : Nat)
    (sdOld sdNew : StructDef) (mask : List Bool) (us : List GoVal) (wsO : List (Nat × WVal)) (f : Nat)
    (hN : P.structs[iNew]? = some sdNew) (hl : mask.length = sdNew.fields.length)
    (hproj : proj mask sdNew.fields = sdOld.fields)
    (hadd : ∀ g ∈ added mask sdNew.fields, g.req ≠ .required)
    (hwt : WTFields P.structs sdOld.fields us) (hw : toWFields P sdOld.fields us = .ok wsO)
    (hd : depthFields wsO ≤ f) :
    ∃ fs', (∀ r, readTy P.structs (f + 1) (.struct iNew) (encFields wsO ++ 0 :: r) = some (.strct fs', r)) ∧
      toWFields P sdOld.fields (proj mask fs') = .ok wsO ∧ added mask fs' = added mask (initVals sdNew) :=
  Gen.Evolve.new_reads_old P hP hv iNew sdOld sdNew mask us wsO f hN hl hproj hadd hwt hw hd

end Props.C09
