import ThriftVerif.Lib.ResolveLemmas
/-
  C05 — symbol resolution binds every reference to the definition the IDL names.
  Property theorems only; model: Lib/Resolve.lean, specification: Lib/ResolveSpec.lean,
  helper lemmas: Lib/ResolveLemmas/*.lean.  All statements quantify over all programs.
-/
namespace Props.C05
open Sem

/-- A two-file program used to show that hypotheses are satisfiable:
file 0 `enum E {A}  typedef E T`, file 1 `include "b.thrift"  typedef b.T U  const U c = b.T.A`. -/
def sample : Program :=
  [ { filename := [98], includes := [], typedefs := [⟨[84], .name [69]⟩], constants := [],
      enums := [⟨[69], [⟨[65], 0⟩]⟩], structs := [], unions := [], exceptions := [], services := [] },
    { filename := [97], includes := [⟨[98, 46, 116], 0⟩], typedefs := [⟨[85], .name [98, 46, 84]⟩],
      constants := [⟨[99], .name [85], .ident [98, 46, 84, 46, 65]⟩],
      enums := [], structs := [], unions := [], exceptions := [], services := [] } ]

/-- The tables regenerated from the working tree (parser.Category numbering, semantic.categoryMap,
the case lists of ResolveType's switch, the category range tests of ResolveType and Deref) say what
the IDL specification says. -/
theorem tables_match_spec :
    (∀ n, baseCat n = specBase n) ∧
    (∀ c : Cat, c.isTypeLike = c.isTypeLikeSpec) ∧
    (∀ c : Cat, c.isDerefTarget = c.isConcrete) ∧
    Generated.C05.categoryNames = specCategoryNames ∧
    Cat.all.map Cat.toNat = List.range 18 ∧
    Generated.C05.containerCase = [kwMap, kwList, kwSet] ∧
    lookupB kwMap Generated.C05.categoryMap = some Cat.map.toNat ∧
    lookupB kwList Generated.C05.categoryMap = some Cat.list.toNat ∧
    lookupB kwSet Generated.C05.categoryMap = some Cat.set.toNat :=
  ⟨baseCat_eq_specBase, isTypeLike_eq_spec, isDerefTarget_eq_concrete, category_numbering.1,
   category_numbering.2, container_table.1, container_table.2.1, container_table.2.2.1, container_table.2.2.2⟩

/-- The ResolveTypedefs loop ends within its measure (the number of unresolved entries strictly
decreases, so `len+1` iterations suffice: the model's fuel never runs out); when it succeeds no
queued Type node is left with category `typedef` and every written category is one the node's
chain settles at; it fails with "typedefs can not be resolved" only if some queued node's chain
never reaches a non-typedef (cyclic or dangling chain). -/
theorem typedef_fixpoint_complete (le : LoopEnv) (work : List TdEntry) :
    resolveTypedefs le work ≠ .error .loopDiverged ∧
    (∀ st, resolveTypedefs le work = .ok st →
      (∀ e, e ∈ work → ∃ c, st.get e.addr = some c ∧ c ≠ .typedef) ∧
      (∀ a c, st.get a = some c → ∃ e, e ∈ work ∧ e.addr = a ∧ Settles le work e c)) ∧
    (resolveTypedefs le work = .error .tdCycle → ∃ e, e ∈ work ∧ ∀ c, ¬ Settles le work e c) := by
  have h := resolveTypedefs_spec le work
  refine ⟨?_, ?_, ?_⟩
  · intro he; rw [he] at h; exact h
  · intro st hs
    rw [hs] at h
    refine ⟨?_, fun a c hg => (h.sound a c hg).2⟩
    intro e he
    rcases h.done e he with hm | hm
    · simp at hm
    · cases hg : st.get e.addr with
      | none => rw [hg] at hm; simp at hm
      | some c => exact ⟨c, rfl, (h.sound _ _ hg).1⟩
  · intro he; rw [he] at h; exact h

/-- After a successful run, every Type node of every resolved file carries the category of what it
ultimately denotes (typedef chains followed to the end, across includes; the denotation is unique
and never `typedef`), is flagged IsTypedef exactly when its written name names a typedef, and has
Reference = (k, name) exactly when it is written `prefix.name` and `k` is the first include whose
IDL prefix is `prefix` and whose file defines `name` as a type. -/
theorem resolve_category {p : Program} {root : Nat} {tbl : Table} (h : resolve p root = .ok tbl)
    {i : Nat} {f : File} {rf : RFile} (hf : p[i]? = some f) (hr : tbl[i]? = some (some rf))
    {s : Slot} {te : TypeExpr} (hs : SlotType f s te) :
    ∃ ns, rf.nodesAt s = some ns ∧ ns.length = te.nodes.length ∧
      ∀ (k : Nat) sub nd, te.nodes[k]? = some sub → ns[k]? = some nd →
        (∃ t, Den p i (.ty sub) t ∧ nd.cat = t.cat ∧ ∀ t', Den p i (.ty sub) t' → t' = t) ∧
        nd.cat ≠ .typedef ∧
        (nd.isTypedef = true ↔ NamesTypedef p i sub) ∧
        (∀ k' b, nd.ref = some ⟨k', b⟩ ↔ QualRef p i sub k' b) := by
  obtain ⟨inv, _⟩ := resolve_inv h
  obtain ⟨ns, h1, h2, h3⟩ := (inv.good i f rf hf hr).nodes s te hs
  refine ⟨ns, h1, h2, ?_⟩
  intro k sub nd hsub hnd
  obtain ⟨⟨t, hden, hcat⟩, q2, q3⟩ := h3 k sub nd hsub hnd
  refine ⟨⟨t, hden, hcat, fun t' h' => (den_unique inv hden ⟨rf, hr⟩ t' h').symm⟩, ?_, q2, q3⟩
  rw [hcat]
  exact den_cat_ne_typedef hden

/-- the hypotheses of `resolve_category` are satisfiable -/
example : ∃ tbl, resolve sample 1 = .ok tbl := by
  have h : (match resolve sample 1 with | .ok _ => true | .error _ => false) = true := by decide
  cases hr : resolve sample 1 with
  | ok t => exact ⟨t, rfl⟩
  | error e => rw [hr] at h; simp at h

/-- `Include.Used` of include `k` is set exactly when something in the file is bound through it: a
type node whose Reference index is `k`, an identifier value whose Extra.Index is `k`, or a service
whose base-service Reference index is `k`. -/
theorem used_iff_referenced {p : Program} {root : Nat} {tbl : Table} (h : resolve p root = .ok tbl)
    {i : Nat} {f : File} {rf : RFile} (hf : p[i]? = some f) (hr : tbl[i]? = some (some rf)) :
    rf.used.length = f.includes.length ∧
    ∀ k, k < f.includes.length → (rf.used[k]? = some true ↔ RefersTo f rf k) := by
  obtain ⟨inv, _⟩ := resolve_inv h
  obtain ⟨views, hv, _, ha⟩ := inv.produced i f rf hf hr
  exact resolveAST_used hf hv ha

/-- On a resolved program, `semantic.Deref` of any Type node terminates (some finite recursion
depth suffices: no fatal recursion) and returns the file, name and category of what the node
denotes — the struct / enum / union / exception definition, or the base or container type
expression, at the end of its typedef chain. -/
theorem deref_total {p : Program} {root : Nat} {tbl : Table} (h : resolve p root = .ok tbl)
    {i : Nat} {f : File} {rf : RFile} (hf : p[i]? = some f) (hr : tbl[i]? = some (some rf))
    {s : Slot} {te : TypeExpr} (hs : SlotType f s te) {ns : List RNode} (hns : rf.nodesAt s = some ns)
    {k : Nat} {sub : TypeExpr} {nd : RNode} (hsub : te.nodes[k]? = some sub) (hnd : ns[k]? = some nd) :
    ∃ t, Den p i (.ty sub) t ∧ ∃ fuel0, ∀ fuel, fuel0 ≤ fuel →
      deref (tableViews p tbl) fuel i sub.rootName nd.cat nd.isTypedef nd.ref = .ok (t.file, t.name, t.cat) := by
  obtain ⟨inv, _⟩ := resolve_inv h
  obtain ⟨ns', h1, _, h3⟩ := (inv.good i f rf hf hr).nodes s te hs
  rw [hns] at h1
  simp only [Option.some.injEq] at h1
  subst h1
  have hng := h3 k sub nd hsub hnd
  obtain ⟨t, hden, _⟩ := hng.1
  exact ⟨t, hden, deref_den inv hden ⟨rf, hr⟩ nd hng⟩

/-
  resolve_const_binding — full statement (FALSE on the model and on the code, see the witness below):

    resolve p root = .ok tbl → p[i]? = some f → tbl[i]? = some (some rf) → SlotConst f s cv →
    ∃ bs, rf.bindsAt s = some bs ∧ bs.length = cv.idents.length ∧
      ∀ k id b, cv.idents[k]? = some id → bs[k]? = some b →
        ((id = "true" ∨ id = "false") ∧ b = none) ∨
        (… ∧ ∃ x, b = some x ∧ ConstCand p i id x ∧ ∀ y, ConstCand p i id y → y = x)

  It fails when a definition name contains a '.', which the grammar allows: `getEnum` falls back
  to looking the *written* name of a typedef's type (`prefix.name`) up in the local AST after the
  qualified lookup found no enum.  The partial theorem assumes `p.saneNames` (no global name is
  empty, contains a '.', or is a type keyword).
-/

/-- Every identifier used as a constant value (other than `true` / `false`, which get no Extra) is
bound to the one thing it names: its Extra is a `ConstCand` (local constant, enum.value,
include.constant, include.enum.value, enums also through typedefs, with the include index the code
reports) and every `ConstCand` of the identifier equals it.  Contrapositive: with no candidate or
with two different ones, resolution fails. -/
theorem resolve_const_binding_partial {p : Program} (hsane : p.saneNames = true)
    {root : Nat} {tbl : Table} (h : resolve p root = .ok tbl)
    {i : Nat} {f : File} {rf : RFile} (hf : p[i]? = some f) (hr : tbl[i]? = some (some rf))
    {s : Slot} {cv : ConstVal} (hs : SlotConst f s cv) :
    ∃ bs, rf.bindsAt s = some bs ∧ bs.length = cv.idents.length ∧
      ∀ (k : Nat) id b, cv.idents[k]? = some id → bs[k]? = some b →
        ((id = kwTrue ∨ id = kwFalse) ∧ b = none) ∨
        (¬ (id = kwTrue ∨ id = kwFalse) ∧ ∃ x, b = some x ∧ ConstCand p i id x ∧
          ∀ y, ConstCand p i id y → y = x) := by
  obtain ⟨inv, _⟩ := resolve_inv h
  obtain ⟨views, hv, hc, ha⟩ := inv.produced i f rf hf hr
  exact resolveAST_binds hsane hf hv hc ha (inv.good i f rf hf hr) hs

/-- the hypotheses are satisfiable -/
example : sample.saneNames = true := by decide

/-- Witness that the hypothesis `saneNames` cannot be dropped:
file 0 `a.thrift`: `struct b {}`; file 1: `include "a.thrift"  enum a.b { X }  typedef a.b T
const i32 c = T.X`. -/
def dotted : Program :=
  [ { filename := [97], includes := [], typedefs := [], constants := [], enums := [],
      structs := [⟨.struct, [98], []⟩], unions := [], exceptions := [], services := [] },
    { filename := [109], includes := [⟨[97, 46, 116, 104, 114, 105, 102, 116], 0⟩],
      typedefs := [⟨[84], .name [97, 46, 98]⟩],
      constants := [⟨[99], .name [105, 51, 50], .ident [84, 46, 88]⟩],
      enums := [⟨[97, 46, 98], [⟨[88], 0⟩]⟩], structs := [], unions := [], exceptions := [], services := [] } ]

/-- On `dotted` the model (like the code) resolves `T` to the *struct* `b` of the include
(category struct, Reference (0, b)) and nevertheless binds `T.X` as a value of an enum. -/
example : ∃ tbl rf, resolve dotted 1 = .ok tbl ∧ tbl[1]? = some (some rf) ∧
    rf.nodesAt (.typedef [84]) = some [⟨.struct, false, some ⟨0, [98]⟩⟩] ∧
    rf.bindsAt (.const [99]) = some [some ⟨true, -1, [88], [84]⟩] := by
  have h : (match resolve dotted 1 with
      | .ok tbl => (match tbl[1]? with
          | some (some rf) =>
            decide (rf.nodesAt (.typedef [84]) = some [⟨.struct, false, some ⟨0, [98]⟩⟩]) &&
            decide (rf.bindsAt (.const [99]) = some [some ⟨true, -1, [88], [84]⟩])
          | _ => false)
      | .error _ => false) = true := by decide
  cases hr : resolve dotted 1 with
  | error e => rw [hr] at h; simp at h
  | ok tbl =>
    rw [hr] at h
    simp only at h
    cases ht : tbl[1]? with
    | none => rw [ht] at h; simp at h
    | some x =>
      cases x with
      | none => rw [ht] at h; simp at h
      | some rf =>
        rw [ht] at h
        simp only [Bool.and_eq_true, decide_eq_true_eq] at h
        exact ⟨tbl, rf, rfl, ht, h.1, h.2⟩

/-- … although, read as the property reads identifiers, `T.X` names nothing in `dotted`. -/
theorem dotted_has_no_candidate : ∀ y, ¬ ConstCand dotted 1 [84, 46, 88] y := by
  have hlen : dotted.length = 2 := rfl
  have hf1 : ∀ f, dotted[1]? = some f → f = dotted[1] := by
    intro f h
    rw [List.getElem?_eq_getElem (by rw [hlen]; omega)] at h
    exact (Option.some.inj h).symm
  have noEnum0 : ∀ b e idx, ¬ EnumDen dotted 0 b e idx := by
    intro b e idx h
    cases h with
    | enum h1 h2 =>
      rw [List.getElem?_eq_getElem (by rw [hlen]; omega)] at h1
      have := (Option.some.inj h1).symm
      subst this
      generalize hc : Cat.enum = c at h2
      cases h2 with
      | typedef h => cases hc
      | constant h => cases hc
      | enum h => simp [dotted] at h
      | @structLike s h =>
        simp only [dotted, File.structLikes, List.getElem_cons_zero, List.append_nil, List.mem_cons,
          List.not_mem_nil, or_false] at h
        subst h
        cases hc
      | service h => cases hc
    | tdLoc h1 h2 _ _ _ _ =>
      rw [List.getElem?_eq_getElem (by rw [hlen]; omega)] at h1
      have := (Option.some.inj h1).symm
      subst this
      simp [dotted] at h2
    | tdQual h1 h2 _ _ _ _ _ =>
      rw [List.getElem?_eq_getElem (by rw [hlen]; omega)] at h1
      have := (Option.some.inj h1).symm
      subst this
      simp [dotted] at h2
  have noEnumT : ∀ e idx, ¬ EnumDen dotted 1 [84] e idx := by
    intro e idx h
    generalize hb : ([84] : Bytes) = b at h
    cases h with
    | @enum _ f _ h1 h2 =>
      have := hf1 f h1
      subst this
      generalize hc : Cat.enum = c at h2
      cases h2 with
      | typedef h => cases hc
      | constant h => cases hc
      | enum h => simp [dotted] at h; rw [h] at hb; simp at hb
      | @structLike s h => simp [dotted, File.structLikes] at h
      | service h => cases hc
    | @tdLoc _ f td n _ _ h1 h2 h3 _ h5 _ =>
      have := hf1 f h1
      subst this
      simp only [dotted, List.getElem_cons_succ, List.getElem_cons_zero, List.mem_cons, List.not_mem_nil,
        or_false] at h2
      subst h2
      simp only [TypeExpr.name.injEq] at h3
      subst h3
      simp [splitLastDot] at h5
    | @tdQual _ f td n a b' k j' c _ _ h1 h2 h3 _ h5 h6 h7 =>
      have := hf1 f h1
      subst this
      obtain ⟨inc, g, r1, r2, _⟩ := h6
      have hk : k = 0 := by
        have := (List.getElem?_eq_some_iff.mp r1).1
        simp [dotted] at this
        exact this
      subst hk
      simp only [dotted, List.getElem_cons_succ, List.getElem_cons_zero, List.getElem?_cons_zero,
        Option.some.injEq] at r1
      subst r1
      simp only at r2
      subst r2
      exact noEnum0 _ _ _ h7
  intro y hy
  cases hy with
  | localConst _ h2 _ => simp [splitLastDot] at h2
  | enumValue h1 h2 _ =>
    have : splitLastDot [84, 46, 88] = some ([84], [88]) := by decide
    rw [this] at h1
    simp only [Option.some.injEq, Prod.mk.injEq] at h1
    obtain ⟨rfl, rfl⟩ := h1
    exact noEnumT _ _ h2
  | @incConst f a v k inc g h0 h1 h2 h3 _ _ =>
    have : splitLastDot [84, 46, 88] = some ([84], [88]) := by decide
    rw [this] at h1
    simp only [Option.some.injEq, Prod.mk.injEq] at h1
    obtain ⟨rfl, rfl⟩ := h1
    have := hf1 f h0
    subst this
    have hk : k = 0 := by
      have := (List.getElem?_eq_some_iff.mp h2).1
      simp [dotted] at this
      exact this
    subst hk
    simp only [dotted, List.getElem_cons_succ, List.getElem_cons_zero, List.getElem?_cons_zero,
      Option.some.injEq] at h2
    subst h2
    revert h3
    decide
  | incEnumValue _ h1 h2 _ _ _ _ =>
    have : splitLastDot [84, 46, 88] = some ([84], [88]) := by decide
    rw [this] at h1
    simp only [Option.some.injEq, Prod.mk.injEq] at h1
    obtain ⟨rfl, rfl⟩ := h1
    simp [splitLastDot] at h2

/-- The outcome does not depend on the order of the definitions: if `p'` is `p` with the typedefs,
constants, enums, structs, unions, exceptions and services of each file permuted (`ProgPerm`), then
resolution succeeds on both or on neither, finishes the same files, and stores the same things
(`TableEquiv`): the same resolved nodes at every type slot, the same bindings at every constant
slot, the same base-service references, the same `Used` flags, the same Name2Category. Slots identify
a definition by its name and a member by its position, so this is equality per definition identity.
(Which error is reported, and whether a fatal crash precedes an error, may depend on the order.) -/
theorem order_independent {p p' : Program} (hp : ProgPerm p p') (root : Nat) :
    (∀ tbl, resolve p root = .ok tbl → ∃ tbl', resolve p' root = .ok tbl' ∧ TableEquiv tbl tbl') ∧
    (∀ tbl', resolve p' root = .ok tbl' → ∃ tbl, resolve p root = .ok tbl ∧ TableEquiv tbl tbl') := by
  refine ⟨fun tbl h => resolve_perm hp root h, ?_⟩
  intro tbl' h
  obtain ⟨tbl, h1, h2⟩ := resolve_perm hp.symm root h
  exact ⟨tbl, h1, h2.symm⟩

/-- the hypothesis is satisfiable (and non-trivially so: reverse the definitions of `sample`) -/
example : ProgPerm sample sample :=
  ⟨rfl, fun i f f' h h' => by
    rw [h] at h'
    simp only [Option.some.injEq] at h'
    subst h'
    exact ⟨rfl, rfl, List.Perm.refl _, List.Perm.refl _, List.Perm.refl _, List.Perm.refl _, List.Perm.refl _,
      List.Perm.refl _, List.Perm.refl _⟩⟩

end Props.C05
