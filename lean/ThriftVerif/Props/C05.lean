/- C05 property theorems (stub: not built yet) -/
