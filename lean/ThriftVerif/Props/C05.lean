import ThriftVerif.Lib.ResolveLemmas
/-
  C05 — symbol resolution binds every reference to the definition the IDL names.
  Property theorems only; model: Lib/Resolve.lean, specification: Lib/ResolveSpec.lean,
  helper lemmas: Lib/ResolveLemmas/*.lean.  All statements quantify over all programs.
-/
namespace Props.C05
open Sem

/-- A two-file program used to show that hypotheses are satisfiable:
file 0 `enum E {A}  typedef E T`, file 1 `include "b.thrift"  typedef b.T U  const U c = b.T.A`. -/
def sample : Program :=
  [ { filename := [98], includes := [], typedefs := [⟨[84], .name [69]⟩], constants := [],
      enums := [⟨[69], [⟨[65], 0⟩]⟩], structs := [], unions := [], exceptions := [], services := [] },
    { filename := [97], includes := [⟨[98, 46, 116], 0⟩], typedefs := [⟨[85], .name [98, 46, 84]⟩],
      constants := [⟨[99], .name [85], .ident [98, 46, 84, 46, 65]⟩],
      enums := [], structs := [], unions := [], exceptions := [], services := [] } ]

/-- The tables regenerated from the working tree (parser.Category numbering, semantic.categoryMap,
the case lists of ResolveType's switch, the category range tests of ResolveType and Deref) say what
the IDL specification says. -/
theorem tables_match_spec :
    (∀ n, baseCat n = specBase n) ∧
    (∀ c : Cat, c.isTypeLike = c.isTypeLikeSpec) ∧
    (∀ c : Cat, c.isDerefTarget = c.isConcrete) ∧
    Generated.C05.categoryNames = specCategoryNames ∧
    Cat.all.map Cat.toNat = List.range 18 ∧
    Generated.C05.containerCase = [kwMap, kwList, kwSet] ∧
    lookupB kwMap Generated.C05.categoryMap = some Cat.map.toNat ∧
    lookupB kwList Generated.C05.categoryMap = some Cat.list.toNat ∧
    lookupB kwSet Generated.C05.categoryMap = some Cat.set.toNat :=
  ⟨baseCat_eq_specBase, isTypeLike_eq_spec, isDerefTarget_eq_concrete, category_numbering.1,
   category_numbering.2, container_table.1, container_table.2.1, container_table.2.2.1, container_table.2.2.2⟩

/-- The ResolveTypedefs loop ends within its measure (the number of unresolved entries strictly
decreases, so `len+1` iterations suffice: the model's fuel never runs out); when it succeeds no
queued Type node is left with category `typedef` and every written category is one the node's
chain settles at; it fails with "typedefs can not be resolved" only if some queued node's chain
never reaches a non-typedef (cyclic or dangling chain). -/
theorem typedef_fixpoint_complete (le : LoopEnv) (work : List TdEntry) :
    resolveTypedefs le work ≠ .error .loopDiverged ∧
    (∀ st, resolveTypedefs le work = .ok st →
      (∀ e, e ∈ work → ∃ c, st.get e.addr = some c ∧ c ≠ .typedef) ∧
      (∀ a c, st.get a = some c → ∃ e, e ∈ work ∧ e.addr = a ∧ Settles le work e c)) ∧
    (resolveTypedefs le work = .error .tdCycle → ∃ e, e ∈ work ∧ ∀ c, ¬ Settles le work e c) := by
  have h := resolveTypedefs_spec le work
  refine ⟨?_, ?_, ?_⟩
  · intro he; rw [he] at h; exact h
  · intro st hs
    rw [hs] at h
    refine ⟨?_, fun a c hg => (h.sound a c hg).2⟩
    intro e he
    rcases h.done e he with hm | hm
    · simp at hm
    · cases hg : st.get e.addr with
      | none => rw [hg] at hm; simp at hm
      | some c => exact ⟨c, rfl, (h.sound _ _ hg).1⟩
  · intro he; rw [he] at h; exact h

/-- After a successful run, every Type node of every resolved file carries the category of what it
ultimately denotes (typedef chains followed to the end, across includes; the denotation is unique
and never `typedef`), is flagged IsTypedef exactly when its written name names a typedef, and has
Reference = (k, name) exactly when it is written `prefix.name` and `k` is the first include whose
IDL prefix is `prefix` and whose file defines `name` as a type. -/
theorem resolve_category {p : Program} {root : Nat} {tbl : Table} (h : resolve p root = .ok tbl)
    {i : Nat} {f : File} {rf : RFile} (hf : p[i]? = some f) (hr : tbl[i]? = some (some rf))
    {s : Slot} {te : TypeExpr} (hs : SlotType f s te) :
    ∃ ns, rf.nodesAt s = some ns ∧ ns.length = te.nodes.length ∧
      ∀ (k : Nat) sub nd, te.nodes[k]? = some sub → ns[k]? = some nd →
        (∃ t, Den p i (.ty sub) t ∧ nd.cat = t.cat ∧ ∀ t', Den p i (.ty sub) t' → t' = t) ∧
        nd.cat ≠ .typedef ∧
        (nd.isTypedef = true ↔ NamesTypedef p i sub) ∧
        (∀ k' b, nd.ref = some ⟨k', b⟩ ↔ QualRef p i sub k' b) := by
  obtain ⟨inv, _⟩ := resolve_inv h
  obtain ⟨ns, h1, h2, h3⟩ := (inv.good i f rf hf hr).nodes s te hs
  refine ⟨ns, h1, h2, ?_⟩
  intro k sub nd hsub hnd
  obtain ⟨⟨t, hden, hcat⟩, q2, q3⟩ := h3 k sub nd hsub hnd
  refine ⟨⟨t, hden, hcat, fun t' h' => (den_unique inv hden ⟨rf, hr⟩ t' h').symm⟩, ?_, q2, q3⟩
  rw [hcat]
  exact den_cat_ne_typedef hden

/-- the hypotheses of `resolve_category` are satisfiable -/
example : ∃ tbl, resolve sample 1 = .ok tbl := by
  have h : (match resolve sample 1 with | .ok _ => true | .error _ => false) = true := by decide
  cases hr : resolve sample 1 with
  | ok t => exact ⟨t, rfl⟩
  | error e => rw [hr] at h; simp at h

/-- `Include.Used` of include `k` is set exactly when something in the file is bound through it: a
type node whose Reference index is `k`, an identifier value whose Extra.Index is `k`, or a service
whose base-service Reference index is `k`. -/
theorem used_iff_referenced {p : Program} {root : Nat} {tbl : Table} (h : resolve p root = .ok tbl)
    {i : Nat} {f : File} {rf : RFile} (hf : p[i]? = some f) (hr : tbl[i]? = some (some rf)) :
    rf.used.length = f.includes.length ∧
    ∀ k, k < f.includes.length → (rf.used[k]? = some true ↔ RefersTo f rf k) := by
  obtain ⟨inv, _⟩ := resolve_inv h
  obtain ⟨views, hv, _, ha⟩ := inv.produced i f rf hf hr
  exact resolveAST_used hf hv ha

/-- On a resolved program, `semantic.Deref` of any Type node terminates (some finite recursion
depth suffices: no fatal recursion) and returns the file, name and category of what the node
denotes — the struct / enum / union / exception definition, or the base or container type
expression, at the end of its typedef chain. -/
theorem deref_total {p : Program} {root : Nat} {tbl : Table} (h : resolve p root = .ok tbl)
    {i : Nat} {f : File} {rf : RFile} (hf : p[i]? = some f) (hr : tbl[i]? = some (some rf))
    {s : Slot} {te : TypeExpr} (hs : SlotType f s te) {ns : List RNode} (hns : rf.nodesAt s = some ns)
    {k : Nat} {sub : TypeExpr} {nd : RNode} (hsub : te.nodes[k]? = some sub) (hnd : ns[k]? = some nd) :
    ∃ t, Den p i (.ty sub) t ∧ ∃ fuel0, ∀ fuel, fuel0 ≤ fuel →
      deref (tableViews p tbl) fuel i sub.rootName nd.cat nd.isTypedef nd.ref = .ok (t.file, t.name, t.cat) := by
  obtain ⟨inv, _⟩ := resolve_inv h
  obtain ⟨ns', h1, _, h3⟩ := (inv.good i f rf hf hr).nodes s te hs
  rw [hns] at h1
  simp only [Option.some.injEq] at h1
  subst h1
  have hng := h3 k sub nd hsub hnd
  obtain ⟨t, hden, _⟩ := hng.1
  exact ⟨t, hden, deref_den inv hden ⟨rf, hr⟩ nd hng⟩

/-- Every identifier used as a constant value (other than `true` / `false`, which get no Extra) is
bound to the one thing it names: its Extra is a `ConstCand` (local constant, enum.value,
include.constant, include.enum.value, enums also through typedefs, with the include index the code
reports) and every `ConstCand` of the identifier equals it.  Contrapositive: with no candidate or
with two different ones, resolution fails.  Constant values are those of constants, of struct /
union / exception fields, and of function arguments and throws.  (Full since /repo 58e7614 + 05813e1:
no hypothesis on definition names is left.) -/
theorem resolve_const_binding {p : Program}
    {root : Nat} {tbl : Table} (h : resolve p root = .ok tbl)
    {i : Nat} {f : File} {rf : RFile} (hf : p[i]? = some f) (hr : tbl[i]? = some (some rf))
    {s : Slot} {cv : ConstVal} (hs : SlotConst f s cv) :
    ∃ bs, rf.bindsAt s = some bs ∧ bs.length = cv.idents.length ∧
      ∀ (k : Nat) id b, cv.idents[k]? = some id → bs[k]? = some b →
        ((id = kwTrue ∨ id = kwFalse) ∧ b = none) ∨
        (¬ (id = kwTrue ∨ id = kwFalse) ∧ ∃ x, b = some x ∧ ConstCand p i id x ∧
          ∀ y, ConstCand p i id y → y = x) := by
  obtain ⟨inv, _⟩ := resolve_inv h
  obtain ⟨views, hv, hc, ha⟩ := inv.produced i f rf hf hr
  exact resolveAST_binds hf hv hc ha (inv.good i f rf hf hr) hs

/-- Regression item (defect fixed in /repo 58e7614): file 0 `a.thrift`: `struct b {}`; file 1:
`include "a.thrift"  enum a.b { X }  typedef a.b T  const i32 c = T.X`.  The old getEnum bound `T.X`
to the local enum literally named `a.b`; now `T.X` is an undefined value. -/
def dotted : Program :=
  [ { filename := [97], includes := [], typedefs := [], constants := [], enums := [],
      structs := [⟨.struct, [98], []⟩], unions := [], exceptions := [], services := [] },
    { filename := [109], includes := [⟨[97, 46, 116, 104, 114, 105, 102, 116], 0⟩],
      typedefs := [⟨[84], .name [97, 46, 98]⟩],
      constants := [⟨[99], .name [105, 51, 50], .ident [84, 46, 88]⟩],
      enums := [⟨[97, 46, 98], [⟨[88], 0⟩]⟩], structs := [], unions := [], exceptions := [], services := [] } ]

example : (match resolve dotted 1 with | .error .undefValue => true | _ => false) = true := by decide

/-- Regression item (same commit): `typedef Loop1 Loop0  typedef Loop0 Loop1  const i32 k = Loop0.X`
used to exhaust the stack in getEnum; with the visited set it is an undefined value. -/
def looped : Program :=
  [ { filename := [109], includes := [],
      typedefs := [⟨[76, 48], .name [76, 49]⟩, ⟨[76, 49], .name [76, 48]⟩],
      constants := [⟨[107], .name [105, 51, 50], .ident [76, 48, 46, 88]⟩],
      enums := [], structs := [], unions := [], exceptions := [], services := [] } ]

example : (match resolve looped 0 with | .error .undefValue => true | _ => false) = true := by decide

/-- Regression item (defect fixed in /repo 05813e1): `enum list { X }  typedef list<i32> T
const i32 c = T.X` — getEnum used to continue with the keyword `list` as a name and bound `T.X`
to the enum called `list`; now an undefined value. -/
def kwlist : Program :=
  [ { filename := [109], includes := [],
      typedefs := [⟨[84], .list (.name [105, 51, 50])⟩],
      constants := [⟨[99], .name [105, 51, 50], .ident [84, 46, 88]⟩],
      enums := [⟨[108, 105, 115, 116], [⟨[88], 0⟩]⟩], structs := [], unions := [], exceptions := [],
      services := [] } ]

example : (match resolve kwlist 0 with | .error .undefValue => true | _ => false) = true := by decide

/-- getEnum's recursion is bounded by its visited set: whenever every typedef the views know is a
typedef of the program (true of the views ResolveAST builds, `allViews_keys`), a call started with
the empty visited set and the driver's fuel `p.chainFuel` never exhausts the fuel — `Err.fuel` (and
with it the former fatal-crash outcome of getEnum) is not an outcome. -/
theorem getEnum_fuel_unreachable {p : Program} {views : Nat → Option FileView}
    (hK : ∀ j v n, views j = some v → v.n2c n = some .typedef → (j, n) ∈ p.typedefKeys)
    (j : Nat) (name : Bytes) : getEnum views p.chainFuel [] j name ≠ .error .fuel :=
  getEnum_fuel hK p.chainFuel [] j name List.nodup_nil (by intro k hk; simp at hk)
    (by simp only [List.length_nil, Nat.sub_zero]; exact typedefKeys_lt_chainFuel p)

/-- The outcome does not depend on the order of the definitions: if `p'` is `p` with the typedefs,
constants, enums, structs, unions, exceptions and services of each file permuted (`ProgPerm`), then
resolution succeeds on both or on neither, finishes the same files, and stores the same things
(`TableEquiv`): the same resolved nodes at every type slot, the same bindings at every constant
slot, the same base-service references, the same `Used` flags, the same Name2Category. Slots identify
a definition by its name and a member by its position, so this is equality per definition identity.
(Which error is reported, and whether a fatal crash precedes an error, may depend on the order.) -/
theorem order_independent {p p' : Program} (hp : ProgPerm p p') (root : Nat) :
    (∀ tbl, resolve p root = .ok tbl → ∃ tbl', resolve p' root = .ok tbl' ∧ TableEquiv tbl tbl') ∧
    (∀ tbl', resolve p' root = .ok tbl' → ∃ tbl, resolve p root = .ok tbl ∧ TableEquiv tbl tbl') := by
  refine ⟨fun tbl h => resolve_perm hp root h, ?_⟩
  intro tbl' h
  obtain ⟨tbl, h1, h2⟩ := resolve_perm hp.symm root h
  exact ⟨tbl, h1, h2.symm⟩

/-- the hypothesis is satisfiable (and non-trivially so: reverse the definitions of `sample`) -/
example : ProgPerm sample sample :=
  ⟨rfl, fun i f f' h h' => by
    rw [h] at h'
    simp only [Option.some.injEq] at h'
    subst h'
    exact ⟨rfl, rfl, List.Perm.refl _, List.Perm.refl _, List.Perm.refl _, List.Perm.refl _, List.Perm.refl _,
      List.Perm.refl _, List.Perm.refl _⟩⟩

end Props.C05
