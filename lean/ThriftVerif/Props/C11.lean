import ThriftVerif.Lib.Plugin
import ThriftVerif.Lib.PluginLemmas
import ThriftVerif.Gen.Std
import ThriftVerif.Gen.StdLemmas
import ThriftVerif.Gen.SchemaCheck
import ThriftVerif.Lib.PluginCodecLemmas
import ThriftVerif.Generated.C11Schema
/-
  C11 — plugins see the compiler's AST and options, and their answers are honoured.

  Property theorems over
  * `Generated.C11.prog` — the schema of plugin.Request / plugin.Response / the whole AST, regenerated on
    every run from plugin/protocol.thrift and parser/AST.thrift by the repository's own parser,
  * `Gen.Std` — the schema-driven writer/reader (what the generated codec computes; for this schema the
    fast codec of k-AST.go / k-protocol.go: fields in id order, optional ⇔ nil test, no union check),
  * `Plugin` (Lib/Plugin.lean) — include compression, data trailer, version gate, option strings and the
    decision logic around executing one plugin.
-/
namespace Props.C11
open Wire Gen Gen.Std Plugin

/-- the regenerated schema is one the round-trip theorem applies to (distinct field ids, optional
fields start unset, …): checked by kernel evaluation of the Bool-valued checker on the regenerated value -/
theorem schema_ok : SchemaOK Generated.C11.prog := schemaOkB_sound _ (by decide)

/-- **The request a plugin decodes is the request the compiler wrote.**  For every well-typed Go object
of the regenerated schema (in particular `Request`: every AST node kind, optional fields set or unset,
any nesting depth, any sizes), the reader accepts the writer's bytes — followed by any trailing bytes
`r`, e.g. the data trailer, which it leaves alone — and the object it builds encodes to exactly the same
bytes: same field ids, wire types, optional-present-iff-set, container contents in order. -/
theorem codec_roundtrip (sidx : Nat) (obj : GoVal) (bs r : Bytes)
    (hwt : WT Generated.C11.prog.structs (.struct sidx) obj)
    (h : write Generated.C11.prog sidx obj = .ok bs) :
    ∃ obj', readTy Generated.C11.prog.structs ((bs ++ r).length + 1) (.struct sidx) (bs ++ r) = some (obj', r) ∧
      write Generated.C11.prog sidx obj' = .ok bs := by
  simp only [write, Res.bind_eq_ok] at h
  obtain ⟨w, hw, hb⟩ := h
  cases hb
  have hd : w.depth ≤ (encW w ++ r).length + 1 := by
    have := depth_le_len w; simp only [List.length_append]; omega
  obtain ⟨v', hr, ht, _, _⟩ := rt Generated.C11.prog schema_ok rfl obj (.struct sidx) w _ r hwt hw hd
  exact ⟨v', hr, by simp [write, ht, bind]⟩

/-- `codec_roundtrip` at `Request`, through `Gen.Std.read` (= `UnmarshalRequest`'s `FastRead`),
with or without a trailer behind the encoding -/
theorem request_roundtrip (req : GoVal) (bs r : Bytes)
    (hwt : WT Generated.C11.prog.structs (.struct Generated.C11.requestIdx) req)
    (h : write Generated.C11.prog Generated.C11.requestIdx req = .ok bs) :
    ∃ req', read Generated.C11.prog Generated.C11.requestIdx (bs ++ r) = some req' ∧
      write Generated.C11.prog Generated.C11.requestIdx req' = .ok bs := by
  obtain ⟨v', hr, hw⟩ := codec_roundtrip _ req bs r hwt h
  exact ⟨v', by unfold Gen.Std.read; rw [hr]; rfl, hw⟩

/-- the same for the plugin's answer -/
theorem response_roundtrip (res : GoVal) (bs : Bytes)
    (hwt : WT Generated.C11.prog.structs (.struct Generated.C11.responseIdx) res)
    (h : write Generated.C11.prog Generated.C11.responseIdx res = .ok bs) :
    ∃ res', read Generated.C11.prog Generated.C11.responseIdx bs = some res' ∧
      write Generated.C11.prog Generated.C11.responseIdx res' = .ok bs := by
  obtain ⟨v', hr, hw⟩ := codec_roundtrip _ res bs [] hwt h
  simp only [List.append_nil] at hr
  exact ⟨v', by unfold Gen.Std.read; rw [hr]; rfl, hw⟩

/-- **Marshalling cannot fail**: every well-typed object of the regenerated schema is written (the fast
codec has no union check and no set validation, and the schema says so: `noUnionB` by evaluation) -/
theorem marshal_total (sidx : Nat) (obj : GoVal) (hwt : WT Generated.C11.prog.structs (.struct sidx) obj) :
    ∃ bs, write Generated.C11.prog sidx obj = .ok bs := by
  obtain ⟨w, hw⟩ := Plugin.Codec.toW_total Generated.C11.prog
    (Plugin.Codec.noUnionB_sound _ (by decide)) rfl obj (.struct sidx) hwt
  exact ⟨encW w, by simp [write, hw, bind]⟩

/-- whatever the writer emits for a struct-like ends with the STOP byte -/
theorem write_ends_with_stop (sidx : Nat) (obj : GoVal) (bs : Bytes)
    (h : write Generated.C11.prog sidx obj = .ok bs) : ∃ x, bs = x ++ [0] := by
  simp only [write, Res.bind_eq_ok] at h
  obtain ⟨w, hw, hb⟩ := h
  cases hb
  cases obj <;> simp only [toW, Res.ofOption, scalarW] at hw
  case nil =>
    split at hw
    · split at hw
      · cases hw
      · cases hw; exact ⟨[], by simp [encW, encFields]⟩
    · cases hw
  case strct fs =>
    split at hw
    · split at hw
      · cases hw
      · simp only [Res.bind_eq_ok] at hw
        obtain ⟨ws, _, hw⟩ := hw
        cases hw; exact ⟨encFields ws, by simp [encW]⟩
    · cases hw
  all_goals cases hw

/-! ### include compression -/

/-- **decompress ∘ compress = id, node for node**, on every include tree that is consistent (equal
filenames ⇒ the same file: equal contents and equal includes — what `parseFileRecursively`'s
`thriftMap[path]` memo guarantees: one `*Thrift` per normalised path, so the unfolding of the pointer
graph has equal subtrees under equal names; the `Include`s leading to a file may differ) and in which no
included file's name starts with the reference marker.  The nodes carry arbitrary payloads (`inc`: the
Include's Path/Used, `body`: everything else of the Thrift), which come back unchanged.  Both ways the
code decompresses: on the plugin side (`UnmarshalRequest`: nil map, collect first) and on the compiler
side (`defer decompress(req.AST, m)` with the compressor's own map — the revert that later plugins and
the caller rely on).  Any fuel ≥ the include depth suffices; no bound on the graph. -/
theorem compress_decompress {α : Type} (dflt : α) (t : Tree α) (hc : Consistent t) (hn : NoRef t)
    (f : Nat) (hf : t.depth ≤ f) :
    decompress f none (compress dflt t).1 = .ok t ∧
    decompress f (some (compress dflt t).2) (compress dflt t).1 = .ok t := by
  cases t with
  | node inc fn body ks =>
    simp only [Tree.depth] at hf
    have hI0 : Inv (fun d => d ∈ nodesK ks) [] ({ vis := [], heap := Heap.empty } : CState α) :=
      ⟨fun k hk => absurd rfl hk, fun k hk => (by cases hk), fun k hk => (by cases hk)⟩
    obtain ⟨_, _, _, h4⟩ := compressKids_inv dflt (fun d => d ∈ nodesK ks)
      (fun a b ha hb e => hc a b ha hb e) (fun a ha => hn a ha)
      (sizeK ks) ks (Nat.le_refl _) [] { vis := [], heap := Heap.empty } hI0
      (fun d hd => ⟨hd, fun h => by cases h⟩)
    have hcol := collect_compress dflt (sizeK ks) ks (Nat.le_refl _) (fun d hd => hn d hd)
      { vis := [], heap := Heap.empty } id (fun _ _ _ _ => rfl)
    have h := h4 f hf
    constructor
    · simp only [decompress, compress, Tree.kids, Tree.fn, Tree.inc, Tree.body]
      simp only [id] at hcol
      rw [hcol, h]
    · simp only [decompress, compress, Tree.kids, Tree.fn, Tree.inc, Tree.body]
      rw [h]

/-- hypotheses of `compress_decompress` are satisfiable: a diamond (d included twice, through includes
with different payloads 1 and 2) -/
example : decompress 2 none (compress 0 (.node 0 [97] 7 [.node 1 [98] 8 [.node 1 [100] 9 []], .node 2 [99] 8 [.node 2 [100] 9 []]])).1 =
    .ok (.node 0 [97] 7 [.node 1 [98] 8 [.node 1 [100] 9 []], .node 2 [99] 8 [.node 2 [100] 9 []]]) := by rfl

/-- the second occurrence really is replaced by a reference (compression is not the identity) -/
example : (compress 0 (.node 0 [97] 7 [.node 1 [98] 8 [.node 1 [100] 9 []], .node 2 [99] 8 [.node 2 [100] 9 []]])).1 =
    .node 0 [97] 7 [.node 1 [98] 8 [.node 1 [100] 9 []], .node 2 [99] 8 [.node 2 (refPrefix ++ [100]) 0 []]] := by rfl

/-- outside the hypotheses the statement is false — an included file whose (cwd-relative) name starts
with "THRIFGO_REF:" is taken for a reference by the plugin side, which panics "not found ref": -/
example : decompress 5 none (compress () (.node () [97] () [.node () (refPrefix ++ [120]) () []])).1 = .panic := by rfl

/-- … and an inconsistent tree (two different files under one name) comes back changed -/
example : decompress 5 none (compress 0 (.node 0 [97] 0 [.node 0 [98] 1 [], .node 0 [98] 2 []])).1 =
    .ok (.node 0 [97] 0 [.node 0 [98] 1 [], .node 0 [98] 1 []]) := by rfl

/-- **Whatever the gate says, the plugin ends up with the compiler's AST**: compressed-with-trailer for a
plugin that understands it (and the switch on), plain otherwise. -/
theorem plugin_sees_compiler_ast {α : Type} (dflt : α) (gate : Bool) (t : Tree α) (hc : Consistent t) (hn : NoRef t)
    (f : Nat) (hf : t.depth ≤ f) : receiveAst f (sendAst dflt gate t) = .ok t := by
  cases gate
  · simp [sendAst, receiveAst]
  · simp only [sendAst, receiveAst, if_true]
    exact (compress_decompress dflt t hc hn f hf).1

/-- why both halves must hang on ONE condition: compressed includes without the trailer reach the plugin
as reference stubs (the seeded change C11-m4: compression guarded by the environment switch alone) -/
example : receiveAst 5 ((compress 0 (.node 0 [97] 7 [.node 1 [98] 8 [.node 1 [100] 9 []], .node 2 [99] 8 [.node 2 [100] 9 []]])).1, false) =
    .ok (.node 0 [97] 7 [.node 1 [98] 8 [.node 1 [100] 9 []], .node 2 [99] 8 [.node 2 (refPrefix ++ [100]) 0 []]]) := by rfl

/-! ### data trailer -/

/-- the trailer is recognised behind any data, -/
theorem trailer_detected (d : Bytes) (feature : Nat) :
    hasDataTrailerFeature (appendDataTrailer d feature) feature = true := has_append_trailer d feature

/-- an encoding of a request (anything the writer emits: it ends with STOP) is never mistaken for
carrying one, -/
theorem trailer_absent (sidx : Nat) (obj : GoVal) (bs : Bytes) (feature : Nat)
    (h : write Generated.C11.prog sidx obj = .ok bs) : hasDataTrailerFeature bs feature = false := by
  obtain ⟨x, hx⟩ := write_ends_with_stop sidx obj bs h
  rw [hx]; exact no_trailer_of_stop x feature

/-- and the reader is not disturbed by it: decoding `appendDataTrailer bs f` gives what decoding `bs` gives
(the code never strips the trailer; `FastRead` stops at the request's STOP) -/
theorem trailer_ignored_by_reader (req : GoVal) (bs : Bytes) (feature : Nat)
    (hwt : WT Generated.C11.prog.structs (.struct Generated.C11.requestIdx) req)
    (h : write Generated.C11.prog Generated.C11.requestIdx req = .ok bs) :
    ∃ req', read Generated.C11.prog Generated.C11.requestIdx (appendDataTrailer bs feature) = some req' ∧
      write Generated.C11.prog Generated.C11.requestIdx req' = .ok bs := by
  have := request_roundtrip req bs ([feature] ++ trailerMagic) hwt h
  simpa [appendDataTrailer, List.append_assoc] using this

/-! ### version gate -/

/-- **supportDataTrailer v ⇔ v ≥ v0.4.2** (pre-release suffix ignored, as the code's comment says) for
every string `vA.B.C` or `vA.B.C-pre` with non-empty decimal `A`, `B`, `C` (leading zeros allowed, any
number of digits — the int64 clamp of `Atoi` does not matter) and arbitrary bytes `pre`. -/
theorem version_gate (a b c : Bytes) (pre : Option Bytes) (ha : IsDigits a) (hb : IsDigits b) (hc : IsDigits c) :
    supportDataTrailer (verString a b c pre) =
      decide (digitsNat a > 0 ∨ (digitsNat a = 0 ∧ (digitsNat b > 4 ∨ (digitsNat b = 4 ∧ digitsNat c ≥ 2)))) := by
  have na : ∀ x, x ∈ a → x ≠ 45 ∧ x ≠ 46 := fun x hx => digit_ne x (ha.2 x hx)
  have nb : ∀ x, x ∈ b → x ≠ 45 ∧ x ≠ 46 := fun x hx => digit_ne x (hb.2 x hx)
  have nc : ∀ x, x ∈ c → x ≠ 45 ∧ x ≠ 46 := fun x hx => digit_ne x (hc.2 x hx)
  -- the part before the first '-'
  let core : Bytes := 118 :: (a ++ 46 :: (b ++ 46 :: c))
  have hcore : ∀ x, x ∈ core → x ≠ 45 := by
    intro x hx
    simp only [core, List.mem_cons, List.mem_append] at hx
    rcases hx with rfl | hx | rfl | hx | rfl | hx
    · decide
    · exact (na x hx).1
    · decide
    · exact (nb x hx).1
    · decide
    · exact (nc x hx).1
  have hcut : (cut 45 (verString a b c pre)).1 = core := by
    cases pre with
    | none =>
      have : verString a b c none = core := by simp [verString, core]
      rw [this, cut_none 45 core hcore]
    | some p =>
      have : verString a b c (some p) = core ++ 45 :: p := by simp [verString, core]
      rw [this, cut_nosep 45 core p hcore]
  have hlen : ¬ core.length < 6 := by
    have h1 : a.length ≠ 0 := fun h => ha.1 (List.eq_nil_of_length_eq_zero h)
    have h2 : b.length ≠ 0 := fun h => hb.1 (List.eq_nil_of_length_eq_zero h)
    have h3 : c.length ≠ 0 := fun h => hc.1 (List.eq_nil_of_length_eq_zero h)
    simp only [core, List.length_cons, List.length_append]; omega
  have hsplit : splitOn 46 (core.drop 1) = [a, b, c] := by
    simp only [core, List.drop_succ_cons, List.drop_zero]
    rw [splitOn_nosep 46 a _ (fun x hx => (na x hx).2), splitOn_nosep 46 b _ (fun x hx => (nb x hx).2),
      splitOn_none 46 c (fun x hx => (nc x hx).2)]
  unfold supportDataTrailer
  simp only [hcut, hsplit]
  have hh : core.head? = some 118 := rfl
  simp only [hlen, hh, decide_false, Bool.false_or, bne_self_eq_false, Bool.false_eq_true, if_false]
  rw [atoi_digits a ha, atoi_digits b hb, atoi_digits c hc]
  simp only [maxInt64]
  by_cases h1 : digitsNat a > 0
  · have : (if digitsNat a > 9223372036854775807 then (9223372036854775807 : Int) else (digitsNat a : Int)) > 0 := by
      split <;> omega
    simp [this, h1]
  · have h1' : digitsNat a = 0 := by omega
    simp only [h1', gt_iff_lt, Nat.lt_irrefl, false_or, true_and]
    simp only [Nat.not_lt_zero, if_false, Int.natCast_zero, Int.lt_irrefl]
    by_cases h2 : digitsNat b = 4
    · simp only [h2]
      by_cases h3 : digitsNat c > 9223372036854775807
      · have : digitsNat c ≥ 2 := by omega
        simp [h3, this]
      · simp only [h3, if_false]
        by_cases h4 : digitsNat c ≥ 2 <;> simp [h4] <;> omega
    · by_cases h3 : digitsNat b > 9223372036854775807
      · have : digitsNat b > 4 := by omega
        simp [h3, this, h2]
      · simp only [h3, if_false]
        have hne : ((digitsNat b : Int) != 4) = true := by simp; omega
        simp only [hne, if_true, h2, false_and, or_false]
        by_cases h4 : digitsNat b > 4 <;> simp [h4] <;> omega

/-- the literals the model of `supportDataTrailer` is written with are those of the source today
(`Generated.C11.gate*` are read from plugin/plugin.go with go/parser on every run) -/
theorem gate_constants_match_source :
    [Generated.C11.gateMinLen, Generated.C11.gateMajorGt, Generated.C11.gateMinor, Generated.C11.gateMinorGt,
      Generated.C11.gatePatchGe] = gateConsts := by decide

/-- hypotheses satisfiable: "v0.4.2", "v0.4.2-rc1", "v0.10.0" -/
example : IsDigits [48] ∧ IsDigits [52] ∧ IsDigits [50] := by
  refine ⟨⟨by simp, ?_⟩, ⟨by simp, ?_⟩, ⟨by simp, ?_⟩⟩ <;> intro c hc <;> simp at hc <;> subst hc <;> decide

/-- outside the well-formed strings the gate is not a version comparison (negative witnesses):
"v100.." is accepted, "v0.4.2+meta" (>= v0.4.2 in semver) and "0.5.0" (no 'v') are refused -/
example : supportDataTrailer [118, 49, 48, 48, 46, 46] = true := by decide
example : supportDataTrailer [118, 48, 46, 52, 46, 50, 43, 109, 101, 116, 97] = false := by decide
example : supportDataTrailer [48, 46, 53, 46, 48, 48] = false := by decide

/-! ### option strings -/

/-- one option as written on the command line: `key` or `key=value` -/
def renderOpt (kv : Bytes × Option Bytes) : Bytes :=
  match kv.2 with
  | none => kv.1
  | some v => kv.1 ++ 61 :: v

/-- **Plugin (and generator) parameters reach the request in command-line order with their content**:
for `name:o1,o2,…` where `name` has no ':', keys have no ',' and no '=', values have no ',' (they may
contain ':' and '='), `ParseCompactArguments` then `Pack` yield `key=value` (`key=` for a bare key) for
every option, in order. -/
theorem params_order (name : Bytes) (kvs : List (Bytes × Option Bytes)) (hne : kvs ≠ [])
    (hname : ∀ c, c ∈ name → c ≠ 58)
    (hkeys : ∀ kv, kv ∈ kvs → ∀ c, c ∈ kv.1 → c ≠ 44 ∧ c ≠ 61)
    (hvals : ∀ kv, kv ∈ kvs → ∀ v, kv.2 = some v → ∀ c, c ∈ v → c ≠ 44) :
    ∃ opts, parseCompact (name ++ 58 :: joinComma (kvs.map renderOpt)) = some (name, opts) ∧
      pack opts = kvs.map (fun kv => kv.1 ++ [61] ++ kv.2.getD []) := by
  have hrender : ∀ x, x ∈ kvs.map renderOpt → ∀ c, c ∈ x → c ≠ 44 := by
    intro x hx c hc
    obtain ⟨kv, hkv, rfl⟩ := List.mem_map.mp hx
    obtain ⟨k, v⟩ := kv
    cases v with
    | none => exact (hkeys _ hkv c (by simpa [renderOpt] using hc)).1
    | some v =>
      simp only [renderOpt, List.mem_append, List.mem_cons] at hc
      rcases hc with hc | rfl | hc
      · exact (hkeys _ hkv c hc).1
      · decide
      · exact hvals _ hkv v rfl c hc
  have hsplit := splitOn_joinComma (kvs.map renderOpt) (by simpa using hne) hrender
  refine ⟨(kvs.map renderOpt).map parseOpt, ?_, ?_⟩
  · have hnonempty : (name ++ 58 :: joinComma (kvs.map renderOpt)).isEmpty = false := by
      cases name <;> simp
    simp only [parseCompact, hnonempty, Bool.false_eq_true, if_false, splitN2_nosep 58 name _ hname, hsplit]
  · simp only [pack, List.map_map]
    apply List.map_congr_left
    intro kv hkv
    obtain ⟨k, v⟩ := kv
    have hk : ∀ c, c ∈ k → c ≠ 61 := fun c hc => (hkeys _ hkv c hc).2
    cases v with
    | none => simp [renderOpt, parseOpt, splitN2_none 61 k hk]
    | some v => simp [renderOpt, parseOpt, splitN2_nosep 61 k v hk]

/-- hypotheses satisfiable, and the literal behaviour on "p:a=1,b": ["a=1", "b="] -/
example : (parseCompact [112, 58, 97, 61, 49, 44, 98]).map (fun x => pack x.2) = some [[97, 61, 49], [98, 61]] := by decide

/-- a ',' inside a value splits it (why the hypothesis is there): "p:a=1,2" gives ["a=1", "2="] -/
example : (parseCompact [112, 58, 97, 61, 49, 44, 50]).map (fun x => pack x.2) = some [[97, 61, 49], [50, 61]] := by decide

/-! ### faults -/

/-- **thriftgo fails exactly when the plugin failed**: the outcome of running one plugin is `fail` iff the
process did not exit with status 0 (non-zero exit, killed at the time limit, not started), or its stdout
does not decode as a Response, or the Response carries a non-empty error, or the file manager refuses its
contents — for an error text `errText` that is not empty (the code's wrapped error messages never are). -/
theorem fault_fails (feedOk : List Plugin.Generated → Bool) (run : RunResult) (decoded : Option Response)
    (stdout stderr errText note : Bytes) (he : errText ≠ []) :
    (∃ w, executeOutcome feedOk run decoded stdout stderr errText note = .fail w) ↔
      (run ≠ .exited 0 ∨ decoded = none ∨
        ∃ res, decoded = some res ∧ (res.error.getD [] ≠ [] ∨ feedOk res.contents = false)) := by
  unfold executeOutcome execute step
  by_cases hr : run = .exited 0
  · subst hr
    cases decoded with
    | none => simp [he]
    | some res =>
      by_cases hs : stderr.isEmpty = true
      · by_cases h1 : res.error.getD [] = [] <;> by_cases h2 : feedOk res.contents = true <;> simp [hs, h1, h2]
      · by_cases h1 : res.error.getD [] = [] <;> by_cases h2 : feedOk res.contents = true <;> simp [hs, h1, h2]
  · simp [hr, he]

/-- **…and otherwise the answer is honoured exactly**: the plugin's contents are what is fed to the file
manager, its warnings are what is shown (plus one line carrying its stderr, if any). -/
theorem answer_honoured (feedOk : List Plugin.Generated → Bool) (res : Response) (stdout stderr errText note : Bytes)
    (h1 : res.error.getD [] = []) (h2 : feedOk res.contents = true) :
    executeOutcome feedOk (.exited 0) (some res) stdout stderr errText note =
      .ok res.contents (if stderr.isEmpty then res.warnings else res.warnings ++ [note ++ stderr]) := by
  unfold executeOutcome execute step
  by_cases hs : stderr.isEmpty = true <;> simp [hs, h1, h2]

/-- warnings are shown even when the run fails: the failing plugin's stdout/stderr, or the warnings of
a Response that carries an error -/
theorem warnings_shown_on_failure (feedOk : List Plugin.Generated → Bool) (res : Response)
    (stdout stderr errText note : Bytes) (h1 : res.error.getD [] ≠ []) (hs : stderr = []) :
    executeOutcome feedOk (.exited 0) (some res) stdout stderr errText note = .fail res.warnings := by
  subst hs
  unfold executeOutcome execute step
  simp [h1]

/-- **Every `-g` runs exactly the `-p` plugins, each with its own parameters**: however many target
languages there are and whatever `g.plugins` held before, each `Generate` call executes the plugins of the
command line in order, plugin `i` with the parameters of `UsedPlugins[i]`, and never indexes out of range. -/
theorem each_generate_runs_own_plugins {δ : Type} (descs : List δ) (n : Nat) (st : List δ)
    (call : List (δ × Option δ)) (h : call ∈ generateCalls true descs n st) :
    call = descs.map fun d => (d, some d) := generateCalls_own descs n st call h

/-- **Every execution's `PluginParameters` are exactly the options of its own `-p` argument**, packed in
order — in particular the empty list for a plugin given no options — whatever the shared request held
before (`cur`: left by the previous plugin, an SDK plugin or the previous `-g`), for every number of
target languages. -/
theorem plugin_params_own (descs : List (List Opt)) (n : Nat) (cur : List Bytes) (call : List (List Bytes))
    (h : call ∈ paramsSeenCalls descs n cur) : call = descs.map pack := paramsSeenCalls_own descs n cur call h

/-- an option-less plugin after one with options sees nothing of the latter -/
example : (paramsSeen [[⟨[97], [49]⟩], []] [[120]]).1 = [[[97, 61, 49]], []] := by decide

/-- regression witness (repaired defect): without the reset the second language's loop runs the plugin
twice and indexes `UsedPlugins[1]` out of range — the panic `thriftgo -g go -g go:x -p P` died of -/
example : generateCalls false [7] 2 [] = [[(7, some 7)], [(7, some 7), (7, none)]] := by decide

/-- literal quirk kept by the model: a Response whose `Error` is set to the empty string is not a failure -/
example : executeOutcome (fun _ => true) (.exited 0) (some { error := some [], contents := [], warnings := [] })
    [] [] [1] [] = .ok [] [] := by decide

end Props.C11
