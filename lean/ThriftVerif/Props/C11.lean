/- C11 property theorems (stub: not built yet) -/
