/- C17 property theorems (stub: not built yet) -/
