/-
  C17 — dumping an AST to IDL text and parsing it back gives the same IDL (DESIGN.md §5.17).
  Property theorems only; the model is `Lib/Dump.lean`, helper lemmas are in `Lib/Dump*Lemmas.lean`.
  All statements are about the constants regenerated from dump.go (`Generated.C17.cfg`).
-/
import ThriftVerif.Lib.DumpLemmas
import ThriftVerif.Lib.DumpNumLemmas
import ThriftVerif.Lib.DumpReadLemmas
import ThriftVerif.Lib.DumpTreeLemmas
import ThriftVerif.Generated.C17

namespace Props.C17
open Dump

abbrev cfg := Generated.C17.cfg

/-- the regenerated constants of dump.go are the ones the lemmas were proved for -/
theorem generated_cfg_is_std : Generated.C17.cfg = Dump.stdCfg := by decide

/-- the writer appends its arguments as they are: no escaping, no whole-buffer post-pass -/
theorem writer_plain (s : Bytes) (ff : Nat → Bytes) (f : File) : ws cfg s = s ∧ dump cfg ff f = dumpBuffer cfg ff f :=
  ⟨rfl, rfl⟩

/-- regression (was: `&` in a type annotation came back as `&amp;`; `cpp_type` was dropped): the text of
    `i32 (a = "&")` is `i32(a = "&")`; `cpp_type` is written (list: after `>`, map/set: after the keyword). -/
theorem type_annotation_escaped_once :
    typeName cfg (.mk [105, 51, 50] none none [] [⟨[97], [[38]]⟩]) = [105, 51, 50, 40, 97, 32, 61, 32, 34, 38, 34, 41]
    ∧ typeName cfg (.mk [108, 105, 115, 116] none (some (.mk [105, 51, 50] none none [] [])) [97] [])
        = [108, 105, 115, 116, 60, 105, 51, 50, 62, 32, 99, 112, 112, 95, 116, 121, 112, 101, 32, 34, 97, 34]
    ∧ typeName cfg (.mk [115, 101, 116] none (some (.mk [105, 51, 50] none none [] [])) [97] [])
        = [115, 101, 116, 32, 99, 112, 112, 95, 116, 121, 112, 101, 32, 34, 97, 34, 60, 105, 51, 50, 62] := by
  decide

/-- literal_roundtrip: the text `quoteLiteral` writes for `v` lexes as a `Literal` whatever follows it, and
    `pegText` returns `v` — for every `Representable v` (not ending in a backslash; for one of the two quote
    kinds, no quote preceded by an odd number of backslashes). -/
theorem literal_roundtrip (v rest : Bytes) (h : Representable v = true) :
    readLiteral (dumpLiteral cfg v ++ rest) = some (v, rest) := by
  rw [show cfg = stdCfg from generated_cfg_is_std]; exact readLiteral_quoteVal v rest h

/-- literal_roundtrip for everything the parser can read (FULL): whatever text the `Literal` rule captures
    between q…q (q = `"` or `'`), the value `pegText` makes of it is written back by `quoteLiteral` as a
    literal that reads as the same value. -/
theorem literal_roundtrip_parsed (q : Nat) (hq : q = 34 ∨ q = 39) (raw r0 : Bytes)
    (hlex : lexBody q (raw ++ q :: r0) = some (raw, r0)) (rest : Bytes) :
    readLiteral (dumpLiteral cfg (pegText q raw) ++ rest) = some (pegText q raw, rest) :=
  literal_roundtrip _ rest (pegText_representable q hq raw r0 hlex)

/-- regression: the four literals that used to be damaged (`a\"b`, `##34;`, `#OUTQUOTES`, `#OUTQUOTES#`) are
    Representable and are written `'a\"b'`, `"##34;"`, `"#OUTQUOTES"`, `"#OUTQUOTES#"`; a value ending in a
    backslash (which no literal can denote) is not Representable. -/
theorem literal_roundtrip_iff_safe_witnesses :
    (Representable [97, 92, 34, 98] = true ∧ dumpLiteral cfg [97, 92, 34, 98] = [39, 97, 92, 34, 98, 39])
    ∧ (Representable [35, 35, 51, 52, 59] = true ∧ dumpLiteral cfg [35, 35, 51, 52, 59] = [34, 35, 35, 51, 52, 59, 34])
    ∧ (Representable [35, 79, 85, 84, 81, 85, 79, 84, 69, 83] = true
        ∧ dumpLiteral cfg [35, 79, 85, 84, 81, 85, 79, 84, 69, 83] = [34, 35, 79, 85, 84, 81, 85, 79, 84, 69, 83, 34])
    ∧ Representable [35, 79, 85, 84, 81, 85, 79, 84, 69, 83, 35] = true
    ∧ Representable [97, 92] = false ∧ Representable [92, 34, 92, 39] = false := by
  decide

/-- annotation_roundtrip: the `k = v` pairs written by printAnnotation (one per value, keys repeated),
    regrouped by `Annotations.Append` in reading order, give back the list — for every list with
    pairwise distinct keys and non-empty value lists (what the parser builds). -/
theorem annotation_roundtrip (l : List Ann) (h : WFAnn l) : annRegroup (annFlatten l) = l :=
  regroup_flatten l h

example : WFAnn [⟨[97], [[49], [51]]⟩, ⟨[98], [[50]]⟩] := by
  refine ⟨by decide, ?_⟩
  intro a ha
  simp at ha
  rcases ha with rfl | rfl <;> simp

/-- numeric_roundtrip (integers): `%d` of any int64, followed by anything that cannot continue a number,
    is read by DoubleConstant / IntConstant + ParseInt(·, 0, 64) as the same integer. -/
theorem numeric_roundtrip_int (pf : Bytes → Nat) (i : Int) (hlo : -9223372036854775808 ≤ i) (hhi : i < 9223372036854775808)
    (rest : Bytes) (hs : Sep rest) : readNumber pf (fmtInt i ++ rest) = (.int i, rest) :=
  readNumber_fmtInt pf i hlo hhi rest hs

example : Sep [44, 32] ∧ Sep [] ∧ Sep [93] ∧ Sep [10] := by simp [Dump.Sep, isDigit]

/-
  numeric_roundtrip (doubles).  `ff`/`pf` stand for strconv.FormatFloat(·,'f',-1,64) / ParseFloat(·,64) on
  IEEE bit patterns.  The writer appends ".0" to FormatFloat's text when it has no '.' (`dblText`).  Assumed
  (shortest round trip): FormatFloat's text has the shape sign? digits ('.' digits)? with canonical integer
  part, and ParseFloat of the written text gives the value back.  Then the written text is always read by
  DoubleConstant as the double `b` again (never as an integer literal).
-/
theorem numeric_roundtrip_double (ff : Nat → Bytes) (pf : Bytes → Nat) (b : Nat) (sh : FShape (ff b))
    (hrt : pf (dblText (ff b)) = b) (rest : Bytes) (hs : SepD rest) :
    readNumber pf (dblText (ff b) ++ rest) = (.dbl b, rest) := by
  rw [readNumber_fshape_frac pf _ (fshapeDbl sh) (fshapeDbl_fp sh) rest hs, hrt]

/-- regression (was: the integral double 2^63, written `9223372036854776000`, was rejected on re-reading):
    the text now written, `9223372036854776000.0`, is read as a double; the bare digits still are an error -/
example : (readNumber (fun _ => 7) (dblText [57, 50, 50, 51, 51, 55, 50, 48, 51, 54, 56, 53, 52, 55, 55, 54, 48, 48, 48])).1 = Num.dbl 7
    ∧ (readNumber (fun _ => 7) [57, 50, 50, 51, 51, 55, 50, 48, 51, 54, 56, 53, 52, 55, 55, 54, 48, 48, 48]).1 = Num.err := by
  decide

/-- annotation_roundtrip on the text: the dumped annotation list — `(k = "v", …)`, one pair per value — is
    read by the `Annotations` rule + `parseAnnotations` as the same list (keys grouped again, order kept),
    for lists as the parser builds them (distinct keys, no empty value list, Representable values). -/
theorem annotation_text_roundtrip (l : List Ann) (hne : l ≠ []) (hwf : WFAnn l) (hok : AnnsOK l) (rest : Bytes) :
    readAnnotations (dumpAnnotations cfg l ++ rest) = some (l, skipIndent rest) := by
  rw [show cfg = stdCfg from generated_cfg_is_std, dumpAnnotations_final l hwf.2]
  exact readAnnotations_final l hne hwf hok.pairs rest

/-- constvalue_roundtrip: every constant value (all six kinds, nested) whose literals are Representable,
    whose integers fit int64, whose identifiers are identifiers and whose doubles satisfy the
    FormatFloat/ParseFloat assumptions (`GoodCV`) is read back from its dumped text as itself. -/
theorem constvalue_roundtrip (ff : Nat → Bytes) (pf : Bytes → Nat) (cv : CV) (hg : GoodCV ff pf cv)
    (rest : Bytes) (ht : Term rest) (f : Nat) (hf : cvSize cv ≤ f) :
    readCV pf f (dumpCV cfg ff cv ++ rest) = some (cv, skipIndent rest) := by
  rw [show cfg = stdCfg from generated_cfg_is_std, dumpCV_final ff cv]
  have := readCV_final ff pf cv hg rest ht f hf
  rwa [reread_id] at this

/-- the hypotheses are satisfiable: `{"a\"b": [1, -2], x.Y: '\"'}`-like value -/
example : GoodCV (fun _ => []) (fun _ => 0) (.map [(.lit [97, 34, 98], .list [.int 1, .int (-2)]), (.ident [120, 46, 89], .lit [92, 34])]) := by
  simp only [GoodCV, GoodPairs, GoodItems, and_true]
  refine ⟨by decide, ⟨⟨by omega, by omega⟩, by omega, by omega⟩, ⟨120, [46, 89], rfl, by decide, by decide⟩, by decide⟩

/-
  dump_parse (FULL statement, not proved: the reader of whole files is C03's model, not built here):
    ∀ f accepted, walk (peg (dump f)) = ok f' ∧ f' ≃ f on every definition, name, type expression, id,
    requiredness, default, enum value, annotation list, include, namespace, cpp_include.
  It is FALSE on the unchanged tree (see docs/C17.md: argument defaults/annotations dropped, type annotations
  escaped twice, cpp_type dropped, throws separator, 2^63 doubles, placeholder text, `\"`).
-/
/-- dump_parse (partial): the tail of a constant or field definition as the dumper writes it — the value
    followed by the annotation list — is read back as that value followed by that annotation list.
    Covered by theorem: constant values of all six kinds (nested), annotation lists, literals (all the parser can
    read), numbers and their concatenation.  Covered by correspondence + oracle only: includes, namespaces,
    cpp_include, typedef, const, enum, struct/union/exception and service/function layouts, type expressions, comments. -/
theorem dump_parse_partial (ff : Nat → Bytes) (pf : Bytes → Nat) (cv : CV) (l : List Ann)
    (hg : GoodCV ff pf cv) (hne : l ≠ []) (hwf : WFAnn l) (hok : AnnsOK l)
    (rest : Bytes) (f : Nat) (hf : cvSize cv ≤ f) :
    ∃ r1, readCV pf f ((printCV cfg ff cv ++ printAnnotation cfg l) ++ rest) = some (cv, r1)
      ∧ readAnnotations r1 = some (l, skipIndent rest) := by
  rw [show cfg = stdCfg from generated_cfg_is_std, printCV_final,
    show printAnnotation stdCfg l = finalAnn l from dumpAnnotations_final l hwf.2]
  refine ⟨finalAnn l ++ rest, ?_, readAnnotations_final l hne hwf hok.pairs rest⟩
  have ht : Term (finalAnn l ++ rest) := by
    unfold finalAnn
    cases l with
    | nil => exact absurd rfl hne
    | cons a r => simp [Term]
  rw [List.append_assoc, readCV_final ff pf cv hg _ ht f hf, skipIndent_finalAnn l hne, reread_id]

/-- dump_accepted (partial): the dumped text of a good value is accepted by the reader model.  Acceptance of
    whole files by the parser and by the semantic checker is judged by the oracle only. -/
theorem dump_accepted_partial (ff : Nat → Bytes) (pf : Bytes → Nat) (cv : CV) (hg : GoodCV ff pf cv)
    (rest : Bytes) (ht : Term rest) : (readCV pf (cvSize cv) (dumpCV cfg ff cv ++ rest)).isSome = true := by
  rw [constvalue_roundtrip ff pf cv hg rest ht _ (Nat.le_refl _)]; rfl

/-! ## the `-r` whole-tree dump (`recurseDump`) -/

/-- tree_dump_exactly_once: for an include structure in which a file has the same includes wherever it
    occurs (`Consistent`; include cycles are rejected before), `recurseDump` from the main file writes
    every reachable file, writes nothing else, and writes no file twice. -/
theorem tree_dump_exactly_once (root : DumpTree.Node) (hcons : DumpTree.Consistent root) :
    (∀ t ∈ DumpTree.occ root, t.id ∈ DumpTree.rd root [])
    ∧ (∀ a ∈ DumpTree.rd root [], ∃ t ∈ DumpTree.occ root, t.id = a)
    ∧ (DumpTree.rd root []).Nodup := by
  refine ⟨fun t ht => ?_, fun a ha => ?_, DumpTree.rd_nodup root [] List.nodup_nil⟩
  · exact DumpTree.complete_node root hcons root (fun t h => h) (DumpTree.rd_self root []) t ht
  · rcases DumpTree.rd_explained root [] a ha with h | ⟨l, hl, _⟩
    · simp at h
    · exact ⟨_, hl, rfl⟩

/-- main includes a, b; a includes common; b includes common, extra (ids 0,1,2,3,4): the code writes all five;
    a loop that stops at the first already-written include (seeded change C17-m6) never writes `extra`. -/
theorem tree_dump_break_witness :
    let common := DumpTree.Node.mk 3 []
    let root := DumpTree.Node.mk 0 [.mk 1 [common], .mk 2 [common, .mk 4 []]]
    DumpTree.rd root [] = [0, 1, 3, 2, 4] ∧ DumpTree.rdBreak root [] = [0, 1, 3, 2] := by
  decide

end Props.C17
