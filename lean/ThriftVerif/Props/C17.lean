/- C17 property theorems (being built) -/
import ThriftVerif.Lib.Dump
import ThriftVerif.Generated.C17
namespace Props.C17
theorem generated_cfg_is_std : Generated.C17.cfg = Dump.stdCfg := by decide
end Props.C17
