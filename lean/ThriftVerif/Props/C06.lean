import ThriftVerif.Gen.DefaultsLemmas
import ThriftVerif.Generated.C06
/-
  C06 — constants and default values in Go equal the values written in the IDL (DESIGN.md §5.6).

  Model: `Gen.Defaults` (resolver.go's resolveConst case by case, emitting a `GoExpr`; `evalGo` = what the
  compiled expression holds; `evalIDL` = the value the initializer denotes by the IDL's own rules;
  `goUnquote` / `interp` = Go's interpreted string literals as a character-level scanner).
  Property theorems only; proofs are in `Gen/DefaultsLemmas.lean`.
-/
namespace Props.C06
open Gen Gen.Defaults

/-! ### const_value -/

/-- **const_value.**  Whenever thriftgo accepts an initializer (`resolveConst … = ok e`) and the IDL's rules
give it a value, the Go expression it emits evaluates to that value -- for every type shape (typedef'd
containers included), nested list/set/map/struct literals also of structs defined in other files, enum members by
name or number, string literals with any escapes, and references to other constants also across includes (the
package-level environment `goEnvOf` is itself defined by `resolveConst` on the referenced constants).
`g` is the file the type is written in, `gv` the file the initializer is written in (`Resolver.values`).
Hypotheses: the program was accepted (`Accepted`); `good` excludes the one shape on which the statement is still
FALSE on the model and on the code: a struct-typed member of a struct literal given by the identifier of a struct
constant (`&C` with `C` already a pointer, see `const_value_fails_struct_member_by_ident`). -/
theorem const_value (E : Env) (hacc : Accepted E) (hgood : EnvGood E) (fuel root gv g : Nat) (t : ATy) (v : CV)
    (e : GoExpr) (val : GoVal)
    (h : resolveConst E root gv g t v = .ok e) (hg : good E g t v = true)
    (hI : evalIDL E (idlEnvOf E fuel) g gv t v = some val) :
    evalGo E (goEnvOf E fuel) e = some val :=
  rc_sound (envAgree E hacc hgood fuel) root gv v g t e val h hg hI

/-- const_value for the generated package-level declarations themselves: the Go constant/variable generated
for an IDL constant holds the value its initializer denotes. -/
theorem const_value_named (E : Env) (hacc : Accepted E) (hgood : EnvGood E) (fuel f : Nat) (n : Name) (val : GoVal)
    (hI : idlEnvOf E fuel f n = some val) : goEnvOf E fuel f n = some val :=
  (envAgree E hacc hgood fuel).val f n val hI

/-! The hypotheses are satisfiable, the conclusion is not vacuous: two files, a constant in the included
file, an enum, a struct with an optional member; the root file's constant is a struct literal that refers
to the other file's constant through a list. -/
section witness

private def nmC : Name := [67]        -- "C"
private def nmK : Name := [75]        -- "K"
private def nmE : Name := [69]        -- "E"
private def nmA : Name := [65]        -- "A"
private def nmS : Name := [83]        -- "S"
private def nmb : Name := [98]        -- "b"

/-- file 0 includes file 1; file 1: `const i32 K = 7`, `enum E {A = 4}`;
    file 0: `struct S {1: optional i32 x, 2: list<i32> l, 3: string s, 4: E e}`,
            `const S C = {"x": b.K, "l": [1, b.K], "s": "h\"i", "e": b.E.A}` -/
def demoEnv : Env :=
  { files := [
      { ns := 1, includes := [(1, true)],
        structs := [{ name := nmS, fields := [
          { name := [120], req := .optional, ty := .base .i32, dflt := none },
          { name := [108], req := .default, ty := .list (.base .i32), dflt := none },
          { name := [115], req := .default, ty := .base .str, dflt := none },
          { name := [101], req := .default, ty := .named .enum (some 0) nmE, dflt := none }] }],
        consts := [{ name := nmC, ty := .named .strct none nmS, val := .map [
          (.lit [120], .ident [98, 46, 75] (some { isEnum := false, index := some 0, name := nmK, sel := nmb })),
          (.lit [108], .list [.int 1, .ident [98, 46, 75] (some { isEnum := false, index := some 0, name := nmK, sel := nmb })]),
          (.lit [115], .lit [104, 34, 105]),
          (.lit [101], .ident [98, 46, 69, 46, 65] (some { isEnum := true, index := some 0, name := nmA, sel := nmE }))] }] },
      { ns := 2, includes := [],
        enums := [{ name := nmE, values := [(nmA, 4)] }],
        consts := [{ name := nmK, ty := .base .i32, val := .int 7 }] }] }

example : idlEnvOf demoEnv 3 0 nmC = some (.strct [.int 7, .list [.int 1, .int 7], .bytes [104, 34, 105], .int 4]) := rfl
example : goEnvOf demoEnv 3 0 nmC = some (.strct [.int 7, .list [.int 1, .int 7], .bytes [104, 34, 105], .int 4]) := rfl

end witness

/-! Regression items: the three shapes that failed before the fixes 4cb0c25 (`Resolver.values`), f3f901c
(`quoteLiteral`) and 029e141 (pointer trick for enums) now have the value the IDL gives them. -/

/-- `'a\"b'`: the emitted Go text is `"a\"b"` and Go reads `a"b`, the IDL literal's meaning. -/
theorem regression_escaped_quote :
    resolveConst { files := [{ ns := 1, includes := [] }] } 0 0 0 (.base .str) (.lit [97, 92, 34, 98]) = .ok (.strLit [34, 97, 92, 34, 98, 34]) ∧
    evalIDL { files := [{ ns := 1, includes := [] }] } (fun _ _ => none) 0 0 (.base .str) (.lit [97, 92, 34, 98]) = some (.bytes [97, 34, 98]) ∧
    evalGo { files := [{ ns := 1, includes := [] }] } (fun _ _ => none) (.strLit [34, 97, 92, 34, 98, 34]) = some (.bytes [97, 34, 98]) := ⟨rfl, rfl, rfl⟩

/-- a.thrift: `include "b.thrift"`, `const b.S C = {"f": b.K}`; b.thrift: `include "c.thrift"`, `const i32 K = 7`,
`struct S {1: i32 f}`; c.thrift: `const i32 K = 111`.  The member `b.K` is looked up in the file of the literal:
Go holds 7 (it held 111 when members were resolved in the scope of b.thrift). -/
def scopeEnv : Env :=
  { files := [
      { ns := 1, includes := [(1, true)],
        consts := [{ name := [67], ty := .named .strct (some 0) [83], val := .map [
          (.lit [102], .ident [98, 46, 75] (some { isEnum := false, index := some 0, name := [75], sel := [98] }))] }] },
      { ns := 2, includes := [(2, true)],
        structs := [{ name := [83], fields := [{ name := [102], req := .default, ty := .base .i32, dflt := none }] }],
        consts := [{ name := [75], ty := .base .i32, val := .int 7 }] },
      { ns := 3, includes := [],
        consts := [{ name := [75], ty := .base .i32, val := .int 111 }] }] }

theorem regression_foreign_struct_literal :
    idlEnvOf scopeEnv 3 0 [67] = some (.strct [.int 7]) ∧ goEnvOf scopeEnv 3 0 [67] = some (.strct [.int 7]) := ⟨rfl, rfl⟩

/-- `enum E {A}` `struct S {1: optional E e}` `const S C = {"e": E.A}`: `&S{E: &(&struct{x E}{E_A}).x}` holds S{e: 0}. -/
def addrEnv : Env :=
  { files := [
      { ns := 1, includes := [],
        enums := [{ name := [69], values := [([65], 0)] }],
        structs := [{ name := [83], fields := [{ name := [101], req := .optional, ty := .named .enum none [69], dflt := none }] }],
        consts := [{ name := [67], ty := .named .strct none [83], val := .map [
          (.lit [101], .ident [69, 46, 65] (some { isEnum := true, index := none, name := [65], sel := [69] }))] }] }] }

theorem regression_optional_enum_member :
    idlEnvOf addrEnv 2 0 [67] = some (.strct [.int 0]) ∧ goEnvOf addrEnv 2 0 [67] = some (.strct [.int 0]) := ⟨rfl, rfl⟩

/-- The shape `good` still excludes is a genuine failure: `struct I {1: i32 a}` `struct O {1: I i}`
`const I CI = {"a": 1}` `const O CO = {"i": CI}` emits `&O{I: &CI}` -- a `**I` that does not compile -- while the IDL
value is O{i: I{a: 1}}. -/
def ptrEnv : Env :=
  { files := [
      { ns := 1, includes := [],
        structs := [{ name := [73], fields := [{ name := [97], req := .default, ty := .base .i32, dflt := none }] },
                    { name := [79], fields := [{ name := [105], req := .default, ty := .named .strct none [73], dflt := none }] }],
        consts := [{ name := [67, 73], ty := .named .strct none [73], val := .map [(.lit [97], .int 1)] },
                   { name := [67, 79], ty := .named .strct none [79], val := .map [
                      (.lit [105], .ident [67, 73] (some { isEnum := false, index := none, name := [67, 73], sel := [] }))] }] }] }

theorem const_value_fails_struct_member_by_ident :
    idlEnvOf ptrEnv 3 0 [67, 79] = some (.strct [.strct [.int 1]]) ∧ goEnvOf ptrEnv 3 0 [67, 79] = none := ⟨rfl, rfl⟩

/-! ### const_reject_iff -/

/-- **const_reject_iff.**  thriftgo accepts an initializer exactly when `accepts` holds: for scalars the kinds
of C04's catalogue (`accScalar`), for struct-likes an identifier that resolves or a map literal whose keys are
literals naming fields and whose values are accepted at the fields' types (in the scope of the struct's file),
for containers elements accepted at the element type -- and, as the code has it, ANY initializer of another
kind for a container (it becomes `T{}`). -/
theorem const_reject_iff (E : Env) (root gv g : Nat) (t : ATy) (v : CV) :
    (∃ e, resolveConst E root gv g t v = .ok e) ↔ accepts E root gv g t v = true := by
  rw [← rc_isOk E root gv v g t]
  cases resolveConst E root gv g t v <;> simp [resOk]

/-- the syntactic kinds each category takes (necessary for acceptance; identifiers must also resolve) -/
def kindAllowed : Cat → CV → Bool
  | .bool, .int _ | .bool, .dbl _ _ | .bool, .ident _ _ => true
  | .i8, .int _ | .i8, .ident _ _ | .i16, .int _ | .i16, .ident _ _ => true
  | .i32, .int _ | .i32, .ident _ _ | .i64, .int _ | .i64, .ident _ _ => true
  | .dbl, .int _ | .dbl, .dbl _ _ | .dbl, .ident _ _ => true
  | .str, .lit _ | .str, .ident _ _ | .bin, .lit _ | .bin, .ident _ _ => true
  | .enum, .int _ | .enum, .ident _ _ => true
  | .strct, .ident _ _ | .strct, .map _ => true
  | .list, _ | .set, _ | .map, _ => true
  | _, _ => false

/-- a kind mismatch on a scalar or struct-like type is never accepted -/
theorem kind_mismatch_rejected (E : Env) (root gv g : Nat) (t : ATy) (v : CV) (h : kindAllowed t.cat v = false) :
    ∀ e, resolveConst E root gv g t v ≠ .ok e := by
  intro e he
  have hacc := (const_reject_iff E root gv g t v).mp ⟨e, he⟩
  rw [accepts.eq_def] at hacc
  cases hc : t.cat <;> cases v <;> simp_all [kindAllowed, accScalar, accBool, accInt, accDouble, accStr, accEnum]

/-- the tolerance: a number or a literal given for a container is accepted and becomes the empty container -/
theorem container_tolerance (E : Env) (root gv g : Nat) (t : ATy) (v : CV) (ty : GoTy) (p : Nat × ATy)
    (hc : t.cat = .list ∨ t.cat = .set ∨ t.cat = .map) (htn : typeName E root g t = .ok ty)
    (hd : derefC E g t = .ok p)
    (hv : (match v with | .int _ | .dbl _ _ | .lit _ => true | _ => false) = true) :
    resolveConst E root gv g t v = .ok (if t.cat = .map then .mapLit ty [] else .sliceLit ty []) := by
  rw [resolveConst.eq_def]
  rcases hc with hc | hc | hc <;> cases v <;> simp_all

/-! ### string_literal_emission -/

/-- **string_literal_emission.**  For a string-typed initializer that is a literal, the emitted Go text is
`"` ++ `quoteBody s` ++ `"`, where `quoteBody` is `quoteLiteral`'s loop: a backslash is copied together with
the character after it (only `\'` loses its backslash), a bare `"` becomes `\"`, a raw line feed / carriage
return becomes `\n` / `\r`, everything else is copied. -/
theorem string_literal_emission (E : Env) (root gv g : Nat) (t : ATy) (s : Bytes) (hc : t.cat = .str) :
    resolveConst E root gv g t (.lit s) = .ok (.strLit ([34] ++ quoteBody s ++ [34])) := by
  rw [resolveConst.eq_def]
  simp [hc, onStrBin, strBinCore, emitStr]

/-- what `quoteBody` does, clause by clause -/
theorem quoteBody_clauses (c d : Nat) (r : Bytes) :
    quoteBody [] = [] ∧
    quoteBody (92 :: 39 :: r) = 39 :: quoteBody r ∧
    (d ≠ 39 → quoteBody (92 :: d :: r) = 92 :: d :: quoteBody r) ∧
    quoteBody [92] = [92] ∧
    quoteBody (34 :: r) = 92 :: 34 :: quoteBody r ∧
    quoteBody (10 :: r) = 92 :: 110 :: quoteBody r ∧
    quoteBody (13 :: r) = 92 :: 114 :: quoteBody r ∧
    (c ≠ 92 → c ≠ 34 → c ≠ 10 → c ≠ 13 → quoteBody (c :: r) = c :: quoteBody r) := by
  refine ⟨rfl, by simp [quoteBody], ?_, by simp [quoteBody], ?_, ?_, ?_, ?_⟩
  · intro h; simp [quoteBody, h]
  · cases r <;> simp [quoteBody]
  · cases r <;> simp [quoteBody]
  · cases r <;> simp [quoteBody]
  · intro h1 h2 h3 h4; cases r <;> simp [quoteBody, h1, h2, h3, h4]

/-- **string_literal_value.**  For EVERY literal, Go reads the emitted text as the literal's meaning (`interp`:
Go's escape sequences, `\'` a single quote, a double quote and a line break standing for themselves); in
particular an invalid escape sequence is invalid on both sides. Proved by simulation of the scanner on the
emitted text. -/
theorem string_literal_value (s : Bytes) : goUnquote (emitStr s) = interp s :=
  goUnquote_emit s

/-- Consequence: a literal without backslash is its own value in Go (quotes and line breaks included). -/
theorem string_literal_plain (s : Bytes) (h : ∀ c ∈ s, c ≠ 92) : goUnquote (emitStr s) = some s := by
  rw [goUnquote_emit]
  unfold interp
  induction s with
  | nil => simp [interpFrom]
  | cons c r ih =>
    have hc := h c List.mem_cons_self
    have := ih (fun x hx => h x (List.mem_cons_of_mem _ hx))
    simp [interpFrom, idlStep, lexStep, hc, this]

/-- Regression items (defects before f3f901c): `'a\"b'` and a raw newline are read by Go as the IDL means them. -/
theorem string_literal_regressions :
    (goUnquote (emitStr [97, 92, 34, 98]) = some [97, 34, 98] ∧ interp [97, 92, 34, 98] = some [97, 34, 98]) ∧
    (goUnquote (emitStr [97, 10, 98]) = some [97, 10, 98] ∧ interp [97, 10, 98] = some [97, 10, 98]) ∧
    (goUnquote (emitStr [105, 116, 92, 39, 115]) = some [105, 116, 39, 115]) := by decide

/-! ### NewX / InitDefault / getters / IsSet -/

/-- **newX_defaults** (1): the field of `NewX()` at a position whose IDL field declares a default holds the
value that default denotes; (2) every other field holds the Go zero value / nil. -/
theorem newX_defaults (E : Env) (hacc : Accepted E) (hgood : EnvGood E) (fuel file : Nat) (st : AStruct) (sd : StructDef)
    (i : Nat) (af : AField) (fd : FieldDef) (haf : st.fields[i]? = some af) (hfd : sd.fields[i]? = some fd) :
    (∀ d e val, af.dflt = some d → resolveConst E file file file af.ty d = .ok e → good E file af.ty d = true →
        evalIDL E (idlEnvOf E fuel) file file af.ty d = some val →
        (match newX (structDefOf E fuel file st sd) with | .strct vs => vs[i]? | _ => none) = some val) ∧
    (af.dflt = none →
        (match newX (structDefOf E fuel file st sd) with | .strct vs => vs[i]? | _ => none) = some (zeroOf fd.req fd.ty)) := by
  have hz : ((sd.fields.zip st.fields)[i]?) = some (fd, af) := by
    rw [List.getElem?_zip_eq_some]; exact ⟨hfd, haf⟩
  constructor
  · intro d e val hd he hg hI
    have hv := const_value E hacc hgood fuel file file file af.ty d e val he hg hI
    simp only [newX, structDefOf, List.map_map, List.getElem?_map, hz, Option.map_some, Function.comp]
    simp [fieldDefault, hd, he, hv]
  · intro hd
    simp only [newX, structDefOf, List.map_map, List.getElem?_map, hz, Option.map_some, Function.comp]
    simp [fieldDefault, hd]

/-- **newX_defaults** (3): `InitDefault()` on the zero struct gives exactly `NewX()`. -/
theorem initDefault_zero_eq_newX (sd : StructDef) : initDefault sd (zeroStruct sd) = newX sd :=
  Gen.Defaults.initDefault_zero sd

/-- **getter_default.**  The getter of a field that supports IsSet and is not set returns the `_DEFAULT`
variable: the declared default, or the zero value when none is declared; in particular an unset optional
field (nil pointer) and an optional field still equal to its default. -/
theorem getter_default (f : FieldDef) (v : GoVal) (hs : supportIsSet f = true) (hu : Std.isSet f v = false) :
    getter f v = (match f.dflt with | some d => d | none => defaultVar f) := by
  rw [getter_unset f v hs hu]
  cases hd : f.dflt <;> simp [defaultVar, hd]

theorem getter_set (f : FieldDef) (v : GoVal) (hu : Std.isSet f v = true) : getter f v = v := by
  simp [getter, hu]

/-- **isset_optional_default.**  An optional base-typed field with a declared default reports itself set
exactly when it holds a value different (Go `!=`) from the default -- so a value equal to the default is not
written (the wire consequence C02 relies on). -/
theorem isset_optional_default (f : FieldDef) (d v : GoVal) (hd : f.dflt = some d) (hb : f.ty.isBase = true) :
    Std.isSet f v = Std.neDefault f.ty v d := by
  simp [Std.isSet, hd, hb]

theorem isset_pointer (f : FieldDef) (v : GoVal) (h : f.dflt = none ∨ f.ty.isBase = false) :
    Std.isSet f v = !goEq v .nil := by
  rcases h with h | h
  · simp [Std.isSet, h]
  · cases hd : f.dflt <;> simp [Std.isSet, hd, h]

/-! ### the small predicates copied from generator/golang/thrift.go, against the regenerated tables -/

def catOfCode : Nat → Option Cat
  | 1 => some .bool | 2 => some .i8 | 3 => some .i16 | 4 => some .i32 | 5 => some .i64 | 6 => some .dbl
  | 7 => some .str | 8 => some .bin | 9 => some .map | 10 => some .list | 11 => some .set | 12 => some .enum
  | 13 => some .strct | 14 => some .strct | 15 => some .strct
  | _ => none

def reqOfCode : Nat → Option Req
  | 0 => some .default | 1 => some .required | 2 => some .optional
  | _ => none

def tyOfCat (c : Cat) : ATy := if c.isBase then .base c else .named c none []

/-- resolved `Gen.Ty` of a category, for `supportIsSet` -/
def gtyOfCat : Cat → Ty
  | .bool => .bool | .i8 => .i8 | .i16 => .i16 | .i32 => .i32 | .i64 => .i64 | .dbl => .dbl | .str => .str
  | .bin => .bin | .enum => .enum | .list => .list .bool | .set => .set .bool | .map => .map .bool .bool | .strct => .struct 0

/-- `isConstantInGo`, `needRedirect`, `supportIsSet` agree with golang.IsConstantInGo / NeedRedirect /
SupportIsSet of the repository on every (category, requiredness, has-default) combination. -/
theorem predicate_tables_sound :
    (Generated.C06.isConstTable.all fun (c, b) =>
      match catOfCode c with | some cat => isConstantInGo (tyOfCat cat) == b | none => false) = true ∧
    (Generated.C06.needRedirectTable.all fun (c, r, d, b) =>
      match catOfCode c, reqOfCode r with
      | some cat, some req => needRedirect { name := [], req := req, ty := tyOfCat cat, dflt := if d then some (.int 0) else none } == b
      | _, _ => false) = true ∧
    (Generated.C06.supportIsSetTable.all fun (c, r, b) =>
      match catOfCode c, reqOfCode r with
      | some cat, some req => supportIsSet { id := 1, req := req, ty := gtyOfCat cat, dflt := none } == b
      | _, _ => false) = true := by decide

end Props.C06
