/- C06 property theorems (stub: not built yet) -/
