/- C16 property theorems (stub: not built yet) -/
