import ThriftVerif.Lib.TrimLemmas
/-!
  C16 — trimming keeps exactly what kept services need; meaning is unchanged.
  Model: `Trim` (Lib/Trim.lean) = tool/trimmer/trim {mark.go, pre-process.go, traversal.go, trimmer.go}.
  `M p cfg` below is `Trimmer.marks` after `markAST`; `crash = false` says that no fuel of the
  include-tree / extends-chain recursions ran out (true whenever includes and `extends` are acyclic).
-/
namespace Props.C16
open Trim

/-- The DFS fuel `fuelN p` (= number of nodes + 1) never truncates a visit: the final mark set is
closed — every marked struct-like has the targets of all its field types marked, every marked
typedef the targets of its target type.  No hypothesis. -/
theorem fuel_suffices (p : Program) (cfg : Cfg) : Closed p (markAST p cfg).marks :=
  (markAST_inv p cfg).m.closed

/-- More fuel than `fuelN p` changes nothing: the fuel is a proof device, not a restriction of the DFS. -/
theorem fuel_independent (p : Program) (M : Marks) (n : Node) (hn : n ∈ allNodes p) (d : Nat) :
    visit p (fuelN p + d) M n = visit p (fuelN p) M n :=
  visit_fuel_ge p M n hn d

/-- mark_sound (nothing needed is removed): every node of the least set `Reach` — what kept functions,
constants, typedefs and preserved struct-likes name, closed under field types, container elements,
typedef targets and includes — is marked. -/
theorem mark_sound (p : Program) (cfg : Cfg) (hc : (markAST p cfg).crash = false) (hu : UniqueSvcFn p) :
    ∀ n, Reach p cfg (markAST p cfg).marks n → n ∈ (markAST p cfg).marks :=
  fun _ h => reach_marked p cfg hc hu h

/-- mark_exact (everything else is removed): a marked struct-like, enum or typedef is in `Reach`;
preserved struct-likes are roots of `Reach`.  No hypothesis. -/
theorem mark_exact (p : Program) (cfg : Cfg) :
    ∀ n ∈ (markAST p cfg).marks, n.isDecl = true → Reach p cfg (markAST p cfg).marks n :=
  (markAST_inv p cfg).m.just

/-- always_kept, sweep_marked: `traversal` never touches enums, typedefs and constants of a file, and
keeps every marked include and every marked struct-like. -/
theorem always_kept (p : Program) (cfg : Cfg) (ms : List Bytes) (st : St) (f : Nat) :
    (∀ i inc, (p.file f).includes[i]? = some inc → Node.inc f i ∈ st.marks →
      inc ∈ (sweepFile p cfg ms st f (p.file f)).includes) ∧
    (∀ k s, s ∈ (p.file f).sl k → Node.sl f k s.name ∈ st.marks → s ∈ (sweepFile p cfg ms st f (p.file f)).sl k) ∧
    (sweepFile p cfg ms st f (p.file f)).enums = (p.file f).enums ∧
    (sweepFile p cfg ms st f (p.file f)).typedefs = (p.file f).typedefs ∧
    (sweepFile p cfg ms st f (p.file f)).consts = (p.file f).consts :=
  marked_survives p cfg ms st f

/-- wire_unchanged at model level: a struct-like that survives is literally one of the original
struct-likes (same fields, ids, types); a surviving service keeps its name and only original functions. -/
theorem kept_bodies_unchanged (p : Program) (cfg : Cfg) (ms : List Bytes) (st : St) (f : Nat) :
    (∀ k s, s ∈ (sweepFile p cfg ms st f (p.file f)).sl k → s ∈ (p.file f).sl k) ∧
    (∀ svc' ∈ (sweepFile p cfg ms st f (p.file f)).services, ∃ svc ∈ (p.file f).services,
      svc'.name = svc.name ∧ ∀ fn ∈ svc'.fns, fn ∈ svc.fns) :=
  sweep_bodies p cfg ms st f

/-- trim_resolves, type part: whatever survives in an included file — constants, typedefs, fields of
kept struct-likes, arguments/results/exceptions of kept functions — names only marked nodes, which
by `always_kept` survive: no kept node refers to a deleted definition or a deleted include. -/
theorem kept_refs_kept (p : Program) (cfg : Cfg) (hc : (markAST p cfg).crash = false) (hu : UniqueSvcFn p) (hl : UniqueSL p)
    (f : Nat) (hr : InclReach p f) :
    (∀ c ∈ (sweepFile p cfg (effMethods p cfg) (markAST p cfg) f (p.file f)).consts, ∀ x ∈ tyTargets p f c.ty, x ∈ (markAST p cfg).marks) ∧
    (∀ t ∈ (sweepFile p cfg (effMethods p cfg) (markAST p cfg) f (p.file f)).typedefs, ∀ x ∈ tyTargets p f t.ty, x ∈ (markAST p cfg).marks) ∧
    (∀ k, ∀ s ∈ (sweepFile p cfg (effMethods p cfg) (markAST p cfg) f (p.file f)).sl k, ∀ fd ∈ s.fields,
      ∀ x ∈ tyTargets p f fd.ty, x ∈ (markAST p cfg).marks) ∧
    (∀ svc ∈ (sweepFile p cfg (effMethods p cfg) (markAST p cfg) f (p.file f)).services, ∀ fn ∈ svc.fns, ∀ ty ∈ fn.types,
      ∀ x ∈ tyTargets p f ty, x ∈ (markAST p cfg).marks) :=
  kept_refs p cfg hc hu hl f hr

/-- trim_resolves, "same definition as before": in the trimmed program (deleted nodes gone, include
indices recomputed) every type of every surviving node of an included file names exactly the nodes it
named before, include marks renumbered by `renNode` — `ResolveType` would bind it to the same
definitions.  (`(trimProg p cfg).file f` consists of `renFile` applied to `sweepFile …`, i.e. of these
types after `renTy`.) -/
theorem bindings_preserved (p : Program) (cfg : Cfg) (hc : (markAST p cfg).crash = false) (hu : UniqueSvcFn p) (hl : UniqueSL p)
    (f : Nat) (hr : InclReach p f) :
    (∀ c ∈ (sweepFile p cfg (effMethods p cfg) (markAST p cfg) f (p.file f)).consts,
      tyTargets (trimProg p cfg) f (renTy (keepFlags p (markAST p cfg).marks f) c.ty) =
        (tyTargets p f c.ty).map (renNode p (markAST p cfg).marks)) ∧
    (∀ t ∈ (sweepFile p cfg (effMethods p cfg) (markAST p cfg) f (p.file f)).typedefs,
      tyTargets (trimProg p cfg) f (renTy (keepFlags p (markAST p cfg).marks f) t.ty) =
        (tyTargets p f t.ty).map (renNode p (markAST p cfg).marks)) ∧
    (∀ k, ∀ s ∈ (sweepFile p cfg (effMethods p cfg) (markAST p cfg) f (p.file f)).sl k, ∀ fd ∈ s.fields,
      tyTargets (trimProg p cfg) f (renTy (keepFlags p (markAST p cfg).marks f) fd.ty) =
        (tyTargets p f fd.ty).map (renNode p (markAST p cfg).marks)) ∧
    (∀ svc ∈ (sweepFile p cfg (effMethods p cfg) (markAST p cfg) f (p.file f)).services, ∀ fn ∈ svc.fns, ∀ ty ∈ fn.types,
      tyTargets (trimProg p cfg) f (renTy (keepFlags p (markAST p cfg).marks f) ty) =
        (tyTargets p f ty).map (renNode p (markAST p cfg).marks)) :=
  bindings p cfg hc hu hl f hr

/-- services_nofilter: without -m every root service is marked, and every marked service is complete:
all its functions are marked and, when it extends a service of another file, that include and that
base service are marked; when it extends a service of its own file, that one is marked (so the whole
extends chain survives). -/
theorem services_nofilter (p : Program) (cfg : Cfg) (hm : cfg.methods = []) (hu : UniqueSvcFn p)
    (hc : (markAST p cfg).crash = false) :
    (∀ svc ∈ (p.file 0).services, Node.svc 0 svc.name ∈ (markAST p cfg).marks) ∧
    (∀ f svc, svc ∈ (p.file f).services → Node.svc f svc.name ∈ (markAST p cfg).marks → SvcOK p (markAST p cfg).marks f svc) := by
  obtain ⟨h1, h2⟩ := nofilter_final p cfg hm hu hc
  refine ⟨h2, fun f svc hs hmk => ?_⟩
  rcases h1 f svc hs hmk with h | h
  · simp at h
  · exact h

/-- always_kept, reachability part: a file that declares a constant or a typedef is still reachable
from the root through the includes `traversal` keeps (so, with `always_kept`, every constant and
typedef of the program survives). -/
theorem consts_typedefs_reachable (p : Program) (cfg : Cfg) (hc : (markAST p cfg).crash = false) (f : Nat)
    (hr : InclReach p f) (hct : hasCT p f = true) : KeptReach p (markAST p cfg).marks f :=
  ct_kept_reach p cfg hc hr hct

/-- method_filter, "only matching methods remain": with -m every marked function `n` (only marked
functions survive `traversal`) is matched by a pattern under the name of some service `fa`:
`rx pat (fa ++ "." ++ n)`.  The other direction ("a matching method of a root service remains") is
checked by the oracle only. -/
theorem method_filter (p : Program) (cfg : Cfg) (hne : cfg.methods ≠ []) :
    ∀ f s n, Node.fn f s n ∈ (markAST p cfg).marks →
      ∃ fa, hitLoose cfg (effMethods p cfg) (dot fa n) = true :=
  method_filter_sound p cfg hne

/-- trim_resolves, service part, without -m: a kept service that extends a service of another file
keeps that include and that base service; a kept service (of any file) that extends a service of its
own file keeps it (the latter since the repair 9f1b8cf of `markService`).  With -m the `extends` of a
kept service is either cut by `cleanServiceExtends` or its base is kept; that case is covered by the
correspondence and the oracle only. -/
theorem trim_resolves_partial (p : Program) (cfg : Cfg) (hm : cfg.methods = []) (hu : UniqueSvcFn p)
    (hc : (markAST p cfg).crash = false) :
    (∀ f svc, svc ∈ (p.file f).services → Node.svc f svc.name ∈ (markAST p cfg).marks → svc.ext ≠ [] →
      ∀ rn i g b, svc.ref = some (rn, i) → p.incTarget f i = some g → findSvc p g rn = some b →
        Node.inc f i ∈ (markAST p cfg).marks ∧ Node.svc g b.name ∈ (markAST p cfg).marks) ∧
    (∀ f svc, svc ∈ (p.file f).services → Node.svc f svc.name ∈ (markAST p cfg).marks → svc.ext ≠ [] →
      svc.ref = none → ∀ b, findSvc p f svc.ext = some b → Node.svc f b.name ∈ (markAST p cfg).marks) := by
  obtain ⟨_, h2⟩ := services_nofilter p cfg hm hu hc
  refine ⟨fun f svc hs hmk he rn i g b hr hg hb => ?_, fun f svc hs hmk he hr b hb => (h2 f svc hs hmk).2.2 he hr b hb⟩
  have := (h2 f svc hs hmk).2.1 he rn i g hr hg
  exact ⟨this.1, this.2 b hb⟩

/-- Regression item (defect 1, repaired in /repo by 9f1b8cf; formerly the counterexample
`base_service_dropped`): `f0: include "f1.thrift"; service V0 extends f1.V2 {}` and
`f1: service V1 {}; service V2 extends V1 {}`, no -m.  File 1 keeps both services, `V1` resolves,
and trimming again changes nothing. -/
theorem base_service_kept_regression :
    (markAST progA cfg0).crash = false ∧
    ((trimProg progA cfg0).file 1).services = [⟨[86, 49], [], none, []⟩, ⟨[86, 50], [86, 49], none, []⟩] ∧
    findSvc (trimProg progA cfg0) 1 [86, 49] ≠ none ∧
    trimProg (trimProg progA cfg0) cfg0 = trimProg progA cfg0 :=
  progA_facts

/-- Counterexamples to trim_idempotent with -m for the code before the proposed repairs
(`Fix` all false; oracle class `not-idempotent`).
(2) `service V0 {}  service V1 extends V0 { void putAll() }`, `-m V1.put`: the first trim keeps `putAll`
(traceExtendMethod matches without the prefix rule) and cuts `extends`; the second removes the service.
(3) `service V0 extends f1.V2 {}  service V1 extends V0 {}`, `f1: service V2 { void m0() }`, `-m ^V1\.m0$`:
`V0` loses its `extends` although `V1` inherits `m0` through it; a second trim differs.
(4) `service V0 extends f1.V1 { void m0() }`, `-m V0.m0`: the include of the cut base survives the first
trim only. -/
theorem not_idempotent_with_methods :
    ((trimProg progB (cfgB fixOff)).file 0).services = [⟨[86, 49], [], none, [⟨[112, 117, 116, 65, 108, 108], [], [], none⟩]⟩] ∧
    ((trimProg (trimProg progB (cfgB fixOff)) (cfgB fixOff)).file 0).services = [] ∧
    ((trimProg progC (cfgC fixOff)).file 0).services = [⟨[86, 48], [], none, []⟩, ⟨[86, 49], [86, 48], none, []⟩] ∧
    trimProg (trimProg progC (cfgC fixOff)) (cfgC fixOff) ≠ trimProg progC (cfgC fixOff) ∧
    ((trimProg progD (cfgD fixOff)).file 0).includes.length = 1 ∧
    ((trimProg (trimProg progD (cfgD fixOff)) (cfgD fixOff)).file 0).includes.length = 0 :=
  ⟨progB_facts.2.1, progB_facts.2.2, progC_facts_off.1, progC_facts_off.2, progD_facts_off.1, progD_facts_off.2⟩

/-- Regression items for the three proposed repairs (`Fix` all true): on the witnesses above a second
trim is the identity; `V1.putAll` is not kept by `-m V1.put`, `V0` keeps `extends f1.V2`, the include of
the cut base is removed at once. -/
theorem repaired_witnesses :
    trimProg (trimProg progB (cfgB fixOn)) (cfgB fixOn) = trimProg progB (cfgB fixOn) ∧
    ((trimProg progB (cfgB fixOn)).file 0).services = [] ∧
    trimProg (trimProg progC (cfgC fixOn)) (cfgC fixOn) = trimProg progC (cfgC fixOn) ∧
    ((trimProg progC (cfgC fixOn)).file 0).services =
      [⟨[86, 48], [102, 49, 46, 86, 50], some ([86, 50], 0), []⟩, ⟨[86, 49], [86, 48], none, []⟩] ∧
    trimProg (trimProg progD (cfgD fixOn)) (cfgD fixOn) = trimProg progD (cfgD fixOn) ∧
    ((trimProg progD (cfgD fixOn)).file 0).includes = [] :=
  repaired_facts

/-- The hypotheses of the theorems above are satisfiable (a root with one service and one struct). -/
example : UniqueSvcFn ⟨[⟨[102], [], [], [], [], [⟨[83], [], false⟩], [], [], [⟨[86], [], none, []⟩]⟩]⟩ := by
  intro f
  match f with
  | 0 => simp [Program.file]
  | n+1 => simp [Program.file, emptyFile]

end Props.C16
