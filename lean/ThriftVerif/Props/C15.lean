/- C15 property theorems (stub: not built yet) -/
