import ThriftVerif.Lib.ReflectLemmas
import ThriftVerif.Gen.SchemaCheck
import ThriftVerif.Generated.C15Schema
/-
  C15 — reflection descriptors describe the IDL exactly.
  Property theorems over `Lib/Reflect` (model of /repo/thrift_reflection) and the shared codec `Gen.Std`
  at the schema regenerated from descriptor.thrift (`Generated.C15Schema.prog`).
-/
namespace Props.C15
open Reflect Gen Gen.Std

/-! ### tie: the regenerated schema and tables are the ones the model assumes -/

/-- the schema parsed from descriptor.thrift (and cross-checked by the translator against the StructMeta
bytes registered in descriptor.go and the Go struct tags) is the schema `gFile`/`gStruct`/… lay objects out for -/
theorem schema_agrees : Generated.C15Schema.prog = Reflect.descProg := rfl

/-- the regenerated schema satisfies the hypotheses of the shared round-trip theorem -/
theorem schema_ok : SchemaOK Generated.C15Schema.prog := schemaOkB_sound _ (by decide)

/-- ConstValueType numbering: descriptor.thrift = descriptor.go = the model's tags -/
theorem const_value_type_numbering :
    Generated.C15Schema.constValueType = cvtTable ∧ Generated.C15Schema.constValueTypeGo = cvtTable ∧
    cvtTable.map Prod.snd = [cvtDOUBLE, cvtINT, cvtSTRING, cvtBOOL, cvtLIST, cvtMAP, cvtIDENTIFIER] := by decide

theorem requiredness_strings :
    Generated.C15Schema.reqStrings = [Req.dflt.str, Req.required.str, Req.optional.str] := by decide

theorem uuid_key_agrees : Generated.C15Schema.uuidKey = uuidKey := by decide

/-! ### describe_faithful -/

/- Full statement (FALSE on the model and on the code, see the witness below):
     ∀ f : File, factsOf (describe f) = forget f -/

/-- **describe_faithful (partial)**: for every file whose include base names and annotation keys are pairwise
distinct (namespace languages may repeat: the first statement counts, as for the backends), the descriptor states exactly the facts the IDL states — names, field
ids, requiredness, type expressions with key/value types, defaults and constant values, enum numbers,
annotations with all values, comments, base service, oneway, includes, namespaces. Unbounded in the number
and nesting of definitions. -/
theorem describe_faithful_partial (f : File) (h : f.Canonical) : factsOf (describe f) = forget f :=
  facts_file f h

def exField : Field where
  name := [102]
  id := 1
  req := Reflect.Req.optional
  ty := TyE.mk [105, 51, 50] TyO.none TyO.none
  dflt := some (CV.int 3)
  annos := [⟨[97], [[49], [50]]⟩, ⟨[98], [[]]⟩]
  comments := []

def exFile : File where
  filename := [109]
  includes := [[97, 46, 116, 104, 114, 105, 102, 116], [100, 47, 98, 46, 116, 104, 114, 105, 102, 116]]
  namespaces := [⟨[103, 111], [120]⟩, ⟨[112, 121], [121]⟩]
  typedefs := []
  consts := []
  enums := []
  structs := [{ name := [83], fields := [exField], annos := [], comments := [] }]
  unions := []
  exceptions := []
  services := []

/-- the hypotheses are satisfiable -/
example : exFile.Canonical := by
  constructor <;> simp [exFile, exField, StructLike.ok, Field.ok, AnnosOK, baseName, trimSuffix, lastSeg, dotThrift]

/-- two includes with equal base name in different directories (`d1/base.thrift`, `d2/base.thrift`) -/
def wInclude : File :=
  { filename := [109], includes := [[100, 49, 47, 98, 97, 115, 101, 46, 116, 104, 114, 105, 102, 116],
                                    [100, 50, 47, 98, 97, 115, 101, 46, 116, 104, 114, 105, 102, 116]],
    namespaces := [], typedefs := [], consts := [], enums := [], structs := [], unions := [], exceptions := [], services := [] }

/-- **negative witness 1**: the `Includes` map is keyed by base name, the first include is lost -/
theorem describe_loses_include :
    (forget wInclude).includes [100, 49, 47, 98, 97, 115, 101, 46, 116, 104, 114, 105, 102, 116] = true ∧
    (factsOf (describe wInclude)).includes [100, 49, 47, 98, 97, 115, 101, 46, 116, 104, 114, 105, 102, 116] = false ∧
    (forget wInclude).includeOf [98, 97, 115, 101] ≠ (factsOf (describe wInclude)).includeOf [98, 97, 115, 101] := by decide

/-- `namespace go a` and `namespace go b` in one file -/
def wNamespace : File :=
  { filename := [109], includes := [], namespaces := [⟨[103, 111], [97]⟩, ⟨[103, 111], [98]⟩],
    typedefs := [], consts := [], enums := [], structs := [], unions := [], exceptions := [], services := [] }

/-- **regression item** (was negative witness 2 before the fix `keep the first namespace per language`): the
descriptor states the first namespace of a language, the one the IDL means and the Go backend uses -/
theorem describe_keeps_first_namespace :
    (forget wNamespace).namespaces [103, 111] = some [97] ∧ (factsOf (describe wNamespace)).namespaces [103, 111] = some [97] := by
  decide

/-- **annotations with all values**: whatever `(k = "v", …)` list the source holds (keys may repeat), the parser's
`Annotations.Append` yields pairwise distinct keys (the hypothesis of `describe_faithful_partial`) and the
descriptor's annotation map gives, for every key, exactly the values written for it, in source order. -/
theorem annotations_keep_all_values (ps : List (Str × Str)) (k : Str) :
    AnnosOK (annosOfPairs ps) ∧
    mapGet (annoMap (annosOfPairs ps)) k = (if valuesOf ps k = [] then none else some (valuesOf ps k)) := by
  refine ⟨annosOfPairs_ok ps, ?_⟩
  rw [annoFacts_annoMap _ (annosOfPairs_ok ps)]
  have h := annoFacts_fold ps k []
  show annoFacts (ps.foldl (fun as p => annoAppend as p.1 p.2) []) k = _
  rw [h]
  simp [extend, annoFacts]

/-- constant values of every shape are recoverable from their descriptors -/
theorem const_value_faithful (c : CV) : cvOfDesc (descCV c) = c := cvOfDesc_descCV c

/-- type expressions with key/value types are recoverable from their descriptors -/
theorem type_expr_faithful (p : Str) (t : TyE) : tyOfDesc (descTy p t) = t := tyOfDesc_descTy p t

/-! ### descriptor_roundtrip -/

/-- the run-time check of well-typedness (evaluated by the model driver on every descriptor of the
correspondence) implies the hypothesis `WT` of the shared round-trip theorem -/
theorem welltyped_check_sound (S : List StructDef) (ty : Ty) (v : GoVal) (h : wtB S ty v = true) : WT S ty v :=
  wtB_sound S v ty h

/-- **descriptor_roundtrip**: meta.Marshal/Unmarshal as the Thrift binary codec driven by the type meta of
descriptor.thrift — the instance of the shared round-trip theorem `Gen.Std.rt` at the regenerated schema.
For every file descriptor that Go can hold (`wtB`: ints in range, sizes < 2^31, map keys distinct), in whatever
order the maps are iterated (= the order of the association lists), `Unmarshal` accepts the bytes of `Marshal`
and the object it builds marshals to exactly the same bytes (same fields, same entries). -/
theorem descriptor_roundtrip (fd : FileDesc) (bs : Bytes)
    (hwt : wtB Generated.C15Schema.prog.structs (.struct sFileDescriptor) (gFile fd) = true)
    (h : marshal Generated.C15Schema.prog fd = .ok bs) :
    ∃ obj', unmarshalVal Generated.C15Schema.prog bs = some obj' ∧
      Gen.Std.write (noVal Generated.C15Schema.prog) sFileDescriptor obj' = .ok bs := by
  simp only [marshal, write, Res.bind_eq_ok] at h
  obtain ⟨w, hw, hb⟩ := h
  cases hb
  have hw0 := toW_noVal _ _ (.struct sFileDescriptor) w hw
  have hd : w.depth ≤ (Wire.encW w).length + 1 := by have := depth_le_len w; omega
  obtain ⟨v', hr, ht, _, _⟩ := rt (noVal Generated.C15Schema.prog) schema_ok rfl _ (.struct sFileDescriptor) w
    ((Wire.encW w).length + 1) [] (wtB_sound _ _ _ hwt) hw0 hd
  refine ⟨v', ?_, ?_⟩
  · unfold unmarshalVal Gen.Std.read
    simp only [List.append_nil] at hr
    have : (noVal Generated.C15Schema.prog).structs = Generated.C15Schema.prog.structs := rfl
    rw [this] at hr
    simp [hr]
  · simp [write, ht, bind]


/-- the hypothesis is satisfiable (and the checker runs in the kernel): the descriptor of `exFile` -/
example : wtB Generated.C15Schema.prog.structs (.struct sFileDescriptor) (gFile (describe exFile)) = true := by decide

/-! ### lookup_finds -/

/-- **RegisterAST registers the whole include closure**: for an AST whose files are identified by their
Filename, after `RegisterAST` every file reachable through includes (at any depth, through diamonds) is
registered under its Filename with its own (stamped) descriptor — by induction over the include structure. -/
theorem register_closed (uuid : Str) (root b : Ast) (hc : Coh root.subs) (hb : b ∈ root.subs) :
    mapGet (regAST uuid root []) b.file.filename = some (registerUUID uuid (describe b.file)) :=
  regAST_registers uuid root hc b hb

/- Full statement (FALSE when the looking file has two includes with equal base name, witness below):
   the same without `hnd`. -/

/-- **lookup_finds (partial)**: after `RegisterAST(root)`, from any reachable file `b` whose include base names
are pairwise distinct, `LookupStruct/Union/Exception/Enum/Typedef/Const/Service(name, b.Filename)` return the
(registry-stamped) descriptor of exactly the definition the possibly qualified `name` denotes in the IDL — the
file's own definition for an unqualified name, the definition in the include with that prefix for `prefix.Name` —
and nil when the IDL defines no such thing. -/
theorem lookup_finds_partial (W : World) (uuid : Str) (root b : Ast) (name : Str)
    (huuid : uuid ≠ []) (hreg : mapGet W.regs uuid = some (regAST uuid root []))
    (hc : Coh root.subs) (hwf : WFIncl root.subs) (hne : ∀ d ∈ root.subs, d.file.filename ≠ [])
    (hb : b ∈ root.subs) (hnd : (b.file.includes.map baseName).Nodup) (hname : (parseAlias name).2 ≠ []) :
    let gd := mapGet W.regs uuid
    let p := b.file.filename
    lookupIn W gd p name lookStruct =
      (denote b name File.structs StructLike.name).map (fun pd => uuidStruct uuid (descStruct pd.1 pd.2)) ∧
    lookupIn W gd p name lookUnion =
      (denote b name File.unions StructLike.name).map (fun pd => uuidStruct uuid (descStruct pd.1 pd.2)) ∧
    lookupIn W gd p name lookException =
      (denote b name File.exceptions StructLike.name).map (fun pd => uuidStruct uuid (descStruct pd.1 pd.2)) ∧
    lookupIn W gd p name lookEnum =
      (denote b name File.enums Enum.name).map (fun pd => uuidEnum uuid (descEnum pd.1 pd.2)) ∧
    lookupIn W gd p name lookTypedef =
      (denote b name File.typedefs Typedef.alias).map (fun pd => uuidTypedef uuid (descTypedef pd.1 pd.2)) ∧
    lookupIn W gd p name lookConst =
      (denote b name File.consts Const.name).map (fun pd => uuidConst uuid (descConst pd.1 pd.2)) ∧
    lookupIn W gd p name lookService =
      (denote b name File.services Service.name).map (fun pd => uuidService uuid (descService pd.1 pd.2)) := by
  refine ⟨?_, ?_, ?_, ?_, ?_, ?_, ?_⟩
  · exact lookup_generic W uuid root b name lookStruct File.structs StructLike.name (fun p s => uuidStruct uuid (descStruct p s)) (look_struct uuid) huuid hreg hc hwf hne hb hnd hname
  · exact lookup_generic W uuid root b name lookUnion File.unions StructLike.name (fun p s => uuidStruct uuid (descStruct p s)) (look_union uuid) huuid hreg hc hwf hne hb hnd hname
  · exact lookup_generic W uuid root b name lookException File.exceptions StructLike.name (fun p s => uuidStruct uuid (descStruct p s)) (look_exception uuid) huuid hreg hc hwf hne hb hnd hname
  · exact lookup_generic W uuid root b name lookEnum File.enums Enum.name (fun p s => uuidEnum uuid (descEnum p s)) (look_enum uuid) huuid hreg hc hwf hne hb hnd hname
  · exact lookup_generic W uuid root b name lookTypedef File.typedefs Typedef.alias (fun p s => uuidTypedef uuid (descTypedef p s)) (look_typedef uuid) huuid hreg hc hwf hne hb hnd hname
  · exact lookup_generic W uuid root b name lookConst File.consts Const.name (fun p s => uuidConst uuid (descConst p s)) (look_const uuid) huuid hreg hc hwf hne hb hnd hname
  · exact lookup_generic W uuid root b name lookService File.services Service.name (fun p s => uuidService uuid (descService p s)) (look_service uuid) huuid hreg hc hwf hne hb hnd hname

/-- **lookups from descriptors**: under the hypotheses of `lookup_finds_partial`, (1) the type descriptor of a field,
argument, return type or typedef target of file `b` (stamped by the registry) resolves — `GetStructDescriptor` /
`GetUnionDescriptor` / `GetExceptionDescriptor` — to the definition its type name denotes in `b` (nil for base and
container names); (2) `LookupMethod(method, service, b.Filename)` returns the first method of that name of the service
the (possibly qualified) service name denotes. -/
theorem typedesc_and_method_lookup_finds (W : World) (uuid : Str) (root b : Ast)
    (huuid : uuid ≠ []) (hreg : mapGet W.regs uuid = some (regAST uuid root []))
    (hc : Coh root.subs) (hwf : WFIncl root.subs) (hne : ∀ d ∈ root.subs, d.file.filename ≠ [])
    (hb : b ∈ root.subs) (hnd : (b.file.includes.map baseName).Nodup) (n : Str) (k v : TyO)
    (hname : (parseAlias n).2 ≠ []) :
    let td := uuidTy uuid (descTy b.file.filename (.mk n k v))
    let builtin := isContainer n || isBasic n
    td.getVia W lookStruct = (if builtin then none else
      (denote b n File.structs StructLike.name).map (fun pd => uuidStruct uuid (descStruct pd.1 pd.2))) ∧
    td.getVia W lookUnion = (if builtin then none else
      (denote b n File.unions StructLike.name).map (fun pd => uuidStruct uuid (descStruct pd.1 pd.2))) ∧
    td.getVia W lookException = (if builtin then none else
      (denote b n File.exceptions StructLike.name).map (fun pd => uuidStruct uuid (descStruct pd.1 pd.2))) ∧
    ∀ m : Str, lookupMethod W (mapGet W.regs uuid) b.file.filename n m =
      (denote b n File.services Service.name).bind (fun pd =>
        (pd.2.functions.find? (fun f => f.name = m)).map (fun f => uuidMethod uuid (descMethod pd.1 f))) := by
  have L := lookup_finds_partial W uuid root b n huuid hreg hc hwf hne hb hnd hname
  simp only at L
  obtain ⟨l1, l2, l3, _, _, _, l7⟩ := L
  refine ⟨?_, ?_, ?_, ?_⟩
  · rw [typedesc_stamped W uuid huuid, l1]
  · rw [typedesc_stamped W uuid huuid, l2]
  · rw [typedesc_stamped W uuid huuid, l3]
  · intro m
    have hn0 : n ≠ [] := by intro e; subst e; exact hname parseAlias_snd_nil_of_nil
    rw [lookupMethod_eq W _ _ n m hn0, l7]
    cases denote b n File.services Service.name with
    | none => rfl
    | some pd => simp [method_of_stamped]

def emptyFile (n : Str) (incs : List Str) (ss : List StructLike) : File :=
  { filename := n, includes := incs, namespaces := [], typedefs := [], consts := [], enums := [], structs := ss,
    unions := [], exceptions := [], services := [] }

def pD1 : Str := [100, 49, 47, 98, 97, 115, 101, 46, 116, 104, 114, 105, 102, 116]
def pD2 : Str := [100, 50, 47, 98, 97, 115, 101, 46, 116, 104, 114, 105, 102, 116]
def sS : StructLike := { name := [83], fields := [], annos := [], comments := [] }

/-- main includes d1/base.thrift and d2/base.thrift, both define struct S -/
def wRoot : Ast := .mk (emptyFile [109] [pD1, pD2] []) [.mk (emptyFile pD1 [] [sS]) [], .mk (emptyFile pD2 [] [sS]) []]

def wWorld : World := ({ dflt := [], regs := [] } : World).registerAST [85] wRoot

/-- **negative witness 3**: with two includes of equal base name, `base.S` looked up from main is the `S` of the
*last* such include, while in the IDL it is the `S` of the first -/
theorem lookup_collision_witness :
    ((lookupIn wWorld (mapGet wWorld.regs [85]) [109] [98, 97, 115, 101, 46, 83] lookStruct).map (·.filepath)) = some pD2 ∧
    ((denote wRoot [98, 97, 115, 101, 46, 83] File.structs StructLike.name).map (·.1)) = some pD1 := by decide

/-- lookups by field name and by field id return the descriptor of the first field with that name / id -/
theorem field_lookup_finds (p : Str) (s : StructLike) (n : Str) (i : Int) :
    (descStruct p s).fieldByName n = (s.fields.find? (fun f => f.name = n)).map (descField p) ∧
    (descStruct p s).fieldById i = (s.fields.find? (fun f => f.id = i)).map (descField p) ∧
    ∀ (sv : Service), (descService p sv).methodByName n = (sv.functions.find? (fun f => f.name = n)).map (descMethod p) :=
  ⟨field_by_name p s n, field_by_id p s i, fun sv => method_by_name p sv n⟩

/-- **regression item** (was negative witness 4 before the fix `stamp c.Type`): the type descriptor of a constant
carries the uuid of the registry the constant lives in, so `c.Type.GetStructDescriptor()` (and the other getters)
resolve there — to what the type name denotes, by `typedesc_and_method_lookup_finds`. -/
theorem const_type_registered {α : Type} (W : World) (uuid p : Str) (huuid : uuid ≠ []) (c : Const)
    (look : FileDesc → Str → Option α) :
    (uuidConst uuid (descConst p c)).ty.getVia W look =
      (if isContainer c.ty.1 || isBasic c.ty.1 then none
       else lookupIn W (mapGet W.regs uuid) p c.ty.1 look) := by
  rw [const_type_stamped]
  cases hc : c.ty with
  | mk n k v => exact typedesc_stamped W uuid huuid p n k v look

/-! ### gotype_bijection -/

/- Full statement: every generated Go type maps to its own descriptor and back. The Go side (that the
`reflect.Type`s of the generated types are pairwise distinct) is outside Lean — and false for typedefs, which
thriftgo emits as Go type aliases (witness below). -/

/-- **gotype_bijection (partial, registry model)**: if the type list of the generated file has one pairwise distinct
entry per struct-like, enum and typedef (in the order `Structs ++ Unions ++ Exceptions`, `Enums`, `Typedefs`), then after
`registerGoTypes` the i-th type maps to the i-th descriptor of its group, and the pairing descriptor ↔ type is
positional (so it is a bijection). -/
theorem gotype_bijection_partial {τ : Type} [DecidableEq τ] (fd : FileDesc) (tys : List τ) (hn : tys.Nodup)
    (sl : List StructDesc) (hsl : sl = fd.structs ++ fd.unions ++ fd.exceptions)
    (hl : tys.length = sl.length + fd.enums.length + fd.typedefs.length) :
    (∀ (i : Nat) (t : τ), i < sl.length → tys[i]? = some t → byGoType (registerGoTypes fd tys).structOf t = sl[i]?) ∧
    (∀ (i : Nat) (t : τ), i < fd.enums.length → tys[sl.length + i]? = some t →
      byGoType (registerGoTypes fd tys).enumOf t = fd.enums[i]?) ∧
    (∀ (i : Nat) (t : τ), i < fd.typedefs.length → tys[sl.length + fd.enums.length + i]? = some t →
      byGoType (registerGoTypes fd tys).typedefOf t = fd.typedefs[i]?) := by
  subst hsl
  generalize hsl : fd.structs ++ fd.unions ++ fd.exceptions = sl at hl ⊢
  have hreg : registerGoTypes fd tys =
      { structOf := (tys.take sl.length).zip sl,
        enumOf := ((tys.drop sl.length).take fd.enums.length).zip fd.enums,
        typedefOf := ((tys.drop (sl.length + fd.enums.length)).take fd.typedefs.length).zip fd.typedefs } := by
    simp only [registerGoTypes, hsl]
  rw [hreg]
  refine ⟨?_, ?_, ?_⟩
  · intro i t h ht
    obtain ⟨hi, rfl⟩ := List.getElem?_eq_some_iff.mp ht
    have hk : i < (tys.take sl.length).length := by simp; omega
    have := byGoType_zip (tys.take sl.length) sl i hk h (hn.sublist (List.take_sublist _ _))
    simp only [List.getElem_take] at this
    rw [this, List.getElem?_eq_getElem h]
  · intro i t h ht
    obtain ⟨hi, rfl⟩ := List.getElem?_eq_some_iff.mp ht
    have hk : i < ((tys.drop sl.length).take fd.enums.length).length := by simp; omega
    have := byGoType_zip ((tys.drop sl.length).take fd.enums.length) fd.enums i hk h
      ((hn.sublist (List.drop_sublist _ _)).sublist (List.take_sublist _ _))
    simp only [List.getElem_take, List.getElem_drop] at this
    rw [this, List.getElem?_eq_getElem h]
  · intro i t h ht
    obtain ⟨hi, rfl⟩ := List.getElem?_eq_some_iff.mp ht
    have hk : i < ((tys.drop (sl.length + fd.enums.length)).take fd.typedefs.length).length := by simp; omega
    have := byGoType_zip ((tys.drop (sl.length + fd.enums.length)).take fd.typedefs.length) fd.typedefs i hk h
      ((hn.sublist (List.drop_sublist _ _)).sublist (List.take_sublist _ _))
    simp only [List.getElem_take, List.getElem_drop] at this
    rw [this, List.getElem?_eq_getElem h]

def tdA : TypedefDesc := { filepath := [109], ty := .mk [109] [83] .none .none none, alias := [65], annos := [], comments := [], extra := none }
def tdB : TypedefDesc := { tdA with alias := [66] }

/-- **negative witness 5**: `typedef S A` and `typedef S B` are Go aliases of the same type (token 7 twice): the
registry answers `B` for both -/
theorem gotype_alias_witness :
    ((byGoType (registerGoTypes { (describe (emptyFile [109] [] [])) with typedefs := [tdA, tdB] } [7, 7]).typedefOf 7).map (·.alias)) =
      some [66] := by decide

end Props.C15
