/- C13 property theorems (stub: not built yet) -/
