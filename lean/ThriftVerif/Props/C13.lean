import ThriftVerif.Gen.Mask
import ThriftVerif.Gen.MaskLemmas
import ThriftVerif.Generated.C13
/-
  C13 — field-mask filtered serialization emits exactly the selected data.
  Property theorems over `Gen.Mask` (the model of the code generated with `with_field_mask`), the field-mask library model of
  C14 (`Lib.FieldMask`: the answers of Field/Int/Str/All, white and black) and `Gen.Std` / `Core.Wire`.
  All statements hold for EVERY mask value (any trie, white or black, built by NewFieldMask or not), every `Sites`
  configuration of the library, every schema and value, unless a hypothesis says otherwise.  `Tpl` is the shape of the
  templates (`Tpl.asFound` on the tree this was written against; `Generated.C13.tpl` is re-read from the templates on every run).
-/
namespace Props.C13
open Wire Gen Gen.Std Gen.Mask
open FieldMask (MaskOpt Sites Mask Kids Key)

/-! ## regenerated fact: the key-type dispatch of the map templates -/

/-- the dispatch FieldWriteMap / FieldReadMap make on the key type (`IsIntType` → `Int(int(k))`, `IsStrType` → `Str(string(k))`, neither →
`Int(0)`), asked of the real `golang.IsIntType` / `golang.IsStrType` for every category on every run, is the one the model uses
(`isIntKey` / `isStrKey`) — and the one `fieldmask.switchFt` uses to type the mask node (IntMap for integer AND enum keys, StrMap for
string and binary keys). -/
theorem key_dispatch_table_sound :
    Generated.C13.keyDispatch =
      [("bool", isIntKey .bool, isStrKey .bool), ("byte", isIntKey .i8, isStrKey .i8), ("i16", isIntKey .i16, isStrKey .i16),
       ("i32", isIntKey .i32, isStrKey .i32), ("i64", isIntKey .i64, isStrKey .i64), ("double", isIntKey .dbl, isStrKey .dbl),
       ("string", isIntKey .str, isStrKey .str), ("binary", isIntKey .bin, isStrKey .bin), ("enum", isIntKey .enum, isStrKey .enum),
       ("struct", isIntKey (.struct 0), isStrKey (.struct 0)), ("union", isIntKey (.struct 0), isStrKey (.struct 0)),
       ("exception", isIntKey (.struct 0), isStrKey (.struct 0))] := by
  decide

/-- ZeroWriter's writer per category (the TProtocol methods in the text the real `golang.ZeroWriter` returns, asked on every run) is the
one the model's `zeroM` stands for, and its first call emits the wire type of `zeroM` in `Core.Wire`'s type table — in particular
a bool is written with `WriteBool`, not with the byte-identical (binary protocol) but not equivalent (compact protocol) `WriteByte`. -/
theorem zero_writer_table_sound :
    Generated.C13.zeroWriters =
      [("bool", zeroCalls .bool), ("byte", zeroCalls .i8), ("i16", zeroCalls .i16), ("i32", zeroCalls .i32), ("i64", zeroCalls .i64),
       ("double", zeroCalls .dbl), ("string", zeroCalls .str), ("binary", zeroCalls .bin), ("enum", zeroCalls .enum),
       ("map", zeroCalls (.map .i32 .i32)), ("list", zeroCalls (.list .i32)), ("set", zeroCalls (.set .i32)),
       ("struct", zeroCalls (.struct 0)), ("union", zeroCalls (.struct 0)), ("exception", zeroCalls (.struct 0))] ∧
    (∀ ty ∈ [Ty.bool, .i8, .i16, .i32, .i64, .dbl, .str, .bin, .enum, .map .i32 .i32, .list .i32, .set .i32, .struct 0],
      ((zeroCalls ty).head?.bind callTType) = some (zeroM ty).ttype) := by
  decide

/-! ## the pre-count loops -/

/-- FieldWriteMap: the announced count is the number of selected keys (the loop ranges over the keys and leaves the bound alone). -/
theorem precount_map {α} (ex : α → Bool) (keys : List α) : precountKeys ex keys = (keys.filter ex).length :=
  precountKeys_eq ex keys

/-- the repaired list/set loop `for i := 0; i < len(x); i++ { if !ex { l-- } }` announces the number of selected indices. -/
theorem precount_list_repaired (T : Tpl) (hT : T.preMut = false) (ex : Nat → Bool) (n : Nat) :
    precountList T ex n = ((List.range n).filter ex).length := by
  simp [precountList, hT, precountFix_count, cnt_range]

/- `precount_list` (FULL STATEMENT, FALSE on the tree as found):
     ∀ T ex n, precountList T ex n = ((List.range n).filter ex).length
   The loop as coded (`l := n; for i := 0; i < l; i++ { if !ex(i) { l-- } }`) compares `i` with the bound it is decrementing,
   so it stops before it has seen all indices. -/
example : precountList Tpl.asFound (fun i => i == 0) 3 = 2 ∧ ((List.range 3).filter (fun i => i == 0)).length = 1 := by decide
example : precountList Tpl.asFound (fun _ => false) 2 = 1 ∧ ((List.range 2).filter (fun _ => false)).length = 0 := by decide
example : ¬ ∀ (T : Tpl) (ex : Nat → Bool) (n : Nat), precountList T ex n = ((List.range n).filter ex).length :=
  fun h => absurd (h Tpl.asFound (fun _ => false) 2) (by decide)

/-- what does hold for the loop whatever its shape: it never announces FEWER elements than are written (so a reader waits for
elements that never come), and it is right when nothing is filtered. -/
theorem precount_list_partial (T : Tpl) (ex : Nat → Bool) (n : Nat) :
    ((List.range n).filter ex).length ≤ precountList T ex n ∧
    ((∀ j, j < n → ex j = true) → precountList T ex n = n) := by
  constructor
  · rw [cnt_range]
    unfold precountList
    split
    · have h := precountMut_ge ex n 0 n
      have := cnt_not ex n 0
      simp only [Nat.sub_zero] at h
      omega
    · rw [precountFix_count]; exact Nat.le_refl _
  · intro h
    unfold precountList
    split
    · exact precountMut_all ex n h n 0 (Nat.zero_le _)
    · rw [precountFix_count, cnt_all]; intro j _ hj; exact h j (by omega)

example : ∃ ex : Nat → Bool, ∀ j, j < 5 → ex j = true := ⟨fun _ => true, fun _ _ => rfl⟩

/-! ## well-formedness -/

/- `masked_write_wellformed` (FULL STATEMENT, FALSE on the tree as found): every list/set/map header count in the output of a
   masked Write equals the number of elements that follow, i.e. `toM … = .ok m → ∃ w, m.toW? = some w`.
   Witness (replayed by the directed unit of the harness): `struct S {1: list<i32> l}`, value `l = [10,11,12]`, white mask
   `$.l[0]`: the list header announces 2 elements, 1 follows. -/
def exProg : Prog := { structs := [{ kind := 0, fields := [{ id := 1, req := .default, ty := .list .i32, dflt := none }] }] }
def exLeaf : Mask := .mk .scalar true false .none false .nil false .nil false .nil
/-- the trie NewFieldMask builds for `$.l[0]` -/
def exMask : Mask :=
  .mk .struct false false .none true
    (.cons (.i 1) (.mk .list false false .none false .nil true (.cons (.i 0) exLeaf .nil) false .nil) .nil) false .nil false .nil

example : Gen.Mask.write exProg Tpl.asFound {} Sites.repaired [] (.some exMask) 0 (.strct [.list [.int 10, .int 11, .int 12]]) =
    .ok [15, 0, 1, 8, 0, 0, 0, 2, 0, 0, 0, 10, 0] := by rfl
example : ∃ m, toM exProg Tpl.asFound {} Sites.repaired [] (.some exMask) (.struct 0) (.strct [.list [.int 10, .int 11, .int 12]]) = .ok m ∧
    m.toW? = none := ⟨_, rfl, by rfl⟩
/-- with the repaired loop the same input announces 1 -/
example : Gen.Mask.write exProg Tpl.repaired {} Sites.repaired [] (.some exMask) 0 (.strct [.list [.int 10, .int 11, .int 12]]) =
    .ok [15, 0, 1, 8, 0, 0, 0, 1, 0, 0, 0, 10, 0] := by rfl

/-- **masked Write is well-formed** once the list/set pre-count loop is repaired, for every mask whose `All()` is honest on
every sub-mask the code can reach (`Good`: when All() answers true every index and key passes — true of white-list masks,
false of a black-list mask at the end of a complete path, see docs/C13.md) and every schema whose maps have integer or string
keys: the bytes are the encoding of a wire value, i.e. every header count is the number of elements that follow. -/
theorem masked_write_wellformed_partial (P : Prog) (T : Tpl) (O : Opts) (cfg : Sites) (fm : MaskOpt) (sidx : Nat) (obj : GoVal) (bs : Bytes)
    (hT : T.preMut = false) (hP : KeysOk P) (hg : Good cfg fm) (h : Gen.Mask.write P T O cfg [] fm sidx obj = .ok bs) :
    ∃ m w, toM P T O cfg [] fm (.struct sidx) obj = .ok m ∧ m.toW? = some w ∧ bs = encW w := by
  simp only [Gen.Mask.write, Res.bind_eq_ok] at h
  obtain ⟨m, hm, hb⟩ := h
  cases hb
  obtain ⟨w, hw⟩ := toM_wf P T O cfg hT hP obj fm (.struct sidx) m hg rfl hm
  exact ⟨m, w, hm, hw, (encM_toW m w hw).1⟩

/- non-vacuity: the nil mask is Good, the example schema has no map at all -/
example : Good Sites.repaired .none := good_none _
example : KeysOk exProg := by
  intro i sd h f hf
  match i, h with
  | 0, h => simp [exProg, Prog.struct?] at h; subst h; simp at hf; subst hf; rfl
  | i + 1, h => simp [exProg, Prog.struct?] at h

/-! ## what is written / read: exactly the selected part -/

/-- **masked Write emits exactly the selected elements**, as coded, for every mask (white or black), template shape and option:
the element loop of a list/set writes precisely the elements whose index the mask passes (`Int(i)` answers true), in order, each
under the sub-mask `Int(i)` returned; the entry loop of a map writes precisely the entries whose key the mask passes
(`Int(int(k))` / `Str(string(k))`, `Int(0)` for other key types), the key unmasked, the value under the returned sub-mask. -/
theorem masked_write_restrict (P : Prog) (T : Tpl) (O : Opts) (cfg : Sites) (fm : MaskOpt) :
    (∀ (e : Ty) (xs : List GoVal),
      toMList P T O cfg fm e 0 xs = resMapM (fun p => toM P T O cfg [] p.2 e p.1) (selIdx cfg fm 0 xs)) ∧
    (∀ (k v : Ty) (kvs : List (GoVal × GoVal)),
      toMPairs P T O cfg fm k v kvs = resMapM (fun p => do
        let wa ← toM P T O cfg [] .none k p.1.1
        let wb ← toM P T O cfg [] p.2 v p.1.2
        Res.ok (wa, wb)) (selKeys cfg k fm kvs)) :=
  ⟨fun e xs => toMList_spec P T O cfg fm e xs 0, fun k v kvs => toMPairs_spec P T O cfg fm k v kvs⟩

/-- **masked Read stores exactly the selected part and skips the rest without error.**
(1) list/set of base-typed elements: whenever the unmasked element reader gets `xs` out of the bytes, the masked loop gets exactly
the elements whose index the mask passes, out of the same bytes (same remainder).
(2) a known field the mask rejects is skipped: the object keeps what it held, the required-field flag is raised (no "required field
not set" error), the loop continues behind the skipped value.
(3) a known field the mask passes is read under the sub-mask `Field(id)` returned and stored. -/
theorem masked_read_restrict (S : List StructDef) (cfg : Sites) :
    (∀ (f : Nat) (e : Ty) (q : Nat → MaskOpt × Bool) (n : Nat) (bs r : Bytes) (xs : List GoVal), e.isBase = true →
      readListWith (readScalar e) n bs = some (xs, r) →
      readListM (fun m => readTyM S cfg (f + 1) m e) (skipW e.ttype.code) q n 0 bs =
        .ok ((xs.zipIdx 0).filterMap (fun p => if (q p.2).2 then some p.1 else none), r)) ∧
    (∀ (rd : MaskOpt → Ty → Bytes → Res (GoVal × Bytes)) (sm m : MaskOpt) (defs : List FieldDef) (g c id j : Nat) (f : FieldDef)
       (bs r r' : Bytes) (cur : List GoVal) (seen : List Bool),
      c ≠ 0 → readN 2 bs = some (id, r) → findField defs id = some (j, f) → f.ty.ttype.code = c →
      qField cfg sm f.id = .ok (m, false) → skipW c r = some r' →
      readFieldsM cfg rd sm defs (g + 1) (c :: bs) cur seen = readFieldsM cfg rd sm defs g r' cur (seen.set j true)) ∧
    (∀ (rd : MaskOpt → Ty → Bytes → Res (GoVal × Bytes)) (sm m : MaskOpt) (defs : List FieldDef) (g c id j : Nat) (f : FieldDef)
       (bs r r' : Bytes) (v : GoVal) (cur : List GoVal) (seen : List Bool),
      c ≠ 0 → readN 2 bs = some (id, r) → findField defs id = some (j, f) → f.ty.ttype.code = c →
      qField cfg sm f.id = .ok (m, true) → rd m f.ty r = .ok (v, r') →
      readFieldsM cfg rd sm defs (g + 1) (c :: bs) cur seen = readFieldsM cfg rd sm defs g r' (cur.set j v) (seen.set j true)) := by
  refine ⟨?_, ?_, ?_⟩
  · intro f e q n bs r xs hb h
    exact readListM_base S cfg f e hb q n 0 bs r xs h
  · intro rd sm m defs g c id j f bs r r' cur seen hc hr hf ht hq hs
    simp [readFieldsM, hc, hr, hf, ht, hq, hs, bind]
  · intro rd sm m defs g c id j f bs r r' v cur seen hc hr hf ht hq hrd
    simp [readFieldsM, hc, hr, hf, ht, hq, hrd, bind]

/-! ## nil mask -/

/-- **a nil mask behaves exactly like code generated without the option (Write)**: for every schema, option set, template shape and
object — well typed or not — the masked Write under a nil mask returns what `Gen.Std.write` (the model of the default templates,
property C02) returns: the same bytes, the same error, the same panic. -/
theorem nil_mask_is_std_write (P : Prog) (T : Tpl) (O : Opts) (cfg : Sites) (sidx : Nat) (obj : GoVal) :
    Gen.Mask.write P T O cfg [] .none sidx obj = Gen.Std.write P sidx obj := by
  unfold Gen.Mask.write Gen.Std.write
  rw [toM_nil]
  cases toW P (.struct sidx) obj <;> simp [Gen.Mask.Res.map, bind, encM_embed]

/-- **a nil mask behaves exactly like code generated without the option (Read)**, on every byte string. -/
theorem nil_mask_is_std_read (P : Prog) (cfg : Sites) (sidx : Nat) (bs : Bytes) :
    Gen.Mask.read P cfg .none sidx bs = Res.ofOption (Gen.Std.read P sidx bs) :=
  read_nil P cfg sidx bs

/-! ## required and non-required fields -/

/-- **a required field is still written**, whatever the mask says: without `field_mask_zero_required` with its current value (the mask
is not even asked for base types; for the others `fm, _ := Field(id)` only supplies the sub-mask `reqMask T q` — as found the one
`Field(id)` returned even when it REJECTED the field, which hollows out a black-listed required struct, see docs/C13.md; repaired: nil),
with the option and a rejecting mask with the zero value `ZeroWriter` emits. -/
theorem required_still_written (P : Prog) (T : Tpl) (O : Opts) (cfg : Sites) (sm : MaskOpt) (env : Env) (j : Nat)
    (f : FieldDef) (fs : List FieldDef) (v : GoVal) (vs : List GoVal) (ws : List (Nat × MW))
    (hr : f.req = .required) (h : toMFields P T O cfg sm env j (f :: fs) (v :: vs) = .ok ws) :
    ∃ w rest, ws = (pat 16 f.id, w) :: rest ∧ toMFields P T O cfg sm env (j + 1) fs vs = .ok rest ∧
      (O.zeroReq = false → ∃ q, (if f.ty.isBase then (.ok (.none, true) : Res (MaskOpt × Bool)) else qField cfg sm f.id) = .ok q ∧
          toM P T O cfg [] (if f.ty.isStruct then childMask O (env.get j) (reqMask T q) else reqMask T q) f.ty v = .ok w) ∧
      (O.zeroReq = true → ∀ m, qField cfg sm f.id = .ok (m, false) → w = zeroM f.ty) := by
  simp only [toMFields, hr] at h
  simp only [show (Req.required = Req.optional) = False from by simp, decide_false, Bool.false_and, Bool.false_eq_true, if_false,
    decide_true, Bool.true_and] at h
  by_cases hz : O.zeroReq = true
  · simp only [hz, Bool.not_true, Bool.false_eq_true, if_false, Res.bind_eq_ok] at h
    obtain ⟨q, hq, h⟩ := h
    split at h
    next hq2 =>
      simp only [Res.bind_eq_ok] at h
      obtain ⟨w, _, rest, h2, h3⟩ := h
      cases h3
      refine ⟨w, rest, rfl, h2, fun hf => by simp [hz] at hf, fun _ m hm => ?_⟩
      rw [hq] at hm
      cases hm
      exact absurd hq2 (by simp)
    next =>
      simp only [Bool.true_and, Bool.or_true, decide_true, if_true, Res.bind_eq_ok] at h
      obtain ⟨rest, h2, h3⟩ := h
      cases h3
      exact ⟨_, rest, rfl, h2, fun hf => by simp [hz] at hf, fun _ _ _ => rfl⟩
  · have hz' : O.zeroReq = false := by simpa using hz
    simp only [hz', Bool.not_false, if_true, Res.bind_eq_ok] at h
    obtain ⟨q, hq, w, h1, rest, h2, h3⟩ := h
    cases h3
    exact ⟨w, rest, rfl, h2, fun _ => ⟨q, hq, h1⟩, fun hf => by simp [hz'] at hf⟩

/- `nonrequired_filtered_absent` (FULL STATEMENT, FALSE on the tree as found): a field that is not required and that the mask
   rejects is absent from the output. Under `field_mask_zero_required` the template emits the `else { ZeroWriter }` branch for EVERY
   field, so a rejected default/optional(set) field is written with its zero value (fieldmask/README.md: zero value "of the required
   field"). Witness: `struct S {1: i32 a, 2: i32 b}`, a = 5, b = 7, white mask `$.b`: field 1 is on the wire as 0. -/
def exProg2 : Prog := { structs := [{ kind := 0, fields := [
  { id := 1, req := .default, ty := .i32, dflt := none }, { id := 2, req := .default, ty := .i32, dflt := none }] }] }
def exMask2 : Mask := .mk .struct false false .none true (.cons (.i 2) exLeaf .nil) false .nil false .nil

example : Gen.Mask.write exProg2 Tpl.asFound { zeroReq := true } Sites.repaired [] (.some exMask2) 0 (.strct [.int 5, .int 7]) =
    .ok [8, 0, 1, 0, 0, 0, 0, 8, 0, 2, 0, 0, 0, 7, 0] := by rfl
example : Gen.Mask.write exProg2 Tpl.repaired { zeroReq := true } Sites.repaired [] (.some exMask2) 0 (.strct [.int 5, .int 7]) =
    .ok [8, 0, 2, 0, 0, 0, 7, 0] := by rfl
example : Gen.Mask.write exProg2 Tpl.asFound {} Sites.repaired [] (.some exMask2) 0 (.strct [.int 5, .int 7]) =
    .ok [8, 0, 2, 0, 0, 0, 7, 0] := by rfl

/-- **a non-required field the mask rejects is absent** — when `field_mask_zero_required` is off, or the zero-value branch is emitted
for required fields only (the repaired template). -/
theorem nonrequired_filtered_absent_partial (P : Prog) (T : Tpl) (O : Opts) (cfg : Sites) (sm m : MaskOpt) (env : Env) (j : Nat)
    (f : FieldDef) (fs : List FieldDef) (v : GoVal) (vs : List GoVal)
    (hn : f.req ≠ .required) (hq : qField cfg sm f.id = .ok (m, false)) (hz : O.zeroReq = false ∨ T.zeroAll = false) :
    toMFields P T O cfg sm env j (f :: fs) (v :: vs) = toMFields P T O cfg sm env (j + 1) fs vs := by
  simp only [toMFields, hq, bind]
  have h1 : (decide (f.req = Req.required) && !O.zeroReq) = false := by simp [hn]
  have h2 : (O.zeroReq && (T.zeroAll || decide (f.req = Req.required))) = false := by
    rcases hz with h | h <;> simp [h, hn]
  simp only [h1, h2, Bool.false_eq_true, if_false, ite_self]

example : (Req.default ≠ Req.required) ∧ ((false = false) ∨ (true = false)) := ⟨by decide, Or.inl rfl⟩

/-! ## field_mask_halfway -/

/-- **halfway**: `Pass_FieldMask` keeps a mask that was set on a non-root struct; `Set_FieldMask` (the default) replaces it by the
parent's sub-mask; a struct-typed field that is written is written under exactly that mask. -/
theorem halfway (P : Prog) (T : Tpl) (O : Opts) (cfg : Sites) (sm own fm : MaskOpt) (m : Mask) (z : Bool) :
    childMask { halfway := true, zeroReq := z } (some (.some m)) fm = .some m ∧
    childMask { halfway := true, zeroReq := z } (some .none) fm = fm ∧
    childMask { halfway := true, zeroReq := z } none fm = fm ∧
    childMask { halfway := false, zeroReq := z } (some own) fm = fm ∧
    (∀ (env : Env) (j : Nat) (f : FieldDef) (fs : List FieldDef) (v : GoVal) (vs : List GoVal) (q : MaskOpt),
      f.req = .default → f.ty.isStruct = true → qField cfg sm f.id = .ok (q, true) →
      toMFields P T O cfg sm env j (f :: fs) (v :: vs) = (do
        let w ← toM P T O cfg [] (childMask O (env.get j) q) f.ty v
        let ws ← toMFields P T O cfg sm env (j + 1) fs vs
        Res.ok ((pat 16 f.id, w) :: ws))) := by
  refine ⟨rfl, rfl, rfl, rfl, ?_⟩
  intro env j f fs v vs q hd hs hq
  simp [toMFields, hd, hs, hq, bind]

end Props.C13
