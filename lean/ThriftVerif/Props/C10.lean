import ThriftVerif.Gen.Fast
import ThriftVerif.Gen.FastLemmas
import ThriftVerif.Gen.FastSkipLemmas
import ThriftVerif.Gen.FastReadLemmas
import ThriftVerif.Gen.FastWriteLemmas
import ThriftVerif.Gen.SchemaCheck
import ThriftVerif.Generated.C10
/-
  C10 — the fastgo codec agrees with the standard codec and BLength is exact.
  Property theorems over `Gen.Fast` (the model of the three code writers of generator/fastgo and of the
  gopkg v0.2.0 primitives the generated code calls), related to `Gen.Std` (the model of the standard
  templates, C02) and `Core.Wire`.
  `WT` = the Go object is one a Go program can hold for that IDL type; `SchemaOK` = what the semantic checker
  guarantees; `IdsInt16` = field ids fit the wire's int16; `B256` = the input is a byte string.
-/
namespace Props.C10
open Wire Gen Gen.Std Gen.Fast

/-- field ids fit the int16 of the wire (thriftgo's parser accepts larger numbers; the templates would not compile) -/
def IdsInt16 (P : Prog) : Prop :=
  ∀ (i : Nat) (sd : StructDef), P.structs[i]? = some sd → ∀ f ∈ sd.fields, -32768 ≤ f.id ∧ f.id < 32768

theorem progOK_of (P : Prog) (hP : SchemaOK P) (hI : IdsInt16 P) : ProgOK P :=
  fun i sd hsd => ⟨(hP i sd hsd).1, hI i sd hsd⟩

/-- **the regenerated tables of consts.go are sound**: for every resolved type (every parser.Category, with
struct/union/exception told apart by the schema) (1) the wire type fastgo writes in field headers and switches on
in FastRead, and (2) the gopkg constant it writes in container headers, both equal the standard type id
(`Gen.Ty.ttype`, tied to the templates by C02's `typeid_table_sound`); (3) `category2WireSize` is the fixed size
of the type, (4) a positive size is the exact length of the encoding of every value of that type, and (5) the size
is 0 exactly for the variable-length types; (6) `isContainerType` (the `!= nil` skip rule) holds exactly for
map, list, set and binary. All by evaluation of the tables extracted from /repo on every run. -/
theorem wire_tables_sound (P : Prog) (ty : Ty) :
    wireTypeOf P ty = ty.ttype.code ∧ gopkgTypeOf P ty = ty.ttype.code ∧ wireSizeOf P ty = fixedSize ty ∧
    (∀ (v : GoVal) (w : WVal), 0 < wireSizeOf P ty → scalarW ty v = some w → (encW w).length = wireSizeOf P ty) ∧
    (wireSizeOf P ty = 0 ↔ (ty = .str ∨ ty = .bin ∨ ty.isBase = false)) ∧
    (isContainerType P ty = true ↔ (ty = .bin ∨ (ty.isBase = false ∧ ty.isStruct = false))) := by
  refine ⟨wireTypeOf_eq P ty, gopkgTypeOf_eq P ty, wireSizeOf_eq P ty, ?_, ?_, ?_⟩
  · intro v w hz hs
    rw [wireSizeOf_eq] at hz ⊢
    cases ty <;> simp [fixedSize] at hz <;> cases v <;> simp [scalarW] at hs <;> subst hs <;> simp [encW, be_length, fixedSize]
  · rw [wireSizeOf_eq]
    cases ty <;> simp [fixedSize, Ty.isBase]
  · rw [isContainerType_eq]
    cases ty <;> simp [Ty.isBase, Ty.isStruct]

/-- regenerated obligation ("must be aligned"): genBLengthField and genFastAppendField emit the same guard for an
optional binary field with a default (both have the `string(p.F) != string(default)` test, or neither has) -/
theorem guards_aligned : Generated.C10.optBinDefaultCmpBLength = Generated.C10.optBinDefaultCmpFastAppend := by decide

/-- **BLength is exact**: whenever FastAppend writes an object (any schema, any object, any nesting), BLength
answers exactly the number of bytes written — including the fixed-size fast paths `len * size`,
`len * (ksz + vsz)`, `len * ksz + Σ values`, and the optional-skip rules, which are the same function
(`written`) in both code writers (`guards_aligned`). -/
theorem blength_exact (P : Prog) (fuel sidx : Nat) (obj : GoVal) (bs : Bytes)
    (h : fastWrite P fuel sidx obj = .ok bs) : blength P fuel sidx obj = .ok bs.length := by
  unfold blength
  rw [guards_aligned]
  exact blengthAny_exact _ P fuel (.struct sidx) obj bs h

/-- hence `FastWrite(buf)` into a buffer of `BLength()` bytes never overflows and writes the same bytes -/
theorem fast_write_into_blength (P : Prog) (fuel sidx : Nat) (obj : GoVal) (bs : Bytes)
    (h : fastWrite P fuel sidx obj = .ok bs) : fastWriteInto P fuel sidx obj = .ok bs := by
  simp [fastWriteInto, blength_exact P fuel sidx obj bs h, h, bind]

/-- **FastAppend emits the standard wire value up to field order**: for every well-typed object that the standard
`Write` accepts (`toW … = ok w`: unions with exactly one member set, sets without duplicates under validate_set),
FastAppend writes exactly `encW (normW w)`: the encoding of the same wire value with the fields of every struct, at
every depth, sorted by field id. `WriteOK c P`: the code writers have the `string(p.F) != string(default)` guard
(`c = true`, the repaired generator: then there is NO hypothesis on the schema), or the schema has no optional binary
field with a default (the old generator; without it the statement is false,
`fast_write_optional_binary_default_differs`). `c` is the regenerated fact `optBinDefaultCmpFastAppend`. -/
theorem fast_write_is_std (P : Prog) (hN : WriteOK Generated.C10.optBinDefaultCmpFastAppend P) (sidx : Nat) (obj : GoVal)
    (w : WVal) (fuel : Nat) (hwt : WT P.structs (.struct sidx) obj) (h : toW P (.struct sidx) obj = .ok w) (hd : w.depth ≤ fuel) :
    fastWrite P fuel sidx obj = .ok (encW (normW w)) :=
  fastAny_is_std _ P hN obj (.struct sidx) w fuel hwt h hd

/-- the same for the repaired code writers, with no hypothesis on the schema -/
theorem fast_write_is_std_guarded (P : Prog) (sidx : Nat) (obj : GoVal) (w : WVal) (fuel : Nat)
    (hwt : WT P.structs (.struct sidx) obj) (h : toW P (.struct sidx) obj = .ok w) (hd : w.depth ≤ fuel) :
    fastWriteG true P fuel sidx obj = .ok (encW (normW w)) :=
  fastAny_is_std true P (Or.inl rfl) obj (.struct sidx) w fuel hwt h hd

/-- **and that encoding decodes under `Core.Wire`** to the well-formed struct value `normW w` (same fields, same
values, sorted by id), with nothing left over. -/
theorem fast_write_decodes (P : Prog) (hN : WriteOK Generated.C10.optBinDefaultCmpFastAppend P) (sidx : Nat) (obj : GoVal)
    (w : WVal) (fuel : Nat) (hwt : WT P.structs (.struct sidx) obj) (h : toW P (.struct sidx) obj = .ok w) (hd : w.depth ≤ fuel) :
    ∃ bs, fastWrite P fuel sidx obj = .ok bs ∧ WF (normW w) ∧ decW w.depth .struct bs = some (normW w, []) := by
  refine ⟨_, fast_write_is_std P hN sidx obj w fuel hwt h hd, ?_⟩
  obtain ⟨hwf, htt⟩ := toW_WF P obj (.struct sidx) w hwt h
  obtain ⟨hn, hdn⟩ := normW_WF w hwf
  refine ⟨hn, ?_⟩
  have := decW_encW (normW w) w.depth [] hn (by omega)
  rw [normW_ttype, htt] at this
  simpa [Ty.ttype] using this

/-- **byte identity for schemas in id order**: when every struct-like declares its fields in non-decreasing id order
(the common style), FastAppend writes exactly the bytes the standard Write writes. -/
theorem fast_write_eq_std_sorted (P : Prog) (hN : WriteOK Generated.C10.optBinDefaultCmpFastAppend P) (hS : SortedSchema P)
    (sidx : Nat) (obj : GoVal) (bs : Bytes)
    (fuel : Nat) (hwt : WT P.structs (.struct sidx) obj) (h : write P sidx obj = .ok bs) (hf : bs.length ≤ fuel) :
    fastWrite P fuel sidx obj = .ok bs := by
  simp only [write, Res.bind_eq_ok] at h
  obtain ⟨w, hw, hb⟩ := h
  cases hb
  have hd : w.depth ≤ fuel := by have := depth_le_len w; omega
  rw [fast_write_is_std P hN sidx obj w fuel hwt hw hd, normW_id P hS obj (.struct sidx) w hwt hw]

/-- **FastRead refines the standard Read** on EVERY byte string: whenever the generated `Read` (Gen.Std) accepts an
input, the generated `FastRead` linked with gopkg accepts it too, builds the same object (same required-field
bookkeeping, same skipping of unknown ids and of known ids with another wire type — the `fid<<8|ftyp` switch vs
`switch id` + type test) and consumes the same bytes.
PARTIAL: the converse ("Read fails ⇒ FastRead fails") does not hold for the two models: gopkg's Skip counts the
nesting limit of 64 differently and does not validate the element types of empty containers; see docs/C10.md. -/
theorem fast_read_refines_std (P : Prog) (hP : SchemaOK P) (hI : IdsInt16 P) (sidx : Nat) (bs : Bytes) (obj : GoVal)
    (hB : B256 bs) (h : Std.read P sidx bs = some obj) : ∃ n, fastRead P sidx bs = .ok (obj, n) ∧ n ≤ bs.length := by
  unfold Std.read at h
  obtain ⟨q, hq, hv⟩ := map_some_inv _ _ _ h
  obtain ⟨v, r⟩ := q
  simp only [] at hv
  subst hv
  obtain ⟨e, _⟩ := fastReadTy_refines curSkip (guardedSkip_refines _ _ _) P (progOK_of P hP hI) _ _ bs v r hB hq
  refine ⟨bs.length - r.length, ?_, by omega⟩
  simp [fastRead, fastReadWith, e, bind]

/-- **object reuse**: the refinement holds for EVERY object the caller already holds (a recycled object, an object
another message was read into), not only for a fresh `NewX()`: whenever the standard Read of `bs` INTO `cur` succeeds,
FastRead of `bs` into `cur` builds the same object — in particular both REPLACE a container the object already holds
(an IDL default installed by `NewX()`, the entries of an earlier message) by what is on the wire; neither merges.
(`fastRead`/`Std.read` are the instance `cur = NewX()`; nested struct-likes always start from `NewT()` in both codes.) -/
theorem fast_read_into_refines_std (P : Prog) (hP : SchemaOK P) (hI : IdsInt16 P) (sidx : Nat) (cur obj : GoVal) (bs : Bytes)
    (hB : B256 bs) (h : stdReadInto P sidx cur bs = some obj) :
    ∃ n, fastReadInto P sidx cur bs = .ok (obj, n) ∧ n ≤ bs.length :=
  fastReadInto_refines curSkip (guardedSkip_refines _ _ _) P (progOK_of P hP hI) sidx cur obj bs hB h

/-- **on every encoding the standard Write produces, FastRead yields the object the standard Read yields** and
consumes exactly the encoding. -/
theorem fast_read_eq_std_on_written (P : Prog) (hP : SchemaOK P) (hI : IdsInt16 P) (sidx : Nat) (obj : GoVal) (bs : Bytes)
    (hwt : WT P.structs (.struct sidx) obj) (h : write P sidx obj = .ok bs) (hB : B256 bs) :
    ∃ obj', Std.read P sidx bs = some obj' ∧ fastRead P sidx bs = .ok (obj', bs.length) ∧
      write (noVal P) sidx obj' = .ok bs := by
  simp only [write, Res.bind_eq_ok] at h
  obtain ⟨w, hw, hb⟩ := h
  cases hb
  have hw0 := toW_noVal P obj (.struct sidx) w hw
  have hd : w.depth ≤ (encW w).length + 1 := by have := depth_le_len w; omega
  obtain ⟨v', hr, ht, _, _⟩ := rt (noVal P) hP rfl obj (.struct sidx) w ((encW w).length + 1) [] hwt hw0 hd
  simp only [List.append_nil] at hr
  have hs : (noVal P).structs = P.structs := rfl
  rw [hs] at hr
  obtain ⟨e, _⟩ := fastReadTy_refines curSkip (guardedSkip_refines _ _ _) P (progOK_of P hP hI) _ _ (encW w) v' [] hB hr
  refine ⟨v', ?_, ?_, ?_⟩
  · simp [Std.read, hr]
  · simp [fastRead, fastReadWith, e, bind]
  · simp [write, ht, bind]

/-- **unknown fields anywhere do not disturb FastRead either**: for the written fields `ws` of a well-typed
object there is ONE object that both readers produce from `ws` interleaved with any number of unknown-id fields
(well-formed, nesting ≤ 64) at any positions. -/
theorem fast_read_tolerates_unknown (P : Prog) (hP : SchemaOK P) (hI : IdsInt16 P) (hv : P.validateSet = false) (i : Nat)
    (sd : StructDef) (fs : List GoVal) (ws : List (Nat × WVal)) (f : Nat) (hsd : P.structs[i]? = some sd)
    (hwt : WTFields P.structs sd.fields fs) (hw : toWFields P sd.fields fs = .ok ws) (hd : depthFields ws ≤ f) :
    ∃ fs', toWFields P sd.fields fs' = .ok ws ∧
      ∀ (ms : List (Nat × WVal)) (r : Bytes), Mixed sd.fields ws ms → B256 (encFields ms ++ 0 :: r) →
        readTy P.structs (f + 1) (.struct i) (encFields ms ++ 0 :: r) = some (.strct fs', r) ∧
        fastReadTyWith curSkip P (f + 1) (.struct i) (encFields ms ++ 0 :: r) = .ok (.strct fs', r) := by
  obtain ⟨fs', h1, h2⟩ := struct_read_mixed P hP hv i sd fs ws f hsd hwt hw hd
  refine ⟨fs', h1, fun ms r hm hB => ⟨h2 ms r hm, ?_⟩⟩
  exact (fastReadTy_refines curSkip (guardedSkip_refines _ _ _) P (progOK_of P hP hI) _ _ _ _ r hB (h2 ms r hm)).1

/-- **FastRead never panics — given a bounds-respecting Skip**: for EVERY schema and EVERY byte string (every
truncation, every corruption), with any runtime `skip` that never panics and never answers a length beyond the
buffer it was given, the outcome of the generated FastRead is `ok` or `err`: every slice expression `b[off:]`
of the generated code stays in range (`advance`), because every other gopkg primitive it calls checks bounds.
gopkg v0.2.0's Skip alone does NOT satisfy the hypothesis (`gopkg_skip_not_bounded`); the skip path of the repaired
generator does, whatever gopkg's Skip answers (`fast_read_no_panic_guarded`). -/
theorem fast_read_no_panic (skip : Nat → Bytes → FRes Nat) (hs : SkipBounded skip) (P : Prog) (sidx : Nat) (bs : Bytes) :
    NoPanic (fastReadWith skip P sidx bs) := by
  unfold fastReadWith
  apply NoPanic.bind _ _ (fastReadTy_np skip hs P _ _ _)
  intro q _
  trivial

/-- **FastRead of the guarded code never panics** — FULL: for the code written by a generator that wraps the Skip
call in a recovering function literal and checks `off > len(b)` after it (facts `guardRecover`, `guardSkipLength`;
the `ftyp < 0` pre-check is an optimisation and may be present or not), for EVERY schema and EVERY byte string the
outcome is `ok` or `err`. NOTHING is assumed about the answers of gopkg's Skip (`guardedSkip_bounded` does not unfold
it). What remains assumed about gopkg, outside the theorem: (1) `ReadFieldBegin/ReadBool/…/ReadBinary/ReadListBegin/
ReadMapBegin` check bounds as modelled in `Gen.Fast.Gopkg` (every one of them is exercised by the correspondence);
(2) a failure of `Skip` is an ordinary Go panic (index/slice out of range — recoverable) or an error, i.e. Skip performs
no out-of-bounds memory access through its unsafe pointers (it compares `p+i` with `e` before every read, see the
model) and terminates. -/
theorem fast_read_no_panic_guarded (negGuard : Bool) (P : Prog) (sidx : Nat) (bs : Bytes) :
    NoPanic (fastReadG negGuard true true P sidx bs) :=
  fast_read_no_panic _ (guardedSkip_bounded negGuard) P sidx bs

/-- the same for the CURRENT generator, from the regenerated facts -/
theorem fast_read_no_panic_current (h1 : Generated.C10.guardRecover = true) (h2 : Generated.C10.guardSkipLength = true)
    (P : Prog) (sidx : Nat) (bs : Bytes) : NoPanic (fastRead P sidx bs) := by
  have := fast_read_no_panic_guarded Generated.C10.guardNegativeType P sidx bs
  unfold fastReadG at this
  unfold fastRead curSkip
  rw [h1, h2]
  exact this

/-- **the alternative repair inside gopkg suffices too**: with `typeToSize[uint8(t)]` and one bounds check before the `return i, nil`
of the MAP loop (`Gopkg.skipTypeF`, otherwise a verbatim copy of `skipType`), the generated FastRead never panics,
for every schema and every byte string — no hypothesis left. -/
theorem fast_read_no_panic_with_repaired_skip (P : Prog) (sidx : Nat) (bs : Bytes) :
    NoPanic (fastReadWith Gopkg.skipF P sidx bs) :=
  fast_read_no_panic Gopkg.skipF skipF_bounded P sidx bs

/-- witness 1: gopkg's Skip answers 14 for an 11-byte buffer (map<string,i32>, one entry, cut inside the value):
the slow path of the MAP case adds a fixed value size without comparing it to the end of the buffer. And it
panics (index out of range) on a type byte ≥ 0x80, `TType` being `int8`. -/
theorem gopkg_skip_not_bounded :
    Gopkg.skip 13 [11, 8, 0, 0, 0, 1, 0, 0, 0, 0, 0] = .ok 14 ∧ Gopkg.skip 128 [0] = .panic 1 ∧ ¬ SkipBounded Gopkg.skip := by
  refine ⟨rfl, rfl, fun h => ?_⟩
  have := h 128 [0]
  exact this

def exEmpty : Prog := { structs := [{ kind := 0, fields := [] }] }

/-- witness 2 (regression item): a truncation of a valid encoding (`struct Empty {}` with an unknown field
1: map<string,i32>{"":5}) makes the UNGUARDED FastRead panic with `slice bounds out of range`; the guarded one
answers an error; both read the untruncated input -/
theorem fast_read_panics_on_truncation :
    fastReadG false false false exEmpty 0 [13, 0, 1, 11, 8, 0, 0, 0, 1, 0, 0, 0, 0, 0, 0, 0, 5, 0] = .ok (.strct [], 18) ∧
    fastReadG false false false exEmpty 0 [13, 0, 1, 11, 8, 0, 0, 0, 1, 0, 0, 0, 0, 0] = .panic 2 ∧
    fastReadG true true true exEmpty 0 [13, 0, 1, 11, 8, 0, 0, 0, 1, 0, 0, 0, 0, 0, 0, 0, 5, 0] = .ok (.strct [], 18) ∧
    fastReadG true true true exEmpty 0 [13, 0, 1, 11, 8, 0, 0, 0, 1, 0, 0, 0, 0, 0] = .err := ⟨rfl, rfl, rfl, rfl⟩

/-- witness 3 (regression item): one corrupted type byte (≥ 0x80), in a field header or as the element type of a
skipped list, makes the UNGUARDED FastRead panic with `index out of range`; the guarded one answers an error (the
nested case through the recovering wrapper, with or without the `ftyp < 0` pre-check) -/
theorem fast_read_panics_on_type_byte :
    fastReadG false false false exEmpty 0 [128, 0, 1, 0] = .panic 1 ∧
    fastReadG false false false exEmpty 0 [15, 0, 1, 144, 0, 0, 0, 1, 0, 0] = .panic 1 ∧
    fastReadG true true true exEmpty 0 [128, 0, 1, 0] = .err ∧
    fastReadG true true true exEmpty 0 [15, 0, 1, 144, 0, 0, 0, 1, 0, 0] = .err ∧
    fastReadG true false true exEmpty 0 [15, 0, 1, 144, 0, 0, 0, 1, 0, 0] = .panic 1 := ⟨rfl, rfl, rfl, rfl, rfl⟩

def exOptBin : Prog := { structs := [{ kind := 0, fields := [{ id := 1, req := .optional, ty := .bin, dflt := some (.bytes [97, 98, 99]) }] }] }

/-- witness 4 (regression item; why `WriteOK` is needed for the old writers): `struct S {1: optional binary b = "abc"}`,
object with `B == nil`: the standard Write emits the field with an empty value (`IsSetB` is
`string(p.B) != string(DEFAULT)`), the old FastAppend omits it (`p.B != nil`) — a reader then sees `""` in one case
and `"abc"` in the other; the repaired FastAppend writes what Write writes. -/
theorem fast_write_optional_binary_default_differs :
    write exOptBin 0 (.strct [.nil]) = .ok [11, 0, 1, 0, 0, 0, 0, 0] ∧ fastWriteG false exOptBin 5 0 (.strct [.nil]) = .ok [0] ∧
    fastWriteG true exOptBin 5 0 (.strct [.nil]) = .ok [11, 0, 1, 0, 0, 0, 0, 0] ∧
    Std.read exOptBin 0 [11, 0, 1, 0, 0, 0, 0, 0] = some (.strct [.bytes []]) ∧
    Std.read exOptBin 0 [0] = some (.strct [.bytes [97, 98, 99]]) := ⟨rfl, rfl, rfl, rfl, rfl⟩

/-! ### non-vacuity of the hypotheses -/

def Res.toFRes {α} : Res α → FRes α
  | .ok a => .ok a | .err => .err | .panic => .panic 0

def exProg : Prog := { structs := [{ kind := 0, fields := [
  { id := 3, req := .default, ty := .list .i64, dflt := none },
  { id := 1, req := .required, ty := .i32, dflt := none },
  { id := -2, req := .optional, ty := .str, dflt := some (.bytes [104, 105]) }] }] }

example : SchemaOK exProg := schemaOkB_sound exProg (by decide)
example : IdsInt16 exProg := by
  intro i sd h f hf
  match i, h with
  | 0, h => cases h; simp at hf; rcases hf with rfl | rfl | rfl <;> decide
example : WriteOK false exProg := Or.inr <| by
  intro i sd h f hf
  match i, h with
  | 0, h => cases h; simp at hf; rcases hf with rfl | rfl | rfl <;> simp [NoOptBinDflt]
/-- fields are emitted sorted by id (-2, 1, 3), BLength agrees, the standard Write emits declaration order (3, 1, -2) -/
example : fastWrite exProg 5 0 (.strct [.list [.int 7], .int 5, .bytes [97]]) =
    .ok [11, 255, 254, 0, 0, 0, 1, 97, 8, 0, 1, 0, 0, 0, 5, 15, 0, 3, 10, 0, 0, 0, 1, 0, 0, 0, 0, 0, 0, 0, 7, 0] := by rfl
example : blength exProg 5 0 (.strct [.list [.int 7], .int 5, .bytes [97]]) = .ok 32 := by rfl
example : write exProg 0 (.strct [.list [.int 7], .int 5, .bytes [97]]) =
    .ok [15, 0, 3, 10, 0, 0, 0, 1, 0, 0, 0, 0, 0, 0, 0, 7, 8, 0, 1, 0, 0, 0, 5, 11, 255, 254, 0, 0, 0, 1, 97, 0] := by rfl
def exSorted : Prog := { structs := [{ kind := 0, fields := [
  { id := -2, req := .optional, ty := .str, dflt := none },
  { id := 1, req := .required, ty := .i32, dflt := none },
  { id := 3, req := .default, ty := .list .i64, dflt := none }] }] }
example : SortedSchema exSorted := by
  intro i sd h
  match i, h with
  | 0, h => cases h; decide
example : fastWrite exSorted 5 0 (.strct [.bytes [97], .int 5, .list [.int 7]]) = Res.toFRes (write exSorted 0 (.strct [.bytes [97], .int 5, .list [.int 7]])) := by rfl
/-- reuse: the default `{1: [9]}`-style container of the object is replaced, not merged, by both readers -/
example : stdReadInto exProg 0 (.strct [.list [.int 1, .int 2], .int 0, .nil]) [15, 0, 3, 10, 0, 0, 0, 1, 0, 0, 0, 0, 0, 0, 0, 7, 8, 0, 1, 0, 0, 0, 5, 0] =
    some (.strct [.list [.int 7], .int 5, .nil]) := by rfl
example : fastReadInto exProg 0 (.strct [.list [.int 1, .int 2], .int 0, .nil]) [15, 0, 3, 10, 0, 0, 0, 1, 0, 0, 0, 0, 0, 0, 0, 7, 8, 0, 1, 0, 0, 0, 5, 0] =
    .ok (.strct [.list [.int 7], .int 5, .nil], 24) := by rfl
example : SkipBounded (fun _ _ => .err) := fun _ _ => trivial
example : B256 [8, 0, 1, 0, 0, 0, 5, 0] := by intro b hb; simp at hb; omega

end Props.C10
