/- C10 property theorems (stub: not built yet) -/
