import ThriftVerif.Lib.Determinism
import ThriftVerif.Lib.DeterminismLemmas
import ThriftVerif.Generated.C07Sites
/-
  C07 — code generation is deterministic.
  Property theorems only; helper lemmas live in Lib/DeterminismLemmas.lean.

  Every consumer of Go map iteration takes the entries in the order the runtime picked; a consumer is
  deterministic iff its result is invariant under `List.Perm` of that order.  One theorem per class
  of consumer, a classification of every site of the regenerated inventory into one class
  (`site_inventory_covered`, re-checked against /repo on every run), and — for the class that writes
  entries in iteration order — the proof that the result is *not* invariant: three sites were of that
  class (defects, since repaired by sorting; see docs/C07.md), none may be.
-/
namespace Props.C07
open Determinism Generated.C07

/-! ## class `intoMap`: the loop stores each entry into another map -/

/-- Storing entries with pairwise-distinct keys into a map gives the same map (same value for every
key) whatever the order. -/
theorem perm_into_map {κ ν} [DecidableEq κ] (dst es₁ es₂ : List (κ × ν)) (hp : es₁.Perm es₂)
    (hn : (es₁.map Prod.fst).Nodup) :
    ∀ k, aLookup k (intoMap dst es₁) = aLookup k (intoMap dst es₂) :=
  fun k => intoMap_perm hp hn dst k

example : (([(1, 10), (2, 20)] : List (Nat × Nat)).map Prod.fst).Nodup := by decide

/-- … and the hypothesis is needed: with a repeated key the last store wins. -/
theorem perm_into_map_needs_distinct_keys :
    ¬ ∀ (dst es₁ es₂ : List (Nat × Nat)), es₁.Perm es₂ →
        ∀ k, aLookup k (intoMap dst es₁) = aLookup k (intoMap dst es₂) := by
  intro h
  have := h [] [(1, 10), (1, 20)] [(1, 20), (1, 10)] (List.Perm.swap _ _ _) 1
  revert this
  decide

/-! ## class `nsAdd`: importManager.init registers its table through (*namespace).Add -/

/-- Adding pairwise-distinct names with pairwise-distinct ids to an empty namespace never renames,
and yields the same two maps in whatever order the entries are visited. -/
theorem ns_add_comm (rename : Bytes → Nat → Bytes) (es₁ es₂ : List (Bytes × Bytes)) (hp : es₁.Perm es₂)
    (hnames : (es₁.map Prod.fst).Nodup) (hids : (es₁.map Prod.snd).Nodup) :
    ∃ ns₁ ns₂, NS.addAll rename NS.empty es₁ = some ns₁ ∧ NS.addAll rename NS.empty es₂ = some ns₂ ∧
      (∀ k, aLookup k ns₁.name2id = aLookup k ns₂.name2id) ∧
      (∀ k, aLookup k ns₁.id2name = aLookup k ns₂.id2name) := by
  have hnames₂ : (es₂.map Prod.fst).Nodup := ((hp.map Prod.fst).nodup_iff).1 hnames
  refine ⟨_, _, addAll_fresh rename es₁ NS.empty hnames (fun _ _ => rfl),
    addAll_fresh rename es₂ NS.empty hnames₂ (fun _ _ => rfl), ?_, ?_⟩
  · exact fun k => intoMap_perm hp hnames [] k
  · refine fun k => intoMap_perm (hp.map _) ?_ [] k
    simpa [List.map_map, Function.comp_def] using hids

/-- regenerated obligation: the table `std` of importManager.init has pairwise-distinct package
names and pairwise-distinct import paths (so `ns_add_comm` applies to it as long as no
`thrift_import_path` / `use_package` replacement maps two of the paths to one). -/
theorem std_imports_distinct :
    (stdImports.map Prod.fst).Nodup ∧ (stdImports.map Prod.snd).Nodup := by decide

/-! ## class `sortThen`: the loop collects, the result is sorted by a key -/

/-- Sorting by a key that totally orders the keys and is injective on the collected elements gives
one result for every order of collection (ServiceThrows: key = Go type name, the map's own key;
go/format over one import block: key = import path). -/
theorem perm_then_sort {α κ} (key : α → κ) (leK : κ → κ → Bool)
    (tot : ∀ a b, leK a b = false → leK b a = true)
    (tr : ∀ a b c, leK a b = true → leK b c = true → leK a c = true)
    (anti : ∀ a b, leK a b = true → leK b a = true → a = b)
    (es₁ es₂ : List α) (hp : es₁.Perm es₂) (hn : (es₁.map key).Nodup) :
    sortedBy (fun a b => leK (key a) (key b)) es₁ = sortedBy (fun a b => leK (key a) (key b)) es₂ :=
  sortedBy_key_perm_eq key leK tot tr anti hp hn

/-- the instance used for Go strings: `bytesLe` is a total order -/
theorem perm_then_sort_strings {α} (key : α → Bytes) (es₁ es₂ : List α) (hp : es₁.Perm es₂)
    (hn : (es₁.map key).Nodup) :
    sortedBy (fun a b => bytesLe (key a) (key b)) es₁ = sortedBy (fun a b => bytesLe (key a) (key b)) es₂ :=
  sortedBy_key_perm_eq key bytesLe bytesLe_total bytesLe_trans bytesLe_antisymm hp hn

/-- regenerated obligation: ServiceThrows sorts by exactly the key it deduplicated by — the map key is
`string(e.GoTypeName())`, the comparator is `e.GoTypeName().String() < e.GoTypeName().String()` and
`(TypeName).String` is the identity conversion — so the sort key is injective on the collected
exceptions (they are the values of a map keyed by it) and `service_throws_perm` applies. A comparator
over anything coarser (say the type name without its package qualifier) breaks this. -/
theorem service_throws_sorts_by_dedup_key :
    serviceThrowsDedupKey = "string(e.GoTypeName())" ∧
    serviceThrowsLess = ("e.GoTypeName().String()", "<", "e.GoTypeName().String()") ∧
    typeNameString = "string(tn)" := by decide

/-- ServiceThrows: entries (Go type name, exception) of the map `fm`, collected in iteration order,
sorted by the type name: one list for every order. -/
theorem service_throws_perm {ν} (es₁ es₂ : List (Bytes × ν)) (hp : es₁.Perm es₂) (hn : (es₁.map Prod.fst).Nodup) :
    sortedBy (fun a b => bytesLe a.1 b.1) es₁ = sortedBy (fun a b => bytesLe a.1 b.1) es₂ :=
  sortedBy_key_perm_eq Prod.fst bytesLe bytesLe_total bytesLe_trans bytesLe_antisymm hp hn

/-- … and the key must be injective: sorting (package-qualified name, bare name) pairs by the bare name
keeps `billing.Rejected` / `storage.Rejected` in the order they came. -/
theorem service_throws_bare_name_insufficient :
    sortedBy (fun a b : Bytes × Bytes => bytesLe a.2 b.2) [([98, 46, 82], [82]), ([115, 46, 82], [82])] ≠
    sortedBy (fun a b : Bytes × Bytes => bytesLe a.2 b.2) [([115, 46, 82], [82]), ([98, 46, 82], [82])] := by decide

/-- regenerated obligation: fastgo's getSortedFields orders by the field id (unique within a struct: C04). -/
theorem sorted_fields_sorts_by_id : sortedFieldsLess = ("e.ID", "<", "e.ID") := by decide

/-! ## a consumer that is order-sensitive by design: output names, first come first served -/

/-- two IDLs that map to one output file: whichever is rendered first keeps the name. -/
theorem feed_rename_order_sensitive :
    feedRename [120] [[1], [2]] ≠ (feedRename [120] [[2], [1]]) ∧
    ¬ (feedRename [120] [[1], [2]]).Perm (feedRename [120] [[2], [1]]) := by decide

/-- regenerated obligation: the loops that render one IDL per iteration — `(*GoBackend).executeTemplates`
(calls renderOneFile) and `(*FastGoBackend).Generate` (calls GenerateOne) — range over a channel (the
DepthFirstSearch sequence), not over a map. This is the only reason `feed_rename_order_sensitive` does no
harm: no permutation-invariance theorem covers Feed's renaming, so a map here is a defect whatever its class. -/
theorem render_loops_range_over_the_dfs_sequence :
    renderLoops = [("generator/fastgo", "(*FastGoBackend).Generate", "chan"),
                   ("generator/golang", "(*GoBackend).executeTemplates", "chan")] := by decide

/-! ## class `filter`: the loop deletes the entries that fail a per-entry test -/

/-- The same entries survive whatever the order of the visit (a Go map is determined by its entries). -/
theorem perm_filter {α} (keep : α → Bool) (es₁ es₂ : List α) (hp : es₁.Perm es₂) :
    (keepOnly keep es₁).Perm (keepOnly keep es₂) ∧ ∀ e, e ∈ keepOnly keep es₁ ↔ e ∈ keepOnly keep es₂ :=
  ⟨hp.filter keep, fun _ => (hp.filter keep).mem_iff⟩

/-! ## class `firstError`: the loop returns the first failing entry's error -/

/-- Whether the loop fails does not depend on the order (which error text it reports does). -/
theorem perm_any {α} (bad : α → Bool) (es₁ es₂ : List α) (hp : es₁.Perm es₂) :
    anyFails bad es₁ = anyFails bad es₂ := hp.any_eq

/-! ## class `sum`: the loop adds up sizes -/

theorem perm_sum {α} (f : α → Nat) (es₁ es₂ : List α) (hp : es₁.Perm es₂) :
    sumOver f es₁ = sumOver f es₂ := foldl_add_perm f hp 0

/-! ## class `replacer`: the loop builds the argument list of strings.NewReplacer -/

/-- With old strings none of which is a prefix of another pair's, the generic replacement algorithm
gives the same text for every order of the pairs. -/
theorem replacer_perm (pairs₁ pairs₂ : List (Bytes × Bytes)) (hp : pairs₁.Perm pairs₂)
    (hf : PrefixFree pairs₁) (s : Bytes) : replace pairs₁ s = replace pairs₂ s :=
  replaceAux_perm hp hf s 0

/-- Keys of the shape matched by `insertReg` end in `)`, which their alphabet excludes: one is a
prefix of another only if they are equal. -/
theorem insertion_keys_prefix_free (k₁ k₂ : Bytes) (h₁ : IsInsertionKey k₁) (h₂ : IsInsertionKey k₂)
    (hp : k₁ <+: k₂) : k₁ = k₂ := insertionKey_prefix_eq h₁ h₂ hp

/-- BuildResponse: for the table built from the file's own insertion points and from patches whose
point names use the insertion-point alphabet, the file content after replacement is the same for
every order in which `range p.m` visits the table. -/
theorem insertion_replace_perm (content : Bytes) (patches : List (Bytes × Bytes))
    (hnames : ∀ p ∈ patches, ∀ c ∈ p.1, isKeyChar c = true)
    (order : List (Bytes × Bytes)) (hp : (ipTable content patches).Perm order) :
    ipReplace order content = ipReplace (ipTable content patches) content := by
  have ok := tableOK_ipTable content patches hnames
  exact (replaceAux_perm hp (prefixFree_of_insertionKeys _
    (fun p hp' => ok.2 _ (List.mem_map_of_mem (f := Prod.fst) hp')) ok.1) content 0).symm

example : ∀ p ∈ [(([105, 109, 112, 111, 114, 116, 115] : Bytes), ([120] : Bytes))], ∀ c ∈ p.1, isKeyChar c = true := by
  decide

/-- … and the hypothesis on patch names is needed: a plugin-supplied point name containing `)` can
make one key a prefix of another, and then the order decides.
Point `a)b` against a file that contains `@@thriftgo_insertion_point(a)b)`. -/
theorem insertion_replace_needs_key_alphabet :
    let content := insertionPoint [97, 41, 98]
    let t := ipTable content [([97, 41, 98], [88])]
    ipReplace t content ≠ ipReplace t.reverse content := by decide

/-! ## class `sortThen`, continued: the three loops that used to write entries as they came

`meta.write` (descriptor bytes of `*-reflection.go`), `(*Thrift).FastAppend` (request sent to
plugins) and fastgo's `(*codewriter).Imports` wrote each entry in iteration order until they were
repaired (C07 defects 1–3, docs/C07.md); they now collect the entries, sort them, then write. -/

/-- descriptor bytes: a map field is written identically for every iteration order — entries are
sorted by encoded key, then encoded value, so not even distinct keys are needed. -/
theorem descriptor_bytes_perm (fid : Nat) (es₁ es₂ : List (Bytes × Bytes)) (hp : es₁.Perm es₂) :
    encMapFieldSorted fid es₁ = encMapFieldSorted fid es₂ := by
  unfold encMapFieldSorted
  rw [sortedBy_byEncodedKey_perm hp]

/-- … and so is the whole marshalled FileDescriptor, whatever orders its two maps are visited in. -/
theorem file_descriptor_perm (path : Bytes) (inc₁ inc₂ ns₁ ns₂ : List (Bytes × Bytes))
    (hi : inc₁.Perm inc₂) (hs : ns₁.Perm ns₂) :
    encFileDescriptorSorted path inc₁ ns₁ = encFileDescriptorSorted path inc₂ ns₂ := by
  unfold encFileDescriptorSorted
  rw [sortedBy_byEncodedKey_perm hi, sortedBy_byEncodedKey_perm hs]

/-- … and a map constant / map default of the descriptor (`ConstValueDescriptor.ValueMap`, keyed by
pointer: entries may have keys of equal content), for every iteration order and any entries. -/
theorem const_map_bytes_perm (es₁ es₂ : List (Bytes × Bytes)) (hp : es₁.Perm es₂) :
    encCVMap es₁ = encCVMap es₂ := by
  unfold encCVMap
  rw [sortedBy_byEncodedCV_perm hp, hp.length_eq]

/-- request sent to plugins: `Name2Category` is written identically for every iteration order. -/
theorem plugin_request_perm (es₁ es₂ : List (Bytes × Nat)) (hp : es₁.Perm es₂)
    (hn : (es₁.map Prod.fst).Nodup) : encName2Category es₁ = encName2Category es₂ := by
  unfold encName2Category
  rw [sortedBy_key_perm_eq Prod.fst bytesLe bytesLe_total bytesLe_trans bytesLe_antisymm hp hn]

/-- fastgo's import block: two groups, each sorted by path — one block for every iteration order
(with or without go/format). -/
theorem fastgo_imports_perm (es₁ es₂ : List (Bytes × Bytes)) (hp : es₁.Perm es₂)
    (hn : (es₁.map Prod.fst).Nodup) : importsFormatted es₁ = importsFormatted es₂ :=
  importsFormatted_perm hp hn

/-! ### the sort is necessary (the regressions these repairs must not suffer)

Writing the entries in iteration order (`emit`) is *not* permutation invariant; the concrete
witnesses below are replayed on the thriftgo binary by every run of the check and must give one hash. -/

/-- witness: a file with the two namespaces `go a` and `java b`, written as it comes. -/
theorem descriptor_bytes_needs_sort :
    ¬ ∀ (fid : Nat) (es₁ es₂ : List (Bytes × Bytes)), es₁.Perm es₂ → encMapField fid es₁ = encMapField fid es₂ := by
  intro h
  have := h 3 [([103, 111], [97]), ([106, 97, 118, 97], [98])] [([106, 97, 118, 97], [98]), ([103, 111], [97])]
    (List.Perm.swap _ _ _)
  revert this
  decide

/-- sorting by the encoded key alone is not enough: two entries with keys of equal content (`k`) and
the values `a`, `b` come out in the order they went in. -/
theorem descriptor_bytes_key_only_sort_insufficient :
    encMapField 7 (sortedBy byEncodedKeyOnly [([107], [97]), ([107], [98])]) ≠
    encMapField 7 (sortedBy byEncodedKeyOnly [([107], [98]), ([107], [97])]) := by decide

/-- in general: exchanging two different adjacent entries always changes the unsorted bytes of the field … -/
theorem descriptor_bytes_unsorted_order_sensitive (fid : Nat) (a b : Bytes × Bytes) (r : List (Bytes × Bytes))
    (ha : Small a) (hb : Small b) (hne : a ≠ b) :
    encMapField fid (a :: b :: r) ≠ encMapField fid (b :: a :: r) :=
  encMapField_swap_ne fid r ha hb hne

/-- … and of the whole FileDescriptor marshalled without sorting (shown for the namespaces map). -/
theorem file_descriptor_unsorted_order_sensitive (path : Bytes) (inc : List (Bytes × Bytes)) (a b : Bytes × Bytes)
    (r : List (Bytes × Bytes)) (ha : Small a) (hb : Small b) (hne : a ≠ b) :
    encFileDescriptor path inc (a :: b :: r) ≠ encFileDescriptor path inc (b :: a :: r) := by
  intro h
  unfold encFileDescriptor at h
  simp only [List.append_assoc] at h
  have h₁ := List.append_cancel_left h
  have h₂ := List.append_cancel_left h₁
  have h₃ := List.append_cancel_left h₂
  have h₄ : encMapField 3 (a :: b :: r) = encMapField 3 (b :: a :: r) := List.append_cancel_right h₃
  exact encMapField_swap_ne 3 r ha hb hne h₄

example : Small (([103, 111], [97]) : Bytes × Bytes) := by unfold Small; decide

/-- `Name2Category` written as it comes: two different entries never commute. -/
theorem plugin_request_unsorted_order_sensitive (a b : Bytes × Nat) (r : List (Bytes × Nat))
    (ha : a.1.length < 4294967296) (hb : b.1.length < 4294967296) (hva : a.2 < 4294967296)
    (hvb : b.2 < 4294967296) (hne : a ≠ b) :
    emit encNameCategory (a :: b :: r) ≠ emit encNameCategory (b :: a :: r) :=
  emit_swap_ne encNameCategory a b r (encNameCategory_noncomm ha hb hva hvb hne)

/-- fastgo's import block without the sorts and without go/format: `fmt`, `unsafe` in either order. -/
theorem fastgo_imports_unsorted_order_sensitive :
    importsUnformatted [([102, 109, 116], []), ([117, 110, 115, 97, 102, 101], [])] ≠
    importsUnformatted [([117, 110, 115, 97, 102, 101], []), ([102, 109, 116], [])] := by decide

/-! ## the inventory -/

inductive Cls
  | intoMap        -- perm_into_map
  | nsAdd          -- ns_add_comm + std_imports_distinct
  | sortThen       -- perm_then_sort
  | filter         -- perm_filter
  | firstError     -- perm_any: reached only while validating; only success/failure is observable
  | sum            -- perm_sum
  | replacer       -- replacer_perm + insertion_keys_prefix_free (insertion_replace_perm)
  | emitInOrder    -- NOT invariant (descriptor_bytes_unsorted_order_sensitive & co.): a site of this class is a defect
  | notRun         -- code of a runtime library that the compiler never executes
  deriving DecidableEq, Repr

structure Classified where
  pkg : String
  fn : String
  ord : Nat
  kind : String
  key : String
  cls : Cls
  why : String

/-- Hand classification of every known site, by reading the code at the site and its callers. -/
def classified : List Classified := [
  ⟨"config", "loadConfig", 0, "range", "string", .intoMap,
    "config.Ref[k] = &rc per entry of the YAML map (keys distinct unless two spellings of one path are made absolute); only read by code_ref features"⟩,
  ⟨"extension/thrift_option", "CheckOptionGrammar", 0, "range", "string", .firstError, "struct annotations; returns the first parse error, result otherwise discarded"⟩,
  ⟨"extension/thrift_option", "CheckOptionGrammar", 1, "range", "string", .firstError, "field annotations; same"⟩,
  ⟨"extension/thrift_option", "CheckOptionGrammar", 2, "range", "string", .firstError, "service annotations; same"⟩,
  ⟨"extension/thrift_option", "CheckOptionGrammar", 3, "range", "string", .firstError, "method annotations; same"⟩,
  ⟨"extension/thrift_option", "CheckOptionGrammar", 4, "range", "string", .firstError, "enum annotations; same"⟩,
  ⟨"extension/thrift_option", "CheckOptionGrammar", 5, "range", "string", .firstError, "enum value annotations; same"⟩,
  ⟨"extension/thrift_option", "creatStruct", 0, "range", "string", .firstError,
    "rejects the first unknown field name; on the generation path only under CheckOptionGrammar (use_option)"⟩,
  ⟨"extension/thrift_option", "createMap", 0, "range", "string", .firstError,
    "stores parsed entries into maps / returns the first error; only under CheckOptionGrammar, value discarded"⟩,
  ⟨"extension/thrift_option", "createMap", 1, "range", "interface{}", .intoMap, "SetMapIndex per entry; only under CheckOptionGrammar, value discarded"⟩,
  ⟨"extension/thrift_option", "formatTree", 0, "range", "string", .firstError,
    "prints a tree in iteration order, the text is parsed back into a map by ParseKV; only under CheckOptionGrammar"⟩,
  ⟨"extension/thrift_option", "getOptionContent", 0, "range", "string", .firstError,
    "collects sub-values of one option (stored into a tree keyed by path); only under CheckOptionGrammar"⟩,
  ⟨"generator", "(*insertionPointReplacer).Replace", 0, "range", "string", .replacer, "argument list of strings.NewReplacer"⟩,
  ⟨"generator/fastgo", "(*bitsetCodeGen).GenIfNotSet", 0, "range", "interface{}", .intoMap, "inverts field→bit into bit→field; bits are distinct"⟩,
  ⟨"generator/fastgo", "(*codewriter).Imports", 0, "range", "string", .sortThen,
    "paths collected per group, then sort.Strings on each group (fastgo_imports_perm); was C07 defect 2 (no_fmt) before the sort"⟩,
  ⟨"generator/golang", "(*CodeUtils).BuildFuncMap", 0, "range", "string", .sortThen,
    "ServiceThrows: values of fm collected, then sort.Slice by Go type name = the key of fm (service_throws_sorts_by_dedup_key pins both expressions)"⟩,
  ⟨"generator/golang", "(*GoBackend).renderByTemplate", 0, "range", "string", .filter,
    "deletes the imports whose package name the rendered file never mentions; the test reads the entry and the fixed file content only; the Imports template then ranges the map in sorted key order"⟩,
  ⟨"generator/golang", "(*importManager).init", 0, "range", "string", .nsAdd, "ns.Add(pkg, path); libNotUsed[pkg] = true"⟩,
  ⟨"generator/golang/extension/meta", "(*instance).Read", 0, "range", "int16", .firstError,
    "names the first missing required field; runs at start-up (RegisterStruct) on constant descriptors that have none missing"⟩,
  ⟨"generator/golang/extension/meta", "write", 0, "MapRange", "?", .sortThen,
    "entries collected with their encoding, sorted by encoded key then value, then written (descriptor_bytes_perm); was C07 defect 1 (with_reflection) before the sort"⟩,
  ⟨"parser", "(*Thrift).BLength", 0, "range", "string", .sum, "adds 4+len(k)+4 per entry of Name2Category"⟩,
  ⟨"parser", "(*Thrift).FastAppend", 0, "range", "string", .sortThen,
    "keys of Name2Category collected, sort.Strings, then written (plugin_request_perm); was C07 defect 3 (-p) before the sort"⟩,
  ⟨"pkg/namespace", "(*namespace).Iterate", 0, "range", "string", .intoMap,
    "only caller ResolveImports stores imports[path]; paths distinct as name→id is injective here; the Imports template ranges the result in sorted key order"⟩,
  ⟨"thrift_reflection", "(*ConstValueDescriptor).GetValueAsString", 0, "range", "*ConstValueDescriptor", .firstError,
    "prints a map constant in iteration order; only caller on the generation path is thrift_option.creatStruct, which parses the text back; under CheckOptionGrammar"⟩,
  ⟨"thrift_reflection", "(*GlobalDescriptor).LookupConst", 0, "range", "string", .firstError,
    "first file that has the name; with filepath \"\" only from GetValueAsString; under CheckOptionGrammar"⟩,
  ⟨"thrift_reflection", "(*GlobalDescriptor).LookupEnum", 0, "range", "string", .notRun, "no caller in the compiler passes an empty filepath"⟩,
  ⟨"thrift_reflection", "(*GlobalDescriptor).LookupException", 0, "range", "string", .notRun, "same"⟩,
  ⟨"thrift_reflection", "(*GlobalDescriptor).LookupIncludedStructsFromMethod", 0, "range", "*StructDescriptor", .notRun, "runtime API, no caller in the compiler"⟩,
  ⟨"thrift_reflection", "(*GlobalDescriptor).LookupIncludedStructsFromStruct", 0, "range", "*StructDescriptor", .notRun, "same"⟩,
  ⟨"thrift_reflection", "(*GlobalDescriptor).LookupIncludedStructsFromType", 0, "range", "*StructDescriptor", .notRun, "same"⟩,
  ⟨"thrift_reflection", "(*GlobalDescriptor).LookupMethod", 0, "range", "string", .notRun, "no caller in the compiler passes an empty filepath"⟩,
  ⟨"thrift_reflection", "(*GlobalDescriptor).LookupService", 0, "range", "string", .notRun, "same"⟩,
  ⟨"thrift_reflection", "(*GlobalDescriptor).LookupStruct", 0, "range", "string", .notRun, "same"⟩,
  ⟨"thrift_reflection", "(*GlobalDescriptor).LookupTypedef", 0, "range", "string", .notRun, "same"⟩,
  ⟨"thrift_reflection", "(*GlobalDescriptor).LookupUnion", 0, "range", "string", .notRun, "same"⟩,
  ⟨"thrift_reflection", "(*GlobalDescriptor).ShowRegisterInfo", 0, "range", "string", .notRun, "runtime API, no caller in the compiler"⟩,
  ⟨"thrift_reflection", "(*GlobalDescriptor).matchRemoteFileDescriptor", 0, "range", "string", .notRun,
    "runs when generated code registers itself (ReplaceFileDescriptor), not in the compiler"⟩
]

def covers (c : Classified) (s : Site) : Bool :=
  c.pkg == s.pkg && c.fn == s.fn && c.ord == s.ord && c.kind == s.kind && c.key == s.key

/-- regenerated obligation: every map-iteration site that go/types finds in the packages reachable
from the compiler's entry points is one of the classified sites (same package, function, ordinal,
kind and key type). A new, moved or retyped site breaks this until it is read and classified. -/
theorem site_inventory_covered : ∀ s ∈ sites, classified.any (fun c => covers c s) = true := by decide

/-- no classified site writes entries to the output in iteration order. -/
theorem emit_in_order_sites :
    (classified.filter (fun c => c.cls == .emitInOrder)).map (fun c => (c.pkg, c.fn, c.ord)) = [] := by decide

end Props.C07
