/- C07 property theorems (stub: not built yet) -/
