/- C18 property theorems (stub: not built yet) -/
