import ThriftVerif.Gen.DeepEqLemmas
import ThriftVerif.Gen.DeepEqSymm
import ThriftVerif.Gen.DeepEqRepaired
import ThriftVerif.Generated.C18
/-
  C18 — generated DeepEqual is structural equality (DESIGN.md §5.18).

  Model: `Gen.DeepEq.deepEqual` (templates/deep_equal.go, statement by statement, for two disjoint object
  graphs), `deepEqualTop` (the identical-pointer shortcut), `Gen.DeepEq.toW` (Write with the validate_set block of
  FieldWriteSet). Specification: `Gen.DeepEq.valEq`. Skeleton facts of the template: `Generated.C18.facts`
  (regenerated from the working tree on every run).

  The full property statement

      theorem deep_equal_iff (P) (i) (a b) :
        deepEqual facts P (.struct i) a b = .ok (valEq P (.struct i) a b)

  is FALSE on the current tree, in three ways, each with a `decide`d witness below that the check replays on the
  generated code on every run:
    * `deep_equal_iff_fails_missing_key`      map<i32,i32>  {1:0} vs {2:0}            → true   (valEq: false)
    * `deep_equal_iff_fails_struct_key`       map<K,i32>    {K{1}:7} vs its deep copy → false  (valEq: true)
    * `deep_equal_iff_fails_optional_binary`  optional binary: unset vs empty         → true   (valEq: false)
  `deep_equal_iff_partial` is the statement on the pairs outside these shapes (hypothesis `aligned`, decidable);
  `deep_equal_iff_repaired` is the statement for the template after the planned repair of the first defect.
-/
namespace Props.C18
open Gen Gen.DeepEq

abbrev facts := Generated.C18.facts

/-- tie: the template of the working tree tests `len(tgt) != len(src)` before the element loop -/
theorem facts_current : facts.lenTest = true := by decide

/-- On every pair whose maps, met in lockstep, have base-typed keys and EQUAL KEY SETS (or are empty / of different
size), and which does not pit an unset optional binary against a set one, DeepEqual answers structural equality. -/
theorem deep_equal_iff_partial (P : Prog) (ty : Ty) (a b : GoVal) (h : aligned P ty a b = true) :
    deepEqual facts P ty a b = .ok (valEq P ty a b) :=
  deepEqual_eq_valEq facts facts_current P a ty b h

-- the hypothesis is satisfiable, also by pairs of different values and by nested maps
example : aligned Witness.P (.struct 1) Witness.m10 Witness.m13 = true := by decide
example : aligned Witness.P (.struct 1) Witness.m10 Witness.m10 = true := by decide
example : aligned Witness.P (.struct 3) Witness.emptyBin Witness.emptyBin = true := by decide

/-- negative witness 1 (DESIGN §7): `{1:0}` vs `{2:0}` in a `map<i32,i32>`: equal length, the missing key reads as the
zero value. Stated for the template as extracted: it disappears once the loop uses the comma-ok form. -/
theorem deep_equal_iff_fails_missing_key : facts.commaOk = false →
    deepEqual facts Witness.P (.struct 1) Witness.m10 Witness.m20 = .ok true ∧
    valEq Witness.P (.struct 1) Witness.m10 Witness.m20 = false := by decide

/-- negative witness 2: a struct-typed map key is a pointer; the key of a deep copy is never found in the other map -/
theorem deep_equal_iff_fails_struct_key :
    deepEqual facts Witness.P (.struct 2) Witness.k17 Witness.k17 = .ok false ∧
    valEq Witness.P (.struct 2) Witness.k17 Witness.k17 = true := by decide

/-- negative witness 3: an unset optional binary equals a set, empty one (`bytes.Compare(nil, []byte{}) == 0`) -/
theorem deep_equal_iff_fails_optional_binary :
    deepEqual facts Witness.P (.struct 3) Witness.unsetBin Witness.emptyBin = .ok true ∧
    valEq Witness.P (.struct 3) Witness.unsetBin Witness.emptyBin = false := by decide

/-- THE REPAIRED TEMPLATE (`_src, ok := src[k]; if !ok { return false }`, i.e. any `Facts` with `commaOk`): DeepEqual is
structural equality on EVERY well-shaped pair — no condition on the key sets (a pigeonhole argument: same size and every
key of the one found in the other give the same key set). `shaped` only asks for Go-typed values (base slots typed, map
keys pairwise different), empty struct-keyed maps and no unset-vs-set optional binary: defects 2 and 3 are not repaired by it. -/
theorem deep_equal_iff_repaired (F : Facts) (hL : F.lenTest = true) (hC : F.commaOk = true) (P : Prog) (ty : Ty) (a b : GoVal)
    (h : shaped P ty a b = true) : deepEqual F P ty a b = .ok (valEq P ty a b) :=
  deepEqual_eq_valEq_rep F hL hC P a ty b h

-- satisfiable by the very pair that fails on the current tree; the repaired template answers false on it
example : shaped Witness.P (.struct 1) Witness.m10 Witness.m20 = true ∧
    deepEqual { lenTest := true, commaOk := true } Witness.P (.struct 1) Witness.m10 Witness.m20 = .ok false := by decide

/-- the specification itself is symmetric on values a Go program can hold (`wf`: shapes follow the types, the keys
of every map with base-typed keys are pairwise different) -/
theorem spec_symmetric (P : Prog) (ty : Ty) (a b : GoVal) (ha : wf P ty a = true) (hb : wf P ty b = true) :
    valEq P ty a b = valEq P ty b a :=
  valEq_comm P a ty b ha hb

/-- symmetric on the pairs of `deep_equal_iff_partial` (the hypothesis `aligned` is itself symmetric on well-formed values) -/
theorem deep_equal_symm_partial (P : Prog) (ty : Ty) (a b : GoVal) (ha : wf P ty a = true) (hb : wf P ty b = true)
    (h : aligned P ty a b = true) : deepEqual facts P ty a b = deepEqual facts P ty b a := by
  rw [deep_equal_iff_partial P ty a b h, deep_equal_iff_partial P ty b a (aligned_comm P a ty b ha hb h),
    spec_symmetric P ty a b ha hb]

example : wf Witness.P (.struct 1) Witness.m10 = true ∧ wf Witness.P (.struct 1) Witness.m13 = true ∧
    aligned Witness.P (.struct 1) Witness.m10 Witness.m13 = true := by decide

/-- the asymmetric residue: `{1:0}.DeepEqual({2:5})` but not `{2:5}.DeepEqual({1:0})` -/
theorem deep_equal_not_symmetric : facts.commaOk = false →
    deepEqual facts Witness.P (.struct 1) Witness.m10 Witness.m25 = .ok true ∧
    deepEqual facts Witness.P (.struct 1) Witness.m25 Witness.m10 = .ok false := by decide

/-- no false negatives: in a program without struct-typed map keys, two structurally equal values are reported equal
(what remains wrong there only makes DIFFERENT values compare equal) -/
theorem deep_equal_no_false_negative (P : Prog) (hP : P.noStructKey = true) (ty : Ty) (hty : ty.noStructKey = true)
    (a b : GoVal) (h : valEq P ty a b = true) : deepEqual facts P ty a b = .ok true :=
  valEq_deepEqual facts facts_current P hP a ty b hty h

example : Witness.P1.noStructKey = true ∧ (Ty.struct 1).noStructKey = true ∧
    valEq Witness.P1 (.struct 1) Witness.m10 Witness.m10 = true := by decide

/-- reflexive on deep copies: a value without NaN whose struct-keyed maps are empty (and that respects Go's typing:
map keys pairwise different) is DeepEqual to its deep copy. Both exclusions are necessary: see
`deep_equal_iff_fails_struct_key` and `deep_copy_nan` below. -/
theorem deep_equal_refl (P : Prog) (ty : Ty) (a : GoVal) (h : selfOK P ty a = true) :
    deepEqual facts P ty a a = .ok true :=
  deepEqual_refl facts facts_current P a ty h

example : selfOK Witness.P (.struct 1) Witness.m13 = true := by decide
/-- a NaN is not equal to its copy (Go `==`), so neither is the struct holding it — unless it is the same pointer -/
example : deepEqual facts Witness.PD (.struct 0) (.strct [.dbl 0x7ff8000000000000]) (.strct [.dbl 0x7ff8000000000000]) = .ok false := by decide

/-- `x.DeepEqual(x)` (the same pointer) is true whatever x holds (pointer shortcut), NaN included -/
theorem deep_equal_identical (P : Prog) (i : Nat) (a b : GoVal) : deepEqualTop facts P i true a b = .ok true := rfl

/-- no call panics: nil receivers, nil arguments, nil fields, nil / empty / different-length containers -/
theorem deep_equal_nil_safe (P : Prog) (i : Nat) (same : Bool) (a b : GoVal) :
    deepEqualTop facts P i same a b ≠ .panic ∧
    deepEqual facts P (.struct i) .nil b = .ok (isNilV b) ∧          -- nil receiver: true iff the argument is nil
    deepEqual facts P (.struct i) (.strct []) .nil ≠ .panic := by
  refine ⟨?_, rfl, deepEqual_ne_panic facts facts_current P _ _ _⟩
  cases same
  · exact deepEqual_ne_panic facts facts_current P a (.struct i) b
  · simp [deepEqualTop]

/-- the set check of Write (`for i … for j := i+1 …`) answers "not unique" iff some pair `i < j` compares equal
under the comparison the template uses (`setCmp`: the generated DeepEqual with gen_deep_equal, reflect.DeepEqual
otherwise), provided every comparison answers (no ill-typed element) -/
theorem validate_set_iff (P : Prog) (de : Bool) (e : Ty) (xs : List GoVal)
    (hok : ∀ x ∈ xs, ∀ y ∈ xs, ∃ c, setCmp facts P de e x y = .ok c) :
    dupCheck (setCmp facts P de e) xs = .ok true ↔
      ∃ (i j : Nat) (_ : i < j) (hj : j < xs.length), setCmp facts P de e (xs[i]'(by omega)) xs[j] = .ok true := by
  rw [dupCheck_eq _ xs hok, ← hasDup_iff]
  constructor
  · intro h; injection h
  · intro h; rw [h]

-- satisfiable: two equal i32 elements
example : dupCheck (setCmp facts Witness.P true .i32) [.int 1, .int 2, .int 1] = .ok true := by decide

/-- how Write uses it: with validate_set, a set whose check finds a pair is refused (`err`), one whose check finds none
is written as without the option -/
theorem validate_set_write (P : Prog) (de : Bool) (e : Ty) (xs : List GoVal) :
    (P.validateSet = true → dupCheck (setCmp facts P de e) xs = .ok true → toW facts P de (.set e) (.list xs) = .err) ∧
    (P.validateSet = true → dupCheck (setCmp facts P de e) xs = .ok false →
      toW facts P de (.set e) (.list xs) = (toWList facts P de e xs >>= fun ws => .ok (.set e.ttype ws))) ∧
    (P.validateSet = false →
      toW facts P de (.set e) (.list xs) = (toWList facts P de e xs >>= fun ws => .ok (.set e.ttype ws))) := by
  refine ⟨?_, ?_, ?_⟩
  · intro hv hd; simp [toW, hv, hd]
  · intro hv hd; simp only [toW, hv, hd, if_true]
  · intro hv; simp only [toW, hv, Bool.false_eq_true, if_false]

/-- consequence of negative witness 1 for Write: a set of two DIFFERENT maps is refused as "not unique" -/
theorem validate_set_rejects_distinct : facts.commaOk = false →
    isErr (toW facts Witness.P true (.struct 4) Witness.setOfMaps) = true ∧
    valEq Witness.P (.map .i32 .i32) (.map [(.int 1, .int 0)]) (.map [(.int 2, .int 0)]) = false := by decide

/-- without gen_deep_equal the Write modelled here is `Gen.Std.toW` (C02's model) -/
theorem write_eq_std (P : Prog) (ty : Ty) (v : GoVal) : toW facts P false ty v = Std.toW P ty v :=
  toW_eq_std facts P v ty

end Props.C18
