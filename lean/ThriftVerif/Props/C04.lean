/- C04 property theorems (stub: not built yet) -/
